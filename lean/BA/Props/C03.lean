/-
  C03 — Collateral ledgers are exact: pledge, deposits and the network pledge total.
  (also the miner-solvency half of C01 and the "balance invariants never broken" half of C05)
  Theorems over the ledger model `BA.MinerLedger`.
-/
import BA.Lemmas.MinerLedger

namespace BA.MinerLedger
open BA

/-- The ledger invariant: every memo equals what is recomputed from the individual entries, the
    miner is solvent, and its part of the network pledge total is `ip + lf` minus the creation
    deposit that was locked without notifying the power actor (finding F1). -/
structure Good (s : St) : Prop where
  pcd_eq : s.pcd = depositsOf s.precommits
  ip_eq : s.ip = depositsOf s.sectors
  pre_nodup : NodupKeys s.precommits
  sec_nodup : NodupKeys s.sectors
  pre_nonneg : NonnegVals s.precommits
  sec_nonneg : NonnegVals s.sectors
  net_eq : s.netTotal = s.ip + s.lf - s.unaccounted
  lf_nonneg : 0 ≤ s.lf
  debt_nonneg : 0 ≤ s.debt
  solvent : s.pcd + s.lf + s.ip ≤ s.balance
  unacc_nonneg : 0 ≤ s.unaccounted

theorem Good.pcd_nonneg {s : St} (h : Good s) : 0 ≤ s.pcd := by
  rw [h.pcd_eq]; exact depositsOf_nonneg _ h.pre_nonneg
theorem Good.ip_nonneg {s : St} (h : Good s) : 0 ≤ s.ip := by
  rw [h.ip_eq]; exact depositsOf_nonneg _ h.sec_nonneg

theorem good_init : Good {} := by
  constructor <;> simp [depositsOf, NodupKeys, NonnegVals, keys]

theorem getUnlocked_ok {s : St} {u : Int} (h : getUnlocked s = .ok u) :
    u = s.balance - s.lf - s.pcd - s.ip ∧ 0 ≤ u := by
  unfold getUnlocked at h
  simp only [guard_ok] at h
  obtain ⟨h1, h2⟩ := h
  injection h2 with h2
  unfold unlocked at h1 h2
  omega

theorem getAvailable_ok {s : St} {a : Int} (h : getAvailable s = .ok a) :
    a = s.balance - s.lf - s.pcd - s.ip - s.debt ∧ 0 ≤ a + s.debt := by
  unfold getAvailable at h
  cases hu : getUnlocked s with
  | error e => simp [hu] at h
  | ok u =>
    simp only [hu] at h
    injection h with h
    have := getUnlocked_ok hu
    omega

theorem repayDebts_ok {s s1 : St} {fee : Int} (h : repayDebts s = .ok (s1, fee)) :
    s1 = { s with debt := 0 } ∧ fee = s.debt ∧ s.debt ≤ s.balance - s.lf - s.pcd - s.ip := by
  unfold repayDebts at h
  cases hu : getUnlocked s with
  | error e => simp [hu] at h
  | ok u =>
    simp only [hu, guard_ok] at h
    obtain ⟨h1, h2⟩ := h
    injection h2 with h2
    injection h2 with h3 h4
    have := getUnlocked_ok hu
    exact ⟨h3.symm, h4.symm, by omega⟩

theorem repayPartial_ok {s s2 : St} {vested toBurn tu : Int}
    (hv : 0 ≤ vested) (hvl : vested ≤ s.lf) (hd : 0 ≤ s.debt)
    (h : repayPartial s vested = .ok (s2, toBurn, tu)) :
    s2 = { s with lf := s.lf - tu, debt := s.debt - toBurn } ∧
    0 ≤ tu ∧ tu ≤ s.lf ∧ 0 ≤ toBurn ∧ toBurn ≤ s.debt ∧
    toBurn ≤ s.balance - (s.lf - tu) - s.pcd - s.ip ∧
    (tu = 0 ∨ vested ≤ tu) := by
  unfold repayPartial at h
  simp only at h
  simp only [guard_ok] at h
  obtain ⟨h1, h⟩ := h
  split at h
  · cases h
  · rename_i u hu
    injection h with h
    injection h with h2 h3
    injection h3 with h3 h4
    have hu' := getUnlocked_ok hu
    simp only at hu'
    subst h2; subst h3; subst h4
    by_cases hc : s.debt = 0 ∨ s.lf = 0
    · have e : (if s.debt = 0 ∨ s.lf = 0 then (0 : Int) else vested + min s.debt (s.lf - vested)) = 0 :=
        if_pos hc
      rw [e] at hu' ⊢
      refine ⟨rfl, ?_, ?_, ?_, ?_, ?_, Or.inl rfl⟩ <;> omega
    · have e : (if s.debt = 0 ∨ s.lf = 0 then (0 : Int) else vested + min s.debt (s.lf - vested))
          = vested + min s.debt (s.lf - vested) := if_neg hc
      rw [e] at hu' ⊢
      refine ⟨rfl, ?_, ?_, ?_, ?_, ?_, Or.inr (by omega)⟩ <;> omega

theorem notify_ok {s s' : St} {others delta : Int} (h : notify s others delta = .ok s') :
    s' = { s with netTotal := s.netTotal + delta } ∧ 0 ≤ others + s'.netTotal ∨
    (delta = 0 ∧ s' = s) := by
  unfold notify at h
  by_cases hz : delta = 0
  · simp [hz] at h; right; exact ⟨hz, h.symm⟩
  · simp only [hz, if_false, guard_ok] at h
    obtain ⟨h1, h2⟩ := h
    injection h2 with h2
    left; subst h2; simp; omega

theorem notify_fields {s s' : St} {others delta : Int} (h : notify s others delta = .ok s') :
    s' = { s with netTotal := s.netTotal + delta } := by
  cases notify_ok h with
  | inl h => exact h.1
  | inr h => obtain ⟨h1, h2⟩ := h; subst h1; subst h2; simp

theorem burn_ok {s s' : St} {amt : Int} (h : burn s amt = .ok s') :
    s' = { s with balance := s.balance - amt, burnt := s.burnt + amt } ∧ 0 ≤ amt ∧ amt ≤ s.balance := by
  unfold burn at h
  simp only [guard_ok] at h
  obtain ⟨h1, h2, h3⟩ := h
  injection h3 with h3
  exact ⟨h3.symm, by omega, by omega⟩

theorem checked_ok {chk : Bool} {s s' : St} (h : checked chk s = .ok s') : s' = s := by
  unfold checked at h
  cases chk with
  | false => simp at h; exact h.symm
  | true =>
    simp only [if_true] at h
    by_cases hb : balanceOk s
    · simp [hb] at h; exact h.symm
    · simp [hb] at h

theorem any_false_mem {α : Type} (l : List α) (p : α → Bool) (h : ¬ (l.any p = true)) :
    ∀ x ∈ l, p x = false := by
  intro x hx
  cases hp : p x with
  | false => rfl
  | true => exact absurd (List.any_eq_true.mpr ⟨x, hx, hp⟩) h

/-- **The ledger invariant is preserved by every successful operation** (with or without the
    end-of-method balance check). -/
theorem apply_good (chk : Bool) (s : St) (others : Int) (op : Op) (s' : St) (out : Out)
    (hg : Good s) (h : apply chk s others op = .ok (s', out)) : Good s' := by
  cases op with
  | create value deposit =>
    simp only [apply, guard_ok] at h
    obtain ⟨h1, h⟩ := h
    injection h with h; injection h with h _; subst h
    constructor <;> first
      | exact hg.pcd_eq | exact hg.ip_eq | exact hg.pre_nodup | exact hg.sec_nodup
      | exact hg.pre_nonneg | exact hg.sec_nonneg
      | (have := hg.net_eq; have := hg.lf_nonneg; have := hg.solvent; have := hg.unacc_nonneg
         have := hg.debt_nonneg; simp only; omega)
  | fund v =>
    simp only [apply, guard_ok] at h
    obtain ⟨h1, h⟩ := h
    injection h with h; injection h with h _; subst h
    constructor <;> first
      | exact hg.pcd_eq | exact hg.ip_eq | exact hg.pre_nodup | exact hg.sec_nodup
      | exact hg.pre_nonneg | exact hg.sec_nonneg
      | (have := hg.net_eq; have := hg.lf_nonneg; have := hg.solvent; have := hg.unacc_nonneg
         have := hg.debt_nonneg; simp only; omega)
  | precommit deps =>
    simp only [apply, guard_ok] at h
    obtain ⟨_, h2, h3, h⟩ := h
    cases ha : getAvailable s with
    | error e => simp [ha] at h
    | ok avail =>
      simp only [ha] at h
      cases hr : repayDebts s with
      | error e => simp [hr] at h
      | ok r =>
        obtain ⟨s1, fee⟩ := r
        simp only [hr, guard_ok] at h
        obtain ⟨h4, h⟩ := h
        obtain ⟨e1, e2, e3⟩ := repayDebts_ok hr
        have hav := getAvailable_ok ha
        cases hb : burn { s1 with pcd := s1.pcd + depositsOf deps, precommits := s1.precommits ++ deps,
                                  cronActive := true } fee with
        | error e => simp [hb] at h
        | ok s3 =>
          simp only [hb] at h
          cases hc : checked chk s3 with
          | error e => simp [hc] at h
          | ok s4 =>
            simp only [hc] at h
            injection h with h; injection h with h _; subst h
            have := checked_ok hc; subst this
            obtain ⟨b1, b2, b3⟩ := burn_ok hb
            subst b1; subst e1
            have hany := any_false_mem deps _ h2
            have hdn : NonnegVals deps := by
              intro p hp
              have := hany p hp
              simp only [Bool.or_eq_false_iff, decide_eq_false_iff_not] at this
              omega
            have hfresh : ∀ p ∈ deps, alookup p.1 s.precommits = none := by
              intro p hp
              have := hany p hp
              simp only [Bool.or_eq_false_iff] at this
              cases hl : alookup p.1 s.precommits with
              | none => rfl
              | some v => rw [hl] at this; simp at this
            have hdd : NodupKeys deps := by
              unfold NodupKeys keys; exact Classical.not_not.mp h3
            have hdnn := depositsOf_nonneg deps hdn
            constructor
            · simp only; rw [depositsOf_append, hg.pcd_eq]
            · exact hg.ip_eq
            · exact nodupKeys_append _ _ hg.pre_nodup hdd hfresh
            · exact hg.sec_nodup
            · intro p hp
              simp only at hp
              rcases List.mem_append.mp hp with hp | hp
              · exact hg.pre_nonneg p hp
              · exact hdn p hp
            · exact hg.sec_nonneg
            · exact hg.net_eq
            · exact hg.lf_nonneg
            · simp
            · have := hg.solvent; simp only; omega
            · exact hg.unacc_nonneg
  | proveCommit secs =>
    simp only [apply, guard_ok] at h
    obtain ⟨_, h2, h3, h⟩ := h
    obtain ⟨r1, r2, r3, r4, r5⟩ := removeAll_spec (secs.map (·.1)) s.precommits hg.pre_nodup hg.pre_nonneg
    cases hrm : removeAll s.precommits (secs.map (·.1)) with
    | mk pre' released =>
      rw [hrm] at r1 r2 r3 r4 r5
      simp only [hrm] at h
      simp only at r1 r2 r3 r4 r5
      cases hu : getUnlocked { s with pcd := s.pcd - released, precommits := pre' } with
      | error e => simp [hu] at h
      | ok u =>
        simp only [hu, guard_ok] at h
        obtain ⟨h4, h⟩ := h
        have hu' := getUnlocked_ok hu
        simp only at hu'
        cases hc : checked chk { s with pcd := s.pcd - released, precommits := pre',
                                        ip := s.ip + depositsOf secs, sectors := s.sectors ++ secs } with
        | error e => simp [hc] at h
        | ok s3 =>
          simp only [hc] at h
          cases hn : notify s3 others (depositsOf secs) with
          | error e => simp [hn] at h
          | ok s4 =>
            simp only [hn] at h
            injection h with h; injection h with h _; subst h
            have := notify_fields hn; subst this
            have := checked_ok hc; subst this
            have hany := any_false_mem secs _ h2
            have hsn : NonnegVals secs := by
              intro p hp
              have := hany p hp
              simp at this
              omega
            have hfresh : ∀ p ∈ secs, alookup p.1 s.sectors = none := by
              intro p hp
              have := hany p hp
              simp at this
              exact this.2
            have hsd : NodupKeys secs := by
              unfold NodupKeys keys; exact Classical.not_not.mp h3
            constructor
            · simp only; rw [hg.pcd_eq]; omega
            · simp only; rw [depositsOf_append, hg.ip_eq]
            · exact r2
            · exact nodupKeys_append _ _ hg.sec_nodup hsd hfresh
            · exact r3
            · intro p hp
              simp only at hp
              rcases List.mem_append.mp hp with hp | hp
              · exact hg.sec_nonneg p hp
              · exact hsn p hp
            · have := hg.net_eq; simp only; omega
            · exact hg.lf_nonneg
            · exact hg.debt_nonneg
            · have := hg.solvent; simp only; omega
            · exact hg.unacc_nonneg
  | applyRewards reward penalty vested =>
    simp only [apply, guard_ok] at h
    obtain ⟨h1, h⟩ := h
    cases hu : getUnlocked { s with balance := s.balance + reward } with
    | error e => simp [hu] at h
    | ok u =>
      simp only [hu, guard_ok] at h
      obtain ⟨h2, h⟩ := h
      have hu' := getUnlocked_ok hu
      simp only at hu'
      have hlk : 0 ≤ lockedReward reward ∧ lockedReward reward ≤ reward := by
        unfold lockedReward; omega
      cases hp : repayPartial { s with balance := s.balance + reward,
                                       lf := s.lf - vested + lockedReward reward,
                                       debt := s.debt + penalty } 0 with
      | error e => simp [hp] at h
      | ok r =>
        obtain ⟨s2, toBurn, tu⟩ := r
        simp only [hp] at h
        have hd := hg.debt_nonneg
        have hl := hg.lf_nonneg
        obtain ⟨p1, p2, p3, p4, p5, p6, _⟩ :=
          repayPartial_ok (by omega) (by simp only; omega) (by simp only; omega) hp
        simp only at p3 p5 p6
        cases hn : notify s2 others (lockedReward reward - vested - tu) with
        | error e => simp [hn] at h
        | ok s3 =>
          simp only [hn] at h
          cases hb : burn s3 toBurn with
          | error e => simp [hb] at h
          | ok s4 =>
            simp only [hb] at h
            cases hc : checked chk s4 with
            | error e => simp [hc] at h
            | ok s5 =>
              simp only [hc] at h
              injection h with h; injection h with h _; subst h
              have := checked_ok hc; subst this
              obtain ⟨b1, _, _⟩ := burn_ok hb
              have n1 := notify_fields hn
              subst b1; subst n1; subst p1
              constructor <;> first
                | exact hg.pcd_eq | exact hg.ip_eq | exact hg.pre_nodup | exact hg.sec_nodup
                | exact hg.pre_nonneg | exact hg.sec_nonneg
                | (have := hg.net_eq; have := hg.solvent; have := hg.unacc_nonneg
                   simp only; omega)
  | withdraw requested vested early =>
    simp only [apply, guard_ok] at h
    obtain ⟨h1, h0, h⟩ := h
    cases ha : getAvailable { s with lf := s.lf - vested } with
    | error e => simp [ha] at h
    | ok avail =>
      simp only [ha] at h
      cases hr : repayDebts { s with lf := s.lf - vested } with
      | error e => simp [hr] at h
      | ok r =>
        obtain ⟨s2, fee⟩ := r
        simp only [hr, guard_ok] at h
        obtain ⟨h4, h⟩ := h
        obtain ⟨e1, e2, e3⟩ := repayDebts_ok hr
        have hav := getAvailable_ok ha
        simp only at e2 e3 hav
        cases hb : burn { s2 with balance := s2.balance - min avail requested } fee with
        | error e => simp [hb] at h
        | ok s4 =>
          simp only [hb] at h
          cases hn : notify s4 others (-vested) with
          | error e => simp [hn] at h
          | ok s5 =>
            simp only [hn] at h
            cases hc : checked chk s5 with
            | error e => simp [hc] at h
            | ok s6 =>
              simp only [hc] at h
              injection h with h; injection h with h _; subst h
              have := checked_ok hc; subst this
              obtain ⟨b1, _, _⟩ := burn_ok hb
              have n1 := notify_fields hn
              subst n1; subst b1; subst e1
              have hd := hg.debt_nonneg
              constructor <;> first
                | exact hg.pcd_eq | exact hg.ip_eq | exact hg.pre_nodup | exact hg.sec_nodup
                | exact hg.pre_nonneg | exact hg.sec_nonneg
                | (have := hg.net_eq; have := hg.solvent; have := hg.unacc_nonneg
                   have := hg.lf_nonneg; simp only; omega)
  | repayDebt value vested =>
    simp only [apply, guard_ok] at h
    obtain ⟨h1, h⟩ := h
    cases hp : repayPartial { s with balance := s.balance + value } vested with
    | error e => simp [hp] at h
    | ok r =>
      obtain ⟨s1, toBurn, tu⟩ := r
      simp only [hp] at h
      have hd := hg.debt_nonneg
      have hl := hg.lf_nonneg
      obtain ⟨p1, p2, p3, p4, p5, p6, _⟩ :=
        repayPartial_ok (by omega) (by simp only; omega) (by simp only; omega) hp
      simp only at p3 p5 p6
      cases hn : notify s1 others (-tu) with
      | error e => simp [hn] at h
      | ok s2 =>
        simp only [hn] at h
        cases hb : burn s2 toBurn with
        | error e => simp [hb] at h
        | ok s3 =>
          simp only [hb] at h
          cases hc : checked chk s3 with
          | error e => simp [hc] at h
          | ok s4 =>
            simp only [hc] at h
            injection h with h; injection h with h _; subst h
            have := checked_ok hc; subst this
            obtain ⟨b1, _, _⟩ := burn_ok hb
            have n1 := notify_fields hn
            subst b1; subst n1; subst p1
            constructor <;> first
              | exact hg.pcd_eq | exact hg.ip_eq | exact hg.pre_nodup | exact hg.sec_nodup
              | exact hg.pre_nonneg | exact hg.sec_nonneg
              | (have := hg.net_eq; have := hg.solvent; have := hg.unacc_nonneg
                 simp only; omega)
  | deadline expiredPre expiredSectors penalty vested =>
    simp only [apply, guard_ok] at h
    obtain ⟨h1, h⟩ := h
    obtain ⟨r1, r2, r3, r4, r5⟩ := removeAll_spec expiredPre s.precommits hg.pre_nodup hg.pre_nonneg
    obtain ⟨q1, q2, q3, q4, q5⟩ := removeAll_spec expiredSectors s.sectors hg.sec_nodup hg.sec_nonneg
    cases hrm : removeAll s.precommits expiredPre with
    | mk pre' depositBurn =>
      cases hrs : removeAll s.sectors expiredSectors with
      | mk secs' released =>
        rw [hrm] at r1 r2 r3 r4 r5
        rw [hrs] at q1 q2 q3 q4 q5
        simp only at r1 r2 r3 r4 r5 q1 q2 q3 q4 q5
        simp only [hrm, hrs] at h
        cases hp : repayPartial { s with precommits := pre', pcd := s.pcd - depositBurn,
                                         sectors := secs', ip := s.ip - released,
                                         debt := s.debt + depositBurn + penalty } vested with
        | error e => simp [hp] at h
        | ok r =>
          obtain ⟨s2, toBurn, tu⟩ := r
          simp only [hp] at h
          have hd := hg.debt_nonneg
          have hl := hg.lf_nonneg
          obtain ⟨p1, p2, p3, p4, p5, p6, p7⟩ :=
            repayPartial_ok (by omega) (by simp only; omega) (by simp only; omega) hp
          simp only at p3 p5 p6
          cases hb : burn { s2 with lf := s2.lf - (if tu = 0 then vested else 0),
                                    cronActive := continueCron { s2 with lf := s2.lf - (if tu = 0 then vested else 0) } } toBurn with
          | error e => simp [hb] at h
          | ok s5 =>
            simp only [hb] at h
            cases hn : notify s5 others (-released - tu - (if tu = 0 then vested else 0)) with
            | error e => simp [hn] at h
            | ok s6 =>
              simp only [hn] at h
              injection h with h; injection h with h _; subst h
              obtain ⟨b1, _, _⟩ := burn_ok hb
              have n1 := notify_fields hn
              subst n1; subst b1; subst p1
              constructor
              · simp only; rw [hg.pcd_eq]; omega
              · simp only; rw [hg.ip_eq]; omega
              · exact r2
              · exact q2
              · exact r3
              · exact q3
              · have := hg.net_eq; simp only; split <;> omega
              · simp only; split <;> omega
              · simp only; omega
              · have := hg.solvent; simp only; split <;> omega
              · exact hg.unacc_nonneg
  | terminate processed penalty vested =>
    simp only [apply, guard_ok] at h
    obtain ⟨h1, h⟩ := h
    by_cases hemp : processed.isEmpty = true
    · simp only [hemp, if_true] at h
      cases hc : checked chk s with
      | error e => simp [hc] at h
      | ok s1 =>
        simp only [hc] at h
        injection h with h; injection h with h _; subst h
        rw [checked_ok hc]; exact hg
    · simp only [hemp, Bool.false_eq_true, if_false] at h
      obtain ⟨q1, q2, q3, q4, q5⟩ := removeAll_spec processed s.sectors hg.sec_nodup hg.sec_nonneg
      cases hrs : removeAll s.sectors processed with
      | mk secs' released =>
        rw [hrs] at q1 q2 q3 q4 q5
        simp only at q1 q2 q3 q4 q5
        simp only [hrs] at h
        cases hp : repayPartial { s with sectors := secs', ip := s.ip - released,
                                         debt := s.debt + penalty } vested with
        | error e => simp [hp] at h
        | ok r =>
          obtain ⟨s2, toBurn, tu⟩ := r
          simp only [hp] at h
          have hd := hg.debt_nonneg
          have hl := hg.lf_nonneg
          obtain ⟨p1, p2, p3, p4, p5, p6, p7⟩ :=
            repayPartial_ok (by omega) (by simp only; omega) (by simp only; omega) hp
          simp only at p3 p5 p6
          cases hb : burn s2 toBurn with
          | error e => simp [hb] at h
          | ok s3 =>
            simp only [hb] at h
            cases hn : notify s3 others (-released - tu) with
            | error e => simp [hn] at h
            | ok s4 =>
              simp only [hn] at h
              cases hc : checked chk s4 with
              | error e => simp [hc] at h
              | ok s5 =>
                simp only [hc] at h
                injection h with h; injection h with h _; subst h
                obtain ⟨b1, _, _⟩ := burn_ok hb
                have n1 := notify_fields hn
                have c1 := checked_ok hc
                subst c1; subst n1; subst b1; subst p1
                constructor
                · exact hg.pcd_eq
                · simp only; rw [hg.ip_eq]; omega
                · exact hg.pre_nodup
                · exact q2
                · exact hg.pre_nonneg
                · exact q3
                · have := hg.net_eq; simp only; omega
                · simp only; omega
                · simp only; omega
                · have := hg.solvent; simp only; omega
                · exact hg.unacc_nonneg
  | consensusFault penalty slasherReward vested sendOk =>
    simp only [apply, guard_ok] at h
    obtain ⟨h1, h⟩ := h
    cases hp : repayPartial { s with debt := s.debt + penalty } vested with
    | error e => simp [hp] at h
    | ok r =>
      obtain ⟨s2, burnAmount, tu⟩ := r
      simp only [hp] at h
      have hd := hg.debt_nonneg
      have hl := hg.lf_nonneg
      obtain ⟨p1, p2, p3, p4, p5, p6, p7⟩ :=
        repayPartial_ok (by omega) (by simp only; omega) (by simp only; omega) hp
      simp only at p3 p5 p6
      generalize hpaid : (if sendOk = true then min burnAmount slasherReward else 0) = paid at h
      have hpaid0 : 0 ≤ paid ∧ paid ≤ burnAmount := by
        subst hpaid; split <;> omega
      cases hb : burn { s2 with balance := s2.balance - paid } (burnAmount - paid) with
      | error e => simp [hb] at h
      | ok s4 =>
        simp only [hb] at h
        cases hn : notify s4 others (-tu) with
        | error e => simp [hn] at h
        | ok s5 =>
          simp only [hn] at h
          cases hc : checked chk s5 with
          | error e => simp [hc] at h
          | ok s6 =>
            simp only [hc] at h
            injection h with h; injection h with h _; subst h
            obtain ⟨b1, _, _⟩ := burn_ok hb
            have n1 := notify_fields hn
            have c1 := checked_ok hc
            subst c1; subst n1; subst b1; subst p1
            constructor
            · exact hg.pcd_eq
            · exact hg.ip_eq
            · exact hg.pre_nodup
            · exact hg.sec_nodup
            · exact hg.pre_nonneg
            · exact hg.sec_nonneg
            · have := hg.net_eq; simp only; omega
            · simp only; omega
            · simp only; omega
            · have := hg.solvent; simp only; omega
            · exact hg.unacc_nonneg

/-- every reachable ledger state satisfies the invariant -/
theorem run_good (ops : List (Int × Op)) : ∀ s, Good s → Good (run s ops) := by
  induction ops with
  | nil => intro s h; exact h
  | cons hd rest ih =>
    intro s h
    obtain ⟨others, op⟩ := hd
    apply ih
    unfold step
    cases ha : apply true s others op with
    | error e => exact h
    | ok r => obtain ⟨s', out⟩ := r; exact apply_good true s others op s' out h ha

/-- **C03 (pre-commit deposits)**: in every reachable state the recorded pre-commit deposit total
    is the sum of the deposits of the outstanding pre-commitments. -/
theorem pcd_eq_sum (ops : List (Int × Op)) : (run {} ops).pcd = depositsOf (run {} ops).precommits :=
  (run_good ops {} good_init).pcd_eq

/-- **C03 (initial pledge)**: in every reachable state the recorded initial pledge is the sum of the
    pledges of the sectors that are live or await early-termination processing. -/
theorem ip_eq_sector_sum (ops : List (Int × Op)) : (run {} ops).ip = depositsOf (run {} ops).sectors :=
  (run_good ops {} good_init).ip_eq

/-- **C03 (network total), partial**: a miner's part of the power actor's pledge total equals its
    `initial pledge + vesting funds` *minus the creation deposit*, which the constructor locks
    without any notification (finding F1: with the deposit the statement `= ip + lf` is false, see
    `network_pledge_eq_fails_at_creation`). -/
theorem network_pledge_eq_partial (ops : List (Int × Op)) :
    (run {} ops).netTotal = (run {} ops).ip + (run {} ops).lf - (run {} ops).unaccounted :=
  (run_good ops {} good_init).net_eq

/-- **F1 witness**: right after creation the network total is not `ip + lf`. -/
theorem network_pledge_eq_fails_at_creation :
    let s := run {} [(0, .create 100 32)]
    s.netTotal ≠ s.ip + s.lf := by decide

/-- **F1 witness (operations blocked)**: on a network without other pledge, once part of the
    creation deposit has vested an otherwise valid withdrawal fails, because the power actor's
    pledge total would go negative. -/
theorem pledge_total_blocks_withdraw_on_young_network :
    let s := run {} [(0, .create 100 32)]
    (step s 0 (.withdraw 1 2 false)).2.ok = false ∧
    -- the same withdrawal succeeds when the rest of the network holds pledge
    (step s 10 (.withdraw 1 2 false)).2.ok = true := by decide

/-- **C01 (miner solvency)**: in every reachable state the miner's balance covers pre-commit
    deposits + vesting funds + initial pledge, and none of the ledgers is negative. -/
theorem miner_solvent (ops : List (Int × Op)) :
    let s := run {} ops
    s.pcd + s.lf + s.ip ≤ s.balance ∧ 0 ≤ s.pcd ∧ 0 ≤ s.lf ∧ 0 ≤ s.ip ∧ 0 ≤ s.debt := by
  have h := run_good ops {} good_init
  exact ⟨h.solvent, h.pcd_nonneg, h.lf_nonneg, h.ip_nonneg, h.debt_nonneg⟩

/-- **C05 (balance invariants never broken)**: whenever an operation gets as far as the
    end-of-method `check_balance_invariants`, the check passes — from any reachable state, for any
    inputs.  Stated with the check switched off: the resulting state satisfies it anyway. -/
theorem balance_check_never_fires (ops : List (Int × Op)) (others : Int) (op : Op) (s' : St)
    (out : Out) (h : apply false (run {} ops) others op = .ok (s', out)) : balanceOk s' = true := by
  have hg := apply_good false _ others op s' out (run_good ops {} good_init) h
  have := hg.solvent; have := hg.pcd_nonneg; have := hg.lf_nonneg
  have := hg.ip_nonneg; have := hg.debt_nonneg
  simp [balanceOk]; omega

/-- **C03 (never negative)**: a successful notification never leaves the network total negative. -/
theorem network_total_nonneg {s s' : St} {others delta : Int} (h0 : 0 ≤ others + s.netTotal)
    (h : notify s others delta = .ok s') : 0 ≤ others + s'.netTotal := by
  cases notify_ok h with
  | inl h => exact h.2
  | inr h => obtain ⟨_, h2⟩ := h; subst h2; exact h0

/-! Non-vacuity: a concrete history exercising every operation. -/
example :
    let s := run {} [(0, .create 5000 32), (0, .fund 1000), (0, .precommit [(100, 10), (101, 12)]),
                     (0, .proveCommit [(100, 50)]), (0, .applyRewards 40 3 0),
                     (0, .deadline [101] [] 5 1), (0, .withdraw 100 0 false), (0, .repayDebt 7 0)]
    s.pcd = 0 ∧ s.ip = 50 ∧ s.lf = 41 ∧ s.debt = 0 ∧ s.netTotal = 59 ∧ s.unaccounted = 32 ∧
    s.balance = 5927 ∧ s.burnt = 20 := by decide

end BA.MinerLedger
