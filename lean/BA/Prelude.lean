/-
  Prelude shared by all models: error classes, association-list maps keyed by `Nat`,
  and their lemmas.  No imports (model files must stay Mathlib-free so the driver links).
-/
namespace BA

/-- Coarse error classes (the exit-code classes the actors use). -/
inductive Err where
  | forbidden | illegalArgument | illegalState | notFound | insufficientFunds
  | settled | readOnly | sysError | unhandled | assertion
  deriving Repr, DecidableEq, Inhabited

def Err.toString : Err → String
  | .forbidden => "forbidden" | .illegalArgument => "illegal_argument"
  | .illegalState => "illegal_state" | .notFound => "not_found"
  | .insufficientFunds => "insufficient_funds" | .settled => "settled"
  | .readOnly => "read_only" | .sysError => "sys" | .unhandled => "unhandled"
  | .assertion => "assertion"

instance : ToString Err := ⟨Err.toString⟩

/-- lookup in an association list keyed by `Nat` (first match). -/
def alookup {α : Type} (k : Nat) : List (Nat × α) → Option α
  | [] => none
  | (k', v) :: t => if k' = k then some v else alookup k t

/-- set (replace first match, or append). -/
def aset {α : Type} (k : Nat) (v : α) : List (Nat × α) → List (Nat × α)
  | [] => [(k, v)]
  | (k', v') :: t => if k' = k then (k, v) :: t else (k', v') :: aset k v t

/-- remove all entries with key `k`. -/
def aerase {α : Type} (k : Nat) : List (Nat × α) → List (Nat × α)
  | [] => []
  | (k', v') :: t => if k' = k then aerase k t else (k', v') :: aerase k t

@[simp] theorem alookup_nil {α : Type} (k : Nat) : alookup k ([] : List (Nat × α)) = none := rfl

@[simp] theorem alookup_aset_same {α : Type} (k : Nat) (v : α) (l : List (Nat × α)) :
    alookup k (aset k v l) = some v := by
  induction l with
  | nil => simp [aset, alookup]
  | cons h t ih =>
    obtain ⟨k', v'⟩ := h
    by_cases hk : k' = k <;> simp [aset, alookup, hk, ih]

theorem alookup_aset_other {α : Type} (k k2 : Nat) (v : α) (l : List (Nat × α)) (h : k2 ≠ k) :
    alookup k2 (aset k v l) = alookup k2 l := by
  induction l with
  | nil => simp [aset, alookup]; intro h'; exact absurd h'.symm h
  | cons hd t ih =>
    obtain ⟨k', v'⟩ := hd
    by_cases hk : k' = k
    · subst hk
      have : ¬ (k' = k2) := fun e => h e.symm
      simp [aset, alookup, this]
    · by_cases hk2 : k' = k2
      · subst hk2; simp [aset, alookup, hk]
      · simp [aset, alookup, hk, hk2, ih]

theorem alookup_aerase_same {α : Type} (k : Nat) (l : List (Nat × α)) :
    alookup k (aerase k l) = none := by
  induction l with
  | nil => rfl
  | cons hd t ih =>
    obtain ⟨k', v'⟩ := hd
    by_cases hk : k' = k <;> simp [aerase, alookup, hk, ih]

theorem alookup_aerase_other {α : Type} (k k2 : Nat) (l : List (Nat × α)) (h : k2 ≠ k) :
    alookup k2 (aerase k l) = alookup k2 l := by
  induction l with
  | nil => rfl
  | cons hd t ih =>
    obtain ⟨k', v'⟩ := hd
    by_cases hk : k' = k
    · subst hk
      have : ¬ (k' = k2) := fun e => h e.symm
      simp [aerase, alookup, this, ih]
    · by_cases hk2 : k' = k2
      · subst hk2; simp [aerase, alookup, hk]
      · simp [aerase, alookup, hk, hk2, ih]

/-- sum of a list of integers -/
def isum : List Int → Int
  | [] => 0
  | x :: t => x + isum t

@[simp] theorem isum_nil : isum [] = 0 := rfl
@[simp] theorem isum_cons (x : Int) (t : List Int) : isum (x :: t) = x + isum t := rfl
theorem isum_append (a b : List Int) : isum (a ++ b) = isum a + isum b := by
  induction a with
  | nil => simp
  | cons x t ih => simp [ih]; omega

/-- `if c then error e else k` succeeds iff the guard is false and the continuation succeeds. -/
theorem guard_ok {α : Type} {c : Prop} [Decidable c] {e : Err} {k : Except Err α} {u : α} :
    (if c then Except.error e else k) = .ok u ↔ ¬ c ∧ k = .ok u := by
  by_cases h : c <;> simp [h]

end BA
