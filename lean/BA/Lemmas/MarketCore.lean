/- The induction skeleton once more, for predicates that every atomic transition preserves except
   deposits and withdrawals (used for the escrow equation). -/
import BA.Lemmas.MarketEscrow

namespace BA.Market
open BA

/-- `P` is preserved by every atomic transition other than AddBalance / WithdrawBalance -/
structure PreservedCore (P : State → Prop) : Prop where
  advance : ∀ s e, P s → s.epoch ≤ e → P { s with epoch := e }
  publishOne : ∀ s d s' id, P s → ValidDeal s.epoch d → publishOne s d = .ok (s', id) → P s'
  activateOne : ∀ s caller exp sector id, P s → canActivate s caller exp id = true →
    P (activateOne s sector id)
  settleOne : ∀ s id, P s → P (settleOne s id).1
  unmap : ∀ s caller sectors, P s → P (unmapSectors s caller sectors)
  terminateOne : ∀ s c id s' a, P s → terminateOne s c s.epoch id = .ok (s', a) → P s'
  dealOpsSub : ∀ s l, P s → (∀ x, x ∈ l → x ∈ s.dealOps) → P { s with dealOps := l }
  cronOne : ∀ s id s' a, P s → cronOne s id = .ok (s', a) → P s'
  cronDone : ∀ s e, P s → P { s with lastCron := e }

def Op.movesNoFunds : Op → Bool
  | .addBalance _ _ _ => false
  | .withdraw _ _ _ _ _ => false
  | _ => true

theorem publishAll_preserves_core {P : State → Prop} (hp : PreservedCore P) (ds : List Proposal) :
    ∀ (s s' : State) (ids : List Nat), P s → (∀ d ∈ ds, ValidDeal s.epoch d) →
      publishAll s ds = .ok (s', ids) → P s' := by
  induction ds with
  | nil => intro s s' ids h _ he; simp [publishAll] at he; rw [← he.1]; exact h
  | cons d rest ih =>
    intro s s' ids h hv he
    unfold publishAll at he
    cases h1 : publishOne s d with
    | error e => simp [h1] at he
    | ok r =>
      obtain ⟨s1, id⟩ := r
      simp only [h1] at he
      cases h2 : publishAll s1 rest with
      | error e => simp [h2] at he
      | ok r2 =>
        obtain ⟨s2, ids2⟩ := r2
        simp only [h2] at he
        injection he with he
        injection he with he1 he2
        subst he1
        have hP1 := hp.publishOne s d s1 id h (hv d (by simp)) h1
        apply ih s1 s2 ids2 hP1 _ h2
        intro d' hd'
        rw [publishOne_epoch h1]
        exact hv d' (by simp [hd'])

theorem activateFold_preserves_core {P : State → Prop} (hp : PreservedCore P) (c : Nat) (e : Int) (sec : Nat)
    (ids : List Nat) : ∀ s, P s → hasDup ids = false → (∀ id ∈ ids, canActivate s c e id = true) →
      P (ids.foldl (fun acc id => activateOne acc sec id) s) := by
  induction ids with
  | nil => intro s h _ _; exact h
  | cons id rest ih =>
    intro s h hd hall
    obtain ⟨hn, hd'⟩ := hasDup_cons_false hd
    simp only [List.foldl_cons]
    apply ih _ (hp.activateOne s c e sec id h (hall id (by simp))) hd'
    intro id2 h2
    apply canActivate_activateOne_other (hall id2 (by simp [h2]))
    intro heq; subst heq; exact hn h2

theorem activateSectors_preserves_core {P : State → Prop} (hp : PreservedCore P) (c : Nat)
    (secs : List SectorDeals) : ∀ s, P s → P (activateSectors c s secs).1 := by
  induction secs with
  | nil => intro s h; exact h
  | cons sd rest ih =>
    intro s h
    simp only [activateSectors]
    apply ih
    unfold activateSector
    by_cases hd : hasDup sd.ids = true
    · simp [hd]; exact h
    · have hd' : hasDup sd.ids = false := by simpa using hd
      simp only [hd', Bool.false_eq_true, if_false]
      by_cases ha : sd.ids.all (canActivate s c sd.expiry) = true
      · simp only [ha, if_true]
        apply activateFold_preserves_core hp c sd.expiry sd.sector sd.ids s h hd'
        intro id hid
        exact (List.all_eq_true.mp ha) id hid
      · simp [ha]; exact h

theorem sccPieces_preserves_core {P : State → Prop} (hp : PreservedCore P) (c sec : Nat) (mc : Int)
    (ps : List Piece) : ∀ s, P s → P (sccPieces c sec mc s ps).1 := by
  induction ps with
  | nil => intro s h; exact h
  | cons p rest ih =>
    intro s h
    unfold sccPieces
    by_cases hc : (p.pieceOk && canActivate s c mc p.id) = true
    · simp only [hc, if_true]
      have : canActivate s c mc p.id = true := by
        simp at hc; exact hc.2
      exact ih _ (hp.activateOne s c mc sec p.id h this)
    · simp only [hc, Bool.false_eq_true, if_false]
      exact ih _ h

theorem sccSectors_preserves_core {P : State → Prop} (hp : PreservedCore P) (c : Nat)
    (secs : List SectorChanges) : ∀ s, P s → P (sccSectors c s secs).1 := by
  induction secs with
  | nil => intro s h; exact h
  | cons sc rest ih =>
    intro s h
    simp only [sccSectors]
    exact ih _ (sccPieces_preserves_core hp c sc.sector sc.minCommit sc.pieces s h)

theorem settleAll_preserves_core {P : State → Prop} (hp : PreservedCore P) (ids : List Nat) :
    ∀ s, P s → P (settleAll s ids).1 := by
  induction ids with
  | nil => intro s h; exact h
  | cons id rest ih =>
    intro s h
    simp only [settleAll]
    exact ih _ (hp.settleOne s id h)

theorem terminateAll_preserves_core {P : State → Prop} (hp : PreservedCore P) (c : Nat) (ids : List Nat) :
    ∀ (s s' : State) (a : Int), P s → terminateAll c s.epoch s ids = .ok (s', a) → P s' := by
  induction ids with
  | nil => intro s s' a h he; simp [terminateAll] at he; rw [← he.1]; exact h
  | cons id rest ih =>
    intro s s' a h he
    unfold terminateAll at he
    cases h1 : terminateOne s c s.epoch id with
    | error e => simp [h1] at he
    | ok r =>
      obtain ⟨s1, a1⟩ := r
      simp only [h1] at he
      cases h2 : terminateAll c s.epoch s1 rest with
      | error e => simp [h2] at he
      | ok r2 =>
        obtain ⟨s2, a2⟩ := r2
        simp only [h2] at he
        injection he with he
        injection he with he1 _
        subst he1
        have e1 := terminateOne_epoch h1
        rw [← e1] at h2
        exact ih s1 s2 a2 (hp.terminateOne s c id s1 a1 h h1) h2

theorem cronAll_preserves_core {P : State → Prop} (hp : PreservedCore P) (ids : List Nat) :
    ∀ (s s' : State) (a : Int), P s → cronAll s ids = .ok (s', a) → P s' := by
  induction ids with
  | nil => intro s s' a h he; simp [cronAll] at he; rw [← he.1]; exact h
  | cons id rest ih =>
    intro s s' a h he
    unfold cronAll at he
    cases h1 : cronOne s id with
    | error e => simp [h1] at he
    | ok r =>
      obtain ⟨s1, a1⟩ := r
      simp only [h1] at he
      cases h2 : cronAll s1 rest with
      | error e => simp [h2] at he
      | ok r2 =>
        obtain ⟨s2, a2⟩ := r2
        simp only [h2] at he
        injection he with he
        injection he with he1 _
        subst he1
        exact ih s1 s2 a2 (hp.cronOne s id s1 a1 h h1) h2

/-- every message preserves what every atomic transition preserves -/
theorem step_preserves_core {P : State → Prop} (hp : PreservedCore P) (s : State) (op : Op) (h : P s)
    (hop : op.movesNoFunds = true) : P (step s op).1 := by
  cases op with
  | advance e =>
    simp only [step]
    by_cases he : e < s.epoch
    · simp [he]; exact h
    · simp only [he, if_false]; exact hp.advance s e h (by omega)
  | addBalance a v r => simp [Op.movesNoFunds] at hop
  | withdraw c n a env so => simp [Op.movesNoFunds] at hop
  | publish env deals =>
    simp only [step]
    cases hr : publish s env deals with
    | error e => exact h
    | ok r =>
      obtain ⟨s', ret⟩ := r
      simp only
      unfold publish at hr
      cases deals with
      | nil => simp at hr
      | cons first rest =>
        simp only at hr
        simp only [guard_ok] at hr
        obtain ⟨_, _, _, _, _, hr⟩ := hr
        cases hpa : publishAll s ((selectDeals s env.provider (first :: rest) 0 {}).accepted.map (·.2)) with
        | error e => simp [hpa] at hr
        | ok r2 =>
          obtain ⟨s2, ids⟩ := r2
          simp only [hpa] at hr
          simp only [guard_ok] at hr
          obtain ⟨_, hr⟩ := hr
          injection hr with hr
          injection hr with hr1 _
          subst hr1
          apply publishAll_preserves_core hp _ s s2 ids h _ hpa
          intro d hd
          simp at hd
          obtain ⟨i, hi⟩ := hd
          exact selectDeals_valid s env.provider (first :: rest) 0 {} (by simp) (i, d) hi
  | activate c m secs =>
    simp only [step]
    cases hr : batchActivate s c m secs with
    | error e => exact h
    | ok r =>
      obtain ⟨s', ret⟩ := r
      simp only
      unfold batchActivate at hr
      simp only [guard_ok] at hr
      obtain ⟨_, hr⟩ := hr
      injection hr with hr
      have : s' = (activateSectors c s secs).1 := by rw [hr]
      rw [this]
      exact activateSectors_preserves_core hp c secs s h
  | scc c m secs =>
    simp only [step]
    cases hr : sectorContentChanged s c m secs with
    | error e => exact h
    | ok r =>
      obtain ⟨s', ret⟩ := r
      simp only
      unfold sectorContentChanged at hr
      simp only [guard_ok] at hr
      obtain ⟨_, hr⟩ := hr
      injection hr with hr
      have : s' = (sccSectors c s secs).1 := by rw [hr]
      rw [this]
      exact sccSectors_preserves_core hp c secs s h
  | settle ids b =>
    simp only [step]
    cases hr : settle s ids b with
    | error e => exact h
    | ok r =>
      obtain ⟨s', ret⟩ := r
      simp only
      unfold settle at hr
      simp only [guard_ok] at hr
      obtain ⟨_, hr⟩ := hr
      injection hr with hr
      injection hr with hr1 _
      rw [← hr1]
      exact settleAll_preserves_core hp ids s h
  | terminate c m secs b =>
    simp only [step]
    cases hr : terminate s c m s.epoch secs b with
    | error e => exact h
    | ok s' =>
      simp only
      unfold terminate at hr
      simp only [guard_ok] at hr
      obtain ⟨_, hr⟩ := hr
      cases hta : terminateAll c s.epoch (unmapSectors s c secs) (sectorDealIds s c secs) with
      | error e => simp [hta] at hr
      | ok r2 =>
        obtain ⟨s2, burn⟩ := r2
        simp only [hta] at hr
        simp only [guard_ok] at hr
        obtain ⟨_, hr⟩ := hr
        injection hr with hr
        subst hr
        have hu := hp.unmap s c secs h
        have he : (unmapSectors s c secs).epoch = s.epoch := rfl
        rw [← he] at hta
        exact terminateAll_preserves_core hp c _ _ s2 burn hu hta
  | cron c b =>
    simp only [step]
    cases hr : cronTick s c b with
    | error e => exact h
    | ok s' =>
      simp only
      unfold cronTick at hr
      simp only [guard_ok] at hr
      obtain ⟨_, hr⟩ := hr
      split at hr
      · simp at hr
      · rename_i s1 slashed hca
        simp only [guard_ok] at hr
        obtain ⟨_, hr⟩ := hr
        injection hr with hr
        subst hr
        apply hp.cronDone
        apply cronAll_preserves_core hp _ _ s1 slashed _ hca
        apply hp.dealOpsSub s _ h
        intro x hx
        exact (List.mem_filter.mp hx).1



/-! ### nobody's net deposits move, except by AddBalance / WithdrawBalance -/

theorem net_activateOne (s : State) (caller : Nat) (exp : Int) (sector id : Nat) (hi : Inv s)
    (h : canActivate s caller exp id = true) (p : Nat) : net (activateOne s sector id) p = net s p := by
  obtain ⟨d, hp, _, _, _, hst, _⟩ := canActivate_facts h
  unfold activateOne
  apply net_states_same_lu hi
  intro k d' hk
  by_cases hkk : k = id
  · subst hkk
    rw [alookup_aset_same, hst]
    exact luTo_fresh d' _ rfl (hi.wf.good k d' hk).start0
  · rw [alookup_aset_other _ _ _ _ hkk]

theorem net_unmap (s : State) (caller : Nat) (sectors : List Nat) (hi : Inv s) (p : Nat) :
    net (unmapSectors s caller sectors) p = net s p := by
  unfold unmapSectors
  apply net_states_same_lu hi
  intro k d _
  rw [alookup_map_keep _ (by intro q; split <;> rfl)]
  cases ho : alookup k s.states with
  | none => rfl
  | some st =>
    simp only [Option.map, luTo]
    split <;> rfl

/-- relative to a reference state: the invariants hold and nobody's net deposits have moved -/
def NetFixed (base t : State) : Prop := Inv t ∧ ∀ p, net t p = net base p

theorem netFixed_preserved (base : State) : PreservedCore (NetFixed base) where
  advance := fun s e ⟨hi, hn⟩ he =>
    ⟨inv_advance s e hi he, fun p => by rw [← hn p]; exact net_frame rfl rfl rfl rfl p⟩
  publishOne := fun s d s' id ⟨hi, hn⟩ hv h =>
    ⟨inv_publishOne s d s' id hi hv h, fun p => by rw [net_publishOne hi h p]; exact hn p⟩
  activateOne := fun s caller exp sector id ⟨hi, hn⟩ h =>
    ⟨inv_activateOne s caller exp sector id hi h,
     fun p => by rw [net_activateOne s caller exp sector id hi h p]; exact hn p⟩
  settleOne := fun s id ⟨hi, hn⟩ =>
    ⟨inv_settleOne s id hi, fun p => by rw [net_settleOne s id hi p]; exact hn p⟩
  unmap := fun s caller sectors ⟨hi, hn⟩ =>
    ⟨inv_unmap s caller sectors hi, fun p => by rw [net_unmap s caller sectors hi p]; exact hn p⟩
  terminateOne := fun s c id s' a ⟨hi, hn⟩ h =>
    ⟨inv_terminateOne s c id s' a hi h, fun p => by rw [net_terminateOne hi h p]; exact hn p⟩
  dealOpsSub := fun s l ⟨hi, hn⟩ _ =>
    ⟨inv_dealOps s l hi, fun p => by rw [← hn p]; exact net_frame rfl rfl rfl rfl p⟩
  cronOne := fun s id s' a ⟨hi, hn⟩ h =>
    ⟨inv_cronOne s id s' a hi h, fun p => by rw [net_cronOne hi h p]; exact hn p⟩
  cronDone := fun s e ⟨hi, hn⟩ =>
    ⟨inv_lastCron s e hi, fun p => by rw [← hn p]; exact net_frame rfl rfl rfl rfl p⟩

/-- what a message adds to (or takes from) the net deposits of `p` -/
def flow (s : State) (op : Op) (p : Nat) : Int :=
  match op with
  | .addBalance a v r =>
    (match addBalance s a v r with
     | .ok _ => ind p a v
     | .error _ => 0)
  | .withdraw c n a env so =>
    (match withdraw s c n a env so with
     | .ok (_, w) => - ind p n w.amount
     | .error _ => 0)
  | _ => 0

/-- one message: the invariants survive and net deposits move by the message's `flow` only -/
theorem step_net (s : State) (op : Op) (hi : Inv s) (p : Nat) :
    net (step s op).1 p = net s p + flow s op p := by
  by_cases hop : op.movesNoFunds = true
  · have := (step_preserves_core (netFixed_preserved s) s op ⟨hi, fun _ => rfl⟩ hop).2 p
    rw [this]
    cases op <;> simp [Op.movesNoFunds] at hop <;> simp [flow]
  · cases op with
    | addBalance a v r =>
      simp only [step, flow]
      cases h : addBalance s a v r with
      | error e => simp
      | ok s' => simp only; exact net_addBalance h p
    | withdraw c n a env so =>
      simp only [step, flow]
      cases h : withdraw s c n a env so with
      | error e => simp
      | ok r => obtain ⟨s', w⟩ := r; simp only; rw [net_withdraw h p]; omega
    | _ => simp [Op.movesNoFunds] at hop

/-- Σ of the flows of a history -/
def flows (p : Nat) : State → List Op → Int
  | _, [] => 0
  | s, op :: rest => flow s op p + flows p (step s op).1 rest

theorem run_net (ops : List Op) : ∀ s, Inv s → ∀ p, net (run s ops) p = net s p + flows p s ops := by
  induction ops with
  | nil => intro s _ p; simp [run, flows]
  | cons op rest ih =>
    intro s hi p
    simp only [run, flows]
    rw [ih _ (step_preserves inv_preserved s op hi) p, step_net s op hi p]; omega

end BA.Market
