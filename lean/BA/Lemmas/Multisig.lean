/- Helper lemmas for the multisig model: list facts, the shape invariant and its preservation by
   every operation, and the generic "every nested activation is fine" induction. -/
import BA.Model.Multisig

namespace BA.Multisig
open BA

/-! ### association lists and filters -/

theorem mem_aset {α : Type} {k : Nat} {v : α} {l : List (Nat × α)} {p : Nat × α}
    (h : p ∈ aset k v l) : p = (k, v) ∨ p ∈ l := by
  induction l with
  | nil => simp [aset] at h; exact Or.inl h
  | cons hd t ih =>
    obtain ⟨k', v'⟩ := hd
    by_cases hk : k' = k
    · simp [aset, hk] at h
      rcases h with h | h
      · exact Or.inl h
      · exact Or.inr (List.mem_cons_of_mem _ h)
    · simp [aset, hk] at h
      rcases h with h | h
      · exact Or.inr (by rw [h]; exact List.mem_cons_self)
      · rcases ih h with h | h
        · exact Or.inl h
        · exact Or.inr (List.mem_cons_of_mem _ h)

theorem mem_aerase {α : Type} {k : Nat} {l : List (Nat × α)} {p : Nat × α}
    (h : p ∈ aerase k l) : p ∈ l ∧ p.1 ≠ k := by
  induction l with
  | nil => simp [aerase] at h
  | cons hd t ih =>
    obtain ⟨k', v'⟩ := hd
    by_cases hk : k' = k
    · simp [aerase, hk] at h
      exact ⟨List.mem_cons_of_mem _ (ih h).1, (ih h).2⟩
    · simp [aerase, hk] at h
      rcases h with h | h
      · subst h; exact ⟨List.mem_cons_self, hk⟩
      · exact ⟨List.mem_cons_of_mem _ (ih h).1, (ih h).2⟩

theorem mem_of_alookup {α : Type} {k : Nat} {l : List (Nat × α)} {v : α}
    (h : alookup k l = some v) : (k, v) ∈ l := by
  induction l with
  | nil => simp [alookup] at h
  | cons hd t ih =>
    obtain ⟨k', v'⟩ := hd
    by_cases hk : k' = k
    · simp [alookup, hk] at h; subst h; subst hk; exact List.mem_cons_self
    · simp [alookup, hk] at h; exact List.mem_cons_of_mem _ (ih h)

theorem aset_aset {α : Type} (k : Nat) (v v' : α) (l : List (Nat × α)) :
    aset k v' (aset k v l) = aset k v' l := by
  induction l with
  | nil => simp [aset]
  | cons hd t ih =>
    obtain ⟨k', w⟩ := hd
    by_cases hk : k' = k <;> simp [aset, hk, ih]

theorem filter_ne_length {l : List Nat} {a : Nat} (hn : l.Nodup) (ha : a ∈ l) :
    (l.filter (fun x => x != a)).length + 1 = l.length := by
  induction l with
  | nil => simp at ha
  | cons x t ih =>
    have hx : x ∉ t := (List.nodup_cons.mp hn).1
    have ht : t.Nodup := (List.nodup_cons.mp hn).2
    by_cases hxa : x = a
    · subst hxa
      have : t.filter (fun y => y != x) = t := by
        apply List.filter_eq_self.mpr
        intro y hy
        have : y ≠ x := fun e => hx (e ▸ hy)
        simpa using this
      simp only [List.filter_cons]; simp [this]
    · have hat : a ∈ t := by
        rcases List.mem_cons.mp ha with h | h
        · exact absurd h.symm hxa
        · exact h
      have := ih ht hat
      simp only [List.filter_cons]; simp [hxa]; omega

theorem mem_filter_ne {l : List Nat} {a x : Nat} : x ∈ l.filter (fun y => y != a) ↔ x ∈ l ∧ x ≠ a := by
  simp [List.mem_filter]

theorem nodup_filter_ne {l : List Nat} (a : Nat) (h : l.Nodup) : (l.filter (fun y => y != a)).Nodup :=
  List.Nodup.sublist List.filter_sublist h

/-- what `purge` leaves of the pending map -/
theorem mem_purge {a : Nat} {l : Pending} {p : Nat × Tx} (h : p ∈ purge a l) :
    ∃ tx, (p.1, tx) ∈ l ∧
      ((a ∉ tx.approved ∧ p.2 = tx) ∨
       (p.2 = { tx with approved := tx.approved.filter (fun x => x != a) } ∧
        tx.approved.filter (fun x => x != a) ≠ [])) := by
  induction l with
  | nil => simp [purge] at h
  | cons hd t ih =>
    obtain ⟨id, tx⟩ := hd
    simp only [purge] at h
    by_cases ha : a ∈ tx.approved
    · simp only [ha, if_true] at h
      by_cases he : tx.approved.filter (fun x => x != a) = []
      · simp only [he, if_true] at h
        obtain ⟨tx', hm, hr⟩ := ih h
        exact ⟨tx', List.mem_cons_of_mem _ hm, hr⟩
      · simp only [he, if_false] at h
        rcases List.mem_cons.mp h with h | h
        · subst h
          exact ⟨tx, List.mem_cons_self, Or.inr ⟨rfl, he⟩⟩
        · obtain ⟨tx', hm, hr⟩ := ih h
          exact ⟨tx', List.mem_cons_of_mem _ hm, hr⟩
    · simp only [ha, if_false] at h
      rcases List.mem_cons.mp h with h | h
      · subst h
        exact ⟨tx, List.mem_cons_self, Or.inl ⟨ha, rfl⟩⟩
      · obtain ⟨tx', hm, hr⟩ := ih h
        exact ⟨tx', List.mem_cons_of_mem _ hm, hr⟩

/-! ### the shape invariant -/

/-- a pending transaction is well-formed in state `s` -/
structure TxOk (s : State) (id : Nat) (tx : Tx) : Prop where
  ne : tx.approved ≠ []
  nodup : tx.approved.Nodup
  sub : ∀ a ∈ tx.approved, a ∈ s.signers
  idlt : id < s.nextId
  notExec : id ∉ s.executed
  valnn : 0 ≤ tx.value

/-- the shape invariant of the wallet state (the bound on the signers is the literal of the
    property; `signersMax` is the value read from the source) -/
structure Inv (s : State) : Prop where
  thr_pos : 1 ≤ s.threshold
  thr_le : s.threshold ≤ s.signers.length
  max : s.signers.length ≤ 256
  nodup : s.signers.Nodup
  txs : ∀ p ∈ s.pending, TxOk s p.1 p.2
  exNodup : s.executed.Nodup
  exLt : ∀ i ∈ s.executed, i < s.nextId
  initial_nn : 0 ≤ s.initial
  duration_nn : 0 ≤ s.duration

theorem Inv.balance {s : State} (h : Inv s) (b : Int) : Inv { s with balance := b } :=
  ⟨h.thr_pos, h.thr_le, h.max, h.nodup, fun p hp => let t := h.txs p hp
    ⟨t.ne, t.nodup, t.sub, t.idlt, t.notExec, t.valnn⟩, h.exNodup, h.exLt, h.initial_nn, h.duration_nn⟩

theorem signersMax_eq : signersMax = 256 := by decide

/-- a transaction stays well-formed after `a` was purged from it and removed from the signers
    (the new signer list contains every old signer except `a`) -/
theorem TxOk.purged {s s' : State} {id : Nat} {tx : Tx} {a : Nat} (h : TxOk s id tx)
    (hne : tx.approved.filter (fun x => x != a) ≠ [])
    (hs : ∀ x, x ∈ s.signers → x ≠ a → x ∈ s'.signers)
    (hn : s'.nextId = s.nextId) (he : s'.executed = s.executed) :
    TxOk s' id { tx with approved := tx.approved.filter (fun x => x != a) } :=
  ⟨hne, nodup_filter_ne a h.nodup,
   fun x hx => by
     have := mem_filter_ne.mp hx
     exact hs x (h.sub x this.1) this.2,
   by rw [hn]; exact h.idlt, by rw [he]; exact h.notExec, h.valnn⟩

theorem TxOk.keep {s s' : State} {id : Nat} {tx : Tx} {a : Nat} (h : TxOk s id tx)
    (ha : a ∉ tx.approved)
    (hs : ∀ x, x ∈ s.signers → x ≠ a → x ∈ s'.signers)
    (hn : s'.nextId = s.nextId) (he : s'.executed = s.executed) : TxOk s' id tx :=
  ⟨h.ne, h.nodup, fun x hx => hs x (h.sub x hx) (fun e => ha (e ▸ hx)),
   by rw [hn]; exact h.idlt, by rw [he]; exact h.notExec, h.valnn⟩

theorem txs_purge {s s' : State} {a : Nat} (h : ∀ p ∈ s.pending, TxOk s p.1 p.2)
    (hp : s'.pending = purge a s.pending)
    (hs : ∀ x, x ∈ s.signers → x ≠ a → x ∈ s'.signers)
    (hn : s'.nextId = s.nextId) (he : s'.executed = s.executed) :
    ∀ p ∈ s'.pending, TxOk s' p.1 p.2 := by
  intro p hpm
  rw [hp] at hpm
  obtain ⟨tx, hm, hr⟩ := mem_purge hpm
  have ht := h (p.1, tx) hm
  rcases hr with ⟨ha, e⟩ | ⟨e, hne⟩
  · rw [e]; exact ht.keep ha hs hn he
  · rw [e]; exact ht.purged hne hs hn he

/-! ### the administrative operations preserve the invariant -/

theorem addSigner_inv {s s' : State} {c a : Nat} {inc : Bool} (hi : Inv s)
    (h : addSigner s c a inc = .ok s') : Inv s' := by
  unfold addSigner at h
  simp only [guard_ok] at h
  obtain ⟨_, hlen, hmem, h⟩ := h
  injection h with h; subst h
  rw [signersMax_eq] at hlen
  refine ⟨?_, ?_, ?_, ?_, ?_, hi.exNodup, hi.exLt, hi.initial_nn, hi.duration_nn⟩
  · have := hi.thr_pos; cases inc <;> simp <;> omega
  · have := hi.thr_le; cases inc <;> simp <;> omega
  · simp; omega
  · exact List.nodup_append.mpr ⟨hi.nodup, by simp, by
      intro x hx y hy; simp at hy; subst hy; exact fun e => hmem (e ▸ hx)⟩
  · intro p hp
    have t := hi.txs p hp
    exact ⟨t.ne, t.nodup, fun x hx => List.mem_append_left _ (t.sub x hx), t.idlt, t.notExec, t.valnn⟩

theorem removeSigner_inv {s s' : State} {c a : Nat} {dec : Bool} (hi : Inv s)
    (h : removeSigner s c a dec = .ok s') : Inv s' := by
  unfold removeSigner at h
  simp only [guard_ok] at h
  obtain ⟨_, hmem, hone, h1, h2, h⟩ := h
  injection h with h; subst h
  have hmem : a ∈ s.signers := by simpa using hmem
  have hlen := filter_ne_length hi.nodup hmem
  have hp := hi.thr_pos
  have hl := hi.thr_le
  have hm := hi.max
  refine ⟨?_, ?_, ?_, nodup_filter_ne a hi.nodup, ?_, hi.exNodup, hi.exLt, hi.initial_nn,
    hi.duration_nn⟩
  · cases dec <;> simp at h1 h2 ⊢ <;> omega
  · cases dec <;> simp at h1 h2 ⊢ <;> omega
  · show (s.signers.filter fun x => x != a).length ≤ 256
    omega
  · exact txs_purge hi.txs rfl (fun x hx hne => mem_filter_ne.mpr ⟨hx, hne⟩) rfl rfl

theorem swapSigner_inv {s s' : State} {c f t : Nat} (hi : Inv s)
    (h : swapSigner s c f t = .ok s') : Inv s' := by
  unfold swapSigner at h
  simp only [guard_ok] at h
  obtain ⟨_, hf, ht, h⟩ := h
  injection h with h; subst h
  have hf : f ∈ s.signers := by simpa using hf
  have hlen := filter_ne_length hi.nodup hf
  have hl := hi.thr_le
  have hm := hi.max
  refine ⟨hi.thr_pos, ?_, ?_, ?_, ?_, hi.exNodup, hi.exLt, hi.initial_nn, hi.duration_nn⟩
  · show s.threshold ≤ ((s.signers.filter fun x => x != f) ++ [t]).length
    simp; omega
  · show ((s.signers.filter fun x => x != f) ++ [t]).length ≤ 256
    simp; omega
  · exact List.nodup_append.mpr ⟨nodup_filter_ne f hi.nodup, by simp, by
      intro x hx y hy; simp at hy; subst hy
      exact fun e => ht (e ▸ (mem_filter_ne.mp hx).1)⟩
  · exact txs_purge hi.txs rfl
      (fun x hx hne => List.mem_append_left _ (mem_filter_ne.mpr ⟨hx, hne⟩)) rfl rfl

theorem changeThreshold_inv {s s' : State} {c n : Nat} (hi : Inv s)
    (h : changeThreshold s c n = .ok s') : Inv s' := by
  unfold changeThreshold at h
  simp only [guard_ok] at h
  obtain ⟨_, hn, h⟩ := h
  injection h with h; subst h
  refine ⟨?_, ?_, hi.max, hi.nodup, ?_, hi.exNodup, hi.exLt, hi.initial_nn, hi.duration_nn⟩
  · show 1 ≤ n; omega
  · show n ≤ s.signers.length; omega
  · intro p hp
    have t := hi.txs p hp
    exact ⟨t.ne, t.nodup, t.sub, t.idlt, t.notExec, t.valnn⟩

theorem lockBalance_inv {s s' : State} {c : Nat} {st d amt : Int} (hi : Inv s)
    (h : lockBalance s c st d amt = .ok s') : Inv s' := by
  unfold lockBalance at h
  simp only [guard_ok] at h
  obtain ⟨_, hd, ha, _, h⟩ := h
  injection h with h; subst h
  refine ⟨hi.thr_pos, hi.thr_le, hi.max, hi.nodup, ?_, hi.exNodup, hi.exLt, ?_, ?_⟩
  · intro p hp
    have t := hi.txs p hp
    exact ⟨t.ne, t.nodup, t.sub, t.idlt, t.notExec, t.valnn⟩
  · show 0 ≤ amt; omega
  · show 0 ≤ d; omega

theorem cancel_inv {s s' : State} {c id : Nat} {hk : Bool} (hi : Inv s)
    (h : cancel s c id hk = .ok s') : Inv s' := by
  unfold cancel at h
  simp only [guard_ok] at h
  obtain ⟨_, h⟩ := h
  cases hl : alookup id s.pending with
  | none => simp [hl] at h
  | some txn =>
    simp only [hl, guard_ok] at h
    obtain ⟨_, _, h⟩ := h
    injection h with h; subst h
    refine ⟨hi.thr_pos, hi.thr_le, hi.max, hi.nodup, ?_, hi.exNodup, hi.exLt, hi.initial_nn,
      hi.duration_nn⟩
    intro p hp
    have t := hi.txs p (mem_aerase hp).1
    exact ⟨t.ne, t.nodup, t.sub, t.idlt, t.notExec, t.valnn⟩

/-! ### inner sends and nested activations -/

/-- what holds at the moment an inner send is issued (`ev.pre` is the state it is issued in) -/
structure EvOk (ev : Event) : Prop where
  inv : Inv ev.pre
  stored : ∃ tx, alookup ev.id ev.pre.pending = some tx ∧ tx.to = ev.to ∧ tx.value = ev.value ∧
    tx.method = ev.method ∧ tx.params = ev.params ∧ ev.pre.threshold ≤ tx.approved.length
  afford : 0 ≤ ev.value ∧ ev.value ≤ ev.pre.balance
  lock : 0 < ev.value → amountLocked ev.pre (ev.epoch - ev.pre.start) ≤ ev.pre.balance - ev.value

/-- an activation's outcome is fine: the state it commits satisfies the invariant and every inner
    send issued inside it (at any depth, rolled back or not) was issued correctly -/
def ResOk (r : Res) : Prop :=
  (∀ s' ret, r.out = .ok (s', ret) → Inv s') ∧ ∀ ev ∈ r.trace, EvOk ev

def SubOk (sub : Sub) : Prop := ∀ s a, Inv s → ResOk (sub s a)

theorem ResOk.err (e : Err) : ResOk ⟨.error e, []⟩ :=
  ⟨fun _ _ h => by simp at h, fun _ h => by simp at h⟩

theorem ResOk.stateOr {r : Res} {s : State} (h : ResOk r) (hs : Inv s) : Inv (r.stateOr s) := by
  unfold Res.stateOr
  cases ho : r.out with
  | error e => exact hs
  | ok p => obtain ⟨s', ret⟩ := p; exact h.1 s' ret ho

theorem failSub_ok : SubOk failSub := fun _ _ _ => ResOk.err _

theorem checkAvailable_ok {s : State} {v epoch : Int} (h : checkAvailable s v epoch = .ok ()) :
    0 ≤ v ∧ v ≤ s.balance ∧ (0 < v → amountLocked s (epoch - s.start) ≤ s.balance - v) := by
  unfold checkAvailable at h
  simp only [guard_ok] at h
  obtain ⟨h1, h2, h⟩ := h
  by_cases h0 : v = 0
  · subst h0; exact ⟨by omega, by omega, fun h => by omega⟩
  · simp only [h0, if_false, guard_ok] at h
    exact ⟨by omega, by omega, fun _ => by omega⟩

theorem runChildren_ok {sub : Sub} (h : SubOk sub) (self : Nat) :
    ∀ (cs : List Act) (s : State), Inv s →
      Inv (runChildren sub self s cs).1 ∧ ∀ ev ∈ (runChildren sub self s cs).2, EvOk ev
  | [], s, hs => by simp [runChildren]; exact hs
  | a :: rest, s, hs => by
    simp only [runChildren]
    by_cases hc : a.msg.caller = self
    · simp only [hc, if_true]; exact runChildren_ok h self rest s hs
    · simp only [hc, if_false]
      have hr := h s a hs
      have ih := runChildren_ok h self rest _ (hr.stateOr hs)
      refine ⟨ih.1, ?_⟩
      intro ev hev
      rcases List.mem_append.mp hev with h1 | h2
      · exact hr.2 ev h1
      · exact ih.2 ev h2

/-- deleting the executed entry and recording its id keeps the invariant -/
theorem Inv.executed {s : State} {id : Nat} {txn : Tx} (hs : Inv s)
    (hl : alookup id s.pending = some txn) :
    Inv { s with pending := aerase id s.pending, executed := id :: s.executed } := by
  have t := hs.txs _ (mem_of_alookup hl)
  refine ⟨hs.thr_pos, hs.thr_le, hs.max, hs.nodup, ?_, ?_, ?_, hs.initial_nn, hs.duration_nn⟩
  · intro p hp
    have hm := mem_aerase hp
    have tp := hs.txs p hm.1
    exact ⟨tp.ne, tp.nodup, tp.sub, tp.idlt, by
      intro hc
      rcases List.mem_cons.mp hc with e | e
      · exact hm.2 e
      · exact tp.notExec e, tp.valnn⟩
  · exact List.nodup_cons.mpr ⟨t.notExec, hs.exNodup⟩
  · intro i hi
    rcases List.mem_cons.mp hi with e | e
    · rw [e]; exact t.idlt
    · exact hs.exLt i e

theorem execIfApproved_ok {sub : Sub} (h : SubOk sub) {epoch : Int} {s : State} {id : Nat}
    {txn : Tx} {sendOk : Bool} {children : List Act} (hs : Inv s)
    (hl : alookup id s.pending = some txn) :
    ResOk (execIfApproved sub epoch s id txn sendOk children) := by
  unfold execIfApproved
  by_cases ht : s.threshold ≤ txn.approved.length
  · simp only [ht, if_true]
    cases hc : checkAvailable s txn.value epoch with
    | error e => exact ResOk.err e
    | ok u =>
      have hca := checkAvailable_ok hc
      have hev : EvOk { id := id, to := txn.to, value := txn.value, method := txn.method,
                        params := txn.params, pre := s, epoch := epoch } :=
        ⟨hs, ⟨txn, hl, rfl, rfl, rfl, rfl, ht⟩, ⟨hca.1, hca.2.1⟩, hca.2.2⟩
      have hs1 := hs.executed hl
      have hs2 := hs1.balance (s.balance - txn.value)
      simp only []
      by_cases hto : txn.to = s.self
      · simp only [hto, if_true]
        generalize hr' : sub _ _ = r
        have hr : ResOk r := by rw [← hr']; exact h _ _ hs2
        refine ⟨?_, ?_⟩
        · intro s' r' he
          injection he with he; injection he with he1 he2; subst he1
          cases hout : r.out with
          | error e => exact hs1
          | ok p =>
            obtain ⟨s3, ret⟩ := p
            cases sendOk
            · exact hs1
            · exact hr.1 _ _ hout
        · intro ev hm
          rcases List.mem_cons.mp hm with e | e
          · rw [e, ← hto]; exact hev
          · exact hr.2 ev e
      · simp only [hto, if_false]
        have hrc := runChildren_ok h s.self children _ hs2
        refine ⟨?_, ?_⟩
        · intro s' r' he
          injection he with he; injection he with he1 he2; subst he1
          cases sendOk
          · exact hs1
          · exact hrc.1
        · intro ev hm
          rcases List.mem_cons.mp hm with e | e
          · rw [e]; exact hev
          · exact hrc.2 ev e
  · simp only [ht, if_false]
    exact ⟨fun s' r' he => by
      injection he with he; injection he with he1 he2; subst he1; exact hs, fun _ hm => by cases hm⟩

/-- storing a well-formed transaction under an id below the (possibly advanced) next id -/
theorem Inv.setTx {s : State} {id : Nat} {tx : Tx} {n : Nat} (hs : Inv s) (hn : s.nextId ≤ n)
    (hid : id < n) (hne : id ∉ s.executed) (h1 : tx.approved ≠ []) (h2 : tx.approved.Nodup)
    (h3 : ∀ a ∈ tx.approved, a ∈ s.signers) (h4 : 0 ≤ tx.value) (pend : Pending)
    (hp : ∀ p ∈ pend, p = (id, tx) ∨ p ∈ s.pending) :
    Inv { s with nextId := n, pending := pend } := by
  refine ⟨hs.thr_pos, hs.thr_le, hs.max, hs.nodup, ?_, hs.exNodup, ?_, hs.initial_nn,
    hs.duration_nn⟩
  · intro p hpm
    rcases hp p hpm with e | e
    · rw [e]; exact ⟨h1, h2, h3, hid, hne, h4⟩
    · have t := hs.txs p e
      exact ⟨t.ne, t.nodup, t.sub, Nat.lt_of_lt_of_le t.idlt hn, t.notExec, t.valnn⟩
  · intro i hi
    exact Nat.lt_of_lt_of_le (hs.exLt i hi) hn

theorem approveTransaction_ok {sub : Sub} (h : SubOk sub) {epoch : Int} {s : State}
    {caller id : Nat} {txn : Tx} {sendOk : Bool} {children : List Act}
    (hinv : caller ∉ txn.approved →
      Inv { s with pending := aset id { txn with approved := txn.approved ++ [caller] } s.pending }) :
    ResOk (approveTransaction sub epoch s caller id txn sendOk children) := by
  unfold approveTransaction
  by_cases hc : caller ∈ txn.approved
  · simp only [hc, if_true]; exact ResOk.err _
  · simp only [hc, if_false]
    exact execIfApproved_ok h (hinv hc) (alookup_aset_same _ _ _)

theorem nodup_snoc {l : List Nat} {a : Nat} (h : l.Nodup) (ha : a ∉ l) : (l ++ [a]).Nodup :=
  List.nodup_append.mpr ⟨h, by simp, by
    intro x hx y hy; simp at hy; subst hy; exact fun e => ha (e ▸ hx)⟩

theorem propose_ok {sub : Sub} (h : SubOk sub) {epoch : Int} {s : State} {caller to : Nat}
    {value : Int} {method : Nat} {params : List Int} {sendOk : Bool} {children : List Act}
    (hs : Inv s) : ResOk (propose sub epoch s caller to value method params sendOk children) := by
  unfold propose
  by_cases hv : value < 0
  · simp only [hv, if_true]; exact ResOk.err _
  · simp only [hv, if_false]
    by_cases hc : caller ∉ s.signers
    · simp only [hc, if_true]; exact ResOk.err _
    · simp only [hc, if_false]
      have hc : caller ∈ s.signers := by simpa using hc
      apply approveTransaction_ok h
      intro _
      apply Inv.setTx (tx := (⟨to, value, method, params, [caller]⟩ : Tx)) hs (Nat.le_succ _)
        (Nat.lt_succ_self _) (fun hm => Nat.lt_irrefl _ (hs.exLt _ hm))
      · show [caller] ≠ []; simp
      · show [caller].Nodup; simp
      · intro a ha
        have : a = caller := by simpa using ha
        rw [this]; exact hc
      · show 0 ≤ value; omega
      · intro p hp
        have hp' : p ∈ aset s.nextId (⟨to, value, method, params, [caller]⟩ : Tx)
            (aset s.nextId (⟨to, value, method, params, []⟩ : Tx) s.pending) := hp
        rw [aset_aset] at hp'
        exact mem_aset hp'

theorem approve_ok {sub : Sub} (h : SubOk sub) {epoch : Int} {s : State} {caller id : Nat}
    {hashOk sendOk : Bool} {children : List Act} (hs : Inv s) :
    ResOk (approve sub epoch s caller id hashOk sendOk children) := by
  unfold approve
  by_cases hc : caller ∉ s.signers
  · simp only [hc, if_true]; exact ResOk.err _
  · simp only [hc, if_false]
    have hc : caller ∈ s.signers := by simpa using hc
    cases hl : alookup id s.pending with
    | none => exact ResOk.err _
    | some txn =>
      simp only []
      cases hashOk
      · exact ResOk.err _
      · simp only [Bool.not_true, Bool.false_eq_true, if_false]
        have hr := execIfApproved_ok h (epoch := epoch) (sendOk := sendOk) (children := children)
          hs hl
        generalize execIfApproved sub epoch s id txn sendOk children = r at hr
        cases ho : r.out with
        | error e => exact ⟨fun _ _ he => by simp at he, hr.2⟩
        | ok p =>
          obtain ⟨s1, ret⟩ := p
          simp only []
          by_cases ha : ret.applied
          · simp only [ha, if_true]; exact hr
          · simp only [ha, if_false]
            apply approveTransaction_ok h
            intro hn
            have t := hs.txs _ (mem_of_alookup hl)
            have := Inv.setTx (s := s) (id := id) (n := s.nextId)
              (tx := { txn with approved := txn.approved ++ [caller] }) hs (Nat.le_refl _)
              t.idlt t.notExec (by simp) (nodup_snoc t.nodup hn)
              (by
                intro a ha
                rcases List.mem_append.mp ha with e | e
                · exact t.sub a e
                · have : a = caller := by simpa using e
                  rw [this]; exact hc)
              t.valnn
              (aset id { txn with approved := txn.approved ++ [caller] } s.pending)
              (fun p hp => mem_aset hp)
            exact this

theorem pureRes_ok {r : Except Err State} (h : ∀ s', r = .ok s' → Inv s') : ResOk (pureRes r) := by
  unfold pureRes
  cases r with
  | error e => exact ResOk.err e
  | ok s' => exact ⟨fun s'' _ he => by
      injection he with he; injection he with he1 _; subst he1; exact h s' rfl,
      fun _ hm => by simp at hm⟩

/-- one level: if nested activations are fine, so is this one -/
theorem execMsg_ok {sub : Sub} (h : SubOk sub) (epoch : Int) : SubOk (execMsg sub epoch) := by
  intro s a hs
  unfold execMsg
  by_cases hv : a.msg.value < 0
  · simp only [hv, if_true]; exact ResOk.err _
  · simp only [hv, if_false]
    have hs0 := hs.balance (s.balance + a.msg.value)
    cases hcall : a.msg.call with
    | receive =>
      exact ⟨fun s' _ he => by
        injection he with he; injection he with he1 _; subst he1; exact hs0,
        fun _ hm => by simp at hm⟩
    | bad => exact ResOk.err _
    | propose to value method params => exact propose_ok h hs0
    | approve id hashOk => exact approve_ok h hs0
    | cancel id hashOk => exact pureRes_ok (fun _ he => cancel_inv hs0 he)
    | addSigner x inc => exact pureRes_ok (fun _ he => addSigner_inv hs0 he)
    | removeSigner x dec => exact pureRes_ok (fun _ he => removeSigner_inv hs0 he)
    | swapSigner f t => exact pureRes_ok (fun _ he => swapSigner_inv hs0 he)
    | changeThreshold n => exact pureRes_ok (fun _ he => changeThreshold_inv hs0 he)
    | lockBalance st d amt => exact pureRes_ok (fun _ he => lockBalance_inv hs0 he)

/-- every activation at every call depth -/
theorem exec_ok (epoch : Int) : ∀ fuel, SubOk (exec fuel epoch)
  | 0 => execMsg_ok failSub_ok epoch
  | n + 1 => execMsg_ok (exec_ok epoch n) epoch

theorem step_ok {fuel : Nat} {s : State} (op : Op) (hs : Inv s) :
    Inv (step fuel s op).1 ∧ ∀ ev ∈ (step fuel s op).2.trace, EvOk ev :=
  ⟨(exec_ok op.epoch fuel s op.act hs).stateOr hs, (exec_ok op.epoch fuel s op.act hs).2⟩

theorem run_ok (fuel : Nat) : ∀ (ops : List Op) {s : State}, Inv s →
    Inv (run fuel s ops).1 ∧ ∀ ev ∈ (run fuel s ops).2, EvOk ev
  | [], s, hs => ⟨hs, fun _ hm => by simp [run] at hm⟩
  | op :: rest, s, hs => by
    have h1 := step_ok (fuel := fuel) op hs
    have h2 := run_ok fuel rest h1.1
    refine ⟨h2.1, ?_⟩
    intro ev hm
    simp only [run] at hm
    rcases List.mem_append.mp hm with e | e
    · exact h1.2 ev e
    · exact h2.2 ev e

theorem construct_inv {self : Nat} {signers : List Nat} {threshold : Nat} {d st v : Int}
    {s : State} (h : construct self signers threshold d st v = .ok s) : Inv s := by
  unfold construct at h
  simp only [guard_ok] at h
  obtain ⟨h1, h2, h3, h4, h5, h6, h7, h⟩ := h
  rw [signersMax_eq] at h2
  have h3 : signers.Nodup := by simpa using h3
  have hne : signers.length ≠ 0 := fun e => h1 (List.length_eq_zero_iff.mp e)
  by_cases hd : d ≠ 0
  · rw [if_pos hd] at h
    injection h with h; subst h
    refine ⟨?_, ?_, ?_, h3, ?_, List.nodup_nil, ?_, ?_, ?_⟩
    · show 1 ≤ threshold; omega
    · show threshold ≤ signers.length; omega
    · show signers.length ≤ 256; omega
    · intro p hp; cases hp
    · intro i hi; cases hi
    · show 0 ≤ v; omega
    · show 0 ≤ d; omega
  · rw [if_neg hd] at h
    injection h with h; subst h
    refine ⟨?_, ?_, ?_, h3, ?_, List.nodup_nil, ?_, ?_, ?_⟩
    · show 1 ≤ threshold; omega
    · show threshold ≤ signers.length; omega
    · show signers.length ≤ 256; omega
    · intro p hp; cases hp
    · intro i hi; cases hi
    · show (0 : Int) ≤ 0; omega
    · show (0 : Int) ≤ 0; omega

/-! ### the vesting schedule -/

theorem divCeil_le_iff {n d c : Int} (hd : 0 < d) : divCeil n d ≤ c ↔ n ≤ c * d := by
  unfold divCeil
  rw [Int.fdiv_eq_ediv_of_nonneg _ (Int.le_of_lt hd), Int.fmod_eq_emod_of_nonneg _ (Int.le_of_lt hd)]
  have hdiv := Int.mul_ediv_add_emod n d
  have hr0 := Int.emod_nonneg n (Int.ne_of_gt hd)
  have hr1 := Int.emod_lt_of_pos n hd
  generalize n / d = q at *
  generalize n % d = r at *
  rw [Int.mul_comm] at hdiv
  by_cases hz : r = 0
  · simp only [hz, if_true]
    constructor
    · intro h
      have := Int.mul_le_mul_of_nonneg_right h (Int.le_of_lt hd)
      omega
    · intro h
      apply Int.not_lt.mp
      intro hlt
      have h1 : c + 1 ≤ q := hlt
      have := Int.mul_le_mul_of_nonneg_right h1 (Int.le_of_lt hd)
      rw [Int.add_mul] at this
      omega
  · simp only [hz, if_false]
    constructor
    · intro h
      have := Int.mul_le_mul_of_nonneg_right h (Int.le_of_lt hd)
      rw [Int.add_mul] at this
      omega
    · intro h
      apply Int.not_lt.mp
      intro hlt
      have h1 : c ≤ q := by omega
      have := Int.mul_le_mul_of_nonneg_right h1 (Int.le_of_lt hd)
      omega

theorem divCeil_spec {n d : Int} (hd : 0 < d) : n ≤ divCeil n d * d ∧ divCeil n d * d < n + d := by
  constructor
  · exact (divCeil_le_iff hd).mp (Int.le_refl _)
  · apply Int.not_le.mp
    intro h
    have h2 : n ≤ (divCeil n d - 1) * d := by rw [Int.sub_mul]; omega
    have := (divCeil_le_iff hd).mpr h2
    omega

theorem amountLocked_after (s : State) {e : Int} (h : s.duration ≤ e) : amountLocked s e = 0 := by
  unfold amountLocked; simp [h]

theorem amountLocked_before (s : State) {e : Int} (h : e ≤ 0) (hd : e < s.duration) :
    amountLocked s e = s.initial := by
  unfold amountLocked
  have : ¬ (e ≥ s.duration) := by omega
  simp [this, h]

theorem amountLocked_mid (s : State) {e : Int} (h0 : 0 < e) (hd : e < s.duration) :
    amountLocked s e = divCeil (s.initial * (s.duration - e)) s.duration := by
  unfold amountLocked
  have h1 : ¬ (e ≥ s.duration) := by omega
  have h2 : ¬ (e ≤ 0) := by omega
  simp [h1, h2]

theorem amountLocked_bounds (s : State) (hi : 0 ≤ s.initial) (e : Int) :
    0 ≤ amountLocked s e ∧ amountLocked s e ≤ s.initial := by
  by_cases h1 : s.duration ≤ e
  · rw [amountLocked_after s h1]; omega
  · by_cases h2 : e ≤ 0
    · rw [amountLocked_before s h2 (by omega)]; omega
    · have hd : 0 < s.duration := by omega
      rw [amountLocked_mid s (by omega) (by omega)]
      have hrem : 0 ≤ s.duration - e := by omega
      have hn : 0 ≤ s.initial * (s.duration - e) := Int.mul_nonneg hi hrem
      constructor
      · apply Int.not_lt.mp
        intro hlt
        have h3 : divCeil (s.initial * (s.duration - e)) s.duration ≤ -1 := by omega
        have := (divCeil_le_iff hd).mp h3
        omega
      · apply (divCeil_le_iff hd).mpr
        exact Int.mul_le_mul_of_nonneg_left (by omega) hi

theorem amountLocked_antitone (s : State) (hi : 0 ≤ s.initial) {e1 e2 : Int} (h : e1 ≤ e2) :
    amountLocked s e2 ≤ amountLocked s e1 := by
  by_cases h1 : s.duration ≤ e2
  · rw [amountLocked_after s h1]; exact (amountLocked_bounds s hi e1).1
  · by_cases h2 : e1 ≤ 0
    · rw [amountLocked_before s h2 (by omega)]; exact (amountLocked_bounds s hi e2).2
    · have hd : 0 < s.duration := by omega
      rw [amountLocked_mid s (by omega) (by omega), amountLocked_mid s (by omega) (by omega)]
      apply (divCeil_le_iff hd).mpr
      have hle : s.initial * (s.duration - e2) ≤ s.initial * (s.duration - e1) :=
        Int.mul_le_mul_of_nonneg_left (by omega) hi
      have := (divCeil_spec (n := s.initial * (s.duration - e1)) hd).1
      omega

/-! ### frame facts: which fields an operation can touch -/

def Cfg (s : State) : List Nat × Nat × Int × Int × Int :=
  (s.signers, s.threshold, s.initial, s.start, s.duration)

theorem cancel_frame {s s' : State} {c id : Nat} {hk : Bool} (h : cancel s c id hk = .ok s') :
    s'.self = s.self ∧ s'.executed = s.executed ∧ Cfg s' = Cfg s := by
  unfold cancel at h
  simp only [guard_ok] at h
  obtain ⟨_, h⟩ := h
  cases hl : alookup id s.pending with
  | none => simp [hl] at h
  | some txn =>
    simp only [hl, guard_ok] at h
    obtain ⟨_, _, h⟩ := h
    injection h with h; subst h; exact ⟨rfl, rfl, rfl⟩

theorem addSigner_frame {s s' : State} {c a : Nat} {b : Bool} (h : addSigner s c a b = .ok s') :
    s'.self = s.self ∧ s'.executed = s.executed ∧ c = s.self := by
  unfold addSigner at h
  simp only [guard_ok] at h
  obtain ⟨hc, _, _, h⟩ := h
  injection h with h; subst h; exact ⟨rfl, rfl, by simpa using hc⟩

theorem removeSigner_frame {s s' : State} {c a : Nat} {b : Bool}
    (h : removeSigner s c a b = .ok s') :
    s'.self = s.self ∧ s'.executed = s.executed ∧ c = s.self := by
  unfold removeSigner at h
  simp only [guard_ok] at h
  obtain ⟨hc, _, _, _, _, h⟩ := h
  injection h with h; subst h; exact ⟨rfl, rfl, by simpa using hc⟩

theorem swapSigner_frame {s s' : State} {c f t : Nat} (h : swapSigner s c f t = .ok s') :
    s'.self = s.self ∧ s'.executed = s.executed ∧ c = s.self := by
  unfold swapSigner at h
  simp only [guard_ok] at h
  obtain ⟨hc, _, _, h⟩ := h
  injection h with h; subst h; exact ⟨rfl, rfl, by simpa using hc⟩

theorem changeThreshold_frame {s s' : State} {c n : Nat} (h : changeThreshold s c n = .ok s') :
    s'.self = s.self ∧ s'.executed = s.executed ∧ c = s.self := by
  unfold changeThreshold at h
  simp only [guard_ok] at h
  obtain ⟨hc, _, h⟩ := h
  injection h with h; subst h; exact ⟨rfl, rfl, by simpa using hc⟩

theorem lockBalance_frame {s s' : State} {c : Nat} {st d amt : Int}
    (h : lockBalance s c st d amt = .ok s') :
    s'.self = s.self ∧ s'.executed = s.executed ∧ c = s.self := by
  unfold lockBalance at h
  simp only [guard_ok] at h
  obtain ⟨hc, _, _, _, h⟩ := h
  injection h with h; subst h; exact ⟨rfl, rfl, by simpa using hc⟩

/-! ### the executed-ids ghost only grows -/

/-- relative to the state an activation started in: ids recorded as executed stay recorded in the
    committed state and in the state of every inner send inside the activation -/
def ResMono (s : State) (r : Res) : Prop :=
  (∀ s' ret, r.out = .ok (s', ret) → ∀ i ∈ s.executed, i ∈ s'.executed) ∧
  (∀ ev ∈ r.trace, ∀ i ∈ s.executed, i ∈ ev.pre.executed)

def SubMono (sub : Sub) : Prop := ∀ s a, ResMono s (sub s a)

theorem ResMono.err (s : State) (e : Err) : ResMono s ⟨.error e, []⟩ :=
  ⟨fun _ _ h => by simp at h, fun _ h => by simp at h⟩

theorem ResMono.stateOr {s : State} {r : Res} (h : ResMono s r) :
    ∀ i ∈ s.executed, i ∈ (r.stateOr s).executed := by
  unfold Res.stateOr
  cases ho : r.out with
  | error e => exact fun i hi => hi
  | ok p => obtain ⟨s', ret⟩ := p; exact h.1 s' ret ho

/-- weaken the starting state -/
theorem ResMono.from {s0 s : State} {r : Res} (h : ResMono s r)
    (h0 : ∀ i ∈ s0.executed, i ∈ s.executed) : ResMono s0 r :=
  ⟨fun s' ret ho i hi => h.1 s' ret ho i (h0 i hi), fun ev hm i hi => h.2 ev hm i (h0 i hi)⟩

theorem runChildren_mono {sub : Sub} (h : SubMono sub) (self : Nat) :
    ∀ (cs : List Act) (s : State),
      (∀ i ∈ s.executed, i ∈ (runChildren sub self s cs).1.executed) ∧
      ∀ ev ∈ (runChildren sub self s cs).2, ∀ i ∈ s.executed, i ∈ ev.pre.executed
  | [], s => by simp [runChildren]
  | a :: rest, s => by
    simp only [runChildren]
    by_cases hc : a.msg.caller = self
    · simp only [hc, if_true]; exact runChildren_mono h self rest s
    · simp only [hc, if_false]
      have hr := h s a
      have ih := runChildren_mono h self rest ((sub s a).stateOr s)
      refine ⟨fun i hi => ih.1 i (hr.stateOr i hi), ?_⟩
      intro ev hev i hi
      rcases List.mem_append.mp hev with h1 | h2
      · exact hr.2 ev h1 i hi
      · exact ih.2 ev h2 i (hr.stateOr i hi)

theorem execIfApproved_mono {sub : Sub} (h : SubMono sub) (epoch : Int) (s : State) (id : Nat)
    (txn : Tx) (sendOk : Bool) (children : List Act) :
    ResMono s (execIfApproved sub epoch s id txn sendOk children) ∧
    ∀ s' ret, (execIfApproved sub epoch s id txn sendOk children).out = .ok (s', ret) →
      ret.txId = id ∧ (ret.applied = true → id ∈ s'.executed) := by
  unfold execIfApproved
  by_cases ht : s.threshold ≤ txn.approved.length
  · simp only [ht, if_true]
    cases hc : checkAvailable s txn.value epoch with
    | error e => exact ⟨ResMono.err s e, fun _ _ he => by simp at he⟩
    | ok u =>
      simp only []
      by_cases hto : txn.to = s.self
      · simp only [hto, if_true]
        generalize hr' : sub _ _ = r
        obtain ⟨s2, a2, hr2, hex⟩ : ∃ s2 a2, r = sub s2 a2 ∧ s2.executed = id :: s.executed :=
          ⟨_, _, hr'.symm, rfl⟩
        have hr := h s2 a2
        rw [← hr2] at hr
        have hcons : ∀ i, i = id ∨ i ∈ s.executed → i ∈ id :: s.executed := by
          intro i hi
          rcases hi with e | e
          · rw [e]; exact List.mem_cons_self
          · exact List.mem_cons_of_mem _ e
        refine ⟨⟨?_, ?_⟩, ?_⟩
        · intro s' r' he i hi
          injection he with he; injection he with he1 he2; subst he1
          cases hout : r.out with
          | error e => exact hcons i (Or.inr hi)
          | ok p =>
            obtain ⟨s3, ret⟩ := p
            cases sendOk
            · exact hcons i (Or.inr hi)
            · exact hr.1 _ _ hout i (hex ▸ hcons i (Or.inr hi))
        · intro ev hm i hi
          rcases List.mem_cons.mp hm with e | e
          · rw [e]; exact hi
          · exact hr.2 ev e i (hex ▸ List.mem_cons_of_mem _ hi)
        · intro s' r' he
          injection he with he; injection he with he1 he2; subst he1; subst he2
          refine ⟨rfl, fun _ => ?_⟩
          cases hout : r.out with
          | error e => exact hcons id (Or.inl rfl)
          | ok p =>
            obtain ⟨s3, ret⟩ := p
            cases sendOk
            · exact hcons id (Or.inl rfl)
            · exact hr.1 _ _ hout id (hex ▸ hcons id (Or.inl rfl))
      · simp only [hto, if_false]
        generalize hn' : runChildren sub s.self _ children = n
        obtain ⟨s2, hn2, hex⟩ : ∃ s2, n = runChildren sub s.self s2 children ∧
            s2.executed = id :: s.executed := ⟨_, hn'.symm, rfl⟩
        have hrc := runChildren_mono h s.self children s2
        rw [← hn2] at hrc
        have hcons : ∀ i, i = id ∨ i ∈ s.executed → i ∈ id :: s.executed := by
          intro i hi
          rcases hi with e | e
          · rw [e]; exact List.mem_cons_self
          · exact List.mem_cons_of_mem _ e
        refine ⟨⟨?_, ?_⟩, ?_⟩
        · intro s' r' he i hi
          injection he with he; injection he with he1 he2; subst he1
          cases sendOk
          · exact hcons i (Or.inr hi)
          · exact hrc.1 i (hex ▸ hcons i (Or.inr hi))
        · intro ev hm i hi
          rcases List.mem_cons.mp hm with e | e
          · rw [e]; exact hi
          · exact hrc.2 ev e i (hex ▸ List.mem_cons_of_mem _ hi)
        · intro s' r' he
          injection he with he; injection he with he1 he2; subst he1; subst he2
          refine ⟨rfl, fun _ => ?_⟩
          cases sendOk
          · exact hcons id (Or.inl rfl)
          · exact hrc.1 id (hex ▸ hcons id (Or.inl rfl))
  · simp only [ht, if_false]
    refine ⟨⟨?_, fun _ hm => by simp at hm⟩, ?_⟩
    · intro s' r' he i hi
      injection he with he; injection he with he1 he2; subst he1; exact hi
    · intro s' r' he
      injection he with he; injection he with he1 he2; subst he2
      exact ⟨rfl, fun hf => by simp at hf⟩

/-- a result that reports `applied` has recorded the transaction id as executed -/
def ResRec (r : Res) : Prop :=
  ∀ s' ret, r.out = .ok (s', ret) → ret.applied = true → ret.txId ∈ s'.executed

theorem ResRec.err (e : Err) (t : List Event) : ResRec ⟨.error e, t⟩ :=
  fun _ _ h => by simp at h

theorem execIfApproved_rec {sub : Sub} (h : SubMono sub) (epoch : Int) (s : State) (id : Nat)
    (txn : Tx) (sendOk : Bool) (children : List Act) :
    ResRec (execIfApproved sub epoch s id txn sendOk children) := by
  intro s' ret ho ha
  have := (execIfApproved_mono h epoch s id txn sendOk children).2 s' ret ho
  rw [this.1]; exact this.2 ha

theorem approveTransaction_mono {sub : Sub} (h : SubMono sub) (epoch : Int) (s : State)
    (caller id : Nat) (txn : Tx) (sendOk : Bool) (children : List Act) :
    ResMono s (approveTransaction sub epoch s caller id txn sendOk children) ∧
    ResRec (approveTransaction sub epoch s caller id txn sendOk children) := by
  unfold approveTransaction
  by_cases hc : caller ∈ txn.approved
  · simp only [hc, if_true]; exact ⟨ResMono.err s _, ResRec.err _ _⟩
  · simp only [hc, if_false]
    exact ⟨(execIfApproved_mono h epoch _ id _ sendOk children).1.from (fun i hi => hi),
      execIfApproved_rec h epoch _ id _ sendOk children⟩

theorem propose_mono {sub : Sub} (h : SubMono sub) (epoch : Int) (s : State) (caller to : Nat)
    (value : Int) (method : Nat) (params : List Int) (sendOk : Bool) (children : List Act) :
    ResMono s (propose sub epoch s caller to value method params sendOk children) ∧
    ResRec (propose sub epoch s caller to value method params sendOk children) := by
  unfold propose
  by_cases hv : value < 0
  · simp only [hv, if_true]; exact ⟨ResMono.err s _, ResRec.err _ _⟩
  · simp only [hv, if_false]
    by_cases hc : caller ∉ s.signers
    · simp only [hc, if_true]; exact ⟨ResMono.err s _, ResRec.err _ _⟩
    · simp only [hc, if_false]
      exact ⟨(approveTransaction_mono h epoch _ _ _ _ _ _).1.from (fun i hi => hi),
        (approveTransaction_mono h epoch _ _ _ _ _ _).2⟩

theorem approve_mono {sub : Sub} (h : SubMono sub) (epoch : Int) (s : State) (caller id : Nat)
    (hashOk sendOk : Bool) (children : List Act) :
    ResMono s (approve sub epoch s caller id hashOk sendOk children) ∧
    ResRec (approve sub epoch s caller id hashOk sendOk children) := by
  unfold approve
  by_cases hc : caller ∉ s.signers
  · simp only [hc, if_true]; exact ⟨ResMono.err s _, ResRec.err _ _⟩
  · simp only [hc, if_false]
    cases hl : alookup id s.pending with
    | none => exact ⟨ResMono.err s _, ResRec.err _ _⟩
    | some txn =>
      simp only []
      cases hashOk
      · exact ⟨ResMono.err s _, ResRec.err _ _⟩
      · simp only [Bool.not_true, Bool.false_eq_true, if_false]
        have hr := (execIfApproved_mono h epoch s id txn sendOk children).1
        have hr2 := execIfApproved_rec h epoch s id txn sendOk children
        generalize execIfApproved sub epoch s id txn sendOk children = r at hr hr2
        cases ho : r.out with
        | error e => exact ⟨⟨fun _ _ he => by simp at he, hr.2⟩, ResRec.err _ _⟩
        | ok p =>
          obtain ⟨s1, ret⟩ := p
          simp only []
          by_cases ha : ret.applied
          · simp only [ha, if_true]; exact ⟨hr, hr2⟩
          · simp only [ha, if_false]
            exact approveTransaction_mono h epoch s caller id txn sendOk children

theorem pureRes_mono {s : State} {r : Except Err State}
    (h : ∀ s', r = .ok s' → s'.executed = s.executed) :
    ResMono s (pureRes r) ∧ ResRec (pureRes r) := by
  unfold pureRes
  cases r with
  | error e => exact ⟨ResMono.err s e, ResRec.err _ _⟩
  | ok s1 =>
    refine ⟨⟨?_, fun _ hm => by simp at hm⟩, ?_⟩
    · intro s' ret he i hi
      injection he with he; injection he with he1 _; subst he1
      rw [h s1 rfl]; exact hi
    · intro s' ret he ha
      injection he with he; injection he with _ he2; subst he2
      simp at ha

theorem execMsg_mono {sub : Sub} (h : SubMono sub) (epoch : Int) (s : State) (a : Act) :
    ResMono s (execMsg sub epoch s a) ∧ ResRec (execMsg sub epoch s a) := by
  unfold execMsg
  by_cases hv : a.msg.value < 0
  · simp only [hv, if_true]; exact ⟨ResMono.err s _, ResRec.err _ _⟩
  · simp only [hv, if_false]
    cases hcall : a.msg.call with
    | receive =>
      refine ⟨⟨?_, fun _ hm => by simp at hm⟩, ?_⟩
      · intro s' ret he i hi
        injection he with he; injection he with he1 _; subst he1; exact hi
      · intro s' ret he ha
        injection he with he; injection he with _ he2; subst he2; simp at ha
    | bad => exact ⟨ResMono.err s _, ResRec.err _ _⟩
    | propose to value method params =>
      have := propose_mono h epoch ({ s with balance := s.balance + a.msg.value } : State)
        a.msg.caller to value method params a.sendOk a.children
      exact ⟨this.1.from (fun i hi => hi), this.2⟩
    | approve id hashOk =>
      have := approve_mono h epoch ({ s with balance := s.balance + a.msg.value } : State)
        a.msg.caller id hashOk a.sendOk a.children
      exact ⟨this.1.from (fun i hi => hi), this.2⟩
    | cancel id hashOk => exact pureRes_mono (fun _ he => (cancel_frame he).2.1)
    | addSigner x inc => exact pureRes_mono (fun _ he => (addSigner_frame he).2.1)
    | removeSigner x dec => exact pureRes_mono (fun _ he => (removeSigner_frame he).2.1)
    | swapSigner f t => exact pureRes_mono (fun _ he => (swapSigner_frame he).2.1)
    | changeThreshold n => exact pureRes_mono (fun _ he => (changeThreshold_frame he).2.1)
    | lockBalance st d amt => exact pureRes_mono (fun _ he => (lockBalance_frame he).2.1)

theorem failSub_mono : SubMono failSub := fun s _ => ResMono.err s _

theorem exec_mono (epoch : Int) : ∀ fuel, SubMono (exec fuel epoch)
  | 0 => fun s a => (execMsg_mono failSub_mono epoch s a).1
  | n + 1 => fun s a => (execMsg_mono (exec_mono epoch n) epoch s a).1

theorem exec_rec (epoch : Int) (fuel : Nat) (s : State) (a : Act) : ResRec (exec fuel epoch s a) := by
  cases fuel with
  | zero => exact (execMsg_mono failSub_mono epoch s a).2
  | succ n => exact (execMsg_mono (exec_mono epoch n) epoch s a).2

theorem run_mono (fuel : Nat) : ∀ (ops : List Op) (s : State),
    (∀ i ∈ s.executed, i ∈ (run fuel s ops).1.executed) ∧
    ∀ ev ∈ (run fuel s ops).2, ∀ i ∈ s.executed, i ∈ ev.pre.executed
  | [], s => ⟨fun _ hi => hi, fun _ hm => by simp [run] at hm⟩
  | op :: rest, s => by
    have h1 := exec_mono op.epoch fuel s op.act
    have h2 := run_mono fuel rest (step fuel s op).1
    refine ⟨fun i hi => h2.1 i (h1.stateOr i hi), ?_⟩
    intro ev hm i hi
    simp only [run] at hm
    rcases List.mem_append.mp hm with e | e
    · exact h1.2 ev e i hi
    · exact h2.2 ev e i (h1.stateOr i hi)

/-! ### signers / threshold / lock change only through a self-call -/

def Call.isAdmin : Call → Bool
  | .addSigner .. | .removeSigner .. | .swapSigner .. | .changeThreshold .. | .lockBalance .. => true
  | _ => false

/-- an inner send the wallet addresses to itself with one of the five administrative methods -/
def SelfAdmin (ev : Event) : Prop := ev.to = ev.pre.self ∧ 5 ≤ ev.method ∧ ev.method ≤ 9

theorem decode_admin {m : Nat} {p : List Int} (h : (decode m p).isAdmin = true) : 5 ≤ m ∧ m ≤ 9 := by
  by_cases hm : 5 ≤ m ∧ m ≤ 9
  · exact hm
  · exfalso
    unfold decode at h
    have h5 : m ≠ 5 := by omega
    have h6 : m ≠ 6 := by omega
    have h7 : m ≠ 7 := by omega
    have h8 : m ≠ 8 := by omega
    have h9 : m ≠ 9 := by omega
    simp only [h5, h6, h7, h8, h9, if_false] at h
    repeat' split at h
    all_goals simp [Call.isAdmin] at h

/-- relative to the start state: the wallet id is kept, and the configuration is kept unless a
    self-addressed administrative send was issued inside -/
def ResCfg (s : State) (r : Res) : Prop :=
  ∀ s' ret, r.out = .ok (s', ret) → Cfg s' = Cfg s ∨ ∃ ev ∈ r.trace, SelfAdmin ev

def ResSelf (s : State) (r : Res) : Prop := ∀ s' ret, r.out = .ok (s', ret) → s'.self = s.self

def SubCfg (sub : Sub) : Prop :=
  ∀ s a, ResSelf s (sub s a) ∧
    ((a.msg.caller ≠ s.self ∨ a.msg.call.isAdmin = false) → ResCfg s (sub s a))

theorem runChildren_cfg {sub : Sub} (h : SubCfg sub) (self : Nat) :
    ∀ (cs : List Act) (s : State), s.self = self →
      (runChildren sub self s cs).1.self = self ∧
      (Cfg (runChildren sub self s cs).1 = Cfg s ∨ ∃ ev ∈ (runChildren sub self s cs).2, SelfAdmin ev)
  | [], s, hs => by simp [runChildren, hs]
  | a :: rest, s, hs => by
    simp only [runChildren]
    by_cases hc : a.msg.caller = self
    · simp only [hc, if_true]; exact runChildren_cfg h self rest s hs
    · simp only [hc, if_false]
      have hr := h s a
      have hself : ((sub s a).stateOr s).self = self := by
        unfold Res.stateOr
        cases ho : (sub s a).out with
        | error e => exact hs
        | ok p => obtain ⟨s', ret⟩ := p; simp only []; rw [hr.1 s' ret ho]; exact hs
      have hcfg : Cfg ((sub s a).stateOr s) = Cfg s ∨ ∃ ev ∈ (sub s a).trace, SelfAdmin ev := by
        unfold Res.stateOr
        cases ho : (sub s a).out with
        | error e => exact Or.inl rfl
        | ok p =>
          obtain ⟨s', ret⟩ := p
          exact hr.2 (Or.inl (by rw [hs]; exact hc)) s' ret ho
      have ih := runChildren_cfg h self rest _ hself
      refine ⟨ih.1, ?_⟩
      rcases hcfg with e1 | ⟨ev, hm, hv⟩
      · rcases ih.2 with e2 | ⟨ev, hm, hv⟩
        · exact Or.inl (e2.trans e1)
        · exact Or.inr ⟨ev, List.mem_append_right _ hm, hv⟩
      · exact Or.inr ⟨ev, List.mem_append_left _ hm, hv⟩

theorem ResCfg.err (s : State) (e : Err) (t : List Event) : ResCfg s ⟨.error e, t⟩ :=
  fun _ _ h => by simp at h
theorem ResSelf.err (s : State) (e : Err) (t : List Event) : ResSelf s ⟨.error e, t⟩ :=
  fun _ _ h => by simp at h

theorem execIfApproved_cfg {sub : Sub} (h : SubCfg sub) (epoch : Int) (s : State) (id : Nat)
    (txn : Tx) (sendOk : Bool) (children : List Act) :
    ResSelf s (execIfApproved sub epoch s id txn sendOk children) ∧
    ResCfg s (execIfApproved sub epoch s id txn sendOk children) := by
  unfold execIfApproved
  by_cases ht : s.threshold ≤ txn.approved.length
  · simp only [ht, if_true]
    cases hc : checkAvailable s txn.value epoch with
    | error e => exact ⟨ResSelf.err s e _, ResCfg.err s e _⟩
    | ok u =>
      simp only []
      by_cases hto : txn.to = s.self
      · simp only [hto, if_true]
        generalize hr' : sub _ _ = r
        obtain ⟨s2, a2, hr2, hself2, hcfg2, hcall2⟩ : ∃ s2 a2, r = sub s2 a2 ∧ s2.self = s.self ∧
            Cfg s2 = Cfg s ∧ a2.msg.call = decode txn.method txn.params :=
          ⟨_, _, hr'.symm, rfl, rfl, rfl⟩
        have hr := h s2 a2
        rw [← hr2] at hr
        refine ⟨?_, ?_⟩
        · intro s' r' he
          injection he with he; injection he with he1 he2; subst he1
          cases hout : r.out with
          | error e => rfl
          | ok p =>
            obtain ⟨s3, ret⟩ := p
            cases sendOk
            · rfl
            · exact (hr.1 _ _ hout).trans hself2
        · intro s' r' he
          injection he with he; injection he with he1 he2; subst he1
          by_cases hadm : 5 ≤ txn.method ∧ txn.method ≤ 9
          · exact Or.inr ⟨_, List.mem_cons_self, ⟨rfl, hadm.1, hadm.2⟩⟩
          · have hna : a2.msg.call.isAdmin = false := by
              rw [hcall2]
              cases hb : (decode txn.method txn.params).isAdmin with
              | false => rfl
              | true => exact absurd (decode_admin hb) hadm
            have hrc := hr.2 (Or.inr hna)
            cases hout : r.out with
            | error e => exact Or.inl rfl
            | ok p =>
              obtain ⟨s3, ret⟩ := p
              cases sendOk
              · exact Or.inl rfl
              · rcases hrc _ _ hout with e | ⟨ev, hm, hv⟩
                · exact Or.inl (e.trans hcfg2)
                · exact Or.inr ⟨ev, List.mem_cons_of_mem _ hm, hv⟩
      · simp only [hto, if_false]
        generalize hn' : runChildren sub s.self _ children = n
        obtain ⟨s2, hn2, hself2, hcfg2⟩ : ∃ s2, n = runChildren sub s.self s2 children ∧
            s2.self = s.self ∧ Cfg s2 = Cfg s := ⟨_, hn'.symm, rfl, rfl⟩
        have hrc := runChildren_cfg h s.self children s2 hself2
        rw [← hn2] at hrc
        refine ⟨?_, ?_⟩
        · intro s' r' he
          injection he with he; injection he with he1 he2; subst he1
          cases sendOk
          · rfl
          · exact hrc.1
        · intro s' r' he
          injection he with he; injection he with he1 he2; subst he1
          cases sendOk
          · exact Or.inl rfl
          · rcases hrc.2 with e | ⟨ev, hm, hv⟩
            · exact Or.inl (e.trans hcfg2)
            · exact Or.inr ⟨ev, List.mem_cons_of_mem _ hm, hv⟩
  · simp only [ht, if_false]
    refine ⟨?_, ?_⟩
    · intro s' r' he
      injection he with he; injection he with he1 he2; subst he1; rfl
    · intro s' r' he
      injection he with he; injection he with he1 he2; subst he1; exact Or.inl rfl

theorem ResCfg.from {s0 s : State} {r : Res} (h : ResCfg s r) (h0 : Cfg s = Cfg s0) : ResCfg s0 r :=
  fun s' ret ho => by
    rcases h s' ret ho with e | e
    · exact Or.inl (e.trans h0)
    · exact Or.inr e

theorem ResSelf.from {s0 s : State} {r : Res} (h : ResSelf s r) (h0 : s.self = s0.self) :
    ResSelf s0 r := fun s' ret ho => (h s' ret ho).trans h0

theorem approveTransaction_cfg {sub : Sub} (h : SubCfg sub) (epoch : Int) (s : State)
    (caller id : Nat) (txn : Tx) (sendOk : Bool) (children : List Act) :
    ResSelf s (approveTransaction sub epoch s caller id txn sendOk children) ∧
    ResCfg s (approveTransaction sub epoch s caller id txn sendOk children) := by
  unfold approveTransaction
  by_cases hc : caller ∈ txn.approved
  · simp only [hc, if_true]; exact ⟨ResSelf.err s _ _, ResCfg.err s _ _⟩
  · simp only [hc, if_false]
    exact ⟨(execIfApproved_cfg h epoch _ id _ sendOk children).1.from rfl,
      (execIfApproved_cfg h epoch _ id _ sendOk children).2.from rfl⟩

theorem propose_cfg {sub : Sub} (h : SubCfg sub) (epoch : Int) (s : State) (caller to : Nat)
    (value : Int) (method : Nat) (params : List Int) (sendOk : Bool) (children : List Act) :
    ResSelf s (propose sub epoch s caller to value method params sendOk children) ∧
    ResCfg s (propose sub epoch s caller to value method params sendOk children) := by
  unfold propose
  by_cases hv : value < 0
  · simp only [hv, if_true]; exact ⟨ResSelf.err s _ _, ResCfg.err s _ _⟩
  · simp only [hv, if_false]
    by_cases hc : caller ∉ s.signers
    · simp only [hc, if_true]; exact ⟨ResSelf.err s _ _, ResCfg.err s _ _⟩
    · simp only [hc, if_false]
      exact ⟨(approveTransaction_cfg h epoch _ _ _ _ _ _).1.from rfl,
        (approveTransaction_cfg h epoch _ _ _ _ _ _).2.from rfl⟩

theorem approve_cfg {sub : Sub} (h : SubCfg sub) (epoch : Int) (s : State) (caller id : Nat)
    (hashOk sendOk : Bool) (children : List Act) :
    ResSelf s (approve sub epoch s caller id hashOk sendOk children) ∧
    ResCfg s (approve sub epoch s caller id hashOk sendOk children) := by
  unfold approve
  by_cases hc : caller ∉ s.signers
  · simp only [hc, if_true]; exact ⟨ResSelf.err s _ _, ResCfg.err s _ _⟩
  · simp only [hc, if_false]
    cases hl : alookup id s.pending with
    | none => exact ⟨ResSelf.err s _ _, ResCfg.err s _ _⟩
    | some txn =>
      simp only []
      cases hashOk
      · exact ⟨ResSelf.err s _ _, ResCfg.err s _ _⟩
      · simp only [Bool.not_true, Bool.false_eq_true, if_false]
        have hr := execIfApproved_cfg h epoch s id txn sendOk children
        generalize execIfApproved sub epoch s id txn sendOk children = r at hr
        cases ho : r.out with
        | error e => exact ⟨ResSelf.err s _ _, ResCfg.err s _ _⟩
        | ok p =>
          obtain ⟨s1, ret⟩ := p
          simp only []
          by_cases ha : ret.applied
          · simp only [ha, if_true]; exact hr
          · simp only [ha, if_false]
            exact approveTransaction_cfg h epoch s caller id txn sendOk children

theorem pureRes_self {s : State} {r : Except Err State} (h : ∀ s', r = .ok s' → s'.self = s.self) :
    ResSelf s (pureRes r) := by
  unfold pureRes
  cases r with
  | error e => exact ResSelf.err s e _
  | ok s1 =>
    intro s' ret he
    injection he with he; injection he with he1 _; subst he1
    exact h s1 rfl

theorem pureRes_cfg {s : State} {r : Except Err State} (h : ∀ s', r = .ok s' → Cfg s' = Cfg s) :
    ResCfg s (pureRes r) := by
  unfold pureRes
  cases r with
  | error e => exact ResCfg.err s e _
  | ok s1 =>
    intro s' ret he
    injection he with he; injection he with he1 _; subst he1
    exact Or.inl (h s1 rfl)

theorem execMsg_cfg {sub : Sub} (h : SubCfg sub) (epoch : Int) : SubCfg (execMsg sub epoch) := by
  intro s a
  unfold execMsg
  by_cases hv : a.msg.value < 0
  · simp only [hv, if_true]; exact ⟨ResSelf.err s _ _, fun _ => ResCfg.err s _ _⟩
  · simp only [hv, if_false]
    cases hcall : a.msg.call with
    | receive =>
      refine ⟨?_, fun _ => ?_⟩
      · intro s' ret he
        injection he with he; injection he with he1 _; subst he1; rfl
      · intro s' ret he
        injection he with he; injection he with he1 _; subst he1; exact Or.inl rfl
    | bad => exact ⟨ResSelf.err s _ _, fun _ => ResCfg.err s _ _⟩
    | propose to value method params =>
      exact ⟨(propose_cfg h epoch _ _ _ _ _ _ _ _).1.from rfl,
        fun _ => (propose_cfg h epoch _ _ _ _ _ _ _ _).2.from rfl⟩
    | approve id hashOk =>
      exact ⟨(approve_cfg h epoch _ _ _ _ _ _).1.from rfl,
        fun _ => (approve_cfg h epoch _ _ _ _ _ _).2.from rfl⟩
    | cancel id hashOk =>
      exact ⟨pureRes_self (fun _ he => (cancel_frame he).1),
        fun _ => pureRes_cfg (fun _ he => (cancel_frame he).2.2)⟩
    | addSigner x inc =>
      refine ⟨pureRes_self (fun _ he => (addSigner_frame he).1), fun hc => ?_⟩
      rcases hc with hc | hc
      · exact pureRes_cfg (fun _ he => absurd (addSigner_frame he).2.2 hc)
      · simp [Call.isAdmin] at hc
    | removeSigner x dec =>
      refine ⟨pureRes_self (fun _ he => (removeSigner_frame he).1), fun hc => ?_⟩
      rcases hc with hc | hc
      · exact pureRes_cfg (fun _ he => absurd (removeSigner_frame he).2.2 hc)
      · simp [Call.isAdmin] at hc
    | swapSigner f t =>
      refine ⟨pureRes_self (fun _ he => (swapSigner_frame he).1), fun hc => ?_⟩
      rcases hc with hc | hc
      · exact pureRes_cfg (fun _ he => absurd (swapSigner_frame he).2.2 hc)
      · simp [Call.isAdmin] at hc
    | changeThreshold n =>
      refine ⟨pureRes_self (fun _ he => (changeThreshold_frame he).1), fun hc => ?_⟩
      rcases hc with hc | hc
      · exact pureRes_cfg (fun _ he => absurd (changeThreshold_frame he).2.2 hc)
      · simp [Call.isAdmin] at hc
    | lockBalance st d amt =>
      refine ⟨pureRes_self (fun _ he => (lockBalance_frame he).1), fun hc => ?_⟩
      rcases hc with hc | hc
      · exact pureRes_cfg (fun _ he => absurd (lockBalance_frame he).2.2 hc)
      · simp [Call.isAdmin] at hc

theorem failSub_cfg : SubCfg failSub :=
  fun s _ => ⟨ResSelf.err s _ _, fun _ => ResCfg.err s _ _⟩

theorem exec_cfg (epoch : Int) : ∀ fuel, SubCfg (exec fuel epoch)
  | 0 => execMsg_cfg failSub_cfg epoch
  | n + 1 => execMsg_cfg (exec_cfg epoch n) epoch

theorem ResSelf.stateOr {s : State} {r : Res} (h : ResSelf s r) : (r.stateOr s).self = s.self := by
  unfold Res.stateOr
  cases ho : r.out with
  | error e => rfl
  | ok p => obtain ⟨s', ret⟩ := p; exact h s' ret ho

theorem ResCfg.stateOr {s : State} {r : Res} (h : ResCfg s r) :
    Cfg (r.stateOr s) = Cfg s ∨ ∃ ev ∈ r.trace, SelfAdmin ev := by
  unfold Res.stateOr
  cases ho : r.out with
  | error e => exact Or.inl rfl
  | ok p => obtain ⟨s', ret⟩ := p; exact h s' ret ho

end BA.Multisig
