/- Helper lemmas for the registry + token system model: what each message does to the token
   ledger (frame `DcStep`), used by the C09 conservation theorems. -/
import BA.Model.Verifreg
import BA.Lemmas.Datacap

namespace BA.Verifreg
open BA

/-- what a successful (part of a) message preserves about the token ledger and the environment;
    `dm` is the amount it minted -/
structure DcStepM (s s' : Sys) (dm : Int) : Prop where
  gov : s'.dc.governor = s.dc.governor
  inv : Datacap.Inv s.dc → Datacap.Inv s'.dc
  actors : s'.actors = s.actors
  root : s'.vr.root = s.vr.root
  minted : s'.dc.minted = s.dc.minted + dm

abbrev DcStep (s s' : Sys) : Prop := DcStepM s s' 0

theorem DcStep.refl (s : Sys) : DcStep s s := ⟨rfl, id, rfl, rfl, by omega⟩
theorem DcStepM.trans {a b c : Sys} {x y : Int} (h1 : DcStepM a b x) (h2 : DcStepM b c y) :
    DcStepM a c (x + y) :=
  ⟨h2.gov.trans h1.gov, fun hi => h2.inv (h1.inv hi), h2.actors.trans h1.actors,
   h2.root.trans h1.root, by rw [h2.minted, h1.minted]; omega⟩
theorem DcStep.trans {a b c : Sys} (h1 : DcStep a b) (h2 : DcStep b c) : DcStep a c := by
  have := DcStepM.trans h1 h2; simpa using this
theorem DcStepM.trans0 {a b c : Sys} {x : Int} (h1 : DcStepM a b x) (h2 : DcStep b c) :
    DcStepM a c x := by
  have := DcStepM.trans h1 h2; simpa using this

theorem DcStep.ofMoves {s : Sys} {dc' : Datacap.State} {a b : Int} {f : Nat → Int}
    (m : Datacap.Moves s.dc dc' a b f) : DcStepM s { s with dc := dc' } a :=
  ⟨m.gov, m.inv, rfl, rfl, m.minted⟩

theorem burnOwn_moves (dc dc' : Datacap.State) (a : Int) (h : burnOwn dc a = .ok dc') :
    Datacap.Moves dc dc' 0 (toTokens a) (fun x => if x = verifregId then -(toTokens a) else 0) := by
  unfold burnOwn at h
  by_cases ha : a = 0
  · simp [ha] at h; subst h
    subst ha
    exact ⟨rfl, id, by simp, by simp [toTokens], by simp [toTokens], fun x => by simp [toTokens]⟩
  · simp only [ha, if_false] at h
    exact (Datacap.burnL_spec _ _ _ _ h).2.2.2.2

theorem receive_dcstep (s : Sys) (epoch : Int) (client : Nat) (amount : Int) (data : Option Reqs)
    (s' : Sys) (r : Ret) (h : receive s epoch client amount data = .ok (s', r)) : DcStep s s' := by
  unfold receive at h
  cases data with
  | none => simp at h
  | some reqs =>
    simp only at h
    cases h1 : validateAllocReqs s epoch reqs.allocs with
    | error e => simp [h1] at h
    | ok u =>
      simp only [h1] at h
      cases h2 : collectExts s.vr.claims epoch reqs.exts with
      | error e => simp [h2] at h
      | ok p =>
        obtain ⟨ups, extTotal⟩ := p
        simp only [h2, guard_ok] at h
        obtain ⟨_, h⟩ := h
        cases h3 : burnOwn s.dc extTotal with
        | error e => simp [h3] at h
        | ok dc1 =>
          simp only [h3] at h
          injection h with h
          injection h with hs hr
          subst hs
          have m := burnOwn_moves _ _ _ h3
          exact ⟨m.gov, m.inv, rfl, rfl, m.minted⟩

theorem hook_dcstep (s : Sys) (epoch : Int) (from_ to : Nat) (amount : Int) (data : Option Reqs)
    (s' : Sys) (r : Ret) (h : hook s epoch from_ to amount data = .ok (s', r)) : DcStep s s' := by
  unfold hook at h
  by_cases ht : to = verifregId
  · simp only [ht, if_true] at h
    exact receive_dcstep _ _ _ _ _ _ _ h
  · simp only [ht, if_false] at h
    cases hk : kindOf s to with
    | none => simp [hk] at h
    | some k =>
      cases k <;> simp [hk] at h
      obtain ⟨hs, _⟩ := h
      subst hs
      exact DcStep.refl _

theorem dcTransfer_dcstep (s : Sys) (epoch : Int) (caller to : Nat) (amount : Int)
    (data : Option Reqs) (s' : Sys) (r : Ret)
    (h : dcTransfer s epoch caller to amount data = .ok (s', r)) : DcStep s s' := by
  unfold dcTransfer at h
  cases h1 : Datacap.transferL s.dc caller to amount with
  | error e => simp [h1] at h
  | ok dc1 =>
    simp only [h1] at h
    obtain ⟨_, _, _, m⟩ := Datacap.transferL_spec _ _ _ _ _ h1
    exact DcStep.trans (DcStep.ofMoves m) (hook_dcstep _ _ _ _ _ _ _ _ h)

theorem dcTransferFrom_dcstep (s : Sys) (epoch : Int) (caller from_ to : Nat) (amount : Int)
    (data : Option Reqs) (s' : Sys) (r : Ret)
    (h : dcTransferFrom s epoch caller from_ to amount data = .ok (s', r)) : DcStep s s' := by
  unfold dcTransferFrom at h
  cases h1 : Datacap.transferFromL s.dc caller from_ to amount with
  | error e => simp [h1] at h
  | ok dc1 =>
    simp only [h1] at h
    obtain ⟨_, _, _, _, m⟩ := Datacap.transferFromL_spec _ _ _ _ _ _ h1
    exact DcStep.trans (DcStep.ofMoves m) (hook_dcstep _ _ _ _ _ _ _ _ h)

theorem dcMint_dcstep (s : Sys) (epoch : Int) (caller to : Nat) (amount : Int) (ops : List Nat)
    (s' : Sys) (h : dcMint s epoch caller to amount ops = .ok s') :
    caller = s.dc.governor ∧ DcStepM s s' amount := by
  unfold dcMint at h
  simp only [guard_ok] at h
  obtain ⟨hc, h⟩ := h
  cases h1 : Datacap.mintL s.dc to amount ops with
  | error e => simp [h1] at h
  | ok dc1 =>
    simp only [h1] at h
    obtain ⟨_, _, m⟩ := Datacap.mintL_spec _ _ _ _ _ h1
    cases h2 : hook { s with dc := dc1 } epoch datacapId to amount none with
    | error e => simp [h2] at h
    | ok p =>
      obtain ⟨s2, r2⟩ := p
      simp only [h2] at h
      injection h with h; subst h
      exact ⟨by simpa using hc, DcStepM.trans0 (DcStep.ofMoves m) (hook_dcstep _ _ _ _ _ _ _ _ h2)⟩

theorem dcDestroy_dcstep (s : Sys) (caller owner : Nat) (amount : Int) (s' : Sys)
    (h : dcDestroy s caller owner amount = .ok s') : caller = s.dc.governor ∧ DcStep s s' := by
  unfold dcDestroy at h
  simp only [guard_ok] at h
  obtain ⟨hc, h⟩ := h
  cases h1 : Datacap.burnL s.dc owner amount with
  | error e => simp [h1] at h
  | ok dc1 =>
    simp only [h1] at h
    injection h with h; subst h
    exact ⟨by simpa using hc, DcStep.ofMoves (Datacap.burnL_spec _ _ _ _ h1).2.2.2.2⟩

theorem addVerifier_spec (s : Sys) (caller addr : Nat) (allowance : Int) (s' : Sys)
    (h : addVerifier s caller addr allowance = .ok s') :
    caller = s.vr.root ∧ s'.dc = s.dc ∧ s'.actors = s.actors ∧
    s'.vr = { s.vr with verifiers := aset addr allowance s.vr.verifiers } := by
  unfold addVerifier at h
  simp only [guard_ok] at h
  obtain ⟨_, _, h3, _, _, h⟩ := h
  injection h with h; subst h
  exact ⟨by simpa using h3, rfl, rfl, rfl⟩

theorem removeVerifier_spec (s : Sys) (caller addr : Nat) (s' : Sys)
    (h : removeVerifier s caller addr = .ok s') :
    caller = s.vr.root ∧ s'.dc = s.dc ∧ s'.actors = s.actors ∧
    s'.vr = { s.vr with verifiers := aerase addr s.vr.verifiers } := by
  unfold removeVerifier at h
  simp only [guard_ok] at h
  obtain ⟨h1, h⟩ := h
  cases hl : alookup addr s.vr.verifiers with
  | none => simp [hl] at h
  | some v =>
    simp only [hl] at h
    injection h with h; subst h
    exact ⟨by simpa using h1, rfl, rfl, rfl⟩

theorem claimAllocations_dcstep (s : Sys) (epoch : Int) (caller : Nat) (sectors : List SectorReq)
    (aon : Bool) (s' : Sys) (r : Ret) (h : claimAllocations s epoch caller sectors aon = .ok (s', r)) :
    DcStep s s' := by
  unfold claimAllocations at h
  simp only [guard_ok] at h
  obtain ⟨_, _, h⟩ := h
  cases h1 : claimLoop caller epoch sectors { allocs := s.vr.allocs, claims := s.vr.claims } with
  | error e => simp [h1] at h
  | ok acc =>
    simp only [h1, guard_ok] at h
    obtain ⟨_, h⟩ := h
    cases h3 : burnOwn s.dc acc.total with
    | error e => simp [h3] at h
    | ok dc1 =>
      simp only [h3] at h
      injection h with h
      injection h with hs hr
      subst hs
      have m := burnOwn_moves _ _ _ h3
      exact ⟨m.gov, m.inv, rfl, rfl, m.minted⟩

theorem removeExpiredAllocations_dcstep (s : Sys) (epoch : Int) (client : Nat) (ids : List Nat)
    (s' : Sys) (r : Ret) (h : removeExpiredAllocations s epoch client ids = .ok (s', r)) :
    DcStep s s' := by
  unfold removeExpiredAllocations at h
  simp only at h
  split at h
  · simp at h
  · rename_i allocs' recovered hrm
    split at h
    · simp at h
    · rename_i s2 r2 ht
      injection h with h
      injection h with hs hr
      subst hs
      have := dcTransfer_dcstep _ _ _ _ _ _ _ _ ht
      exact ⟨this.gov, this.inv, this.actors, this.root, this.minted⟩

theorem destroyUpTo_dcstep (s : Sys) (client : Nat) (burnt : Int) (s' : Sys) (r : Ret)
    (h : destroyUpTo s client burnt = .ok (s', r)) : DcStep s s' := by
  unfold destroyUpTo at h
  by_cases hb : burnt = 0
  · simp only [hb, if_true] at h
    injection h with h; injection h with hs _; subst hs; exact DcStep.refl _
  · simp only [hb, if_false] at h
    cases hd : dcDestroy s verifregId client (toTokens burnt) with
    | error e => simp [hd] at h
    | ok s2 =>
      simp only [hd] at h
      injection h with h; injection h with hs _; subst hs
      exact (dcDestroy_dcstep _ _ _ _ _ hd).2

theorem removeClientDataCap_dcstep (s : Sys) (caller client v1 v2 : Nat) (b1 b2 : Bool)
    (amount : Int) (s' : Sys) (r : Ret)
    (h : removeClientDataCap s caller client v1 v2 b1 b2 amount = .ok (s', r)) : DcStep s s' := by
  unfold removeClientDataCap at h
  simp only [guard_ok] at h
  obtain ⟨_, _, _, _, _, _, _, _, _, h⟩ := h
  exact destroyUpTo_dcstep _ _ _ _ _ h

theorem addClient_dcstep (s : Sys) (epoch : Int) (caller client : Nat) (allowance : Int) (s' : Sys)
    (h : addClient s epoch caller client allowance = .ok s') : DcStepM s s' (toTokens allowance) := by
  unfold addClient at h
  simp only [guard_ok] at h
  obtain ⟨_, _, _, h⟩ := h
  cases hl : alookup caller s.vr.verifiers with
  | none => simp [hl] at h
  | some cap =>
    simp only [hl, guard_ok] at h
    obtain ⟨_, _, h⟩ := h
    have := (dcMint_dcstep _ _ _ _ _ _ _ h).2
    exact ⟨this.gov, this.inv, this.actors, this.root, this.minted⟩

theorem liftDc_ok (s : Sys) (r : Except Err Datacap.State) (s' : Sys) (ret : Ret)
    (h : liftDc s r = .ok (s', ret)) : ∃ dc, r = .ok dc ∧ s' = { s with dc := dc } := by
  unfold liftDc at h
  cases r with
  | error e => simp at h
  | ok dc => simp at h; exact ⟨dc, rfl, h.1.symm⟩

theorem noRet_ok (r : Except Err Sys) (s' : Sys) (ret : Ret) (h : noRet r = .ok (s', ret)) :
    r = .ok s' := by
  unfold noRet at h
  cases r with
  | error e => simp at h
  | ok x => simp at h; rw [h.1]

/-- every successful message preserves the ledger invariant, the governor and the environment;
    it mints only if it is a verifier's grant (minted by the registry) or a `Mint` sent by the
    governor itself -/
theorem exec_dcstep (s : Sys) (op : Op) (s' : Sys) (r : Ret) (h : exec s op = .ok (s', r)) :
    ∃ dm, DcStepM s s' dm ∧
      (dm ≠ 0 → (∃ e c cl a, op = .addClient e c cl a) ∨ (∃ e to a, op = .mint e s.dc.governor to a)) := by
  have z : ∀ {s s' : Sys}, DcStep s s' → ∃ dm, DcStepM s s' dm ∧
      (dm ≠ 0 → (∃ e c cl a, op = .addClient e c cl a) ∨ (∃ e to a, op = .mint e s.dc.governor to a)) :=
    fun hd => ⟨0, hd, fun h0 => absurd rfl h0⟩
  cases op with
  | addVerifier caller addr allowance =>
    obtain ⟨_, h1, h2, h3⟩ := addVerifier_spec _ _ _ _ _ (noRet_ok _ _ _ h)
    exact ⟨0, ⟨by rw [h1], fun hi => by rw [h1]; exact hi, h2, by rw [h3], by rw [h1]; omega⟩, fun h0 => absurd rfl h0⟩
  | removeVerifier caller addr =>
    obtain ⟨_, h1, h2, h3⟩ := removeVerifier_spec _ _ _ _ (noRet_ok _ _ _ h)
    exact ⟨0, ⟨by rw [h1], fun hi => by rw [h1]; exact hi, h2, by rw [h3], by rw [h1]; omega⟩, fun h0 => absurd rfl h0⟩
  | addClient epoch caller client allowance =>
    exact ⟨_, addClient_dcstep _ _ _ _ _ _ (noRet_ok _ _ _ h), fun _ => Or.inl ⟨_, _, _, _, rfl⟩⟩
  | removeClientDataCap caller client v1 v2 b1 b2 amount => exact z (removeClientDataCap_dcstep _ _ _ _ _ _ _ _ _ _ h)
  | transfer epoch caller to amount data => exact z (dcTransfer_dcstep _ _ _ _ _ _ _ _ h)
  | transferFrom epoch caller from_ to amount data => exact z (dcTransferFrom_dcstep _ _ _ _ _ _ _ _ _ h)
  | claim epoch caller sectors aon => exact z (claimAllocations_dcstep _ _ _ _ _ _ _ h)
  | removeExpiredAllocs epoch client ids => exact z (removeExpiredAllocations_dcstep _ _ _ _ _ _ h)
  | removeExpiredClaims epoch provider ids =>
    simp only [exec] at h
    unfold removeExpiredClaims at h
    simp only at h
    split at h
    · simp at h
    · injection h with h; injection h with hs _; subst hs; exact z ⟨rfl, id, rfl, rfl, by simp⟩
  | extendClaimTerms caller terms =>
    simp only [exec, extendClaimTerms] at h
    injection h with h; injection h with hs _; subst hs; exact z ⟨rfl, id, rfl, rfl, by simp⟩
  | mint epoch caller to amount =>
    obtain ⟨hc, hd⟩ := dcMint_dcstep _ _ _ _ _ _ _ (noRet_ok _ _ _ h)
    subst hc
    exact ⟨_, hd, fun _ => Or.inr ⟨_, _, _, rfl⟩⟩
  | destroy caller owner amount => exact z (dcDestroy_dcstep _ _ _ _ _ (noRet_ok _ _ _ h)).2
  | burn caller amount =>
    obtain ⟨dc, h1, h2⟩ := liftDc_ok _ _ _ _ h
    subst h2
    exact z (DcStep.ofMoves (Datacap.burnL_spec _ _ _ _ h1).2.2.2.2)
  | burnFrom caller owner amount =>
    obtain ⟨dc, h1, h2⟩ := liftDc_ok _ _ _ _ h
    subst h2
    exact z (DcStep.ofMoves (Datacap.burnFromL_spec _ _ _ _ _ h1).2.2)
  | increaseAllowance caller operator d =>
    obtain ⟨dc, h1, h2⟩ := liftDc_ok _ _ _ _ h
    subst h2
    unfold Datacap.increaseAllowanceL at h1
    simp only [guard_ok] at h1
    obtain ⟨_, h1⟩ := h1
    injection h1 with h1; subst h1
    exact z (DcStep.ofMoves (Datacap.Moves.ofOnlyAllow (Datacap.changeAllowance_only _ _ _ _)))
  | decreaseAllowance caller operator d =>
    obtain ⟨dc, h1, h2⟩ := liftDc_ok _ _ _ _ h
    subst h2
    unfold Datacap.decreaseAllowanceL at h1
    simp only [guard_ok] at h1
    obtain ⟨_, h1⟩ := h1
    injection h1 with h1; subst h1
    exact z (DcStep.ofMoves (Datacap.Moves.ofOnlyAllow (Datacap.changeAllowance_only _ _ _ _)))
  | revokeAllowance caller operator =>
    simp only [exec] at h
    injection h with h; injection h with hs _; subst hs
    exact z (DcStep.ofMoves (Datacap.Moves.ofOnlyAllow (Datacap.setAllowanceRaw_only _ _ _ _)))

/-- `Mint` as the registry uses it: the receiver is not the registry, the registry's own state is
    untouched, exactly `amount` appears on `to`'s balance and in the supply. -/
theorem dcMint_spec (s : Sys) (epoch : Int) (caller to : Nat) (amount : Int) (ops : List Nat)
    (s' : Sys) (h : dcMint s epoch caller to amount ops = .ok s') :
    caller = s.dc.governor ∧ to ≠ verifregId ∧ s'.vr = s.vr ∧ s'.actors = s.actors ∧
    Datacap.Moves s.dc s'.dc amount 0 (fun x => if x = to then amount else 0) := by
  unfold dcMint at h
  simp only [guard_ok] at h
  obtain ⟨hc, h⟩ := h
  cases h1 : Datacap.mintL s.dc to amount ops with
  | error e => simp [h1] at h
  | ok dc1 =>
    simp only [h1] at h
    obtain ⟨_, _, m⟩ := Datacap.mintL_spec _ _ _ _ _ h1
    cases h2 : hook { s with dc := dc1 } epoch datacapId to amount none with
    | error e => simp [h2] at h
    | ok p =>
      obtain ⟨s2, r2⟩ := p
      simp only [h2] at h
      injection h with h; subst h
      unfold hook at h2
      by_cases ht : to = verifregId
      · simp [ht, receive] at h2
      · simp only [ht, if_false] at h2
        cases hk : kindOf { s with dc := dc1 } to with
        | none => simp [hk] at h2
        | some k =>
          cases k <;> simp [hk] at h2
          obtain ⟨hs, _⟩ := h2
          subst hs
          exact ⟨by simpa using hc, ht, rfl, rfl, m⟩

end BA.Verifreg
