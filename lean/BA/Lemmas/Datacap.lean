/- Helper lemmas for the DataCap ledger model: every ledger primitive preserves
   `supply = Σ balances = minted − burnt` and moves balances exactly as specified. -/
import BA.Model.Datacap

namespace BA.Datacap
open BA

def vals (l : List (Nat × Int)) : List Int := l.map (fun p => p.2)

def lookupD (l : List (Nat × Int)) (k : Nat) : Int :=
  match alookup k l with
  | some v => v
  | none => 0

theorem isum_vals_aset (l : List (Nat × Int)) (k : Nat) (v : Int) :
    isum (vals (aset k v l)) = isum (vals l) - lookupD l k + v := by
  induction l with
  | nil => simp [aset, vals, lookupD]
  | cons hd t ih =>
    obtain ⟨k', v'⟩ := hd
    by_cases hk : k' = k
    · simp [aset, vals, lookupD, alookup, hk]; omega
    · simp only [aset, hk, if_false, vals, List.map_cons, isum_cons, lookupD, alookup]
      simp only [vals, lookupD] at ih
      rw [ih]; omega

/-- the ledger invariant -/
structure Inv (s : State) : Prop where
  sum : s.supply = isum (vals s.balances)
  ghost : s.supply = s.minted - s.burnt

theorem inv_init (g : Nat) : Inv (init g) := ⟨by simp [init, vals], by simp [init]⟩

theorem bal_eq_lookupD (s : State) (a : Nat) : bal s a = lookupD s.balances a := rfl

/-- frame: everything but the balances table is untouched -/
def SameRest (s s' : State) : Prop :=
  s'.governor = s.governor ∧ s'.allowances = s.allowances ∧ s'.supply = s.supply ∧
  s'.minted = s.minted ∧ s'.burnt = s.burnt

theorem changeBalance_spec (s : State) (a : Nat) (d : Int) (s' : State)
    (h : changeBalance s a d = .ok s') :
    SameRest s s' ∧ 0 ≤ bal s a + d ∧
    (∀ x, bal s' x = if x = a then bal s a + d else bal s x) ∧
    isum (vals s'.balances) = isum (vals s.balances) + d := by
  unfold changeBalance at h
  simp only [guard_ok] at h
  obtain ⟨h1, h⟩ := h
  injection h with h; subst h
  refine ⟨⟨rfl, rfl, rfl, rfl, rfl⟩, by omega, ?_, ?_⟩
  · intro x
    by_cases hx : x = a
    · subst hx; simp [bal]
    · simp only [bal, hx, if_false]
      rw [alookup_aset_other _ _ _ _ hx]
  · simp only
    rw [isum_vals_aset, ← bal_eq_lookupD]; omega

theorem changeSupply_spec (s : State) (d : Int) (s' : State) (h : changeSupply s d = .ok s') :
    s'.supply = s.supply + d ∧ s'.balances = s.balances ∧ s'.governor = s.governor ∧
    s'.allowances = s.allowances ∧ s'.minted = s.minted ∧ s'.burnt = s.burnt := by
  unfold changeSupply at h
  simp only [guard_ok] at h
  obtain ⟨_, h⟩ := h
  injection h with h; subst h
  exact ⟨rfl, rfl, rfl, rfl, rfl, rfl⟩

theorem checkAmount_spec (a : Int) (h : checkAmount a = .ok ()) : 0 ≤ a ∧ a % precision = 0 := by
  unfold checkAmount at h
  simp only [guard_ok] at h
  obtain ⟨h1, h2, _⟩ := h
  constructor
  · omega
  · simpa using h2

/-- only allowances change -/
def OnlyAllow (s s' : State) : Prop :=
  s'.governor = s.governor ∧ s'.balances = s.balances ∧ s'.supply = s.supply ∧
  s'.minted = s.minted ∧ s'.burnt = s.burnt

theorem OnlyAllow.refl (s : State) : OnlyAllow s s := ⟨rfl, rfl, rfl, rfl, rfl⟩
theorem OnlyAllow.trans {a b c : State} (h1 : OnlyAllow a b) (h2 : OnlyAllow b c) : OnlyAllow a c := by
  obtain ⟨a1, a2, a3, a4, a5⟩ := h1
  obtain ⟨b1, b2, b3, b4, b5⟩ := h2
  exact ⟨b1.trans a1, b2.trans a2, b3.trans a3, b4.trans a4, b5.trans a5⟩

theorem OnlyAllow.inv {s s' : State} (h : OnlyAllow s s') (hi : Inv s) : Inv s' := by
  obtain ⟨_, a2, a3, a4, a5⟩ := h
  exact ⟨by rw [a3, a2]; exact hi.sum, by rw [a3, a4, a5]; exact hi.ghost⟩

theorem OnlyAllow.bal {s s' : State} (h : OnlyAllow s s') (x : Nat) : bal s' x = bal s x := by
  simp [Datacap.bal, h.2.1]

theorem setAllowanceRaw_only (s : State) (o p : Nat) (v : Int) : OnlyAllow s (setAllowanceRaw s o p v) :=
  ⟨rfl, rfl, rfl, rfl, rfl⟩

theorem changeAllowance_only (s : State) (o p : Nat) (d : Int) : OnlyAllow s (changeAllowance s o p d) :=
  setAllowanceRaw_only _ _ _ _

theorem useAllowance_only (s : State) (op ow : Nat) (a : Int) (s' : State)
    (h : useAllowance s op ow a = .ok s') : OnlyAllow s s' := by
  unfold useAllowance at h
  simp only [guard_ok] at h
  obtain ⟨_, h⟩ := h
  by_cases ha : a = 0
  · simp [ha] at h; subst h; exact OnlyAllow.refl _
  · simp [ha] at h; subst h; exact changeAllowance_only _ _ _ _

theorem setInfinite_only (ops : List Nat) : ∀ (s : State) (o : Nat), OnlyAllow s (setInfinite s o ops) := by
  induction ops with
  | nil => intro s o; exact OnlyAllow.refl _
  | cons p rest ih =>
    intro s o
    exact OnlyAllow.trans (setAllowanceRaw_only s o p _) (ih _ o)

/-- what a ledger operation did to balances, supply and the ghost counters -/
structure Moves (s s' : State) (dMint dBurn : Int) (f : Nat → Int) : Prop where
  gov : s'.governor = s.governor
  inv : Inv s → Inv s'
  minted : s'.minted = s.minted + dMint
  burnt : s'.burnt = s.burnt + dBurn
  supply : s'.supply = s.supply + dMint - dBurn
  bal : ∀ x, bal s' x = bal s x + f x

theorem Moves.ofOnlyAllow {s s' : State} (h : OnlyAllow s s') : Moves s s' 0 0 (fun _ => 0) :=
  ⟨h.1, h.inv, by rw [h.2.2.2.1]; omega, by rw [h.2.2.2.2]; omega, by rw [h.2.2.1]; omega,
   fun x => by rw [h.bal]; omega⟩

theorem mintL_spec (s : State) (to : Nat) (amount : Int) (ops : List Nat) (s' : State)
    (h : mintL s to amount ops = .ok s') :
    0 ≤ amount ∧ amount % precision = 0 ∧
    Moves s s' amount 0 (fun x => if x = to then amount else 0) := by
  unfold mintL at h
  cases hc : checkAmount amount with
  | error e => simp [hc] at h
  | ok u =>
    cases u
    obtain ⟨a0, a1⟩ := checkAmount_spec _ hc
    simp only [hc] at h
    cases h1 : changeBalance s to amount with
    | error e => simp [h1] at h
    | ok s1 =>
      simp only [h1] at h
      obtain ⟨⟨g1, al1, su1, m1, b1⟩, _, bal1, sum1⟩ := changeBalance_spec _ _ _ _ h1
      cases h2 : changeSupply s1 amount with
      | error e => simp [h2] at h
      | ok s2 =>
        simp only [h2] at h
        obtain ⟨su2, ba2, g2, al2, m2, b2⟩ := changeSupply_spec _ _ _ h2
        injection h with h
        have ho := setInfinite_only ops { s2 with minted := s2.minted + amount } to
        rw [h] at ho
        obtain ⟨o1, o2, o3, o4, o5⟩ := ho
        simp only at o1 o2 o3 o4 o5
        refine ⟨a0, a1, ⟨by rw [o1, g2, g1], ?_, by rw [o4, m2, m1], by rw [o5, b2, b1]; omega,
          by rw [o3, su2, su1]; omega, ?_⟩⟩
        · intro hi
          exact ⟨by rw [o3, o2, ba2, su2, su1, sum1, hi.sum],
                 by rw [o3, o4, o5, su2, su1, m2, m1, b2, b1, hi.ghost]; omega⟩
        · intro x
          have : bal s' x = bal s1 x := by simp [Datacap.bal, o2, ba2]
          rw [this, bal1 x]
          by_cases hx : x = to <;> simp [hx]

theorem burnL_spec (s : State) (owner : Nat) (amount : Int) (s' : State)
    (h : burnL s owner amount = .ok s') :
    0 ≤ amount ∧ amount % precision = 0 ∧ amount ≤ bal s owner ∧
    s'.allowances = s.allowances ∧
    Moves s s' 0 amount (fun x => if x = owner then -amount else 0) := by
  unfold burnL at h
  cases hc : checkAmount amount with
  | error e => simp [hc] at h
  | ok u =>
    cases u
    obtain ⟨a0, a1⟩ := checkAmount_spec _ hc
    simp only [hc] at h
    cases h1 : changeBalance s owner (-amount) with
    | error e => simp [h1] at h
    | ok s1 =>
      simp only [h1] at h
      obtain ⟨⟨g1, al1, su1, m1, b1⟩, nn, bal1, sum1⟩ := changeBalance_spec _ _ _ _ h1
      cases h2 : changeSupply s1 (-amount) with
      | error e => simp [h2] at h
      | ok s2 =>
        simp only [h2] at h
        obtain ⟨su2, ba2, g2, al2, m2, b2⟩ := changeSupply_spec _ _ _ h2
        injection h with h
        subst h
        refine ⟨a0, a1, by omega, by simp [al2, al1], ⟨by simp [g2, g1], ?_, by simp [m2, m1],
          by simp [b2, b1], by simp [su2, su1]; omega, ?_⟩⟩
        · intro hi
          exact ⟨by simp only; rw [ba2, su2, su1, sum1, hi.sum] <;> omega,
                 by simp only; rw [su2, su1, m2, m1, b2, b1, hi.ghost]; omega⟩
        · intro x
          have : bal { s2 with burnt := s2.burnt + amount } x = bal s1 x := by simp [Datacap.bal, ba2]
          rw [this, bal1 x]
          by_cases hx : x = owner <;> simp [hx]

theorem burnFromL_spec (s : State) (operator owner : Nat) (amount : Int) (s' : State)
    (h : burnFromL s operator owner amount = .ok s') :
    0 ≤ amount ∧ operator ≠ owner ∧
    Moves s s' 0 amount (fun x => if x = owner then -amount else 0) := by
  unfold burnFromL at h
  cases hc : checkAmount amount with
  | error e => simp [hc] at h
  | ok u =>
    cases u
    obtain ⟨a0, a1⟩ := checkAmount_spec _ hc
    simp only [hc] at h
    by_cases hop : operator = owner
    · simp [hop] at h
    · simp only [hop, if_false] at h
      cases h0 : useAllowance s operator owner amount with
      | error e => simp [h0] at h
      | ok s0 =>
        simp only [h0] at h
        have ho := useAllowance_only _ _ _ _ _ h0
        cases h1 : changeBalance s0 owner (-amount) with
        | error e => simp [h1] at h
        | ok s1 =>
          simp only [h1] at h
          obtain ⟨⟨g1, al1, su1, m1, b1⟩, nn, bal1, sum1⟩ := changeBalance_spec _ _ _ _ h1
          cases h2 : changeSupply s1 (-amount) with
          | error e => simp [h2] at h
          | ok s2 =>
            simp only [h2] at h
            obtain ⟨su2, ba2, g2, al2, m2, b2⟩ := changeSupply_spec _ _ _ h2
            injection h with h
            subst h
            obtain ⟨o1, o2, o3, o4, o5⟩ := ho
            refine ⟨a0, hop, ⟨by simp [g2, g1, o1], ?_, by simp [m2, m1, o4],
              by simp [b2, b1, o5], by simp [su2, su1, o3]; omega, ?_⟩⟩
            · intro hi
              exact ⟨by simp only; rw [ba2, su2, su1, sum1, o3, o2, hi.sum] <;> omega,
                     by simp only; rw [su2, su1, m2, m1, b2, b1, o3, o4, o5, hi.ghost]; omega⟩
            · intro x
              have e1 : bal { s2 with burnt := s2.burnt + amount } x = bal s1 x := by simp [Datacap.bal, ba2]
              have e2 : ∀ y, bal s0 y = bal s y := fun y => by simp [Datacap.bal, o2]
              rw [e1, bal1 x, e2, e2]
              by_cases hx : x = owner <;> simp [hx]

theorem makeTransfer_spec (s : State) (from_ to : Nat) (amount : Int) (s' : State)
    (h : makeTransfer s from_ to amount = .ok s') :
    amount ≤ bal s from_ ∧ s'.allowances = s.allowances ∧
    Moves s s' 0 0 (fun x => (if x = from_ then -amount else 0) + (if x = to then amount else 0)) := by
  unfold makeTransfer at h
  by_cases hft : from_ = to
  · simp only [hft, if_true, guard_ok] at h
    obtain ⟨h1, h⟩ := h
    injection h with h; subst h
    refine ⟨by subst hft; omega, rfl, ⟨rfl, id, by omega, by omega, by omega, ?_⟩⟩
    intro x; by_cases hx : x = to <;> simp [hx, hft] <;> omega
  · simp only [hft, if_false] at h
    cases h1 : changeBalance s from_ (-amount) with
    | error e => simp [h1] at h
    | ok s1 =>
      simp only [h1] at h
      obtain ⟨⟨g1, al1, su1, m1, b1⟩, nn, bal1, sum1⟩ := changeBalance_spec _ _ _ _ h1
      obtain ⟨⟨g2, al2, su2, m2, b2⟩, _, bal2, sum2⟩ := changeBalance_spec _ _ _ _ h
      refine ⟨by omega, by rw [al2, al1], ⟨by rw [g2, g1], ?_, by rw [m2, m1]; omega,
        by rw [b2, b1]; omega, by rw [su2, su1]; omega, ?_⟩⟩
      · intro hi
        exact ⟨by rw [su2, su1, sum2, sum1, hi.sum]; omega, by rw [su2, su1, m2, m1, b2, b1, hi.ghost]⟩
      · intro x
        rw [bal2 x]
        by_cases hx : x = to
        · subst hx
          have : ¬ (x = from_) := fun e => hft e.symm
          simp [this, bal1 x]
        · simp only [hx, if_false]
          rw [bal1 x]
          by_cases hx2 : x = from_ <;> simp [hx2] <;> omega

theorem transferL_spec (s : State) (from_ to : Nat) (amount : Int) (s' : State)
    (h : transferL s from_ to amount = .ok s') :
    (to = s.governor ∨ from_ = s.governor) ∧ 0 ≤ amount ∧ amount % precision = 0 ∧
    Moves s s' 0 0 (fun x => (if x = from_ then -amount else 0) + (if x = to then amount else 0)) := by
  unfold transferL at h
  simp only [guard_ok] at h
  obtain ⟨h1, h⟩ := h
  cases hc : checkAmount amount with
  | error e => simp [hc] at h
  | ok u =>
    cases u
    obtain ⟨a0, a1⟩ := checkAmount_spec _ hc
    simp only [hc] at h
    exact ⟨by by_cases ht : to = s.governor
              · exact Or.inl ht
              · exact Or.inr (by simpa [ht] using h1),
           a0, a1, (makeTransfer_spec _ _ _ _ _ h).2.2⟩

theorem transferFromL_spec (s : State) (operator from_ to : Nat) (amount : Int) (s' : State)
    (h : transferFromL s operator from_ to amount = .ok s') :
    to = s.governor ∧ 0 ≤ amount ∧ amount % precision = 0 ∧ operator ≠ from_ ∧
    Moves s s' 0 0 (fun x => (if x = from_ then -amount else 0) + (if x = to then amount else 0)) := by
  unfold transferFromL at h
  simp only [guard_ok] at h
  obtain ⟨h1, h⟩ := h
  cases hc : checkAmount amount with
  | error e => simp [hc] at h
  | ok u =>
    cases u
    obtain ⟨a0, a1⟩ := checkAmount_spec _ hc
    simp only [hc] at h
    by_cases hop : operator = from_
    · simp [hop] at h
    · simp only [hop, if_false] at h
      cases h0 : useAllowance s operator from_ amount with
      | error e => simp [h0] at h
      | ok s0 =>
        simp only [h0] at h
        have ho := useAllowance_only _ _ _ _ _ h0
        obtain ⟨_, _, mv⟩ := makeTransfer_spec _ _ _ _ _ h
        refine ⟨by simpa using h1, a0, a1, hop, ⟨by rw [mv.gov, ho.1], fun hi => mv.inv (ho.inv hi),
          by rw [mv.minted, ho.2.2.2.1], by rw [mv.burnt, ho.2.2.2.2], by rw [mv.supply, ho.2.2.1],
          fun x => by rw [mv.bal x, ho.bal]⟩⟩

/-! ### allowances of other owners are untouched -/

/-- allowances of every owner other than `o` are the same in `s'` as in `s` -/
def AllowFrame (s s' : State) (o : Nat) : Prop :=
  ∀ o' p, o' ≠ o → allowance s' o' p = allowance s o' p

theorem AllowFrame.refl (s : State) (o : Nat) : AllowFrame s s o := fun _ _ _ => rfl
theorem AllowFrame.trans {a b c : State} {o : Nat} (h1 : AllowFrame a b o) (h2 : AllowFrame b c o) :
    AllowFrame a c o := fun o' p h => (h2 o' p h).trans (h1 o' p h)
theorem AllowFrame.ofEq {s s' : State} (h : s'.allowances = s.allowances) (o : Nat) : AllowFrame s s' o :=
  fun _ _ _ => by simp [allowance, h]

theorem setAllowanceRaw_frame (s : State) (o p : Nat) (v : Int) : AllowFrame s (setAllowanceRaw s o p v) o := by
  intro o' p' h
  simp only [allowance, setAllowanceRaw]
  rw [alookup_aset_other _ _ _ _ h]

theorem changeAllowance_frame (s : State) (o p : Nat) (d : Int) : AllowFrame s (changeAllowance s o p d) o :=
  setAllowanceRaw_frame _ _ _ _

theorem useAllowance_frame (s : State) (op ow : Nat) (a : Int) (s' : State)
    (h : useAllowance s op ow a = .ok s') :
    AllowFrame s s' ow ∧ (op ≠ ow → allowance s ow op ≠ 0) := by
  unfold useAllowance at h
  simp only [guard_ok] at h
  obtain ⟨h1, h⟩ := h
  refine ⟨?_, fun hne h0 => h1 (Or.inl ⟨h0, hne⟩)⟩
  by_cases ha : a = 0
  · simp [ha] at h; subst h; exact AllowFrame.refl _ _
  · simp [ha] at h; subst h; exact changeAllowance_frame _ _ _ _

theorem setInfinite_frame (ops : List Nat) : ∀ (s : State) (o : Nat), AllowFrame s (setInfinite s o ops) o := by
  induction ops with
  | nil => intro s o; exact AllowFrame.refl _ _
  | cons p rest ih => intro s o; exact AllowFrame.trans (setAllowanceRaw_frame s o p _) (ih _ o)

theorem mintL_frame (s : State) (to : Nat) (amount : Int) (ops : List Nat) (s' : State)
    (h : mintL s to amount ops = .ok s') : AllowFrame s s' to := by
  unfold mintL at h
  cases hc : checkAmount amount with
  | error e => simp [hc] at h
  | ok u =>
    cases u
    simp only [hc] at h
    cases h1 : changeBalance s to amount with
    | error e => simp [h1] at h
    | ok s1 =>
      simp only [h1] at h
      obtain ⟨⟨_, al1, _, _, _⟩, _⟩ := changeBalance_spec _ _ _ _ h1
      cases h2 : changeSupply s1 amount with
      | error e => simp [h2] at h
      | ok s2 =>
        simp only [h2] at h
        obtain ⟨_, _, _, al2, _, _⟩ := changeSupply_spec _ _ _ h2
        injection h with h; subst h
        refine AllowFrame.trans (AllowFrame.ofEq ?_ to) (setInfinite_frame ops _ to)
        simp [al2, al1]

theorem burnFromL_frame (s : State) (operator owner : Nat) (amount : Int) (s' : State)
    (h : burnFromL s operator owner amount = .ok s') :
    AllowFrame s s' owner ∧ allowance s owner operator ≠ 0 := by
  unfold burnFromL at h
  cases hc : checkAmount amount with
  | error e => simp [hc] at h
  | ok u =>
    cases u
    simp only [hc] at h
    by_cases hop : operator = owner
    · simp [hop] at h
    · simp only [hop, if_false] at h
      cases h0 : useAllowance s operator owner amount with
      | error e => simp [h0] at h
      | ok s0 =>
        simp only [h0] at h
        obtain ⟨f0, n0⟩ := useAllowance_frame _ _ _ _ _ h0
        cases h1 : changeBalance s0 owner (-amount) with
        | error e => simp [h1] at h
        | ok s1 =>
          simp only [h1] at h
          obtain ⟨⟨_, al1, _, _, _⟩, _⟩ := changeBalance_spec _ _ _ _ h1
          cases h2 : changeSupply s1 (-amount) with
          | error e => simp [h2] at h
          | ok s2 =>
            simp only [h2] at h
            obtain ⟨_, _, _, al2, _, _⟩ := changeSupply_spec _ _ _ h2
            injection h with h; subst h
            exact ⟨AllowFrame.trans f0 (AllowFrame.ofEq (by simp [al2, al1]) owner), n0 hop⟩

theorem transferL_allow (s : State) (from_ to : Nat) (amount : Int) (s' : State)
    (h : transferL s from_ to amount = .ok s') : s'.allowances = s.allowances := by
  unfold transferL at h
  simp only [guard_ok] at h
  obtain ⟨_, h⟩ := h
  cases hc : checkAmount amount with
  | error e => simp [hc] at h
  | ok u => cases u; simp only [hc] at h; exact (makeTransfer_spec _ _ _ _ _ h).2.1

theorem transferFromL_frame (s : State) (operator from_ to : Nat) (amount : Int) (s' : State)
    (h : transferFromL s operator from_ to amount = .ok s') :
    AllowFrame s s' from_ ∧ allowance s from_ operator ≠ 0 := by
  unfold transferFromL at h
  simp only [guard_ok] at h
  obtain ⟨_, h⟩ := h
  cases hc : checkAmount amount with
  | error e => simp [hc] at h
  | ok u =>
    cases u
    simp only [hc] at h
    by_cases hop : operator = from_
    · simp [hop] at h
    · simp only [hop, if_false] at h
      cases h0 : useAllowance s operator from_ amount with
      | error e => simp [h0] at h
      | ok s0 =>
        simp only [h0] at h
        obtain ⟨f0, n0⟩ := useAllowance_frame _ _ _ _ _ h0
        exact ⟨AllowFrame.trans f0 (AllowFrame.ofEq (makeTransfer_spec _ _ _ _ _ h).2.1 from_), n0 hop⟩

end BA.Datacap
