/- The market invariants are preserved by every atomic transition. -/
import BA.Lemmas.MarketInv

namespace BA.Market
open BA

/-! ### arithmetic of the payment windows -/

theorem pos_nonneg (x : Int) : 0 ≤ pos x := by unfold pos; split <;> omega

theorem payStartOf_eq (d : Proposal) (lu e : Int) (h0 : 0 ≤ d.startE) (hlu : LuB d lu e) :
    payStartOf d lu = max d.startE lu := by
  unfold payStartOf
  rcases hlu with h | ⟨h1, h2, h3⟩
  · subst h; simp; omega
  · split <;> omega

/-- a continuing settlement at `e < end` pays the fee of the epochs between the two marks -/
theorem pay_arith (d : Proposal) (g : GoodDeal d) (lu e pay : Int) (hlu : LuB d lu e) (he : e < d.endE)
    (hpay : pay = if d.startE > e then 0 else d.price * (min d.endE e - payStartOf d lu)) :
    pos pay = d.price * (max d.startE e - max d.startE lu) := by
  have hps := payStartOf_eq d lu e g.start0 hlu
  have h0 := g.start0
  have hd := g.dur
  by_cases hs : d.startE > e
  · simp only [hs, if_true] at hpay
    subst hpay
    have : max d.startE e - max d.startE lu = 0 := by
      rcases hlu with h | ⟨h1, h2, h3⟩
      · subst h; omega
      · omega
    rw [this]; simp [pos]
  · simp only [hs, if_false] at hpay
    have hw : min d.endE e - payStartOf d lu = max d.startE e - max d.startE lu := by
      rw [hps]; omega
    rw [hw] at hpay
    have hnn : 0 ≤ pay := by
      rw [hpay]; apply Int.mul_nonneg g.price
      rcases hlu with h | ⟨h1, h2, h3⟩
      · subst h; omega
      · omega
    rw [pos_of_nonneg hnn, hpay]

/-- the completing settlement (`e ≥ end`) pays the whole remaining fee -/
theorem complete_arith (d : Proposal) (g : GoodDeal d) (lu e pay : Int) (hlu : LuB d lu e)
    (he : d.endE ≤ e) (hpay : pay = d.price * (min d.endE e - payStartOf d lu)) :
    pos pay = d.price * (d.endE - max d.startE lu) := by
  have hps := payStartOf_eq d lu e g.start0 hlu
  have h0 := g.start0
  have hd := g.dur
  have hw : min d.endE e - payStartOf d lu = d.endE - max d.startE lu := by
    rw [hps]; omega
  rw [hw] at hpay
  have hnn : 0 ≤ pay := by
    rw [hpay]; apply Int.mul_nonneg g.price
    have := g.dur
    rcases hlu with h | ⟨h1, h2, h3⟩
    · subst h; omega
    · omega
  rw [pos_of_nonneg hnn, hpay]

/-- at a termination the closing payment plus the fee handed back is the whole remaining fee -/
theorem term_arith (d : Proposal) (g : GoodDeal d) (lu se : Int) (hlu : LuB d lu se) (hse : se < d.endE) :
    pos (termPayment d lu se) + termRemaining d se = d.price * (d.endE - max d.startE lu) := by
  have hnn : 0 ≤ termPayment d lu se := by
    unfold termPayment; apply Int.mul_nonneg g.price; omega
  have h0 := g.start0
  rw [pos_of_nonneg hnn]
  unfold termPayment termRemaining
  rw [← Int.mul_add]
  congr 1
  have := g.dur
  rcases hlu with h | ⟨h1, h2, h3⟩
  · subst h; omega
  · omega

/-! ### lookups after an erase -/

theorem alookup_aerase_some {α : Type} {l : List (Nat × α)} {k id : Nat} {v : α}
    (h : alookup k (aerase id l) = some v) : k ≠ id ∧ alookup k l = some v := by
  by_cases hk : k = id
  · subst hk; rw [alookup_aerase_same] at h; simp at h
  · rw [alookup_aerase_other _ _ _ hk] at h; exact ⟨hk, h⟩

theorem luTo_fresh (d : Proposal) (st : DealState) (h : st.lastUpdated = -1) (h0 : 0 ≤ d.startE) :
    luTo d (some st) = luTo d none := by
  simp only [luTo, h]; omega

/-! ### generic steps: removal of a deal, payment for a deal -/

/-- removing deal `id` (completion, termination, time-out) with the matching unlocks -/
theorem inv_remove {s s' : State} (hi : Inv s) {id : Nat} {d : Proposal}
    (hp : alookup id s.proposals = some d)
    (hepoch : s'.epoch = s.epoch) (hnext : s'.nextId = s.nextId)
    (hprops : s'.proposals = aerase id s.proposals) (hstates : s'.states = aerase id s.states)
    (hpaid : ∀ j, bal s'.paid j = if j = id then 0 else bal s.paid j)
    {dEsc dLock : Nat → Int} {dcc dfee dpc : Int} (m : Moves s s' dEsc dLock dcc dfee dpc)
    (hL : ∀ p, dLock p = - oblH p d (alookup id s.states))
    (hcc : dcc = - d.clientColl) (hpc : dpc = - d.providerColl)
    (hfee : dfee = - remFee d (alookup id s.states))
    (hle : ∀ p, dLock p ≤ dEsc p)
    {c : Closed} (hclosed : s'.closed = s.closed ++ [(id, c)]) (hc : ClosedOk c) : Inv s' := by
  have hs : ∀ k, k ≠ id → alookup k (aerase id s.states) = alookup k s.states :=
    fun k hk => alookup_aerase_other _ _ _ hk
  refine ⟨⟨?_, ?_, ?_, ?_, ?_⟩, ⟨?_, ?_, ?_, ?_, ?_⟩, ⟨?_, ?_, ?_⟩⟩
  · rw [hepoch]; exact hi.wf.epoch0
  · rw [hprops]; exact ND_aerase hi.wf.nd _
  · intro k d' h; rw [hprops] at h; rw [hnext]
    exact hi.wf.fresh k d' (alookup_aerase_some h).2
  · intro k d' h; rw [hprops] at h
    exact hi.wf.good k d' (alookup_aerase_some h).2
  · intro k st h; rw [hstates] at h
    obtain ⟨hk, h'⟩ := alookup_aerase_some h
    obtain ⟨d', hd', hl⟩ := hi.wf.st k st h'
    refine ⟨d', ?_, ?_⟩
    · rw [hprops, alookup_aerase_other _ _ _ hk]; exact hd'
    · rw [hepoch]; exact hl
  · intro p
    rw [m.locked, hi.acct.locked, hprops, hstates, dsum_erase hi.wf.nd hp hs, hL]; omega
  · rw [m.cc, hi.acct.cc, hprops, hstates, dsum_erase hi.wf.nd hp hs, hcc]; omega
  · rw [m.pc, hi.acct.pc, hprops, hstates, dsum_erase hi.wf.nd hp hs, hpc]; omega
  · rw [m.fee, hi.acct.fee, hprops, hstates, dsum_erase hi.wf.nd hp hs, hfee]; omega
  · intro p; rw [m.locked, m.escrow]
    have := hi.acct.le p; have := hle p; omega
  · intro k d' h; rw [hprops] at h
    obtain ⟨hk, h'⟩ := alookup_aerase_some h
    rw [hpaid, hstates, hs k hk]; simp [hk]; exact hi.ledg.live k d' h'
  · intro k h
    rw [hpaid]
    by_cases hk : k = id
    · simp [hk]
    · simp [hk]; rw [hprops, alookup_aerase_other _ _ _ hk] at h; exact hi.ledg.dead k h
  · intro k c' hm
    rw [hclosed] at hm
    rcases List.mem_append.mp hm with hm | hm
    · exact hi.ledg.closed k c' hm
    · simp at hm; rw [hm.2]; exact hc

/-- a continuing settlement of deal `id` at the current epoch: `P` moves from the client's locked
    escrow to the provider, the settlement mark moves to now -/
theorem inv_pay {s s' : State} (hi : Inv s) {id : Nat} {d : Proposal} {st : DealState}
    (hp : alookup id s.proposals = some d) (hst : alookup id s.states = some st)
    (hlt : s.epoch < d.endE)
    (hepoch : s'.epoch = s.epoch) (hnext : s'.nextId = s.nextId)
    (hprops : s'.proposals = s.proposals)
    (hstates : s'.states = aset id { st with lastUpdated := s.epoch } s.states)
    {P : Int} (hP : P = d.price * (max d.startE s.epoch - max d.startE st.lastUpdated)) (hP0 : 0 ≤ P)
    (hpaid : ∀ j, bal s'.paid j = bal s.paid j + ind j id P)
    (m : Moves s s' (fun j => - ind j d.client P + ind j d.provider P) (fun j => - ind j d.client P)
      0 (-P) 0) (hclosed : s'.closed = s.closed) : Inv s' := by
  have hs : ∀ k, k ≠ id → alookup k (aset id { st with lastUpdated := s.epoch } s.states)
      = alookup k s.states := fun k hk => alookup_aset_other _ _ _ _ hk
  have hnew : alookup id (aset id { st with lastUpdated := s.epoch } s.states)
      = some { st with lastUpdated := s.epoch } := alookup_aset_same _ _ _
  have hrem : remFee d (some { st with lastUpdated := s.epoch }) = remFee d (some st) - P := by
    simp only [remFee, luTo]
    rw [hP, ← Int.mul_sub]
    congr 1; omega
  refine ⟨⟨?_, ?_, ?_, ?_, ?_⟩, ⟨?_, ?_, ?_, ?_, ?_⟩, ⟨?_, ?_, by rw [hclosed]; exact hi.ledg.closed⟩⟩
  · rw [hepoch]; exact hi.wf.epoch0
  · rw [hprops]; exact hi.wf.nd
  · intro k d' h; rw [hprops] at h; rw [hnext]; exact hi.wf.fresh k d' h
  · intro k d' h; rw [hprops] at h; exact hi.wf.good k d' h
  · intro k st' h; rw [hstates] at h
    by_cases hk : k = id
    · subst hk
      rw [hnew] at h; injection h with h; subst h
      refine ⟨d, by rw [hprops]; exact hp, Or.inr ⟨?_, ?_, ?_⟩⟩
      · exact hi.wf.epoch0
      · rw [hepoch]; exact Int.le_refl _
      · exact hlt
    · rw [hs k hk] at h
      obtain ⟨d', hd', hl⟩ := hi.wf.st k st' h
      exact ⟨d', by rw [hprops]; exact hd', by rw [hepoch]; exact hl⟩
  · intro p
    rw [m.locked, hi.acct.locked, hprops, hstates, dsum_update hi.wf.nd hp hs, hst, hnew]
    simp only [oblH, hrem, ind]
    split <;> omega
  · rw [m.cc, hi.acct.cc, hprops, hstates, dsum_update hi.wf.nd hp hs]; omega
  · rw [m.pc, hi.acct.pc, hprops, hstates, dsum_update hi.wf.nd hp hs]; omega
  · rw [m.fee, hi.acct.fee, hprops, hstates, dsum_update hi.wf.nd hp hs, hst, hnew, hrem]; omega
  · intro p; rw [m.locked, m.escrow]
    have := hi.acct.le p
    simp only [ind]; split <;> split <;> omega
  · intro k d' h; rw [hprops] at h
    rw [hpaid, hstates]
    by_cases hk : k = id
    · subst hk
      rw [hp] at h; injection h with h; subst h
      rw [hnew, hi.ledg.live k d hp, hst, hP]
      simp only [luTo, ind, if_true]
      rw [← Int.mul_add]; congr 1; omega
    · rw [hs k hk]; simp [ind, hk]; exact hi.ledg.live k d' h
  · intro k h; rw [hprops] at h
    rw [hpaid]
    have : k ≠ id := by intro e; subst e; rw [hp] at h; simp at h
    simp [ind, this]; exact hi.ledg.dead k h

/-! ### the simple transitions -/

theorem inv_escrow_only {s : State} (hi : Inv s) (esc : Table)
    (h : ∀ p, bal s.locked p ≤ bal esc p) : Inv { s with escrow := esc } :=
  ⟨⟨hi.wf.epoch0, hi.wf.nd, hi.wf.fresh, hi.wf.good, hi.wf.st⟩,
   ⟨hi.acct.locked, hi.acct.cc, hi.acct.pc, hi.acct.fee, h⟩, ⟨hi.ledg.live, hi.ledg.dead, hi.ledg.closed⟩⟩

theorem inv_advance (s : State) (e : Int) (hi : Inv s) (he : s.epoch ≤ e) :
    Inv { s with epoch := e } := by
  refine ⟨⟨?_, hi.wf.nd, hi.wf.fresh, hi.wf.good, ?_⟩,
    ⟨hi.acct.locked, hi.acct.cc, hi.acct.pc, hi.acct.fee, hi.acct.le⟩, ⟨hi.ledg.live, hi.ledg.dead, hi.ledg.closed⟩⟩
  · have := hi.wf.epoch0; show 0 ≤ e; omega
  · intro k st h
    obtain ⟨d, hd, hl⟩ := hi.wf.st k st h
    refine ⟨d, hd, ?_⟩
    rcases hl with hl | ⟨a, b, c⟩
    · exact Or.inl hl
    · exact Or.inr ⟨a, by show st.lastUpdated ≤ e; omega, c⟩

theorem inv_addBalance (s : State) (a : Nat) (v : Int) (r : Bool) (s' : State) (hi : Inv s)
    (h : addBalance s a v r = .ok s') : Inv s' := by
  unfold addBalance at h
  simp only [guard_ok] at h
  obtain ⟨hv, _, h⟩ := h
  cases hb : badd s.escrow a v with
  | error e => simp [hb] at h
  | ok esc =>
    simp only [hb] at h
    injection h with h; subst h
    obtain ⟨_, b2, b3⟩ := badd_ok hb
    apply inv_escrow_only hi
    intro p
    have := hi.acct.le p
    by_cases hp : p = a
    · subst hp; rw [b2]; omega
    · rw [b3 p hp]; exact this

theorem inv_withdraw (s : State) (c n : Nat) (a : Int) (env : PartyEnv) (so : Bool) (s' : State)
    (w : Withdrawal) (hi : Inv s) (h : withdraw s c n a env so = .ok (s', w)) : Inv s' := by
  unfold withdraw at h
  simp only [guard_ok] at h
  obtain ⟨_, _, _, h⟩ := h
  split at h
  · simp at h
  · rename_i esc hesc
    simp only [guard_ok] at h
    obtain ⟨_, h⟩ := h
    injection h with h
    injection h with h1 _
    subst h1
    apply inv_escrow_only hi
    intro p
    have hle := hi.acct.le p
    by_cases hex : min (max 0 (bal s.escrow n - bal s.locked n)) a > 0
    · simp only [hex, if_true] at hesc
      obtain ⟨_, b2, b3⟩ := badd_ok hesc
      by_cases hp : p = n
      · subst hp; rw [b2]; omega
      · rw [b3 p hp]; exact hle
    · simp only [hex, if_false] at hesc
      injection hesc with hesc; subst hesc; exact hle

theorem inv_dealOps (s : State) (l : List (Int × Nat)) (hi : Inv s) : Inv { s with dealOps := l } :=
  ⟨⟨hi.wf.epoch0, hi.wf.nd, hi.wf.fresh, hi.wf.good, hi.wf.st⟩,
   ⟨hi.acct.locked, hi.acct.cc, hi.acct.pc, hi.acct.fee, hi.acct.le⟩, ⟨hi.ledg.live, hi.ledg.dead, hi.ledg.closed⟩⟩

theorem inv_lastCron (s : State) (e : Int) (hi : Inv s) : Inv { s with lastCron := e } :=
  ⟨⟨hi.wf.epoch0, hi.wf.nd, hi.wf.fresh, hi.wf.good, hi.wf.st⟩,
   ⟨hi.acct.locked, hi.acct.cc, hi.acct.pc, hi.acct.fee, hi.acct.le⟩, ⟨hi.ledg.live, hi.ledg.dead, hi.ledg.closed⟩⟩

theorem inv_pending (s : State) (l : List Proposal) (hi : Inv s) : Inv { s with pending := l } :=
  ⟨⟨hi.wf.epoch0, hi.wf.nd, hi.wf.fresh, hi.wf.good, hi.wf.st⟩,
   ⟨hi.acct.locked, hi.acct.cc, hi.acct.pc, hi.acct.fee, hi.acct.le⟩, ⟨hi.ledg.live, hi.ledg.dead, hi.ledg.closed⟩⟩

/-! ### publication -/

theorem inv_publishOne (s : State) (d : Proposal) (s' : State) (id : Nat) (hi : Inv s)
    (hv : ValidDeal s.epoch d) (h : publishOne s d = .ok (s', id)) : Inv s' := by
  unfold publishOne at h
  cases hl : lockBoth s d with
  | error e => simp [hl] at h
  | ok s1 =>
    simp only [hl] at h
    injection h with h
    injection h with h1 h2
    subst h1
    obtain ⟨c, _, _, hesc, hlock, hle, t1, t2, t3⟩ := lockBoth_ok hl
    have hnone : alookup s1.nextId s.proposals = none := by
      cases hq : alookup s1.nextId s.proposals with
      | none => rfl
      | some d' => have := hi.wf.fresh _ _ hq; rw [c.nextId] at this; omega
    have hsnone : alookup s1.nextId s.states = none := by
      cases hq : alookup s1.nextId s.states with
      | none => rfl
      | some st =>
        obtain ⟨d', hd', _⟩ := hi.wf.st _ _ hq
        rw [hnone] at hd'; simp at hd'
    have hgood : GoodDeal d := ⟨hv.dur, by have := hi.wf.epoch0; have := hv.start; omega, hv.price,
      hv.cc, hv.pc⟩
    refine ⟨⟨?_, ?_, ?_, ?_, ?_⟩, ⟨?_, ?_, ?_, ?_, ?_⟩, ⟨?_, ?_,
      by show ∀ id c', (id, c') ∈ s1.closed → ClosedOk c'; rw [c.closed]; exact hi.ledg.closed⟩⟩
    · show 0 ≤ s1.epoch; rw [c.epoch]; exact hi.wf.epoch0
    · show ND (aset s1.nextId d s1.proposals); rw [c.proposals]; exact ND_aset hi.wf.nd _ _
    · intro k d' hk
      show k < s1.nextId + 1
      change alookup k (aset s1.nextId d s1.proposals) = some d' at hk
      by_cases hkk : k = s1.nextId
      · omega
      · rw [alookup_aset_other _ _ _ _ hkk, c.proposals] at hk
        have := hi.wf.fresh k d' hk; rw [c.nextId]; omega
    · intro k d' hk
      change alookup k (aset s1.nextId d s1.proposals) = some d' at hk
      by_cases hkk : k = s1.nextId
      · subst hkk; rw [alookup_aset_same] at hk; injection hk with hk; subst hk; exact hgood
      · rw [alookup_aset_other _ _ _ _ hkk, c.proposals] at hk; exact hi.wf.good k d' hk
    · intro k st hk
      change alookup k s1.states = some st at hk
      rw [c.states] at hk
      obtain ⟨d', hd', hlu⟩ := hi.wf.st k st hk
      have hkk : k ≠ s1.nextId := by
        intro e; subst e; rw [hsnone] at hk; simp at hk
      refine ⟨d', ?_, ?_⟩
      · show alookup k (aset s1.nextId d s1.proposals) = some d'
        rw [alookup_aset_other _ _ _ _ hkk, c.proposals]; exact hd'
      · show LuB d' st.lastUpdated s1.epoch; rw [c.epoch]; exact hlu
    · intro p
      show bal s1.locked p = dsum (oblH p) s1.states (aset s1.nextId d s1.proposals)
      rw [c.states, c.proposals, dsum_new d hnone, hsnone, hlock, hi.acct.locked]
      simp only [oblH, ind, remFee_none, Proposal.clientReq]
      omega
    · show s1.totalClientColl = dsum (fun d _ => d.clientColl) s1.states (aset s1.nextId d s1.proposals)
      rw [c.states, c.proposals, dsum_new d hnone, t1, hi.acct.cc]
    · show s1.totalProviderColl = dsum (fun d _ => d.providerColl) s1.states (aset s1.nextId d s1.proposals)
      rw [c.states, c.proposals, dsum_new d hnone, t3, hi.acct.pc]
    · show s1.totalClientFee = dsum remFee s1.states (aset s1.nextId d s1.proposals)
      rw [c.states, c.proposals, dsum_new d hnone, t2, hi.acct.fee, hsnone, remFee_none]
    · intro p
      show bal s1.locked p ≤ bal s1.escrow p
      rw [hesc]
      rcases hle p with h | ⟨a, b⟩
      · exact h
      · rw [hlock]; simp [a, b]; exact hi.acct.le p
    · intro k d' hk
      change alookup k (aset s1.nextId d s1.proposals) = some d' at hk
      show bal s1.paid k = d'.price * (luTo d' (alookup k s1.states) - d'.startE)
      rw [c.paid, c.states]
      by_cases hkk : k = s1.nextId
      · subst hkk
        rw [alookup_aset_same] at hk; injection hk with hk; subst hk
        rw [hsnone, hi.ledg.dead _ hnone]; simp [luTo]
      · rw [alookup_aset_other _ _ _ _ hkk, c.proposals] at hk
        exact hi.ledg.live k d' hk
    · intro k hk
      change alookup k (aset s1.nextId d s1.proposals) = none at hk
      show bal s1.paid k = 0
      have hkk : k ≠ s1.nextId := by
        intro e; subst e; rw [alookup_aset_same] at hk; simp at hk
      rw [alookup_aset_other _ _ _ _ hkk, c.proposals] at hk
      rw [c.paid]; exact hi.ledg.dead k hk

/-! ### activation, un-mapping of sectors -/

/-- changing deal states without touching any `last_updated_epoch` (and only for deals that exist)
    keeps the invariants -/
theorem inv_states_same_lu {s : State} (hi : Inv s) (sts : List (Nat × DealState))
    (h1 : ∀ k st', alookup k sts = some st' →
      ∃ d, alookup k s.proposals = some d ∧ LuB d st'.lastUpdated s.epoch)
    (h2 : ∀ k d, alookup k s.proposals = some d → luTo d (alookup k sts) = luTo d (alookup k s.states)) :
    Inv { s with states := sts } := by
  have hh : ∀ (h : Proposal → Option DealState → Int),
      (∀ d o o', luTo d o = luTo d o' → h d o = h d o') →
      dsum h sts s.proposals = dsum h s.states s.proposals := by
    intro h hluto
    apply dsum_same
    intro k d hm
    exact hluto d _ _ (h2 k d (mem_alookup_ND hi.wf.nd hm))
  refine ⟨⟨hi.wf.epoch0, hi.wf.nd, hi.wf.fresh, hi.wf.good, h1⟩, ⟨?_, ?_, ?_, ?_, hi.acct.le⟩, ⟨?_, hi.ledg.dead, hi.ledg.closed⟩⟩
  · intro p
    show bal s.locked p = dsum (oblH p) sts s.proposals
    rw [hh (oblH p) (by intro d o o' e; simp only [oblH, remFee, e])]; exact hi.acct.locked p
  · show s.totalClientColl = dsum _ sts s.proposals
    rw [hh _ (by intro d o o' _; rfl)]; exact hi.acct.cc
  · show s.totalProviderColl = dsum _ sts s.proposals
    rw [hh _ (by intro d o o' _; rfl)]; exact hi.acct.pc
  · show s.totalClientFee = dsum remFee sts s.proposals
    rw [hh remFee (by intro d o o' e; simp only [remFee, e])]; exact hi.acct.fee
  · intro k d hk
    show bal s.paid k = d.price * (luTo d (alookup k sts) - d.startE)
    rw [h2 k d hk]; exact hi.ledg.live k d hk

theorem canActivate_facts {s : State} {c : Nat} {e : Int} {id : Nat} (h : canActivate s c e id = true) :
    ∃ d, alookup id s.proposals = some d ∧ d.provider = c ∧ s.epoch ≤ d.startE ∧ d.endE ≤ e ∧
      alookup id s.states = none ∧ d ∈ s.pending := by
  unfold canActivate at h
  cases hp : alookup id s.proposals with
  | none => simp [hp] at h
  | some d =>
    simp only [hp] at h
    simp at h
    obtain ⟨⟨⟨⟨h1, h2⟩, h3⟩, h4⟩, h5⟩ := h
    exact ⟨d, rfl, h1, h2, h3, h4, h5⟩

theorem inv_activateOne (s : State) (caller : Nat) (exp : Int) (sector id : Nat) (hi : Inv s)
    (h : canActivate s caller exp id = true) : Inv (activateOne s sector id) := by
  obtain ⟨d, hp, _, _, _, hst, _⟩ := canActivate_facts h
  unfold activateOne
  apply inv_states_same_lu hi
  · intro k st' hk
    by_cases hkk : k = id
    · subst hkk
      rw [alookup_aset_same] at hk; injection hk with hk; subst hk
      exact ⟨d, hp, Or.inl rfl⟩
    · rw [alookup_aset_other _ _ _ _ hkk] at hk; exact hi.wf.st k st' hk
  · intro k d' hk
    by_cases hkk : k = id
    · subst hkk
      rw [alookup_aset_same, hst]
      exact luTo_fresh d' _ rfl (hi.wf.good k d' hk).start0
    · rw [alookup_aset_other _ _ _ _ hkk]

theorem alookup_map_keep {α : Type} (g : Nat × α → Nat × α) (hg : ∀ p, (g p).1 = p.1)
    (l : List (Nat × α)) (k : Nat) :
    alookup k (l.map g) = (alookup k l).map (fun v => (g (k, v)).2) := by
  induction l with
  | nil => rfl
  | cons hd t ih =>
    obtain ⟨k', v'⟩ := hd
    have h1 : g (k', v') = (k', (g (k', v')).2) := by
      have := hg (k', v'); exact Prod.ext this rfl
    simp only [List.map_cons]
    rw [h1]
    by_cases hk : k' = k
    · subst hk; simp [alookup]
    · simp [alookup, hk, ih]

theorem inv_unmap (s : State) (caller : Nat) (sectors : List Nat) (hi : Inv s) :
    Inv (unmapSectors s caller sectors) := by
  unfold unmapSectors
  have hlk : ∀ k, alookup k (s.states.map (fun p =>
      if p.2.mapped && sectors.contains p.2.sector && (providerOf s p.1 == some caller)
      then (p.1, { p.2 with mapped := false }) else p)) =
      (alookup k s.states).map (fun v => ((fun (p : Nat × DealState) =>
        if p.2.mapped && sectors.contains p.2.sector && (providerOf s p.1 == some caller)
        then (p.1, { p.2 with mapped := false }) else p) (k, v)).2) := by
    intro k
    apply alookup_map_keep
    intro p; split <;> rfl
  apply inv_states_same_lu hi
  · intro k st' hk
    rw [hlk] at hk
    cases ho : alookup k s.states with
    | none => simp [ho] at hk
    | some st =>
      simp only [ho, Option.map] at hk
      injection hk with hk
      obtain ⟨d, hd, hl⟩ := hi.wf.st k st ho
      refine ⟨d, hd, ?_⟩
      rw [← hk]
      split <;> exact hl
  · intro k d _
    rw [hlk]
    cases ho : alookup k s.states with
    | none => rfl
    | some st =>
      simp only [Option.map, luTo]
      split <;> rfl

/-! ### time-out, completion, continuing payment, termination -/

theorem inv_timeout {s s' : State} (hi : Inv s) {id : Nat} {d : Proposal}
    (hp : alookup id s.proposals = some d) (hst : alookup id s.states = none)
    (hstart : d.startE ≤ s.epoch) (h : timeoutDeal s id d = .ok s') : Inv s' := by
  obtain ⟨_, n1, n2, n3, r, _, hpaid, m⟩ := timeoutDeal_ok h
  apply inv_remove hi hp r.epoch r.nextId r.proposals r.states hpaid m (c := timedOutRecord s id d)
  · intro p; rw [hst]; simp only [oblH, remFee_none, ind]; split <;> split <;> omega
  · rfl
  · rfl
  · rw [hst, remFee_none]
  · intro p; simp only [ind]; split <;> split <;> omega
  · exact r.closed
  · have hl := hi.ledg.live id d hp
    rw [hst] at hl
    simp [ClosedOk, timedOutRecord, hstart]
    rw [hl]; simp [luTo]

theorem wf_lu {s : State} (hi : Inv s) {id : Nat} {d : Proposal} {st : DealState}
    (hp : alookup id s.proposals = some d) (hst : alookup id s.states = some st) :
    LuB d st.lastUpdated s.epoch := by
  obtain ⟨d', hd', hl⟩ := hi.wf.st id st hst
  rw [hp] at hd'; injection hd' with hd'; subst hd'; exact hl

theorem inv_complete {s s1 : State} (hi : Inv s) {id : Nat} {d : Proposal} {st : DealState} {pay : Int}
    (hp : alookup id s.proposals = some d) (hst : alookup id s.states = some st)
    (h : processDealUpdate s id d st = .ok (s1, pay, true)) :
    Inv (removeDeal s1 id (completedRecord s1 id d)) := by
  obtain ⟨_, r, _, h4, h5, hpaid, m, hnn⟩ := processDealUpdate_ok h
  have g := hi.wf.good id d hp
  have hlu := wf_lu hi hp hst
  have hse : d.startE ≤ s.epoch := by
    by_cases hs : d.startE > s.epoch
    · have := (h4 hs).2; simp at this
    · omega
  obtain ⟨hpayeq, hc⟩ := h5 hse
  have hend : d.endE ≤ s.epoch := hc.mp rfl
  have hP := complete_arith d g st.lastUpdated s.epoch pay hlu hend hpayeq
  have hrem : remFee d (some st) = pos pay := by rw [hP]; rfl
  have hP0 := pos_nonneg pay
  have m' : Moves s (removeDeal s1 id (completedRecord s1 id d)) _ _ _ _ _ :=
    ⟨m.escrow, m.locked, m.cc, m.fee, m.pc⟩
  apply inv_remove hi hp (by exact r.epoch) (by exact r.nextId)
    (by show aerase id s1.proposals = _; rw [r.proposals])
    (by show aerase id s1.states = _; rw [r.states]) _ m' (c := completedRecord s1 id d)
  · intro p; rw [hst]; simp only [oblH, hrem, ind, if_true]; split <;> split <;> omega
  · simp
  · simp
  · rw [hst, hrem]
  · intro p
    have := g.cc; have := g.pc
    simp only [ind, if_true]; split <;> split <;> omega
  · show s1.closed ++ _ = _; rw [r.closed]
  · have hl := hi.ledg.live id d hp
    rw [hst] at hl
    have hpd : bal s1.paid id = d.fee := by
      rw [hpaid, hl, hP]
      simp only [ind, if_true, luTo, Proposal.fee]
      rw [← Int.mul_add]; congr 1; omega
    simp [ClosedOk, completedRecord, hpd, r.epoch, hend]
  · intro j
    show bal (aerase id s1.paid) j = _
    by_cases hj : j = id
    · subst hj; simp [bal_aerase_same]
    · rw [bal_aerase_other _ _ _ hj, hpaid]; simp [hj, ind]

/-- the continuing branch: payment made, `last_updated_epoch := now` stored -/
theorem inv_paystep {s s1 s' : State} (hi : Inv s) {id : Nat} {d : Proposal} {st : DealState} {pay : Int}
    (hp : alookup id s.proposals = some d) (hst : alookup id s.states = some st)
    (h : processDealUpdate s id d st = .ok (s1, pay, false))
    (he : s'.epoch = s1.epoch) (hn : s'.nextId = s1.nextId) (hpr : s'.proposals = s1.proposals)
    (hsts : s'.states = aset id { st with lastUpdated := s.epoch } s1.states)
    (hpd : s'.paid = s1.paid) (hesc : s'.escrow = s1.escrow) (hlk : s'.locked = s1.locked)
    (hcc : s'.totalClientColl = s1.totalClientColl) (hfee : s'.totalClientFee = s1.totalClientFee)
    (hpc : s'.totalProviderColl = s1.totalProviderColl) (hcl : s'.closed = s1.closed) : Inv s' := by
  obtain ⟨_, r, _, h4, h5, hpaid, m, _⟩ := processDealUpdate_ok h
  have g := hi.wf.good id d hp
  have hlu := wf_lu hi hp hst
  have hlt : s.epoch < d.endE := by
    by_cases hs : d.startE > s.epoch
    · have := g.dur; omega
    · have := (h5 (by omega)).2
      by_cases hend : d.endE ≤ s.epoch
      · have := this.mpr hend; simp at this
      · omega
  have hpayeq : pay = if d.startE > s.epoch then 0
      else d.price * (min d.endE s.epoch - payStartOf d st.lastUpdated) := by
    by_cases hs : d.startE > s.epoch
    · simp only [hs, if_true]; exact (h4 hs).1
    · simp only [hs, if_false]; exact (h5 (by omega)).1
  have hP := pay_arith d g st.lastUpdated s.epoch pay hlu hlt hpayeq
  apply inv_pay hi hp hst hlt (by rw [he, r.epoch]) (by rw [hn, r.nextId]) (by rw [hpr, r.proposals])
    (by rw [hsts, r.states]) hP (pos_nonneg pay) (by intro j; rw [hpd, hpaid])
  · exact ⟨by intro j; rw [hesc, m.escrow], by intro j; rw [hlk, m.locked]; simp,
      by rw [hcc, m.cc]; simp, by rw [hfee, m.fee], by rw [hpc, m.pc]; simp⟩
  · rw [hcl, r.closed]

theorem inv_settleOne (s : State) (id : Nat) (hi : Inv s) : Inv (settleOne s id).1 := by
  unfold settleOne
  cases hp : alookup id s.proposals with
  | none => exact hi
  | some d =>
    simp only
    cases hst : alookup id s.states with
    | none =>
      simp only
      by_cases he : s.epoch < d.startE
      · simp only [he, if_true]; exact hi
      · simp only [he, if_false]
        cases ht : timeoutDeal s id d with
        | error e => exact hi
        | ok s' => exact inv_timeout hi hp hst (by omega) ht
    | some st =>
      simp only
      cases hu : processDealUpdate s id d st with
      | error e => exact hi
      | ok r =>
        obtain ⟨s1, pay, completed⟩ := r
        cases completed with
        | true => exact inv_complete hi hp hst hu
        | false =>
          exact inv_paystep hi hp hst hu rfl rfl rfl rfl rfl rfl rfl rfl rfl rfl rfl

theorem inv_terminateOne (s : State) (c : Nat) (id : Nat) (s' : State) (a : Int) (hi : Inv s)
    (h : terminateOne s c s.epoch id = .ok (s', a)) : Inv s' := by
  rcases terminateOne_ok h with ⟨_, he, _⟩ | ⟨_, _, _, _, he, _⟩ |
    ⟨d, st, hp, _, hse, hst, _, n1, n2, n3, r, _, hpaid, m⟩
  · rw [he]; exact hi
  · rw [he]; exact hi
  · have g := hi.wf.good id d hp
    have hlu := wf_lu hi hp hst
    have hT := term_arith d g st.lastUpdated s.epoch hlu hse
    have hrem : remFee d (some st) = pos (termPayment d st.lastUpdated s.epoch) + termRemaining d s.epoch := by
      rw [hT]; rfl
    have hP0 := pos_nonneg (termPayment d st.lastUpdated s.epoch)
    apply inv_remove hi hp r.epoch r.nextId r.proposals r.states hpaid m
      (c := terminatedRecord s id d st s.epoch)
    · intro p; rw [hst]; simp only [oblH, hrem, ind]; split <;> split <;> omega
    · rfl
    · rfl
    · rw [hst, hrem]
    · intro p; simp only [ind]; split <;> split <;> omega
    · exact r.closed
    · have hl := hi.ledg.live id d hp
      rw [hst] at hl
      have hnn : 0 ≤ termPayment d st.lastUpdated s.epoch := by
        unfold termPayment; apply Int.mul_nonneg g.price; omega
      have h0 := g.start0
      have hpd : bal s.paid id + pos (termPayment d st.lastUpdated s.epoch)
          = d.price * (max d.startE (min d.endE s.epoch) - d.startE) := by
        rw [hl, pos_of_nonneg hnn]
        simp only [luTo, termPayment]
        rw [← Int.mul_add]; congr 1
        rcases hlu with hh | ⟨a1, a2, a3⟩
        · rw [hh]; omega
        · omega
      have hsum : bal s.paid id + pos (termPayment d st.lastUpdated s.epoch) + termRemaining d s.epoch
          = d.fee := by
        have : bal s.paid id + (pos (termPayment d st.lastUpdated s.epoch) + termRemaining d s.epoch)
            = d.fee := by
          rw [hT, hl]
          simp only [luTo, Proposal.fee]
          rw [← Int.mul_add]; congr 1; omega
        omega
      simp only [ClosedOk, terminatedRecord]
      exact ⟨hpd, rfl, hsum, trivial, trivial, trivial, hse⟩

theorem inv_cronOne (s : State) (id : Nat) (s' : State) (a : Int) (hi : Inv s)
    (h : cronOne s id = .ok (s', a)) : Inv s' := by
  unfold cronOne at h
  cases hp : alookup id s.proposals with
  | none => simp [hp] at h; rw [← h.1]; exact hi
  | some d =>
    simp only [hp] at h
    cases hst : alookup id s.states with
    | none =>
      simp only [hst] at h
      by_cases he : s.epoch < d.startE
      · simp [he] at h
      · simp only [he, if_false] at h
        cases ht : timeoutDeal s id d with
        | error e => simp [ht] at h
        | ok s2 =>
          simp only [ht] at h
          injection h with h; injection h with h1 _; subst h1
          exact inv_timeout hi hp hst (by omega) ht
    | some st =>
      simp only [hst] at h
      by_cases hlu : st.lastUpdated = -1
      · simp only [hlu, if_true] at h
        by_cases hpd : d ∉ s.pending
        · simp [hpd] at h
        · simp only [hpd, if_false] at h
          injection h with h; injection h with h1 _; subst h1
          exact inv_pending s _ hi
      · simp only [hlu, if_false] at h
        cases hu : processDealUpdate s id d st with
        | error e => simp [hu] at h
        | ok r =>
          obtain ⟨s1, pay, completed⟩ := r
          simp only [hu] at h
          cases completed with
          | true =>
            simp only [if_true] at h
            injection h with h; injection h with h1 _; subst h1
            exact inv_complete hi hp hst hu
          | false =>
            simp only [Bool.false_eq_true, if_false] at h
            injection h with h; injection h with h1 _; subst h1
            exact inv_paystep hi hp hst hu rfl rfl rfl rfl rfl rfl rfl rfl rfl rfl rfl

/-- the invariants are preserved by every atomic transition -/
theorem inv_preserved : Preserved Inv where
  advance := inv_advance
  addBalance := inv_addBalance
  withdraw := inv_withdraw
  publishOne := inv_publishOne
  activateOne := inv_activateOne
  settleOne := inv_settleOne
  unmap := inv_unmap
  terminateOne := inv_terminateOne
  dealOpsSub := fun s l hi _ => inv_dealOps s l hi
  cronOne := inv_cronOne
  cronDone := inv_lastCron

theorem inv_init : Inv init := by
  refine ⟨⟨by decide, trivial, ?_, ?_, ?_⟩, ⟨?_, rfl, rfl, rfl, ?_⟩, ⟨?_, ?_, ?_⟩⟩
  · intro id d h; simp [init] at h
  · intro id d h; simp [init] at h
  · intro id st h; simp [init] at h
  · intro p; rfl
  · intro p; exact Int.le_refl _
  · intro id d h; simp [init] at h
  · intro id _; rfl
  · intro id c h; simp [init] at h

/-- the invariants hold in every reachable state -/
theorem inv_reachable (ops : List Op) : Inv (run init ops) := run_preserves inv_preserved ops init inv_init

end BA.Market
