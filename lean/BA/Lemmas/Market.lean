/- Helper lemmas for the storage-market model: balance tables, the lock/unlock/transfer/slash
   primitives, and the induction skeleton "preserved by every atomic transition ⇒ preserved by
   every message ⇒ holds in every reachable state". -/
import BA.Model.Market

namespace BA.Market
open BA

/-! ### balance tables -/

theorem bal_aset_same (m : Table) (k : Nat) (v : Int) : bal (aset k v m) k = v := by
  simp [bal]

theorem bal_aset_other (m : Table) (k j : Nat) (v : Int) (h : j ≠ k) :
    bal (aset k v m) j = bal m j := by
  simp [bal, alookup_aset_other _ _ _ _ h]

theorem bal_nil (k : Nat) : bal [] k = 0 := rfl

theorem bal_aerase_same (m : Table) (k : Nat) : bal (aerase k m) k = 0 := by
  simp [bal, alookup_aerase_same]

theorem bal_aerase_other (m : Table) (k j : Nat) (h : j ≠ k) : bal (aerase k m) j = bal m j := by
  simp [bal, alookup_aerase_other _ _ _ h]

theorem badd_ok {m m' : Table} {k : Nat} {v : Int} (h : badd m k v = .ok m') :
    0 ≤ bal m k + v ∧ bal m' k = bal m k + v ∧ ∀ j, j ≠ k → bal m' j = bal m j := by
  unfold badd at h
  by_cases hc : bal m k + v < 0
  · simp [hc] at h
  · simp [hc] at h
    subst h
    exact ⟨by omega, bal_aset_same _ _ _, fun j hj => bal_aset_other _ _ _ _ hj⟩

theorem bmustSub_ok {m m' : Table} {k : Nat} {v : Int} (h : bmustSub m k v = .ok m') :
    v ≤ bal m k ∧ bal m' k = bal m k - v ∧ ∀ j, j ≠ k → bal m' j = bal m j := by
  unfold bmustSub at h
  by_cases hc : v > bal m k
  · simp [hc] at h
  · simp [hc] at h
    obtain ⟨_, h2, h3⟩ := badd_ok h
    exact ⟨by omega, by omega, h3⟩

/-- reading a table after adding `v` at `k` -/
theorem bal_after_add {m m' : Table} {k : Nat} {v : Int} (h : ∀ j, j ≠ k → bal m' j = bal m j)
    (hk : bal m' k = bal m k + v) (j : Nat) : bal m' j = bal m j + (if j = k then v else 0) := by
  by_cases hj : j = k
  · subst hj; simp [hk]
  · simp [hj, h j hj]

/-! ### everything but the two balance tables and the three totals -/

/-- the part of the state that the lock / unlock / transfer / slash primitives never touch -/
structure SameCore (s s' : State) : Prop where
  epoch : s'.epoch = s.epoch
  proposals : s'.proposals = s.proposals
  states : s'.states = s.states
  pending : s'.pending = s.pending
  nextId : s'.nextId = s.nextId
  dealOps : s'.dealOps = s.dealOps
  lastCron : s'.lastCron = s.lastCron
  paid : s'.paid = s.paid
  closed : s'.closed = s.closed
  burntTotal : s'.burntTotal = s.burntTotal

theorem SameCore.refl (s : State) : SameCore s s := ⟨rfl, rfl, rfl, rfl, rfl, rfl, rfl, rfl, rfl, rfl⟩

theorem SameCore.trans {a b c : State} (h1 : SameCore a b) (h2 : SameCore b c) : SameCore a c :=
  ⟨h2.epoch.trans h1.epoch, h2.proposals.trans h1.proposals, h2.states.trans h1.states,
   h2.pending.trans h1.pending, h2.nextId.trans h1.nextId, h2.dealOps.trans h1.dealOps,
   h2.lastCron.trans h1.lastCron, h2.paid.trans h1.paid, h2.closed.trans h1.closed,
   h2.burntTotal.trans h1.burntTotal⟩

/-- amounts taken off the three totals by an unlock with a given reason -/
def dCC (r : Reason) (amt : Int) : Int := if r = .clientColl then amt else 0
def dFee (r : Reason) (amt : Int) : Int := if r = .clientFee then amt else 0
def dPC (r : Reason) (amt : Int) : Int := if r = .providerColl then amt else 0

theorem unlockBalance_ok {s s' : State} {a : Nat} {amt : Int} {r : Reason}
    (h : unlockBalance s a amt r = .ok s') :
    SameCore s s' ∧ 0 ≤ amt ∧ amt ≤ bal s.locked a ∧ s'.escrow = s.escrow ∧
    (∀ j, bal s'.locked j = bal s.locked j - (if j = a then amt else 0)) ∧
    s'.totalClientColl = s.totalClientColl - dCC r amt ∧
    s'.totalClientFee = s.totalClientFee - dFee r amt ∧
    s'.totalProviderColl = s.totalProviderColl - dPC r amt := by
  unfold unlockBalance at h
  by_cases hneg : amt < 0
  · simp [hneg] at h
  · simp only [hneg, if_false] at h
    cases hl : bmustSub s.locked a amt with
    | error e => simp [hl] at h
    | ok l =>
      simp only [hl] at h
      obtain ⟨b1, b2, b3⟩ := bmustSub_ok hl
      have hb : ∀ j, bal l j = bal s.locked j - (if j = a then amt else 0) := by
        intro j
        by_cases hj : j = a
        · subst hj; simp [b2]
        · simp [hj, b3 j hj]
      cases r <;> simp at h <;> subst h <;>
        exact ⟨⟨rfl, rfl, rfl, rfl, rfl, rfl, rfl, rfl, rfl, rfl⟩,
          by omega, b1, rfl, hb, by simp [dCC], by simp [dFee], by simp [dPC]⟩

theorem transferBalance_ok {s s' : State} {f t : Nat} {amt : Int}
    (h : transferBalance s f t amt = .ok s') :
    SameCore s s' ∧ 0 ≤ amt ∧ amt ≤ bal s.locked f ∧ amt ≤ bal s.escrow f ∧
    (∀ j, bal s'.locked j = bal s.locked j - (if j = f then amt else 0)) ∧
    (∀ j, bal s'.escrow j = bal s.escrow j - (if j = f then amt else 0) + (if j = t then amt else 0)) ∧
    s'.totalClientColl = s.totalClientColl ∧
    s'.totalClientFee = s.totalClientFee - amt ∧
    s'.totalProviderColl = s.totalProviderColl := by
  unfold transferBalance at h
  by_cases hneg : amt < 0
  · simp [hneg] at h
  · simp only [hneg, if_false] at h
    cases he : bmustSub s.escrow f amt with
    | error e => simp [he] at h
    | ok esc =>
      simp only [he] at h
      cases hu : unlockBalance s f amt .clientFee with
      | error e => simp [hu] at h
      | ok s1 =>
        simp only [hu] at h
        cases ha : badd esc t amt with
        | error e => simp [ha] at h
        | ok esc2 =>
          simp only [ha] at h
          injection h with h
          subst h
          obtain ⟨c, u1, u2, _, u4, u5, u6, u7⟩ := unlockBalance_ok hu
          obtain ⟨e1, e2, e3⟩ := bmustSub_ok he
          obtain ⟨_, a2, a3⟩ := badd_ok ha
          refine ⟨⟨c.epoch, c.proposals, c.states, c.pending, c.nextId, c.dealOps, c.lastCron,
            c.paid, c.closed, c.burntTotal⟩, u1, u2, e1, u4, ?_, by simpa [dCC] using u5,
            by simpa [dFee] using u6, by simpa [dPC] using u7⟩
          intro j
          show bal esc2 j = _
          by_cases hjt : j = t
          · subst hjt
            rw [a2]
            by_cases hjf : j = f
            · subst hjf; simp [e2]
            · simp [hjf, e3 j hjf]
          · rw [a3 j hjt]
            by_cases hjf : j = f
            · subst hjf; simp [e2, hjt]
            · simp [hjf, hjt, e3 j hjf]

theorem slashBalance_ok {s s' : State} {a : Nat} {amt : Int} {r : Reason}
    (h : slashBalance s a amt r = .ok s') :
    SameCore s s' ∧ 0 ≤ amt ∧ amt ≤ bal s.locked a ∧ amt ≤ bal s.escrow a ∧
    (∀ j, bal s'.locked j = bal s.locked j - (if j = a then amt else 0)) ∧
    (∀ j, bal s'.escrow j = bal s.escrow j - (if j = a then amt else 0)) ∧
    s'.totalClientColl = s.totalClientColl - dCC r amt ∧
    s'.totalClientFee = s.totalClientFee - dFee r amt ∧
    s'.totalProviderColl = s.totalProviderColl - dPC r amt := by
  unfold slashBalance at h
  by_cases hneg : amt < 0
  · simp [hneg] at h
  · simp only [hneg, if_false] at h
    cases he : bmustSub s.escrow a amt with
    | error e => simp [he] at h
    | ok esc =>
      simp only [he] at h
      obtain ⟨c, u1, u2, u3, u4, u5, u6, u7⟩ := unlockBalance_ok h
      obtain ⟨e1, e2, e3⟩ := bmustSub_ok he
      refine ⟨⟨c.epoch, c.proposals, c.states, c.pending, c.nextId, c.dealOps, c.lastCron,
        c.paid, c.closed, c.burntTotal⟩, u1, u2, e1, u4, ?_, u5, u6, u7⟩
      intro j
      rw [u3]
      show bal esc j = _
      by_cases hj : j = a
      · subst hj; simp [e2]
      · simp [hj, e3 j hj]

theorem maybeLock_ok {s s' : State} {a : Nat} {amt : Int} (h : maybeLock s a amt = .ok s') :
    SameCore s s' ∧ 0 ≤ amt ∧ bal s.locked a + amt ≤ bal s.escrow a ∧ s'.escrow = s.escrow ∧
    (∀ j, bal s'.locked j = bal s.locked j + (if j = a then amt else 0)) ∧
    s'.totalClientColl = s.totalClientColl ∧ s'.totalClientFee = s.totalClientFee ∧
    s'.totalProviderColl = s.totalProviderColl := by
  unfold maybeLock at h
  by_cases hneg : amt < 0
  · simp [hneg] at h
  · simp only [hneg, if_false] at h
    by_cases hins : bal s.locked a + amt > bal s.escrow a
    · simp [hins] at h
    · simp only [hins, if_false] at h
      cases ha : badd s.locked a amt with
      | error e => simp [ha] at h
      | ok l =>
        simp only [ha] at h
        injection h with h
        subst h
        obtain ⟨_, a2, a3⟩ := badd_ok ha
        refine ⟨⟨rfl, rfl, rfl, rfl, rfl, rfl, rfl, rfl, rfl, rfl⟩, by omega, by omega, rfl, ?_,
          rfl, rfl, rfl⟩
        intro j
        show bal l j = _
        by_cases hj : j = a
        · subst hj; simp [a2]
        · simp [hj, a3 j hj]

theorem lockBoth_ok {s s' : State} {d : Proposal} (h : lockBoth s d = .ok s') :
    SameCore s s' ∧ 0 ≤ d.clientReq ∧ 0 ≤ d.providerColl ∧ s'.escrow = s.escrow ∧
    (∀ j, bal s'.locked j = bal s.locked j + (if j = d.client then d.clientReq else 0)
        + (if j = d.provider then d.providerColl else 0)) ∧
    (∀ j, bal s'.locked j ≤ bal s.escrow j ∨ (j ≠ d.client ∧ j ≠ d.provider)) ∧
    s'.totalClientColl = s.totalClientColl + d.clientColl ∧
    s'.totalClientFee = s.totalClientFee + d.fee ∧
    s'.totalProviderColl = s.totalProviderColl + d.providerColl := by
  unfold lockBoth at h
  cases h1 : maybeLock s d.client d.clientReq with
  | error e => simp [h1] at h
  | ok s1 =>
    simp only [h1] at h
    cases h2 : maybeLock s1 d.provider d.providerColl with
    | error e => simp [h2] at h
    | ok s2 =>
      simp only [h2] at h
      injection h with h
      subst h
      obtain ⟨c1, p1, q1, e1, l1, t1, t2, t3⟩ := maybeLock_ok h1
      obtain ⟨c2, p2, q2, e2, l2, u1, u2, u3⟩ := maybeLock_ok h2
      have c := SameCore.trans c1 c2
      have hl : ∀ j, bal s2.locked j = bal s.locked j + (if j = d.client then d.clientReq else 0)
          + (if j = d.provider then d.providerColl else 0) := by
        intro j; rw [l2, l1]
      refine ⟨⟨c.epoch, c.proposals, c.states, c.pending, c.nextId, c.dealOps, c.lastCron,
        c.paid, c.closed, c.burntTotal⟩, p1, p2, by simp [e2, e1], hl, ?_,
        by simp [u1, t1], by simp [u2, t2], by simp [u3, t3]⟩
      intro j
      show bal s2.locked j ≤ _ ∨ _
      by_cases hp : j = d.provider
      · left
        have := l2 j
        simp [hp] at this
        rw [hp, this]
        rw [e1] at q2
        exact q2
      · by_cases hc : j = d.client
        · left
          have := l2 j
          simp [hp] at this
          rw [this, hc]
          have := l1 d.client
          simp at this
          omega
        · right; exact ⟨hc, hp⟩

/-! ### Induction skeleton -/

/-- what `publish_storage_deals` has checked about a deal before its transaction starts -/
structure ValidDeal (epoch : Int) (d : Proposal) : Prop where
  dur : d.startE < d.endE
  start : epoch ≤ d.startE
  price : 0 ≤ d.price
  pc : 0 ≤ d.providerColl
  cc : 0 ≤ d.clientColl

/-- `P` is preserved by every atomic transition the messages are composed of -/
structure Preserved (P : State → Prop) : Prop where
  advance : ∀ s e, P s → s.epoch ≤ e → P { s with epoch := e }
  addBalance : ∀ s a v r s', P s → addBalance s a v r = .ok s' → P s'
  withdraw : ∀ s c n a env so s' w, P s → withdraw s c n a env so = .ok (s', w) → P s'
  publishOne : ∀ s d s' id, P s → ValidDeal s.epoch d → publishOne s d = .ok (s', id) → P s'
  activateOne : ∀ s caller exp sector id, P s → canActivate s caller exp id = true →
    P (activateOne s sector id)
  settleOne : ∀ s id, P s → P (settleOne s id).1
  unmap : ∀ s caller sectors, P s → P (unmapSectors s caller sectors)
  terminateOne : ∀ s c id s' a, P s → terminateOne s c s.epoch id = .ok (s', a) → P s'
  dealOpsSub : ∀ s l, P s → (∀ x, x ∈ l → x ∈ s.dealOps) → P { s with dealOps := l }
  cronOne : ∀ s id s' a, P s → cronOne s id = .ok (s', a) → P s'
  cronDone : ∀ s e, P s → P { s with lastCron := e }

theorem dealValid_ValidDeal {epoch : Int} {di : DealIn} (h : dealValid epoch di = true) (p : Nat) :
    ValidDeal epoch (normalise p di.d) := by
  simp [dealValid] at h
  obtain ⟨⟨⟨⟨⟨⟨_, _⟩, h3⟩, h4⟩, h5⟩, h6⟩, h7⟩ := h
  exact ⟨h3, h4, h5, h6, h7⟩

theorem selectOne_valid {s : State} {p : Nat} {acc : Sel} {di : DealIn} {r : Int × Int}
    (h : selectOne s p acc di = some r) : dealValid s.epoch di = true := by
  unfold selectOne at h
  by_cases hv : dealValid s.epoch di = true
  · exact hv
  · simp [hv] at h

theorem selectDeals_valid (s : State) (p : Nat) (deals : List DealIn) :
    ∀ (i : Nat) (acc : Sel), (∀ x ∈ acc.accepted, ValidDeal s.epoch x.2) →
      ∀ x ∈ (selectDeals s p deals i acc).accepted, ValidDeal s.epoch x.2 := by
  induction deals with
  | nil => intro i acc h; simpa [selectDeals] using h
  | cons di rest ih =>
    intro i acc h
    unfold selectDeals
    cases hs : selectOne s p acc di with
    | none => exact ih _ _ h
    | some r =>
      obtain ⟨cl, pl⟩ := r
      apply ih
      intro x hx
      simp at hx
      cases hx with
      | inl hx => exact h x hx
      | inr hx => subst hx; exact dealValid_ValidDeal (selectOne_valid hs) p

theorem publishOne_epoch {s s' : State} {d : Proposal} {id : Nat}
    (h : publishOne s d = .ok (s', id)) : s'.epoch = s.epoch := by
  unfold publishOne at h
  cases hl : lockBoth s d with
  | error e => simp [hl] at h
  | ok s1 =>
    simp only [hl] at h
    injection h with h
    injection h with h1 h2
    subst h1
    exact (lockBoth_ok hl).1.epoch

theorem publishAll_preserves {P : State → Prop} (hp : Preserved P) (ds : List Proposal) :
    ∀ (s s' : State) (ids : List Nat), P s → (∀ d ∈ ds, ValidDeal s.epoch d) →
      publishAll s ds = .ok (s', ids) → P s' := by
  induction ds with
  | nil => intro s s' ids h _ he; simp [publishAll] at he; rw [← he.1]; exact h
  | cons d rest ih =>
    intro s s' ids h hv he
    unfold publishAll at he
    cases h1 : publishOne s d with
    | error e => simp [h1] at he
    | ok r =>
      obtain ⟨s1, id⟩ := r
      simp only [h1] at he
      cases h2 : publishAll s1 rest with
      | error e => simp [h2] at he
      | ok r2 =>
        obtain ⟨s2, ids2⟩ := r2
        simp only [h2] at he
        injection he with he
        injection he with he1 he2
        subst he1
        have hP1 := hp.publishOne s d s1 id h (hv d (by simp)) h1
        apply ih s1 s2 ids2 hP1 _ h2
        intro d' hd'
        rw [publishOne_epoch h1]
        exact hv d' (by simp [hd'])

theorem canActivate_activateOne_other {s : State} {c : Nat} {e : Int} {id id' sec : Nat}
    (h : canActivate s c e id = true) (hne : id ≠ id') :
    canActivate (activateOne s sec id') c e id = true := by
  unfold canActivate at h ⊢
  simp only [activateOne]
  cases hp : alookup id s.proposals with
  | none => simp [hp] at h
  | some d =>
    simp only [hp] at h ⊢
    rw [alookup_aset_other _ _ _ _ hne]
    exact h

theorem hasDup_cons_false {x : Nat} {t : List Nat} (h : hasDup (x :: t) = false) :
    x ∉ t ∧ hasDup t = false := by
  simp [hasDup] at h
  exact ⟨by simpa using h.1, h.2⟩

theorem activateFold_preserves {P : State → Prop} (hp : Preserved P) (c : Nat) (e : Int) (sec : Nat)
    (ids : List Nat) : ∀ s, P s → hasDup ids = false → (∀ id ∈ ids, canActivate s c e id = true) →
      P (ids.foldl (fun acc id => activateOne acc sec id) s) := by
  induction ids with
  | nil => intro s h _ _; exact h
  | cons id rest ih =>
    intro s h hd hall
    obtain ⟨hn, hd'⟩ := hasDup_cons_false hd
    simp only [List.foldl_cons]
    apply ih _ (hp.activateOne s c e sec id h (hall id (by simp))) hd'
    intro id2 h2
    apply canActivate_activateOne_other (hall id2 (by simp [h2]))
    intro heq; subst heq; exact hn h2

theorem activateSectors_preserves {P : State → Prop} (hp : Preserved P) (c : Nat)
    (secs : List SectorDeals) : ∀ s, P s → P (activateSectors c s secs).1 := by
  induction secs with
  | nil => intro s h; exact h
  | cons sd rest ih =>
    intro s h
    simp only [activateSectors]
    apply ih
    unfold activateSector
    by_cases hd : hasDup sd.ids = true
    · simp [hd]; exact h
    · have hd' : hasDup sd.ids = false := by simpa using hd
      simp only [hd', Bool.false_eq_true, if_false]
      by_cases ha : sd.ids.all (canActivate s c sd.expiry) = true
      · simp only [ha, if_true]
        apply activateFold_preserves hp c sd.expiry sd.sector sd.ids s h hd'
        intro id hid
        exact (List.all_eq_true.mp ha) id hid
      · simp [ha]; exact h

theorem sccPieces_preserves {P : State → Prop} (hp : Preserved P) (c sec : Nat) (mc : Int)
    (ps : List Piece) : ∀ s, P s → P (sccPieces c sec mc s ps).1 := by
  induction ps with
  | nil => intro s h; exact h
  | cons p rest ih =>
    intro s h
    unfold sccPieces
    by_cases hc : (p.pieceOk && canActivate s c mc p.id) = true
    · simp only [hc, if_true]
      have : canActivate s c mc p.id = true := by
        simp at hc; exact hc.2
      exact ih _ (hp.activateOne s c mc sec p.id h this)
    · simp only [hc, Bool.false_eq_true, if_false]
      exact ih _ h

theorem sccSectors_preserves {P : State → Prop} (hp : Preserved P) (c : Nat)
    (secs : List SectorChanges) : ∀ s, P s → P (sccSectors c s secs).1 := by
  induction secs with
  | nil => intro s h; exact h
  | cons sc rest ih =>
    intro s h
    simp only [sccSectors]
    exact ih _ (sccPieces_preserves hp c sc.sector sc.minCommit sc.pieces s h)

theorem settleAll_preserves {P : State → Prop} (hp : Preserved P) (ids : List Nat) :
    ∀ s, P s → P (settleAll s ids).1 := by
  induction ids with
  | nil => intro s h; exact h
  | cons id rest ih =>
    intro s h
    simp only [settleAll]
    exact ih _ (hp.settleOne s id h)

theorem removeDeal_epoch (s : State) (id : Nat) (c : Closed) : (removeDeal s id c).epoch = s.epoch := rfl

theorem transferPaid_epoch {s0 s1 : State} {cond : Prop} [Decidable cond] {a b id : Nat} {p : Int}
    (h : (if cond then (match transferBalance s0 a b p with
             | .error e => (Except.error e : Except Err State)
             | .ok t => .ok (addPaid t id p)) else .ok s0) = .ok s1) : s1.epoch = s0.epoch := by
  by_cases hc : cond
  · simp only [hc, if_true] at h
    cases ht : transferBalance s0 a b p with
    | error e => simp [ht] at h
    | ok t =>
      simp only [ht] at h
      injection h with h; subst h
      exact (transferBalance_ok ht).1.epoch
  · simp only [hc, if_false] at h
    injection h with h; subst h; rfl

theorem terminateOne_epoch {s s' : State} {c : Nat} {se : Int} {id : Nat} {a : Int}
    (h : terminateOne s c se id = .ok (s', a)) : s'.epoch = s.epoch := by
  unfold terminateOne at h
  cases hp : alookup id s.proposals with
  | none => simp [hp] at h; rw [← h.1]
  | some d =>
    simp only [hp] at h
    by_cases h1 : d.provider ≠ c
    · simp [h1] at h
    · simp only [h1, if_false] at h
      by_cases h2 : d.endE ≤ se
      · simp [h2] at h; rw [← h.1]
      · simp only [h2, if_false] at h
        cases hst : alookup id s.states with
        | none => simp [hst] at h
        | some st =>
          simp only [hst] at h
          split at h
          · simp at h
          · rename_i s1 hs1
            have e1 := transferPaid_epoch hs1
            cases hr : paymentRemaining d se with
            | error e => simp [hr] at h
            | ok rem =>
              simp only [hr] at h
              cases hu1 : unlockBalance s1 d.client rem .clientFee with
              | error e => simp [hu1] at h
              | ok s2 =>
                simp only [hu1] at h
                cases hu2 : unlockBalance s2 d.client d.clientColl .clientColl with
                | error e => simp [hu2] at h
                | ok s3 =>
                  simp only [hu2] at h
                  cases hu3 : slashBalance s3 d.provider d.providerColl .providerColl with
                  | error e => simp [hu3] at h
                  | ok s4 =>
                    simp only [hu3] at h
                    injection h with h
                    injection h with h _
                    subst h
                    rw [removeDeal_epoch, (slashBalance_ok hu3).1.epoch,
                      (unlockBalance_ok hu2).1.epoch, (unlockBalance_ok hu1).1.epoch, e1]
                    split <;> rfl

theorem terminateAll_preserves {P : State → Prop} (hp : Preserved P) (c : Nat) (ids : List Nat) :
    ∀ (s s' : State) (a : Int), P s → terminateAll c s.epoch s ids = .ok (s', a) → P s' := by
  induction ids with
  | nil => intro s s' a h he; simp [terminateAll] at he; rw [← he.1]; exact h
  | cons id rest ih =>
    intro s s' a h he
    unfold terminateAll at he
    cases h1 : terminateOne s c s.epoch id with
    | error e => simp [h1] at he
    | ok r =>
      obtain ⟨s1, a1⟩ := r
      simp only [h1] at he
      cases h2 : terminateAll c s.epoch s1 rest with
      | error e => simp [h2] at he
      | ok r2 =>
        obtain ⟨s2, a2⟩ := r2
        simp only [h2] at he
        injection he with he
        injection he with he1 _
        subst he1
        have e1 := terminateOne_epoch h1
        rw [← e1] at h2
        exact ih s1 s2 a2 (hp.terminateOne s c id s1 a1 h h1) h2

theorem cronAll_preserves {P : State → Prop} (hp : Preserved P) (ids : List Nat) :
    ∀ (s s' : State) (a : Int), P s → cronAll s ids = .ok (s', a) → P s' := by
  induction ids with
  | nil => intro s s' a h he; simp [cronAll] at he; rw [← he.1]; exact h
  | cons id rest ih =>
    intro s s' a h he
    unfold cronAll at he
    cases h1 : cronOne s id with
    | error e => simp [h1] at he
    | ok r =>
      obtain ⟨s1, a1⟩ := r
      simp only [h1] at he
      cases h2 : cronAll s1 rest with
      | error e => simp [h2] at he
      | ok r2 =>
        obtain ⟨s2, a2⟩ := r2
        simp only [h2] at he
        injection he with he
        injection he with he1 _
        subst he1
        exact ih s1 s2 a2 (hp.cronOne s id s1 a1 h h1) h2

/-- every message preserves what every atomic transition preserves -/
theorem step_preserves {P : State → Prop} (hp : Preserved P) (s : State) (op : Op) (h : P s) :
    P (step s op).1 := by
  cases op with
  | advance e =>
    simp only [step]
    by_cases he : e < s.epoch
    · simp [he]; exact h
    · simp only [he, if_false]; exact hp.advance s e h (by omega)
  | addBalance a v r =>
    simp only [step]
    cases hr : addBalance s a v r with
    | error e => exact h
    | ok s' => exact hp.addBalance s a v r s' h hr
  | withdraw c n a env so =>
    simp only [step]
    cases hr : withdraw s c n a env so with
    | error e => exact h
    | ok r => obtain ⟨s', w⟩ := r; exact hp.withdraw s c n a env so s' w h hr
  | publish env deals =>
    simp only [step]
    cases hr : publish s env deals with
    | error e => exact h
    | ok r =>
      obtain ⟨s', ret⟩ := r
      simp only
      unfold publish at hr
      cases deals with
      | nil => simp at hr
      | cons first rest =>
        simp only at hr
        simp only [guard_ok] at hr
        obtain ⟨_, _, _, _, _, hr⟩ := hr
        cases hpa : publishAll s ((selectDeals s env.provider (first :: rest) 0 {}).accepted.map (·.2)) with
        | error e => simp [hpa] at hr
        | ok r2 =>
          obtain ⟨s2, ids⟩ := r2
          simp only [hpa] at hr
          simp only [guard_ok] at hr
          obtain ⟨_, hr⟩ := hr
          injection hr with hr
          injection hr with hr1 _
          subst hr1
          apply publishAll_preserves hp _ s s2 ids h _ hpa
          intro d hd
          simp at hd
          obtain ⟨i, hi⟩ := hd
          exact selectDeals_valid s env.provider (first :: rest) 0 {} (by simp) (i, d) hi
  | activate c m secs =>
    simp only [step]
    cases hr : batchActivate s c m secs with
    | error e => exact h
    | ok r =>
      obtain ⟨s', ret⟩ := r
      simp only
      unfold batchActivate at hr
      simp only [guard_ok] at hr
      obtain ⟨_, hr⟩ := hr
      injection hr with hr
      have : s' = (activateSectors c s secs).1 := by rw [hr]
      rw [this]
      exact activateSectors_preserves hp c secs s h
  | scc c m secs =>
    simp only [step]
    cases hr : sectorContentChanged s c m secs with
    | error e => exact h
    | ok r =>
      obtain ⟨s', ret⟩ := r
      simp only
      unfold sectorContentChanged at hr
      simp only [guard_ok] at hr
      obtain ⟨_, hr⟩ := hr
      injection hr with hr
      have : s' = (sccSectors c s secs).1 := by rw [hr]
      rw [this]
      exact sccSectors_preserves hp c secs s h
  | settle ids b =>
    simp only [step]
    cases hr : settle s ids b with
    | error e => exact h
    | ok r =>
      obtain ⟨s', ret⟩ := r
      simp only
      unfold settle at hr
      simp only [guard_ok] at hr
      obtain ⟨_, hr⟩ := hr
      injection hr with hr
      injection hr with hr1 _
      rw [← hr1]
      exact settleAll_preserves hp ids s h
  | terminate c m secs b =>
    simp only [step]
    cases hr : terminate s c m s.epoch secs b with
    | error e => exact h
    | ok s' =>
      simp only
      unfold terminate at hr
      simp only [guard_ok] at hr
      obtain ⟨_, hr⟩ := hr
      cases hta : terminateAll c s.epoch (unmapSectors s c secs) (sectorDealIds s c secs) with
      | error e => simp [hta] at hr
      | ok r2 =>
        obtain ⟨s2, burn⟩ := r2
        simp only [hta] at hr
        simp only [guard_ok] at hr
        obtain ⟨_, hr⟩ := hr
        injection hr with hr
        subst hr
        have hu := hp.unmap s c secs h
        have he : (unmapSectors s c secs).epoch = s.epoch := rfl
        rw [← he] at hta
        exact terminateAll_preserves hp c _ _ s2 burn hu hta
  | cron c b =>
    simp only [step]
    cases hr : cronTick s c b with
    | error e => exact h
    | ok s' =>
      simp only
      unfold cronTick at hr
      simp only [guard_ok] at hr
      obtain ⟨_, hr⟩ := hr
      split at hr
      · simp at hr
      · rename_i s1 slashed hca
        simp only [guard_ok] at hr
        obtain ⟨_, hr⟩ := hr
        injection hr with hr
        subst hr
        apply hp.cronDone
        apply cronAll_preserves hp _ _ s1 slashed _ hca
        apply hp.dealOpsSub s _ h
        intro x hx
        exact (List.mem_filter.mp hx).1

/-- what every atomic transition preserves holds along every history -/
theorem run_preserves {P : State → Prop} (hp : Preserved P) (ops : List Op) :
    ∀ s, P s → P (run s ops) := by
  induction ops with
  | nil => intro s h; exact h
  | cons op rest ih => intro s h; exact ih _ (step_preserves hp s op h)

end BA.Market
