/-
  Helper lemmas for the miner penalty model: what each funds operation of state.rs returns.
-/
import BA.Model.MinerPenalty

namespace BA.MinerPenalty
open BA

/-- close a conjunction of linear facts / trivialities -/
macro "arith" : tactic => `(tactic| (and_intros <;> (try intros) <;> first | trivial | omega))

/-- `omega` after reducing projections of structure literals -/
macro "somega" : tactic => `(tactic| first | omega | (simp only; omega))

/-- a send that moves value to nobody but the burnt-funds actor, and is not addressed to the
    reporter or the beneficiary -/
def Safe (x : Effect) : Prop :=
  (x.dest = .burnt ∨ x.value = 0) ∧ x.dest ≠ .beneficiary ∧ x.dest ≠ .reporter

/-- a send allowed inside a penalising step: never to the beneficiary (owner side); value only to
    the burnt-funds actor or to the reporter -/
def PenEff (x : Effect) : Prop :=
  x.dest ≠ .beneficiary ∧ (x.dest = .burnt ∨ x.dest = .reporter ∨ x.value = 0)

theorem Safe.pen {x : Effect} (h : Safe x) : PenEff x :=
  ⟨h.2.1, h.1.elim Or.inl (fun v => Or.inr (Or.inr v))⟩

theorem safe_all_pen {l : List Effect} (h : ∀ x ∈ l, Safe x) : ∀ x ∈ l, PenEff x :=
  fun x hx => (h x hx).pen

theorem applyPenalty_spec (f f1 : Funds) (p : Int) (h : applyPenalty f p = .ok f1) :
    0 ≤ p ∧ f1 = { f with feeDebt := f.feeDebt + p } := by
  unfold applyPenalty at h
  by_cases hp : p < 0
  · simp [hp] at h
  · simp only [hp, if_false, Except.ok.injEq] at h
    exact ⟨by omega, h.symm⟩

theorem unlock_spec (f f1 : Funds) (v t uv tot : Int)
    (h : unlockVestedAndUnvested f v t = .ok (f1, uv, tot)) :
    f1 = { f with lockedFunds := f.lockedFunds - tot } ∧
    (((t = 0 ∨ f.lockedFunds = 0) ∧ uv = 0 ∧ tot = 0) ∨
     (¬ (t = 0 ∨ f.lockedFunds = 0) ∧ uv = min t (f.lockedFunds - v) ∧ tot = v + uv ∧
        0 ≤ f.lockedFunds - tot)) := by
  unfold unlockVestedAndUnvested at h
  by_cases h0 : t = 0 ∨ f.lockedFunds = 0
  · simp only [h0, if_true, Except.ok.injEq, Prod.mk.injEq] at h
    obtain ⟨rfl, rfl, rfl⟩ := h
    simp [h0]
  · simp only [h0, if_false] at h
    by_cases h1 : f.lockedFunds - (v + min t (f.lockedFunds - v)) < 0
    · simp [h1] at h
    · simp only [h1, if_false, Except.ok.injEq, Prod.mk.injEq] at h
      obtain ⟨rfl, rfl, rfl⟩ := h
      refine ⟨rfl, Or.inr ⟨h0, rfl, rfl, ?_⟩⟩
      omega

/-- `repay_partial_debt_in_priority_order`: the debt shrinks by exactly the amount to burn, which
    is non-negative, at most the debt and at most the unlocked balance after unlocking. -/
theorem repayPartial_spec (f f' : Funds) (v toBurn total : Int) (hd : 0 ≤ f.feeDebt)
    (h : repayPartial f v = .ok (f', toBurn, total)) :
    f'.feeDebt = f.feeDebt - toBurn ∧ 0 ≤ toBurn ∧ toBurn ≤ f.feeDebt ∧
    f'.balance = f.balance ∧ f'.pcd = f.pcd ∧ f'.initialPledge = f.initialPledge ∧
    f'.lockedFunds = f.lockedFunds - total ∧
    toBurn ≤ f'.balance - f'.lockedFunds - f'.pcd - f'.initialPledge ∧
    toBurn = min (f'.balance - f'.lockedFunds - f'.pcd - f'.initialPledge) f.feeDebt ∧
    (0 ≤ f.lockedFunds → 0 ≤ f'.lockedFunds) ∧
    (0 ≤ v → v ≤ f.lockedFunds → 0 ≤ total) ∧
    (0 ≤ v → v ≤ f.lockedFunds → vestedLeft f v ≤ f'.lockedFunds) := by
  unfold repayPartial at h
  cases hu : unlockVestedAndUnvested f v f.feeDebt with
  | error e => simp [hu] at h
  | ok p =>
    obtain ⟨f1, uv, tot⟩ := p
    simp only [hu] at h
    obtain ⟨e1, e2⟩ := unlock_spec _ _ _ _ _ _ hu
    subst e1
    unfold getUnlockedBalance at h
    simp only at h
    by_cases g1 : uv > f.feeDebt
    · simp [g1] at h
    · simp only [g1, if_false] at h
      by_cases g2 : f.balance - (f.lockedFunds - tot) - f.pcd - f.initialPledge < 0
      · simp [g2] at h
      · simp only [g2, if_false, Except.ok.injEq, Prod.mk.injEq] at h
        obtain ⟨rfl, rfl, rfl⟩ := h
        unfold vestedLeft
        simp only
        rcases e2 with ⟨c, _, _⟩ | ⟨c, _, _, _⟩
        · simp only [c, if_true]; arith
        · simp only [c, if_false]; arith

theorem repayDebts_spec (f f1 : Funds) (b : Int) (h : repayDebts f = .ok (f1, b)) :
    b = f.feeDebt ∧ f1 = { f with feeDebt := 0 } ∧
    f.feeDebt ≤ f.balance - f.lockedFunds - f.pcd - f.initialPledge ∧
    0 ≤ f.balance - f.lockedFunds - f.pcd - f.initialPledge := by
  unfold repayDebts getUnlockedBalance at h
  by_cases g : f.balance - f.lockedFunds - f.pcd - f.initialPledge < 0
  · simp [g] at h
  · simp only [g, if_false] at h
    by_cases g2 : f.balance - f.lockedFunds - f.pcd - f.initialPledge < f.feeDebt
    · simp [g2] at h
    · simp only [g2, if_false, Except.ok.injEq, Prod.mk.injEq] at h
      obtain ⟨rfl, rfl⟩ := h
      arith

/-- all-or-nothing: when the unlocked balance does not cover the debt, `repay_debts` fails. -/
theorem repayDebts_fails (f : Funds)
    (h : f.balance - f.lockedFunds - f.pcd - f.initialPledge < f.feeDebt) :
    ∃ e, repayDebts f = .error e := by
  unfold repayDebts getUnlockedBalance
  by_cases g : f.balance - f.lockedFunds - f.pcd - f.initialPledge < 0
  · exact ⟨.illegalState, by simp [g]⟩
  · exact ⟨.insufficientFunds, by simp [g, h]⟩

theorem unlockVested_spec (f f1 : Funds) (v nv : Int) (h : unlockVested f v = .ok (f1, nv)) :
    f1 = { f with lockedFunds := f.lockedFunds - nv } ∧
    ((f.lockedFunds = 0 ∧ nv = 0) ∨ (f.lockedFunds ≠ 0 ∧ nv = v ∧ 0 ≤ f.lockedFunds - v)) := by
  unfold unlockVested at h
  by_cases g : f.lockedFunds = 0
  · simp only [g, if_true, Except.ok.injEq, Prod.mk.injEq] at h
    obtain ⟨rfl, rfl⟩ := h
    refine ⟨?_, Or.inl ⟨g, rfl⟩⟩
    cases f; simp_all
  · simp only [g, if_false] at h
    by_cases g2 : f.lockedFunds - v < 0
    · simp [g2] at h
    · simp only [g2, if_false, Except.ok.injEq, Prod.mk.injEq] at h
      obtain ⟨rfl, rfl⟩ := h
      exact ⟨rfl, Or.inr ⟨g, rfl, by omega⟩⟩

theorem check_spec (f : Funds) (h : checkBalanceInvariants f = .ok ()) : WF f := by
  unfold checkBalanceInvariants at h
  by_cases g : f.pcd < 0 ∨ f.lockedFunds < 0 ∨ f.initialPledge < 0 ∨ f.feeDebt < 0
  · simp [g] at h
  · simp only [g, if_false] at h
    by_cases g2 : f.balance < f.pcd + f.lockedFunds + f.initialPledge
    · simp [g2] at h
    · unfold WF; omega

/-- `burn_funds`: the value burnt is the (non-negative) amount and leaves the balance. -/
theorem burn_spec (f f' : Funds) (a b : Int) (eff : List Effect) (h : burn f a = .ok (f', b, eff)) :
    f' = { f with balance := f.balance - b } ∧ 0 ≤ b ∧ (0 ≤ a → b = a) ∧ b ≤ max f.balance 0 ∧
    (∀ x ∈ eff, Safe x) := by
  unfold burn at h
  by_cases g : a > 0
  · simp only [g, if_true] at h
    by_cases g2 : a > f.balance
    · simp [g2] at h
    · simp only [g2, if_false, Except.ok.injEq, Prod.mk.injEq] at h
      obtain ⟨rfl, rfl, rfl⟩ := h
      refine ⟨rfl, by omega, fun _ => rfl, by omega, ?_⟩
      intro x hx; simp at hx; subst hx; simp [Safe]
  · simp only [g, if_false, Except.ok.injEq, Prod.mk.injEq] at h
    obtain ⟨rfl, rfl, rfl⟩ := h
    refine ⟨by cases f; simp, by omega, by omega, by omega, ?_⟩
    intro x hx; simp at hx

theorem notify_spec (d : Int) (ok : Bool) (eff : List Effect) (h : notifyPledge d ok = .ok eff) :
    ∀ x ∈ eff, Safe x := by
  unfold notifyPledge at h
  by_cases g : d ≠ 0
  · simp only [ne_eq, g, not_false_eq_true, if_true] at h
    cases ok with
    | false => simp at h
    | true =>
      simp only [if_true, Except.ok.injEq] at h
      subst h; intro x hx; simp at hx; subst hx; simp [Safe]
  · simp only [ne_eq, g, not_false_eq_true, if_false, Except.ok.injEq] at h
    subst h; intro x hx; simp at hx

/-- sum of per-sector lower bounds of a batch of terminated sectors -/
def termLower : List TermSector → Int
  | [] => 0
  | s :: t => s.pledge * 2 / 100 + termLower t

/-- sum of per-sector caps of a batch of terminated sectors -/
def termCap : List TermSector → Int
  | [] => 0
  | s :: t => max (s.pledge * 85 / 1000) (s.faultFee * 105 / 100) + termCap t

theorem termination_fee_bounds_aux (pledge age faultFee : Int) (hp : 0 ≤ pledge) (hf : 0 ≤ faultFee) :
    pledge * 2 / 100 ≤ pledgePenaltyForTermination pledge age faultFee ∧
    pledgePenaltyForTermination pledge age faultFee ≤ max (pledge * 85 / 1000) (faultFee * 105 / 100) := by
  unfold pledgePenaltyForTermination
  simp only [Gen.termFeePledgeNum, Gen.termFeePledgeDenom, Gen.termFeeMinPledgeNum,
    Gen.termFeeMinPledgeDenom, Gen.termFeeMaxFaultFeeNum, Gen.termFeeMaxFaultFeeDenom,
    Gen.terminationLifetimeCap, Gen.epochsInDay]
  generalize age * (pledge * 85 / 1000) / (140 * 2880) = d
  omega

theorem termFees_bounds (l : List TermSector) (h : ∀ s ∈ l, 0 ≤ s.pledge ∧ 0 ≤ s.faultFee) :
    termLower l ≤ termFees l ∧ termFees l ≤ termCap l ∧ 0 ≤ termLower l := by
  induction l with
  | nil => simp [termLower, termFees, termCap]
  | cons s t ih =>
    have hs := h s (by simp)
    have ht := ih (fun x hx => h x (by simp [hx]))
    have hb := termination_fee_bounds_aux s.pledge s.age s.faultFee hs.1 hs.2
    simp only [termLower, termFees, termCap]
    omega

/-- funds side of `process_early_terminations` -/
theorem processEarlyTerminations_spec (f f' : Funds) (v : Int) (l : List TermSector) (ok : Bool)
    (o : Out) (hd : 0 ≤ f.feeDebt) (h : processEarlyTerminations f v l ok = .ok (f', o)) :
    f'.feeDebt + o.burnt = f.feeDebt + o.charged ∧ 0 ≤ o.burnt ∧ 0 ≤ o.charged ∧
    o.toReporter = 0 ∧ o.toBeneficiary = 0 ∧ o.lost = 0 ∧
    f'.balance = f.balance - o.burnt ∧ f'.pcd = f.pcd ∧
    (l = [] → f' = f ∧ o.charged = 0) ∧
    (l ≠ [] → o.charged = termFees l ∧ f'.initialPledge = f.initialPledge - termPledges l) ∧
    (WF f → 0 ≤ v → v ≤ f.lockedFunds → WF f') ∧
    (∀ x ∈ o.effects, Safe x) := by
  unfold processEarlyTerminations at h
  by_cases hl : l = []
  · simp only [hl, if_true, Except.ok.injEq, Prod.mk.injEq] at h
    obtain ⟨rfl, rfl⟩ := h
    simp [hl]
    intro hw _ _; exact hw
  · simp only [hl, if_false] at h
    cases h1 : applyPenalty f (termFees l) with
    | error e => simp [h1] at h
    | ok f1 =>
      simp only [h1] at h
      obtain ⟨hp, rfl⟩ := applyPenalty_spec _ _ _ h1
      by_cases g : f.initialPledge - termPledges l < 0
      · simp [g] at h
      · simp only [g, if_false] at h
        cases h2 : repayPartial { balance := f.balance, pcd := f.pcd, lockedFunds := f.lockedFunds, initialPledge := f.initialPledge - termPledges l, feeDebt := f.feeDebt + termFees l } v with
        | error e => simp [h2] at h
        | ok p =>
          obtain ⟨f3, pen, tu⟩ := p
          simp only [h2] at h
          have r := repayPartial_spec _ _ _ _ _ (by simp only; omega) h2
          simp only at r
          obtain ⟨r1, r2, r3, r4, r5, r6, r7, r8, _, r9, r10, _⟩ := r
          cases h3 : burn f3 pen with
          | error e => simp [h3] at h
          | ok q =>
            obtain ⟨f4, b, e1⟩ := q
            simp only [h3] at h
            obtain ⟨rfl, b1, b2, b3, b4⟩ := burn_spec _ _ _ _ _ h3
            cases h4 : notifyPledge (-termPledges l - tu) ok with
            | error e => simp [h4] at h
            | ok e2 =>
              simp only [h4, Except.ok.injEq, Prod.mk.injEq] at h
              obtain ⟨rfl, rfl⟩ := h
              have n := notify_spec _ _ _ h4
              have hb := b2 r2
              refine ⟨by somega, b1, hp, rfl, rfl, rfl, by somega, by somega,
                fun hc => absurd hc hl, fun _ => ⟨rfl, by somega⟩, ?_, ?_⟩
              · intro hw hv1 hv2
                unfold WF at hw ⊢
                simp only
                have := r10 hv1 hv2
                have := r9 hw.2.1
                omega
              · intro x hx
                simp only [List.mem_append, List.mem_singleton] at hx
                rcases hx with (hx | hx) | hx
                · exact b4 x hx
                · exact n x hx
                · subst hx; simp [Safe]

/-! ### per-step specifications -/

/-- what every successful step guarantees about the money it moved -/
structure StepOk (f f' : Funds) (o : Out) : Prop where
  acct : f'.feeDebt + o.burnt + o.toReporter + o.lost = f.feeDebt + o.charged
  burnt_nonneg : 0 ≤ o.burnt
  rep_nonneg : 0 ≤ o.toReporter
  lost_nonneg : 0 ≤ o.lost
  charged_nonneg : 0 ≤ o.charged
  ben_nonneg : 0 ≤ o.toBeneficiary
  bal : f'.balance = f.balance - o.burnt - o.toReporter - o.toBeneficiary
  wf : WF f'

macro "fin" : tactic =>
  `(tactic| all_goals (try (first | trivial | rfl | omega | (simp only; omega) | (unfold WF; simp only; omega) | (unfold WF; omega) | (simp only; trivial))))

theorem reward_nonneg (r : Int) (h : 0 ≤ consensusFaultPenalty r) :
    0 ≤ rewardForConsensusSlashReport r := by
  unfold consensusFaultPenalty at h
  unfold rewardForConsensusSlashReport
  simp only [Gen.consensusFaultFactor, Gen.expectedLeadersPerEpoch, Gen.consensusFaultReporterShare] at *
  omega

theorem cf_spec (s s' : MState) (e : CfEnv) (o : Out) (hw : WF s.funds)
    (h : reportConsensusFault s e = .ok (s', o)) :
    StepOk s.funds s'.funds o ∧ o.toBeneficiary = 0 ∧
    (∀ x ∈ o.effects, PenEff x) ∧
    o.charged = consensusFaultPenalty e.thisEpochReward ∧
    o.toReporter ≤ rewardForConsensusSlashReport e.thisEpochReward ∧
    o.toReporter + o.lost ≤ s.funds.feeDebt + o.charged - s'.funds.feeDebt ∧
    (o.lost ≠ 0 → Gen.cfBurnsUnsentReward = false ∧ ⟨Dest.reporter, o.lost, false⟩ ∈ o.effects) ∧
    e.faultEpoch < e.currEpoch ∧ s.cfElapsed ≤ e.faultEpoch ∧
    s'.cfElapsed = e.currEpoch + Gen.consensusFaultIneligibilityDuration := by
  unfold reportConsensusFault at h
  simp only [guard_ok] at h
  obtain ⟨_, _, g3, g4, h⟩ := h
  cases h1 : applyPenalty s.funds (consensusFaultPenalty e.thisEpochReward) with
  | error err => simp [h1] at h
  | ok f1 =>
    simp only [h1] at h
    obtain ⟨hp, rfl⟩ := applyPenalty_spec _ _ _ h1
    have hsr := reward_nonneg _ hp
    cases h2 : repayPartial { balance := s.funds.balance, pcd := s.funds.pcd, lockedFunds := s.funds.lockedFunds, initialPledge := s.funds.initialPledge, feeDebt := s.funds.feeDebt + consensusFaultPenalty e.thisEpochReward } e.vested with
    | error err => simp [h2] at h
    | ok p =>
      obtain ⟨f2, burn0, tu⟩ := p
      simp only [h2] at h
      have r := repayPartial_spec _ _ _ _ _ (by have := hw.2.2.2.1; simp only; omega) h2
      simp only at r
      obtain ⟨r1, r2, r3, r4, r5, r6, r7, r8, _, _, _, _⟩ := r
      generalize hrw : min burn0 (rewardForConsensusSlashReport e.thisEpochReward) = rw at h
      generalize hsent : (e.rewardSendOk && decide (0 ≤ rw ∧ rw ≤ f2.balance)) = sent at h
      have hs : sent = true → 0 ≤ rw ∧ rw ≤ f2.balance := by
        intro hh; subst hh; simp at hsent; exact hsent.2
      generalize hfx : Gen.cfBurnsUnsentReward = fx at h ⊢
      have hwf := hw
      unfold WF at hwf
      cases sent <;> cases fx <;>
        simp only [Bool.not_true, Bool.not_false, Bool.and_true, Bool.and_false, Bool.true_and,
          Bool.false_and, if_true, if_false, Bool.false_eq_true] at h hs
      all_goals
        split at h
        · cases h
        · rename_i f4 b eff1 hb
          split at h
          · cases h
          · rename_i eff2 hn
            split at h
            · cases h
            · rename_i hc
              simp only [Except.ok.injEq, Prod.mk.injEq] at h
              obtain ⟨rfl, rfl⟩ := h
              obtain ⟨rfl, b1, b2, b3, b4⟩ := burn_spec _ _ _ _ _ hb
              have n := notify_spec _ _ _ hn
              have hwf' := check_spec _ hc
              unfold WF at hwf'
              simp only at hwf' b3
              have hmin : rw ≤ burn0 ∧ rw ≤ rewardForConsensusSlashReport e.thisEpochReward ∧ 0 ≤ rw := by omega
              refine ⟨⟨?_, ?_, ?_, ?_, ?_, ?_, ?_, ?_⟩, ?_, ?_, ?_, ?_, ?_, ?_, ?_, ?_, ?_⟩
              fin
              all_goals first
                | (simp only [List.forall_mem_cons, List.forall_mem_append]
                   exact ⟨by simp [PenEff], by simp [PenEff], safe_all_pen b4, safe_all_pen n⟩)
                | (intro hne; exact ⟨rfl, by simp⟩)
                | (intro hne; exact absurd rfl hne)


theorem dispute_spec (s s' : MState) (e : DisputeEnv) (o : Out) (hw : WF s.funds)
    (h : disputeWindowedPost s e = .ok (s', o)) :
    StepOk s.funds s'.funds o ∧ o.toBeneficiary = 0 ∧ o.lost = 0 ∧
    (∀ x ∈ o.effects, PenEff x) ∧
    o.charged = pledgePenaltyForInvalidWindowPost e.br + rewardForDisputedWindowPost ∧
    o.toReporter ≤ rewardForDisputedWindowPost ∧
    o.toReporter ≤ s.funds.feeDebt + o.charged - s'.funds.feeDebt ∧
    s'.cfElapsed = s.cfElapsed := by
  unfold disputeWindowedPost at h
  simp only [guard_ok] at h
  obtain ⟨_, h⟩ := h
  cases h1 : applyPenalty s.funds (pledgePenaltyForInvalidWindowPost e.br + rewardForDisputedWindowPost) with
  | error err => simp [h1] at h
  | ok f1 =>
    simp only [h1] at h
    obtain ⟨hp, rfl⟩ := applyPenalty_spec _ _ _ h1
    cases h2 : repayPartial { balance := s.funds.balance, pcd := s.funds.pcd, lockedFunds := s.funds.lockedFunds, initialPledge := s.funds.initialPledge, feeDebt := s.funds.feeDebt + (pledgePenaltyForInvalidWindowPost e.br + rewardForDisputedWindowPost) } e.vested with
    | error err => simp [h2] at h
    | ok p =>
      obtain ⟨f2, burn0, tu⟩ := p
      simp only [h2] at h
      have r := repayPartial_spec _ _ _ _ _ (by have := hw.2.2.2.1; simp only; omega) h2
      simp only at r
      obtain ⟨r1, r2, r3, r4, r5, r6, r7, r8, _, _, _, _⟩ := r
      generalize hrw : min burn0 rewardForDisputedWindowPost = rw at h
      generalize hsent : (decide (rw ≠ 0) && e.rewardSendOk && decide (0 ≤ rw ∧ rw ≤ f2.balance)) = sent at h
      have hs : sent = true → rw ≠ 0 ∧ 0 ≤ rw ∧ rw ≤ f2.balance := by
        intro hh; subst hh; simp at hsent; exact ⟨hsent.1.1, hsent.2⟩
      have hwf := hw
      unfold WF at hwf
      have hrt : (0 : Int) ≤ rewardForDisputedWindowPost := by
        simp [rewardForDisputedWindowPost, Gen.baseRewardForDisputedWindowPost]
      by_cases hz : rw = 0 <;> cases sent <;>
        simp only [hz, ne_eq, not_true_eq_false, not_false_eq_true, decide_false, decide_true,
          Bool.not_true, Bool.not_false, Bool.and_true, Bool.and_false, Bool.true_and,
          Bool.false_and, if_true, if_false, Bool.false_eq_true, List.nil_append, List.cons_append,
          Int.add_zero, Int.sub_zero, forall_const, false_and, and_false] at h hs
      all_goals
        split at h
        · cases h
        · rename_i f4 b eff1 hb
          split at h
          · cases h
          · rename_i eff2 hn
            split at h
            · cases h
            · rename_i hc
              simp only [Except.ok.injEq, Prod.mk.injEq] at h
              obtain ⟨rfl, rfl⟩ := h
              obtain ⟨rfl, b1, b2, b3, b4⟩ := burn_spec _ _ _ _ _ hb
              have n := notify_spec _ _ _ hn
              have hwf' := check_spec _ hc
              unfold WF at hwf'
              simp only at hwf' b3
              have hmin : rw ≤ burn0 ∧ rw ≤ rewardForDisputedWindowPost ∧ 0 ≤ rw := by omega
              refine ⟨⟨?_, ?_, ?_, ?_, ?_, ?_, ?_, ?_⟩, ?_, ?_, ?_, ?_, ?_, ?_, ?_⟩
              fin
              all_goals first
                | (simp only [List.forall_mem_cons, List.forall_mem_append]
                   exact ⟨by simp [PenEff], by simp [PenEff], safe_all_pen b4, safe_all_pen n⟩)
                | (simp only [List.forall_mem_cons, List.forall_mem_append]
                   exact ⟨by simp [PenEff], safe_all_pen b4, safe_all_pen n⟩)


theorem terminate_spec (s s' : MState) (e : TermEnv) (o : Out) (hw : WF s.funds)
    (h : terminateSectors s e = .ok (s', o)) :
    StepOk s.funds s'.funds o ∧ o.toBeneficiary = 0 ∧ o.lost = 0 ∧ o.toReporter = 0 ∧
    (∀ x ∈ o.effects, PenEff x) ∧
    (e.sectors ≠ [] → o.charged = termFees e.sectors) ∧ (e.sectors = [] → o.charged = 0) ∧
    s'.cfElapsed = s.cfElapsed := by
  unfold terminateSectors at h
  simp only [guard_ok] at h
  obtain ⟨_, h⟩ := h
  cases h1 : processEarlyTerminations s.funds e.vested e.sectors e.pledgeOk with
  | error err => simp [h1] at h
  | ok p =>
    obtain ⟨f1, out⟩ := p
    simp only [h1] at h
    obtain ⟨a1, a2, a3, a4, a5, a6, a7, a8, a9, a10, _, a12⟩ :=
      processEarlyTerminations_spec _ _ _ _ _ _ hw.2.2.2.1 h1
    split at h
    · cases h
    · rename_i hc
      simp only [Except.ok.injEq, Prod.mk.injEq] at h
      obtain ⟨rfl, rfl⟩ := h
      have hwf' := check_spec _ hc
      refine ⟨⟨?_, ?_, ?_, ?_, ?_, ?_, ?_, ?_⟩, a5, a6, a4, safe_all_pen a12, fun hne => (a10 hne).1,
        fun he => (a9 he).2, rfl⟩
      fin

theorem deadlineEnd_spec (s s' : MState) (e : DlEnv) (o : Out) (hw : WF s.funds)
    (hv : 0 ≤ e.vested ∧ e.vested ≤ s.funds.lockedFunds)
    (h : deadlineEnd s e = .ok (s', o)) :
    StepOk s.funds s'.funds o ∧ o.toBeneficiary = 0 ∧ o.lost = 0 ∧ o.toReporter = 0 ∧
    (∀ x ∈ o.effects, PenEff x) ∧
    0 ≤ e.expiredDeposit ∧ 0 ≤ e.faultPenalty ∧
    o.charged = e.expiredDeposit + e.faultPenalty +
      (if e.dailyFee > 0 then dailyProofFeePayable e.dailyFee e.dayReward else 0) +
      (if e.terminated = [] then 0 else termFees e.terminated) ∧
    s'.funds.pcd = s.funds.pcd - e.expiredDeposit ∧
    s'.cfElapsed = s.cfElapsed := by
  unfold deadlineEnd at h
  simp only [guard_ok] at h
  obtain ⟨g0, h⟩ := h
  have hwf := hw
  unfold WF at hwf
  cases h1 : applyPenalty { balance := s.funds.balance, pcd := s.funds.pcd - e.expiredDeposit, lockedFunds := s.funds.lockedFunds, initialPledge := s.funds.initialPledge, feeDebt := s.funds.feeDebt } e.expiredDeposit with
  | error err => simp [h1] at h
  | ok f1 =>
    simp only [h1] at h
    obtain ⟨hp1, rfl⟩ := applyPenalty_spec _ _ _ h1
    simp only [guard_ok] at h
    obtain ⟨g1, h⟩ := h
    cases h2 : applyPenalty { balance := s.funds.balance, pcd := s.funds.pcd - e.expiredDeposit, lockedFunds := s.funds.lockedFunds, initialPledge := s.funds.initialPledge - e.onTimePledge, feeDebt := s.funds.feeDebt + e.expiredDeposit } e.faultPenalty with
    | error err => simp [h2] at h
    | ok f2 =>
      simp only [h2] at h
      obtain ⟨hp2, rfl⟩ := applyPenalty_spec _ _ _ h2
      generalize hfee : (if e.dailyFee > 0 then dailyProofFeePayable e.dailyFee e.dayReward else 0) = fee at h ⊢
      cases h3 : applyPenalty { balance := s.funds.balance, pcd := s.funds.pcd - e.expiredDeposit, lockedFunds := s.funds.lockedFunds, initialPledge := s.funds.initialPledge - e.onTimePledge, feeDebt := s.funds.feeDebt + e.expiredDeposit + e.faultPenalty } fee with
      | error err => simp [h3] at h
      | ok f3 =>
        simp only [h3] at h
        obtain ⟨hp3, rfl⟩ := applyPenalty_spec _ _ _ h3
        cases h4 : repayPartial { balance := s.funds.balance, pcd := s.funds.pcd - e.expiredDeposit, lockedFunds := s.funds.lockedFunds, initialPledge := s.funds.initialPledge - e.onTimePledge, feeDebt := s.funds.feeDebt + e.expiredDeposit + e.faultPenalty + fee } e.vested with
        | error err => simp [h4] at h
        | ok p =>
          obtain ⟨f4, pen, tu⟩ := p
          simp only [h4] at h
          have r := repayPartial_spec _ _ _ _ _ (by simp only; omega) h4
          simp only at r
          obtain ⟨r1, r2, r3, r4, r5, r6, r7, r8, _, r9, r10, r11⟩ := r
          have r10' := r10 hv.1 hv.2
          have r11' := r11 hv.1 hv.2
          generalize hvl : vestedLeft { balance := s.funds.balance, pcd := s.funds.pcd - e.expiredDeposit, lockedFunds := s.funds.lockedFunds, initialPledge := s.funds.initialPledge - e.onTimePledge, feeDebt := s.funds.feeDebt + e.expiredDeposit + e.faultPenalty + fee } e.vested = vl at h r11'
          have hvl0 : 0 ≤ vl := by
            rw [← hvl]; unfold vestedLeft; split <;> omega
          split at h
          · cases h
          · rename_i f5 nv hu
            obtain ⟨rfl, u2⟩ := unlockVested_spec _ _ _ _ hu
            split at h
            · cases h
            · rename_i f6 b eff1 hb
              obtain ⟨rfl, b1, b2, b3, b4⟩ := burn_spec _ _ _ _ _ hb
              split at h
              · cases h
              · rename_i eff2 hn
                have n := notify_spec _ _ _ hn
                split at h
                · cases h
                · rename_i f7 out2 hpe
                  simp only [Except.ok.injEq, Prod.mk.injEq] at h
                  obtain ⟨rfl, rfl⟩ := h
                  have hb' := b2 r2
                  have hwf6 : WF { balance := f4.balance - b, pcd := f4.pcd, lockedFunds := f4.lockedFunds - nv, initialPledge := f4.initialPledge, feeDebt := f4.feeDebt } := by
                    unfold WF; simp only; omega
                  obtain ⟨a1, a2, a3, a4, a5, a6, a7, a8, a9, a10, a11, a12⟩ :=
                    processEarlyTerminations_spec _ _ _ _ _ _ (by simp only; omega) hpe
                  have hwf7 := a11 hwf6 (Int.le_refl 0) (by simp only; omega)
                  simp only at a1 a7 a8
                  have hch : out2.charged = if e.terminated = [] then 0 else termFees e.terminated := by
                    by_cases hl : e.terminated = []
                    · simp [hl, (a9 hl).2]
                    · simp [hl, (a10 hl).1]
                  refine ⟨⟨?_, ?_, ?_, ?_, ?_, ?_, ?_, hwf7⟩, rfl, rfl, rfl, ?_, hp1, hp2, ?_, ?_, rfl⟩
                  fin
                  · simp only [List.forall_mem_cons, List.forall_mem_append]
                    exact ⟨⟨by simp [PenEff], safe_all_pen b4, safe_all_pen n⟩, safe_all_pen a12⟩



theorem repayDebt_spec (s s' : MState) (e : RdEnv) (o : Out) (hw : WF s.funds)
    (h : repayDebt s e = .ok (s', o)) :
    StepOk s.funds s'.funds o ∧ o.toBeneficiary = 0 ∧ o.lost = 0 ∧ o.toReporter = 0 ∧ o.charged = 0 ∧
    (∀ x ∈ o.effects, PenEff x) ∧ s'.cfElapsed = s.cfElapsed := by
  unfold repayDebt at h
  simp only [guard_ok] at h
  obtain ⟨_, h⟩ := h
  have hwf := hw
  unfold WF at hwf
  cases h2 : repayPartial s.funds e.vested with
  | error err => simp [h2] at h
  | ok p =>
    obtain ⟨f2, burn0, tu⟩ := p
    simp only [h2] at h
    obtain ⟨r1, r2, r3, r4, r5, r6, r7, r8, _, _, _, _⟩ := repayPartial_spec _ _ _ _ _ hwf.2.2.2.1 h2
    split at h
    · cases h
    · rename_i eff2 hn
      have n := notify_spec _ _ _ hn
      split at h
      · cases h
      · rename_i f4 b eff1 hb
        obtain ⟨rfl, b1, b2, b3, b4⟩ := burn_spec _ _ _ _ _ hb
        split at h
        · cases h
        · rename_i hc
          simp only [Except.ok.injEq, Prod.mk.injEq] at h
          obtain ⟨rfl, rfl⟩ := h
          have hwf' := check_spec _ hc
          have hb' := b2 r2
          refine ⟨⟨?_, ?_, ?_, ?_, ?_, ?_, ?_, hwf'⟩, rfl, rfl, rfl, rfl, ?_, rfl⟩
          fin
          simp only [List.forall_mem_append]
          exact ⟨safe_all_pen n, safe_all_pen b4⟩

theorem applyRewards_spec (s s' : MState) (e : RewardEnv) (o : Out) (hw : WF s.funds)
    (h : applyRewards s e = .ok (s', o)) :
    StepOk s.funds s'.funds o ∧ o.toBeneficiary = 0 ∧ o.lost = 0 ∧ o.toReporter = 0 ∧
    o.charged = e.penalty ∧ (∀ x ∈ o.effects, PenEff x) ∧ s'.cfElapsed = s.cfElapsed := by
  unfold applyRewards at h
  simp only [guard_ok] at h
  obtain ⟨_, gp, _, h⟩ := h
  have hwf := hw
  unfold WF at hwf
  split at h
  · cases h
  · rename_i u hu
    simp only [guard_ok] at h
    obtain ⟨_, _, _, h⟩ := h
    split at h
    · cases h
    · rename_i f2 h1
      obtain ⟨hp, rfl⟩ := applyPenalty_spec _ _ _ h1
      split at h
      · cases h
      · rename_i f3 burn0 tu h2
        have r := repayPartial_spec _ _ _ _ _ (by simp only; omega) h2
        simp only at r
        obtain ⟨r1, r2, r3, r4, r5, r6, r7, r8, _, _, _, _⟩ := r
        split at h
        · cases h
        · rename_i eff2 hn
          have n := notify_spec _ _ _ hn
          split at h
          · cases h
          · rename_i f4 b eff1 hb
            obtain ⟨rfl, b1, b2, b3, b4⟩ := burn_spec _ _ _ _ _ hb
            split at h
            · cases h
            · rename_i hc
              simp only [Except.ok.injEq, Prod.mk.injEq] at h
              obtain ⟨rfl, rfl⟩ := h
              have hwf' := check_spec _ hc
              have hb' := b2 r2
              refine ⟨⟨?_, ?_, ?_, ?_, ?_, ?_, ?_, hwf'⟩, rfl, rfl, rfl, rfl, ?_, rfl⟩
              fin
              simp only [List.forall_mem_append]
              exact ⟨safe_all_pen n, safe_all_pen b4⟩

/-- a send of a debt-gated method: burn, pledge notification, or the withdrawal itself -/
def GateEff (x : Effect) : Prop :=
  x.dest = .burnt ∨ x.dest = .beneficiary ∨ x.value = 0

theorem Safe.gate {x : Effect} (h : Safe x) : GateEff x :=
  h.1.elim Or.inl (fun v => Or.inr (Or.inr v))

theorem declareRecovered_spec (s s' : MState) (e : DrEnv) (o : Out) (hw : WF s.funds)
    (h : declareFaultsRecovered s e = .ok (s', o)) :
    StepOk s.funds s'.funds o ∧ o.toBeneficiary = 0 ∧ o.lost = 0 ∧ o.toReporter = 0 ∧ o.charged = 0 ∧
    s'.funds.feeDebt = 0 ∧ o.burnt = s.funds.feeDebt ∧
    s.funds.feeDebt ≤ s.funds.balance - s.funds.lockedFunds - s.funds.pcd - s.funds.initialPledge ∧
    (∀ x ∈ o.effects, PenEff x) ∧ s'.cfElapsed = s.cfElapsed := by
  unfold declareFaultsRecovered at h
  simp only [guard_ok] at h
  obtain ⟨_, h⟩ := h
  have hwf := hw
  unfold WF at hwf
  split at h
  · cases h
  · rename_i f1 fee hr
    obtain ⟨rfl, rfl, d3, d4⟩ := repayDebts_spec _ _ _ hr
    simp only [guard_ok] at h
    obtain ⟨_, _, _, h⟩ := h
    split at h
    · cases h
    · rename_i f2 b eff1 hb
      obtain ⟨rfl, b1, b2, b3, b4⟩ := burn_spec _ _ _ _ _ hb
      split at h
      · cases h
      · rename_i hc
        simp only [Except.ok.injEq, Prod.mk.injEq] at h
        obtain ⟨rfl, rfl⟩ := h
        have hwf' := check_spec _ hc
        have hb' := b2 hwf.2.2.2.1
        refine ⟨⟨?_, ?_, ?_, ?_, ?_, ?_, ?_, hwf'⟩, rfl, rfl, rfl, rfl, rfl, hb', d3, safe_all_pen b4, rfl⟩
        fin

theorem preCommit_spec (s s' : MState) (e : PcEnv) (o : Out) (hw : WF s.funds)
    (h : preCommit s e = .ok (s', o)) :
    StepOk s.funds s'.funds o ∧ o.toBeneficiary = 0 ∧ o.lost = 0 ∧ o.toReporter = 0 ∧ o.charged = 0 ∧
    s'.funds.feeDebt = 0 ∧ o.burnt = s.funds.feeDebt ∧
    s.funds.feeDebt ≤ s.funds.balance - s.funds.lockedFunds - s.funds.pcd - s.funds.initialPledge ∧
    (∀ x ∈ o.effects, PenEff x) ∧ s'.cfElapsed = s.cfElapsed := by
  unfold preCommit at h
  simp only [guard_ok] at h
  obtain ⟨_, h⟩ := h
  have hwf := hw
  unfold WF at hwf
  split at h
  · cases h
  · rename_i u hu
    split at h
    · cases h
    · rename_i f1 fee hr
      obtain ⟨rfl, rfl, d3, d4⟩ := repayDebts_spec _ _ _ hr
      simp only [guard_ok] at h
      obtain ⟨_, _, _, _, h⟩ := h
      split at h
      · cases h
      · rename_i f2 b eff1 hb
        obtain ⟨rfl, b1, b2, b3, b4⟩ := burn_spec _ _ _ _ _ hb
        split at h
        · cases h
        · rename_i hc
          simp only [Except.ok.injEq, Prod.mk.injEq] at h
          obtain ⟨rfl, rfl⟩ := h
          have hwf' := check_spec _ hc
          have hb' := b2 hwf.2.2.2.1
          refine ⟨⟨?_, ?_, ?_, ?_, ?_, ?_, ?_, hwf'⟩, rfl, rfl, rfl, rfl, rfl, hb', d3, safe_all_pen b4, rfl⟩
          fin

theorem withdraw_spec (s s' : MState) (e : WdEnv) (o : Out) (hw : WF s.funds)
    (h : withdrawBalance s e = .ok (s', o)) :
    StepOk s.funds s'.funds o ∧ o.lost = 0 ∧ o.toReporter = 0 ∧ o.charged = 0 ∧
    s'.funds.feeDebt = 0 ∧ o.burnt = s.funds.feeDebt ∧
    (∀ x ∈ o.effects, GateEff x) ∧ s'.cfElapsed = s.cfElapsed ∧
    o.toBeneficiary ≤ e.amountRequested := by
  unfold withdrawBalance at h
  simp only [guard_ok] at h
  obtain ⟨ga, _, _, h⟩ := h
  have hwf := hw
  unfold WF at hwf
  split at h
  · cases h
  · rename_i f1 nv hu
    obtain ⟨rfl, u2⟩ := unlockVested_spec _ _ _ _ hu
    split at h
    · cases h
    · rename_i u hub
      split at h
      · cases h
      · rename_i f2 fee hr
        obtain ⟨rfl, rfl, d3, d4⟩ := repayDebts_spec _ _ _ hr
        simp only [guard_ok] at h
        obtain ⟨gneg, h⟩ := h
        split at h
        · cases h
        · rename_i w hwd
          simp only [guard_ok] at h
          obtain ⟨gw, h⟩ := h
          have hw_le : w ≤ e.amountRequested := by
            cases hq : e.quota with
            | none => simp only [hq, Except.ok.injEq] at hwd; omega
            | some q =>
              simp only [hq] at hwd
              by_cases hq0 : q = 0
              · simp [hq0] at hwd
              · simp only [hq0, if_false, Except.ok.injEq] at hwd; omega
          by_cases hwp : w > 0 <;> simp only [hwp, if_true, if_false] at h
          all_goals
            split at h
            · cases h
            · rename_i f4 b eff1 hb
              obtain ⟨rfl, b1, b2, b3, b4⟩ := burn_spec _ _ _ _ _ hb
              split at h
              · cases h
              · rename_i eff2 hn
                have n := notify_spec _ _ _ hn
                split at h
                · cases h
                · rename_i hc
                  simp only [Except.ok.injEq, Prod.mk.injEq] at h
                  obtain ⟨rfl, rfl⟩ := h
                  have hwf' := check_spec _ hc
                  have hb' := b2 hwf.2.2.2.1
                  refine ⟨⟨?_, ?_, ?_, ?_, ?_, ?_, ?_, hwf'⟩, rfl, rfl, rfl, rfl, hb', ?_, rfl, ?_⟩
                  fin
                  first
                    | (simp only [List.forall_mem_cons, List.forall_mem_append, List.cons_append, List.nil_append]
                       exact ⟨by simp [GateEff], fun x hx => (b4 x hx).gate, fun x hx => (n x hx).gate⟩)
                    | (simp only [List.forall_mem_append, List.nil_append]
                       exact ⟨fun x hx => (b4 x hx).gate, fun x hx => (n x hx).gate⟩)


end BA.MinerPenalty
