/- Helper lemmas for the sector-extension model. -/
import BA.Model.SectorExt

namespace BA.SectorExt
open BA BA.Verifreg

end BA.SectorExt
