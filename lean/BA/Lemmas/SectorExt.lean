/- Helper lemmas for the sector-extension model: what `validate_extension_declarations` records
   per sector, and what a successful `extend_simple_qap_sector` implies. -/
import BA.Model.SectorExt

namespace BA.SectorExt
open BA BA.Verifreg

def sizeOf (claims : List (Nat × Claim)) (provider : Nat) (id : Nat) : Int :=
  match getClaim claims provider id with
  | some c => c.size
  | none => 0

def sumSizes (claims : List (Nat × Claim)) (provider : Nat) (ids : List Nat) : Int :=
  isum (ids.map (sizeOf claims provider))

theorem sumSizes_append (claims : List (Nat × Claim)) (provider : Nat) (a b : List Nat) :
    sumSizes claims provider (a ++ b) = sumSizes claims provider a + sumSizes claims provider b := by
  simp [sumSizes, isum_append]

/-- recorded `check` space of a sector -/
def chk (m : SpaceMap) (n : Nat) : Int :=
  match alookup n m with
  | some p => p.1
  | none => 0
/-- recorded `maintain` space of a sector -/
def mnt (m : SpaceMap) (n : Nat) : Int :=
  match alookup n m with
  | some p => p.2
  | none => 0

theorem addSpace_spec (m : SpaceMap) (n k : Nat) (sz md : Int) :
    chk (addSpace m n sz md) k = chk m k + (if k = n then sz else 0) ∧
    mnt (addSpace m n sz md) k = mnt m k + (if k = n then md else 0) := by
  unfold addSpace chk mnt
  by_cases hk : k = n
  · subst hk
    cases h : alookup k m with
    | none => simp [h]
    | some p => obtain ⟨c, t⟩ := p; simp [h]
  · cases h : alookup n m with
    | none => simp [h, hk, alookup_aset_other _ _ _ _ hk]
    | some p => obtain ⟨c, t⟩ := p; simp [h, hk, alookup_aset_other _ _ _ _ hk]

/-- claim ids of sector `k` listed as maintained / dropped in a list of sector claims -/
def maintOf (k : Nat) : List SectorClaim → List Nat
  | [] => []
  | sc :: r => (if sc.sector = k then sc.maintain else []) ++ maintOf k r
def dropOf (k : Nat) : List SectorClaim → List Nat
  | [] => []
  | sc :: r => (if sc.sector = k then sc.drop else []) ++ dropOf k r
/-- … over all declarations of a message -/
def declMaint (k : Nat) : List Decl → List Nat
  | [] => []
  | d :: r => maintOf k d.withClaims ++ declMaint k r
def declDrop (k : Nat) : List Decl → List Nat
  | [] => []
  | d :: r => dropOf k d.withClaims ++ declDrop k r

theorem accMaintain_spec (claims : List (Nat × Claim)) (provider n : Nat) (newExp : Int)
    (ids : List Nat) : ∀ (cs : List Claim) (m m' : SpaceMap),
    getClaims claims provider ids = .ok cs → accMaintain n newExp cs m = .ok m' →
    (∀ id ∈ ids, ∃ c, getClaim claims provider id = some c ∧ c.sector = n ∧
        newExp ≤ c.termStart + c.termMax) ∧
    (∀ k, chk m' k = chk m k + (if k = n then sumSizes claims provider ids else 0) ∧
          mnt m' k = mnt m k + (if k = n then sumSizes claims provider ids else 0)) := by
  induction ids with
  | nil =>
    intro cs m m' hg ha
    simp only [getClaims] at hg
    injection hg with hg; subst hg
    simp only [accMaintain] at ha
    injection ha with ha; subst ha
    exact ⟨by simp, fun k => by simp [sumSizes]⟩
  | cons id rest ih =>
    intro cs m m' hg ha
    simp only [getClaims] at hg
    cases hc : getClaim claims provider id with
    | none => simp [hc] at hg
    | some c =>
      simp only [hc] at hg
      cases hr : getClaims claims provider rest with
      | error e => simp [hr] at hg
      | ok cs' =>
        simp only [hr] at hg
        injection hg with hg; subst hg
        simp only [accMaintain, guard_ok] at ha
        obtain ⟨h1, h2, ha⟩ := ha
        obtain ⟨f1, f2⟩ := ih cs' _ m' hr ha
        refine ⟨?_, ?_⟩
        · intro x hx
          cases List.mem_cons.mp hx with
          | inl e => subst e; exact ⟨c, hc, by simpa using h1, by omega⟩
          | inr e => exact f1 x e
        · intro k
          obtain ⟨g1, g2⟩ := f2 k
          obtain ⟨a1, a2⟩ := addSpace_spec m n k c.size c.size
          have hs : sumSizes claims provider (id :: rest) = c.size + sumSizes claims provider rest := by
            simp [sumSizes, sizeOf, hc]
          rw [g1, g2, a1, a2, hs]
          by_cases hk : k = n <;> simp [hk] <;> omega

theorem accDrop_spec (claims : List (Nat × Claim)) (provider n : Nat)
    (ids : List Nat) : ∀ (cs : List Claim) (m m' : SpaceMap),
    getClaims claims provider ids = .ok cs → accDrop n cs m = .ok m' →
    (∀ id ∈ ids, ∃ c, getClaim claims provider id = some c ∧ c.sector = n) ∧
    (∀ k, chk m' k = chk m k + (if k = n then sumSizes claims provider ids else 0) ∧
          mnt m' k = mnt m k) := by
  induction ids with
  | nil =>
    intro cs m m' hg ha
    simp only [getClaims] at hg
    injection hg with hg; subst hg
    simp only [accDrop] at ha
    injection ha with ha; subst ha
    exact ⟨by simp, fun k => by simp [sumSizes]⟩
  | cons id rest ih =>
    intro cs m m' hg ha
    simp only [getClaims] at hg
    cases hc : getClaim claims provider id with
    | none => simp [hc] at hg
    | some c =>
      simp only [hc] at hg
      cases hr : getClaims claims provider rest with
      | error e => simp [hr] at hg
      | ok cs' =>
        simp only [hr] at hg
        injection hg with hg; subst hg
        simp only [accDrop, guard_ok] at ha
        obtain ⟨h1, ha⟩ := ha
        obtain ⟨f1, f2⟩ := ih cs' _ m' hr ha
        refine ⟨?_, ?_⟩
        · intro x hx
          cases List.mem_cons.mp hx with
          | inl e => subst e; exact ⟨c, hc, by simpa using h1⟩
          | inr e => exact f1 x e
        · intro k
          obtain ⟨g1, g2⟩ := f2 k
          obtain ⟨a1, a2⟩ := addSpace_spec m n k c.size 0
          have hs : sumSizes claims provider (id :: rest) = c.size + sumSizes claims provider rest := by
            simp [sumSizes, sizeOf, hc]
          rw [g1, g2, a1, a2, hs]
          by_cases hk : k = n <;> simp [hk] <;> omega

/-- facts established for one list of sector claims validated against `newExp` -/
def ScFacts (claims : List (Nat × Claim)) (provider : Nat) (newExp : Int) (scs : List SectorClaim) : Prop :=
  ∀ sc ∈ scs,
    (∀ id ∈ sc.maintain, ∃ c, getClaim claims provider id = some c ∧ c.sector = sc.sector ∧
        newExp ≤ c.termStart + c.termMax) ∧
    (∀ id ∈ sc.drop, ∃ c, getClaim claims provider id = some c ∧ c.sector = sc.sector)

theorem accSectorClaims_spec (rc : Bool) (claims : List (Nat × Claim)) (provider : Nat) (newExp : Int)
    (scs : List SectorClaim) : ∀ (m : SpaceMap) (seen : List Nat) (m' : SpaceMap) (seen' : List Nat),
    accSectorClaims rc claims provider newExp scs m seen = .ok (m', seen') →
    ScFacts claims provider newExp scs ∧
    (∀ k, chk m' k = chk m k + sumSizes claims provider (maintOf k scs) + sumSizes claims provider (dropOf k scs) ∧
          mnt m' k = mnt m k + sumSizes claims provider (maintOf k scs)) := by
  induction scs with
  | nil =>
    intro m seen m' seen' h
    simp only [accSectorClaims] at h
    injection h with h; injection h with h1 h2; subst h1
    exact ⟨fun sc hsc => by simp at hsc, fun k => by simp [maintOf, dropOf, sumSizes]⟩
  | cons sc rest ih =>
    intro m seen m' seen' h
    simp only [accSectorClaims] at h
    cases h0 : checkDeclared rc seen (sc.maintain ++ sc.drop) with
    | error e => simp [h0] at h
    | ok seen1 =>
      simp only [h0] at h
      cases h1 : getClaims claims provider (sc.maintain ++ sc.drop) with
      | error e => simp [h1] at h
      | ok all =>
        simp only [h1] at h
        cases h2 : getClaims claims provider sc.maintain with
        | error e => simp [h2] at h
        | ok mcs =>
          simp only [h2] at h
          cases h3 : accMaintain sc.sector newExp mcs m with
          | error e => simp [h3] at h
          | ok m1 =>
            simp only [h3] at h
            cases h4 : getClaims claims provider sc.drop with
            | error e => simp [h4] at h
            | ok dcs =>
              simp only [h4] at h
              cases h5 : accDrop sc.sector dcs m1 with
              | error e => simp [h5] at h
              | ok m2 =>
                simp only [h5] at h
                obtain ⟨fm, sm⟩ := accMaintain_spec claims provider sc.sector newExp sc.maintain mcs m m1 h2 h3
                obtain ⟨fd, sd⟩ := accDrop_spec claims provider sc.sector sc.drop dcs m1 m2 h4 h5
                obtain ⟨fr, sr⟩ := ih m2 seen1 m' seen' h
                refine ⟨?_, ?_⟩
                · intro x hx
                  cases List.mem_cons.mp hx with
                  | inl e => subst e; exact ⟨fm, fd⟩
                  | inr e => exact fr x e
                · intro k
                  obtain ⟨r1, r2⟩ := sr k
                  obtain ⟨d1, d2⟩ := sd k
                  obtain ⟨a1, a2⟩ := sm k
                  rw [r1, r2, d1, d2, a1, a2]
                  simp only [maintOf, dropOf, sumSizes_append]
                  by_cases hk : sc.sector = k
                  · subst hk
                    simp; omega
                  · have hk' : ¬ k = sc.sector := fun e => hk e.symm
                    simp [hk, hk', sumSizes]

/-- facts established for every declaration of the message -/
def DeclFacts (claims : List (Nat × Claim)) (provider : Nat) (decls : List Decl) : Prop :=
  ∀ d ∈ decls, ScFacts claims provider d.newExpiration d.withClaims

theorem validateDeclsF_spec (rc rs : Bool) (claims : List (Nat × Claim)) (provider : Nat)
    (decls : List Decl) : ∀ (m : SpaceMap) (sc ss : List Nat) (m' : SpaceMap),
    validateDeclsF rc rs claims provider decls m sc ss = .ok m' →
    DeclFacts claims provider decls ∧
    (∀ k, chk m' k = chk m k + sumSizes claims provider (declMaint k decls) + sumSizes claims provider (declDrop k decls) ∧
          mnt m' k = mnt m k + sumSizes claims provider (declMaint k decls)) := by
  induction decls with
  | nil =>
    intro m sc ss m' h
    simp only [validateDeclsF] at h
    injection h with h; subst h
    exact ⟨fun d hd => by simp at hd, fun k => by simp [declMaint, declDrop, sumSizes]⟩
  | cons d rest ih =>
    intro m sc ss m' h
    simp only [validateDeclsF, guard_ok] at h
    obtain ⟨_, h⟩ := h
    cases h1 : accSectorClaims rc claims provider d.newExpiration d.withClaims m sc with
    | error e => simp [h1] at h
    | ok p =>
      obtain ⟨m1, sc1⟩ := p
      simp only [h1] at h
      obtain ⟨f1, s1⟩ := accSectorClaims_spec rc claims provider d.newExpiration d.withClaims m sc m1 sc1 h1
      obtain ⟨f2, s2⟩ := ih m1 sc1 _ m' h
      refine ⟨?_, ?_⟩
      · intro x hx
        cases List.mem_cons.mp hx with
        | inl e => subst e; exact f1
        | inr e => exact f2 x e
      · intro k
        obtain ⟨a1, a2⟩ := s1 k
        obtain ⟨b1, b2⟩ := s2 k
        rw [b1, b2, a1, a2]
        simp only [declMaint, declDrop, sumSizes_append]
        omega

/-- membership in the per-sector id lists comes from some sector claim of that sector -/
theorem mem_maintOf (k id : Nat) (scs : List SectorClaim) (h : id ∈ maintOf k scs) :
    ∃ sc ∈ scs, sc.sector = k ∧ id ∈ sc.maintain := by
  induction scs with
  | nil => simp [maintOf] at h
  | cons sc r ih =>
    simp only [maintOf, List.mem_append] at h
    cases h with
    | inl h =>
      by_cases hk : sc.sector = k
      · simp [hk] at h; exact ⟨sc, by simp, hk, h⟩
      · simp [hk] at h
    | inr h => obtain ⟨x, hx, a, b⟩ := ih h; exact ⟨x, by simp [hx], a, b⟩

theorem mem_dropOf (k id : Nat) (scs : List SectorClaim) (h : id ∈ dropOf k scs) :
    ∃ sc ∈ scs, sc.sector = k ∧ id ∈ sc.drop := by
  induction scs with
  | nil => simp [dropOf] at h
  | cons sc r ih =>
    simp only [dropOf, List.mem_append] at h
    cases h with
    | inl h =>
      by_cases hk : sc.sector = k
      · simp [hk] at h; exact ⟨sc, by simp, hk, h⟩
      · simp [hk] at h
    | inr h => obtain ⟨x, hx, a, b⟩ := ih h; exact ⟨x, by simp [hx], a, b⟩

theorem mem_declMaint (k id : Nat) (decls : List Decl) (h : id ∈ declMaint k decls) :
    ∃ d ∈ decls, ∃ sc ∈ d.withClaims, sc.sector = k ∧ id ∈ sc.maintain := by
  induction decls with
  | nil => simp [declMaint] at h
  | cons d r ih =>
    simp only [declMaint, List.mem_append] at h
    cases h with
    | inl h => obtain ⟨sc, hsc, a, b⟩ := mem_maintOf _ _ _ h; exact ⟨d, by simp, sc, hsc, a, b⟩
    | inr h => obtain ⟨x, hx, rest⟩ := ih h; exact ⟨x, by simp [hx], rest⟩

theorem mem_declDrop (k id : Nat) (decls : List Decl) (h : id ∈ declDrop k decls) :
    ∃ d ∈ decls, ∃ sc ∈ d.withClaims, sc.sector = k ∧ id ∈ sc.drop := by
  induction decls with
  | nil => simp [declDrop] at h
  | cons d r ih =>
    simp only [declDrop, List.mem_append] at h
    cases h with
    | inl h => obtain ⟨sc, hsc, a, b⟩ := mem_dropOf _ _ _ h; exact ⟨d, by simp, sc, hsc, a, b⟩
    | inr h => obtain ⟨x, hx, rest⟩ := ih h; exact ⟨x, by simp [hx], rest⟩

/-! ### distinct ids inside a set, with equal positive totals, cover the set -/

theorem isum_pos_of_mem (f : Nat → Int) (B : List Nat) (hpos : ∀ x ∈ B, 0 < f x) (hne : B ≠ []) :
    0 < isum (B.map f) := by
  induction B with
  | nil => exact absurd rfl hne
  | cons b t ih =>
    simp only [List.map_cons, isum_cons]
    have hb := hpos b (by simp)
    by_cases ht : t = []
    · subst ht; simp; exact hb
    · have := ih (fun x hx => hpos x (by simp [hx])) ht
      omega

theorem isum_erase (f : Nat → Int) (d : Nat) (B : List Nat) (h : d ∈ B) :
    isum (B.map f) = f d + isum ((B.erase d).map f) := by
  induction B with
  | nil => simp at h
  | cons b t ih =>
    by_cases hb : b = d
    · subst hb; simp
    · have hd : d ∈ t := by
        cases List.mem_cons.mp h with
        | inl e => exact absurd e.symm hb
        | inr e => exact e
      have hne : (b == d) = false := by simpa using hb
      rw [List.erase_cons, hne]
      simp only [Bool.false_eq_true, if_false, List.map_cons, isum_cons]
      rw [ih hd]; omega

theorem cover_of_sum_eq (f : Nat → Int) (D : List Nat) : ∀ (B : List Nat), D.Nodup →
    (∀ x ∈ D, x ∈ B) → (∀ x ∈ B, 0 < f x) → B.Nodup → isum (D.map f) = isum (B.map f) →
    ∀ x ∈ B, x ∈ D := by
  induction D with
  | nil =>
    intro B _ _ hpos _ hsum x hx
    exfalso
    have : 0 < isum (B.map f) := isum_pos_of_mem f B hpos (by intro e; subst e; simp at hx)
    simp at hsum; omega
  | cons d D' ih =>
    intro B hnd hsub hpos hb hsum x hx
    have hdB : d ∈ B := hsub d (by simp)
    obtain ⟨hdn, hnd'⟩ := List.nodup_cons.mp hnd
    have hsum' : isum (D'.map f) = isum ((B.erase d).map f) := by
      rw [isum_erase f d B hdB] at hsum
      simp only [List.map_cons, isum_cons] at hsum
      omega
    have hsub' : ∀ y ∈ D', y ∈ B.erase d := by
      intro y hy
      have hyd : y ≠ d := fun e => hdn (e ▸ hy)
      exact (List.mem_erase_of_ne hyd).mpr (hsub y (by simp [hy]))
    have hpos' : ∀ y ∈ B.erase d, 0 < f y := fun y hy => hpos y (List.mem_of_mem_erase hy)
    have key := ih (B.erase d) hnd' hsub' hpos' (hb.erase d) hsum'
    by_cases hxd : x = d
    · subst hxd; simp
    · have : x ∈ B.erase d := (List.mem_erase_of_ne hxd).mpr hx
      exact List.mem_cons_of_mem _ (key x this)

end BA.SectorExt
