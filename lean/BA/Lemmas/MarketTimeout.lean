/- In a state satisfying the invariants the time-out of a pending, never-activated proposal cannot
   hit an internal error. -/
import BA.Lemmas.MarketShape

namespace BA.Market
open BA

theorem badd_succeeds {m : Table} {k : Nat} {v : Int} (h : 0 ≤ bal m k + v) :
    ∃ m', badd m k v = .ok m' := by
  unfold badd
  have : ¬ bal m k + v < 0 := by omega
  simp [this]

theorem bmustSub_succeeds {m : Table} {k : Nat} {v : Int} (h : v ≤ bal m k) :
    ∃ m', bmustSub m k v = .ok m' := by
  unfold bmustSub
  have : ¬ v > bal m k := by omega
  simp only [this, if_false]
  exact badd_succeeds (by omega)

theorem unlockBalance_succeeds {s : State} {a : Nat} {amt : Int} (r : Reason) (h0 : 0 ≤ amt)
    (h1 : amt ≤ bal s.locked a) : ∃ s', unlockBalance s a amt r = .ok s' := by
  unfold unlockBalance
  have : ¬ amt < 0 := by omega
  simp only [this, if_false]
  obtain ⟨l, hl⟩ := bmustSub_succeeds h1
  rw [hl]
  cases r <;> exact ⟨_, rfl⟩

theorem slashBalance_succeeds {s : State} {a : Nat} {amt : Int} (r : Reason) (h0 : 0 ≤ amt)
    (h1 : amt ≤ bal s.escrow a) (h2 : amt ≤ bal s.locked a) :
    ∃ s', slashBalance s a amt r = .ok s' := by
  unfold slashBalance
  have : ¬ amt < 0 := by omega
  simp only [this, if_false]
  obtain ⟨e, he⟩ := bmustSub_succeeds h1
  rw [he]
  exact unlockBalance_succeeds r h0 h2

theorem asum_nonneg' {α : Type} (f : Nat → α → Int) (l : List (Nat × α))
    (h : ∀ k v, alookup k l = some v → 0 ≤ f k v) (hnd : ND l) : 0 ≤ asum f l := by
  induction l with
  | nil => exact Int.le_refl _
  | cons hd t ih =>
    obtain ⟨k, v⟩ := hd
    simp only [asum]
    have h1 : 0 ≤ f k v := h k v (by simp [alookup])
    have h2 : 0 ≤ asum f t := by
      apply ih _ hnd.2
      intro k' v' hk'
      apply h k' v'
      have : k ≠ k' := by
        intro e; subst e; rw [hnd.1] at hk'; simp at hk'
      simp [alookup, this, hk']
    omega

theorem asum_ge_term {α : Type} (f : Nat → α → Int) {l : List (Nat × α)} (hnd : ND l)
    (hnn : ∀ k v, alookup k l = some v → 0 ≤ f k v) {k : Nat} {v : α} (h : alookup k l = some v) :
    f k v ≤ asum f l := by
  induction l with
  | nil => simp [alookup] at h
  | cons hd t ih =>
    obtain ⟨k', v'⟩ := hd
    obtain ⟨hn, hnd'⟩ := hnd
    simp only [asum]
    have hnn' : ∀ k2 v2, alookup k2 t = some v2 → 0 ≤ f k2 v2 := by
      intro k2 v2 h2
      apply hnn k2 v2
      have : k' ≠ k2 := by intro e; subst e; rw [hn] at h2; simp at h2
      simp [alookup, this, h2]
    have htail : 0 ≤ asum f t := asum_nonneg' f t hnn' hnd'
    by_cases hk : k' = k
    · subst hk
      simp [alookup] at h; subst h
      omega
    · simp [alookup, hk] at h
      have := ih hnd' hnn' h
      have := hnn k' v' (by simp [alookup])
      omega

theorem oblH_nonneg {s : State} (hi : Inv s) (p : Nat) (k : Nat) (d : Proposal)
    (hk : alookup k s.proposals = some d) : 0 ≤ oblH p d (alookup k s.states) := by
  have g := hi.wf.good k d hk
  have hrem : 0 ≤ remFee d (alookup k s.states) := by
    unfold remFee
    apply Int.mul_nonneg g.price
    cases ho : alookup k s.states with
    | none => simp only [luTo]; have := g.dur; omega
    | some st =>
      have hl := wf_lu hi hk ho
      simp only [luTo]
      have := g.dur
      rcases hl with h | ⟨_, _, h3⟩
      · rw [h]; have := g.start0; omega
      · omega
  have := g.cc; have := g.pc
  simp only [oblH, ind]
  split <;> split <;> omega

/-- **The time-out of a pending, never-activated proposal always goes through** in a state that
    satisfies the invariants (every reachable state does): none of the unlock / slash steps can
    fail, so the internal-error branch of the code is not reachable here. -/
theorem timeout_succeeds {s : State} (hi : Inv s) {id : Nat} {d : Proposal}
    (hp : alookup id s.proposals = some d) (hst : alookup id s.states = none)
    (hpend : d ∈ s.pending) : ∃ s', timeoutDeal s id d = .ok s' := by
  have g := hi.wf.good id d hp
  have hfee : 0 ≤ d.fee := by
    unfold Proposal.fee; apply Int.mul_nonneg g.price; have := g.dur; omega
  have hob : ∀ p, ind p d.client (d.clientColl + d.fee) + ind p d.provider d.providerColl
      ≤ bal s.locked p := by
    intro p
    rw [hi.acct.locked p]
    have := asum_ge_term (fun id d => oblH p d (alookup id s.states)) hi.wf.nd
      (fun k v hk => oblH_nonneg hi p k v hk) hp
    simp only [hst, oblH, remFee_none] at this
    exact this
  have hcc := g.cc
  have hpc := g.pc
  have hc := hob d.client
  have hpv := hob d.provider
  have hle := hi.acct.le d.provider
  simp only [ind, if_true] at hc hpv
  unfold timeoutDeal
  simp only [Int.sub_self]
  obtain ⟨s1, h1⟩ := unlockBalance_succeeds (s := s) (a := d.client) .clientFee hfee (by
    split at hc <;> omega)
  rw [h1]; simp only
  obtain ⟨c1, _, _, e1, l1, _⟩ := unlockBalance_ok h1
  obtain ⟨s2, h2⟩ := unlockBalance_succeeds (s := s1) (a := d.client) .clientColl hcc (by
    rw [l1]; simp only [if_true]; split at hc <;> omega)
  rw [h2]; simp only
  obtain ⟨c2, _, _, e2, l2, _⟩ := unlockBalance_ok h2
  obtain ⟨s3, h3⟩ := slashBalance_succeeds (s := s2) (a := d.provider) .providerColl hpc
    (by rw [e2, e1]; split at hpv <;> omega)
    (by rw [l2, l1]; split at hpv <;> split <;> omega)
  rw [h3]; simp only
  obtain ⟨c3, _, _, _, l3, _⟩ := slashBalance_ok h3
  obtain ⟨s4, h4⟩ := unlockBalance_succeeds (s := s3) (a := d.provider) .providerColl (Int.le_refl 0)
    (by rw [l3, l2, l1]; simp only [if_true]; split at hpv <;> split <;> omega)
  rw [h4]; simp only
  obtain ⟨c4, _⟩ := unlockBalance_ok h4
  have : d ∈ s4.pending := by rw [c4.pending, c3.pending, c2.pending, c1.pending]; exact hpend
  simp [this]

end BA.Market
