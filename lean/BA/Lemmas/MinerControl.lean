/-
  Helper lemmas for C13: what each successful call of the miner-control model does to the record,
  and list/run plumbing for statements over histories.
-/
import BA.Model.MinerControl

namespace BA.MinerControl
open BA

/-! ### plumbing -/

theorem run_append (s : State) (a b : List Op) : run s (a ++ b) = run (run s a) b := by
  induction a generalizing s with
  | nil => rfl
  | cons op rest ih => simp [run, ih]

theorem run_snoc (s : State) (a : List Op) (op : Op) :
    run s (a ++ [op]) = (step (run s a) op).1 := by
  rw [run_append]; rfl

/-- induction from the right end of a list -/
theorem list_snoc_induction {α : Type} {P : List α → Prop} (hnil : P [])
    (hsnoc : ∀ l a, P l → P (l ++ [a])) : ∀ l, P l := by
  have h : ∀ l : List α, P l.reverse := by
    intro l
    induction l with
    | nil => simpa using hnil
    | cons a t ih => rw [List.reverse_cons]; exact hsnoc _ _ ih
  intro l
  have := h l.reverse
  rwa [List.reverse_reverse] at this

/-! ### per-call specifications -/

/-- A successful `change_owner_address` is either a (re-)proposal / revocation by the owner, or the
    confirmation by the pending owner naming itself. -/
theorem changeOwner_ok {s s' : State} {caller newAddr : Nat} {isId : Bool}
    (h : changeOwner s caller newAddr isId = .ok s') :
    isId = true ∧
    ((caller = s.owner ∧
        s' = { s with pendingOwner := if newAddr = s.owner then none else some newAddr }) ∨
     (caller ≠ s.owner ∧ s.pendingOwner = some caller ∧ newAddr = caller ∧
        s' = { s with owner := caller
                      beneficiary := if s.beneficiary = s.owner then caller else s.beneficiary
                      pendingBen := none
                      pendingOwner := none })) := by
  unfold changeOwner at h
  cases hid : isId with
  | false => simp [hid] at h
  | true =>
    simp only [hid, Bool.not_true, Bool.false_eq_true, if_false] at h
    refine ⟨rfl, ?_⟩
    by_cases hc : caller = s.owner
    · left
      simp only [hc, true_or, if_true, ne_eq, not_true_eq_false, if_false] at h
      injection h with h
      refine ⟨hc, ?_⟩
      subst h
      by_cases hn : newAddr = s.owner <;> simp [clearNoop, hn]
    · cases hp : s.pendingOwner with
      | none => simp [hc, hp] at h
      | some p =>
        right
        simp only [hc, hp, false_or] at h
        simp at h
        by_cases hcp : caller = p
        · by_cases hnp : newAddr = p
          · simp [hcp, hnp] at h
            subst h
            subst hcp
            refine ⟨hc, rfl, hnp, ?_⟩
            simp [clearNoop]
          · simp [hcp, hnp] at h
        · simp [hcp] at h

/-- A successful `change_worker_address`: the caller is the owner; the control addresses are
    replaced; a key change is recorded only if none is pending and the worker differs. -/
theorem changeWorker_ok {s s' : State} {caller newWorker : Nat} {newControls : List Nat}
    {epoch : Int} {workerOk controlsOk : Bool}
    (h : changeWorker s caller newWorker newControls epoch workerOk controlsOk = .ok s') :
    newControls.length ≤ maxControlAddresses ∧ workerOk = true ∧ controlsOk = true ∧
    caller = s.owner ∧
    s' = { s with
      controls := newControls
      pendingWorker :=
        if newWorker ≠ s.worker ∧ s.pendingWorker = none
        then some { newWorker := newWorker, effectiveAt := epoch + workerKeyChangeDelay }
        else s.pendingWorker } := by
  unfold changeWorker at h
  simp only [guard_ok] at h
  obtain ⟨h1, h2, h3, h4, h⟩ := h
  simp at h2 h3 h4
  refine ⟨Nat.le_of_not_gt h1, h2, h3, h4, ?_⟩
  by_cases hc : newWorker ≠ s.worker ∧ s.pendingWorker = none
  · rw [if_pos hc] at h
    injection h with h
    subst h
    simp [hc]
  · rw [if_neg hc] at h
    injection h with h
    subst h
    simp [hc]

/-- `process_pending_worker` either does nothing or installs the pending key at or after its
    effective epoch. -/
theorem processPendingWorker_spec (s : State) (epoch : Int) :
    processPendingWorker s epoch = s ∨
    ∃ k, s.pendingWorker = some k ∧ k.effectiveAt ≤ epoch ∧
      processPendingWorker s epoch = { s with worker := k.newWorker, pendingWorker := none } := by
  unfold processPendingWorker
  cases hp : s.pendingWorker with
  | none => left; rfl
  | some k =>
    by_cases he : epoch < k.effectiveAt
    · left; simp [he]
    · right
      exact ⟨k, rfl, by omega, by simp [he]⟩

theorem confirmChangeWorker_ok {s s' : State} {caller : Nat} {epoch : Int}
    (h : confirmChangeWorker s caller epoch = .ok s') :
    caller = s.owner ∧ s' = processPendingWorker s epoch := by
  unfold confirmChangeWorker at h
  simp only [guard_ok] at h
  obtain ⟨h1, h⟩ := h
  simp at h1
  injection h with h
  exact ⟨h1, h.symm⟩

/-- the record after the approval bookkeeping of `change_beneficiary`, for a pending proposal `p`
    naming `new` -/
theorem benFinish_spec (s : State) (caller new : Nat) (p : PendingBen)
    (hp : s.pendingBen = some p) :
    let ab := p.approvedByBeneficiary || decide (caller = s.beneficiary)
    let an := p.approvedByNominee || decide (caller = new)
    benFinish s caller new =
      if ab = true ∧ an = true then
        { s with
          benTerm := {
            quota := p.newQuota
            usedQuota := if new ≠ s.beneficiary then 0 else s.benTerm.usedQuota
            expiration := p.newExpiration }
          beneficiary := new
          pendingBen := none }
      else
        { s with pendingBen := some { p with approvedByBeneficiary := ab, approvedByNominee := an } } := by
  obtain ⟨nb, nq, ne, ab, an⟩ := p
  unfold benFinish
  simp only [hp]
  by_cases h1 : caller = s.beneficiary
  · by_cases h2 : caller = new
    · have h12 : s.beneficiary = new := h1 ▸ h2
      cases ab <;> cases an <;> simp [h1, h12]
    · have h12 : ¬ s.beneficiary = new := fun e => h2 (h1.trans e)
      cases ab <;> cases an <;> simp [h1, h12]
  · by_cases h2 : caller = new
    · subst h2
      cases ab <;> cases an <;> simp [h1]
    · cases ab <;> cases an <;> simp [h1, h2]

/-- A successful `change_beneficiary`: either a proposal by the owner (any earlier proposal is
    overwritten; the beneficiary's approval is pre-set iff the current term has nothing available)
    or an approval by the current beneficiary / the nominee of the identical proposal; in both
    cases followed by the approval bookkeeping `benFinish`. -/
theorem changeBeneficiary_ok {s s' : State} {caller new : Nat} {quota expiration epoch : Int}
    {resolves : Bool}
    (h : changeBeneficiary s caller new quota expiration epoch resolves = .ok s') :
    resolves = true ∧
    ((caller = s.owner ∧
      (if new = s.owner then quota = 0 ∧ expiration = 0 else 0 < quota) ∧
      s' = benFinish { s with pendingBen := some {
              newBeneficiary := new, newQuota := quota, newExpiration := expiration
              approvedByBeneficiary := decide (s.benTerm.available epoch = 0)
              approvedByNominee := false } } caller new) ∨
     (caller ≠ s.owner ∧ ∃ p, s.pendingBen = some p ∧
        (caller = s.beneficiary ∨ caller = p.newBeneficiary) ∧
        p.newBeneficiary = new ∧ p.newQuota = quota ∧ p.newExpiration = expiration ∧
        s' = benFinish s caller new)) := by
  unfold changeBeneficiary at h
  cases hr : resolves with
  | false => simp [hr] at h
  | true =>
    simp only [hr, Bool.not_true, Bool.false_eq_true, if_false] at h
    refine ⟨rfl, ?_⟩
    by_cases hc : caller = s.owner
    · left
      simp only [hc, if_true, guard_ok] at h
      obtain ⟨h1, h2, h3, h⟩ := h
      injection h with h
      refine ⟨hc, ?_, ?_⟩
      · by_cases hn : new = s.owner
        · simp [hn] at h2 h3 ⊢; exact ⟨h2, h3⟩
        · simp [hn] at h1 ⊢; exact h1
      · rw [← h, hc]
    · right
      simp only [hc, if_false] at h
      cases hp : s.pendingBen with
      | none => simp [hp] at h
      | some p =>
        simp only [hp, guard_ok] at h
        obtain ⟨h1, h2, h3, h4, h⟩ := h
        injection h with h
        refine ⟨hc, p, rfl, ?_, ?_, ?_, ?_, h.symm⟩
        · by_cases hb : caller = s.beneficiary
          · exact Or.inl hb
          · by_cases hn : caller = p.newBeneficiary
            · exact Or.inr hn
            · exact absurd ⟨hb, hn⟩ h1
        · simpa using h2
        · simpa using h3
        · simpa using h4

/-- A successful withdrawal touches nothing but `usedQuota`, which only grows, by at most what the
    term has available. -/
theorem withdrawUse_ok {s s' : State} {caller : Nat} {amount epoch w : Int} {restOk : Bool}
    (h : withdrawUse s caller amount epoch restOk = .ok (s', w)) :
    (caller = s.owner ∨ caller = s.beneficiary) ∧ 0 ≤ amount ∧ restOk = true ∧
    ((s.beneficiary = s.owner ∧ s' = s ∧ w = amount) ∨
     (s.beneficiary ≠ s.owner ∧ 0 < s.benTerm.available epoch ∧
      0 ≤ w ∧ w ≤ amount ∧ w ≤ s.benTerm.available epoch ∧
      s' = { s with benTerm := { s.benTerm with usedQuota := s.benTerm.usedQuota + w } })) := by
  unfold withdrawUse at h
  simp only [guard_ok] at h
  obtain ⟨h1, h2, h⟩ := h
  have hcall : caller = s.owner ∨ caller = s.beneficiary := by
    by_cases a : caller = s.owner
    · exact Or.inl a
    · by_cases b : caller = s.beneficiary
      · exact Or.inr b
      · exact absurd ⟨a, b⟩ h1
  have hav : 0 ≤ s.benTerm.available epoch := by
    unfold Term.available; split <;> (try split) <;> omega
  by_cases hb : s.beneficiary ≠ s.owner
  · rw [if_pos hb] at h
    simp only [guard_ok] at h
    obtain ⟨h3, h4, h⟩ := h
    simp at h4
    refine ⟨hcall, by omega, h4, Or.inr ⟨hb, by omega, ?_⟩⟩
    by_cases hw : (if amount ≤ s.benTerm.available epoch then amount else s.benTerm.available epoch) > 0
    · simp only [hw, if_true] at h
      injection h with h
      injection h with ha hb'
      subst hb'
      refine ⟨by omega, ?_, ?_, ha.symm⟩ <;> split <;> omega
    · simp only [hw, if_false] at h
      injection h with h
      injection h with ha hb'
      subst hb'
      have hz : (if amount ≤ s.benTerm.available epoch then amount else s.benTerm.available epoch) = 0 := by
        split <;> split at hw <;> omega
      refine ⟨by omega, ?_, ?_, ?_⟩
      · split <;> omega
      · split <;> omega
      · rw [hz, ← ha]; simp
  · rw [if_neg hb] at h
    simp only [guard_ok] at h
    obtain ⟨h4, h⟩ := h
    simp at h4 hb
    injection h with h
    injection h with ha hb'
    exact ⟨hcall, by omega, h4, Or.inl ⟨hb, ha.symm, hb'.symm⟩⟩

/-! ### everything a single message can do to the record -/

/-- the owner's proposal record for `change_beneficiary` -/
def proposal (s : State) (new : Nat) (quota expiration epoch : Int) : PendingBen :=
  { newBeneficiary := new, newQuota := quota, newExpiration := expiration
    approvedByBeneficiary := decide (s.benTerm.available epoch = 0)
    approvedByNominee := false }

/-- `Effect s op s'`: the exhaustive list of ways a message `op` can take the record from `s`
    to `s'`. -/
inductive Effect (s : State) : Op → State → Prop
  /-- the message failed, or succeeded without touching the record -/
  | noChange (op : Op) : Effect s op s
  /-- the owner proposes `newAddr` (its own address revokes) -/
  | proposeOwner (newAddr : Nat) :
      Effect s (.changeOwner s.owner newAddr true)
        { s with pendingOwner := if newAddr = s.owner then none else some newAddr }
  /-- the pending owner confirms by naming itself -/
  | confirmOwner (p : Nat) (hp : s.pendingOwner = some p) (hne : p ≠ s.owner) :
      Effect s (.changeOwner p p true)
        { s with owner := p
                 beneficiary := if s.beneficiary = s.owner then p else s.beneficiary
                 pendingBen := none
                 pendingOwner := none }
  /-- the owner replaces the control addresses and possibly requests a worker key change -/
  | changeWorker (nw : Nat) (nc : List Nat) (e : Int) (hlen : nc.length ≤ maxControlAddresses) :
      Effect s (.changeWorker s.owner nw nc e true true)
        { s with
          controls := nc
          pendingWorker :=
            if nw ≠ s.worker ∧ s.pendingWorker = none
            then some { newWorker := nw, effectiveAt := e + workerKeyChangeDelay }
            else s.pendingWorker }
  /-- the pending worker key is installed at or after its effective epoch, by the owner's
      confirmation or by the cron callback -/
  | applyWorker (op : Op) (e : Int) (k : PendingWorker)
      (hop : op = .confirmChangeWorker s.owner e ∨ op = .cronTick e)
      (hk : s.pendingWorker = some k) (he : k.effectiveAt ≤ e) :
      Effect s op { s with worker := k.newWorker, pendingWorker := none }
  /-- the owner (re-)proposes a beneficiary change -/
  | proposeBen (new : Nat) (q x e : Int)
      (hq : if new = s.owner then q = 0 ∧ x = 0 else 0 < q) :
      Effect s (.changeBeneficiary s.owner new q x e true)
        (benFinish { s with pendingBen := some (proposal s new q x e) } s.owner new)
  /-- the current beneficiary or the nominee (not being the owner) approves the pending proposal -/
  | approveBen (c : Nat) (p : PendingBen) (e : Int) (hp : s.pendingBen = some p)
      (hc : c ≠ s.owner) (hc2 : c = s.beneficiary ∨ c = p.newBeneficiary) :
      Effect s (.changeBeneficiary c p.newBeneficiary p.newQuota p.newExpiration e true)
        (benFinish s c p.newBeneficiary)
  /-- a withdrawal by owner or beneficiary uses up quota of a non-owner beneficiary -/
  | withdraw (c : Nat) (a e w : Int) (hc : c = s.owner ∨ c = s.beneficiary)
      (hb : s.beneficiary ≠ s.owner) (hav : 0 < s.benTerm.available e)
      (hw : 0 ≤ w ∧ w ≤ a ∧ w ≤ s.benTerm.available e) :
      Effect s (.withdrawUse c a e true)
        { s with benTerm := { s.benTerm with usedQuota := s.benTerm.usedQuota + w } }

theorem step_effect (s : State) (op : Op) : Effect s op (step s op).1 := by
  cases op with
  | changeOwner caller newAddr isId =>
    simp only [step]
    cases h : changeOwner s caller newAddr isId with
    | error e => exact .noChange _
    | ok s' =>
      obtain ⟨hid, h1 | h1⟩ := changeOwner_ok h
      · obtain ⟨hc, hs⟩ := h1
        subst hid; subst hc; subst hs
        exact .proposeOwner newAddr
      · obtain ⟨hc, hp, hn, hs⟩ := h1
        subst hid; subst hn; subst hs
        exact .confirmOwner _ hp hc
  | changeWorker caller nw nc e wOk cOk =>
    simp only [step]
    cases h : changeWorker s caller nw nc e wOk cOk with
    | error e => exact .noChange _
    | ok s' =>
      obtain ⟨h1, h2, h3, h4, hs⟩ := changeWorker_ok h
      subst h2; subst h3; subst h4; subst hs
      exact .changeWorker nw nc e h1
  | confirmChangeWorker caller e =>
    simp only [step]
    cases h : confirmChangeWorker s caller e with
    | error e => exact .noChange _
    | ok s' =>
      obtain ⟨hc, hs⟩ := confirmChangeWorker_ok h
      subst hc; subst hs
      rcases processPendingWorker_spec s e with h0 | ⟨k, hk, he, h1⟩
      · rw [h0]; exact .noChange _
      · rw [h1]; exact .applyWorker _ e k (Or.inl rfl) hk he
  | changeBeneficiary caller new q x e r =>
    simp only [step]
    cases h : changeBeneficiary s caller new q x e r with
    | error e => exact .noChange _
    | ok s' =>
      obtain ⟨hr, h1 | h1⟩ := changeBeneficiary_ok h
      · obtain ⟨hc, hq, hs⟩ := h1
        subst hr; subst hc; subst hs
        exact .proposeBen new q x e hq
      · obtain ⟨hc, p, hp, hc2, hn, hq, hx, hs⟩ := h1
        subst hr; subst hn; subst hq; subst hx; subst hs
        exact .approveBen caller p e hp hc hc2
  | withdrawUse caller a e r =>
    simp only [step]
    cases h : withdrawUse s caller a e r with
    | error e => exact .noChange _
    | ok sw =>
      obtain ⟨s', w⟩ := sw
      obtain ⟨hc, ha, hr, h1 | h1⟩ := withdrawUse_ok h
      · obtain ⟨_, hs, _⟩ := h1
        subst hs; exact .noChange _
      · obtain ⟨hb, hav, hw0, hwa, hwv, hs⟩ := h1
        subst hr; subst hs
        exact .withdraw caller a e w hc hb hav ⟨hw0, hwa, hwv⟩
  | cronTick e =>
    simp only [step]
    rcases processPendingWorker_spec s e with h0 | ⟨k, hk, he, h1⟩
    · rw [h0]; exact .noChange _
    · rw [h1]; exact .applyWorker _ e k (Or.inr rfl) hk he

/-! ### ghost history: "this pending item was created by such-and-such an earlier message" -/

/-- `Since s0 ops isReq Q`: the history `ops` (started in `s0`) contains a message `x`, sent in a
    state `b` with `isReq b x`, such that `Q b t` holds for the state `t` right after `x` and for
    every later state of the history, up to and including the last one. -/
def Since (s0 : State) (ops : List Op) (isReq : State → Op → Prop) (Q : State → State → Prop) :
    Prop :=
  ∃ pre x post, ops = pre ++ x :: post ∧ isReq (run s0 pre) x ∧
    ∀ post1, post1 <+: post → Q (run s0 pre) (run s0 (pre ++ x :: post1))

/-- If a state predicate `P` can only be established by a request message (which then also
    establishes `Q`), and while `P` persists `Q` persists, then whenever `P` holds at the end of a
    history that did not start in `P`, the request is in the history and `Q` held ever since. -/
theorem since_of_steps {s0 : State} {P : State → Prop} {isReq : State → Op → Prop}
    {Q : State → State → Prop}
    (hstep : ∀ s op, P (step s op).1 →
      (P s ∧ ∀ b, Q b s → Q b (step s op).1) ∨ (isReq s op ∧ Q s (step s op).1))
    (h0 : ¬ P s0) : ∀ ops, P (run s0 ops) → Since s0 ops isReq Q := by
  intro ops
  induction ops using list_snoc_induction with
  | hnil => intro h; exact absurd h h0
  | hsnoc ops op ih =>
    intro h
    rw [run_snoc] at h
    rcases hstep _ _ h with ⟨hp, hq⟩ | ⟨hr, hq⟩
    · obtain ⟨pre, x, post, hops, hreq, hall⟩ := ih hp
      refine ⟨pre, x, post ++ [op], by rw [hops]; simp, hreq, ?_⟩
      intro post1 hpre
      rcases List.prefix_concat_iff.mp hpre with heq | hpre'
      · subst heq
        have e : pre ++ x :: (post ++ [op]) = ops ++ [op] := by rw [hops]; simp
        rw [e, run_snoc]
        apply hq
        have := hall post List.prefix_rfl
        rwa [← hops] at this
      · exact hall post1 hpre'
    · refine ⟨ops, op, [], rfl, hr, ?_⟩
      intro post1 hpre
      rw [List.prefix_nil.mp hpre, run_snoc]
      exact hq

@[simp] theorem benFinish_owner (s : State) (c n : Nat) : (benFinish s c n).owner = s.owner := by
  cases hp : s.pendingBen with
  | none => simp [benFinish, hp]
  | some p => rw [benFinish_spec _ _ _ p hp]; split <;> rfl
@[simp] theorem benFinish_pendingOwner (s : State) (c n : Nat) :
    (benFinish s c n).pendingOwner = s.pendingOwner := by
  cases hp : s.pendingBen with
  | none => simp [benFinish, hp]
  | some p => rw [benFinish_spec _ _ _ p hp]; split <;> rfl
@[simp] theorem benFinish_worker (s : State) (c n : Nat) : (benFinish s c n).worker = s.worker := by
  cases hp : s.pendingBen with
  | none => simp [benFinish, hp]
  | some p => rw [benFinish_spec _ _ _ p hp]; split <;> rfl
@[simp] theorem benFinish_pendingWorker (s : State) (c n : Nat) :
    (benFinish s c n).pendingWorker = s.pendingWorker := by
  cases hp : s.pendingBen with
  | none => simp [benFinish, hp]
  | some p => rw [benFinish_spec _ _ _ p hp]; split <;> rfl
@[simp] theorem benFinish_controls (s : State) (c n : Nat) :
    (benFinish s c n).controls = s.controls := by
  cases hp : s.pendingBen with
  | none => simp [benFinish, hp]
  | some p => rw [benFinish_spec _ _ _ p hp]; split <;> rfl

end BA.MinerControl
