/-
  Helper lemmas for C20: specifications of the init-actor primitives (`mapAddresses`,
  `createActor`, `runCtor`, `exec`, `exec4`, auto-creating sends) as frame conditions.
-/
import BA.Model.Eam

namespace BA.Init
open BA

/-! ### klookup -/

@[simp] theorem klookup_nil (k : Bytes) : klookup k [] = none := rfl

theorem klookup_cons (k k' : Bytes) (v : Nat) (m : List (Bytes × Nat)) :
    klookup k ((k', v) :: m) = if k' = k then some v else klookup k m := rfl

@[simp] theorem klookup_cons_self (k : Bytes) (v : Nat) (m : List (Bytes × Nat)) :
    klookup k ((k, v) :: m) = some v := by simp [klookup]

theorem klookup_cons_ne (k k' : Bytes) (v : Nat) (m : List (Bytes × Nat)) (h : k' ≠ k) :
    klookup k ((k', v) :: m) = klookup k m := by simp [klookup, h]

/-- inserting an absent key keeps every existing binding -/
theorem klookup_cons_absent {k : Bytes} {m : List (Bytes × Nat)} (habs : klookup k m = none)
    (v : Nat) (k2 : Bytes) (v2 : Nat) (h : klookup k2 m = some v2) :
    klookup k2 ((k, v) :: m) = some v2 := by
  by_cases e : k = k2
  · subst e; rw [habs] at h; cases h
  · rw [klookup_cons_ne _ _ _ _ e]; exact h

theorem isSome_false_iff {α : Type} (o : Option α) : ¬ (o.isSome = true) ↔ o = none := by
  cases o <;> simp

/-! ### the relations the steps preserve -/

/-- the address map only grows: every binding of `m` is a binding of `m'` -/
def MapGrows (m m' : List (Bytes × Nat)) : Prop :=
  ∀ k v, klookup k m = some v → klookup k m' = some v

theorem MapGrows.refl (m : List (Bytes × Nat)) : MapGrows m m := fun _ _ h => h
theorem MapGrows.trans {a b c : List (Bytes × Nat)} (h1 : MapGrows a b) (h2 : MapGrows b c) :
    MapGrows a c := fun k v h => h2 k v (h1 k v h)

/-- every mapped id has been allocated -/
def MapBelow (w : World) : Prop := ∀ k v, klookup k w.addrMap = some v → v < w.nextId

/-! ### map_addresses_to_id -/

theorem mapAddresses_spec (w : World) (robust : Bytes) (deleg : Option Bytes)
    (w1 : World) (id : Nat) (existing : Bool)
    (h : mapAddresses w robust deleg = .ok (w1, id, existing)) :
    w1.actors = w.actors ∧
    klookup robust w.addrMap = none ∧ klookup robust w1.addrMap = some id ∧
    MapGrows w.addrMap w1.addrMap ∧
    (∀ k v, klookup k w1.addrMap = some v →
        klookup k w.addrMap = some v ∨ (v = id ∧ (k = robust ∨ deleg = some k))) ∧
    (∀ d, deleg = some d → klookup d w1.addrMap = some id) ∧
    (existing = false → id = w.nextId ∧ w1.nextId = w.nextId + 1 ∧
        ∀ d, deleg = some d → klookup d w.addrMap = none) ∧
    (existing = true → w1.nextId = w.nextId ∧ ∃ d, deleg = some d ∧ klookup d w.addrMap = some id) := by
  unfold mapAddresses at h
  cases deleg with
  | none =>
    simp only at h
    by_cases hr : (klookup robust w.addrMap).isSome = true
    · simp [hr] at h
    · simp only [hr] at h
      have hr' := (isSome_false_iff _).mp hr
      injection h with h; injection h with h1 h2; injection h2 with h2 h3
      subst h1; subst h2; subst h3
      refine ⟨rfl, hr', by simp, ?_, ?_, ?_, ?_, ?_⟩
      · intro k v hk; exact klookup_cons_absent hr' _ _ _ hk
      · intro k v hk
        by_cases e : robust = k
        · subst e; simp at hk; exact Or.inr ⟨hk.symm, Or.inl rfl⟩
        · rw [klookup_cons_ne _ _ _ _ e] at hk; exact Or.inl hk
      · intro d hd; cases hd
      · intro _; exact ⟨rfl, rfl, fun d hd => by cases hd⟩
      · intro hc; cases hc
  | some d =>
    simp only at h
    cases hd : klookup d w.addrMap with
    | some e =>
      simp only [hd] at h
      by_cases hr : (klookup robust w.addrMap).isSome = true
      · simp [hr] at h
      · simp only [hr] at h
        have hr' := (isSome_false_iff _).mp hr
        injection h with h; injection h with h1 h2; injection h2 with h2 h3
        subst h1; subst h2; subst h3
        refine ⟨rfl, hr', by simp, ?_, ?_, ?_, ?_, ?_⟩
        · intro k v hk; exact klookup_cons_absent hr' _ _ _ hk
        · intro k v hk
          by_cases e2 : robust = k
          · subst e2; simp at hk; exact Or.inr ⟨hk.symm, Or.inl rfl⟩
          · rw [klookup_cons_ne _ _ _ _ e2] at hk; exact Or.inl hk
        · intro d' hd'; cases hd'
          exact klookup_cons_absent hr' _ _ _ hd
        · intro hc; cases hc
        · intro _; exact ⟨rfl, d, rfl, hd⟩
    | none =>
      simp only [hd] at h
      by_cases hr : (klookup robust ((d, w.nextId) :: w.addrMap)).isSome = true
      · simp [hr] at h
      · simp only [hr] at h
        have hr' := (isSome_false_iff _).mp hr
        have hne : d ≠ robust := by
          intro e; subst e; simp at hr'
        have hr0 : klookup robust w.addrMap = none := by
          rw [klookup_cons_ne _ _ _ _ hne] at hr'; exact hr'
        injection h with h; injection h with h1 h2; injection h2 with h2 h3
        subst h1; subst h2; subst h3
        refine ⟨rfl, hr0, by simp, ?_, ?_, ?_, ?_, ?_⟩
        · intro k v hk
          exact klookup_cons_absent hr' _ _ _ (klookup_cons_absent hd _ _ _ hk)
        · intro k v hk
          by_cases e2 : robust = k
          · subst e2; simp at hk; exact Or.inr ⟨hk.symm, Or.inl rfl⟩
          · rw [klookup_cons_ne _ _ _ _ e2] at hk
            by_cases e3 : d = k
            · subst e3; simp at hk; exact Or.inr ⟨hk.symm, Or.inr rfl⟩
            · rw [klookup_cons_ne _ _ _ _ e3] at hk; exact Or.inl hk
        · intro d' hd'; cases hd'
          exact klookup_cons_absent hr' _ _ _ (by simp)
        · intro _; exact ⟨rfl, rfl, fun d' hd' => by cases hd'; exact hd⟩
        · intro hc; cases hc

/-! ### create_actor, constructor -/

theorem createActor_spec (w : World) (code : Kind) (id : Nat) (deleg : Option (Nat × Bytes))
    (w2 : World) (h : createActor w code id deleg = .ok w2) :
    w2.addrMap = w.addrMap ∧ w2.nextId = w.nextId ∧ code.creatable = true ∧
    (∀ j, j ≠ id → alookup j w2.actors = alookup j w.actors) ∧
    ((alookup id w.actors = none ∧ alookup id w2.actors = some { kind := code, deleg := deleg }) ∨
     (∃ a, alookup id w.actors = some a ∧ a.kind = .placeholder ∧
        alookup id w2.actors = some { a with kind := code })) := by
  unfold createActor at h
  by_cases hc : code.creatable = true
  · simp only [hc, Bool.not_true] at h
    cases ha : alookup id w.actors with
    | none =>
      simp only [ha] at h
      injection h with h; subst h
      exact ⟨rfl, rfl, hc, fun j hj => alookup_aset_other _ _ _ _ hj, Or.inl ⟨rfl, by simp⟩⟩
    | some a =>
      simp only [ha] at h
      by_cases hp : a.kind = .placeholder
      · simp only [hp, if_true] at h
        injection h with h; subst h
        exact ⟨rfl, rfl, hc, fun j hj => alookup_aset_other _ _ _ _ hj,
          Or.inr ⟨a, rfl, hp, by simp⟩⟩
      · simp [hp] at h
  · simp [hc] at h

theorem runCtor_spec (w : World) (msg id : Nat) (c : Ctor) (w3 : World)
    (h : runCtor w msg id c = .ok w3) :
    c ≠ .fail ∧ w3.addrMap = w.addrMap ∧ w3.nextId = w.nextId ∧
    (∀ j, j ≠ id → alookup j w3.actors = alookup j w.actors) ∧
    ∃ a a', alookup id w.actors = some a ∧ alookup id w3.actors = some a' ∧
      a'.kind = a.kind ∧ a'.deleg = a.deleg ∧ a'.keyAddr = a.keyAddr ∧ a'.inc = a.inc ∧
      (a.kind = .evm → a'.nonce = 1) ∧ (a.kind ≠ .evm → a' = a) := by
  unfold runCtor at h
  cases c with
  | fail => simp at h
  | ok =>
    simp only at h
    cases ha : alookup id w.actors with
    | none => simp [ha] at h
    | some a =>
      simp only [ha] at h
      by_cases hk : a.kind = .evm
      · rw [if_pos hk] at h
        injection h with h; subst h
        refine ⟨by simp, rfl, rfl, fun j hj => alookup_aset_other _ _ _ _ hj, a, _, rfl,
          alookup_aset_same _ _ _, rfl, rfl, rfl, rfl, fun _ => rfl, fun hc => absurd hk hc⟩
      · rw [if_neg hk] at h
        injection h with h; subst h
        exact ⟨by simp, rfl, rfl, fun _ _ => rfl, a, a, rfl, ha, rfl, rfl, rfl, rfl,
          fun hc => absurd hc hk, fun _ => rfl⟩
  | selfdestruct =>
    simp only at h
    cases ha : alookup id w.actors with
    | none => simp [ha] at h
    | some a =>
      simp only [ha] at h
      by_cases hk : a.kind = .evm
      · rw [if_pos hk] at h
        injection h with h; subst h
        refine ⟨by simp, rfl, rfl, fun j hj => alookup_aset_other _ _ _ _ hj, a, _, rfl,
          alookup_aset_same _ _ _, rfl, rfl, rfl, rfl, fun _ => rfl, fun hc => absurd hk hc⟩
      · rw [if_neg hk] at h
        injection h with h; subst h
        exact ⟨by simp, rfl, rfl, fun _ _ => rfl, a, a, rfl, ha, rfl, rfl, rfl, rfl,
          fun hc => absurd hc hk, fun _ => rfl⟩

end BA.Init
