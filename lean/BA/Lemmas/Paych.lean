/- Helper lemmas for the payment-channel model. -/
import BA.Model.Paych

namespace BA.Paych
open BA

def redeemedOf (ls : Lanes) (l : Nat) : Int :=
  match alookup l ls with
  | some x => x.redeemed
  | none => 0

/-- the declarative acceptance condition of the pre-transaction checks -/
def PrecheckOk (s : State) (caller : Nat) (epoch : Int) (v : Voucher) : Prop :=
  (caller = s.from_ ∨ caller = s.to) ∧ v.hasSig = true ∧
  ¬ (s.settlingAt ≠ 0 ∧ epoch ≥ s.settlingAt) ∧ v.secretTooLong = false ∧ v.sigOk = true ∧
  v.chanOk = true ∧ v.tlMin ≤ epoch ∧ (v.tlMax = 0 ∨ epoch ≤ v.tlMax) ∧ 0 ≤ v.amount ∧
  v.secretOk = true ∧ v.extra ≠ .fail

theorem precheck_ok_iff (s : State) (caller : Nat) (epoch : Int) (v : Voucher) :
    precheck s caller epoch v = .ok () ↔ PrecheckOk s caller epoch v := by
  unfold precheck PrecheckOk
  simp only [guard_ok]
  simp
  constructor
  · rintro ⟨h1, h2, h3, h4, h5, h6, h7, h8, h9, h10, h11⟩
    refine ⟨?_, h2, ?_, h4, h5, h6, h7, ?_, h9, h10, h11⟩
    · by_cases hc : caller = s.from_
      · exact Or.inl hc
      · exact Or.inr (h1 hc)
    · intro a; exact h3 a
    · by_cases ht : v.tlMax = 0
      · exact Or.inl ht
      · exact Or.inr (h8 ht)
  · rintro ⟨h1, h2, h3, h4, h5, h6, h7, h8, h9, h10, h11⟩
    refine ⟨?_, h2, ?_, h4, h5, h6, h7, ?_, h9, h10, h11⟩
    · intro hc; cases h1 with | inl h => exact absurd h hc | inr h => exact h
    · intro a; exact h3 a
    · intro ht; cases h8 with | inl h => exact absurd h ht | inr h => exact h

/-- a lane is "carried over" from `ls` to `ls'`: absent stays absent, present keeps its redeemed
    amount and its nonce does not decrease -/
def Carried (ls ls' : Lanes) : Prop :=
  ∀ l, match alookup l ls with
    | none => alookup l ls' = none
    | some x => ∃ y, alookup l ls' = some y ∧ y.redeemed = x.redeemed ∧ x.nonce ≤ y.nonce

theorem Carried.refl (ls : Lanes) : Carried ls ls := by
  intro l; cases h : alookup l ls with
  | none => simp
  | some x => exact ⟨x, rfl, rfl, Nat.le_refl _⟩

theorem Carried.trans {a b c : Lanes} (h1 : Carried a b) (h2 : Carried b c) : Carried a c := by
  intro l
  have e1 := h1 l; have e2 := h2 l
  cases ha : alookup l a with
  | none => simp [ha] at e1; simp [e1] at e2; simpa using e2
  | some x =>
    simp [ha] at e1
    obtain ⟨y, hy, hr, hn⟩ := e1
    simp [hy] at e2
    obtain ⟨z, hz, hr2, hn2⟩ := e2
    exact ⟨z, hz, by rw [hr2, hr], Nat.le_trans hn hn2⟩

theorem redeemedOf_carried {ls ls' : Lanes} (h : Carried ls ls') (l : Nat) :
    redeemedOf ls' l = redeemedOf ls l := by
  have e := h l
  unfold redeemedOf
  cases ha : alookup l ls with
  | none => simp [ha] at e; simp [e]
  | some x => simp [ha] at e; obtain ⟨y, hy, hr, _⟩ := e; simp [hy, hr]

/-- bumping the nonce of a present lane carries all lanes -/
theorem carried_aset_bump (ls : Lanes) (ml mn : Nat) (o : Lane) (ho : alookup ml ls = some o)
    (hn : o.nonce ≤ mn) : Carried ls (aset ml { o with nonce := mn } ls) := by
  intro l
  by_cases hl : l = ml
  · subst hl; simp [ho]; exact hn
  · rw [alookup_aset_other _ _ _ _ hl]
    cases h : alookup l ls with
    | none => simp
    | some x => exact ⟨x, rfl, rfl, Nat.le_refl _⟩

/-- What a successful merge loop guarantees. -/
theorem mergeLoop_spec (lane : Nat) (ms : List (Nat × Nat)) :
    ∀ (ls : Lanes) (acc : Int) (ls' : Lanes) (r : Int),
    mergeLoop lane ms ls acc = .ok (ls', r) →
      r = acc + isum (ms.map (fun m => redeemedOf ls m.1)) ∧
      Carried ls ls' ∧
      alookup lane ls' = alookup lane ls ∧
      ∀ m ∈ ms, m.1 ≠ lane ∧ m.1 ≤ maxLane ∧
        ∃ x y, alookup m.1 ls = some x ∧ x.nonce < m.2 ∧ alookup m.1 ls' = some y ∧ m.2 ≤ y.nonce := by
  induction ms with
  | nil =>
    intro ls acc ls' r h
    simp [mergeLoop] at h
    obtain ⟨rfl, rfl⟩ := h
    exact ⟨by simp, Carried.refl _, rfl, by simp⟩
  | cons hd tl ih =>
    intro ls acc ls' r h
    obtain ⟨ml, mn⟩ := hd
    unfold mergeLoop at h
    by_cases h1 : ml = lane
    · simp [h1] at h
    · simp only [h1, if_false] at h
      unfold findLane at h
      by_cases h2 : ml > maxLane
      · simp [h2] at h
      · simp only [h2, if_false] at h
        cases ho : alookup ml ls with
        | none => simp [ho] at h
        | some o =>
          simp only [ho] at h
          by_cases h3 : o.nonce ≥ mn
          · simp [h3] at h
          · simp only [h3, if_false] at h
            have hlt : o.nonce < mn := Nat.lt_of_not_ge h3
            have hc := carried_aset_bump ls ml mn o ho (Nat.le_of_lt hlt)
            obtain ⟨e1, e2, e3, e4⟩ := ih _ _ _ _ h
            refine ⟨?_, Carried.trans hc e2, ?_, ?_⟩
            · rw [e1]
              have : (tl.map fun m => redeemedOf (aset ml { o with nonce := mn } ls) m.1)
                   = (tl.map fun m => redeemedOf ls m.1) := by
                apply List.map_congr_left; intro m _; exact redeemedOf_carried hc m.1
              rw [this]
              simp [redeemedOf, ho]; omega
            · rw [e3]; exact alookup_aset_other _ _ _ _ (fun e => h1 e.symm)
            · intro m hm
              cases hm with
              | head =>
                refine ⟨h1, Nat.le_of_not_gt h2, o, ?_⟩
                have hb := e2 ml
                simp at hb
                obtain ⟨y, hy, _, hyn⟩ := hb
                exact ⟨y, ho, hlt, hy, hyn⟩
              | tail _ hm' =>
                obtain ⟨a1, a2, x, y, hx, hxn, hy, hyn⟩ := e4 m hm'
                have hb := hc m.1
                cases hls : alookup m.1 ls with
                | none => simp [hls] at hb; simp [hb] at hx
                | some x0 =>
                  simp [hls] at hb
                  obtain ⟨y0, hy0, _, hle⟩ := hb
                  rw [hy0] at hx
                  cases hx
                  exact ⟨a1, a2, x0, y, rfl, Nat.lt_of_le_of_lt hle hxn, hy, hyn⟩

/-- A merge entry that is not newer than the lane's nonce makes the loop fail. -/
theorem mergeLoop_rejects_stale (lane : Nat) (ms : List (Nat × Nat)) (ls : Lanes) (acc : Int)
    (m : Nat × Nat) (hm : m ∈ ms) (x : Lane) (hx : alookup m.1 ls = some x) (hs : m.2 ≤ x.nonce) :
    ∀ ls' r, mergeLoop lane ms ls acc ≠ .ok (ls', r) := by
  intro ls' r h
  obtain ⟨_, _, _, e4⟩ := mergeLoop_spec lane ms ls acc ls' r h
  obtain ⟨_, _, x', _, hx', hlt, _, _⟩ := e4 m hm
  rw [hx] at hx'; cases hx'
  omega

end BA.Paych
