/- How each atomic transition of the market model changes the deal registry (proposals, states,
   pending set, next id): used for the lifecycle theorems of C08. -/
import BA.Lemmas.MarketPres

namespace BA.Market
open BA

/-- the registry after one atomic transition: untouched, one deal state written (for a deal that
    exists), or one deal removed; the pending set loses at most one proposal -/
structure Shape (s s' : State) : Prop where
  nextId : s'.nextId = s.nextId
  epoch : s'.epoch = s.epoch
  reg : (s'.proposals = s.proposals ∧ s'.states = s.states) ∨
        (∃ id st, s'.proposals = s.proposals ∧ (alookup id s.states).isSome = true ∧
          s'.states = aset id st s.states) ∨
        (∃ id, s'.proposals = aerase id s.proposals ∧ s'.states = aerase id s.states)
  pend : s'.pending = s.pending ∨ ∃ d, s'.pending = pendingRemove s.pending d

theorem Shape.refl (s : State) : Shape s s := ⟨rfl, rfl, Or.inl ⟨rfl, rfl⟩, Or.inl rfl⟩

theorem pdu_pending {s s1 : State} {st : DealState} {d : Proposal}
    (h : s1.pending = if st.lastUpdated ≠ -1 then s.pending else pendingRemove s.pending d) :
    s1.pending = s.pending ∨ ∃ d, s1.pending = pendingRemove s.pending d := by
  by_cases hh : st.lastUpdated ≠ -1
  · left; simpa [hh] using h
  · right; exact ⟨d, by simpa [hh] using h⟩

theorem settleOne_shape (s : State) (id : Nat) : Shape s (settleOne s id).1 := by
  unfold settleOne
  cases hp : alookup id s.proposals with
  | none => exact Shape.refl s
  | some d =>
    simp only
    cases hst : alookup id s.states with
    | none =>
      simp only
      by_cases he : s.epoch < d.startE
      · simp only [he, if_true]; exact Shape.refl s
      · simp only [he, if_false]
        cases ht : timeoutDeal s id d with
        | error e => exact Shape.refl s
        | ok s' =>
          obtain ⟨_, _, _, _, r, hpend, _, _⟩ := timeoutDeal_ok ht
          exact ⟨r.nextId, r.epoch, Or.inr (Or.inr ⟨id, r.proposals, r.states⟩), Or.inr ⟨d, hpend⟩⟩
    | some st =>
      simp only
      cases hu : processDealUpdate s id d st with
      | error e => exact Shape.refl s
      | ok r =>
        obtain ⟨s1, pay, completed⟩ := r
        obtain ⟨_, reg, hpend, _, _, _, _, _⟩ := processDealUpdate_ok hu
        cases completed with
        | true =>
          exact ⟨reg.nextId, reg.epoch, Or.inr (Or.inr ⟨id, by show aerase id s1.proposals = _; rw [reg.proposals],
            by show aerase id s1.states = _; rw [reg.states]⟩), pdu_pending hpend⟩
        | false =>
          exact ⟨reg.nextId, reg.epoch, Or.inr (Or.inl ⟨id, _, reg.proposals, by simp [hst],
            by show aset id _ s1.states = _; rw [reg.states]⟩), pdu_pending hpend⟩

theorem terminateOne_shape {s s' : State} {c : Nat} {se : Int} {id : Nat} {a : Int}
    (h : terminateOne s c se id = .ok (s', a)) : Shape s s' := by
  rcases terminateOne_ok h with ⟨_, he, _⟩ | ⟨_, _, _, _, he, _⟩ |
    ⟨d, st, _, _, _, _, _, _, _, _, r, hpend, _, _⟩
  · rw [he]; exact Shape.refl s
  · rw [he]; exact Shape.refl s
  · refine ⟨r.nextId, r.epoch, Or.inr (Or.inr ⟨id, r.proposals, r.states⟩), ?_⟩
    by_cases hh : st.lastUpdated = -1
    · right; exact ⟨d, by simpa [hh] using hpend⟩
    · left; simpa [hh] using hpend

theorem cronOne_shape {s s' : State} {id : Nat} {a : Int} (h : cronOne s id = .ok (s', a)) :
    Shape s s' := by
  unfold cronOne at h
  cases hp : alookup id s.proposals with
  | none => simp [hp] at h; rw [← h.1]; exact Shape.refl s
  | some d =>
    simp only [hp] at h
    cases hst : alookup id s.states with
    | none =>
      simp only [hst] at h
      by_cases he : s.epoch < d.startE
      · simp [he] at h
      · simp only [he, if_false] at h
        cases ht : timeoutDeal s id d with
        | error e => simp [ht] at h
        | ok s2 =>
          simp only [ht] at h
          injection h with h; injection h with h1 _; subst h1
          obtain ⟨_, _, _, _, r, hpend, _, _⟩ := timeoutDeal_ok ht
          exact ⟨r.nextId, r.epoch, Or.inr (Or.inr ⟨id, r.proposals, r.states⟩), Or.inr ⟨d, hpend⟩⟩
    | some st =>
      simp only [hst] at h
      by_cases hlu : st.lastUpdated = -1
      · simp only [hlu, if_true] at h
        by_cases hpd : d ∉ s.pending
        · simp [hpd] at h
        · simp only [hpd, if_false] at h
          injection h with h; injection h with h1 _; subst h1
          exact ⟨rfl, rfl, Or.inl ⟨rfl, rfl⟩, Or.inr ⟨d, rfl⟩⟩
      · simp only [hlu, if_false] at h
        cases hu : processDealUpdate s id d st with
        | error e => simp [hu] at h
        | ok r =>
          obtain ⟨s1, pay, completed⟩ := r
          simp only [hu] at h
          obtain ⟨_, reg, hpend, _, _, _, _, _⟩ := processDealUpdate_ok hu
          cases completed with
          | true =>
            simp only [if_true] at h
            injection h with h; injection h with h1 _; subst h1
            exact ⟨reg.nextId, reg.epoch, Or.inr (Or.inr ⟨id, by show aerase id s1.proposals = _; rw [reg.proposals],
              by show aerase id s1.states = _; rw [reg.states]⟩), pdu_pending hpend⟩
          | false =>
            simp only [Bool.false_eq_true, if_false] at h
            injection h with h; injection h with h1 _; subst h1
            exact ⟨reg.nextId, reg.epoch, Or.inr (Or.inl ⟨id, _, reg.proposals, by simp [hst],
              by show aset id _ s1.states = _; rw [reg.states]⟩), pdu_pending hpend⟩

/-- a registry predicate that is stable under the three shapes, under publication of a new id,
    under activation and under un-mapping is preserved by every atomic transition -/
theorem preserved_of_shape (P : State → Prop)
    (hframe : ∀ s s', s'.proposals = s.proposals → s'.states = s.states → s'.pending = s.pending →
      s.nextId = s'.nextId → P s → P s')
    (hshape : ∀ s s', Shape s s' → P s → P s')
    (hpub : ∀ s d s' id, P s → publishOne s d = .ok (s', id) → P s')
    (hact : ∀ s caller exp sector id, P s → canActivate s caller exp id = true →
      P (activateOne s sector id))
    (hunmap : ∀ s caller sectors, P s → P (unmapSectors s caller sectors)) : Preserved P where
  advance := fun s e h _ => hframe s _ rfl rfl rfl rfl h
  addBalance := by
    intro s a v r s' h he
    unfold addBalance at he
    simp only [guard_ok] at he
    obtain ⟨_, _, he⟩ := he
    cases hb : badd s.escrow a v with
    | error e => simp [hb] at he
    | ok esc => simp only [hb] at he; injection he with he; subst he; exact hframe s _ rfl rfl rfl rfl h
  withdraw := by
    intro s c n a env so s' w h he
    unfold withdraw at he
    simp only [guard_ok] at he
    obtain ⟨_, _, _, he⟩ := he
    split at he
    · simp at he
    · simp only [guard_ok] at he
      obtain ⟨_, he⟩ := he
      injection he with he; injection he with h1 _; subst h1
      exact hframe s _ rfl rfl rfl rfl h
  publishOne := fun s d s' id h _ he => hpub s d s' id h he
  activateOne := hact
  settleOne := fun s id h => hshape s _ (settleOne_shape s id) h
  unmap := hunmap
  terminateOne := fun s c id s' a h he => hshape s s' (terminateOne_shape he) h
  dealOpsSub := fun s l h _ => hframe s _ rfl rfl rfl rfl h
  cronOne := fun s id s' a h he => hshape s s' (cronOne_shape he) h
  cronDone := fun s e h => hframe s _ rfl rfl rfl rfl h

/-! ### publication and un-mapping, as seen by the registry -/

theorem publishOne_reg {s s' : State} {d : Proposal} {id : Nat} (h : publishOne s d = .ok (s', id)) :
    id = s.nextId ∧ s'.nextId = s.nextId + 1 ∧ s'.proposals = aset id d s.proposals ∧
    s'.states = s.states ∧ s'.pending = pendingPut s.pending d ∧ s'.epoch = s.epoch := by
  unfold publishOne at h
  cases hl : lockBoth s d with
  | error e => simp [hl] at h
  | ok s1 =>
    simp only [hl] at h
    injection h with h; injection h with h1 h2
    subst h1; subst h2
    have c := (lockBoth_ok hl).1
    exact ⟨c.nextId, by show s1.nextId + 1 = _; rw [c.nextId],
      by show aset s1.nextId d s1.proposals = _; rw [c.proposals], c.states,
      by show pendingPut s1.pending d = _; rw [c.pending], c.epoch⟩

theorem unmap_lookup (s : State) (caller : Nat) (sectors : List Nat) (k : Nat) :
    (alookup k (unmapSectors s caller sectors).states).isSome = (alookup k s.states).isSome := by
  unfold unmapSectors
  simp only
  rw [alookup_map_keep _ (by intro p; split <;> rfl)]
  cases alookup k s.states <;> rfl

/-- deal `id` has been activated, or is gone for good -/
def Done (id : Nat) (t : State) : Prop :=
  id < t.nextId ∧ (alookup id t.proposals = none ∨ (alookup id t.states).isSome = true)

theorem done_preserved (id : Nat) : Preserved (Done id) := by
  apply preserved_of_shape
  · intro s s' h1 h2 _ h4 ⟨a, b⟩
    exact ⟨by rw [← h4]; exact a, by rw [h1, h2]; exact b⟩
  · intro s s' sh ⟨a, b⟩
    refine ⟨by rw [sh.nextId]; exact a, ?_⟩
    rcases sh.reg with ⟨h1, h2⟩ | ⟨id', st, h1, _, h3⟩ | ⟨id', h1, h2⟩
    · rw [h1, h2]; exact b
    · rw [h1, h3]
      rcases b with b | b
      · exact Or.inl b
      · right
        by_cases hk : id = id'
        · subst hk; simp
        · rw [alookup_aset_other _ _ _ _ hk]; exact b
    · rw [h1, h2]
      by_cases hk : id = id'
      · subst hk; left; exact alookup_aerase_same _ _
      · rw [alookup_aerase_other _ _ _ hk, alookup_aerase_other _ _ _ hk]; exact b
  · intro s d s' nid ⟨a, b⟩ he
    obtain ⟨e1, e2, e3, e4, _, _⟩ := publishOne_reg he
    have hk : id ≠ nid := by omega
    refine ⟨by omega, ?_⟩
    rw [e3, e4, alookup_aset_other _ _ _ _ hk]; exact b
  · intro s caller exp sector id' ⟨a, b⟩ _
    refine ⟨a, ?_⟩
    simp only [activateOne]
    rcases b with b | b
    · exact Or.inl b
    · right
      by_cases hk : id = id'
      · subst hk; simp
      · rw [alookup_aset_other _ _ _ _ hk]; exact b
  · intro s caller sectors ⟨a, b⟩
    exact ⟨a, by rw [unmap_lookup]; exact b⟩

/-- deal id `id` has been used and its proposal removed -/
def Gone (id : Nat) (t : State) : Prop := id < t.nextId ∧ alookup id t.proposals = none

theorem gone_preserved (id : Nat) : Preserved (Gone id) := by
  apply preserved_of_shape
  · intro s s' h1 _ _ h4 ⟨a, b⟩
    exact ⟨by rw [← h4]; exact a, by rw [h1]; exact b⟩
  · intro s s' sh ⟨a, b⟩
    refine ⟨by rw [sh.nextId]; exact a, ?_⟩
    rcases sh.reg with ⟨h1, _⟩ | ⟨_, _, h1, _, _⟩ | ⟨id', h1, _⟩
    · rw [h1]; exact b
    · rw [h1]; exact b
    · rw [h1]
      by_cases hk : id = id'
      · subst hk; exact alookup_aerase_same _ _
      · rw [alookup_aerase_other _ _ _ hk]; exact b
  · intro s d s' nid ⟨a, b⟩ he
    obtain ⟨e1, e2, e3, _, _, _⟩ := publishOne_reg he
    have hk : id ≠ nid := by omega
    exact ⟨by omega, by rw [e3, alookup_aset_other _ _ _ _ hk]; exact b⟩
  · intro s caller exp sector id' ⟨a, b⟩ _; exact ⟨a, b⟩
  · intro s caller sectors ⟨a, b⟩; exact ⟨a, b⟩

theorem nextId_preserved (n : Nat) : Preserved (fun t => n ≤ t.nextId) := by
  apply preserved_of_shape
  · intro s s' _ _ _ h4 a; show n ≤ s'.nextId; rw [← h4]; exact a
  · intro s s' sh a; show n ≤ s'.nextId; rw [sh.nextId]; exact a
  · intro s d s' nid a he
    obtain ⟨_, e2, _⟩ := publishOne_reg he
    show n ≤ s'.nextId; rw [e2]; exact Nat.le_succ_of_le a
  · intro s caller exp sector id' a _; exact a
  · intro s caller sectors a; exact a

theorem pendingRemove_nodup {p : List Proposal} (h : p.Nodup) (d : Proposal) :
    (pendingRemove p d).Nodup := by
  unfold pendingRemove
  exact List.Pairwise.sublist List.filter_sublist h

theorem pendingPut_nodup {p : List Proposal} (h : p.Nodup) (d : Proposal) : (pendingPut p d).Nodup := by
  unfold pendingPut
  split
  · exact h
  · rename_i hn
    unfold List.Nodup at h ⊢
    rw [List.pairwise_append]
    refine ⟨h, by simp, ?_⟩
    intro a ha b hb
    simp at hb; subst hb
    intro e; subst e; exact hn ha

theorem pendingNodup_preserved : Preserved (fun t => t.pending.Nodup) := by
  apply preserved_of_shape
  · intro s s' _ _ h3 _ a; show s'.pending.Nodup; rw [h3]; exact a
  · intro s s' sh a
    show s'.pending.Nodup
    rcases sh.pend with h | ⟨d, h⟩
    · rw [h]; exact a
    · rw [h]; exact pendingRemove_nodup a d
  · intro s d s' nid a he
    obtain ⟨_, _, _, _, e5, _⟩ := publishOne_reg he
    show s'.pending.Nodup; rw [e5]; exact pendingPut_nodup a d
  · intro s caller exp sector id' a _; exact a
  · intro s caller sectors a; exact a

end BA.Market
