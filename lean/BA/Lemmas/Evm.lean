/- Helper lemmas for the EVM word model (C17). -/
import BA.Model.Evm.Word

namespace BA.Evm

theorem toNat_ne_zero_of_ne {x : W} (h : x ≠ 0#256) : x.toNat ≠ 0 :=
  fun h' => h (BitVec.eq_of_toNat_eq (by simpa using h'))

theorem toNat_ofN (n : Nat) : (ofN n).toNat = n % 2 ^ 256 := by
  simp [ofN]

theorem toNat_ofN_of_lt {n : Nat} (h : n < 2 ^ 256) : (ofN n).toNat = n := by
  rw [toNat_ofN, Nat.mod_eq_of_lt h]

theorem toNat_ofI_of_nonneg {i : Int} (h0 : 0 ≤ i) (h : i < 2 ^ 256) : (ofI i).toNat = i.toNat := by
  simp only [ofI, BitVec.toNat_ofNat]
  omega

theorem toNat_ofI_of_neg {i : Int} (h0 : i < 0) (h : -(2 ^ 256) ≤ i) : (ofI i).toNat = (i + 2 ^ 256).toNat := by
  simp only [ofI, BitVec.toNat_ofNat]
  omega

theorem isNeg_iff (x : W) : isNeg x = decide (2 ^ 255 ≤ x.toNat) := by
  simp [isNeg, BitVec.msb_eq_decide]

theorem i256Neg_toNat (x : W) :
    (i256Neg x).toNat = if x.toNat = 0 then 0 else 2 ^ 256 - x.toNat := by
  have hx := x.isLt
  unfold i256Neg
  by_cases h : x = 0#256
  · subst h; simp
  · have h' := toNat_ne_zero_of_ne h
    simp only [h, if_false, h', BitVec.toNat_add, BitVec.toNat_not, BitVec.toNat_ofNat]
    omega

/-- the magnitude, as `i256_div` / `i256_mod` / `sar` strip the sign -/
def absW (x : W) : W := if isNeg x then i256Neg x else x

theorem absW_toNat (x : W) : (absW x).toNat = (sInt x).natAbs := by
  have hx := x.isLt
  unfold absW sInt
  rw [isNeg_iff]
  by_cases h : 2 ^ 255 ≤ x.toNat
  · simp only [h, decide_true, if_true, i256Neg_toNat]
    have : ¬ x.toNat < 2 ^ 255 := by omega
    have hne : x.toNat ≠ 0 := by omega
    simp only [this, if_false, hne]
    have e : (x.toNat : Int) - 2 ^ 256 = -((2 ^ 256 - x.toNat : Nat) : Int) := by omega
    rw [e, Int.natAbs_neg, Int.natAbs_natCast]
  · simp only [h, decide_false, Bool.false_eq_true, if_false]
    have : x.toNat < 2 ^ 255 := by omega
    simp only [this, if_true, Int.natAbs_natCast]

theorem sInt_of_neg {x : W} (h : isNeg x = true) : sInt x = -((absW x).toNat : Int) := by
  have hx := x.isLt
  rw [absW_toNat]
  rw [isNeg_iff] at h
  have h' : 2 ^ 255 ≤ x.toNat := by simpa using h
  unfold sInt
  have : ¬ x.toNat < 2 ^ 255 := by omega
  simp only [this, if_false]
  omega

theorem sInt_of_nonneg {x : W} (h : isNeg x = false) : sInt x = ((absW x).toNat : Int) := by
  have hx := x.isLt
  rw [absW_toNat]
  rw [isNeg_iff] at h
  have h' : x.toNat < 2 ^ 255 := by simpa using h
  unfold sInt
  simp only [h', if_true]
  omega

theorem absW_le (x : W) : (absW x).toNat ≤ 2 ^ 255 := by
  have hx := x.isLt
  rw [absW_toNat]; unfold sInt
  by_cases h : x.toNat < 2 ^ 255 <;> simp only [h, if_true, if_false] <;> omega

theorem absW_ne_zero {x : W} (h : x ≠ 0#256) : (absW x).toNat ≠ 0 := by
  have hx := x.isLt
  have h' := toNat_ne_zero_of_ne h
  rw [absW_toNat]; unfold sInt
  by_cases h2 : x.toNat < 2 ^ 255 <;> simp only [h2, if_true, if_false] <;> omega

theorem sInt_eq_zero_iff (x : W) : sInt x = 0 ↔ x = 0#256 := by
  have hx := x.isLt
  unfold sInt
  constructor
  · intro h
    apply BitVec.eq_of_toNat_eq
    by_cases h2 : x.toNat < 2 ^ 255 <;> simp only [h2, if_true, if_false] at h <;> simp <;> omega
  · intro h; subst h; simp

theorem i256Div_eq {a b : W} (ha : a ≠ 0#256) (hb : b ≠ 0#256) :
    i256Div a b = if absW a / absW b = 0#256 ∨ isNeg a = isNeg b then absW a / absW b
                  else i256Neg (absW a / absW b) := by
  unfold i256Div absW
  simp only [ha, hb, or_self, if_false]

theorem i256Mod_eq {a b : W} (ha : a ≠ 0#256) (hb : b ≠ 0#256) :
    i256Mod a b = if isNeg a = true ∧ absW a % absW b ≠ 0#256 then i256Neg (absW a % absW b)
                  else absW a % absW b := by
  unfold i256Mod absW
  simp only [ha, hb, or_self, if_false]

theorem eq_zero_iff_toNat (x : W) : x = 0#256 ↔ x.toNat = 0 := by
  constructor
  · intro h; subst h; rfl
  · intro h; apply BitVec.eq_of_toNat_eq; simpa using h

end BA.Evm
