/- Helper lemmas for the EVM word model (C17). -/
import BA.Model.Evm.Word

namespace BA.Evm

theorem toNat_ne_zero_of_ne {x : W} (h : x ≠ 0#256) : x.toNat ≠ 0 :=
  fun h' => h (BitVec.eq_of_toNat_eq (by simpa using h'))

theorem toNat_ofN (n : Nat) : (ofN n).toNat = n % 2 ^ 256 := by
  simp [ofN]

theorem toNat_ofN_of_lt {n : Nat} (h : n < 2 ^ 256) : (ofN n).toNat = n := by
  rw [toNat_ofN, Nat.mod_eq_of_lt h]

theorem toNat_ofI_of_nonneg {i : Int} (h0 : 0 ≤ i) (h : i < 2 ^ 256) : (ofI i).toNat = i.toNat := by
  simp only [ofI, BitVec.toNat_ofNat]
  omega

theorem toNat_ofI_of_neg {i : Int} (h0 : i < 0) (h : -(2 ^ 256) ≤ i) : (ofI i).toNat = (i + 2 ^ 256).toNat := by
  simp only [ofI, BitVec.toNat_ofNat]
  omega

theorem toNat_ofI_neg_natCast {n : Nat} (h0 : 0 < n) (h : n ≤ 2 ^ 256) :
    (ofI (-(n : Int))).toNat = 2 ^ 256 - n := by
  simp only [ofI, BitVec.toNat_ofNat]
  omega

theorem toNat_ofI_natCast {n : Nat} (h : n < 2 ^ 256) : (ofI (n : Int)).toNat = n := by
  simp only [ofI, BitVec.toNat_ofNat]
  omega

theorem isNeg_iff (x : W) : isNeg x = decide (2 ^ 255 ≤ x.toNat) := by
  simp [isNeg, BitVec.msb_eq_decide]

theorem i256Neg_toNat (x : W) :
    (i256Neg x).toNat = if x.toNat = 0 then 0 else 2 ^ 256 - x.toNat := by
  have hx := x.isLt
  unfold i256Neg
  by_cases h : x = 0#256
  · subst h; simp
  · have h' := toNat_ne_zero_of_ne h
    simp only [h, if_false, h', BitVec.toNat_add, BitVec.toNat_not, BitVec.toNat_ofNat]
    omega

/-- the magnitude, as `i256_div` / `i256_mod` / `sar` strip the sign -/
def absW (x : W) : W := if isNeg x then i256Neg x else x

theorem absW_toNat (x : W) : (absW x).toNat = (sInt x).natAbs := by
  have hx := x.isLt
  unfold absW sInt
  rw [isNeg_iff]
  by_cases h : 2 ^ 255 ≤ x.toNat
  · simp only [h, decide_true, if_true, i256Neg_toNat]
    have : ¬ x.toNat < 2 ^ 255 := by omega
    have hne : x.toNat ≠ 0 := by omega
    simp only [this, if_false, hne]
    have e : (x.toNat : Int) - 2 ^ 256 = -((2 ^ 256 - x.toNat : Nat) : Int) := by omega
    rw [e, Int.natAbs_neg, Int.natAbs_natCast]
  · simp only [h, decide_false, Bool.false_eq_true, if_false]
    have : x.toNat < 2 ^ 255 := by omega
    simp only [this, if_true, Int.natAbs_natCast]

theorem sInt_of_neg {x : W} (h : isNeg x = true) : sInt x = -((absW x).toNat : Int) := by
  have hx := x.isLt
  rw [absW_toNat]
  rw [isNeg_iff] at h
  have h' : 2 ^ 255 ≤ x.toNat := by simpa using h
  unfold sInt
  have : ¬ x.toNat < 2 ^ 255 := by omega
  simp only [this, if_false]
  omega

theorem sInt_of_nonneg {x : W} (h : isNeg x = false) : sInt x = ((absW x).toNat : Int) := by
  have hx := x.isLt
  rw [absW_toNat]
  rw [isNeg_iff] at h
  have h' : x.toNat < 2 ^ 255 := by simpa using h
  unfold sInt
  simp only [h', if_true]
  omega

theorem absW_le (x : W) : (absW x).toNat ≤ 2 ^ 255 := by
  have hx := x.isLt
  rw [absW_toNat]; unfold sInt
  by_cases h : x.toNat < 2 ^ 255 <;> simp only [h, if_true, if_false] <;> omega

theorem absW_ne_zero {x : W} (h : x ≠ 0#256) : (absW x).toNat ≠ 0 := by
  have hx := x.isLt
  have h' := toNat_ne_zero_of_ne h
  rw [absW_toNat]; unfold sInt
  by_cases h2 : x.toNat < 2 ^ 255 <;> simp only [h2, if_true, if_false] <;> omega

theorem sInt_eq_zero_iff (x : W) : sInt x = 0 ↔ x = 0#256 := by
  have hx := x.isLt
  unfold sInt
  constructor
  · intro h
    apply BitVec.eq_of_toNat_eq
    by_cases h2 : x.toNat < 2 ^ 255 <;> simp only [h2, if_true, if_false] at h <;> simp <;> omega
  · intro h; subst h; simp

theorem i256Div_eq {a b : W} (ha : a ≠ 0#256) (hb : b ≠ 0#256) :
    i256Div a b = if absW a / absW b = 0#256 ∨ isNeg a = isNeg b then absW a / absW b
                  else i256Neg (absW a / absW b) := by
  unfold i256Div absW
  simp only [ha, hb, or_self, if_false]

theorem i256Mod_eq {a b : W} (ha : a ≠ 0#256) (hb : b ≠ 0#256) :
    i256Mod a b = if isNeg a = true ∧ absW a % absW b ≠ 0#256 then i256Neg (absW a % absW b)
                  else absW a % absW b := by
  unfold i256Mod absW
  simp only [ha, hb, or_self, if_false]

theorem eq_zero_iff_toNat (x : W) : x = 0#256 ↔ x.toNat = 0 := by
  constructor
  · intro h; subst h; rfl
  · intro h; apply BitVec.eq_of_toNat_eq; simpa using h

/-- floor division of a negative number: ⌊−A / P⌋ = −(⌊(A−1)/P⌋ + 1) for A ≥ 1 -/
theorem neg_ediv_natCast {A P : Nat} (hA : 1 ≤ A) (hP : 1 ≤ P) :
    (-(A : Int)) / (P : Int) = -((((A - 1) / P + 1 : Nat)) : Int) := by
  have hdm := Nat.div_add_mod (A - 1) P
  have hr : (A - 1) % P < P := Nat.mod_lt _ (by omega)
  generalize (A - 1) / P = q at hdm
  generalize (A - 1) % P = r at hdm hr
  have key : (-(A : Int)) / (P : Int) = -((q + 1 : Nat) : Int) ∧
      (-(A : Int)) % (P : Int) = ((P - r - 1 : Nat) : Int) := by
    rw [Int.ediv_emod_unique (by omega)]
    refine ⟨?_, by omega, by omega⟩
    have hA' : (A : Int) = (P : Int) * (q : Int) + (r : Int) + 1 := by
      have h1 : A = P * q + r + 1 := by omega
      have h2 : ((P * q : Nat) : Int) = (P : Int) * (q : Int) := Int.natCast_mul P q
      omega
    have hPr : ((P - r - 1 : Nat) : Int) = (P : Int) - (r : Int) - 1 := by omega
    have hq : ((q + 1 : Nat) : Int) = (q : Int) + 1 := by omega
    rw [hA', hPr, hq, Int.mul_neg, Int.mul_add, Int.mul_one]
    omega
  exact key.1

theorem isNeg_zero : isNeg (0#256) = false := by simp [isNeg]

theorem absW_eq_zero_iff (x : W) : absW x = 0#256 ↔ x = 0#256 := by
  constructor
  · intro h
    by_cases hx : x = 0#256
    · exact hx
    · exact absurd ((eq_zero_iff_toNat _).mp h) (absW_ne_zero hx)
  · intro h; subst h; simp [absW, isNeg_zero]

/-- zeros counted down from bit `n-1` of a value below 2^n: `n` for zero, else `n - 1 - ⌊log₂ x⌋` -/
theorem lzFrom_spec (x : W) : ∀ n, x.toNat < 2 ^ n →
    lzFrom x n = if x.toNat = 0 then n else n - 1 - Nat.log2 x.toNat := by
  intro n
  induction n with
  | zero =>
    intro h
    have : x.toNat = 0 := by omega
    simp [lzFrom, this]
  | succ n ih =>
    intro h
    unfold lzFrom
    have hbit : x.getLsbD n = x.toNat.testBit n := rfl
    rw [hbit]
    cases hb : x.toNat.testBit n
    · -- bit n clear: the value is below 2^n
      have hlt : x.toNat < 2 ^ n := by
        false_or_by_contra
        have hge : 2 ^ n ≤ x.toNat := by omega
        have := Nat.testBit_of_two_pow_le_and_two_pow_add_one_gt hge h
        rw [hb] at this
        exact Bool.noConfusion this
      rw [ih hlt]
      by_cases h0 : x.toNat = 0
      · simp [h0]; omega
      · have hl : Nat.log2 x.toNat < n := (Nat.log2_lt h0).mpr hlt
        simp only [Bool.false_eq_true, if_false, h0]
        omega
    · have hge : 2 ^ n ≤ x.toNat := Nat.ge_two_pow_of_testBit hb
      have h0 : x.toNat ≠ 0 := by
        have : 0 < 2 ^ n := Nat.two_pow_pos n
        omega
      have hl : Nat.log2 x.toNat = n := (Nat.log2_eq_iff h0).mpr ⟨hge, h⟩
      simp only [if_true, h0, if_false, hl]
      omega

theorem leadingZeros_eq (x : W) :
    leadingZeros x = if x.toNat = 0 then 256 else 255 - Nat.log2 x.toNat := by
  unfold leadingZeros
  rw [lzFrom_spec x 256 x.isLt]

theorem mask_getLsbD (t i : Nat) (ht : t < 256) (hi : i < 256) :
    (wMax >>> (256 - t)).getLsbD i = decide (i < t) := by
  simp only [wMax, BitVec.getLsbD_ushiftRight, BitVec.getLsbD_allOnes]
  by_cases h : i < t
  · rw [decide_eq_true h, decide_eq_true (by omega)]
  · rw [decide_eq_false h, decide_eq_false (by omega)]


theorem getLsbD_ofN (n i : Nat) : (ofN n).getLsbD i = (decide (i < 256) && n.testBit i) := by
  simp only [ofN, BitVec.getLsbD_ofNat, Nat.testBit_mod_two_pow]
  cases decide (i < 256) <;> simp


theorem signextend_bits_impl (a b : W) (ha : a.toNat < 32) (i : Nat) (hi : i < 256) :
    (signextendImpl a b).getLsbD i =
      if i < 8 * a.toNat + 7 then b.getLsbD i else b.getLsbD (8 * a.toNat + 7) := by
  unfold signextendImpl
  have hlt : a < 32#256 := by simp [BitVec.lt_def]; exact ha
  have hmod : a.toNat % 2 ^ 32 = a.toNat := Nat.mod_eq_of_lt (by omega)
  simp only [hlt, if_true, hmod]
  have ht : 8 * a.toNat + 7 < 256 := by omega
  generalize 8 * a.toNat + 7 = t at ht
  cases hb : b.getLsbD t
  · simp only [Bool.false_eq_true, if_false, BitVec.getLsbD_and, mask_getLsbD t i ht hi]
    by_cases h : i < t
    · simp [h]
    · simp only [h, decide_false, Bool.and_false, if_false]
  · simp only [if_true, BitVec.getLsbD_or, BitVec.getLsbD_not, mask_getLsbD t i ht hi, hi, decide_true, Bool.true_and]
    by_cases h : i < t <;> simp [h]

/-- spec side, bit by bit -/
theorem signextend_bits_spec (a b : W) (ha : a.toNat < 31) (i : Nat) (hi : i < 256) :
    (signextendSpec a b).getLsbD i =
      if i < 8 * a.toNat + 7 then b.getLsbD i else b.getLsbD (8 * a.toNat + 7) := by
  unfold signextendSpec
  have h31 : ¬ 31 ≤ a.toNat := by omega
  simp only [h31, if_false]
  have hn : 8 * (a.toNat + 1) = (8 * a.toNat + 7) + 1 := by omega
  rw [hn]
  have ht : 8 * a.toNat + 7 < 255 := by omega
  generalize 8 * a.toNat + 7 = t at ht
  simp only [Nat.add_sub_cancel]
  have hx : b.toNat % 2 ^ (t + 1) < 2 ^ (t + 1) := Nat.mod_lt _ (Nat.two_pow_pos _)
  have hbt : b.getLsbD t = (b.toNat % 2 ^ (t + 1)).testBit t := by
    simp [BitVec.getLsbD, Nat.testBit_mod_two_pow]
  have hbi : ∀ j, (b.toNat % 2 ^ (t + 1)).testBit j = (decide (j < t + 1) && b.getLsbD j) := by
    intro j; simp [BitVec.getLsbD, Nat.testBit_mod_two_pow]
  by_cases hlt : b.toNat % 2 ^ (t + 1) < 2 ^ t
  · simp only [hlt, if_true]
    have hbf : b.getLsbD t = false := by rw [hbt]; exact Nat.testBit_lt_two_pow hlt
    rw [getLsbD_ofN, hbi, hbf]
    by_cases h1 : i < t
    · have : i < t + 1 := by omega
      simp [h1, hi, this]
    · by_cases h2 : i = t
      · subst h2; simp [hbf]
      · have : ¬ i < t + 1 := by omega
        simp [h1, this]
  · simp only [hlt, if_false]
    have hge : 2 ^ t ≤ b.toNat % 2 ^ (t + 1) := by omega
    have hbtt : b.getLsbD t = true := by
      rw [hbt]; exact Nat.testBit_of_two_pow_le_and_two_pow_add_one_gt hge hx
    -- the encoded number is 2^(t+1) · (2^(255-t) − 1) + x
    have hPQ : 2 ^ (t + 1) * 2 ^ (255 - t) = 2 ^ 256 := by
      rw [← Nat.pow_add]; congr 1; omega
    have hQ : 1 ≤ 2 ^ (255 - t) := Nat.one_le_two_pow
    have hmul : 2 ^ (t + 1) * (2 ^ (255 - t) - 1) = 2 ^ 256 - 2 ^ (t + 1) := by
      rw [Nat.mul_sub_one, hPQ]
    have hP : 2 ^ (t + 1) ≤ 2 ^ 255 := Nat.pow_le_pow_right (by omega) (by omega)
    have hcast : ((2 : Int) ^ (t + 1)) = ((2 ^ (t + 1) : Nat) : Int) := by
      rw [Int.natCast_pow]; rfl
    have henc : ofI ((b.toNat % 2 ^ (t + 1) : Nat) - 2 ^ (t + 1))
        = ofN (2 ^ (t + 1) * (2 ^ (255 - t) - 1) + b.toNat % 2 ^ (t + 1)) := by
      apply BitVec.eq_of_toNat_eq
      rw [hmul, hcast]
      generalize 2 ^ (t + 1) = P at hx hP hge
      generalize b.toNat % P = x at hx hge
      rw [toNat_ofI_of_neg (by omega) (by omega), toNat_ofN_of_lt (by omega)]
      omega
    rw [henc, getLsbD_ofN, Nat.testBit_two_pow_mul_add _ hx, hbi]
    by_cases h1 : i < t
    · have : i < t + 1 := by omega
      simp [h1, hi, this]
    · by_cases h2 : i = t
      · subst h2; simp [hi]
      · have h3 : ¬ i < t + 1 := by omega
        have h4 : i - (t + 1) < 255 - t := by omega
        simp [h1, h3, hi, hbtt, Nat.testBit_two_pow_sub_one, h4]

/-! ### EXP: square-and-multiply over the limbs -/

theorem wpow_mul (x : W) (a b : Nat) : (x ^ a) ^ b = x ^ (a * b) := by
  induction b with
  | zero => simp [BitVec.pow_zero]
  | succ b ih => rw [BitVec.pow_succ, ih, Nat.mul_succ, BitVec.pow_add]

theorem wpow_sq (x : W) (k : Nat) : (x * x) ^ k = x ^ (2 * k) := by
  have : x * x = x ^ 2 := by
    rw [BitVec.pow_succ, BitVec.pow_succ, BitVec.pow_zero, BitVec.one_mul]
  rw [this, wpow_mul]

theorem toNat_wpow (x : W) (n : Nat) : (x ^ n).toNat = x.toNat ^ n % 2 ^ 256 := by
  induction n with
  | zero => simp [BitVec.pow_zero]
  | succ n ih =>
    have hp : x.toNat ^ (n + 1) = x.toNat ^ n * x.toNat := Nat.pow_succ _ _
    rw [BitVec.pow_succ, BitVec.toNat_mul, ih, hp, Nat.mul_mod (x.toNat ^ n % 2 ^ 256) x.toNat,
      Nat.mod_mod, ← Nat.mul_mod]

theorem expInner_spec : ∀ (n word : Nat) (base v : W),
    expInner n word base v = (base ^ (2 ^ n), v * base ^ (word % 2 ^ n)) := by
  intro n
  induction n with
  | zero =>
    intro word base v
    simp [expInner, Nat.mod_one, BitVec.pow_zero, BitVec.pow_one]
  | succ n ih =>
    intro word base v
    unfold expInner
    simp only []
    rw [ih]
    have h2 : 2 ^ (n + 1) = 2 * 2 ^ n := by rw [Nat.pow_succ, Nat.mul_comm]
    have hw : word % 2 ^ (n + 1) = word % 2 + 2 * (word / 2 % 2 ^ n) := by
      rw [h2]
      have := Nat.mod_mul (x := word) (a := 2) (b := 2 ^ n)
      omega
    rw [wpow_sq, wpow_sq, ← h2, hw, BitVec.pow_add]
    congr 1
    rw [← BitVec.mul_assoc]
    congr 1
    rcases Nat.mod_two_eq_zero_or_one word with h | h
    · simp [h, BitVec.pow_zero]
    · simp [h, BitVec.pow_one]


/-- value of a little-endian list of 64-bit limbs -/
def limbsVal : List Nat → Nat
  | [] => 0
  | w :: r => w + 2 ^ 64 * limbsVal r

theorem expOuter_spec : ∀ (limbs : List Nat) (rem : Nat) (base v : W),
    (∀ w ∈ limbs, w < 2 ^ 64) → limbsVal limbs < 2 ^ rem →
    expOuter limbs rem base v = v * base ^ (limbsVal limbs) := by
  intro limbs
  induction limbs with
  | nil => intro rem base v _ _; simp [expOuter, limbsVal, BitVec.pow_zero]
  | cons w rest ih =>
    intro rem base v hw hP
    unfold expOuter
    simp only [expInner_spec]
    have hw0 : w < 2 ^ 64 := hw w (by simp)
    have hrest : ∀ x ∈ rest, x < 2 ^ 64 := fun x hx => hw x (by simp [hx])
    simp only [limbsVal] at hP ⊢
    by_cases hr : 64 ≤ rem
    · have hmin : min 64 rem = 64 := by omega
      rw [hmin, Nat.mod_eq_of_lt hw0]
      have hP' : limbsVal rest < 2 ^ (rem - 64) := by
        have e : 2 ^ rem = 2 ^ 64 * 2 ^ (rem - 64) := by rw [← Nat.pow_add]; congr 1; omega
        rw [e] at hP
        false_or_by_contra
        have hge : 2 ^ (rem - 64) ≤ limbsVal rest := by omega
        have := Nat.mul_le_mul_left (2 ^ 64) hge
        omega
      rw [ih (rem - 64) _ _ hrest hP', wpow_mul, BitVec.pow_add, BitVec.mul_assoc]
    · have hmin : min 64 rem = rem := by omega
      have hlt : 2 ^ rem < 2 ^ 64 := Nat.pow_lt_pow_right (by omega) (by omega)
      have hz : limbsVal rest = 0 := by
        false_or_by_contra
        have : 1 ≤ limbsVal rest := by omega
        have := Nat.mul_le_mul_left (2 ^ 64) this
        omega
      rw [hmin]
      have hwr : w < 2 ^ rem := by omega
      rw [Nat.mod_eq_of_lt hwr]
      have h0 : limbsVal rest < 2 ^ (rem - 64) := by
        rw [hz]; exact Nat.two_pow_pos _
      rw [ih (rem - 64) _ _ hrest h0, hz]
      simp [BitVec.pow_zero]

theorem toNat_eq_limbs (x : W) :
    x.toNat = limbsVal [limb x 0, limb x 1, limb x 2, limb x 3] := by
  have hx := x.isLt
  simp only [limbsVal, limb, Nat.shiftRight_eq_div_pow]
  omega

theorem powMod_eq (b m : Nat) : ∀ e, powMod b e m = b ^ e % m := by
  intro e
  induction e using Nat.strongRecOn with
  | _ e ih =>
    unfold powMod
    by_cases h0 : e = 0
    · simp [h0]
    · simp only [h0, dite_false]
      have hlt : e / 2 < e := by omega
      rw [ih (e / 2) hlt]
      have hsq : b ^ (e / 2) % m * (b ^ (e / 2) % m) % m = b ^ (2 * (e / 2)) % m := by
        rw [← Nat.mul_mod, ← Nat.pow_add]; congr 2; omega
      rw [hsq]
      by_cases h1 : e % 2 = 1
      · simp only [h1, if_true]
        have he : e = 2 * (e / 2) + 1 := by omega
        rw [Nat.mod_mul_mod]
        conv => rhs; rw [he, Nat.pow_succ]
      · simp only [h1, if_false]
        have he : 2 * (e / 2) = e := by omega
        rw [he]


end BA.Evm
