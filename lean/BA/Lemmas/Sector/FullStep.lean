/-
  The full partition invariant (sets + power memos + complete expiration-queue invariant with the
  per-epoch memos) is preserved by add_sectors, record_faults, declare_faults_recovered,
  recover_faults, activate_unproven, record_missed_post, record_skipped_faults,
  pop_expired_sectors and pop_early_terminations.
-/
import BA.Lemmas.Sector.QFaults
import BA.Lemmas.Sector.Refine

namespace BA.Sector
open BA BA.NatSet

/-- the operations for which the complete invariant is proved -/
def TierB : Op → Prop
  | .popExpiredSectors _ => True
  | op => TierA op

theorem addGroupsNew_qinv {tbl : Table} {F L : NatSet} {qs : QuantSpec} {q q' : Queue}
    {infos : List SectorInfo} (h : QInv tbl F L q) (hf : FreshInfos tbl F L q infos)
    (hg : addGroups qs q (groupNew qs infos) = .ok q') : QInv tbl F L q' := by
  have hp := groupNew_perm qs infos
  have hf' : FreshInfos tbl F L q ((groupNew qs infos).flatMap (·.2)) := by
    refine ⟨?_, fun i hi => hf.tbl i (hp.mem_iff.mp hi), fun i hi => hf.fresh i (hp.mem_iff.mp hi),
      fun i hi => hf.live i (hp.mem_iff.mp hi), fun i hi => hf.healthy i (hp.mem_iff.mp hi)⟩
    have := hp.map (fun i : SectorInfo => i.num)
    exact (this.nodup_iff).mpr hf.nodup
  exact (addGroups_qinv _ q q' h hf' hg).1

theorem queue_addFaults {tbl : Table} {p p' : Partition} {qs : QuantSpec} {sn : NatSet}
    {infos : List SectorInfo} {fe : Int} {delta nf : PowerPair}
    (hq : QInv tbl p.faults (diff p.sectors p.terminated) p.expirations) (hn : sn.Nodup)
    (hnum : nums infos = sn) (ht : ∀ i ∈ infos, alookup i.num tbl = some i)
    (hdisj : ∀ x ∈ sn, x ∉ p.faults) (h : p.addFaults qs sn infos fe = .ok (p', delta, nf)) :
    QInv tbl p'.faults (diff p'.sectors p'.terminated) p'.expirations := by
  obtain ⟨q', sel, hr, _, _, _, e⟩ := Partition.addFaults_ok h
  subst e
  have := rescheduleAsFaults_qinv hq (by rw [hnum]; exact hn) ht (by rw [hnum]; exact hdisj) hr
  rw [hnum] at this
  exact this

theorem fullInv_stepE {env : Env} {p p' : Partition} {op : Op} {r : Ret}
    (hw : TableWF env.tbl) (h : FullInv env.tbl p) (hop : OpWF op) (hop2 : OpWF2 env.tbl op)
    (ha : TierB op) (hstep : stepE env p op = .ok (p', r)) : FullInv env.tbl p' := by
  have hs' : SetInv p' := setInv_stepE h.sets hop hstep
  cases op with
  | popExpiredSectors u =>
    simp only [stepE] at hstep
    cases hx : p.popExpiredSectors u with
    | error e => simp [hx] at hstep
    | ok x =>
      obtain ⟨p1, es⟩ := x
      simp only [hx, Except.ok.injEq, Prod.mk.injEq] at hstep
      obtain ⟨rfl, _⟩ := hstep
      exact fullInv_popExpired h hx hs'
  | addSectors proven infos =>
    have hm' := memoInv_stepE hw h.sets h.memo hop hop2 (by simp [TierA]) hstep
    refine ⟨hs', hm', ?_⟩
    simp only [stepE] at hstep
    cases hx : p.addSectors env.qs proven infos with
    | error e => simp [hx] at hstep
    | ok x =>
      obtain ⟨p1, pw, fee⟩ := x
      simp only [hx, Except.ok.injEq, Prod.mk.injEq] at hstep
      obtain ⟨rfl, _⟩ := hstep
      obtain ⟨q', hg, hnew, _, _, _, e⟩ := Partition.addSectors_ok hx
      obtain ⟨hn, ht⟩ := hop2
      rw [ofList_eq_self hn] at e hnew
      have hq0 : QInv env.tbl p.faults (diff (union p.sectors (nums infos)) p.terminated) p.expirations := by
        apply qinv_frame h.queue
        intro x hxs
        have := mem_diff.mp (qsecs_live h.queue hxs)
        exact ⟨Iff.rfl, mem_diff.mpr ⟨mem_union.mpr (Or.inl this.1), this.2⟩⟩
      have hfr : FreshInfos env.tbl p.faults (diff (union p.sectors (nums infos)) p.terminated)
          p.expirations infos := by
        have hmem : ∀ i ∈ infos, i.num ∈ nums infos := fun i hi => List.mem_map_of_mem hi
        refine ⟨hn, ht, ?_, ?_, ?_⟩
        · intro i hi hsx
          exact hnew i.num (hmem i hi) (mem_diff.mp (qsecs_live h.queue hsx)).1
        · intro i hi
          exact mem_diff.mpr ⟨mem_union.mpr (Or.inr (hmem i hi)),
            fun htm => hnew i.num (hmem i hi) (h.sets.termSub _ htm)⟩
        · intro i hi hf
          exact hnew i.num (hmem i hi) (h.sets.faultSub _ hf).1
      have := addGroupsNew_qinv hq0 hfr hg
      subst e
      cases proven <;> exact this
  | recordFaults sn fe =>
    have hm' := memoInv_stepE hw h.sets h.memo hop hop2 (by simp [TierA]) hstep
    refine ⟨hs', hm', ?_⟩
    simp only [stepE] at hstep
    cases hx : p.recordFaults env.tbl env.qs sn fe with
    | error e => simp [hx] at hstep
    | ok x =>
      obtain ⟨p1, nfs, d, f⟩ := x
      simp only [hx, Except.ok.injEq, Prod.mk.injEq] at hstep
      obtain ⟨rfl, _⟩ := hstep
      obtain ⟨_, _, newInfos, retrInfos, p2, hl1, hl2, hadd, e, _⟩ := Partition.recordFaults_ok hx
      obtain ⟨n1, n2⟩ := Partition.loadSectors_spec hw hl1
      obtain ⟨n3, _⟩ := Partition.loadSectors_spec hw hl2
      rw [removeRecoveries_if n3] at e
      have hn : (diff (diff (diff sn (inter p.recoveries sn)) p.terminated) p.faults).Nodup :=
        nodup_diff (nodup_diff (nodup_diff hop))
      have h2 : QInv env.tbl p2.faults (diff p2.sectors p2.terminated) p2.expirations := by
        by_cases hne : (!newInfos.isEmpty) = true
        · simp only [hne, if_true] at hadd
          exact queue_addFaults h.queue hn n1 n2 (fun x hx' => (mem_diff.mp hx').2) hadd
        · simp only [hne, Bool.false_eq_true, if_false] at hadd
          rw [hadd.1]; exact h.queue
      obtain ⟨e1, _, e3, e4, e5, _⟩ := Partition.removeRecoveries_eq p2 (inter p.recoveries sn)
        (sumPow retrInfos)
      subst e
      rw [e1, e3, e4, e5]; exact h2
  | declareFaultsRecovered sn =>
    have hm' := memoInv_stepE hw h.sets h.memo hop hop2 (by simp [TierA]) hstep
    refine ⟨hs', hm', ?_⟩
    simp only [stepE] at hstep
    cases hx : p.declareFaultsRecovered env.tbl sn with
    | error e => simp [hx] at hstep
    | ok x =>
      obtain ⟨p1, u⟩ := x
      cases u
      simp only [hx, Except.ok.injEq, Prod.mk.injEq] at hstep
      obtain ⟨rfl, _⟩ := hstep
      obtain ⟨_, infos, _, _, e⟩ := Partition.declareFaultsRecovered_ok hx
      subst e
      exact h.queue
  | recoverFaults =>
    have hm' := memoInv_stepE hw h.sets h.memo hop hop2 (by simp [TierA]) hstep
    refine ⟨hs', hm', ?_⟩
    simp only [stepE] at hstep
    cases hx : p.recoverFaults env.tbl env.qs with
    | error e => simp [hx] at hstep
    | ok x =>
      obtain ⟨p1, pw⟩ := x
      simp only [hx, Except.ok.injEq, Prod.mk.injEq] at hstep
      obtain ⟨rfl, _⟩ := hstep
      obtain ⟨infos, q', hl, hr, _, e⟩ := Partition.recoverFaults_ok hx
      obtain ⟨n1, n2⟩ := Partition.loadSectors_spec hw hl
      have := rescheduleRecovered_qinv h.queue (by rw [n1]; exact h.sets.nodupR) n2
        (by rw [n1]; exact h.sets.recSub) hr
      rw [n1] at this
      subst e
      exact this
  | activateUnproven =>
    have hm' := memoInv_stepE hw h.sets h.memo hop hop2 (by simp [TierA]) hstep
    refine ⟨hs', hm', ?_⟩
    simp only [stepE, Partition.activateUnproven, Except.ok.injEq, Prod.mk.injEq] at hstep
    obtain ⟨rfl, _⟩ := hstep
    exact h.queue
  | recordMissedPost fe =>
    have hm' := memoInv_stepE hw h.sets h.memo hop hop2 (by simp [TierA]) hstep
    refine ⟨hs', hm', ?_⟩
    simp only [stepE] at hstep
    cases hx : p.recordMissedPost env.qs fe with
    | error e => simp [hx] at hstep
    | ok x =>
      obtain ⟨p1, d, pen, nf⟩ := x
      simp only [hx, Except.ok.injEq, Prod.mk.injEq] at hstep
      obtain ⟨rfl, _⟩ := hstep
      obtain ⟨q', hr, _, _, _, _, e⟩ := Partition.recordMissedPost_ok hx
      subst e
      exact rescheduleAllAsFaults_qinv h.queue hr
  | terminateSectors ep sn => exact absurd ha (by simp [TierB, TierA])
  | recordSkippedFaults fe sk =>
    have hm' := memoInv_stepE hw h.sets h.memo hop hop2 (by simp [TierA]) hstep
    refine ⟨hs', hm', ?_⟩
    simp only [stepE] at hstep
    cases hx : p.recordSkippedFaults env.tbl env.qs fe sk with
    | error e => simp [hx] at hstep
    | ok x =>
      obtain ⟨p1, d, nf, rp, b⟩ := x
      simp only [hx, Except.ok.injEq, Prod.mk.injEq] at hstep
      obtain ⟨rfl, _⟩ := hstep
      rcases Partition.recordSkippedFaults_ok hx with ⟨_, e, _⟩ | ⟨_, retrInfos, newInfos, p2, hl1, hl2, hadd, _, e, _⟩
      · rw [e]; exact h.queue
      · obtain ⟨n1, n2⟩ := Partition.loadSectors_spec hw hl2
        have hn : (diff (diff sk p.terminated) p.faults).Nodup := nodup_diff (nodup_diff hop)
        have h2 := queue_addFaults h.queue hn n1 n2 (fun x hx' => (mem_diff.mp hx').2) hadd
        obtain ⟨e1, _, e3, e4, e5, _⟩ := Partition.removeRecoveries_eq p2 (inter p.recoveries sk)
          (sumPow retrInfos)
        subst e
        rw [e1, e3, e4, e5]; exact h2
  | rescheduleExpirations ne sn => exact absurd ha (by simp [TierB, TierA])
  | replaceSectors old new => exact absurd ha (by simp [TierB, TierA])
  | popEarlyTerminations m =>
    have hm' := memoInv_stepE hw h.sets h.memo hop hop2 (by simp [TierA]) hstep
    refine ⟨hs', hm', ?_⟩
    simp only [stepE] at hstep
    cases hx : p.popEarlyTerminations m with
    | error e => simp [hx] at hstep
    | ok x =>
      obtain ⟨p1, res, n, more⟩ := x
      simp only [hx, Except.ok.injEq, Prod.mk.injEq] at hstep
      obtain ⟨rfl, _⟩ := hstep
      obtain ⟨eq, _, e⟩ := Partition.popEarlyTerminations_ok hx
      subst e
      exact h.queue

end BA.Sector
