/-
  Expiration-queue facts that do not depend on the queue's epochs: every entry's bitfields stay
  duplicate-free (`QNodup`), and the "accounting" of the search/traversal algorithms — the sectors
  they were asked for are each found exactly once or the call fails — which makes the returned
  power the sum over the requested sectors.
-/
import BA.Lemmas.Sector.Sets
import BA.Model.Sector.Spec

namespace BA.Sector
open BA BA.NatSet

/-! ### PowerPair arithmetic -/

@[ext] theorem PowerPair.ext' {a b : PowerPair} (h1 : a.raw = b.raw) (h2 : a.qa = b.qa) : a = b := by
  cases a; cases b; simp_all

@[simp] theorem PowerPair.add_raw (a b : PowerPair) : (a + b).raw = a.raw + b.raw := rfl
@[simp] theorem PowerPair.add_qa (a b : PowerPair) : (a + b).qa = a.qa + b.qa := rfl
@[simp] theorem PowerPair.sub_raw (a b : PowerPair) : (a - b).raw = a.raw - b.raw := rfl
@[simp] theorem PowerPair.sub_qa (a b : PowerPair) : (a - b).qa = a.qa - b.qa := rfl
@[simp] theorem PowerPair.neg_raw (a : PowerPair) : (-a).raw = -a.raw := rfl
@[simp] theorem PowerPair.neg_qa (a : PowerPair) : (-a).qa = -a.qa := rfl
@[simp] theorem PowerPair.zero_raw : PowerPair.zero.raw = 0 := rfl
@[simp] theorem PowerPair.zero_qa : PowerPair.zero.qa = 0 := rfl
@[simp] theorem sumPow_raw (l : List SectorInfo) : (sumPow l).raw = sumBy (·.raw) l := rfl
@[simp] theorem sumPow_qa (l : List SectorInfo) : (sumPow l).qa = sumBy (·.qa) l := rfl

/-! ### weights read from a table -/

@[simp] theorem powOf_raw (tbl : Table) (s : NatSet) : (powOf tbl s).raw = sumBy (tw tbl (·.raw)) s := rfl
@[simp] theorem powOf_qa (tbl : Table) (s : NatSet) : (powOf tbl s).qa = sumBy (tw tbl (·.qa)) s := rfl

theorem sumBy_infos_tbl {tbl : Table} (w : SectorInfo → Int) {infos : List SectorInfo}
    (h : ∀ i ∈ infos, alookup i.num tbl = some i) :
    sumBy w infos = sumBy (tw tbl w) (nums infos) := by
  induction infos with
  | nil => rfl
  | cons i t ih =>
    have hi := h i (by simp)
    simp only [nums, List.map_cons, sumBy_cons, tw, hi]
    rw [ih (fun j hj => h j (by simp [hj]))]
    rfl

theorem sumBy_lookupInfos (m : Table) (w : SectorInfo → Int) (ns : List Nat) :
    sumBy w (lookupInfos m ns) = sumBy (tw m w) ns := by
  induction ns with
  | nil => rfl
  | cons n t ih =>
    unfold lookupInfos at ih ⊢
    cases h : alookup n m with
    | none => simp [h, tw, ih]
    | some i => simp [h, tw, ih]

theorem sumPow_load {tbl : Table} (hw : TableWF tbl) {ns : NatSet} {infos : List SectorInfo}
    (h : Partition.loadSectors tbl ns = .ok infos) : sumPow infos = powOf tbl ns := by
  obtain ⟨e1, e2⟩ := Partition.loadSectors_spec hw h
  ext
  · simp only [sumPow_raw, powOf_raw]; rw [sumBy_infos_tbl _ e2, e1]
  · simp only [sumPow_qa, powOf_qa]; rw [sumBy_infos_tbl _ e2, e1]

/-! ### `infoMap`: with distinct numbers every info is found under its number -/

theorem alookup_foldl_aset_notin (infos : List SectorInfo) (acc : Table) (n : Nat)
    (h : n ∉ nums infos) :
    alookup n (infos.foldl (fun m i => aset i.num i m) acc) = alookup n acc := by
  induction infos generalizing acc with
  | nil => rfl
  | cons i t ih =>
    simp only [nums, List.map_cons, List.mem_cons, not_or] at h
    simp only [List.foldl_cons]
    rw [ih _ (by simpa [nums] using h.2)]
    exact alookup_aset_other _ _ _ _ h.1

theorem alookup_infoMap {infos : List SectorInfo} (hn : (nums infos).Nodup) {i : SectorInfo}
    (hi : i ∈ infos) : alookup i.num (infoMap infos) = some i := by
  unfold infoMap
  generalize ([] : Table) = acc
  induction infos generalizing acc with
  | nil => simp at hi
  | cons j t ih =>
    simp only [nums, List.map_cons, List.nodup_cons] at hn
    simp only [List.foldl_cons]
    rcases List.mem_cons.mp hi with rfl | hi
    · rw [alookup_foldl_aset_notin _ _ _ (by simpa [nums] using hn.1)]
      exact alookup_aset_same _ _ _
    · exact ih (by simpa [nums] using hn.2) hi _

theorem sumBy_infoMap (w : SectorInfo → Int) {infos : List SectorInfo} (hn : (nums infos).Nodup) :
    sumBy (tw (infoMap infos) w) (nums infos) = sumBy w infos :=
  (sumBy_infos_tbl w (fun _ hi => alookup_infoMap hn hi)).symm

/-! ### entries stay duplicate-free -/

def EntryNodup (es : ExpSet) : Prop := es.onTime.Nodup ∧ es.early.Nodup
def QNodup (q : Queue) : Prop := ∀ e es, (e, es) ∈ q → EntryNodup es

theorem entryNodup_empty : EntryNodup ExpSet.empty := by simp [EntryNodup, ExpSet.empty]

theorem mem_qset {k : Int} {v : ExpSet} {q : Queue} {x : Int × ExpSet} (h : x ∈ qset k v q) :
    x = (k, v) ∨ x ∈ q := by
  induction q with
  | nil => simp [qset] at h; exact Or.inl h
  | cons hd t ih =>
    obtain ⟨e, w⟩ := hd
    unfold qset at h
    by_cases h1 : e = k
    · simp only [h1, if_true, List.mem_cons] at h
      rcases h with h | h
      · exact Or.inl h
      · exact Or.inr (List.mem_cons_of_mem _ h)
    · simp only [h1, if_false] at h
      by_cases h2 : k < e
      · simp only [h2, if_true, List.mem_cons] at h
        rcases h with h | h | h
        · exact Or.inl h
        · exact Or.inr (by rw [h]; simp)
        · exact Or.inr (List.mem_cons_of_mem _ h)
      · simp only [h2, if_false, List.mem_cons] at h
        rcases h with h | h
        · exact Or.inr (by rw [h]; simp)
        · rcases ih h with h | h
          · exact Or.inl h
          · exact Or.inr (List.mem_cons_of_mem _ h)

theorem mem_qdel {k : Int} {q : Queue} {x : Int × ExpSet} (h : x ∈ qdel k q) : x ∈ q := by
  induction q with
  | nil => simp [qdel] at h
  | cons hd t ih =>
    obtain ⟨e, w⟩ := hd
    unfold qdel at h
    by_cases h1 : e = k
    · simp only [h1, if_true] at h; exact List.mem_cons_of_mem _ h
    · simp only [h1, if_false, List.mem_cons] at h
      rcases h with h | h
      · rw [h]; simp
      · exact List.mem_cons_of_mem _ (ih h)

theorem mem_of_qget {k : Int} {q : Queue} {es : ExpSet} (h : qget k q = some es) : (k, es) ∈ q := by
  induction q with
  | nil => simp [qget] at h
  | cons hd t ih =>
    obtain ⟨e, w⟩ := hd
    unfold qget at h
    by_cases h1 : e = k
    · simp only [h1, if_true, Option.some.injEq] at h; subst h; subst h1; simp
    · simp only [h1, if_false] at h; exact List.mem_cons_of_mem _ (ih h)

theorem qnodup_qset {k : Int} {v : ExpSet} {q : Queue} (hq : QNodup q) (hv : EntryNodup v) :
    QNodup (qset k v q) := by
  intro e es h
  rcases mem_qset h with h | h
  · cases h; exact hv
  · exact hq e es h

theorem qnodup_qdel {k : Int} {q : Queue} (hq : QNodup q) : QNodup (qdel k q) :=
  fun e es h => hq e es (mem_qdel h)

theorem mayGet_nodup {q : Queue} {k : Int} {es : ExpSet} (hq : QNodup q) (h : mayGet q k = .ok es) :
    EntryNodup es := by
  unfold mayGet at h
  cases hk : keyCheck k with
  | error e => simp [hk] at h
  | ok u =>
    simp only [hk, Except.ok.injEq] at h
    cases hg : qget k q with
    | none => simp [hg] at h; subst h; exact entryNodup_empty
    | some v => simp [hg] at h; subst h; exact hq k v (mem_of_qget hg)

theorem mustUpdate_nodup {q q' : Queue} {k : Int} {es : ExpSet} (hq : QNodup q) (he : EntryNodup es)
    (h : mustUpdate q k es = .ok q') : QNodup q' := by
  unfold mustUpdate at h
  cases hk : keyCheck k with
  | error e => simp [hk] at h
  | ok u => simp only [hk, Except.ok.injEq] at h; subst h; exact qnodup_qset hq he

theorem mustUpdateOrDelete_nodup {q q' : Queue} {k : Int} {es : ExpSet} (hq : QNodup q)
    (he : EntryNodup es) (h : mustUpdateOrDelete q k es = .ok q') : QNodup q' := by
  unfold mustUpdateOrDelete at h
  cases hk : keyCheck k with
  | error e => simp [hk] at h
  | ok u =>
    simp only [hk, Except.ok.injEq] at h; subst h
    by_cases hem : es.isEmpty = true
    · simp only [hem, if_true]; exact qnodup_qdel hq
    · simp only [hem, Bool.false_eq_true, if_false]; exact qnodup_qset hq he

theorem expSet_add_nodup {es es' : ExpSet} {on early : NatSet} {pl : Int} {a f : PowerPair} {fee : Int}
    (he : EntryNodup es) (h1 : on.Nodup) (h2 : early.Nodup)
    (h : es.add on early pl a f fee = .ok es') : EntryNodup es' := by
  unfold ExpSet.add at h
  simp only at h
  split at h
  · simp at h
  · simp only [Except.ok.injEq] at h
    subst h
    exact ⟨nodup_union he.1 h1, nodup_union he.2 h2⟩

theorem qadd_nodup {qs : QuantSpec} {q q' : Queue} {ep : Int} {on early : NatSet} {a f : PowerPair}
    {pl fee : Int} (hq : QNodup q) (h1 : on.Nodup) (h2 : early.Nodup)
    (h : qadd qs q ep on early a f pl fee = .ok q') : QNodup q' := by
  unfold qadd at h
  simp only at h
  cases hm : mayGet q (qs.quantizeUp ep) with
  | error e => simp [hm] at h
  | ok es =>
    simp only [hm] at h
    cases ha : es.add on early pl a f fee with
    | error e => simp [ha] at h
    | ok es' =>
      simp only [ha] at h
      exact mustUpdate_nodup hq (expSet_add_nodup (mayGet_nodup hq hm) h1 h2 ha) h

theorem addGroups_nodup {qs : QuantSpec} {q q' : Queue} {gs : List (Int × List SectorInfo)}
    (hq : QNodup q) (h : addGroups qs q gs = .ok q') : QNodup q' := by
  induction gs generalizing q with
  | nil => simp [addGroups] at h; subst h; exact hq
  | cons g rest ih =>
    obtain ⟨e, l⟩ := g
    unfold addGroups at h
    cases ha : qadd qs q e (ofList (nums l)) [] (sumPow l) PowerPair.zero (sumPledge l) (sumFee l) with
    | error err => simp [ha] at h
    | ok q1 =>
      simp only [ha] at h
      exact ih (qadd_nodup hq (nodup_ofList _) (by simp) ha) h

end BA.Sector

namespace BA.Sector
open BA BA.NatSet

/-! ### accounting of "hits" against a wanted set -/

/-- the wanted sectors split into those an entry holds and the rest -/
theorem hit_split (W : Nat → Int) {a rem : NatSet} (ha : a.Nodup) (hr : rem.Nodup) :
    sumBy W (a.filter (fun u => decide (u ∈ rem))) +
      sumBy W (rem.filter (fun u => !decide (u ∈ a))) = sumBy W rem := by
  have h1 := sumBy_filter_split W (fun u => decide (u ∈ a)) rem
  have h2 : sumBy W (a.filter (fun u => decide (u ∈ rem))) =
      sumBy W (rem.filter (fun u => decide (u ∈ a))) := by
    apply sumBy_congr_mem W (List.Pairwise.filter _ ha) (List.Pairwise.filter _ hr)
    intro x; simp [List.mem_filter, and_comm]
  omega

/-- a group built by `group_expiration_set`: its totals are the sums over its sector numbers -/
def GroupOK (m : Table) (g : Group) : Prop :=
  g.power = ⟨sumBy (tw m (·.raw)) g.sectors, sumBy (tw m (·.qa)) g.sectors⟩ ∧
  g.pledge = sumBy (tw m (·.pledge)) g.sectors ∧ g.fee = sumBy (tw m (·.fee)) g.sectors ∧
  g.sectors.Nodup ∧ EntryNodup g.es ∧ (∀ x ∈ g.sectors, x ∈ g.es.onTime)

theorem groupExpSet_spec (m : Table) (W : Nat → Int) {rem : NatSet} {es : ExpSet} (e : Int)
    (hes : EntryNodup es) (hr : rem.Nodup) :
    GroupOK m (groupExpSet m rem es e).1 ∧ (groupExpSet m rem es e).2.Nodup ∧
    (groupExpSet m rem es e).1.epoch = e ∧ (groupExpSet m rem es e).1.es = es ∧
    (∀ x ∈ (groupExpSet m rem es e).2, x ∈ rem) ∧
    sumBy W (groupExpSet m rem es e).1.sectors + sumBy W (groupExpSet m rem es e).2 = sumBy W rem := by
  unfold groupExpSet
  refine ⟨⟨?_, ?_, ?_, List.Pairwise.filter _ hes.1, hes, ?_⟩, List.Pairwise.filter _ hr, rfl, rfl, ?_,
    hit_split W hes.1 hr⟩
  · ext <;> simp [sumBy_lookupInfos]
  · simp [sumPledge, sumBy_lookupInfos]
  · simp [sumFee, sumBy_lookupInfos]
  · intro x hx; exact (List.mem_filter.mp hx).1
  · intro x hx; exact (List.mem_filter.mp hx).1

/-- Σ over the sector lists of a list of groups -/
def groupsSum (W : Nat → Int) (gs : List Group) : Int := sumBy (fun g => sumBy W g.sectors) gs

theorem findDeclared_spec (m : Table) (W : Nat → Int) {q : Queue} (hq : QNodup q) :
    ∀ (ds : List Int) (rem : NatSet) (gs : List Group) (rem' : NatSet), rem.Nodup →
    findDeclared q m ds rem = .ok (gs, rem') →
    rem'.Nodup ∧ (∀ g ∈ gs, GroupOK m g) ∧ groupsSum W gs + sumBy W rem' = sumBy W rem := by
  intro ds
  induction ds with
  | nil =>
    intro rem gs rem' hr h
    simp only [findDeclared, Except.ok.injEq, Prod.mk.injEq] at h
    obtain ⟨rfl, rfl⟩ := h
    exact ⟨hr, by simp, by simp [groupsSum]⟩
  | cons d rest ih =>
    intro rem gs rem' hr h
    unfold findDeclared at h
    cases hm : mayGet q d with
    | error e => simp [hm] at h
    | ok es =>
      simp only [hm] at h
      have hes := mayGet_nodup hq hm
      obtain ⟨g1, g2, _, _, _, g3⟩ := groupExpSet_spec m W d hes hr
      cases hg : groupExpSet m rem es d with
      | mk g r1 =>
        rw [hg] at g1 g2 g3
        simp only [hg] at h
        cases hf : findDeclared q m rest r1 with
        | error e => simp [hf] at h
        | ok x =>
          obtain ⟨gs2, r2⟩ := x
          simp only [hf, Except.ok.injEq, Prod.mk.injEq] at h
          obtain ⟨rfl, rfl⟩ := h
          obtain ⟨i1, i2, i3⟩ := ih r1 gs2 r2 g2 hf
          simp only at g3
          refine ⟨i1, ?_, ?_⟩
          · intro g' hg'
            by_cases hem : g.sectors.isEmpty = true
            · simp only [hem, if_true] at hg'; exact i2 g' hg'
            · simp only [hem, Bool.false_eq_true, if_false, List.mem_cons] at hg'
              rcases hg' with rfl | hg'
              · exact g1
              · exact i2 g' hg'
          · by_cases hem : g.sectors.isEmpty = true
            · have : g.sectors = [] := by cases hs : g.sectors <;> simp_all
              simp only [hem, if_true]
              rw [this] at g3; simp at g3
              omega
            · simp only [hem, Bool.false_eq_true, if_false, groupsSum, sumBy_cons]
              simp only [groupsSum] at i3
              omega

theorem findTraverse_spec (m : Table) (W : Nat → Int) (declared : List Int) :
    ∀ (q : Queue) (rem : NatSet) (gs : List Group) (rem' : NatSet), QNodup q → rem.Nodup →
    findTraverse m declared q rem = .ok (gs, rem') →
    rem'.Nodup ∧ (∀ g ∈ gs, GroupOK m g) ∧ groupsSum W gs + sumBy W rem' = sumBy W rem := by
  intro q
  induction q with
  | nil =>
    intro rem gs rem' _ hr h
    simp only [findTraverse, Except.ok.injEq, Prod.mk.injEq] at h
    obtain ⟨rfl, rfl⟩ := h
    exact ⟨hr, by simp, by simp [groupsSum]⟩
  | cons hd rest ih =>
    intro rem gs rem' hq hr h
    obtain ⟨e, es⟩ := hd
    have hq' : QNodup rest := fun e' es' h' => hq e' es' (List.mem_cons_of_mem _ h')
    have hes : EntryNodup es := hq e es (by simp)
    unfold findTraverse at h
    by_cases hd : e ∈ declared
    · simp only [hd, if_true] at h
      exact ih rem gs rem' hq' hr h
    · simp only [hd, if_false] at h
      by_cases hearly : (es.early.any fun u => decide (u ∈ rem)) = true
      · simp [hearly] at h
      · simp only [hearly, Bool.false_eq_true, if_false] at h
        obtain ⟨g1, g2, _, _, _, g3⟩ := groupExpSet_spec m W e hes hr
        cases hg : groupExpSet m rem es e with
        | mk g r1 =>
          rw [hg] at g1 g2 g3
          simp only [hg] at h
          simp only at g3
          by_cases hre : r1.isEmpty = true
          · simp only [hre, if_true, Except.ok.injEq, Prod.mk.injEq] at h
            obtain ⟨rfl, rfl⟩ := h
            refine ⟨g2, ?_, ?_⟩
            · intro g' hg'
              by_cases hem : g.sectors.isEmpty = true
              · simp [hem] at hg'
              · simp only [hem, Bool.false_eq_true, if_false, List.mem_singleton] at hg'
                rw [hg']; exact g1
            · by_cases hem : g.sectors.isEmpty = true
              · have : g.sectors = [] := by cases hs : g.sectors <;> simp_all
                simp only [hem, if_true, groupsSum, sumBy_nil]
                rw [this] at g3; simp at g3
                omega
              · simp only [hem, Bool.false_eq_true, if_false, groupsSum, sumBy_cons, sumBy_nil]
                omega
          · simp only [hre, Bool.false_eq_true, if_false] at h
            cases hf : findTraverse m declared rest r1 with
            | error err => simp [hf] at h
            | ok x =>
              obtain ⟨gs2, r2⟩ := x
              simp only [hf, Except.ok.injEq, Prod.mk.injEq] at h
              obtain ⟨rfl, rfl⟩ := h
              obtain ⟨i1, i2, i3⟩ := ih r1 gs2 r2 hq' g2 hf
              refine ⟨i1, ?_, ?_⟩
              · intro g' hg'
                by_cases hem : g.sectors.isEmpty = true
                · simp only [hem, if_true] at hg'; exact i2 g' hg'
                · simp only [hem, Bool.false_eq_true, if_false, List.mem_cons] at hg'
                  rcases hg' with rfl | hg'
                  · exact g1
                  · exact i2 g' hg'
              · by_cases hem : g.sectors.isEmpty = true
                · have : g.sectors = [] := by cases hs : g.sectors <;> simp_all
                  simp only [hem, if_true]
                  rw [this] at g3; simp at g3
                  omega
                · simp only [hem, Bool.false_eq_true, if_false, groupsSum, sumBy_cons]
                  simp only [groupsSum] at i3
                  omega

theorem mem_insertGroup {g x : Group} {l : List Group} : x ∈ insertGroup g l ↔ x = g ∨ x ∈ l := by
  induction l with
  | nil => simp [insertGroup]
  | cons h t ih =>
    unfold insertGroup
    by_cases hc : g.epoch ≤ h.epoch
    · simp [hc]
    · simp only [hc, if_false, List.mem_cons, ih]
      constructor
      · rintro (h1 | h1 | h1)
        · exact Or.inr (Or.inl h1)
        · exact Or.inl h1
        · exact Or.inr (Or.inr h1)
      · rintro (h1 | h1 | h1)
        · exact Or.inr (Or.inl h1)
        · exact Or.inl h1
        · exact Or.inr (Or.inr h1)

theorem sumBy_insertGroup (f : Group → Int) (g : Group) (l : List Group) :
    sumBy f (insertGroup g l) = f g + sumBy f l := by
  induction l with
  | nil => simp [insertGroup]
  | cons h t ih =>
    unfold insertGroup
    by_cases hc : g.epoch ≤ h.epoch
    · simp [hc]
    · simp [hc, ih]; omega

theorem mem_sortGroups {x : Group} {l : List Group} : x ∈ sortGroups l ↔ x ∈ l := by
  induction l with
  | nil => simp [sortGroups]
  | cons h t ih =>
    simp only [sortGroups, List.foldr_cons, List.mem_cons] at ih ⊢
    rw [mem_insertGroup, ih]

theorem sumBy_sortGroups (f : Group → Int) (l : List Group) : sumBy f (sortGroups l) = sumBy f l := by
  induction l with
  | nil => simp [sortGroups]
  | cons h t ih =>
    simp only [sortGroups, List.foldr_cons, sumBy_cons] at ih ⊢
    rw [sumBy_insertGroup, ih]

/-- **accounting of `find_sectors_by_expiration`**: on success the groups are well formed and their
    sector lists add up (for any weight) to the requested sector numbers -/
theorem find_spec (W : Nat → Int) {qs : QuantSpec} {q : Queue} {infos : List SectorInfo}
    {gs : List Group} (hq : QNodup q) (h : findSectorsByExpiration qs q infos = .ok gs) :
    (∀ g ∈ gs, GroupOK (infoMap infos) g) ∧ groupsSum W gs = sumBy W (ofList (nums infos)) := by
  unfold findSectorsByExpiration at h
  simp only at h
  cases h1 : findDeclared q (infoMap infos) (declaredEpochs qs infos) (ofList (nums infos)) with
  | error e => simp [h1] at h
  | ok x =>
    obtain ⟨gs1, rem1⟩ := x
    simp only [h1] at h
    obtain ⟨a1, a2, a3⟩ := findDeclared_spec (infoMap infos) W hq _ _ _ _ (nodup_ofList _) h1
    by_cases hre : rem1.isEmpty = true
    · simp only [hre, if_true, Bool.not_true, Bool.false_eq_true, if_false, Except.ok.injEq] at h
      subst h
      have : rem1 = [] := by cases hs : rem1 <;> simp_all
      subst this
      refine ⟨fun g hg => a2 g (by simpa [mem_sortGroups] using hg), ?_⟩
      simp only [groupsSum, List.append_nil] at a3 ⊢
      rw [sumBy_sortGroups]; simp at a3; omega
    · simp only [hre, Bool.false_eq_true, if_false] at h
      cases h2 : findTraverse (infoMap infos) (declaredEpochs qs infos) q rem1 with
      | error e => simp [h2] at h
      | ok y =>
        obtain ⟨gs2, rem2⟩ := y
        simp only [h2] at h
        obtain ⟨b1, b2, b3⟩ := findTraverse_spec (infoMap infos) W _ _ _ _ _ hq a1 h2
        by_cases hre2 : rem2.isEmpty = true
        · simp only [hre2, Bool.not_true, Bool.false_eq_true, if_false, Except.ok.injEq] at h
          subst h
          have : rem2 = [] := by cases hs : rem2 <;> simp_all
          subst this
          refine ⟨?_, ?_⟩
          · intro g hg
            rw [mem_sortGroups, List.mem_append] at hg
            rcases hg with hg | hg
            · exact a2 g hg
            · exact b2 g hg
          · simp only [groupsSum] at a3 b3 ⊢
            rw [sumBy_sortGroups, sumBy_append]; simp at b3; omega
        · simp [hre2] at h

/-- the groups' power is the power of the requested infos (distinct sector numbers) -/
theorem find_power {qs : QuantSpec} {q : Queue} {infos : List SectorInfo} {gs : List Group}
    (hq : QNodup q) (hn : (nums infos).Nodup) (h : findSectorsByExpiration qs q infos = .ok gs) :
    groupsPower gs = sumPow infos ∧ groupsPledge gs = sumPledge infos ∧
    groupsFee gs = sumFee infos := by
  have key : ∀ w : SectorInfo → Int, ∀ (gw : Group → Int),
      (∀ g ∈ gs, gw g = sumBy (tw (infoMap infos) w) g.sectors) → sumBy gw gs = sumBy w infos := by
    intro w gw hgw
    obtain ⟨_, a2⟩ := find_spec (tw (infoMap infos) w) hq h
    rw [ofList_eq_self hn, sumBy_infoMap w hn] at a2
    rw [← a2, groupsSum]
    exact sumBy_congr_fun _ _ _ hgw
  obtain ⟨a1, _⟩ := find_spec (fun _ => 0) hq h
  refine ⟨?_, ?_, ?_⟩
  · ext
    · exact key (·.raw) (·.power.raw) (fun g hg => by rw [(a1 g hg).1])
    · exact key (·.qa) (·.power.qa) (fun g hg => by rw [(a1 g hg).1])
  · exact key (·.pledge) (·.pledge) (fun g hg => (a1 g hg).2.1)
  · exact key (·.fee) (·.fee) (fun g hg => (a1 g hg).2.2.1)

end BA.Sector

namespace BA.Sector
open BA BA.NatSet

/-! ### `reschedule_as_faults` -/

theorem rescheduleFaultGroups_spec (newQ : Int) :
    ∀ (gs : List Group) (q q2 : Queue) (secs : List Nat) (expiring resched : PowerPair) (fee : Int),
    QNodup q → (∀ g ∈ gs, EntryNodup g.es) →
    rescheduleFaultGroups newQ q gs = .ok (q2, secs, expiring, resched, fee) →
    QNodup q2 ∧ resched + expiring = groupsPower gs := by
  intro gs
  induction gs with
  | nil =>
    intro q q2 secs expiring resched fee hq _ h
    simp only [rescheduleFaultGroups, Except.ok.injEq, Prod.mk.injEq] at h
    obtain ⟨rfl, _, rfl, rfl, _⟩ := h
    exact ⟨hq, by ext <;> simp [groupsPower]⟩
  | cons g rest ih =>
    intro q q2 secs expiring resched fee hq hg h
    unfold rescheduleFaultGroups at h
    simp only at h
    have hge := hg g (by simp)
    have hes' : EntryNodup (if g.epoch ≤ newQ then
        { g.es with active := g.es.active - g.power, faulty := g.es.faulty + g.power }
      else
        { g.es with onTime := diff g.es.onTime (ofList g.sectors), pledge := g.es.pledge - g.pledge,
                    active := g.es.active - g.power, fee := g.es.fee - g.fee }) := by
      by_cases hc : g.epoch ≤ newQ
      · simp only [hc, if_true]; exact hge
      · simp only [hc, if_false]; exact ⟨nodup_diff hge.1, hge.2⟩
    cases hm : mustUpdateOrDelete q g.epoch (if g.epoch ≤ newQ then
        { g.es with active := g.es.active - g.power, faulty := g.es.faulty + g.power }
      else
        { g.es with onTime := diff g.es.onTime (ofList g.sectors), pledge := g.es.pledge - g.pledge,
                    active := g.es.active - g.power, fee := g.es.fee - g.fee }) with
    | error e => simp [hm] at h
    | ok q1 =>
      simp only [hm] at h
      have hq1 := mustUpdateOrDelete_nodup hq hes' hm
      split at h
      · simp at h
      · cases hr : rescheduleFaultGroups newQ q1 rest with
        | error e => simp [hr] at h
        | ok x =>
          obtain ⟨q3, secs3, exp3, res3, fee3⟩ := x
          simp only [hr] at h
          obtain ⟨i1, i2⟩ := ih q1 q3 secs3 exp3 res3 fee3 hq1
            (fun g' hg' => hg g' (List.mem_cons_of_mem _ hg')) hr
          have e1 := congrArg PowerPair.raw i2
          have e2 := congrArg PowerPair.qa i2
          simp only [PowerPair.add_raw, PowerPair.add_qa, groupsPower] at e1 e2
          by_cases hc : g.epoch ≤ newQ
          · simp only [hc, decide_true, Bool.not_true, Bool.false_eq_true, if_false, Except.ok.injEq,
              Prod.mk.injEq] at h
            obtain ⟨rfl, _, rfl, rfl, _⟩ := h
            refine ⟨i1, ?_⟩
            ext <;> simp [groupsPower] <;> omega
          · simp only [hc, decide_false, Bool.not_false, if_true, Except.ok.injEq,
              Prod.mk.injEq] at h
            obtain ⟨rfl, _, rfl, rfl, _⟩ := h
            refine ⟨i1, ?_⟩
            ext <;> simp [groupsPower] <;> omega

/-- **`reschedule_as_faults` returns the power of the given sectors** (distinct numbers) and keeps
    the entries duplicate-free -/
theorem rescheduleAsFaults_spec {qs : QuantSpec} {q q' : Queue} {fe : Int} {infos : List SectorInfo}
    {nf : PowerPair} (hq : QNodup q) (hn : (nums infos).Nodup)
    (h : rescheduleAsFaults qs q fe infos = .ok (q', nf)) : QNodup q' ∧ nf = sumPow infos := by
  unfold rescheduleAsFaults at h
  cases hf : findSectorsByExpiration qs q infos with
  | error e => simp [hf] at h
  | ok gs =>
    simp only [hf] at h
    obtain ⟨a1, _⟩ := find_spec (fun _ => 0) hq hf
    obtain ⟨b1, _, _⟩ := find_power hq hn hf
    cases hr : rescheduleFaultGroups (qs.quantizeUp fe) q gs with
    | error e => simp [hr] at h
    | ok x =>
      obtain ⟨q1, secs, expiring, resched, fee⟩ := x
      simp only [hr] at h
      obtain ⟨c1, c2⟩ := rescheduleFaultGroups_spec _ gs q q1 secs expiring resched fee hq
        (fun g hg => (a1 g hg).2.2.2.2.1) hr
      by_cases hs : secs.isEmpty = true
      · simp only [hs, if_true, Except.ok.injEq, Prod.mk.injEq] at h
        obtain ⟨rfl, rfl⟩ := h
        exact ⟨c1, by rw [c2, b1]⟩
      · simp only [hs, Bool.false_eq_true, if_false] at h
        cases ha : qadd qs q1 fe [] (ofList secs) PowerPair.zero resched 0 fee with
        | error e => simp [ha] at h
        | ok q2 =>
          simp only [ha, Except.ok.injEq, Prod.mk.injEq] at h
          obtain ⟨rfl, rfl⟩ := h
          exact ⟨qadd_nodup c1 (by simp) (nodup_ofList _) ha, by rw [c2, b1]⟩

/-! ### `reschedule_recovered` -/

theorem recoverEntry_spec (m : Table) {es : ExpSet} {rem : NatSet} (hes : EntryNodup es)
    (hr : rem.Nodup) :
    EntryNodup (recoverEntry m es rem).1 ∧ (recoverEntry m es rem).2.1.Nodup ∧
    (recoverEntry m es rem).2.2.2.raw + sumBy (tw m (·.raw)) (recoverEntry m es rem).2.1
      = sumBy (tw m (·.raw)) rem ∧
    (recoverEntry m es rem).2.2.2.qa + sumBy (tw m (·.qa)) (recoverEntry m es rem).2.1
      = sumBy (tw m (·.qa)) rem := by
  have hr1 : (rem.filter (fun u => !decide (u ∈ es.onTime))).Nodup := List.Pairwise.filter _ hr
  have s1 := fun W => hit_split W hes.1 hr
  have s2 := fun W => hit_split W hes.2 hr1
  have r1 := s1 (tw m (·.raw)); have r2 := s2 (tw m (·.raw))
  have a1 := s1 (tw m (·.qa)); have a2 := s2 (tw m (·.qa))
  unfold recoverEntry
  refine ⟨⟨hes.1, nodup_diff hes.2⟩, List.Pairwise.filter _ hr1, ?_, ?_⟩
  · simp only [PowerPair.add_raw, sumPow_raw, sumBy_lookupInfos]; omega
  · simp only [PowerPair.add_qa, sumPow_qa, sumBy_lookupInfos]; omega

theorem recoverTraverse_spec (m : Table) :
    ∀ (q q' : Queue) (rem rem' : NatSet) (resched : List SectorInfo) (pow : PowerPair),
    QNodup q → rem.Nodup →
    recoverTraverse m q rem = .ok (q', rem', resched, pow) →
    QNodup q' ∧
    pow.raw + sumBy (tw m (·.raw)) rem' = sumBy (tw m (·.raw)) rem ∧
    pow.qa + sumBy (tw m (·.qa)) rem' = sumBy (tw m (·.qa)) rem := by
  intro q
  induction q with
  | nil =>
    intro q' rem rem' resched pow hq hr h
    simp only [recoverTraverse, Except.ok.injEq, Prod.mk.injEq] at h
    obtain ⟨rfl, rfl, _, rfl⟩ := h
    exact ⟨hq, by simp, by simp⟩
  | cons hd rest ih =>
    intro q' rem rem' resched pow hq hr h
    obtain ⟨e, es⟩ := hd
    have hq' : QNodup rest := fun e' es' h' => hq e' es' (List.mem_cons_of_mem _ h')
    have hes : EntryNodup es := hq e es (by simp)
    obtain ⟨g1, g2, g3, g4⟩ := recoverEntry_spec m hes hr
    unfold recoverTraverse at h
    cases hre : recoverEntry m es rem with
    | mk es' x =>
      obtain ⟨rem2, earlyInfos, recovered⟩ := x
      rw [hre] at g1 g2 g3 g4
      simp only at g1 g2 g3 g4
      simp only [hre] at h
      cases hv : es'.validate with
      | error err => simp [hv] at h
      | ok u =>
        cases u
        simp only [hv] at h
        have hcons : ∀ (qq : Queue), QNodup qq → QNodup (if es'.isEmpty then qq else (e, es') :: qq) := by
          intro qq hqq
          by_cases hem : es'.isEmpty = true
          · simp only [hem, if_true]; exact hqq
          · simp only [hem, Bool.false_eq_true, if_false]
            intro e' es'' h'
            rcases List.mem_cons.mp h' with h' | h'
            · cases h'; exact g1
            · exact hqq e' es'' h'
        by_cases hem2 : rem2.isEmpty = true
        · simp only [hem2, if_true, Except.ok.injEq, Prod.mk.injEq] at h
          obtain ⟨rfl, rfl, _, rfl⟩ := h
          exact ⟨hcons _ hq', g3, g4⟩
        · simp only [hem2, Bool.false_eq_true, if_false] at h
          cases hrec : recoverTraverse m rest rem2 with
          | error err => simp [hrec] at h
          | ok y =>
            obtain ⟨q3, rem3, res3, pow3⟩ := y
            simp only [hrec, Except.ok.injEq, Prod.mk.injEq] at h
            obtain ⟨rfl, rfl, _, rfl⟩ := h
            obtain ⟨i1, i2, i3⟩ := ih q3 rem2 rem3 res3 pow3 hq' g2 hrec
            refine ⟨hcons _ i1, ?_, ?_⟩
            · simp only [PowerPair.add_raw]; omega
            · simp only [PowerPair.add_qa]; omega

/-- **`reschedule_recovered` returns the power of the given sectors** (distinct numbers) -/
theorem rescheduleRecovered_spec {qs : QuantSpec} {q q' : Queue} {infos : List SectorInfo}
    {pw : PowerPair} (hq : QNodup q) (hn : (nums infos).Nodup)
    (h : rescheduleRecovered qs q infos = .ok (q', pw)) : QNodup q' ∧ pw = sumPow infos := by
  unfold rescheduleRecovered at h
  simp only at h
  cases hr : recoverTraverse (infoMap infos) q (ofList (nums infos)) with
  | error e => simp [hr] at h
  | ok x =>
    obtain ⟨q1, rem, resched, pow⟩ := x
    simp only [hr] at h
    obtain ⟨a1, a2, a3⟩ := recoverTraverse_spec (infoMap infos) q q1 _ rem
      resched pow hq (nodup_ofList _) hr
    by_cases hre : rem.isEmpty = true
    · simp only [hre, Bool.not_true, Bool.false_eq_true, if_false] at h
      have : rem = [] := by cases hs : rem <;> simp_all
      subst this
      cases ha : addActiveSectors qs q1 resched with
      | error e => simp [ha] at h
      | ok y =>
        obtain ⟨q2, b, c, d, f⟩ := y
        simp only [ha, Except.ok.injEq, Prod.mk.injEq] at h
        obtain ⟨rfl, rfl⟩ := h
        obtain ⟨hg, _⟩ := addActiveSectors_ok ha
        refine ⟨addGroups_nodup a1 hg, ?_⟩
        rw [ofList_eq_self hn] at a2 a3
        rw [sumBy_infoMap _ hn] at a2 a3
        ext
        · simp at a2 ⊢; omega
        · simp at a3 ⊢; omega
    · simp [hre] at h

/-! ### `reschedule_all_as_faults` keeps the entries duplicate-free -/

theorem allFaultsWalk_nodup (faultQ : Int) :
    ∀ (q kept : Queue) (eps : List Int) (secs : NatSet) (pow : PowerPair) (fee : Int),
      QNodup q → allFaultsWalk faultQ q = .ok (kept, eps, secs, pow, fee) →
      QNodup kept ∧ secs.Nodup := by
  intro q
  induction q with
  | nil =>
    intro kept eps secs pow fee _ h
    simp only [allFaultsWalk, Except.ok.injEq, Prod.mk.injEq] at h
    obtain ⟨rfl, _, rfl, _⟩ := h
    exact ⟨by simp [QNodup], by simp⟩
  | cons hd rest ih =>
    intro kept eps secs pow fee hq h
    obtain ⟨e, es⟩ := hd
    have hq' : QNodup rest := fun e' es' h' => hq e' es' (List.mem_cons_of_mem _ h')
    have hes : EntryNodup es := hq e es (by simp)
    unfold allFaultsWalk at h
    by_cases hc : e ≤ faultQ
    · simp only [hc, if_true] at h
      cases hr : allFaultsWalk faultQ rest with
      | error err => simp [hr] at h
      | ok x =>
        obtain ⟨k3, e3, s3, p3, f3⟩ := x
        simp only [hr] at h
        obtain ⟨i1, i2⟩ := ih k3 e3 s3 p3 f3 hq' hr
        split at h
        · simp at h
        · simp only [Except.ok.injEq, Prod.mk.injEq] at h
          obtain ⟨rfl, _, rfl, _⟩ := h
          refine ⟨?_, i2⟩
          intro e' es' h'
          rcases List.mem_cons.mp h' with h' | h'
          · cases h'; exact hes
          · exact i1 e' es' h'
    · simp only [hc, if_false] at h
      by_cases he : (!es.early.isEmpty) = true
      · simp [he] at h
      · simp only [he, Bool.false_eq_true, if_false] at h
        cases hr : allFaultsWalk faultQ rest with
        | error err => simp [hr] at h
        | ok x =>
          obtain ⟨k3, e3, s3, p3, f3⟩ := x
          simp only [hr, Except.ok.injEq, Prod.mk.injEq] at h
          obtain ⟨rfl, _, rfl, _⟩ := h
          obtain ⟨i1, i2⟩ := ih k3 e3 s3 p3 f3 hq' hr
          exact ⟨i1, nodup_union hes.1 i2⟩

theorem rescheduleAllAsFaults_nodup {qs : QuantSpec} {q q' : Queue} {fe : Int} (hq : QNodup q)
    (h : rescheduleAllAsFaults qs q fe = .ok q') : QNodup q' := by
  unfold rescheduleAllAsFaults at h
  cases hc : allFaultsWalk (qs.quantizeUp fe) q with
  | error e => simp [hc] at h
  | ok x =>
    obtain ⟨kept, eps, secs, pow, fee⟩ := x
    simp only [hc] at h
    obtain ⟨a1, a2⟩ := allFaultsWalk_nodup _ q kept eps secs pow fee hq hc
    by_cases he : eps.isEmpty = true
    · simp only [he, if_true, Except.ok.injEq] at h; subst h; exact a1
    · simp only [he, Bool.false_eq_true, if_false] at h
      exact qadd_nodup a1 (by simp) a2 h

end BA.Sector
