/-
  The full invariant of a partition: set relations + the four power memos + the complete
  expiration-queue invariant (per-epoch memos), and its preservation by the partition methods.
-/
import BA.Lemmas.Sector.QMissed

namespace BA.Sector
open BA BA.NatSet

/-- changing the fault / live sets outside the scheduled sectors does not matter -/
theorem qinv_frame {tbl : Table} {F L F' L' : NatSet} {q : Queue} (h : QInv tbl F L q)
    (hf : ∀ x, qsecs q x → (x ∈ F ↔ x ∈ F') ∧ x ∈ L') : QInv tbl F' L' q :=
  ⟨h.sorted, fun e es hm => entryOK_frame (h.entry e es hm)
      (fun x hx => (hf x ⟨e, es, hm, hx⟩).1) (fun x hx => (hf x ⟨e, es, hm, hx⟩).2), h.disj⟩

theorem qsecs_live {tbl : Table} {F L : NatSet} {q : Queue} (h : QInv tbl F L q) {x : Nat}
    (hx : qsecs q x) : x ∈ L := by
  obtain ⟨e, es, hm, hin⟩ := hx
  exact (h.entry e es hm).live x hin

structure FullInv (tbl : Table) (p : Partition) : Prop where
  sets : SetInv p
  memo : MemoInv tbl p
  queue : QInv tbl p.faults (diff p.sectors p.terminated) p.expirations

theorem fullInv_new (tbl : Table) : FullInv tbl Partition.new :=
  ⟨setInv_new, memoInv_new tbl, by simp [Partition.new]; exact qinv_nil _ _ _⟩

/-- the popped sectors are no longer scheduled -/
theorem popUntil_gone {tbl : Table} {F L : NatSet} (u : Int) :
    ∀ (q : Queue), QInv tbl F L q →
      ∀ x ∈ union (popUntil u q).2.onTime (popUntil u q).2.early, ¬ qsecs (popUntil u q).1 x := by
  intro q
  induction q with
  | nil => intro _ x hx; simp [popUntil, ExpSet.empty, union, diff] at hx
  | cons hd rest ih =>
    obtain ⟨e, es⟩ := hd
    intro hq x hx
    have hdt := head_disj_tail hq
    unfold popUntil at hx ⊢
    by_cases hc : e > u
    · simp only [hc, if_true] at hx
      simp [ExpSet.empty, union, diff] at hx
    · simp only [hc, if_false] at hx ⊢
      cases hp : popUntil u rest with
      | mk q' agg =>
        rw [hp] at hx
        simp only at hx ⊢
        have ih' := ih (qinv_tail hq)
        rw [hp] at ih'
        simp only at ih'
        have hsub : ∀ y, qsecs q' y → qsecs rest y := by
          rintro y ⟨e2, es2, hm, hy⟩
          have := popUntil_rest_sub u rest (e2, es2) (by rw [hp]; exact hm)
          exact ⟨e2, es2, this, hy⟩
        simp only [mem_union] at hx
        rcases hx with (hx | hx) | (hx | hx)
        · exact fun hs => hdt x (by simp [ExpSet.all, hx]) (hsub x hs)
        · exact ih' x (mem_union.mpr (Or.inl hx))
        · exact fun hs => hdt x (by simp [ExpSet.all, hx]) (hsub x hs)
        · exact ih' x (mem_union.mpr (Or.inr hx))

theorem popUntil_qinv {tbl : Table} {F L : NatSet} (u : Int) {q : Queue} (h : QInv tbl F L q) :
    QInv tbl F L (popUntil u q).1 := by
  have hsub := popUntil_rest_sub u q
  refine ⟨?_, fun e es hm => h.entry e es (hsub _ hm),
    fun e1 es1 e2 es2 h1 h2 => h.disj e1 es1 e2 es2 (hsub _ h1) (hsub _ h2)⟩
  -- the rest is a suffix, hence sorted
  have : ∀ (q : Queue), Sorted q → Sorted (popUntil u q).1 := by
    intro q
    induction q with
    | nil => intro _; simp [popUntil, Sorted]
    | cons hd rest ih =>
      obtain ⟨e, es⟩ := hd
      intro hs
      unfold popUntil
      by_cases hc : e > u
      · simp only [hc, if_true]; exact hs
      · simp only [hc, if_false]
        cases hp : popUntil u rest with
        | mk q' agg =>
          have := ih (sorted_tail hs)
          rw [hp] at this
          exact this
  exact this q h.sorted

theorem fullInv_popExpired {tbl : Table} {p p' : Partition} {u : Int} {es : ExpSet}
    (h : FullInv tbl p) (hp : p.popExpiredSectors u = .ok (p', es)) (hs' : SetInv p') :
    FullInv tbl p' := by
  have hsub : ∀ e es, (e, es) ∈ p.expirations → ∀ x ∈ es.all, x ∈ p.sectors := by
    intro e es2 hm x hx
    exact (mem_diff.mp ((h.queue.entry e es2 hm).live x hx)).1
  have hm := memo_popExpired h.sets h.memo (qsum_of_qinv h.queue) hsub hp
  obtain ⟨_, _, _, hes, _, eq, _, e⟩ := Partition.popExpiredSectors_ok hp
  have hgone := popUntil_gone u p.expirations h.queue
  rw [← hes] at hgone
  refine ⟨hs', hm, ?_⟩
  subst e
  show QInv tbl (diff p.faults (union es.onTime es.early))
    (diff p.sectors (union p.terminated (union es.onTime es.early))) (popUntil u p.expirations).1
  apply qinv_frame (popUntil_qinv u h.queue)
  intro x hx
  have hne : x ∉ union es.onTime es.early := fun hin => hgone x hin hx
  have hl := qsecs_live (popUntil_qinv u h.queue) hx
  obtain ⟨a, b⟩ := mem_diff.mp hl
  refine ⟨by simp [mem_diff, hne], mem_diff.mpr ⟨a, fun hin => ?_⟩⟩
  rcases mem_union.mp hin with hin | hin
  · exact b hin
  · exact hne hin

end BA.Sector
