/-
  `remove_active_sectors` (find + per-group `remove`) preserves the full queue invariant:
  the given non-faulty sectors leave the queue and the live set.
-/
import BA.Lemmas.Sector.FullStep

namespace BA.Sector
open BA BA.NatSet

/-! ### groups returned by the search are never empty -/

theorem findDeclared_nonempty (m : Table) {q : Queue} :
    ∀ (ds : List Int) (rem : NatSet) (gs : List Group) (rem' : NatSet),
    findDeclared q m ds rem = .ok (gs, rem') → ∀ g ∈ gs, g.sectors ≠ [] := by
  intro ds
  induction ds with
  | nil =>
    intro rem gs rem' h
    simp only [findDeclared, Except.ok.injEq, Prod.mk.injEq] at h
    obtain ⟨rfl, _⟩ := h; simp
  | cons d rest ih =>
    intro rem gs rem' h
    unfold findDeclared at h
    cases hm : mayGet q d with
    | error e => simp [hm] at h
    | ok es =>
      simp only [hm] at h
      cases hg : groupExpSet m rem es d with
      | mk g r1 =>
        simp only [hg] at h
        cases hf : findDeclared q m rest r1 with
        | error e => simp [hf] at h
        | ok x =>
          obtain ⟨gs2, r2⟩ := x
          simp only [hf, Except.ok.injEq, Prod.mk.injEq] at h
          obtain ⟨rfl, _⟩ := h
          have := ih r1 gs2 r2 hf
          by_cases hem : g.sectors.isEmpty = true
          · simp only [hem, if_true]; exact this
          · simp only [hem, Bool.false_eq_true, if_false]
            intro g' hg'
            rcases List.mem_cons.mp hg' with rfl | hg'
            · intro hnil; rw [hnil] at hem; simp at hem
            · exact this g' hg'

theorem findTraverse_nonempty (m : Table) (declared : List Int) :
    ∀ (qq : Queue) (rem : NatSet) (gs : List Group) (rem' : NatSet),
    findTraverse m declared qq rem = .ok (gs, rem') → ∀ g ∈ gs, g.sectors ≠ [] := by
  intro qq
  induction qq with
  | nil =>
    intro rem gs rem' h
    simp only [findTraverse, Except.ok.injEq, Prod.mk.injEq] at h
    obtain ⟨rfl, _⟩ := h; simp
  | cons hd rest ih =>
    intro rem gs rem' h
    obtain ⟨e, es⟩ := hd
    unfold findTraverse at h
    by_cases hdcl : e ∈ declared
    · simp only [hdcl, if_true] at h; exact ih rem gs rem' h
    · simp only [hdcl, if_false] at h
      by_cases hearly : (es.early.any fun u => decide (u ∈ rem)) = true
      · simp [hearly] at h
      · simp only [hearly, Bool.false_eq_true, if_false] at h
        cases hg : groupExpSet m rem es e with
        | mk g r1 =>
          simp only [hg] at h
          have hhead : ∀ g' ∈ (if g.sectors.isEmpty then ([] : List Group) else [g]), g'.sectors ≠ [] := by
            intro g' hg'
            by_cases hem : g.sectors.isEmpty = true
            · simp [hem] at hg'
            · simp only [hem, Bool.false_eq_true, if_false, List.mem_singleton] at hg'
              subst hg'; intro hnil; rw [hnil] at hem; simp at hem
          by_cases hre : r1.isEmpty = true
          · simp only [hre, if_true, Except.ok.injEq, Prod.mk.injEq] at h
            obtain ⟨rfl, _⟩ := h; exact hhead
          · simp only [hre, Bool.false_eq_true, if_false] at h
            cases hf : findTraverse m declared rest r1 with
            | error err => simp [hf] at h
            | ok y =>
              obtain ⟨gs2, r2⟩ := y
              simp only [hf, Except.ok.injEq, Prod.mk.injEq] at h
              obtain ⟨rfl, _⟩ := h
              have := ih r1 gs2 r2 hf
              by_cases hem : g.sectors.isEmpty = true
              · simp only [hem, if_true]; exact this
              · simp only [hem, Bool.false_eq_true, if_false]
                intro g' hg'
                rcases List.mem_cons.mp hg' with rfl | hg'
                · intro hnil; rw [hnil] at hem; simp at hem
                · exact this g' hg'

theorem find_nonempty {qs : QuantSpec} {q : Queue} {infos : List SectorInfo} {gs : List Group}
    (h : findSectorsByExpiration qs q infos = .ok gs) : ∀ g ∈ gs, g.sectors ≠ [] := by
  unfold findSectorsByExpiration at h
  simp only at h
  cases h1 : findDeclared q (infoMap infos) (declaredEpochs qs infos) (ofList (nums infos)) with
  | error e => simp [h1] at h
  | ok x =>
    obtain ⟨gs1, rem1⟩ := x
    simp only [h1] at h
    have a := findDeclared_nonempty _ _ _ _ _ h1
    by_cases hre : rem1.isEmpty = true
    · simp only [hre, if_true, Bool.not_true, Bool.false_eq_true, if_false, Except.ok.injEq] at h
      subst h
      intro g hg
      have := (sortGroups_perm (gs1 ++ [])).mem_iff.mp hg
      exact a g (by simpa using this)
    · simp only [hre, Bool.false_eq_true, if_false] at h
      cases h2 : findTraverse (infoMap infos) (declaredEpochs qs infos) q rem1 with
      | error e => simp [h2] at h
      | ok y =>
        obtain ⟨gs2, rem2⟩ := y
        simp only [h2] at h
        have b := findTraverse_nonempty _ _ _ _ _ _ h2
        by_cases hre2 : rem2.isEmpty = true
        · simp only [hre2, Bool.not_true, Bool.false_eq_true, if_false, Except.ok.injEq] at h
          subst h
          intro g hg
          rcases List.mem_append.mp ((sortGroups_perm (gs1 ++ gs2)).mem_iff.mp hg) with hg | hg
          · exact a g hg
          · exact b g hg
        · simp [hre2] at h

/-! ### the entry written back by `ExpirationQueue::remove` for a group -/

def updRemove (g : Group) : ExpSet :=
  { onTime := diff g.es.onTime (ofList g.sectors), early := diff g.es.early [],
    pledge := g.es.pledge - g.pledge, active := g.es.active - g.power,
    faulty := g.es.faulty - PowerPair.zero, fee := g.es.fee - g.fee }

theorem updRemove_all (g : Group) : ∀ x ∈ (updRemove g).all, x ∈ g.es.all := by
  intro x hx
  simp only [updRemove, ExpSet.all, List.mem_append, mem_diff] at hx ⊢
  rcases hx with hx | hx
  · exact Or.inl hx.1
  · exact Or.inr hx.1

/-- the written-back entry is exact for the live set without the removed sectors -/
theorem updRemove_ok {tbl : Table} {F L sn : NatSet} {g : Group}
    (h : FaultGroup tbl F L sn g) (hdisj : ∀ x ∈ sn, x ∉ F) :
    EntryOK tbl F (diff L sn) (updRemove g) := by
  have he := h.entry
  have hn := List.nodup_append.mp he.nodup
  have hXF : ∀ x ∈ g.sectors, x ∉ F := fun x hx => hdisj x (h.inSn x hx)
  have hXsub : ∀ x ∈ g.sectors, x ∈ diff g.es.onTime F :=
    fun x hx => mem_diff.mpr ⟨h.onTime x hx, hXF x hx⟩
  have hof : ofList g.sectors = g.sectors := ofList_eq_self h.nodup
  unfold updRemove
  rw [hof, diff_nil_right]
  refine ⟨?_, ?_, he.earlyFaulty, ?_, ?_, ?_, ?_⟩
  · show (diff g.es.onTime g.sectors ++ g.es.early).Nodup
    rw [List.nodup_append]
    exact ⟨nodup_diff hn.1, hn.2.1, fun a ha b hb e => hn.2.2 a (mem_diff.mp ha).1 b hb e⟩
  · intro x hx
    simp only [ExpSet.all, List.mem_append, mem_diff] at hx
    rcases hx with ⟨a, b⟩ | a
    · exact mem_diff.mpr ⟨he.live x (by simp [ExpSet.all, a]),
        fun hs => b (h.all x (by simp [ExpSet.all, a]) hs)⟩
    · refine mem_diff.mpr ⟨he.live x (by simp [ExpSet.all, a]), fun hs => ?_⟩
      have := h.all x (by simp [ExpSet.all, a]) hs
      exact hn.2.2 x (h.onTime x this) x a rfl
  · show g.es.pledge - g.pledge = sumBy (tw tbl (·.pledge)) (diff g.es.onTime g.sectors)
    rw [he.pledge, h.pledge, sum_diff_subset _ hn.1 h.nodup h.onTime]
  · show g.es.active - g.power = powOf tbl (diff (diff g.es.onTime g.sectors) F)
    rw [he.active, h.power, ← powOf_diff_sub tbl (nodup_diff hn.1) h.nodup hXsub]
    apply powOf_congr tbl (nodup_diff (nodup_diff hn.1)) (nodup_diff (nodup_diff hn.1))
    intro x
    simp only [mem_diff]
    constructor
    · rintro ⟨⟨a, b⟩, c⟩; exact ⟨⟨a, c⟩, b⟩
    · rintro ⟨⟨a, b⟩, c⟩; exact ⟨⟨a, c⟩, b⟩
  · show g.es.faulty - PowerPair.zero = powOf tbl (inter (diff g.es.onTime g.sectors) F ++ g.es.early)
    rw [he.faulty]
    have : powOf tbl (inter g.es.onTime F ++ g.es.early) =
        powOf tbl (inter (diff g.es.onTime g.sectors) F ++ g.es.early) := by
      apply powOf_congr tbl
      · rw [List.nodup_append]
        exact ⟨nodup_inter hn.1, hn.2.1, fun a ha b hb e => hn.2.2 a (mem_inter.mp ha).1 b hb e⟩
      · rw [List.nodup_append]
        exact ⟨nodup_inter (nodup_diff hn.1), hn.2.1,
          fun a ha b hb e => hn.2.2 a (mem_diff.mp (mem_inter.mp ha).1).1 b hb e⟩
      · intro x
        simp only [List.mem_append, mem_inter, mem_diff]
        constructor
        · rintro (⟨a, b⟩ | a)
          · exact Or.inl ⟨⟨a, fun h' => hXF x h' b⟩, b⟩
          · exact Or.inr a
        · rintro (⟨⟨a, _⟩, c⟩ | a)
          · exact Or.inl ⟨a, c⟩
          · exact Or.inr a
    rw [← this]
    ext <;> simp
  · show g.es.fee - g.fee = sumBy (tw tbl (·.fee)) (diff g.es.onTime g.sectors ++ g.es.early)
    rw [he.fee, h.fee]
    simp only [ExpSet.all, sumBy_append]
    rw [sum_diff_subset _ hn.1 h.nodup h.onTime]
    omega

end BA.Sector

namespace BA.Sector
open BA BA.NatSet

theorem expSet_remove_ok {es es' : ExpSet} {on early : NatSet} {pl : Int} {a f : PowerPair} {fee : Int}
    (h : es.remove on early pl a f fee = .ok es') :
    (∀ x ∈ on, x ∈ es.onTime) ∧
    es' = { onTime := diff es.onTime on, early := diff es.early early, pledge := es.pledge - pl,
            active := es.active - a, faulty := es.faulty - f, fee := es.fee - fee } := by
  unfold ExpSet.remove at h
  by_cases h1 : containsAll es.onTime on = true
  · simp only [h1, Bool.not_true, Bool.false_eq_true, if_false] at h
    by_cases h2 : containsAll es.early early = true
    · simp only [h2, Bool.not_true, Bool.false_eq_true, if_false] at h
      split at h
      · simp at h
      · split at h
        · simp at h
        · split at h
          · simp at h
          · split at h
            · simp at h
            · simp only [Except.ok.injEq] at h
              exact ⟨containsAll_iff.mp h1, h.symm⟩
    · simp [h2] at h
  · simp [h1] at h

/-- sequential `remove` of the groups: every entry of the result is a written-back group entry or
    an untouched old entry (`q0`: an invariant queue that `q` shrinks) -/
theorem removeGroups_struct {tbl : Table} {F L : NatSet} (qs : QuantSpec) {q0 : Queue}
    (h0 : QInv tbl F L q0) :
    ∀ (gs : List Group) (q q2 : Queue), Sorted q → (gs.map (·.epoch)).Nodup →
    (∀ g ∈ gs, (g.epoch, g.es) ∈ q ∧ g.sectors ≠ [] ∧ ∀ x ∈ g.sectors, x ∈ g.es.onTime) →
    (∀ e v, (e, v) ∈ q → ∃ es0, (e, es0) ∈ q0 ∧ ∀ x ∈ v.all, x ∈ es0.all) →
    removeGroups qs q gs = .ok q2 →
    Sorted q2 ∧ ∀ e v, (e, v) ∈ q2 → (∃ g ∈ gs, e = g.epoch ∧ v = updRemove g) ∨
      ((e, v) ∈ q ∧ ∀ g ∈ gs, g.epoch ≠ e) := by
  intro gs
  induction gs with
  | nil =>
    intro q q2 hs _ _ _ h
    simp only [removeGroups, Except.ok.injEq] at h
    subst h
    exact ⟨hs, fun e v hm => Or.inr ⟨hm, by simp⟩⟩
  | cons g rest ih =>
    intro q q2 hs hnd hin hshr h
    simp only [List.map_cons, List.nodup_cons] at hnd
    unfold removeGroups at h
    cases hq : qremove qs q g.epoch (ofList g.sectors) [] g.power PowerPair.zero g.pledge g.fee with
    | error e => simp [hq] at h
    | ok q1 =>
      simp only [hq] at h
      obtain ⟨gin, gne, gon⟩ := hin g (by simp)
      -- analyse the qremove
      unfold qremove at hq
      simp only at hq
      cases hk : keyCheck (qs.quantizeUp g.epoch) with
      | error e => simp [hk] at hq
      | ok u =>
        simp only [hk] at hq
        cases hg : qget (qs.quantizeUp g.epoch) q with
        | none => simp [hg] at hq
        | some esk =>
          simp only [hg] at hq
          cases hr : esk.remove (ofList g.sectors) [] g.pledge g.power PowerPair.zero g.fee with
          | error e => simp [hr] at hq
          | ok es' =>
            simp only [hr] at hq
            obtain ⟨hcont, hform⟩ := expSet_remove_ok hr
            have hkin := mem_of_qget hg
            -- the key is the group's epoch
            obtain ⟨x0, hx0⟩ : ∃ x0, x0 ∈ g.sectors := by
              cases hs' : g.sectors with
              | nil => exact absurd hs' gne
              | cons y t => exact ⟨y, by simp⟩
            have hx0k : x0 ∈ esk.all := by
              simp [ExpSet.all, hcont x0 (mem_ofList.mpr hx0)]
            have hx0g : x0 ∈ g.es.all := by simp [ExpSet.all, gon x0 hx0]
            obtain ⟨a, ha, sa⟩ := hshr _ _ hkin
            obtain ⟨b, hb, sb⟩ := hshr _ _ gin
            have hkey : qs.quantizeUp g.epoch = g.epoch :=
              h0.disj _ a _ b ha hb x0 (sa x0 hx0k) (sb x0 hx0g)
            rw [hkey] at hkin hq
            have hesk : esk = g.es := sorted_unique hs hkin gin
            subst hesk
            have hes' : es' = updRemove g := by rw [hform]; rfl
            subst hes'
            have hq1 : Sorted q1 ∧ (∀ x, x ∈ q1 → x = (g.epoch, updRemove g) ∨ (x ∈ q ∧ x.1 ≠ g.epoch)) ∧
                (∀ x, x ∈ q → x.1 ≠ g.epoch → x ∈ q1) := by
              unfold mustUpdateOrDelete at hq
              cases hk2 : keyCheck g.epoch with
              | error e => simp [hk2] at hq
              | ok u2 =>
                simp only [hk2, Except.ok.injEq] at hq
                subst hq
                by_cases hem : (updRemove g).isEmpty = true
                · simp only [hem, if_true]
                  exact ⟨sorted_qdel hs _, fun x hx => Or.inr ((mem_qdel_iff hs _ x).mp hx),
                    fun x hx hne => (mem_qdel_iff hs _ x).mpr ⟨hx, hne⟩⟩
                · simp only [hem, Bool.false_eq_true, if_false]
                  exact ⟨sorted_qset hs _ _, fun x hx => (mem_qset_iff hs _ _ x).mp hx,
                    fun x hx hne => (mem_qset_iff hs _ _ x).mpr (Or.inr ⟨hx, hne⟩)⟩
            have hin1 : ∀ g' ∈ rest, (g'.epoch, g'.es) ∈ q1 ∧ g'.sectors ≠ [] ∧
                ∀ x ∈ g'.sectors, x ∈ g'.es.onTime := by
              intro g' hg'
              obtain ⟨i1, i2, i3⟩ := hin g' (List.mem_cons_of_mem _ hg')
              refine ⟨hq1.2.2 _ i1 ?_, i2, i3⟩
              intro he
              exact hnd.1 (List.mem_map.mpr ⟨g', hg', he⟩)
            have hshr1 : ∀ e v, (e, v) ∈ q1 → ∃ es0, (e, es0) ∈ q0 ∧ ∀ x ∈ v.all, x ∈ es0.all := by
              intro e v hm
              rcases hq1.2.1 _ hm with hx | ⟨hx, _⟩
              · cases hx
                exact ⟨b, hb, fun x hx' => sb x (updRemove_all g x hx')⟩
              · exact hshr e v hx
            obtain ⟨j1, j2⟩ := ih q1 q2 hq1.1 hnd.2 hin1 hshr1 h
            refine ⟨j1, ?_⟩
            intro e v hmem
            rcases j2 e v hmem with ⟨g', hg', a', b'⟩ | ⟨hm1, hne⟩
            · exact Or.inl ⟨g', List.mem_cons_of_mem _ hg', a', b'⟩
            · rcases hq1.2.1 _ hm1 with hx | ⟨hx, hne1⟩
              · exact Or.inl ⟨g, by simp, (Prod.mk.inj hx).1, (Prod.mk.inj hx).2⟩
              · refine Or.inr ⟨hx, ?_⟩
                intro g' hg'
                rcases List.mem_cons.mp hg' with rfl | hg'
                · exact fun he => hne1 he.symm
                · exact hne g' hg'

/-- **`remove_active_sectors` preserves the queue invariant**: the given sectors (distinct, the
    table's infos, non-faulty) leave the queue; the live set shrinks by them; the returned totals
    are the sectors' totals -/
theorem removeActiveSectors_qinv {tbl : Table} {F L : NatSet} {qs : QuantSpec} {q q' : Queue}
    {infos : List SectorInfo} {ns : NatSet} {pw : PowerPair} {pl fee : Int} (h : QInv tbl F L q)
    (hn : (nums infos).Nodup) (ht : ∀ i ∈ infos, alookup i.num tbl = some i)
    (hdisj : ∀ x ∈ nums infos, x ∉ F)
    (hr : removeActiveSectors qs q infos = .ok (q', ns, pw, pl, fee)) :
    QInv tbl F (diff L (nums infos)) q' ∧ (∀ x, x ∈ ns ↔ x ∈ nums infos) ∧ ns.Nodup ∧
    pw = sumPow infos ∧ pl = sumPledge infos ∧ fee = sumFee infos ∧
    (∀ x ∈ nums infos, ¬ qsecs q' x) ∧ (∀ x, qsecs q' x → qsecs q x) := by
  unfold removeActiveSectors at hr
  cases hf : findSectorsByExpiration qs q infos with
  | error e => simp [hf] at hr
  | ok gs =>
    simp only [hf] at hr
    obtain ⟨a1, _⟩ := find_spec (fun _ => 0) (qinv_nodup h) hf
    obtain ⟨b1, b2⟩ := find_struct h.sorted hf
    have bne := find_nonempty hf
    obtain ⟨p1, p2, p3⟩ := find_power (qinv_nodup h) hn hf
    rw [ofList_eq_self hn] at b1 b2
    have hag := agrees_infoMap hn ht
    have hm : ∀ x ∈ nums infos, alookup x (infoMap infos) = alookup x tbl := fun x hx => by
      obtain ⟨i, a, b, _⟩ := hag x hx; rw [a, b]
    have hFG : ∀ g ∈ gs, FaultGroup tbl F L (nums infos) g := by
      intro g hg
      obtain ⟨c1, c2, c3, c4, _, _⟩ := a1 g hg
      have hsub : ∀ x ∈ g.sectors, alookup x (infoMap infos) = alookup x tbl :=
        fun x hx => hm x ((b1.secs g hg x hx).2)
      refine ⟨h.entry _ _ (b1.inq g hg), c4, fun x hx => (b1.secs g hg x hx).1,
        fun x hx => (b1.secs g hg x hx).2, ?_, ?_, ?_, ?_⟩
      · intro x hx hs
        obtain ⟨g', hg', hx'⟩ := b2 x hs
        have hx'' : x ∈ g'.es.all := by simp [ExpSet.all, (b1.secs g' hg' x hx').1]
        have he := h.disj g'.epoch g'.es g.epoch g.es (b1.inq g' hg') (b1.inq g hg) x hx'' hx
        have := nodup_map_inj (·.epoch) b1.epochs g' hg' g hg he
        rw [← this]; exact hx'
      · rw [c1, ← powOf_congr_tbl hsub]; rfl
      · rw [c2, sumBy_congr_tbl _ hsub]
      · rw [c3, sumBy_congr_tbl _ hsub]
    cases hrg : removeGroups qs q gs with
    | error e => simp [hrg] at hr
    | ok q1 =>
      simp only [hrg, Except.ok.injEq, Prod.mk.injEq] at hr
      obtain ⟨rfl, rfl, rfl, rfl, rfl⟩ := hr
      obtain ⟨d1, d2⟩ := removeGroups_struct qs h gs q q1 h.sorted b1.epochs
        (fun g hg => ⟨b1.inq g hg, bne g hg, fun x hx => (b1.secs g hg x hx).1⟩)
        (fun e v hm' => ⟨v, hm', fun x hx => hx⟩) hrg
      have untouched : ∀ e v, (e, v) ∈ q → (∀ g ∈ gs, g.epoch ≠ e) → ∀ x ∈ v.all, x ∉ nums infos := by
        intro e v hmem hne x hx hs
        obtain ⟨g', hg', hx'⟩ := b2 x hs
        have hx'' : x ∈ g'.es.all := by simp [ExpSet.all, (b1.secs g' hg' x hx').1]
        exact hne g' hg' (h.disj g'.epoch g'.es e v (b1.inq g' hg') hmem x hx'' hx)
      have hshrink : ∀ e v, (e, v) ∈ q1 → ∃ es0, (e, es0) ∈ q ∧ (∀ x ∈ v.all, x ∈ es0.all) ∧
          EntryOK tbl F (diff L (nums infos)) v := by
        intro e v hmem
        rcases d2 e v hmem with ⟨g, hg, rfl, rfl⟩ | ⟨hq, hne⟩
        · exact ⟨g.es, b1.inq g hg, updRemove_all g, updRemove_ok (hFG g hg) hdisj⟩
        · refine ⟨v, hq, fun x hx => hx, ?_⟩
          apply entryOK_frame (h.entry e v hq) (fun x _ => Iff.rfl)
          intro x hx
          exact mem_diff.mpr ⟨(h.entry e v hq).live x hx, untouched e v hq hne x hx⟩
      have hgs : ∀ x, x ∈ groupsSectors gs ↔ x ∈ nums infos := by
        intro x
        simp only [groupsSectors, List.mem_flatMap]
        constructor
        · rintro ⟨g, hg, hx⟩; exact (b1.secs g hg x hx).2
        · intro hx; exact b2 x hx
      refine ⟨qinv_of_shrink h d1 hshrink, fun x => by rw [mem_ofList]; exact hgs x, nodup_ofList _,
        p1, p2, p3, ?_, ?_⟩
      · intro x hx ⟨e, v, hmem, hxv⟩
        obtain ⟨es0, _, _, hok⟩ := hshrink e v hmem
        exact (mem_diff.mp (hok.live x hxv)).2 hx
      · rintro x ⟨e, v, hmem, hxv⟩
        obtain ⟨es0, hm0, hsub, _⟩ := hshrink e v hmem
        exact ⟨e, es0, hm0, hsub x hxv⟩

end BA.Sector
