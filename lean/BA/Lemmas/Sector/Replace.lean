/-
  replace_sectors (replica update style: old infos out, new infos in, the caller stores the new
  infos in the Sectors table afterwards) preserves the full invariant w.r.t. the UPDATED table.
  `stepT`/`runT`: the transition system in which the table follows the calls.
-/
import BA.Lemmas.Sector.FullStep2

namespace BA.Sector
open BA BA.NatSet

/-- `Sectors::store(new)` -/
def storeInfos (tbl : Table) (new : List SectorInfo) : Table :=
  new.foldl (fun t i => aset i.num i t) tbl

theorem alookup_store_notin (new : List SectorInfo) (tbl : Table) (n : Nat) (h : n ∉ nums new) :
    alookup n (storeInfos tbl new) = alookup n tbl :=
  alookup_foldl_aset_notin new tbl n h

theorem alookup_store_mem {new : List SectorInfo} (hn : (nums new).Nodup) (tbl : Table)
    {i : SectorInfo} (hi : i ∈ new) : alookup i.num (storeInfos tbl new) = some i := by
  unfold storeInfos
  induction new generalizing tbl with
  | nil => simp at hi
  | cons j t ih =>
    simp only [nums, List.map_cons, List.nodup_cons] at hn
    simp only [List.foldl_cons]
    rcases List.mem_cons.mp hi with rfl | hi
    · rw [alookup_foldl_aset_notin _ _ _ (by simpa [nums] using hn.1)]
      exact alookup_aset_same _ _ _
    · exact ih (by simpa [nums] using hn.2) _ hi

theorem tableWF_store {tbl : Table} (hw : TableWF tbl) (new : List SectorInfo) :
    TableWF (storeInfos tbl new) := by
  unfold storeInfos
  induction new generalizing tbl with
  | nil => exact hw
  | cons j t ih =>
    simp only [List.foldl_cons]
    apply ih
    intro n i h
    by_cases hn : n = j.num
    · subst hn; rw [alookup_aset_same] at h; cases h; rfl
    · rw [alookup_aset_other _ _ _ _ hn] at h; exact hw n i h

/-- an entry none of whose sectors changed in the table -/
theorem entryOK_tbl_frame {tbl tbl' : Table} {F L : NatSet} {es : ExpSet} (h : EntryOK tbl F L es)
    (hsame : ∀ x ∈ es.all, alookup x tbl' = alookup x tbl) : EntryOK tbl' F L es := by
  have hon : ∀ x ∈ es.onTime, alookup x tbl' = alookup x tbl :=
    fun x hx => hsame x (by simp [ExpSet.all, hx])
  refine ⟨h.nodup, h.live, h.earlyFaulty, ?_, ?_, ?_, ?_⟩
  · rw [h.pledge]; exact (sumBy_congr_tbl _ hon).symm
  · rw [h.active]
    exact (powOf_congr_tbl (fun x hx => hon x (mem_diff.mp hx).1)).symm
  · rw [h.faulty]
    apply (powOf_congr_tbl _).symm
    intro x hx
    rcases List.mem_append.mp hx with hx | hx
    · exact hon x (mem_inter.mp hx).1
    · exact hsame x (by simp [ExpSet.all, hx])
  · rw [h.fee]; exact (sumBy_congr_tbl _ hsame).symm

theorem qinv_tbl_frame {tbl tbl' : Table} {F L : NatSet} {q : Queue} (h : QInv tbl F L q)
    (hsame : ∀ x, qsecs q x → alookup x tbl' = alookup x tbl) : QInv tbl' F L q :=
  ⟨h.sorted, fun e es hm => entryOK_tbl_frame (h.entry e es hm)
    (fun x hx => hsame x ⟨e, es, hm, hx⟩), h.disj⟩

/-- what the caller of replace_sectors guarantees: the old infos are the table's infos of distinct
    sectors; the new infos have distinct numbers, none of which is another sector of the partition -/
structure ReplaceWF (tbl : Table) (p : Partition) (old new : List SectorInfo) : Prop where
  oldNodup : (nums old).Nodup
  oldTbl : ∀ i ∈ old, alookup i.num tbl = some i
  newNodup : (nums new).Nodup
  newFresh : ∀ x ∈ nums new, x ∈ p.sectors → x ∈ nums old

theorem fullInv_replace {tbl : Table} {p p' : Partition} {qs : QuantSpec} {old new : List SectorInfo}
    {pd : PowerPair} {pl fd : Int} (h : FullInv tbl p) (hwf : ReplaceWF tbl p old new)
    (hs' : SetInv p') (hr : p.replaceSectors qs old new = .ok (p', pd, pl, fd)) :
    FullInv (storeInfos tbl new) p' := by
  obtain ⟨q', oldNs, newNs, hq, hact, _, e⟩ := Partition.replaceSectors_ok hr
  have hnn := replaceSectorsQ_ok hq
  unfold replaceSectorsQ at hq
  cases hra : removeActiveSectors qs p.expirations old with
  | error e => simp [hra] at hq
  | ok x =>
    obtain ⟨q1, ns1, oldPow, oldPl, oldFee⟩ := x
    simp only [hra] at hq
    cases haa : addActiveSectors qs q1 new with
    | error e => simp [haa] at hq
    | ok y =>
      obtain ⟨q2, ns2, newPow, newPl, newFee⟩ := y
      simp only [haa, Except.ok.injEq, Prod.mk.injEq] at hq
      obtain ⟨rfl, rfl, rfl, rfl, _, _⟩ := hq
      -- the removed numbers are the old numbers (structure of the search only)
      have hmem1 : ∀ x, x ∈ ns1 ↔ x ∈ nums old := by
        unfold removeActiveSectors at hra
        cases hf : findSectorsByExpiration qs p.expirations old with
        | error e => simp [hf] at hra
        | ok gs =>
          simp only [hf] at hra
          cases hrg : removeGroups qs p.expirations gs with
          | error e => simp [hrg] at hra
          | ok q1' =>
            simp only [hrg, Except.ok.injEq, Prod.mk.injEq] at hra
            obtain ⟨_, rfl, _⟩ := hra
            obtain ⟨b1, b2⟩ := find_struct h.queue.sorted hf
            rw [ofList_eq_self hwf.oldNodup] at b1 b2
            intro x
            simp only [mem_ofList, groupsSectors, List.mem_flatMap]
            exact ⟨fun ⟨g, hg, hx⟩ => (b1.secs g hg x hx).2, fun hx => b2 x hx⟩
      have hs := h.sets
      have hm := h.memo
      -- old sectors are active
      have hold : ∀ x ∈ nums old, x ∈ p.sectors ∧ x ∉ p.terminated ∧ x ∉ p.faults ∧ x ∉ p.unproven := by
        intro x hx
        have := hact x ((hmem1 x).mpr hx)
        simp only [Partition.activeSectors, Partition.liveSectors, mem_diff] at this
        exact ⟨this.1.1.1, this.1.1.2, this.1.2, this.2⟩
      obtain ⟨a1, _, a3, a4, _, _, a7, a8⟩ := removeActiveSectors_qinv h.queue hwf.oldNodup hwf.oldTbl
        (fun x hx => (hold x hx).2.2.1) hra
      have hnewnum : ns2 = nums new := by rw [hnn, ofList_eq_self hwf.newNodup]
      -- new numbers: old ones or not in the partition
      have hnewS : ∀ x ∈ nums new, x ∉ p.terminated ∧ x ∉ p.faults ∧ x ∉ p.unproven ∧ x ∉ p.recoveries := by
        intro x hx
        by_cases hS : x ∈ p.sectors
        · obtain ⟨_, t, f, u⟩ := hold x (hwf.newFresh x hx hS)
          exact ⟨t, f, u, fun hr' => f (hs.recSub x hr')⟩
        · exact ⟨fun ht => hS (hs.termSub x ht), fun hf => hS (hs.faultSub x hf).1,
            fun hu => hS (hs.unprovenSub x hu).1, fun hr' => hS (hs.faultSub x (hs.recSub x hr')).1⟩
      have hsame : ∀ x, x ∉ nums new → alookup x (storeInfos tbl new) = alookup x tbl :=
        fun x hx => alookup_store_notin new tbl x hx
      -- scheduled sectors of q1 are not new numbers
      have hq1new : ∀ x, qsecs q1 x → x ∉ nums new := by
        intro x hx hn
        have hl := qsecs_live a1 hx
        obtain ⟨l1, l2⟩ := mem_diff.mp hl
        exact l2 (hwf.newFresh x hn (mem_diff.mp l1).1)
      have hpowsame : ∀ (X : NatSet), (∀ x ∈ X, x ∉ nums new) →
          powOf (storeInfos tbl new) X = powOf tbl X :=
        fun X hX => powOf_congr_tbl (fun x hx => hsame x (hX x hx))
      have hnewTbl : ∀ i ∈ new, alookup i.num (storeInfos tbl new) = some i :=
        fun i hi => alookup_store_mem hwf.newNodup tbl hi
      subst e
      refine ⟨hs', ⟨?_, ?_, ?_, ?_, ?_⟩, ?_⟩
      · -- live
        show p.livePower + (newPow - oldPow) =
          powOf (storeInfos tbl new) (diff (union (diff p.sectors ns1) ns2) p.terminated)
        obtain ⟨_, _, e3, _, _⟩ := addActiveSectors_ok haa
        rw [e3, a4, sumPow_tbl hnewTbl, sumPow_tbl hwf.oldTbl, hm.live, hnewnum]
        have hL := nodup_diff (b := p.terminated) hs.nodupS
        have e1 : powOf (storeInfos tbl new) (diff (union (diff p.sectors ns1) (nums new)) p.terminated) =
            powOf (storeInfos tbl new) (diff (diff p.sectors p.terminated) (nums old) ++ nums new) := by
          apply powOf_congr
          · exact nodup_diff (nodup_union (nodup_diff hs.nodupS) hwf.newNodup)
          · rw [List.nodup_append]
            refine ⟨nodup_diff hL, hwf.newNodup, ?_⟩
            intro a ha b hb eab
            subst eab
            obtain ⟨t1, t2⟩ := mem_diff.mp ha
            exact t2 (hwf.newFresh a hb (mem_diff.mp t1).1)
          · intro x
            simp only [mem_diff, mem_union, List.mem_append, hmem1 x]
            constructor
            · rintro ⟨⟨a, b⟩ | a, c⟩
              · exact Or.inl ⟨⟨a, c⟩, b⟩
              · exact Or.inr a
            · rintro (⟨⟨a, c⟩, b⟩ | a)
              · exact ⟨Or.inl ⟨a, b⟩, c⟩
              · exact ⟨Or.inr a, (hnewS x a).1⟩
        rw [e1, powOf_append, hpowsame _ (fun x hx hn => (mem_diff.mp hx).2
            (hwf.newFresh x hn (mem_diff.mp (mem_diff.mp hx).1).1)),
          powOf_diff_sub tbl hL hwf.oldNodup
            (fun x hx => mem_diff.mpr ⟨(hold x hx).1, (hold x hx).2.1⟩)]
        ext <;> simp <;> omega
      · show p.unprovenPower = powOf (storeInfos tbl new) p.unproven
        rw [hm.unproven, hpowsame _ (fun x hx hn => (hnewS x hn).2.2.1 hx)]
      · show p.faultyPower = powOf (storeInfos tbl new) p.faults
        rw [hm.faulty, hpowsame _ (fun x hx hn => (hnewS x hn).2.1 hx)]
      · show p.recoveringPower = powOf (storeInfos tbl new) p.recoveries
        rw [hm.recovering, hpowsame _ (fun x hx hn => (hnewS x hn).2.2.2 hx)]
      · -- QNodup of the final queue: from its full invariant (below); prove the queue first
        have := (addActiveSectors_ok haa).1
        exact addGroups_nodup (qinv_nodup a1) this
      · -- queue
        show QInv (storeInfos tbl new) p.faults (diff (union (diff p.sectors ns1) ns2) p.terminated) q2
        have hq1' : QInv (storeInfos tbl new) p.faults
            (diff (union (diff p.sectors ns1) ns2) p.terminated) q1 := by
          apply qinv_frame (qinv_tbl_frame a1 (fun x hx => hsame x (hq1new x hx)))
          intro x hx
          have hl := qsecs_live a1 hx
          obtain ⟨l1, l2⟩ := mem_diff.mp hl
          obtain ⟨l3, l4⟩ := mem_diff.mp l1
          exact ⟨Iff.rfl, mem_diff.mpr ⟨mem_union.mpr (Or.inl (mem_diff.mpr ⟨l3,
            fun h' => l2 ((hmem1 x).mp h')⟩)), l4⟩⟩
        have hfr : FreshInfos (storeInfos tbl new) p.faults
            (diff (union (diff p.sectors ns1) ns2) p.terminated) q1 new := by
          have hmem : ∀ i ∈ new, i.num ∈ nums new := fun i hi => List.mem_map_of_mem hi
          refine ⟨hwf.newNodup, hnewTbl, fun i hi hsx => hq1new _ hsx (hmem i hi), ?_, ?_⟩
          · intro i hi
            refine mem_diff.mpr ⟨mem_union.mpr (Or.inr ?_), (hnewS _ (hmem i hi)).1⟩
            rw [hnewnum]; exact hmem i hi
          · intro i hi; exact (hnewS _ (hmem i hi)).2.1
        exact (addActiveSectors_qinv hq1' hfr haa).1

end BA.Sector

namespace BA.Sector
open BA BA.NatSet

/-! ### the transition system in which the sector table follows the calls -/

/-- the caller stores the new infos after a successful replace_sectors -/
def tblAfter (tbl : Table) : Op → Ret → Table
  | .replaceSectors _ new, .replaced _ _ _ => storeInfos tbl new
  | _, _ => tbl

def stepT (env : Env) (p : Partition) (op : Op) : Env × Partition :=
  ({ env with tbl := tblAfter env.tbl op (step env p op).2 }, (step env p op).1)

def runT (env : Env) (p : Partition) : List Op → Env × Partition
  | [] => (env, p)
  | op :: rest => runT (stepT env p op).1 (stepT env p op).2 rest

/-- what the callers guarantee for a call in the current state -/
def OpOK (env : Env) (p : Partition) (op : Op) : Prop :=
  OpWF op ∧ OpWF2 env.tbl op ∧
  match op with
  | .replaceSectors old new => ReplaceWF env.tbl p old new
  | _ => True

def RunOK (env : Env) (p : Partition) : List Op → Prop
  | [] => True
  | op :: rest => OpOK env p op ∧ RunOK (stepT env p op).1 (stepT env p op).2 rest

theorem tblAfter_of_not_replace {tbl : Table} {op : Op} (r : Ret)
    (h : ∀ old new, op ≠ .replaceSectors old new) : tblAfter tbl op r = tbl := by
  cases op <;> first | rfl | exact absurd rfl (h _ _)

theorem fullInv_stepT {env : Env} {p : Partition} {op : Op} (hw : TableWF env.tbl)
    (h : FullInv env.tbl p) (hok : OpOK env p op) :
    TableWF (stepT env p op).1.tbl ∧ FullInv (stepT env p op).1.tbl (stepT env p op).2 := by
  obtain ⟨h1, h2, h3⟩ := hok
  unfold stepT
  simp only
  unfold step
  cases hs : stepE env p op with
  | error e =>
    simp only
    have : tblAfter env.tbl op (.err e) = env.tbl := by cases op <;> rfl
    rw [this]; exact ⟨hw, h⟩
  | ok x =>
    obtain ⟨p', r⟩ := x
    simp only
    cases op with
    | replaceSectors old new =>
      have hs' : SetInv p' := setInv_stepE h.sets h1 hs
      simp only [stepE] at hs
      cases hx : p.replaceSectors env.qs old new with
      | error e => simp [hx] at hs
      | ok y =>
        obtain ⟨p1, d, pl, f⟩ := y
        simp only [hx, Except.ok.injEq, Prod.mk.injEq] at hs
        obtain ⟨rfl, rfl⟩ := hs
        exact ⟨tableWF_store hw new, fullInv_replace h h3 hs' hx⟩
    | addSectors proven infos =>
      exact ⟨hw, fullInv_stepE2 hw h h1 h2 (by simp [TierC, TierB, TierA]) hs⟩
    | recordFaults sn fe => exact ⟨hw, fullInv_stepE2 hw h h1 h2 (by simp [TierC, TierB, TierA]) hs⟩
    | declareFaultsRecovered sn =>
      exact ⟨hw, fullInv_stepE2 hw h h1 h2 (by simp [TierC, TierB, TierA]) hs⟩
    | recoverFaults => exact ⟨hw, fullInv_stepE2 hw h h1 h2 (by simp [TierC, TierB, TierA]) hs⟩
    | activateUnproven => exact ⟨hw, fullInv_stepE2 hw h h1 h2 (by simp [TierC, TierB, TierA]) hs⟩
    | recordMissedPost fe => exact ⟨hw, fullInv_stepE2 hw h h1 h2 (by simp [TierC, TierB, TierA]) hs⟩
    | popExpiredSectors u => exact ⟨hw, fullInv_stepE2 hw h h1 h2 (by simp [TierC, TierB]) hs⟩
    | terminateSectors ep sn => exact ⟨hw, fullInv_stepE2 hw h h1 h2 (by simp [TierC]) hs⟩
    | recordSkippedFaults fe sk =>
      exact ⟨hw, fullInv_stepE2 hw h h1 h2 (by simp [TierC, TierB, TierA]) hs⟩
    | rescheduleExpirations ne sn => exact ⟨hw, fullInv_stepE2 hw h h1 h2 (by simp [TierC]) hs⟩
    | popEarlyTerminations m =>
      exact ⟨hw, fullInv_stepE2 hw h h1 h2 (by simp [TierC, TierB, TierA]) hs⟩

theorem fullInv_runT : ∀ (ops : List Op) (env : Env) (p : Partition), TableWF env.tbl →
    FullInv env.tbl p → RunOK env p ops →
    TableWF (runT env p ops).1.tbl ∧ FullInv (runT env p ops).1.tbl (runT env p ops).2 := by
  intro ops
  induction ops with
  | nil => intro env p hw h _; exact ⟨hw, h⟩
  | cons op rest ih =>
    intro env p hw h hok
    obtain ⟨h1, h2⟩ := hok
    obtain ⟨a, b⟩ := fullInv_stepT hw h h1
    exact ih _ _ a b h2

/-! ### the hypotheses are decidable (used by the non-vacuity examples) -/

instance (tbl : Table) (p : Partition) (old new : List SectorInfo) : Decidable (ReplaceWF tbl p old new) :=
  decidable_of_iff ((nums old).Nodup ∧ (∀ i ∈ old, alookup i.num tbl = some i) ∧ (nums new).Nodup ∧
    (∀ x ∈ nums new, x ∈ p.sectors → x ∈ nums old))
    ⟨fun ⟨a, b, c, d⟩ => ⟨a, b, c, d⟩, fun ⟨a, b, c, d⟩ => ⟨a, b, c, d⟩⟩

instance : ∀ op, Decidable (OpWF op)
  | .recordFaults sn _ => inferInstanceAs (Decidable sn.Nodup)
  | .declareFaultsRecovered sn => inferInstanceAs (Decidable sn.Nodup)
  | .terminateSectors _ sn => inferInstanceAs (Decidable sn.Nodup)
  | .recordSkippedFaults _ sk => inferInstanceAs (Decidable sk.Nodup)
  | .rescheduleExpirations _ sn => inferInstanceAs (Decidable sn.Nodup)
  | .addSectors _ _ => isTrue trivial
  | .recoverFaults => isTrue trivial
  | .activateUnproven => isTrue trivial
  | .recordMissedPost _ => isTrue trivial
  | .popExpiredSectors _ => isTrue trivial
  | .replaceSectors _ _ => isTrue trivial
  | .popEarlyTerminations _ => isTrue trivial

instance (tbl : Table) : ∀ op, Decidable (OpWF2 tbl op)
  | .addSectors _ infos => inferInstanceAs (Decidable ((nums infos).Nodup ∧ ∀ i ∈ infos, alookup i.num tbl = some i))
  | .recordFaults _ _ => isTrue trivial
  | .declareFaultsRecovered _ => isTrue trivial
  | .terminateSectors _ _ => isTrue trivial
  | .recordSkippedFaults _ _ => isTrue trivial
  | .rescheduleExpirations _ _ => isTrue trivial
  | .recoverFaults => isTrue trivial
  | .activateUnproven => isTrue trivial
  | .recordMissedPost _ => isTrue trivial
  | .popExpiredSectors _ => isTrue trivial
  | .replaceSectors _ _ => isTrue trivial
  | .popEarlyTerminations _ => isTrue trivial

instance (env : Env) (p : Partition) (op : Op) : Decidable (OpOK env p op) := by
  unfold OpOK
  cases op <;> exact inferInstance

instance : ∀ (ops : List Op) (env : Env) (p : Partition), Decidable (RunOK env p ops)
  | [], _, _ => isTrue trivial
  | op :: rest, env, p =>
    have := instDecidableRunOK rest (stepT env p op).1 (stepT env p op).2
    inferInstanceAs (Decidable (OpOK env p op ∧ RunOK (stepT env p op).1 (stepT env p op).2 rest))

end BA.Sector
