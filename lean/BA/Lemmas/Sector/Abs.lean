/-
  The abstraction map to Level 1: the concrete memos are the Level-1 recomputed summaries;
  `validate_state` is implied by the invariants; power deltas telescope.
-/
import BA.Lemmas.Sector.Memo

namespace BA.Sector
open BA BA.NatSet

theorem withStatus_map (f : Spec.Status → Bool) (g : Nat → Spec.Status) (l : List Nat) :
    Spec.withStatus f { secs := l.map (fun n => (n, g n)) } = l.filter (fun n => f (g n)) := by
  induction l with
  | nil => rfl
  | cons n t ih =>
    simp only [Spec.withStatus, List.map_cons, List.filterMap_cons] at ih ⊢
    by_cases h : f (g n) = true
    · simp [h, ih]
    · simp [h, ih]

theorem withStatus_abs (f : Spec.Status → Bool) (p : Partition) :
    Spec.withStatus f p.abs = p.sectors.filter (fun n => f (p.statusOf n)) :=
  withStatus_map f p.statusOf p.sectors

theorem nodup_withStatus_abs (f : Spec.Status → Bool) {p : Partition} (hs : SetInv p) :
    (Spec.withStatus f p.abs).Nodup := by
  rw [withStatus_abs]; exact List.Pairwise.filter _ hs.nodupS

theorem mem_live_abs {p : Partition} (n : Nat) :
    n ∈ Spec.withStatus Spec.isLive p.abs ↔ n ∈ diff p.sectors p.terminated := by
  rw [withStatus_abs, List.mem_filter, mem_diff]
  unfold Partition.statusOf
  constructor
  · rintro ⟨h1, h2⟩
    refine ⟨h1, fun ht => ?_⟩
    simp [ht, Spec.isLive] at h2
  · rintro ⟨h1, h2⟩
    refine ⟨h1, ?_⟩
    simp only [h2, if_false]
    split <;> (try split) <;> (try split) <;> rfl

theorem mem_faulty_abs {p : Partition} (hs : SetInv p) (n : Nat) :
    n ∈ Spec.withStatus Spec.isFaulty p.abs ↔ n ∈ p.faults := by
  rw [withStatus_abs, List.mem_filter]
  unfold Partition.statusOf
  constructor
  · rintro ⟨_, h2⟩
    by_cases ht : n ∈ p.terminated
    · simp [ht, Spec.isFaulty] at h2
    · by_cases hr : n ∈ p.recoveries
      · exact hs.recSub n hr
      · by_cases hf : n ∈ p.faults
        · exact hf
        · simp only [ht, hr, hf, if_false] at h2
          split at h2 <;> simp [Spec.isFaulty] at h2
  · intro hf
    obtain ⟨h1, h2⟩ := hs.faultSub n hf
    refine ⟨h1, ?_⟩
    simp only [h2, if_false, hf, if_true]
    split <;> rfl

theorem mem_recovering_abs {p : Partition} (hs : SetInv p) (n : Nat) :
    n ∈ Spec.withStatus Spec.isRecovering p.abs ↔ n ∈ p.recoveries := by
  rw [withStatus_abs, List.mem_filter]
  unfold Partition.statusOf
  constructor
  · rintro ⟨_, h2⟩
    by_cases ht : n ∈ p.terminated
    · simp [ht, Spec.isRecovering] at h2
    · by_cases hr : n ∈ p.recoveries
      · exact hr
      · simp only [ht, hr, if_false] at h2
        split at h2 <;> (try split at h2) <;> simp [Spec.isRecovering] at h2
  · intro hr
    have hf := hs.recSub n hr
    obtain ⟨h1, h2⟩ := hs.faultSub n hf
    exact ⟨h1, by simp [h2, hr, Spec.isRecovering]⟩

theorem mem_unproven_abs {p : Partition} (hs : SetInv p) (n : Nat) :
    n ∈ Spec.withStatus Spec.isUnproven p.abs ↔ n ∈ p.unproven := by
  rw [withStatus_abs, List.mem_filter]
  unfold Partition.statusOf
  constructor
  · rintro ⟨_, h2⟩
    by_cases ht : n ∈ p.terminated
    · simp [ht, Spec.isUnproven] at h2
    · by_cases hr : n ∈ p.recoveries
      · simp [ht, hr, Spec.isUnproven] at h2
      · by_cases hf : n ∈ p.faults
        · simp [ht, hr, hf, Spec.isUnproven] at h2
        · by_cases hu : n ∈ p.unproven
          · exact hu
          · simp [ht, hr, hf, hu, Spec.isUnproven] at h2
  · intro hu
    obtain ⟨h1, h2, h3⟩ := hs.unprovenSub n hu
    have h4 : n ∉ p.recoveries := fun hr => h3 (hs.recSub n hr)
    exact ⟨h1, by simp [h2, h3, h4, hu, Spec.isUnproven]⟩

theorem mem_active_abs {p : Partition} (n : Nat) :
    n ∈ Spec.withStatus Spec.isActive p.abs ↔
      n ∈ p.sectors ∧ n ∉ p.terminated ∧ n ∉ p.recoveries ∧ n ∉ p.faults ∧ n ∉ p.unproven := by
  rw [withStatus_abs, List.mem_filter]
  unfold Partition.statusOf
  constructor
  · rintro ⟨h1, h2⟩
    by_cases ht : n ∈ p.terminated
    · simp [ht, Spec.isActive] at h2
    · by_cases hr : n ∈ p.recoveries
      · simp [ht, hr, Spec.isActive] at h2
      · by_cases hf : n ∈ p.faults
        · simp [ht, hr, hf, Spec.isActive] at h2
        · by_cases hu : n ∈ p.unproven
          · simp [ht, hr, hf, hu, Spec.isActive] at h2
          · exact ⟨h1, ht, hr, hf, hu⟩
  · rintro ⟨h1, ht, hr, hf, hu⟩
    exact ⟨h1, by simp [ht, hr, hf, hu, Spec.isActive]⟩

/-- **Level 2 refines Level 1 on the summaries**: under the invariants every concrete memo is the
    Level-1 recomputed value at the abstracted state -/
theorem memo_eq_spec {tbl : Table} {p : Partition} (hs : SetInv p) (hm : MemoInv tbl p) :
    p.livePower = Spec.livePower tbl p.abs ∧ p.unprovenPower = Spec.unprovenPower tbl p.abs ∧
    p.faultyPower = Spec.faultyPower tbl p.abs ∧ p.recoveringPower = Spec.recoveringPower tbl p.abs ∧
    p.activePower = Spec.activePower tbl p.abs := by
  refine ⟨?_, ?_, ?_, ?_, ?_⟩
  · rw [hm.live]; unfold Spec.livePower
    exact powOf_congr tbl (nodup_diff hs.nodupS) (nodup_withStatus_abs _ hs) (fun x => (mem_live_abs x).symm)
  · rw [hm.unproven]; unfold Spec.unprovenPower
    exact powOf_congr tbl hs.nodupU (nodup_withStatus_abs _ hs) (fun x => (mem_unproven_abs hs x).symm)
  · rw [hm.faulty]; unfold Spec.faultyPower
    exact powOf_congr tbl hs.nodupF (nodup_withStatus_abs _ hs) (fun x => (mem_faulty_abs hs x).symm)
  · rw [hm.recovering]; unfold Spec.recoveringPower
    exact powOf_congr tbl hs.nodupR (nodup_withStatus_abs _ hs) (fun x => (mem_recovering_abs hs x).symm)
  · unfold Partition.activePower Spec.activePower
    rw [hm.live, hm.faulty, hm.unproven]
    have h1 : powOf tbl (diff (diff p.sectors p.terminated) p.faults) =
        powOf tbl (diff p.sectors p.terminated) - powOf tbl p.faults :=
      powOf_diff_sub tbl (nodup_diff hs.nodupS) hs.nodupF
        (fun x hx => mem_diff.mpr (hs.faultSub x hx))
    have h2 : powOf tbl (diff (diff (diff p.sectors p.terminated) p.faults) p.unproven) =
        powOf tbl (diff (diff p.sectors p.terminated) p.faults) - powOf tbl p.unproven :=
      powOf_diff_sub tbl (nodup_diff (nodup_diff hs.nodupS)) hs.nodupU
        (fun x hx => by
          obtain ⟨a, b, c⟩ := hs.unprovenSub x hx
          exact mem_diff.mpr ⟨mem_diff.mpr ⟨a, b⟩, c⟩)
    rw [← h1, ← h2]
    apply powOf_congr tbl (nodup_diff (nodup_diff (nodup_diff hs.nodupS))) (nodup_withStatus_abs _ hs)
    intro x
    rw [mem_active_abs]
    simp only [mem_diff]
    constructor
    · rintro ⟨⟨⟨a, b⟩, c⟩, d⟩
      exact ⟨a, b, fun hr => c (hs.recSub x hr), c, d⟩
    · rintro ⟨a, b, _, c, d⟩
      exact ⟨⟨⟨a, b⟩, c⟩, d⟩

/-! ### `Partition::validate_state` is implied by the invariants -/

/-- powers in the table are non-negative -/
def TableNonneg (tbl : Table) : Prop := ∀ n i, alookup n tbl = some i → 0 ≤ i.raw ∧ 0 ≤ i.qa

theorem tw_nonneg_raw {tbl : Table} (h : TableNonneg tbl) (n : Nat) : 0 ≤ tw tbl (·.raw) n := by
  unfold tw; cases ha : alookup n tbl with
  | none => simp
  | some i => exact (h n i ha).1
theorem tw_nonneg_qa {tbl : Table} (h : TableNonneg tbl) (n : Nat) : 0 ≤ tw tbl (·.qa) n := by
  unfold tw; cases ha : alookup n tbl with
  | none => simp
  | some i => exact (h n i ha).2

theorem sum_le_of_subset (W : Nat → Int) (hW : ∀ n, 0 ≤ W n) {a b : NatSet} (ha : a.Nodup)
    (hb : b.Nodup) (h : ∀ x ∈ a, x ∈ b) : sumBy W a ≤ sumBy W b := by
  have h1 := sum_split W b a
  have h2 : sumBy W (inter b a) = sumBy W a := by
    apply sumBy_congr_mem W (nodup_inter hb) ha
    intro x; rw [mem_inter]; exact ⟨fun h' => h'.2, fun h' => ⟨h x h', h'⟩⟩
  have h3 : 0 ≤ sumBy W (diff b a) := sumBy_nonneg W _ (fun x _ => hW x)
  omega

theorem validate_of_inv {tbl : Table} {p : Partition} (hn : TableNonneg tbl) (hs : SetInv p)
    (hm : MemoInv tbl p) : p.validate = .ok () := by
  have nr := tw_nonneg_raw hn
  have nq := tw_nonneg_qa hn
  have pos : ∀ s : NatSet, 0 ≤ (powOf tbl s).raw ∧ 0 ≤ (powOf tbl s).qa := fun s =>
    ⟨sumBy_nonneg _ _ (fun x _ => nr x), sumBy_nonneg _ _ (fun x _ => nq x)⟩
  have hFL : ∀ x ∈ p.faults, x ∈ diff p.sectors p.terminated :=
    fun x hx => mem_diff.mpr (hs.faultSub x hx)
  have hUL : ∀ x ∈ p.unproven, x ∈ diff p.sectors p.terminated :=
    fun x hx => mem_diff.mpr ⟨(hs.unprovenSub x hx).1, (hs.unprovenSub x hx).2.1⟩
  have hRL : ∀ x ∈ p.recoveries, x ∈ diff p.sectors p.terminated :=
    fun x hx => hFL x (hs.recSub x hx)
  have hL := nodup_diff (b := p.terminated) hs.nodupS
  have l1 := sum_le_of_subset _ nr hs.nodupU hL hUL
  have l2 := sum_le_of_subset _ nr hs.nodupF hL hFL
  have l3 := sum_le_of_subset _ nr hs.nodupR hL hRL
  have l4 := sum_le_of_subset _ nr hs.nodupR hs.nodupF hs.recSub
  have hp : p.validatePower = .ok () := by
    unfold Partition.validatePower
    rw [hm.live, hm.unproven, hm.faulty, hm.recovering]
    have a := pos (diff p.sectors p.terminated); have b := pos p.unproven
    have c := pos p.faults; have d := pos p.recoveries
    have l1' : (powOf tbl p.unproven).raw ≤ (powOf tbl (diff p.sectors p.terminated)).raw := l1
    have l2' : (powOf tbl p.faults).raw ≤ (powOf tbl (diff p.sectors p.terminated)).raw := l2
    have l3' : (powOf tbl p.recoveries).raw ≤ (powOf tbl (diff p.sectors p.terminated)).raw := l3
    have l4' : (powOf tbl p.recoveries).raw ≤ (powOf tbl p.faults).raw := l4
    simp only [guard_ok]
    exact ⟨by omega, by omega, by omega, by omega, by omega, by omega, by omega, trivial⟩
  have hb : p.validateBf = .ok () := by
    unfold Partition.validateBf
    simp only
    have c1 : containsAny p.terminated (union p.unproven p.faults) = false := by
      rw [containsAny_false_iff]
      intro x hx ht
      rcases mem_union.mp hx with hu | hf
      · exact (hs.unprovenSub x hu).2.1 ht
      · exact (hs.faultSub x hf).2 ht
    have c2 : containsAll p.sectors (union (union p.unproven p.faults) p.terminated) = true := by
      rw [containsAll_iff]
      intro x hx
      rcases mem_union.mp hx with hx | ht
      · rcases mem_union.mp hx with hu | hf
        · exact (hs.unprovenSub x hu).1
        · exact (hs.faultSub x hf).1
      · exact hs.termSub x ht
    have c3 : containsAll p.faults p.recoveries = true := by
      rw [containsAll_iff]; exact hs.recSub
    simp [c1, c2, c3]
  unfold Partition.validate
  rw [hp]; exact hb

/-! ### power deltas telescope (memo level: pure arithmetic of the model) -/

/-- every successful call changes the memo expression `live − faulty − unproven` by exactly the
    power delta that is forwarded to the power actor -/
theorem activePower_stepE {env : Env} {p p' : Partition} {op : Op} {r : Ret}
    (h : stepE env p op = .ok (p', r)) : p'.activePower = p.activePower + powerDelta op r := by
  cases op with
  | addSectors proven infos =>
    simp only [stepE] at h
    cases hx : p.addSectors env.qs proven infos with
    | error e => simp [hx] at h
    | ok x =>
      obtain ⟨p1, pw, fee⟩ := x
      simp only [hx, Except.ok.injEq, Prod.mk.injEq] at h
      obtain ⟨rfl, rfl⟩ := h
      obtain ⟨q', _, _, e1, _, _, e⟩ := Partition.addSectors_ok hx
      subst e e1
      cases proven <;> (ext <;> simp [Partition.activePower, powerDelta] <;> omega)
  | recordFaults sn fe =>
    simp only [stepE] at h
    cases hx : p.recordFaults env.tbl env.qs sn fe with
    | error e => simp [hx] at h
    | ok x =>
      obtain ⟨p1, nfs, d, f⟩ := x
      simp only [hx, Except.ok.injEq, Prod.mk.injEq] at h
      obtain ⟨rfl, rfl⟩ := h
      obtain ⟨_, _, newInfos, retrInfos, p2, _, _, hadd, e, _⟩ := Partition.recordFaults_ok hx
      have h2 : p2.activePower = p.activePower + d := by
        by_cases hne : (!newInfos.isEmpty) = true
        · simp only [hne, if_true] at hadd
          obtain ⟨q', sel, _, _, ed, _, e2⟩ := Partition.addFaults_ok hadd
          subst e2 ed
          ext <;> simp [Partition.activePower] <;> omega
        · simp only [hne, Bool.false_eq_true, if_false] at hadd
          obtain ⟨rfl, rfl, _⟩ := hadd
          ext <;> simp [Partition.activePower]
      have h3 : p1.activePower = p2.activePower := by
        obtain ⟨_, _, _, _, _, _, e7, e8, e9, _⟩ := Partition.removeRecoveries_eq p2
          (inter p.recoveries sn) (sumPow retrInfos)
        by_cases hre : (!retrInfos.isEmpty) = true
        · simp only [hre, if_true] at e; subst e
          unfold Partition.activePower; rw [e7, e8, e9]
        · simp only [hre, Bool.false_eq_true, if_false] at e; subst e; rfl
      rw [h3, h2]; rfl
  | declareFaultsRecovered sn =>
    simp only [stepE] at h
    cases hx : p.declareFaultsRecovered env.tbl sn with
    | error e => simp [hx] at h
    | ok x =>
      obtain ⟨p1, u⟩ := x
      cases u
      simp only [hx, Except.ok.injEq, Prod.mk.injEq] at h
      obtain ⟨rfl, rfl⟩ := h
      obtain ⟨_, infos, _, _, e⟩ := Partition.declareFaultsRecovered_ok hx
      subst e
      ext <;> simp [Partition.activePower, powerDelta]
  | recoverFaults =>
    simp only [stepE] at h
    cases hx : p.recoverFaults env.tbl env.qs with
    | error e => simp [hx] at h
    | ok x =>
      obtain ⟨p1, pw⟩ := x
      simp only [hx, Except.ok.injEq, Prod.mk.injEq] at h
      obtain ⟨rfl, rfl⟩ := h
      obtain ⟨infos, q', _, _, _, e⟩ := Partition.recoverFaults_ok hx
      subst e
      ext <;> simp [Partition.activePower, powerDelta] <;> omega
  | activateUnproven =>
    simp only [stepE, Partition.activateUnproven, Except.ok.injEq, Prod.mk.injEq] at h
    obtain ⟨rfl, rfl⟩ := h
    ext <;> simp [Partition.activePower, powerDelta] <;> omega
  | recordMissedPost fe =>
    simp only [stepE] at h
    cases hx : p.recordMissedPost env.qs fe with
    | error e => simp [hx] at h
    | ok x =>
      obtain ⟨p1, d, pen, nf⟩ := x
      simp only [hx, Except.ok.injEq, Prod.mk.injEq] at h
      obtain ⟨rfl, rfl⟩ := h
      obtain ⟨q', _, e1, _, e2, _, e⟩ := Partition.recordMissedPost_ok hx
      subst e e2 e1
      ext <;> simp [Partition.activePower, powerDelta] <;> omega
  | popExpiredSectors u =>
    simp only [stepE] at h
    cases hx : p.popExpiredSectors u with
    | error e => simp [hx] at h
    | ok x =>
      obtain ⟨p1, es⟩ := x
      simp only [hx, Except.ok.injEq, Prod.mk.injEq] at h
      obtain ⟨rfl, rfl⟩ := h
      obtain ⟨_, _, _, _, _, eq, _, e⟩ := Partition.popExpiredSectors_ok hx
      subst e
      ext <;> simp [Partition.activePower, powerDelta] <;> omega
  | terminateSectors ep sn =>
    simp only [stepE] at h
    cases hx : p.terminateSectors env.tbl env.qs ep sn with
    | error e => simp [hx] at h
    | ok x =>
      obtain ⟨p1, es, rup⟩ := x
      simp only [hx, Except.ok.injEq, Prod.mk.injEq] at h
      obtain ⟨rfl, rfl⟩ := h
      obtain ⟨_, infos, q', removed, rr, eq, sel, _, _, _, e1, e2, _, e⟩ :=
        Partition.terminateSectors_ok hx
      subst e e2
      ext <;> simp [Partition.activePower, powerDelta] <;> omega
  | recordSkippedFaults fe sk =>
    simp only [stepE] at h
    cases hx : p.recordSkippedFaults env.tbl env.qs fe sk with
    | error e => simp [hx] at h
    | ok x =>
      obtain ⟨p1, d, nf, rp, b⟩ := x
      simp only [hx, Except.ok.injEq, Prod.mk.injEq] at h
      obtain ⟨rfl, rfl⟩ := h
      rcases Partition.recordSkippedFaults_ok hx with ⟨_, e, e2, _⟩ | ⟨_, retrInfos, newInfos, p2, _, _, hadd, _, e, _⟩
      · subst e e2; ext <;> simp [powerDelta]
      · obtain ⟨q', sel, _, _, ed, _, e2⟩ := Partition.addFaults_ok hadd
        obtain ⟨_, _, _, _, _, _, e7, e8, e9, _⟩ := Partition.removeRecoveries_eq p2
          (inter p.recoveries sk) (sumPow retrInfos)
        subst e
        have : (p2.removeRecoveries (inter p.recoveries sk) (sumPow retrInfos)).activePower
            = p2.activePower := by unfold Partition.activePower; rw [e7, e8, e9]
        rw [this]
        subst e2 ed
        ext <;> simp [Partition.activePower, powerDelta] <;> omega
  | rescheduleExpirations ne sn =>
    simp only [stepE] at h
    cases hx : p.rescheduleExpirationsP env.tbl env.qs ne sn with
    | error e => simp [hx] at h
    | ok x =>
      obtain ⟨p1, infos⟩ := x
      simp only [hx, Except.ok.injEq, Prod.mk.injEq] at h
      obtain ⟨rfl, rfl⟩ := h
      obtain ⟨q', _, e⟩ := Partition.rescheduleExpirationsP_ok hx
      subst e
      ext <;> simp [Partition.activePower, powerDelta]
  | replaceSectors old new =>
    simp only [stepE] at h
    cases hx : p.replaceSectors env.qs old new with
    | error e => simp [hx] at h
    | ok x =>
      obtain ⟨p1, d, pl, f⟩ := x
      simp only [hx, Except.ok.injEq, Prod.mk.injEq] at h
      obtain ⟨rfl, rfl⟩ := h
      obtain ⟨q', oldNs, newNs, _, _, _, e⟩ := Partition.replaceSectors_ok hx
      subst e
      ext <;> simp [Partition.activePower, powerDelta] <;> omega
  | popEarlyTerminations m =>
    simp only [stepE] at h
    cases hx : p.popEarlyTerminations m with
    | error e => simp [hx] at h
    | ok x =>
      obtain ⟨p1, res, n, more⟩ := x
      simp only [hx, Except.ok.injEq, Prod.mk.injEq] at h
      obtain ⟨rfl, rfl⟩ := h
      obtain ⟨eq, _, e⟩ := Partition.popEarlyTerminations_ok hx
      subst e
      ext <;> simp [Partition.activePower, powerDelta]

end BA.Sector
