/-
  Set-level invariant of a partition (the five bitfields nest/exclude as the protocol defines),
  preserved by every partition method.
-/
import BA.Model.Sector.Partition
import BA.Lemmas.NatSet

namespace BA.Sector
open BA BA.NatSet

/-- the five sets nest and exclude each other as the protocol defines
    (`terminated ⊆ sectors`, `faults ⊆ live`, `recoveries ⊆ faults`, `unproven ⊆ live ∖ faults`),
    and the sets that are summed over are duplicate-free -/
structure SetInv (p : Partition) : Prop where
  nodupS : p.sectors.Nodup
  nodupU : p.unproven.Nodup
  nodupF : p.faults.Nodup
  nodupR : p.recoveries.Nodup
  termSub : ∀ x ∈ p.terminated, x ∈ p.sectors
  faultSub : ∀ x ∈ p.faults, x ∈ p.sectors ∧ x ∉ p.terminated
  recSub : ∀ x ∈ p.recoveries, x ∈ p.faults
  unprovenSub : ∀ x ∈ p.unproven, x ∈ p.sectors ∧ x ∉ p.terminated ∧ x ∉ p.faults

theorem setInv_new : SetInv Partition.new := by
  constructor <;> simp [Partition.new]

namespace Partition

/-- what a passing `validate_bf_state` says -/
theorem validateBf_ok {p : Partition} (h : p.validateBf = .ok ()) :
    (∀ x ∈ p.terminated, x ∉ p.unproven ∧ x ∉ p.faults) ∧
    (∀ x, (x ∈ p.unproven ∨ x ∈ p.faults ∨ x ∈ p.terminated) → x ∈ p.sectors) ∧
    (∀ x ∈ p.recoveries, x ∈ p.faults) := by
  unfold validateBf at h
  simp only [guard_ok] at h
  obtain ⟨h1, h2, h3, _⟩ := h
  simp only [Bool.not_eq_true, containsAny_false_iff, mem_union] at h1
  simp only [Bool.not_eq_true', Bool.not_eq_false, containsAll_iff, mem_union] at h2 h3
  refine ⟨?_, ?_, h3⟩
  · intro x hx
    constructor
    · intro hu
      have := h1 x (Or.inl hu); exact this hx
    · intro hf
      have := h1 x (Or.inr hf); exact this hx
  · intro x hx
    apply h2
    rcases hx with h | h | h
    · exact Or.inl (Or.inl h)
    · exact Or.inl (Or.inr h)
    · exact Or.inr h

theorem validate_ok {p : Partition} (h : p.validate = .ok ()) :
    p.validatePower = .ok () ∧ p.validateBf = .ok () := by
  unfold validate at h
  cases hp : p.validatePower with
  | error e => simp [hp] at h
  | ok u => cases u; simp [hp] at h; exact ⟨rfl, h⟩

theorem validated_ok {α : Type} {p p' : Partition} {r r' : α}
    (h : validated p r = .ok (p', r')) : p' = p ∧ r' = r ∧ p.validate = .ok () := by
  unfold validated at h
  cases hv : p.validate with
  | error e => simp [hv] at h
  | ok u =>
    cases u
    simp [hv] at h
    exact ⟨h.1.symm, h.2.symm, rfl⟩

/-- the set relations that a final `validate_state` establishes by itself; what is left for each
    method are the `Nodup`s and `unproven ∩ faults = ∅` -/
theorem setInv_of_validate {p : Partition} (hv : p.validate = .ok ())
    (nS : p.sectors.Nodup) (nU : p.unproven.Nodup) (nF : p.faults.Nodup) (nR : p.recoveries.Nodup)
    (hUF : ∀ x ∈ p.unproven, x ∉ p.faults) : SetInv p := by
  obtain ⟨h1, h2, h3⟩ := validateBf_ok (validate_ok hv).2
  refine ⟨nS, nU, nF, nR, ?_, ?_, h3, ?_⟩
  · intro x hx; exact h2 x (Or.inr (Or.inr hx))
  · intro x hx
    exact ⟨h2 x (Or.inr (Or.inl hx)), fun ht => (h1 x ht).2 hx⟩
  · intro x hx
    exact ⟨h2 x (Or.inl hx), fun ht => (h1 x ht).1 hx, hUF x hx⟩

end Partition
end BA.Sector

namespace BA.Sector
open BA BA.NatSet

theorem addActiveSectors_ok {qs : QuantSpec} {q q' : Queue} {infos : List SectorInfo}
    {ns : NatSet} {pw : PowerPair} {pl f : Int}
    (h : addActiveSectors qs q infos = .ok (q', ns, pw, pl, f)) :
    addGroups qs q (groupNew qs infos) = .ok q' ∧ ns = ofList (nums infos) ∧ pw = sumPow infos ∧
    pl = sumPledge infos ∧ f = sumFee infos := by
  unfold addActiveSectors at h
  cases hg : addGroups qs q (groupNew qs infos) with
  | error e => simp [hg] at h
  | ok q1 =>
    simp only [hg, Except.ok.injEq, Prod.mk.injEq] at h
    obtain ⟨a, b, c, d, e⟩ := h
    subst a
    exact ⟨rfl, b.symm, c.symm, d.symm, e.symm⟩

namespace Partition

/-! ### shapes of the successful results -/

theorem addSectors_ok {p p' : Partition} {qs : QuantSpec} {proven : Bool} {infos : List SectorInfo}
    {power : PowerPair} {fee : Int} (h : p.addSectors qs proven infos = .ok (p', power, fee)) :
    ∃ q', addGroups qs p.expirations (groupNew qs infos) = .ok q' ∧
      (∀ x ∈ ofList (nums infos), x ∉ p.sectors) ∧ power = sumPow infos ∧ fee = sumFee infos ∧
      p'.validate = .ok () ∧
      p' = (if proven then
        { p with expirations := q', sectors := union p.sectors (ofList (nums infos)),
                 livePower := p.livePower + sumPow infos }
      else
        { p with expirations := q', sectors := union p.sectors (ofList (nums infos)),
                 livePower := p.livePower + sumPow infos,
                 unprovenPower := p.unprovenPower + sumPow infos,
                 unproven := union p.unproven (ofList (nums infos)) }) := by
  unfold addSectors at h
  cases ha : addActiveSectors qs p.expirations infos with
  | error e => simp [ha] at h
  | ok r =>
    obtain ⟨q', ns, pw, pl, f⟩ := r
    obtain ⟨hg, e1, e2, _, e4⟩ := addActiveSectors_ok ha
    subst e1 e2 e4
    simp only [ha] at h
    by_cases hc : containsAny p.sectors (ofList (nums infos)) = true
    · simp [hc] at h
    · simp only [hc, Bool.false_eq_true, if_false] at h
      obtain ⟨e1, e2, hv⟩ := validated_ok h
      simp only [Prod.mk.injEq] at e2
      rw [Bool.not_eq_true, containsAny_false_iff] at hc
      refine ⟨q', hg, hc, e2.1, e2.2, ?_, ?_⟩
      · rw [e1]; exact hv
      · rw [e1]

theorem removeRecoveries_eq (p : Partition) (ns : NatSet) (pw : PowerPair) :
    (p.removeRecoveries ns pw).sectors = p.sectors ∧
    (p.removeRecoveries ns pw).unproven = p.unproven ∧
    (p.removeRecoveries ns pw).faults = p.faults ∧
    (p.removeRecoveries ns pw).terminated = p.terminated ∧
    (p.removeRecoveries ns pw).expirations = p.expirations ∧
    (p.removeRecoveries ns pw).earlyTerminated = p.earlyTerminated ∧
    (p.removeRecoveries ns pw).livePower = p.livePower ∧
    (p.removeRecoveries ns pw).unprovenPower = p.unprovenPower ∧
    (p.removeRecoveries ns pw).faultyPower = p.faultyPower ∧
    (p.removeRecoveries ns pw).recoveries = diff p.recoveries ns := by
  unfold removeRecoveries
  by_cases h : ns.isEmpty = true
  · simp only [h, if_true, true_and]
    have : ns = [] := by cases ns <;> simp_all
    subst this
    show p.recoveries = List.filter (fun _ => true) p.recoveries
    exact (List.filter_eq_self.mpr (fun _ _ => rfl)).symm
  · simp [h]

theorem addFaults_ok {p p' : Partition} {qs : QuantSpec} {sn : NatSet} {infos : List SectorInfo}
    {fe : Int} {delta nf : PowerPair} (h : p.addFaults qs sn infos fe = .ok (p', delta, nf)) :
    ∃ q' sel, rescheduleAsFaults qs p.expirations fe infos = .ok (q', nf) ∧
      selectSectors infos (inter sn p.unproven) = .ok sel ∧
      delta = -nf + sumPow sel ∧ p'.validate = .ok () ∧
      p' = { p with expirations := q', faults := union p.faults sn,
                    faultyPower := p.faultyPower + nf,
                    unproven := diff p.unproven (inter sn p.unproven),
                    unprovenPower := p.unprovenPower - sumPow sel } := by
  unfold addFaults at h
  cases hr : rescheduleAsFaults qs p.expirations fe infos with
  | error e => simp [hr] at h
  | ok r =>
    obtain ⟨q', nf'⟩ := r
    simp only [hr] at h
    cases hs : selectSectors infos (inter sn p.unproven) with
    | error e => simp [hs] at h
    | ok sel =>
      simp only [hs] at h
      obtain ⟨e1, e2, hv⟩ := validated_ok h
      simp only [Prod.mk.injEq] at e2
      obtain ⟨e2, e3⟩ := e2
      subst e3
      exact ⟨q', sel, rfl, rfl, e2, by rw [e1]; exact hv, e1⟩

end Partition
end BA.Sector

namespace BA.Sector
open BA BA.NatSet

/-- the `Sectors` AMT stores every info under its own sector number (`Sectors::store`) -/
def TableWF (tbl : Table) : Prop := ∀ n i, alookup n tbl = some i → i.num = n

namespace Partition

theorem loadSectors_spec {tbl : Table} (hw : TableWF tbl) {ns : NatSet} {infos : List SectorInfo}
    (h : loadSectors tbl ns = .ok infos) :
    nums infos = ns ∧ ∀ i ∈ infos, alookup i.num tbl = some i := by
  induction ns generalizing infos with
  | nil => simp [loadSectors] at h; subst h; simp [nums]
  | cons n t ih =>
    unfold loadSectors at h
    cases ha : alookup n tbl with
    | none => simp [ha] at h
    | some i =>
      simp only [ha] at h
      cases hl : loadSectors tbl t with
      | error e => simp [hl] at h
      | ok l =>
        simp only [hl, Except.ok.injEq] at h
        subst h
        obtain ⟨e1, e2⟩ := ih hl
        have hin : i.num = n := hw n i ha
        refine ⟨by simp [nums] at e1 ⊢; exact ⟨hin, e1⟩, ?_⟩
        intro j hj
        rcases List.mem_cons.mp hj with rfl | hj
        · rw [hin]; exact ha
        · exact e2 j hj

theorem recordFaults_ok {p p' : Partition} {tbl : Table} {qs : QuantSpec} {sn : NatSet} {fe : Int}
    {nfs : NatSet} {delta nf : PowerPair}
    (h : p.recordFaults tbl qs sn fe = .ok (p', nfs, delta, nf)) :
    let retracted := inter p.recoveries sn
    let newFaults := diff (diff (diff sn retracted) p.terminated) p.faults
    (∀ x ∈ sn, x ∈ p.sectors) ∧ nfs = newFaults ∧
    ∃ newInfos retrInfos p1,
      loadSectors tbl newFaults = .ok newInfos ∧ loadSectors tbl retracted = .ok retrInfos ∧
      (if !newInfos.isEmpty then p.addFaults qs newFaults newInfos fe = .ok (p1, delta, nf)
       else (p1 = p ∧ delta = PowerPair.zero ∧ nf = PowerPair.zero)) ∧
      p' = (if !retrInfos.isEmpty then p1.removeRecoveries retracted (sumPow retrInfos) else p1) ∧
      p'.validate = .ok () := by
  intro retracted newFaults
  unfold recordFaults at h
  by_cases hc : containsAll p.sectors sn = true
  · simp only [hc, Bool.not_true, Bool.false_eq_true, if_false] at h
    rw [containsAll_iff] at hc
    cases hl : loadSectors tbl newFaults with
    | error e => simp [newFaults, retracted] at hl; simp [hl] at h
    | ok newInfos =>
      have hl' := hl
      simp only [newFaults, retracted] at hl'
      simp only [hl'] at h
      by_cases hne : (!newInfos.isEmpty) = true
      · simp only [hne, if_true] at h
        cases ha : p.addFaults qs newFaults newInfos fe with
        | error e => simp [newFaults, retracted] at ha; simp [ha] at h
        | ok r =>
          obtain ⟨p1, d1, n1⟩ := r
          have ha' := ha
          simp only [newFaults, retracted] at ha'
          simp only [ha'] at h
          cases hl2 : loadSectors tbl retracted with
          | error e => simp [retracted] at hl2; simp [hl2] at h
          | ok retrInfos =>
            have hl2' := hl2
            simp only [retracted] at hl2'
            simp only [hl2'] at h
            obtain ⟨e1, e2, hv⟩ := validated_ok h
            simp only [Prod.mk.injEq] at e2
            obtain ⟨e2, e3, e4⟩ := e2
            subst e2 e3 e4
            refine ⟨hc, rfl, newInfos, retrInfos, p1, rfl, rfl, ?_, e1, by rw [e1]; exact hv⟩
            simp only [hne, if_true]
            exact ha
      · simp only [hne, Bool.false_eq_true, if_false] at h
        cases hl2 : loadSectors tbl retracted with
        | error e => simp [retracted] at hl2; simp [hl2] at h
        | ok retrInfos =>
          have hl2' := hl2
          simp only [retracted] at hl2'
          simp only [hl2'] at h
          obtain ⟨e1, e2, hv⟩ := validated_ok h
          simp only [Prod.mk.injEq] at e2
          obtain ⟨e2, e3, e4⟩ := e2
          subst e2 e3 e4
          refine ⟨hc, rfl, newInfos, retrInfos, p, rfl, rfl, ?_, e1, by rw [e1]; exact hv⟩
          simp only [hne, Bool.false_eq_true, if_false]
          first | trivial | exact ⟨rfl, rfl, rfl⟩ | simp
  · simp [hc] at h

theorem recoverFaults_ok {p p' : Partition} {tbl : Table} {qs : QuantSpec} {pw : PowerPair}
    (h : p.recoverFaults tbl qs = .ok (p', pw)) :
    ∃ infos q', loadSectors tbl p.recoveries = .ok infos ∧
      rescheduleRecovered qs p.expirations infos = .ok (q', pw) ∧ p'.validate = .ok () ∧
      p' = { p with expirations := q', faults := diff p.faults p.recoveries, recoveries := [],
                    faultyPower := p.faultyPower - pw,
                    recoveringPower := p.recoveringPower - pw } := by
  unfold recoverFaults at h
  cases hl : loadSectors tbl p.recoveries with
  | error e => simp [hl] at h
  | ok infos =>
    simp only [hl] at h
    cases hr : rescheduleRecovered qs p.expirations infos with
    | error e => simp [hr] at h
    | ok r =>
      obtain ⟨q', pw'⟩ := r
      simp only [hr] at h
      obtain ⟨e1, e2, hv⟩ := validated_ok h
      subst e2
      exact ⟨infos, q', rfl, hr, by rw [e1]; exact hv, e1⟩

theorem declareFaultsRecovered_ok {p p' : Partition} {tbl : Table} {sn : NatSet}
    (h : p.declareFaultsRecovered tbl sn = .ok (p', ())) :
    (∀ x ∈ sn, x ∈ p.sectors) ∧
    ∃ infos, loadSectors tbl (diff (inter sn p.faults) p.recoveries) = .ok infos ∧
      p'.validate = .ok () ∧
      p' = { p with recoveries := union p.recoveries (diff (inter sn p.faults) p.recoveries),
                    recoveringPower := p.recoveringPower + sumPow infos } := by
  unfold declareFaultsRecovered at h
  by_cases hc : containsAll p.sectors sn = true
  · simp only [hc, Bool.not_true, Bool.false_eq_true, if_false] at h
    rw [containsAll_iff] at hc
    cases hl : loadSectors tbl (diff (inter sn p.faults) p.recoveries) with
    | error e => simp [hl] at h
    | ok infos =>
      simp only [hl] at h
      obtain ⟨e1, _, hv⟩ := validated_ok h
      exact ⟨hc, infos, rfl, by rw [e1]; exact hv, e1⟩
  · simp [hc] at h

theorem recordMissedPost_ok {p p' : Partition} {qs : QuantSpec} {fe : Int}
    {delta pen nf : PowerPair} (h : p.recordMissedPost qs fe = .ok (p', delta, pen, nf)) :
    ∃ q', rescheduleAllAsFaults qs p.expirations fe = .ok q' ∧
      nf = p.livePower - p.faultyPower ∧ pen = p.recoveringPower + nf ∧
      delta = p.unprovenPower - nf ∧ p'.validate = .ok () ∧
      p' = { p with expirations := q', faults := p.liveSectors, recoveries := [], unproven := [],
                    faultyPower := p.livePower, recoveringPower := PowerPair.zero,
                    unprovenPower := PowerPair.zero } := by
  unfold recordMissedPost at h
  cases hr : rescheduleAllAsFaults qs p.expirations fe with
  | error e => simp [hr] at h
  | ok q' =>
    simp only [hr] at h
    obtain ⟨e1, e2, hv⟩ := validated_ok h
    simp only [Prod.mk.injEq] at e2
    obtain ⟨e2, e3, e4⟩ := e2
    subst e4
    exact ⟨q', rfl, rfl, e3, e2, by rw [e1]; exact hv, e1⟩

theorem recordEarlyTermination_ok {p p1 : Partition} {e : Int} {s : NatSet}
    (h : p.recordEarlyTermination e s = .ok p1) :
    ∃ q, p1 = { p with earlyTerminated := q } := by
  unfold recordEarlyTermination at h
  cases hb : bfAdd p.earlyTerminated e s with
  | error e => simp [hb] at h
  | ok q => simp [hb] at h; exact ⟨q, h.symm⟩

theorem popExpiredSectors_ok {p p' : Partition} {u : Int} {es : ExpSet}
    (h : p.popExpiredSectors u = .ok (p', es)) :
    p.unproven = [] ∧ p.recoveries = [] ∧ p.recoveringPower.isZero = true ∧
    es = (popUntil u p.expirations).2 ∧
    (∀ x ∈ union es.onTime es.early, x ∉ p.terminated) ∧
    ∃ eq, p'.validate = .ok () ∧
      p' = { p with expirations := (popUntil u p.expirations).1,
                    terminated := union p.terminated (union es.onTime es.early),
                    faults := diff p.faults (union es.onTime es.early),
                    livePower := p.livePower - (es.active + es.faulty),
                    faultyPower := p.faultyPower - es.faulty,
                    earlyTerminated := eq } := by
  unfold popExpiredSectors at h
  by_cases hu : p.unproven.isEmpty = true
  · simp only [hu, Bool.not_true, Bool.false_eq_true, if_false] at h
    have hu' : p.unproven = [] := by cases hq : p.unproven <;> simp_all
    cases hp : popUntil u p.expirations with
    | mk q' popped =>
      simp only [hp] at h
      by_cases hr : p.recoveries.isEmpty = true
      · simp only [hr, Bool.not_true, Bool.false_eq_true, if_false] at h
        have hr' : p.recoveries = [] := by cases hq : p.recoveries <;> simp_all
        by_cases hz : p.recoveringPower.isZero = true
        · simp only [hz, Bool.not_true, Bool.false_eq_true, if_false] at h
          by_cases hc : containsAny p.terminated (union popped.onTime popped.early) = true
          · simp [hc] at h
          · simp only [hc, Bool.false_eq_true, if_false] at h
            rw [Bool.not_eq_true, containsAny_false_iff] at hc
            cases hrec : recordEarlyTermination
                { p with expirations := q', terminated := union p.terminated (union popped.onTime popped.early),
                         faults := diff p.faults (union popped.onTime popped.early),
                         livePower := p.livePower - (popped.active + popped.faulty),
                         faultyPower := p.faultyPower - popped.faulty } u popped.early with
            | error e => simp [hrec] at h
            | ok p2 =>
              simp only [hrec] at h
              obtain ⟨e1, e2, hv⟩ := validated_ok h
              obtain ⟨eq, hq⟩ := recordEarlyTermination_ok hrec
              subst e2
              refine ⟨hu', hr', hz, rfl, hc, eq, by rw [e1]; exact hv, ?_⟩
              rw [e1, hq]
        · simp [hz] at h
      · simp [hr] at h
  · simp [hu] at h

theorem selectSectors_sub {infos sel : List SectorInfo} {want : NatSet}
    (h : selectSectors infos want = .ok sel) : ∀ i ∈ sel, i ∈ infos := by
  induction infos generalizing want sel with
  | nil =>
    unfold selectSectors at h
    by_cases hw : want.isEmpty = true <;> simp [hw] at h
    subst h; simp
  | cons j t ih =>
    unfold selectSectors at h
    by_cases hj : j.num ∈ want
    · simp only [hj, if_true] at h
      cases hs : selectSectors t (diff want [j.num]) with
      | error e => simp [hs] at h
      | ok l =>
        simp only [hs, Except.ok.injEq] at h
        subst h
        intro i hi
        rcases List.mem_cons.mp hi with rfl | hi
        · simp
        · exact List.mem_cons_of_mem _ (ih hs i hi)
    · simp only [hj, if_false] at h
      intro i hi
      exact List.mem_cons_of_mem _ (ih h i hi)

theorem terminateSectors_ok {p p' : Partition} {tbl : Table} {qs : QuantSpec} {ep : Int}
    {sn : NatSet} {ret : ExpSet} {rup : PowerPair}
    (h : p.terminateSectors tbl qs ep sn = .ok (p', ret, rup)) :
    (∀ x ∈ sn, x ∈ p.sectors ∧ x ∉ p.terminated) ∧
    ∃ infos q' removed rr eq sel,
      loadSectors tbl sn = .ok infos ∧
      removeSectors qs p.expirations infos p.faults p.recoveries = .ok (q', removed, rr) ∧
      selectSectors infos (inter (union removed.onTime removed.early) p.unproven) = .ok sel ∧
      rup = sumPow sel ∧ ret = { removed with active := removed.active - rup } ∧
      p'.validate = .ok () ∧
      p' = { p with expirations := q', earlyTerminated := eq,
                    faults := diff p.faults (union removed.onTime removed.early),
                    recoveries := diff p.recoveries (union removed.onTime removed.early),
                    terminated := union p.terminated (union removed.onTime removed.early),
                    livePower := (p.livePower - removed.active) - removed.faulty,
                    faultyPower := p.faultyPower - removed.faulty,
                    recoveringPower := p.recoveringPower - rr,
                    unproven := diff p.unproven (inter (union removed.onTime removed.early) p.unproven),
                    unprovenPower := p.unprovenPower - rup } := by
  unfold terminateSectors at h
  by_cases hc : containsAll p.liveSectors sn = true
  · simp only [hc, Bool.not_true, Bool.false_eq_true, if_false] at h
    rw [containsAll_iff] at hc
    cases hl : loadSectors tbl sn with
    | error e => simp [hl] at h
    | ok infos =>
      simp only [hl] at h
      cases hr : removeSectors qs p.expirations infos p.faults p.recoveries with
      | error e => simp [hr] at h
      | ok r =>
        obtain ⟨q', removed, rr⟩ := r
        simp only [hr] at h
        cases hrec : recordEarlyTermination ({ p with expirations := q' } : Partition) ep
            (union removed.onTime removed.early) with
        | error e => simp [hrec] at h
        | ok p1 =>
          simp only [hrec] at h
          obtain ⟨eq, hq⟩ := recordEarlyTermination_ok hrec
          subst hq
          simp only at h
          cases hs : selectSectors infos (inter (union removed.onTime removed.early) p.unproven) with
          | error e => simp [hs] at h
          | ok sel =>
            simp only [hs] at h
            obtain ⟨e1, e2, hv⟩ := validated_ok h
            simp only [Prod.mk.injEq] at e2
            obtain ⟨e2, e3⟩ := e2
            subst e3
            refine ⟨?_, infos, q', removed, rr, eq, sel, rfl, hr, hs, rfl, e2, by rw [e1]; exact hv, e1⟩
            intro x hx
            have := hc x hx
            simpa [liveSectors] using this
  · simp [hc] at h

theorem recordSkippedFaults_ok {p p' : Partition} {tbl : Table} {qs : QuantSpec} {fe : Int}
    {sk : NatSet} {delta nf rp : PowerPair} {b : Bool}
    (h : p.recordSkippedFaults tbl qs fe sk = .ok (p', delta, nf, rp, b)) :
    (sk = [] ∧ p' = p ∧ delta = PowerPair.zero ∧ nf = PowerPair.zero ∧ rp = PowerPair.zero) ∨
    ((∀ x ∈ sk, x ∈ p.sectors) ∧
     ∃ retrInfos newInfos p1,
      loadSectors tbl (inter p.recoveries sk) = .ok retrInfos ∧
      loadSectors tbl (diff (diff sk p.terminated) p.faults) = .ok newInfos ∧
      p.addFaults qs (diff (diff sk p.terminated) p.faults) newInfos fe = .ok (p1, delta, nf) ∧
      rp = sumPow retrInfos ∧
      p' = p1.removeRecoveries (inter p.recoveries sk) (sumPow retrInfos) ∧
      p'.validate = .ok ()) := by
  unfold recordSkippedFaults at h
  by_cases he : sk.isEmpty = true
  · simp only [he, if_true, Except.ok.injEq, Prod.mk.injEq] at h
    have : sk = [] := by cases hq : sk <;> simp_all
    exact Or.inl ⟨this, h.1.symm, h.2.1.symm, h.2.2.1.symm, h.2.2.2.1.symm⟩
  · right
    simp only [he, Bool.false_eq_true, if_false] at h
    by_cases hc : containsAll p.sectors sk = true
    · simp only [hc, Bool.not_true, Bool.false_eq_true, if_false] at h
      rw [containsAll_iff] at hc
      cases hl1 : loadSectors tbl (inter p.recoveries sk) with
      | error e => simp [hl1] at h
      | ok retrInfos =>
        simp only [hl1] at h
        cases hl2 : loadSectors tbl (diff (diff sk p.terminated) p.faults) with
        | error e => simp [hl2] at h
        | ok newInfos =>
          simp only [hl2] at h
          cases ha : p.addFaults qs (diff (diff sk p.terminated) p.faults) newInfos fe with
          | error e => simp [ha] at h
          | ok r =>
            obtain ⟨p1, d1, n1⟩ := r
            simp only [ha] at h
            obtain ⟨e1, e2, hv⟩ := validated_ok h
            simp only [Prod.mk.injEq] at e2
            obtain ⟨e2, e3, e4, _⟩ := e2
            subst e2 e3
            exact ⟨hc, retrInfos, newInfos, p1, rfl, rfl, ha, e4, e1, by rw [e1]; exact hv⟩
    · simp [hc] at h

theorem rescheduleExpirationsP_ok {p p' : Partition} {tbl : Table} {qs : QuantSpec} {ne : Int}
    {sn : NatSet} {infos : List SectorInfo}
    (h : p.rescheduleExpirationsP tbl qs ne sn = .ok (p', infos)) :
    ∃ q', p'.validate = .ok () ∧ p' = { p with expirations := q' } := by
  unfold rescheduleExpirationsP at h
  cases hl : loadSectors tbl (diff (diff (inter sn p.sectors) p.terminated) p.faults) with
  | error e => simp [hl] at h
  | ok l =>
    simp only [hl] at h
    cases hr : rescheduleExpirations qs p.expirations ne l with
    | error e => simp [hr] at h
    | ok q' =>
      simp only [hr] at h
      obtain ⟨e1, _, hv⟩ := validated_ok h
      exact ⟨q', by rw [e1]; exact hv, e1⟩

theorem replaceSectors_ok {p p' : Partition} {qs : QuantSpec} {old new : List SectorInfo}
    {pd : PowerPair} {pl fd : Int} (h : p.replaceSectors qs old new = .ok (p', pd, pl, fd)) :
    ∃ q' oldNs newNs, replaceSectorsQ qs p.expirations old new = .ok (q', oldNs, newNs, pd, pl, fd) ∧
      (∀ x ∈ oldNs, x ∈ p.activeSectors) ∧ p'.validate = .ok () ∧
      p' = { p with expirations := q', sectors := union (diff p.sectors oldNs) newNs,
                    livePower := p.livePower + pd } := by
  unfold replaceSectors at h
  cases hr : replaceSectorsQ qs p.expirations old new with
  | error e => simp [hr] at h
  | ok r =>
    obtain ⟨q', oldNs, newNs, pd', pl', fd'⟩ := r
    simp only [hr] at h
    by_cases hc : containsAll p.activeSectors oldNs = true
    · simp only [hc, Bool.not_true, Bool.false_eq_true, if_false] at h
      rw [containsAll_iff] at hc
      obtain ⟨e1, e2, hv⟩ := validated_ok h
      simp only [Prod.mk.injEq] at e2
      obtain ⟨e2, e3, e4⟩ := e2
      subst e2 e3 e4
      exact ⟨q', oldNs, newNs, rfl, hc, by rw [e1]; exact hv, e1⟩
    · simp [hc] at h

theorem popEarlyTerminations_ok {p p' : Partition} {m : Nat} {res : List (Int × NatSet)} {n : Nat}
    {more : Bool} (h : p.popEarlyTerminations m = .ok (p', res, n, more)) :
    ∃ eq, p'.validate = .ok () ∧ p' = { p with earlyTerminated := eq } := by
  unfold popEarlyTerminations at h
  cases hw : popEarlyWalk m p.earlyTerminated 0 with
  | mk kept r =>
    obtain ⟨res', n'⟩ := r
    simp only [hw] at h
    obtain ⟨e1, _, hv⟩ := validated_ok h
    exact ⟨kept, by rw [e1]; exact hv, e1⟩

end Partition
end BA.Sector

namespace BA.Sector
open BA BA.NatSet

theorem replaceSectorsQ_ok {qs : QuantSpec} {q q' : Queue} {old new : List SectorInfo}
    {oldNs newNs : NatSet} {pd : PowerPair} {pl fd : Int}
    (h : replaceSectorsQ qs q old new = .ok (q', oldNs, newNs, pd, pl, fd)) :
    newNs = ofList (nums new) := by
  unfold replaceSectorsQ at h
  cases hr : removeActiveSectors qs q old with
  | error e => simp [hr] at h
  | ok r =>
    obtain ⟨q1, a, b, c, d⟩ := r
    simp only [hr] at h
    cases ha : addActiveSectors qs q1 new with
    | error e => simp [ha] at h
    | ok r2 =>
      obtain ⟨q2, ns, pw, pl2, f2⟩ := r2
      obtain ⟨_, e1, _⟩ := addActiveSectors_ok ha
      simp only [ha, Except.ok.injEq, Prod.mk.injEq] at h
      rw [← h.2.2.1, e1]

/-- set arguments of a call are bitfields (duplicate-free) -/
def OpWF : Op → Prop
  | .recordFaults sn _ => sn.Nodup
  | .declareFaultsRecovered sn => sn.Nodup
  | .terminateSectors _ sn => sn.Nodup
  | .recordSkippedFaults _ sk => sk.Nodup
  | .rescheduleExpirations _ sn => sn.Nodup
  | _ => True

namespace Partition

theorem setInv_addFaults {p p' : Partition} {qs : QuantSpec} {sn : NatSet} {infos : List SectorInfo}
    {fe : Int} {delta nf : PowerPair} (hi : SetInv p) (hn : sn.Nodup)
    (h : p.addFaults qs sn infos fe = .ok (p', delta, nf)) : SetInv p' := by
  obtain ⟨q', sel, _, _, _, hv, e⟩ := addFaults_ok h
  subst e
  apply setInv_of_validate hv
  · exact hi.nodupS
  · exact nodup_diff hi.nodupU
  · exact nodup_union hi.nodupF hn
  · exact hi.nodupR
  · intro x hx
    simp only [mem_diff, mem_inter, mem_union] at hx ⊢
    intro hf
    rcases hf with hf | hf
    · exact (hi.unprovenSub x hx.1).2.2 hf
    · exact hx.2 ⟨hf, hx.1⟩

theorem setInv_removeRecoveries {p : Partition} (ns : NatSet) (pw : PowerPair)
    (hv : (p.removeRecoveries ns pw).validate = .ok ()) (hi : SetInv p) :
    SetInv (p.removeRecoveries ns pw) := by
  obtain ⟨e1, e2, e3, e4, _, _, _, _, _, e5⟩ := removeRecoveries_eq p ns pw
  apply setInv_of_validate hv
  · rw [e1]; exact hi.nodupS
  · rw [e2]; exact hi.nodupU
  · rw [e3]; exact hi.nodupF
  · rw [e5]; exact nodup_diff hi.nodupR
  · rw [e2, e3]; intro x hx; exact (hi.unprovenSub x hx).2.2

end Partition

theorem setInv_stepE {env : Env} {p p' : Partition} {op : Op} {r : Ret} (hi : SetInv p)
    (hw : OpWF op) (h : stepE env p op = .ok (p', r)) : SetInv p' := by
  cases op with
  | addSectors proven infos =>
    simp only [stepE] at h
    cases ha : p.addSectors env.qs proven infos with
    | error e => simp [ha] at h
    | ok x =>
      obtain ⟨p1, pw, fee⟩ := x
      simp only [ha, Except.ok.injEq, Prod.mk.injEq] at h
      obtain ⟨rfl, _⟩ := h
      obtain ⟨q', _, hnew, _, _, hv, e⟩ := Partition.addSectors_ok ha
      apply Partition.setInv_of_validate hv
      · subst e; cases proven <;> exact nodup_union hi.nodupS (nodup_ofList _)
      · subst e; cases proven
        · exact nodup_union hi.nodupU (nodup_ofList _)
        · exact hi.nodupU
      · subst e; cases proven <;> exact hi.nodupF
      · subst e; cases proven <;> exact hi.nodupR
      · subst e
        cases proven
        · intro x hx
          simp only [Bool.false_eq_true, if_false, mem_union] at hx ⊢
          rcases hx with hx | hx
          · exact (hi.unprovenSub x hx).2.2
          · intro hf; exact hnew x hx (hi.faultSub x hf).1
        · intro x hx; exact (hi.unprovenSub x hx).2.2
  | recordFaults sn fe =>
    simp only [stepE] at h
    cases ha : p.recordFaults env.tbl env.qs sn fe with
    | error e => simp [ha] at h
    | ok x =>
      obtain ⟨p1, nfs, d, f⟩ := x
      simp only [ha, Except.ok.injEq, Prod.mk.injEq] at h
      obtain ⟨rfl, _⟩ := h
      obtain ⟨_, _, newInfos, retrInfos, p2, _, _, hadd, e, hv⟩ := Partition.recordFaults_ok ha
      have hn : (diff (diff (diff sn (inter p.recoveries sn)) p.terminated) p.faults).Nodup :=
        nodup_diff (nodup_diff (nodup_diff hw))
      have h2 : SetInv p2 := by
        by_cases hne : (!newInfos.isEmpty) = true
        · simp only [hne, if_true] at hadd
          exact Partition.setInv_addFaults hi hn hadd
        · simp only [hne, Bool.false_eq_true, if_false] at hadd
          rw [hadd.1]; exact hi
      by_cases hre : (!retrInfos.isEmpty) = true
      · simp only [hre, if_true] at e
        subst e
        exact Partition.setInv_removeRecoveries _ _ hv h2
      · simp only [hre, Bool.false_eq_true, if_false] at e
        subst e; exact h2
  | declareFaultsRecovered sn =>
    simp only [stepE] at h
    cases ha : p.declareFaultsRecovered env.tbl sn with
    | error e => simp [ha] at h
    | ok x =>
      obtain ⟨p1, u⟩ := x
      cases u
      simp only [ha, Except.ok.injEq, Prod.mk.injEq] at h
      obtain ⟨rfl, _⟩ := h
      obtain ⟨_, infos, _, hv, e⟩ := Partition.declareFaultsRecovered_ok ha
      subst e
      apply Partition.setInv_of_validate hv
      · exact hi.nodupS
      · exact hi.nodupU
      · exact hi.nodupF
      · exact nodup_union hi.nodupR (nodup_diff (nodup_inter hw))
      · intro x hx; exact (hi.unprovenSub x hx).2.2
  | recoverFaults =>
    simp only [stepE] at h
    cases ha : p.recoverFaults env.tbl env.qs with
    | error e => simp [ha] at h
    | ok x =>
      obtain ⟨p1, pw⟩ := x
      simp only [ha, Except.ok.injEq, Prod.mk.injEq] at h
      obtain ⟨rfl, _⟩ := h
      obtain ⟨infos, q', _, _, hv, e⟩ := Partition.recoverFaults_ok ha
      subst e
      apply Partition.setInv_of_validate hv
      · exact hi.nodupS
      · exact hi.nodupU
      · exact nodup_diff hi.nodupF
      · simp
      · intro x hx
        simp only [mem_diff]
        intro hf; exact (hi.unprovenSub x hx).2.2 hf.1
  | activateUnproven =>
    simp only [stepE, Partition.activateUnproven, Except.ok.injEq, Prod.mk.injEq] at h
    obtain ⟨rfl, _⟩ := h
    exact ⟨hi.nodupS, by simp, hi.nodupF, hi.nodupR, hi.termSub, hi.faultSub, hi.recSub, by simp⟩
  | recordMissedPost fe =>
    simp only [stepE] at h
    cases ha : p.recordMissedPost env.qs fe with
    | error e => simp [ha] at h
    | ok x =>
      obtain ⟨p1, d, pen, nf⟩ := x
      simp only [ha, Except.ok.injEq, Prod.mk.injEq] at h
      obtain ⟨rfl, _⟩ := h
      obtain ⟨q', _, _, _, _, hv, e⟩ := Partition.recordMissedPost_ok ha
      subst e
      apply Partition.setInv_of_validate hv
      · exact hi.nodupS
      · simp
      · exact nodup_diff hi.nodupS
      · simp
      · simp
  | popExpiredSectors u =>
    simp only [stepE] at h
    cases ha : p.popExpiredSectors u with
    | error e => simp [ha] at h
    | ok x =>
      obtain ⟨p1, es⟩ := x
      simp only [ha, Except.ok.injEq, Prod.mk.injEq] at h
      obtain ⟨rfl, _⟩ := h
      obtain ⟨hu, hr, _, _, _, eq, hv, e⟩ := Partition.popExpiredSectors_ok ha
      subst e
      apply Partition.setInv_of_validate hv
      · exact hi.nodupS
      · exact hi.nodupU
      · exact nodup_diff hi.nodupF
      · exact hi.nodupR
      · simp [hu]
  | terminateSectors ep sn =>
    simp only [stepE] at h
    cases ha : p.terminateSectors env.tbl env.qs ep sn with
    | error e => simp [ha] at h
    | ok x =>
      obtain ⟨p1, es, rup⟩ := x
      simp only [ha, Except.ok.injEq, Prod.mk.injEq] at h
      obtain ⟨rfl, _⟩ := h
      obtain ⟨_, infos, q', removed, rr, eq, sel, _, _, _, _, _, hv, e⟩ :=
        Partition.terminateSectors_ok ha
      subst e
      apply Partition.setInv_of_validate hv
      · exact hi.nodupS
      · exact nodup_diff hi.nodupU
      · exact nodup_diff hi.nodupF
      · exact nodup_diff hi.nodupR
      · intro x hx
        simp only [mem_diff] at hx ⊢
        intro hf; exact (hi.unprovenSub x hx.1).2.2 hf.1
  | recordSkippedFaults fe sk =>
    simp only [stepE] at h
    cases ha : p.recordSkippedFaults env.tbl env.qs fe sk with
    | error e => simp [ha] at h
    | ok x =>
      obtain ⟨p1, d, nf, rp, b⟩ := x
      simp only [ha, Except.ok.injEq, Prod.mk.injEq] at h
      obtain ⟨rfl, _⟩ := h
      rcases Partition.recordSkippedFaults_ok ha with ⟨_, e, _⟩ | ⟨_, retrInfos, newInfos, p2, _, _, hadd, _, e, hv⟩
      · rw [e]; exact hi
      · subst e
        have hn : (diff (diff sk p.terminated) p.faults).Nodup := nodup_diff (nodup_diff hw)
        exact Partition.setInv_removeRecoveries _ _ hv (Partition.setInv_addFaults hi hn hadd)
  | rescheduleExpirations ne sn =>
    simp only [stepE] at h
    cases ha : p.rescheduleExpirationsP env.tbl env.qs ne sn with
    | error e => simp [ha] at h
    | ok x =>
      obtain ⟨p1, infos⟩ := x
      simp only [ha, Except.ok.injEq, Prod.mk.injEq] at h
      obtain ⟨rfl, _⟩ := h
      obtain ⟨q', _, e⟩ := Partition.rescheduleExpirationsP_ok ha
      subst e
      exact ⟨hi.nodupS, hi.nodupU, hi.nodupF, hi.nodupR, hi.termSub, hi.faultSub, hi.recSub,
        hi.unprovenSub⟩
  | replaceSectors old new =>
    simp only [stepE] at h
    cases ha : p.replaceSectors env.qs old new with
    | error e => simp [ha] at h
    | ok x =>
      obtain ⟨p1, d, pl, f⟩ := x
      simp only [ha, Except.ok.injEq, Prod.mk.injEq] at h
      obtain ⟨rfl, _⟩ := h
      obtain ⟨q', oldNs, newNs, hq, _, hv, e⟩ := Partition.replaceSectors_ok ha
      have hnn := replaceSectorsQ_ok hq
      subst e
      apply Partition.setInv_of_validate hv
      · rw [hnn]; exact nodup_union (nodup_diff hi.nodupS) (nodup_ofList _)
      · exact hi.nodupU
      · exact hi.nodupF
      · exact hi.nodupR
      · intro x hx; exact (hi.unprovenSub x hx).2.2
  | popEarlyTerminations m =>
    simp only [stepE] at h
    cases ha : p.popEarlyTerminations m with
    | error e => simp [ha] at h
    | ok x =>
      obtain ⟨p1, res, n, more⟩ := x
      simp only [ha, Except.ok.injEq, Prod.mk.injEq] at h
      obtain ⟨rfl, _⟩ := h
      obtain ⟨eq, _, e⟩ := Partition.popEarlyTerminations_ok ha
      subst e
      exact ⟨hi.nodupS, hi.nodupU, hi.nodupF, hi.nodupR, hi.termSub, hi.faultSub, hi.recSub,
        hi.unprovenSub⟩

theorem setInv_step {env : Env} {p : Partition} {op : Op} (hi : SetInv p) (hw : OpWF op) :
    SetInv (step env p op).1 := by
  unfold step
  cases h : stepE env p op with
  | error e => exact hi
  | ok r => obtain ⟨p', ret⟩ := r; exact setInv_stepE hi hw h

theorem setInv_run {env : Env} {p : Partition} {ops : List Op} (hi : SetInv p)
    (hw : ∀ op ∈ ops, OpWF op) : SetInv (run env p ops) := by
  induction ops generalizing p with
  | nil => exact hi
  | cons op rest ih =>
    simp only [run]
    exact ih (setInv_step hi (hw op (by simp))) (fun o ho => hw o (by simp [ho]))

end BA.Sector
