/-
  The faulty half of `remove_sectors`: the traversal that takes faulty sectors out of their
  (on-time or early) entries preserves the queue invariant, and its accumulators balance.
-/
import BA.Lemmas.Sector.QRemove

namespace BA.Sector
open BA BA.NatSet

theorem tw_of_lookup {tbl : Table} {n : Nat} {i : SectorInfo} (w : SectorInfo → Int)
    (h : alookup n tbl = some i) : tw tbl w n = w i := by simp [tw, h]

theorem powOf_single {tbl : Table} {n : Nat} {i : SectorInfo} (h : alookup n tbl = some i) :
    powOf tbl [n] = i.power := by
  ext <;> simp [powOf, tw, h, SectorInfo.power]

theorem sum_remove_one (W : Nat → Int) {a : NatSet} (ha : a.Nodup) {n : Nat} (hn : n ∈ a) :
    sumBy W (diff a [n]) = sumBy W a - W n := by
  have := sum_diff_subset W ha (b := [n]) (by simp)
    (fun x hx => by rw [List.mem_singleton.mp hx]; exact hn)
  simpa using this

theorem powOf_remove_one {tbl : Table} {a : NatSet} (ha : a.Nodup) {n : Nat} (hn : n ∈ a)
    {i : SectorInfo} (hl : alookup n tbl = some i) :
    powOf tbl (diff a [n]) = powOf tbl a - i.power := by
  ext
  · simp only [powOf_raw, PowerPair.sub_raw]
    rw [sum_remove_one _ ha hn, tw_of_lookup _ hl]; rfl
  · simp only [powOf_qa, PowerPair.sub_qa]
    rw [sum_remove_one _ ha hn, tw_of_lookup _ hl]; rfl

/-- (A) a faulty on-time sector leaves its entry -/
theorem entryOK_drop_onTime {tbl : Table} {F L : NatSet} {es : ExpSet} {n : Nat} {i : SectorInfo}
    (h : EntryOK tbl F L es) (hl : alookup n tbl = some i) (hF : n ∈ F) (hon : n ∈ es.onTime) :
    EntryOK tbl (diff F [n]) (diff L [n])
      { es with onTime := diff es.onTime [n], pledge := es.pledge - i.pledge,
                faulty := es.faulty - i.power, fee := es.fee - i.fee } := by
  have hn := List.nodup_append.mp h.nodup
  have hne : n ∉ es.early := fun he => hn.2.2 n hon n he rfl
  refine ⟨?_, ?_, ?_, ?_, ?_, ?_, ?_⟩
  · show (diff es.onTime [n] ++ es.early).Nodup
    rw [List.nodup_append]
    exact ⟨nodup_diff hn.1, hn.2.1, fun a ha b hb e => hn.2.2 a (mem_diff.mp ha).1 b hb e⟩
  · intro x hx
    simp only [ExpSet.all, List.mem_append, mem_diff, List.mem_singleton] at hx
    rcases hx with ⟨a, b⟩ | a
    · exact mem_diff.mpr ⟨h.live x (by simp [ExpSet.all, a]), by simpa using b⟩
    · exact mem_diff.mpr ⟨h.live x (by simp [ExpSet.all, a]), by
        simp only [List.mem_singleton]; intro e; subst e; exact hne a⟩
  · intro x hx
    exact mem_diff.mpr ⟨h.earlyFaulty x hx, by
      simp only [List.mem_singleton]; intro e; subst e; exact hne hx⟩
  · show es.pledge - i.pledge = sumBy _ (diff es.onTime [n])
    rw [h.pledge, sum_remove_one _ hn.1 hon, tw_of_lookup _ hl]
  · show es.active = powOf tbl (diff (diff es.onTime [n]) (diff F [n]))
    rw [h.active]
    apply powOf_congr tbl (nodup_diff hn.1) (nodup_diff (nodup_diff hn.1))
    intro x
    simp only [mem_diff, List.mem_singleton]
    constructor
    · rintro ⟨a, b⟩
      exact ⟨⟨a, fun e => by subst e; exact b hF⟩, fun h' => b h'.1⟩
    · rintro ⟨⟨a, b⟩, c⟩
      exact ⟨a, fun hf => c ⟨hf, b⟩⟩
  · show es.faulty - i.power = powOf tbl (inter (diff es.onTime [n]) (diff F [n]) ++ es.early)
    rw [h.faulty]
    have hnin : n ∈ inter es.onTime F := mem_inter.mpr ⟨hon, hF⟩
    have : powOf tbl (inter (diff es.onTime [n]) (diff F [n]) ++ es.early) =
        powOf tbl (diff (inter es.onTime F) [n] ++ es.early) := by
      apply powOf_congr tbl
      · rw [List.nodup_append]
        exact ⟨nodup_inter (nodup_diff hn.1), hn.2.1,
          fun a ha b hb e => hn.2.2 a (mem_diff.mp (mem_inter.mp ha).1).1 b hb e⟩
      · rw [List.nodup_append]
        exact ⟨nodup_diff (nodup_inter hn.1), hn.2.1,
          fun a ha b hb e => hn.2.2 a (mem_inter.mp (mem_diff.mp ha).1).1 b hb e⟩
      · intro x
        simp only [List.mem_append, mem_inter, mem_diff, List.mem_singleton]
        constructor
        · rintro (⟨⟨a, b⟩, c, _⟩ | a)
          · exact Or.inl ⟨⟨a, c⟩, b⟩
          · exact Or.inr a
        · rintro (⟨⟨a, c⟩, b⟩ | a)
          · exact Or.inl ⟨⟨a, b⟩, c, b⟩
          · exact Or.inr a
    rw [this, powOf_append, powOf_append, powOf_remove_one (nodup_inter hn.1) hnin hl]
    ext <;> simp <;> omega
  · show es.fee - i.fee = sumBy _ (diff es.onTime [n] ++ es.early)
    rw [h.fee]
    simp only [ExpSet.all, sumBy_append]
    rw [sum_remove_one _ hn.1 hon, tw_of_lookup _ hl]
    omega

/-- (B) a faulty early sector leaves its entry -/
theorem entryOK_drop_early {tbl : Table} {F L : NatSet} {es : ExpSet} {n : Nat} {i : SectorInfo}
    (h : EntryOK tbl F L es) (hl : alookup n tbl = some i) (he : n ∈ es.early) :
    EntryOK tbl (diff F [n]) (diff L [n])
      { es with early := diff es.early [n], faulty := es.faulty - i.power, fee := es.fee - i.fee } := by
  have hn := List.nodup_append.mp h.nodup
  have hne : n ∉ es.onTime := fun ho => hn.2.2 n ho n he rfl
  refine ⟨?_, ?_, ?_, h.pledge, ?_, ?_, ?_⟩
  · show (es.onTime ++ diff es.early [n]).Nodup
    rw [List.nodup_append]
    exact ⟨hn.1, nodup_diff hn.2.1, fun a ha b hb e => hn.2.2 a ha b (mem_diff.mp hb).1 e⟩
  · intro x hx
    simp only [ExpSet.all, List.mem_append, mem_diff, List.mem_singleton] at hx
    rcases hx with a | ⟨a, b⟩
    · exact mem_diff.mpr ⟨h.live x (by simp [ExpSet.all, a]), by
        simp only [List.mem_singleton]; intro e; subst e; exact hne a⟩
    · exact mem_diff.mpr ⟨h.live x (by simp [ExpSet.all, a]), by simpa using b⟩
  · intro x hx
    obtain ⟨a, b⟩ := mem_diff.mp hx
    exact mem_diff.mpr ⟨h.earlyFaulty x a, b⟩
  · show es.active = powOf tbl (diff es.onTime (diff F [n]))
    rw [h.active]
    congr 1
    apply diff_congr_on
    intro x hx
    simp only [mem_diff, List.mem_singleton]
    exact ⟨fun hf => ⟨hf, fun e => by subst e; exact hne hx⟩, fun h' => h'.1⟩
  · show es.faulty - i.power = powOf tbl (inter es.onTime (diff F [n]) ++ diff es.early [n])
    rw [h.faulty]
    have e1 : inter es.onTime (diff F [n]) = inter es.onTime F := by
      apply inter_congr_on
      intro x hx
      simp only [mem_diff, List.mem_singleton]
      exact ⟨fun h' => h'.1, fun hf => ⟨hf, fun e => by subst e; exact hne hx⟩⟩
    rw [e1, powOf_append, powOf_append, powOf_remove_one hn.2.1 he hl]
    ext <;> simp <;> omega
  · show es.fee - i.fee = sumBy _ (es.onTime ++ diff es.early [n])
    rw [h.fee]
    simp only [ExpSet.all, sumBy_append]
    rw [sum_remove_one _ hn.2.1 he, tw_of_lookup _ hl]
    omega

/-- (C) a sector that is not in the entry -/
theorem entryOK_drop_none {tbl : Table} {F L : NatSet} {es : ExpSet} {n : Nat}
    (h : EntryOK tbl F L es) (hn : n ∉ es.all) : EntryOK tbl (diff F [n]) (diff L [n]) es := by
  apply entryOK_frame h
  · intro x hx
    simp only [mem_diff, List.mem_singleton]
    exact ⟨fun hf => ⟨hf, fun e => by subst e; exact hn hx⟩, fun h' => h'.1⟩
  · intro x hx
    exact mem_diff.mpr ⟨h.live x hx, by simp only [List.mem_singleton]; intro e; subst e; exact hn hx⟩

end BA.Sector

namespace BA.Sector
open BA BA.NatSet

/-- what one sector does to the accumulator (`removeFaultyOne`), case by case -/
theorem removeFaultyOne_cases (onSnap earlySnap R : NatSet) (a : RemAcc) (i : SectorInfo) :
    (i.num ∈ onSnap ∧ removeFaultyOne onSnap earlySnap R a i =
      { es := { a.es with onTime := diff a.es.onTime [i.num], pledge := a.es.pledge - i.pledge,
                          faulty := a.es.faulty - i.power, fee := a.es.fee - i.fee }
        removed := { a.removed with onTime := union a.removed.onTime [i.num],
                                    pledge := a.removed.pledge + i.pledge,
                                    faulty := a.removed.faulty + i.power,
                                    fee := a.removed.fee + i.fee }
        recovering := if i.num ∈ R then a.recovering + i.power else a.recovering
        remaining := diff a.remaining [i.num] }) ∨
    (i.num ∉ onSnap ∧ i.num ∈ earlySnap ∧ removeFaultyOne onSnap earlySnap R a i =
      { es := { a.es with early := diff a.es.early [i.num],
                          faulty := a.es.faulty - i.power, fee := a.es.fee - i.fee }
        removed := { a.removed with early := union a.removed.early [i.num],
                                    faulty := a.removed.faulty + i.power,
                                    fee := a.removed.fee + i.fee }
        recovering := if i.num ∈ R then a.recovering + i.power else a.recovering
        remaining := diff a.remaining [i.num] }) ∨
    (i.num ∉ onSnap ∧ i.num ∉ earlySnap ∧ removeFaultyOne onSnap earlySnap R a i = a) := by
  unfold removeFaultyOne
  by_cases h1 : i.num ∈ onSnap
  · exact Or.inl ⟨h1, by simp [h1]⟩
  · by_cases h2 : i.num ∈ earlySnap
    · exact Or.inr (Or.inl ⟨h1, h2, by simp [h1, h2]⟩)
    · exact Or.inr (Or.inr ⟨h1, h2, by simp [h1, h2]⟩)

/-- facts carried through the inner loop over the faulty sectors on one entry -/
structure FoldOut (tbl : Table) (R : NatSet) (l : List SectorInfo) (F L : NatSet) (a a' : RemAcc) : Prop where
  entry : EntryOK tbl (diff F (nums l)) (diff L (nums l)) a'.es
  sub : ∀ x ∈ a'.es.all, x ∈ a.es.all
  active : a'.removed.active = a.removed.active
  faulty : a'.removed.faulty + powOf tbl a'.remaining = a.removed.faulty + powOf tbl a.remaining
  recov : a'.recovering + powOf tbl (inter a'.remaining R) = a.recovering + powOf tbl (inter a.remaining R)
  sets : ∀ x, (x ∈ a'.removed.onTime ∨ x ∈ a'.removed.early ∨ x ∈ a'.remaining) ↔
    (x ∈ a.removed.onTime ∨ x ∈ a.removed.early ∨ x ∈ a.remaining)
  remNodup : a'.remaining.Nodup
  rem : ∀ x, x ∈ a'.remaining ↔ x ∈ a.remaining ∧ ¬ (x ∈ nums l ∧ x ∈ a.es.all)
  ron : a.removed.onTime.Nodup → a'.removed.onTime.Nodup
  rearly : a.removed.early.Nodup → a'.removed.early.Nodup

theorem removeFold_ok {tbl : Table} (onSnap earlySnap R : NatSet) :
    ∀ (l : List SectorInfo) (a : RemAcc) (F L : NatSet), EntryOK tbl F L a.es →
    (nums l).Nodup → (∀ i ∈ l, alookup i.num tbl = some i ∧ i.num ∈ F) →
    (∀ i ∈ l, (i.num ∈ onSnap ↔ i.num ∈ a.es.onTime) ∧ (i.num ∈ earlySnap ↔ i.num ∈ a.es.early)) →
    (∀ i ∈ l, i.num ∈ a.es.all → i.num ∈ a.remaining) → a.remaining.Nodup →
    FoldOut tbl R l F L a (l.foldl (removeFaultyOne onSnap earlySnap R) a) := by
  intro l
  induction l with
  | nil =>
    intro a F L he _ _ _ _ hrn
    simp only [List.foldl_nil]
    have hnil : nums ([] : List SectorInfo) = [] := rfl
    refine ⟨?_, fun x hx => hx, rfl, rfl, rfl, fun x => Iff.rfl, hrn, fun x => by simp [hnil],
      fun h => h, fun h => h⟩
    rw [hnil, diff_nil_right, diff_nil_right]; exact he
  | cons i rest ih =>
    intro a F L he hnd hl hsnap hwant hrn
    simp only [nums, List.map_cons, List.nodup_cons] at hnd
    simp only [List.foldl_cons]
    obtain ⟨hli, hFi⟩ := hl i (by simp)
    obtain ⟨s1, s2⟩ := hsnap i (by simp)
    have hn := List.nodup_append.mp he.nodup
    -- one step
    have step : ∃ a1, removeFaultyOne onSnap earlySnap R a i = a1 ∧
        EntryOK tbl (diff F [i.num]) (diff L [i.num]) a1.es ∧
        (∀ x, x ∈ a1.es.onTime ↔ x ∈ a.es.onTime ∧ x ≠ i.num) ∧
        (∀ x, x ∈ a1.es.early ↔ x ∈ a.es.early ∧ x ≠ i.num) ∧
        a1.removed.active = a.removed.active ∧
        a1.removed.faulty + powOf tbl a1.remaining = a.removed.faulty + powOf tbl a.remaining ∧
        a1.recovering + powOf tbl (inter a1.remaining R) = a.recovering + powOf tbl (inter a.remaining R) ∧
        (∀ x, (x ∈ a1.removed.onTime ∨ x ∈ a1.removed.early ∨ x ∈ a1.remaining) ↔
          (x ∈ a.removed.onTime ∨ x ∈ a.removed.early ∨ x ∈ a.remaining)) ∧
        a1.remaining.Nodup ∧
        (∀ x, x ∈ a1.remaining ↔ x ∈ a.remaining ∧ ¬ (x = i.num ∧ x ∈ a.es.all)) ∧
        (a.removed.onTime.Nodup → a1.removed.onTime.Nodup) ∧
        (a.removed.early.Nodup → a1.removed.early.Nodup) := by
      have hitcase : ∀ (hin : i.num ∈ a.es.all),
          powOf tbl (diff a.remaining [i.num]) = powOf tbl a.remaining - i.power ∧
          ((if i.num ∈ R then a.recovering + i.power else a.recovering) +
            powOf tbl (inter (diff a.remaining [i.num]) R) =
            a.recovering + powOf tbl (inter a.remaining R)) := by
        intro hin
        have hrem := hwant i (by simp) hin
        refine ⟨powOf_remove_one hrn hrem hli, ?_⟩
        by_cases hR : i.num ∈ R
        · simp only [hR, if_true]
          have : powOf tbl (inter (diff a.remaining [i.num]) R) =
              powOf tbl (diff (inter a.remaining R) [i.num]) := by
            apply powOf_congr tbl (nodup_inter (nodup_diff hrn)) (nodup_diff (nodup_inter hrn))
            intro x; simp only [mem_inter, mem_diff]
            exact ⟨fun ⟨⟨p, q⟩, r⟩ => ⟨⟨p, r⟩, q⟩, fun ⟨⟨p, r⟩, q⟩ => ⟨⟨p, q⟩, r⟩⟩
          rw [this, powOf_remove_one (nodup_inter hrn) (mem_inter.mpr ⟨hrem, hR⟩) hli]
          ext <;> simp <;> omega
        · simp only [hR, if_false]
          congr 1
          apply powOf_congr tbl (nodup_inter (nodup_diff hrn)) (nodup_inter hrn)
          intro x; simp only [mem_inter, mem_diff, List.mem_singleton]
          exact ⟨fun ⟨⟨p, _⟩, r⟩ => ⟨p, r⟩, fun ⟨p, r⟩ => ⟨⟨p, fun e => by subst e; exact hR r⟩, r⟩⟩
      rcases removeFaultyOne_cases onSnap earlySnap R a i with ⟨c1, ce⟩ | ⟨c1, c2, ce⟩ | ⟨c1, c2, ce⟩
      · have hon : i.num ∈ a.es.onTime := s1.mp c1
        have hin : i.num ∈ a.es.all := by simp [ExpSet.all, hon]
        obtain ⟨hp, hr⟩ := hitcase hin
        refine ⟨_, ce, ?_⟩
        refine ⟨entryOK_drop_onTime he hli hFi hon, fun x => by simp [mem_diff], ?_, rfl, ?_, hr, ?_,
          nodup_diff hrn, ?_, fun h' => nodup_union h' (by simp), fun h' => h'⟩
        · intro x
          constructor
          · intro hx; exact ⟨hx, fun e => by subst e; exact hn.2.2 _ hon _ hx rfl⟩
          · intro hx; exact hx.1
        · show a.removed.faulty + i.power + powOf tbl (diff a.remaining [i.num]) = _
          rw [hp]; ext <;> simp <;> omega
        · intro x
          simp only [mem_union, mem_diff, List.mem_singleton]
          constructor
          · rintro ((p | p) | p | ⟨p, _⟩)
            · exact Or.inl p
            · subst p; exact Or.inr (Or.inr (hwant i (by simp) hin))
            · exact Or.inr (Or.inl p)
            · exact Or.inr (Or.inr p)
          · rintro (p | p | p)
            · exact Or.inl (Or.inl p)
            · exact Or.inr (Or.inl p)
            · by_cases hx : x = i.num
              · exact Or.inl (Or.inr hx)
              · exact Or.inr (Or.inr ⟨p, hx⟩)
        · intro x
          simp only [mem_diff, List.mem_singleton]
          constructor
          · rintro ⟨p, q⟩; exact ⟨p, fun h' => q h'.1⟩
          · rintro ⟨p, q⟩; exact ⟨p, fun e => q ⟨e, by subst e; exact hin⟩⟩
      · have hea : i.num ∈ a.es.early := s2.mp c2
        have hin : i.num ∈ a.es.all := by simp [ExpSet.all, hea]
        obtain ⟨hp, hr⟩ := hitcase hin
        refine ⟨_, ce, ?_⟩
        refine ⟨entryOK_drop_early he hli hea, ?_, fun x => by simp [mem_diff], rfl, ?_, hr, ?_,
          nodup_diff hrn, ?_, fun h' => h', fun h' => nodup_union h' (by simp)⟩
        · intro x
          constructor
          · intro hx; exact ⟨hx, fun e => by subst e; exact hn.2.2 _ hx _ hea rfl⟩
          · intro hx; exact hx.1
        · show a.removed.faulty + i.power + powOf tbl (diff a.remaining [i.num]) = _
          rw [hp]; ext <;> simp <;> omega
        · intro x
          simp only [mem_union, mem_diff, List.mem_singleton]
          constructor
          · rintro (p | (p | p) | ⟨p, _⟩)
            · exact Or.inl p
            · exact Or.inr (Or.inl p)
            · subst p; exact Or.inr (Or.inr (hwant i (by simp) hin))
            · exact Or.inr (Or.inr p)
          · rintro (p | p | p)
            · exact Or.inl p
            · exact Or.inr (Or.inl (Or.inl p))
            · by_cases hx : x = i.num
              · exact Or.inr (Or.inl (Or.inr hx))
              · exact Or.inr (Or.inr ⟨p, hx⟩)
        · intro x
          simp only [mem_diff, List.mem_singleton]
          constructor
          · rintro ⟨p, q⟩; exact ⟨p, fun h' => q h'.1⟩
          · rintro ⟨p, q⟩; exact ⟨p, fun e => q ⟨e, by subst e; exact hin⟩⟩
      · have hnot : i.num ∉ a.es.all := by
          simp only [ExpSet.all, List.mem_append, not_or]
          exact ⟨fun h' => c1 (s1.mpr h'), fun h' => c2 (s2.mpr h')⟩
        refine ⟨_, ce, ?_⟩
        refine ⟨entryOK_drop_none he hnot, ?_, ?_, rfl, rfl, rfl, fun x => Iff.rfl, hrn, ?_,
          fun h' => h', fun h' => h'⟩
        · intro x
          exact ⟨fun hx => ⟨hx, fun e => by subst e; exact hnot (by simp [ExpSet.all, hx])⟩, fun hx => hx.1⟩
        · intro x
          exact ⟨fun hx => ⟨hx, fun e => by subst e; exact hnot (by simp [ExpSet.all, hx])⟩, fun hx => hx.1⟩
        · intro x
          exact ⟨fun hx => ⟨hx, fun h' => by rw [h'.1] at h'; exact hnot h'.2⟩, fun hx => hx.1⟩
    obtain ⟨a1, e1, k1, k2, k3, k4, k5, k6, k7, k8, k9, k10, k11⟩ := step
    rw [e1]
    have hall1 : ∀ x, x ∈ a1.es.all ↔ x ∈ a.es.all ∧ x ≠ i.num := by
      intro x
      simp only [ExpSet.all, List.mem_append, k2 x, k3 x]
      constructor
      · rintro (⟨p, q⟩ | ⟨p, q⟩)
        · exact ⟨Or.inl p, q⟩
        · exact ⟨Or.inr p, q⟩
      · rintro ⟨p | p, q⟩
        · exact Or.inl ⟨p, q⟩
        · exact Or.inr ⟨p, q⟩
    have hne : ∀ j ∈ rest, j.num ≠ i.num := fun j hj e =>
      hnd.1 (by rw [← e]; exact List.mem_map_of_mem hj)
    have ihres := ih a1 (diff F [i.num]) (diff L [i.num]) k1 hnd.2
      (fun j hj => ⟨(hl j (List.mem_cons_of_mem _ hj)).1,
        mem_diff.mpr ⟨(hl j (List.mem_cons_of_mem _ hj)).2, by simpa using hne j hj⟩⟩)
      (fun j hj => by
        obtain ⟨t1, t2⟩ := hsnap j (List.mem_cons_of_mem _ hj)
        exact ⟨by rw [k2]; exact ⟨fun h' => ⟨t1.mp h', hne j hj⟩, fun h' => t1.mpr h'.1⟩,
               by rw [k3]; exact ⟨fun h' => ⟨t2.mp h', hne j hj⟩, fun h' => t2.mpr h'.1⟩⟩)
      (fun j hj hin => by
        have hin' := ((hall1 j.num).mp hin).1
        exact (k9 j.num).mpr ⟨hwant j (List.mem_cons_of_mem _ hj) hin', fun h' => hne j hj h'.1⟩)
      k8
    refine ⟨?_, fun x hx => ((hall1 x).mp (ihres.sub x hx)).1, by rw [ihres.active, k4],
      by rw [ihres.faulty, k5], by rw [ihres.recov, k6], fun x => (ihres.sets x).trans (k7 x),
      ihres.remNodup, ?_, fun h' => ihres.ron (k10 h'), fun h' => ihres.rearly (k11 h')⟩
    · apply entryOK_frame ihres.entry
      · intro x _
        simp only [nums, List.map_cons, mem_diff, List.mem_cons, List.not_mem_nil, or_false, not_or]
        exact ⟨fun ⟨⟨p, q⟩, r⟩ => ⟨p, q, r⟩, fun ⟨p, q, r⟩ => ⟨⟨p, q⟩, r⟩⟩
      · intro x hx
        have := ihres.entry.live x hx
        simp only [nums, List.map_cons, mem_diff, List.mem_cons, List.not_mem_nil, or_false, not_or] at this ⊢
        exact ⟨this.1.1, this.1.2, this.2⟩
    · intro x
      rw [ihres.rem x, k9 x, hall1 x]
      simp only [nums, List.map_cons, List.mem_cons]
      constructor
      · rintro ⟨⟨p, q⟩, r⟩
        refine ⟨p, ?_⟩
        rintro ⟨h1 | h1, h2⟩
        · exact q ⟨h1, h2⟩
        · exact r ⟨h1, h2, fun e => q ⟨e, h2⟩⟩
      · rintro ⟨p, q⟩
        exact ⟨⟨p, fun h' => q ⟨Or.inl h'.1, h'.2⟩⟩, fun h' => q ⟨Or.inr h'.1, h'.2.1⟩⟩

end BA.Sector
