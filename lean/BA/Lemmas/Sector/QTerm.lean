/-
  The faulty half of `remove_sectors`: the traversal that takes faulty sectors out of their
  (on-time or early) entries preserves the queue invariant, and its accumulators balance.
-/
import BA.Lemmas.Sector.QRemove

namespace BA.Sector
open BA BA.NatSet

theorem tw_of_lookup {tbl : Table} {n : Nat} {i : SectorInfo} (w : SectorInfo → Int)
    (h : alookup n tbl = some i) : tw tbl w n = w i := by simp [tw, h]

theorem powOf_single {tbl : Table} {n : Nat} {i : SectorInfo} (h : alookup n tbl = some i) :
    powOf tbl [n] = i.power := by
  ext <;> simp [powOf, tw, h, SectorInfo.power]

theorem sum_remove_one (W : Nat → Int) {a : NatSet} (ha : a.Nodup) {n : Nat} (hn : n ∈ a) :
    sumBy W (diff a [n]) = sumBy W a - W n := by
  have := sum_diff_subset W ha (b := [n]) (by simp)
    (fun x hx => by rw [List.mem_singleton.mp hx]; exact hn)
  simpa using this

theorem powOf_remove_one {tbl : Table} {a : NatSet} (ha : a.Nodup) {n : Nat} (hn : n ∈ a)
    {i : SectorInfo} (hl : alookup n tbl = some i) :
    powOf tbl (diff a [n]) = powOf tbl a - i.power := by
  ext
  · simp only [powOf_raw, PowerPair.sub_raw]
    rw [sum_remove_one _ ha hn, tw_of_lookup _ hl]; rfl
  · simp only [powOf_qa, PowerPair.sub_qa]
    rw [sum_remove_one _ ha hn, tw_of_lookup _ hl]; rfl

/-- (A) a faulty on-time sector leaves its entry -/
theorem entryOK_drop_onTime {tbl : Table} {F L : NatSet} {es : ExpSet} {n : Nat} {i : SectorInfo}
    (h : EntryOK tbl F L es) (hl : alookup n tbl = some i) (hF : n ∈ F) (hon : n ∈ es.onTime) :
    EntryOK tbl (diff F [n]) (diff L [n])
      { es with onTime := diff es.onTime [n], pledge := es.pledge - i.pledge,
                faulty := es.faulty - i.power, fee := es.fee - i.fee } := by
  have hn := List.nodup_append.mp h.nodup
  have hne : n ∉ es.early := fun he => hn.2.2 n hon n he rfl
  refine ⟨?_, ?_, ?_, ?_, ?_, ?_, ?_⟩
  · show (diff es.onTime [n] ++ es.early).Nodup
    rw [List.nodup_append]
    exact ⟨nodup_diff hn.1, hn.2.1, fun a ha b hb e => hn.2.2 a (mem_diff.mp ha).1 b hb e⟩
  · intro x hx
    simp only [ExpSet.all, List.mem_append, mem_diff, List.mem_singleton] at hx
    rcases hx with ⟨a, b⟩ | a
    · exact mem_diff.mpr ⟨h.live x (by simp [ExpSet.all, a]), by simpa using b⟩
    · exact mem_diff.mpr ⟨h.live x (by simp [ExpSet.all, a]), by
        simp only [List.mem_singleton]; intro e; subst e; exact hne a⟩
  · intro x hx
    exact mem_diff.mpr ⟨h.earlyFaulty x hx, by
      simp only [List.mem_singleton]; intro e; subst e; exact hne hx⟩
  · show es.pledge - i.pledge = sumBy _ (diff es.onTime [n])
    rw [h.pledge, sum_remove_one _ hn.1 hon, tw_of_lookup _ hl]
  · show es.active = powOf tbl (diff (diff es.onTime [n]) (diff F [n]))
    rw [h.active]
    apply powOf_congr tbl (nodup_diff hn.1) (nodup_diff (nodup_diff hn.1))
    intro x
    simp only [mem_diff, List.mem_singleton]
    constructor
    · rintro ⟨a, b⟩
      exact ⟨⟨a, fun e => by subst e; exact b hF⟩, fun h' => b h'.1⟩
    · rintro ⟨⟨a, b⟩, c⟩
      exact ⟨a, fun hf => c ⟨hf, b⟩⟩
  · show es.faulty - i.power = powOf tbl (inter (diff es.onTime [n]) (diff F [n]) ++ es.early)
    rw [h.faulty]
    have hnin : n ∈ inter es.onTime F := mem_inter.mpr ⟨hon, hF⟩
    have : powOf tbl (inter (diff es.onTime [n]) (diff F [n]) ++ es.early) =
        powOf tbl (diff (inter es.onTime F) [n] ++ es.early) := by
      apply powOf_congr tbl
      · rw [List.nodup_append]
        exact ⟨nodup_inter (nodup_diff hn.1), hn.2.1,
          fun a ha b hb e => hn.2.2 a (mem_diff.mp (mem_inter.mp ha).1).1 b hb e⟩
      · rw [List.nodup_append]
        exact ⟨nodup_diff (nodup_inter hn.1), hn.2.1,
          fun a ha b hb e => hn.2.2 a (mem_inter.mp (mem_diff.mp ha).1).1 b hb e⟩
      · intro x
        simp only [List.mem_append, mem_inter, mem_diff, List.mem_singleton]
        constructor
        · rintro (⟨⟨a, b⟩, c, _⟩ | a)
          · exact Or.inl ⟨⟨a, c⟩, b⟩
          · exact Or.inr a
        · rintro (⟨⟨a, c⟩, b⟩ | a)
          · exact Or.inl ⟨⟨a, b⟩, c, b⟩
          · exact Or.inr a
    rw [this, powOf_append, powOf_append, powOf_remove_one (nodup_inter hn.1) hnin hl]
    ext <;> simp <;> omega
  · show es.fee - i.fee = sumBy _ (diff es.onTime [n] ++ es.early)
    rw [h.fee]
    simp only [ExpSet.all, sumBy_append]
    rw [sum_remove_one _ hn.1 hon, tw_of_lookup _ hl]
    omega

/-- (B) a faulty early sector leaves its entry -/
theorem entryOK_drop_early {tbl : Table} {F L : NatSet} {es : ExpSet} {n : Nat} {i : SectorInfo}
    (h : EntryOK tbl F L es) (hl : alookup n tbl = some i) (he : n ∈ es.early) :
    EntryOK tbl (diff F [n]) (diff L [n])
      { es with early := diff es.early [n], faulty := es.faulty - i.power, fee := es.fee - i.fee } := by
  have hn := List.nodup_append.mp h.nodup
  have hne : n ∉ es.onTime := fun ho => hn.2.2 n ho n he rfl
  refine ⟨?_, ?_, ?_, h.pledge, ?_, ?_, ?_⟩
  · show (es.onTime ++ diff es.early [n]).Nodup
    rw [List.nodup_append]
    exact ⟨hn.1, nodup_diff hn.2.1, fun a ha b hb e => hn.2.2 a ha b (mem_diff.mp hb).1 e⟩
  · intro x hx
    simp only [ExpSet.all, List.mem_append, mem_diff, List.mem_singleton] at hx
    rcases hx with a | ⟨a, b⟩
    · exact mem_diff.mpr ⟨h.live x (by simp [ExpSet.all, a]), by
        simp only [List.mem_singleton]; intro e; subst e; exact hne a⟩
    · exact mem_diff.mpr ⟨h.live x (by simp [ExpSet.all, a]), by simpa using b⟩
  · intro x hx
    obtain ⟨a, b⟩ := mem_diff.mp hx
    exact mem_diff.mpr ⟨h.earlyFaulty x a, b⟩
  · show es.active = powOf tbl (diff es.onTime (diff F [n]))
    rw [h.active]
    congr 1
    apply diff_congr_on
    intro x hx
    simp only [mem_diff, List.mem_singleton]
    exact ⟨fun hf => ⟨hf, fun e => by subst e; exact hne hx⟩, fun h' => h'.1⟩
  · show es.faulty - i.power = powOf tbl (inter es.onTime (diff F [n]) ++ diff es.early [n])
    rw [h.faulty]
    have e1 : inter es.onTime (diff F [n]) = inter es.onTime F := by
      apply inter_congr_on
      intro x hx
      simp only [mem_diff, List.mem_singleton]
      exact ⟨fun h' => h'.1, fun hf => ⟨hf, fun e => by subst e; exact hne hx⟩⟩
    rw [e1, powOf_append, powOf_append, powOf_remove_one hn.2.1 he hl]
    ext <;> simp <;> omega
  · show es.fee - i.fee = sumBy _ (es.onTime ++ diff es.early [n])
    rw [h.fee]
    simp only [ExpSet.all, sumBy_append]
    rw [sum_remove_one _ hn.2.1 he, tw_of_lookup _ hl]
    omega

/-- (C) a sector that is not in the entry -/
theorem entryOK_drop_none {tbl : Table} {F L : NatSet} {es : ExpSet} {n : Nat}
    (h : EntryOK tbl F L es) (hn : n ∉ es.all) : EntryOK tbl (diff F [n]) (diff L [n]) es := by
  apply entryOK_frame h
  · intro x hx
    simp only [mem_diff, List.mem_singleton]
    exact ⟨fun hf => ⟨hf, fun e => by subst e; exact hn hx⟩, fun h' => h'.1⟩
  · intro x hx
    exact mem_diff.mpr ⟨h.live x hx, by simp only [List.mem_singleton]; intro e; subst e; exact hn hx⟩

end BA.Sector

namespace BA.Sector
open BA BA.NatSet

/-- what one sector does to the accumulator (`removeFaultyOne`), case by case -/
theorem removeFaultyOne_cases (onSnap earlySnap R : NatSet) (a : RemAcc) (i : SectorInfo) :
    (i.num ∈ onSnap ∧ removeFaultyOne onSnap earlySnap R a i =
      { es := { a.es with onTime := diff a.es.onTime [i.num], pledge := a.es.pledge - i.pledge,
                          faulty := a.es.faulty - i.power, fee := a.es.fee - i.fee }
        removed := { a.removed with onTime := union a.removed.onTime [i.num],
                                    pledge := a.removed.pledge + i.pledge,
                                    faulty := a.removed.faulty + i.power,
                                    fee := a.removed.fee + i.fee }
        recovering := if i.num ∈ R then a.recovering + i.power else a.recovering
        remaining := diff a.remaining [i.num] }) ∨
    (i.num ∉ onSnap ∧ i.num ∈ earlySnap ∧ removeFaultyOne onSnap earlySnap R a i =
      { es := { a.es with early := diff a.es.early [i.num],
                          faulty := a.es.faulty - i.power, fee := a.es.fee - i.fee }
        removed := { a.removed with early := union a.removed.early [i.num],
                                    faulty := a.removed.faulty + i.power,
                                    fee := a.removed.fee + i.fee }
        recovering := if i.num ∈ R then a.recovering + i.power else a.recovering
        remaining := diff a.remaining [i.num] }) ∨
    (i.num ∉ onSnap ∧ i.num ∉ earlySnap ∧ removeFaultyOne onSnap earlySnap R a i = a) := by
  unfold removeFaultyOne
  by_cases h1 : i.num ∈ onSnap
  · exact Or.inl ⟨h1, by simp [h1]⟩
  · by_cases h2 : i.num ∈ earlySnap
    · exact Or.inr (Or.inl ⟨h1, h2, by simp [h1, h2]⟩)
    · exact Or.inr (Or.inr ⟨h1, h2, by simp [h1, h2]⟩)

/-- facts carried through the inner loop over the faulty sectors on one entry -/
structure FoldOut (tbl : Table) (R : NatSet) (l : List SectorInfo) (F L : NatSet) (a a' : RemAcc) : Prop where
  entry : EntryOK tbl (diff F (nums l)) (diff L (nums l)) a'.es
  sub : ∀ x ∈ a'.es.all, x ∈ a.es.all
  active : a'.removed.active = a.removed.active
  faulty : a'.removed.faulty + powOf tbl a'.remaining = a.removed.faulty + powOf tbl a.remaining
  recov : a'.recovering + powOf tbl (inter a'.remaining R) = a.recovering + powOf tbl (inter a.remaining R)
  sets : ∀ x, (x ∈ a'.removed.onTime ∨ x ∈ a'.removed.early ∨ x ∈ a'.remaining) ↔
    (x ∈ a.removed.onTime ∨ x ∈ a.removed.early ∨ x ∈ a.remaining)
  remNodup : a'.remaining.Nodup
  rem : ∀ x, x ∈ a'.remaining ↔ x ∈ a.remaining ∧ ¬ (x ∈ nums l ∧ x ∈ a.es.all)
  ron : a.removed.onTime.Nodup → a'.removed.onTime.Nodup
  rearly : a.removed.early.Nodup → a'.removed.early.Nodup

theorem removeFold_ok {tbl : Table} (onSnap earlySnap R : NatSet) :
    ∀ (l : List SectorInfo) (a : RemAcc) (F L : NatSet), EntryOK tbl F L a.es →
    (nums l).Nodup → (∀ i ∈ l, alookup i.num tbl = some i ∧ i.num ∈ F) →
    (∀ i ∈ l, (i.num ∈ onSnap ↔ i.num ∈ a.es.onTime) ∧ (i.num ∈ earlySnap ↔ i.num ∈ a.es.early)) →
    (∀ i ∈ l, i.num ∈ a.es.all → i.num ∈ a.remaining) → a.remaining.Nodup →
    FoldOut tbl R l F L a (l.foldl (removeFaultyOne onSnap earlySnap R) a) := by
  intro l
  induction l with
  | nil =>
    intro a F L he _ _ _ _ hrn
    simp only [List.foldl_nil]
    have hnil : nums ([] : List SectorInfo) = [] := rfl
    refine ⟨?_, fun x hx => hx, rfl, rfl, rfl, fun x => Iff.rfl, hrn, fun x => by simp [hnil],
      fun h => h, fun h => h⟩
    rw [hnil, diff_nil_right, diff_nil_right]; exact he
  | cons i rest ih =>
    intro a F L he hnd hl hsnap hwant hrn
    simp only [nums, List.map_cons, List.nodup_cons] at hnd
    simp only [List.foldl_cons]
    obtain ⟨hli, hFi⟩ := hl i (by simp)
    obtain ⟨s1, s2⟩ := hsnap i (by simp)
    have hn := List.nodup_append.mp he.nodup
    -- one step
    have step : ∃ a1, removeFaultyOne onSnap earlySnap R a i = a1 ∧
        EntryOK tbl (diff F [i.num]) (diff L [i.num]) a1.es ∧
        (∀ x, x ∈ a1.es.onTime ↔ x ∈ a.es.onTime ∧ x ≠ i.num) ∧
        (∀ x, x ∈ a1.es.early ↔ x ∈ a.es.early ∧ x ≠ i.num) ∧
        a1.removed.active = a.removed.active ∧
        a1.removed.faulty + powOf tbl a1.remaining = a.removed.faulty + powOf tbl a.remaining ∧
        a1.recovering + powOf tbl (inter a1.remaining R) = a.recovering + powOf tbl (inter a.remaining R) ∧
        (∀ x, (x ∈ a1.removed.onTime ∨ x ∈ a1.removed.early ∨ x ∈ a1.remaining) ↔
          (x ∈ a.removed.onTime ∨ x ∈ a.removed.early ∨ x ∈ a.remaining)) ∧
        a1.remaining.Nodup ∧
        (∀ x, x ∈ a1.remaining ↔ x ∈ a.remaining ∧ ¬ (x = i.num ∧ x ∈ a.es.all)) ∧
        (a.removed.onTime.Nodup → a1.removed.onTime.Nodup) ∧
        (a.removed.early.Nodup → a1.removed.early.Nodup) := by
      have hitcase : ∀ (hin : i.num ∈ a.es.all),
          powOf tbl (diff a.remaining [i.num]) = powOf tbl a.remaining - i.power ∧
          ((if i.num ∈ R then a.recovering + i.power else a.recovering) +
            powOf tbl (inter (diff a.remaining [i.num]) R) =
            a.recovering + powOf tbl (inter a.remaining R)) := by
        intro hin
        have hrem := hwant i (by simp) hin
        refine ⟨powOf_remove_one hrn hrem hli, ?_⟩
        by_cases hR : i.num ∈ R
        · simp only [hR, if_true]
          have : powOf tbl (inter (diff a.remaining [i.num]) R) =
              powOf tbl (diff (inter a.remaining R) [i.num]) := by
            apply powOf_congr tbl (nodup_inter (nodup_diff hrn)) (nodup_diff (nodup_inter hrn))
            intro x; simp only [mem_inter, mem_diff]
            exact ⟨fun ⟨⟨p, q⟩, r⟩ => ⟨⟨p, r⟩, q⟩, fun ⟨⟨p, r⟩, q⟩ => ⟨⟨p, q⟩, r⟩⟩
          rw [this, powOf_remove_one (nodup_inter hrn) (mem_inter.mpr ⟨hrem, hR⟩) hli]
          ext <;> simp <;> omega
        · simp only [hR, if_false]
          congr 1
          apply powOf_congr tbl (nodup_inter (nodup_diff hrn)) (nodup_inter hrn)
          intro x; simp only [mem_inter, mem_diff, List.mem_singleton]
          exact ⟨fun ⟨⟨p, _⟩, r⟩ => ⟨p, r⟩, fun ⟨p, r⟩ => ⟨⟨p, fun e => by subst e; exact hR r⟩, r⟩⟩
      rcases removeFaultyOne_cases onSnap earlySnap R a i with ⟨c1, ce⟩ | ⟨c1, c2, ce⟩ | ⟨c1, c2, ce⟩
      · have hon : i.num ∈ a.es.onTime := s1.mp c1
        have hin : i.num ∈ a.es.all := by simp [ExpSet.all, hon]
        obtain ⟨hp, hr⟩ := hitcase hin
        refine ⟨_, ce, ?_⟩
        refine ⟨entryOK_drop_onTime he hli hFi hon, fun x => by simp [mem_diff], ?_, rfl, ?_, hr, ?_,
          nodup_diff hrn, ?_, fun h' => nodup_union h' (by simp), fun h' => h'⟩
        · intro x
          constructor
          · intro hx; exact ⟨hx, fun e => by subst e; exact hn.2.2 _ hon _ hx rfl⟩
          · intro hx; exact hx.1
        · show a.removed.faulty + i.power + powOf tbl (diff a.remaining [i.num]) = _
          rw [hp]; ext <;> simp <;> omega
        · intro x
          simp only [mem_union, mem_diff, List.mem_singleton]
          constructor
          · rintro ((p | p) | p | ⟨p, _⟩)
            · exact Or.inl p
            · subst p; exact Or.inr (Or.inr (hwant i (by simp) hin))
            · exact Or.inr (Or.inl p)
            · exact Or.inr (Or.inr p)
          · rintro (p | p | p)
            · exact Or.inl (Or.inl p)
            · exact Or.inr (Or.inl p)
            · by_cases hx : x = i.num
              · exact Or.inl (Or.inr hx)
              · exact Or.inr (Or.inr ⟨p, hx⟩)
        · intro x
          simp only [mem_diff, List.mem_singleton]
          constructor
          · rintro ⟨p, q⟩; exact ⟨p, fun h' => q h'.1⟩
          · rintro ⟨p, q⟩; exact ⟨p, fun e => q ⟨e, by subst e; exact hin⟩⟩
      · have hea : i.num ∈ a.es.early := s2.mp c2
        have hin : i.num ∈ a.es.all := by simp [ExpSet.all, hea]
        obtain ⟨hp, hr⟩ := hitcase hin
        refine ⟨_, ce, ?_⟩
        refine ⟨entryOK_drop_early he hli hea, ?_, fun x => by simp [mem_diff], rfl, ?_, hr, ?_,
          nodup_diff hrn, ?_, fun h' => h', fun h' => nodup_union h' (by simp)⟩
        · intro x
          constructor
          · intro hx; exact ⟨hx, fun e => by subst e; exact hn.2.2 _ hx _ hea rfl⟩
          · intro hx; exact hx.1
        · show a.removed.faulty + i.power + powOf tbl (diff a.remaining [i.num]) = _
          rw [hp]; ext <;> simp <;> omega
        · intro x
          simp only [mem_union, mem_diff, List.mem_singleton]
          constructor
          · rintro (p | (p | p) | ⟨p, _⟩)
            · exact Or.inl p
            · exact Or.inr (Or.inl p)
            · subst p; exact Or.inr (Or.inr (hwant i (by simp) hin))
            · exact Or.inr (Or.inr p)
          · rintro (p | p | p)
            · exact Or.inl p
            · exact Or.inr (Or.inl (Or.inl p))
            · by_cases hx : x = i.num
              · exact Or.inr (Or.inl (Or.inr hx))
              · exact Or.inr (Or.inr ⟨p, hx⟩)
        · intro x
          simp only [mem_diff, List.mem_singleton]
          constructor
          · rintro ⟨p, q⟩; exact ⟨p, fun h' => q h'.1⟩
          · rintro ⟨p, q⟩; exact ⟨p, fun e => q ⟨e, by subst e; exact hin⟩⟩
      · have hnot : i.num ∉ a.es.all := by
          simp only [ExpSet.all, List.mem_append, not_or]
          exact ⟨fun h' => c1 (s1.mpr h'), fun h' => c2 (s2.mpr h')⟩
        refine ⟨_, ce, ?_⟩
        refine ⟨entryOK_drop_none he hnot, ?_, ?_, rfl, rfl, rfl, fun x => Iff.rfl, hrn, ?_,
          fun h' => h', fun h' => h'⟩
        · intro x
          exact ⟨fun hx => ⟨hx, fun e => by subst e; exact hnot (by simp [ExpSet.all, hx])⟩, fun hx => hx.1⟩
        · intro x
          exact ⟨fun hx => ⟨hx, fun e => by subst e; exact hnot (by simp [ExpSet.all, hx])⟩, fun hx => hx.1⟩
        · intro x
          exact ⟨fun hx => ⟨hx, fun h' => by rw [h'.1] at h'; exact hnot h'.2⟩, fun hx => hx.1⟩
    obtain ⟨a1, e1, k1, k2, k3, k4, k5, k6, k7, k8, k9, k10, k11⟩ := step
    rw [e1]
    have hall1 : ∀ x, x ∈ a1.es.all ↔ x ∈ a.es.all ∧ x ≠ i.num := by
      intro x
      simp only [ExpSet.all, List.mem_append, k2 x, k3 x]
      constructor
      · rintro (⟨p, q⟩ | ⟨p, q⟩)
        · exact ⟨Or.inl p, q⟩
        · exact ⟨Or.inr p, q⟩
      · rintro ⟨p | p, q⟩
        · exact Or.inl ⟨p, q⟩
        · exact Or.inr ⟨p, q⟩
    have hne : ∀ j ∈ rest, j.num ≠ i.num := fun j hj e =>
      hnd.1 (by rw [← e]; exact List.mem_map_of_mem hj)
    have ihres := ih a1 (diff F [i.num]) (diff L [i.num]) k1 hnd.2
      (fun j hj => ⟨(hl j (List.mem_cons_of_mem _ hj)).1,
        mem_diff.mpr ⟨(hl j (List.mem_cons_of_mem _ hj)).2, by simpa using hne j hj⟩⟩)
      (fun j hj => by
        obtain ⟨t1, t2⟩ := hsnap j (List.mem_cons_of_mem _ hj)
        exact ⟨by rw [k2]; exact ⟨fun h' => ⟨t1.mp h', hne j hj⟩, fun h' => t1.mpr h'.1⟩,
               by rw [k3]; exact ⟨fun h' => ⟨t2.mp h', hne j hj⟩, fun h' => t2.mpr h'.1⟩⟩)
      (fun j hj hin => by
        have hin' := ((hall1 j.num).mp hin).1
        exact (k9 j.num).mpr ⟨hwant j (List.mem_cons_of_mem _ hj) hin', fun h' => hne j hj h'.1⟩)
      k8
    refine ⟨?_, fun x hx => ((hall1 x).mp (ihres.sub x hx)).1, by rw [ihres.active, k4],
      by rw [ihres.faulty, k5], by rw [ihres.recov, k6], fun x => (ihres.sets x).trans (k7 x),
      ihres.remNodup, ?_, fun h' => ihres.ron (k10 h'), fun h' => ihres.rearly (k11 h')⟩
    · apply entryOK_frame ihres.entry
      · intro x _
        simp only [nums, List.map_cons, mem_diff, List.mem_cons, List.not_mem_nil, or_false, not_or]
        exact ⟨fun ⟨⟨p, q⟩, r⟩ => ⟨p, q, r⟩, fun ⟨p, q, r⟩ => ⟨⟨p, q⟩, r⟩⟩
      · intro x hx
        have := ihres.entry.live x hx
        simp only [nums, List.map_cons, mem_diff, List.mem_cons, List.not_mem_nil, or_false, not_or] at this ⊢
        exact ⟨this.1.1, this.1.2, this.2⟩
    · intro x
      rw [ihres.rem x, k9 x, hall1 x]
      simp only [nums, List.map_cons, List.mem_cons]
      constructor
      · rintro ⟨⟨p, q⟩, r⟩
        refine ⟨p, ?_⟩
        rintro ⟨h1 | h1, h2⟩
        · exact q ⟨h1, h2⟩
        · exact r ⟨h1, h2, fun e => q ⟨e, h2⟩⟩
      · rintro ⟨p, q⟩
        exact ⟨⟨p, fun h' => q ⟨Or.inl h'.1, h'.2⟩⟩, fun h' => q ⟨Or.inr h'.1, h'.2.1⟩⟩

end BA.Sector

namespace BA.Sector
open BA BA.NatSet

/-- the `iter_while_mut` traversal of `remove_sectors` over an invariant queue -/
theorem removeFaultyTraverse_ok {tbl : Table} {F L R : NatSet} {FI : List SectorInfo}
    (hnd : (nums FI).Nodup) (hFI : ∀ i ∈ FI, alookup i.num tbl = some i ∧ i.num ∈ F) :
    ∀ (q q' : Queue) (removed removed' : ExpSet) (rp rp' : PowerPair) (rem rem' : NatSet),
    QInv tbl F L q → rem.Nodup → (∀ x ∈ nums FI, qsecs q x → x ∈ rem) →
    removeFaultyTraverse FI R q removed rp rem = .ok (q', removed', rp', rem') →
    Sorted q' ∧
    (∀ e v, (e, v) ∈ q' → ∃ es0, (e, es0) ∈ q ∧ (∀ x ∈ v.all, x ∈ es0.all) ∧
      EntryOK tbl (diff F (nums FI)) (diff L (nums FI)) v) ∧
    removed'.active = removed.active ∧
    removed'.faulty + powOf tbl rem' = removed.faulty + powOf tbl rem ∧
    rp' + powOf tbl (inter rem' R) = rp + powOf tbl (inter rem R) ∧
    (∀ x, (x ∈ removed'.onTime ∨ x ∈ removed'.early ∨ x ∈ rem') ↔
      (x ∈ removed.onTime ∨ x ∈ removed.early ∨ x ∈ rem)) ∧
    (removed.onTime.Nodup → removed'.onTime.Nodup) ∧ (removed.early.Nodup → removed'.early.Nodup) := by
  intro q
  induction q with
  | nil =>
    intro q' removed removed' rp rp' rem rem' _ _ _ h
    simp only [removeFaultyTraverse, Except.ok.injEq, Prod.mk.injEq] at h
    obtain ⟨rfl, rfl, rfl, rfl⟩ := h
    exact ⟨by simp [Sorted], by simp, rfl, rfl, rfl, fun x => Iff.rfl, fun h => h, fun h => h⟩
  | cons hd rest ih =>
    intro q' removed removed' rp rp' rem rem' hq hrn hwant h
    obtain ⟨e, es⟩ := hd
    have hq' := qinv_tail hq
    have hes := hq.entry e es (by simp)
    have hdt := head_disj_tail hq
    have hlt := sorted_head_lt hq.sorted
    unfold removeFaultyTraverse at h
    simp only at h
    have fo := removeFold_ok (tbl := tbl) es.onTime es.early R FI
      { es := es, removed := removed, recovering := rp, remaining := rem } F L hes hnd hFI
      (fun i _ => ⟨Iff.rfl, Iff.rfl⟩)
      (fun i hi hin => hwant i.num (List.mem_map_of_mem hi) ⟨e, es, by simp, hin⟩) hrn
    generalize hA : FI.foldl (removeFaultyOne es.onTime es.early R)
      { es := es, removed := removed, recovering := rp, remaining := rem } = A at h fo
    cases hv : A.es.validate with
    | error err => simp [hv] at h
    | ok u =>
      cases u
      simp only [hv] at h
      have hcons : ∀ (qq : Queue), Sorted qq →
          (∀ e2 v, (e2, v) ∈ qq → ∃ es0, (e2, es0) ∈ rest ∧ (∀ x ∈ v.all, x ∈ es0.all) ∧
            EntryOK tbl (diff F (nums FI)) (diff L (nums FI)) v) →
          Sorted (if A.es.isEmpty then qq else (e, A.es) :: qq) ∧
          (∀ e2 v, (e2, v) ∈ (if A.es.isEmpty then qq else (e, A.es) :: qq) →
            ∃ es0, (e2, es0) ∈ (e, es) :: rest ∧ (∀ x ∈ v.all, x ∈ es0.all) ∧
              EntryOK tbl (diff F (nums FI)) (diff L (nums FI)) v) := by
        intro qq hsq hqq
        have lift : ∀ e2 v, (e2, v) ∈ qq → ∃ es0, (e2, es0) ∈ (e, es) :: rest ∧
            (∀ x ∈ v.all, x ∈ es0.all) ∧ EntryOK tbl (diff F (nums FI)) (diff L (nums FI)) v := by
          intro e2 v hm
          obtain ⟨es0, a, b, c⟩ := hqq e2 v hm
          exact ⟨es0, List.mem_cons_of_mem _ a, b, c⟩
        by_cases hem : A.es.isEmpty = true
        · simp only [hem, if_true]; exact ⟨hsq, lift⟩
        · simp only [hem, Bool.false_eq_true, if_false]
          refine ⟨List.pairwise_cons.mpr ⟨?_, hsq⟩, ?_⟩
          · intro x hx
            obtain ⟨es0, a, _, _⟩ := hqq x.1 x.2 hx
            exact hlt (x.1, es0) a
          · intro e2 v hm
            rcases List.mem_cons.mp hm with hm | hm
            · cases hm; exact ⟨es, by simp, fo.sub, fo.entry⟩
            · exact lift e2 v hm
      by_cases hem2 : A.remaining.isEmpty = true
      · simp only [hem2, if_true, Except.ok.injEq, Prod.mk.injEq] at h
        obtain ⟨rfl, rfl, rfl, rfl⟩ := h
        have hr2 : ∀ x, x ∉ A.remaining := isEmpty_iff.mp hem2
        have tailok : ∀ e2 v, (e2, v) ∈ rest → ∃ es0, (e2, es0) ∈ rest ∧ (∀ x ∈ v.all, x ∈ es0.all) ∧
            EntryOK tbl (diff F (nums FI)) (diff L (nums FI)) v := by
          intro e2 v hm
          refine ⟨v, hm, fun x hx => hx, ?_⟩
          have hnf : ∀ x ∈ v.all, x ∉ nums FI := by
            intro x hx hf
            have h1 := hwant x hf ⟨e2, v, List.mem_cons_of_mem _ hm, hx⟩
            have h2 : x ∉ es.all := fun hin => hdt x hin ⟨e2, v, hm, hx⟩
            exact hr2 x ((fo.rem x).mpr ⟨h1, fun h' => h2 h'.2⟩)
          apply entryOK_frame (hq'.entry e2 v hm)
          · intro x hx; simp [mem_diff, hnf x hx]
          · intro x hx; exact mem_diff.mpr ⟨(hq'.entry e2 v hm).live x hx, hnf x hx⟩
        obtain ⟨c1, c2⟩ := hcons rest hq'.sorted tailok
        exact ⟨c1, c2, fo.active, fo.faulty, fo.recov, fo.sets, fo.ron, fo.rearly⟩
      · simp only [hem2, Bool.false_eq_true, if_false] at h
        cases hrec : removeFaultyTraverse FI R rest A.removed A.recovering A.remaining with
        | error err => simp [hrec] at h
        | ok z =>
          obtain ⟨q3, rm3, rp3, rem3⟩ := z
          simp only [hrec, Except.ok.injEq, Prod.mk.injEq] at h
          obtain ⟨rfl, rfl, rfl, rfl⟩ := h
          obtain ⟨i1, i2, i3, i4, i5, i6, i7, i8⟩ := ih q3 A.removed rm3 A.recovering rp3 A.remaining
            rem3 hq' fo.remNodup
            (fun x hf hs => (fo.rem x).mpr ⟨hwant x hf (by
              obtain ⟨e2, es2, hm, hx2⟩ := hs
              exact ⟨e2, es2, List.mem_cons_of_mem _ hm, hx2⟩), fun h' => hdt x h'.2 hs⟩) hrec
          obtain ⟨c1, c2⟩ := hcons q3 i1 i2
          exact ⟨c1, c2, by rw [i3, fo.active], by rw [i4, fo.faulty], by rw [i5, fo.recov],
            fun x => (i6 x).trans (fo.sets x), fun h' => i7 (fo.ron h'), fun h' => i8 (fo.rearly h')⟩

end BA.Sector

namespace BA.Sector
open BA BA.NatSet

theorem nums_filter (p : Nat → Bool) (infos : List SectorInfo) :
    nums (infos.filter (fun i => p i.num)) = (nums infos).filter p := by
  induction infos with
  | nil => rfl
  | cons i t ih =>
    simp only [nums, List.filter_cons, List.map_cons] at ih ⊢
    by_cases h : p i.num = true <;> simp [h, ih]

/-- **`remove_sectors` preserves the queue invariant** and returns exact aggregates: the given
    sectors (distinct, the table's infos) leave the queue, the live set and the fault set -/
theorem removeSectors_ok {tbl : Table} {F L R : NatSet} {qs : QuantSpec} {q q' : Queue}
    {infos : List SectorInfo} {removed : ExpSet} {rr : PowerPair} (h : QInv tbl F L q)
    (hn : (nums infos).Nodup) (ht : ∀ i ∈ infos, alookup i.num tbl = some i)
    (hr : removeSectors qs q infos F R = .ok (q', removed, rr)) :
    QInv tbl (diff F (nums infos)) (diff L (nums infos)) q' ∧
    (∀ x, x ∈ union removed.onTime removed.early ↔ x ∈ nums infos) ∧
    (union removed.onTime removed.early).Nodup ∧
    removed.active = powOf tbl (diff (nums infos) F) ∧
    removed.faulty = powOf tbl (inter (nums infos) F) ∧
    rr = powOf tbl (inter (inter (nums infos) F) R) := by
  unfold removeSectors at hr
  simp only at hr
  -- the two halves of the infos
  have hnf : nums (infos.filter (fun i => !decide (i.num ∈ F))) = diff (nums infos) F :=
    nums_filter (fun n => !decide (n ∈ F)) infos
  have hfi : nums (infos.filter (fun i => decide (i.num ∈ F))) = inter (nums infos) F :=
    nums_filter (fun n => decide (n ∈ F)) infos
  cases hra : removeActiveSectors qs q (infos.filter (fun i => !decide (i.num ∈ F))) with
  | error e => simp [hra] at hr
  | ok x =>
    obtain ⟨q1, ns, power, pledge, fee⟩ := x
    simp only [hra] at hr
    obtain ⟨a1, a2, a3, a4, _, _, _, a8⟩ := removeActiveSectors_qinv h
      (by rw [hnf]; exact nodup_diff hn)
      (fun i hi => ht i (List.mem_filter.mp hi).1)
      (by rw [hnf]; intro x hx; exact (mem_diff.mp hx).2) hra
    rw [hnf] at a1 a2
    have hfnd : (nums (infos.filter (fun i => decide (i.num ∈ F)))).Nodup := by
      rw [hfi]; exact nodup_inter hn
    rw [ofList_eq_self hfnd] at hr
    cases hrt : removeFaultyTraverse (infos.filter (fun i => decide (i.num ∈ F))) R q1
        { onTime := ns, active := power, pledge := pledge, fee := fee } PowerPair.zero
        (nums (infos.filter (fun i => decide (i.num ∈ F)))) with
    | error e => simp [hrt] at hr
    | ok y =>
      obtain ⟨q2, removed2, rp2, rem2⟩ := y
      simp only [hrt] at hr
      by_cases hre : rem2.isEmpty = true
      · simp only [hre, Bool.not_true, Bool.false_eq_true, if_false, Except.ok.injEq, Prod.mk.injEq] at hr
        obtain ⟨rfl, rfl, rfl⟩ := hr
        have hrem2 : rem2 = [] := by cases hs : rem2 <;> simp_all
        subst hrem2
        obtain ⟨b1, b2, b3, b4, b5, b6, b7, b8⟩ := removeFaultyTraverse_ok (tbl := tbl) (F := F)
          (L := diff L (diff (nums infos) F)) (R := R) hfnd
          (fun i hi => by
            have := List.mem_filter.mp hi
            exact ⟨ht i this.1, by simpa using this.2⟩)
          q1 q2 _ removed2 _ rp2 _ [] a1 hfnd (fun x hx _ => hx) hrt
        rw [hfi] at b2 b4 b5 b6
        simp only at b3 b4 b5 b6 b7 b8
        refine ⟨?_, ?_, ?_, ?_, ?_, ?_⟩
        · have hq2 := qinv_of_shrink a1 b1 b2
          apply qinv_frame hq2
          intro x hx
          have hl := qsecs_live hq2 hx
          obtain ⟨hl1, l3⟩ := mem_diff.mp hl
          obtain ⟨l1, l2⟩ := mem_diff.mp hl1
          have hns : x ∉ nums infos := fun hs => by
            by_cases hf : x ∈ F
            · exact l3 (mem_inter.mpr ⟨hs, hf⟩)
            · exact l2 (mem_diff.mpr ⟨hs, hf⟩)
          refine ⟨⟨fun hd => ?_, fun hd => ?_⟩, mem_diff.mpr ⟨l1, hns⟩⟩
          · exact mem_diff.mpr ⟨(mem_diff.mp hd).1, hns⟩
          · exact mem_diff.mpr ⟨(mem_diff.mp hd).1, fun hi => hns (mem_inter.mp hi).1⟩
        · intro x
          have := b6 x
          simp only [List.not_mem_nil, or_false] at this
          rw [mem_union, this, a2]
          simp only [mem_diff, mem_inter]
          constructor
          · rintro (⟨p, _⟩ | p | ⟨p, _⟩)
            · exact p
            · exact absurd p (by simp)
            · exact p
          · intro p
            by_cases hf : x ∈ F
            · exact Or.inr (Or.inr ⟨p, hf⟩)
            · exact Or.inl ⟨p, hf⟩
        · exact nodup_union (b7 a3) (b8 (by simp))
        · rw [b3, a4, sumPow_tbl (fun i hi => ht i (List.mem_filter.mp hi).1), hnf]
        · have := b4
          simp only [powOf_nil] at this
          have e1 := congrArg PowerPair.raw this
          have e2 := congrArg PowerPair.qa this
          simp at e1 e2
          ext <;> simp <;> omega
        · have := b5
          simp only [inter, List.filter_nil, powOf_nil] at this
          have e1 := congrArg PowerPair.raw this
          have e2 := congrArg PowerPair.qa this
          simp at e1 e2
          ext
          · simp [inter] at e1 ⊢; omega
          · simp [inter] at e2 ⊢; omega
      · simp [hre] at hr

end BA.Sector
