/-
  `reschedule_all_as_faults` preserves the full queue invariant: afterwards every live sector is
  faulty (fault set = `L`).
-/
import BA.Lemmas.Sector.QRecover

namespace BA.Sector
open BA BA.NatSet

theorem diff_eq_nil {a F : NatSet} (h : ∀ x ∈ a, x ∈ F) : diff a F = [] := by
  unfold diff; exact List.filter_eq_nil_iff.mpr (fun x hx => by simp [h x hx])
theorem inter_eq_self {a F : NatSet} (h : ∀ x ∈ a, x ∈ F) : inter a F = a := by
  unfold inter; exact List.filter_eq_self.mpr (fun x hx => by simp [h x hx])

/-- an entry all of whose power turns faulty is exact for the fault set `L` -/
theorem entryOK_allFaulty {tbl : Table} {F L : NatSet} {es : ExpSet} (h : EntryOK tbl F L es) :
    EntryOK tbl L L { es with faulty := es.faulty + es.active, active := PowerPair.zero } := by
  have hon : ∀ x ∈ es.onTime, x ∈ L := fun x hx => h.live x (by simp [ExpSet.all, hx])
  refine ⟨h.nodup, h.live, fun x hx => h.live x (by simp [ExpSet.all, hx]), h.pledge, ?_, ?_, h.fee⟩
  · show PowerPair.zero = powOf tbl (diff es.onTime L)
    rw [diff_eq_nil hon]; rfl
  · show es.faulty + es.active = powOf tbl (inter es.onTime L ++ es.early)
    rw [inter_eq_self hon, h.faulty, h.active]
    have s1 := sum_split (tw tbl (·.raw)) es.onTime F
    have s2 := sum_split (tw tbl (·.qa)) es.onTime F
    simp only [powOf_append]
    ext <;> simp <;> omega

theorem allFaultsWalk_qinv {tbl : Table} {F L : NatSet} (faultQ : Int) :
    ∀ (q kept : Queue) (eps : List Int) (secs : NatSet) (pow : PowerPair) (fee : Int),
    QInv tbl F L q → allFaultsWalk faultQ q = .ok (kept, eps, secs, pow, fee) →
    Sorted kept ∧
    (∀ e v, (e, v) ∈ kept → ∃ es0, (e, es0) ∈ q ∧ (∀ x ∈ v.all, x ∈ es0.all) ∧ EntryOK tbl L L v) ∧
    secs.Nodup ∧ (∀ x ∈ secs, x ∈ L ∧ qsecs q x ∧ ¬ qsecs kept x) ∧
    pow = powOf tbl secs ∧ fee = sumBy (tw tbl (·.fee)) secs := by
  intro q
  induction q with
  | nil =>
    intro kept eps secs pow fee _ h
    simp only [allFaultsWalk, Except.ok.injEq, Prod.mk.injEq] at h
    obtain ⟨rfl, _, rfl, rfl, rfl⟩ := h
    exact ⟨by simp [Sorted], by simp, by simp, by simp, rfl, rfl⟩
  | cons hd rest ih =>
    intro kept eps secs pow fee hq h
    obtain ⟨e, es⟩ := hd
    have hq' := qinv_tail hq
    have hes := hq.entry e es (by simp)
    have hdt := head_disj_tail hq
    have hlt := sorted_head_lt hq.sorted
    unfold allFaultsWalk at h
    by_cases hc : e ≤ faultQ
    · simp only [hc, if_true] at h
      cases hr : allFaultsWalk faultQ rest with
      | error err => simp [hr] at h
      | ok x =>
        obtain ⟨k3, e3, s3, p3, f3⟩ := x
        simp only [hr] at h
        obtain ⟨i1, i2, i3, i4, i5, i6⟩ := ih k3 e3 s3 p3 f3 hq' hr
        split at h
        · simp at h
        · simp only [Except.ok.injEq, Prod.mk.injEq] at h
          obtain ⟨rfl, _, rfl, rfl, rfl⟩ := h
          refine ⟨?_, ?_, i3, ?_, i5, i6⟩
          · refine List.pairwise_cons.mpr ⟨?_, i1⟩
            intro x hx
            obtain ⟨es0, a, _, _⟩ := i2 x.1 x.2 hx
            exact hlt (x.1, es0) a
          · intro e2 v hm
            rcases List.mem_cons.mp hm with hm | hm
            · cases hm
              exact ⟨es, by simp, fun x hx => hx, entryOK_allFaulty hes⟩
            · obtain ⟨es0, a, b, c⟩ := i2 e2 v hm
              exact ⟨es0, List.mem_cons_of_mem _ a, b, c⟩
          · intro x hx
            obtain ⟨a, ⟨e2, es2, hm2, hx2⟩, c⟩ := i4 x hx
            refine ⟨a, ⟨e2, es2, List.mem_cons_of_mem _ hm2, hx2⟩, ?_⟩
            rintro ⟨e4, v, hm, hxv⟩
            rcases List.mem_cons.mp hm with hm | hm
            · cases hm
              exact hdt x hxv ⟨e2, es2, hm2, hx2⟩
            · exact c ⟨e4, v, hm, hxv⟩
    · simp only [hc, if_false] at h
      by_cases he : (!es.early.isEmpty) = true
      · simp [he] at h
      · simp only [he, Bool.false_eq_true, if_false] at h
        have hearly : es.early = [] := by cases hq2 : es.early <;> simp_all
        cases hr : allFaultsWalk faultQ rest with
        | error err => simp [hr] at h
        | ok x =>
          obtain ⟨k3, e3, s3, p3, f3⟩ := x
          simp only [hr, Except.ok.injEq, Prod.mk.injEq] at h
          obtain ⟨rfl, _, rfl, rfl, rfl⟩ := h
          obtain ⟨i1, i2, i3, i4, i5, i6⟩ := ih k3 e3 s3 p3 f3 hq' hr
          have hall : es.all = es.onTime := by simp [ExpSet.all, hearly]
          have hn1 : es.onTime.Nodup := by rw [← hall]; exact hes.nodup
          have hfresh : ∀ x ∈ s3, x ∉ es.onTime := fun x hx hin =>
            hdt x (by rw [hall]; exact hin) (i4 x hx).2.1
          have hu : union es.onTime s3 = es.onTime ++ s3 := union_eq_append hfresh
          refine ⟨i1, ?_, ?_, ?_, ?_, ?_⟩
          · intro e2 v hm
            obtain ⟨es0, a, b, c⟩ := i2 e2 v hm
            exact ⟨es0, List.mem_cons_of_mem _ a, b, c⟩
          · exact nodup_union hn1 i3
          · intro x hx
            rcases mem_union.mp hx with hx | hx
            · refine ⟨hes.live x (by rw [hall]; exact hx), ⟨e, es, by simp, by rw [hall]; exact hx⟩, ?_⟩
              rintro ⟨e4, v, hm, hxv⟩
              obtain ⟨es0, a, b, _⟩ := i2 e4 v hm
              exact hdt x (by rw [hall]; exact hx) ⟨e4, es0, a, b x hxv⟩
            · obtain ⟨a, ⟨e2, es2, hm2, hx2⟩, c⟩ := i4 x hx
              exact ⟨a, ⟨e2, es2, List.mem_cons_of_mem _ hm2, hx2⟩, c⟩
          · rw [hu, powOf_append, ← i5, hes.active, hes.faulty, hearly]
            have s1 := sum_split (tw tbl (·.raw)) es.onTime F
            have s2 := sum_split (tw tbl (·.qa)) es.onTime F
            ext <;> simp <;> omega
          · rw [hu, sumBy_append, ← i6, hes.fee, hall]

/-- **`reschedule_all_as_faults` preserves the queue invariant**, for the fault set "all live" -/
theorem rescheduleAllAsFaults_qinv {tbl : Table} {F L : NatSet} {qs : QuantSpec} {q q' : Queue}
    {fe : Int} (h : QInv tbl F L q) (hr : rescheduleAllAsFaults qs q fe = .ok q') :
    QInv tbl L L q' := by
  unfold rescheduleAllAsFaults at hr
  cases hc : allFaultsWalk (qs.quantizeUp fe) q with
  | error e => simp [hc] at hr
  | ok x =>
    obtain ⟨kept, eps, secs, pow, fee⟩ := x
    simp only [hc] at hr
    obtain ⟨a1, a2, a3, a4, a5, a6⟩ := allFaultsWalk_qinv _ q kept eps secs pow fee h hc
    have hk : QInv tbl L L kept := qinv_of_shrink h a1 a2
    by_cases he : eps.isEmpty = true
    · simp only [he, if_true, Except.ok.injEq] at hr; subst hr; exact hk
    · simp only [he, Bool.false_eq_true, if_false] at hr
      exact (qadd_qinv hk (by simp) a3 (by simp) (by simp) (fun x hx => (a4 x hx).2.2) (by simp)
        (fun x hx => (a4 x hx).1) (fun x hx => (a4 x hx).1) (by simp)
        (by simp [diff, powOf, PowerPair.zero]) (by simpa [inter] using a5)
        (by simpa using a6) hr).1

end BA.Sector
