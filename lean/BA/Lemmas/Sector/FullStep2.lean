/-
  The full partition invariant is also preserved by terminate_sectors and reschedule_expirations.
-/
import BA.Lemmas.Sector.QTerm

namespace BA.Sector
open BA BA.NatSet

/-- all methods except replace_sectors -/
def TierC : Op → Prop
  | .terminateSectors _ _ => True
  | .rescheduleExpirations _ _ => True
  | op => TierB op

theorem powOf_split (tbl : Table) (a b : NatSet) :
    powOf tbl a = powOf tbl (inter a b) + powOf tbl (diff a b) := by
  ext
  · simp only [powOf_raw, PowerPair.add_raw]; exact sum_split _ a b
  · simp only [powOf_qa, PowerPair.add_qa]; exact sum_split _ a b

theorem fullInv_terminate {tbl : Table} {p p' : Partition} {qs : QuantSpec} {ep : Int} {sn : NatSet}
    {ret : ExpSet} {rup : PowerPair} (hw : TableWF tbl) (h : FullInv tbl p) (hsn : sn.Nodup)
    (hs' : SetInv p') (ht : p.terminateSectors tbl qs ep sn = .ok (p', ret, rup)) :
    FullInv tbl p' := by
  obtain ⟨hlive, infos, q', removed, rr, eq, sel, hl, hr, hsel, hrup, _, _, e⟩ :=
    Partition.terminateSectors_ok ht
  obtain ⟨n1, n2⟩ := Partition.loadSectors_spec hw hl
  obtain ⟨a1, a2, a3, a4, a5, a6⟩ := removeSectors_ok h.queue (by rw [n1]; exact hsn) n2 hr
  rw [n1] at a1 a2 a4 a5 a6
  have hs := h.sets
  have hm := h.memo
  have hL := nodup_diff (b := p.terminated) hs.nodupS
  have hsnL : ∀ x ∈ sn, x ∈ diff p.sectors p.terminated := fun x hx => mem_diff.mpr (hlive x hx)
  -- the removed set `rs` has the members of `sn`
  have hselp : sumPow sel = powOf tbl (inter (union removed.onTime removed.early) p.unproven) :=
    selectSectors_pow n2 (nodup_inter a3) hsel
  subst e
  refine ⟨hs', ⟨?_, ?_, ?_, ?_, qinv_nodup a1⟩, ?_⟩
  · -- live
    show (p.livePower - removed.active) - removed.faulty =
      powOf tbl (diff p.sectors (union p.terminated (union removed.onTime removed.early)))
    rw [a4, a5, hm.live]
    have e1 : powOf tbl (diff p.sectors (union p.terminated (union removed.onTime removed.early))) =
        powOf tbl (diff (diff p.sectors p.terminated) sn) := by
      apply powOf_congr tbl (nodup_diff hs.nodupS) (nodup_diff hL)
      intro x
      simp only [mem_diff, mem_union, a2 x]
      constructor
      · rintro ⟨a, b⟩; exact ⟨⟨a, fun h' => b (Or.inl h')⟩, fun h' => b (Or.inr h')⟩
      · rintro ⟨⟨a, b⟩, c⟩; exact ⟨a, fun h' => by rcases h' with h' | h'; exact b h'; exact c h'⟩
    rw [e1, powOf_diff_sub tbl hL hsn hsnL, powOf_split tbl sn p.faults]
    ext <;> simp <;> omega
  · -- unproven
    show p.unprovenPower - rup = powOf tbl (diff p.unproven (inter (union removed.onTime removed.early) p.unproven))
    rw [hrup, hselp, hm.unproven,
      powOf_diff_sub tbl hs.nodupU (nodup_inter a3) (fun x hx => (mem_inter.mp hx).2)]
  · -- faulty
    show p.faultyPower - removed.faulty = powOf tbl (diff p.faults (union removed.onTime removed.early))
    rw [a5, hm.faulty, powOf_split tbl p.faults sn]
    have e1 : powOf tbl (inter sn p.faults) = powOf tbl (inter p.faults sn) :=
      powOf_congr tbl (nodup_inter hsn) (nodup_inter hs.nodupF)
        (fun x => by simp only [mem_inter]; exact And.comm)
    have e2 : powOf tbl (diff p.faults (union removed.onTime removed.early)) = powOf tbl (diff p.faults sn) :=
      powOf_congr tbl (nodup_diff hs.nodupF) (nodup_diff hs.nodupF)
        (fun x => by simp only [mem_diff, a2 x])
    rw [e1, e2]
    ext <;> simp <;> omega
  · -- recovering
    show p.recoveringPower - rr = powOf tbl (diff p.recoveries (union removed.onTime removed.early))
    rw [a6, hm.recovering, powOf_split tbl p.recoveries sn]
    have e1 : powOf tbl (inter (inter sn p.faults) p.recoveries) = powOf tbl (inter p.recoveries sn) :=
      powOf_congr tbl (nodup_inter (nodup_inter hsn)) (nodup_inter hs.nodupR)
        (fun x => by
          simp only [mem_inter]
          exact ⟨fun ⟨⟨a, _⟩, c⟩ => ⟨c, a⟩, fun ⟨c, a⟩ => ⟨⟨a, hs.recSub x c⟩, c⟩⟩)
    have e2 : powOf tbl (diff p.recoveries (union removed.onTime removed.early)) =
        powOf tbl (diff p.recoveries sn) :=
      powOf_congr tbl (nodup_diff hs.nodupR) (nodup_diff hs.nodupR)
        (fun x => by simp only [mem_diff, a2 x])
    rw [e1, e2]
    ext <;> simp <;> omega
  · -- queue
    show QInv tbl (diff p.faults (union removed.onTime removed.early))
      (diff p.sectors (union p.terminated (union removed.onTime removed.early))) q'
    apply qinv_frame a1
    intro x hx
    have hl' := qsecs_live a1 hx
    obtain ⟨l1, l2⟩ := mem_diff.mp hl'
    obtain ⟨l3, l4⟩ := mem_diff.mp l1
    have hnrs : x ∉ union removed.onTime removed.early := fun h' => l2 ((a2 x).mp h')
    refine ⟨⟨fun hd => mem_diff.mpr ⟨(mem_diff.mp hd).1, hnrs⟩,
      fun hd => mem_diff.mpr ⟨(mem_diff.mp hd).1, l2⟩⟩, mem_diff.mpr ⟨l3, fun h' => ?_⟩⟩
    rcases mem_union.mp h' with h' | h'
    · exact l4 h'
    · exact hnrs h'

theorem fullInv_reschedule {tbl : Table} {p p' : Partition} {qs : QuantSpec} {ne : Int}
    {sn : NatSet} {infos : List SectorInfo} (hw : TableWF tbl) (h : FullInv tbl p) (hsn : sn.Nodup)
    (hr : p.rescheduleExpirationsP tbl qs ne sn = .ok (p', infos)) : FullInv tbl p' := by
  unfold Partition.rescheduleExpirationsP at hr
  cases hl : Partition.loadSectors tbl (diff (diff (inter sn p.sectors) p.terminated) p.faults) with
  | error e => simp [hl] at hr
  | ok l =>
    simp only [hl] at hr
    obtain ⟨n1, n2⟩ := Partition.loadSectors_spec hw hl
    have hnd : (nums l).Nodup := by rw [n1]; exact nodup_diff (nodup_diff (nodup_inter hsn))
    cases hq : rescheduleExpirations qs p.expirations ne l with
    | error e => simp [hq] at hr
    | ok q' =>
      simp only [hq] at hr
      obtain ⟨e1, _, _⟩ := Partition.validated_ok hr
      subst e1
      refine ⟨⟨h.sets.nodupS, h.sets.nodupU, h.sets.nodupF, h.sets.nodupR, h.sets.termSub,
        h.sets.faultSub, h.sets.recSub, h.sets.unprovenSub⟩,
        ⟨h.memo.live, h.memo.unproven, h.memo.faulty, h.memo.recovering, ?_⟩, ?_⟩ <;>
      · -- both goals follow from the queue invariant of q'
        have key : QInv tbl p.faults (diff p.sectors p.terminated) q' := by
          unfold rescheduleExpirations at hq
          by_cases hem : l.isEmpty = true
          · simp only [hem, if_true, Except.ok.injEq] at hq; subst hq; exact h.queue
          · simp only [hem, Bool.false_eq_true, if_false] at hq
            cases hra : removeActiveSectors qs p.expirations l with
            | error e => simp [hra] at hq
            | ok x =>
              obtain ⟨q1, ns, power, pledge, fee⟩ := x
              simp only [hra] at hq
              have hnF : ∀ x ∈ nums l, x ∉ p.faults := by
                rw [n1]; intro x hx; exact (mem_diff.mp hx).2
              obtain ⟨a1, a2, a3, a4, a5, a6, a7, a8⟩ := removeActiveSectors_qinv h.queue hnd n2 hnF hra
              have hq1 : QInv tbl p.faults (diff p.sectors p.terminated) q1 :=
                qinv_frame a1 (fun x hx => ⟨Iff.rfl, (mem_diff.mp (qsecs_live a1 hx)).1⟩)
              have hnsF : ∀ x ∈ ns, x ∉ p.faults := fun x hx => hnF x ((a2 x).mp hx)
              have hlive : ∀ x ∈ ns, x ∈ diff p.sectors p.terminated := by
                intro x hx
                have := (a2 x).mp hx
                rw [n1] at this
                obtain ⟨t1, _⟩ := mem_diff.mp this
                obtain ⟨t2, t3⟩ := mem_diff.mp t1
                exact mem_diff.mpr ⟨(mem_inter.mp t2).2, t3⟩
              exact (qadd_qinv hq1 a3 (by simp) (by simp)
                (fun x hx => a7 x ((a2 x).mp hx)) (by simp) hlive (by simp) (by simp)
                (by rw [a5]; simp only [sumPledge]
                    rw [sumBy_infos_tbl _ n2]
                    exact sumBy_congr_mem _ hnd a3 (fun x => (a2 x).symm))
                (by rw [diff_eq_self hnsF, a4, sumPow_tbl n2]
                    exact powOf_congr tbl hnd a3 (fun x => (a2 x).symm))
                (by rw [inter_eq_nil hnsF]; rfl)
                (by rw [a6]; simp only [sumFee, List.append_nil]
                    rw [sumBy_infos_tbl _ n2]
                    exact sumBy_congr_mem _ hnd a3 (fun x => (a2 x).symm)) hq).1
        first | exact key | exact qinv_nodup key

theorem fullInv_stepE2 {env : Env} {p p' : Partition} {op : Op} {r : Ret}
    (hw : TableWF env.tbl) (h : FullInv env.tbl p) (hop : OpWF op) (hop2 : OpWF2 env.tbl op)
    (ha : TierC op) (hstep : stepE env p op = .ok (p', r)) : FullInv env.tbl p' := by
  cases op with
  | terminateSectors ep sn =>
    have hs' : SetInv p' := setInv_stepE h.sets hop hstep
    simp only [stepE] at hstep
    cases hx : p.terminateSectors env.tbl env.qs ep sn with
    | error e => simp [hx] at hstep
    | ok x =>
      obtain ⟨p1, es, rup⟩ := x
      simp only [hx, Except.ok.injEq, Prod.mk.injEq] at hstep
      obtain ⟨rfl, _⟩ := hstep
      exact fullInv_terminate hw h hop hs' hx
  | rescheduleExpirations ne sn =>
    simp only [stepE] at hstep
    cases hx : p.rescheduleExpirationsP env.tbl env.qs ne sn with
    | error e => simp [hx] at hstep
    | ok x =>
      obtain ⟨p1, infos⟩ := x
      simp only [hx, Except.ok.injEq, Prod.mk.injEq] at hstep
      obtain ⟨rfl, _⟩ := hstep
      exact fullInv_reschedule hw h hop hx
  | addSectors proven infos => exact fullInv_stepE hw h hop hop2 (by simpa [TierC, TierB] using ha) hstep
  | recordFaults sn fe => exact fullInv_stepE hw h hop hop2 (by simp [TierB, TierA]) hstep
  | declareFaultsRecovered sn => exact fullInv_stepE hw h hop hop2 (by simp [TierB, TierA]) hstep
  | recoverFaults => exact fullInv_stepE hw h hop hop2 (by simp [TierB, TierA]) hstep
  | activateUnproven => exact fullInv_stepE hw h hop hop2 (by simp [TierB, TierA]) hstep
  | recordMissedPost fe => exact fullInv_stepE hw h hop hop2 (by simp [TierB, TierA]) hstep
  | popExpiredSectors u => exact fullInv_stepE hw h hop hop2 (by simp [TierB]) hstep
  | recordSkippedFaults fe sk => exact fullInv_stepE hw h hop hop2 (by simp [TierB, TierA]) hstep
  | replaceSectors old new => exact absurd ha (by simp [TierC, TierB, TierA])
  | popEarlyTerminations m => exact fullInv_stepE hw h hop hop2 (by simp [TierB, TierA]) hstep

end BA.Sector
