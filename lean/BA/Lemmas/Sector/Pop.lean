/-
  pop_expired_sectors keeps the partition power memos exact PROVIDED the per-epoch memos of the
  expiration queue are exact (`QSum`).  `QSum` itself is not (yet) proved to be preserved by the
  queue operations; it is what the recomputation oracle checks on the real code after every call.
-/
import BA.Lemmas.Sector.Abs

namespace BA.Sector
open BA BA.NatSet

/-- all sectors of an entry -/
def ExpSet.all (es : ExpSet) : NatSet := es.onTime ++ es.early

/-- the per-epoch memo invariant of the expiration queue w.r.t. the fault set `F` -/
structure EntrySum (tbl : Table) (F : NatSet) (es : ExpSet) : Prop where
  nodup : es.all.Nodup
  earlyFaulty : ∀ x ∈ es.early, x ∈ F
  active : es.active = powOf tbl (diff es.onTime F)
  faulty : es.faulty = powOf tbl (inter es.onTime F ++ es.early)

/-- every entry exact, and no sector in two entries -/
def QSum (tbl : Table) (F : NatSet) : Queue → Prop
  | [] => True
  | (_, es) :: rest => EntrySum tbl F es ∧ (∀ x ∈ es.all, ∀ e' es', (e', es') ∈ rest → x ∉ es'.all) ∧
      QSum tbl F rest

theorem powOf_append (tbl : Table) (a b : NatSet) : powOf tbl (a ++ b) = powOf tbl a + powOf tbl b := by
  ext <;> simp [sumBy_append]

theorem entry_total {tbl : Table} {F : NatSet} {es : ExpSet} (h : EntrySum tbl F es) :
    es.active + es.faulty = powOf tbl es.all ∧
    es.faulty = powOf tbl (inter es.all F) := by
  have hn1 : es.onTime.Nodup := (List.nodup_append.mp h.nodup).1
  have hn2 : es.early.Nodup := (List.nodup_append.mp h.nodup).2.1
  have s1r := sum_split (tw tbl (·.raw)) es.onTime F
  have s1q := sum_split (tw tbl (·.qa)) es.onTime F
  constructor
  · rw [h.active, h.faulty, ExpSet.all, powOf_append, powOf_append]
    ext <;> simp <;> omega
  · rw [h.faulty, powOf_append]
    have : inter es.all F = inter es.onTime F ++ es.early := by
      unfold ExpSet.all inter
      rw [List.filter_append]
      congr 1
      exact List.filter_eq_self.mpr (fun x hx => by simp [h.earlyFaulty x hx])
    rw [this, powOf_append]

/-- the aggregate returned by `pop_until`: exact totals over the popped sectors, which are
    duplicate-free and were all in the queue -/
theorem popUntil_spec {tbl : Table} {F : NatSet} (u : Int) :
    ∀ (q : Queue), QSum tbl F q →
      let agg := (popUntil u q).2
      (union agg.onTime agg.early).Nodup ∧
      (∀ x ∈ union agg.onTime agg.early, ∃ e es, (e, es) ∈ q ∧ x ∈ es.all) ∧
      agg.active + agg.faulty = powOf tbl (union agg.onTime agg.early) ∧
      agg.faulty = powOf tbl (inter (union agg.onTime agg.early) F) ∧
      agg.onTime.Nodup ∧ agg.early.Nodup ∧ (∀ x ∈ agg.early, x ∉ agg.onTime) := by
  intro q
  induction q with
  | nil =>
    intro _
    simp [popUntil, ExpSet.empty, union, diff, inter, powOf, PowerPair.zero]
    rfl
  | cons hd rest ih =>
    obtain ⟨e, es⟩ := hd
    intro hq
    obtain ⟨h1, h2, h3⟩ := hq
    unfold popUntil
    by_cases hc : e > u
    · simp only [hc, if_true]
      simp [ExpSet.empty, union, diff, inter, powOf, PowerPair.zero]
      rfl
    · simp only [hc, if_false]
      obtain ⟨i1, i2, i3, i4, i5, i6, i7⟩ := ih h3
      cases hp : popUntil u rest with
      | mk q' agg =>
        rw [hp] at i1 i2 i3 i4 i5 i6 i7
        simp only at i1 i2 i3 i4 i5 i6 i7 ⊢
        have hn1 : es.onTime.Nodup := (List.nodup_append.mp h1.nodup).1
        have hn2 : es.early.Nodup := (List.nodup_append.mp h1.nodup).2.1
        have hd12 : ∀ x ∈ es.early, x ∉ es.onTime := fun x hx hx' =>
          (List.nodup_append.mp h1.nodup).2.2 x hx' x hx rfl
        -- nothing of this entry is in the aggregate of the rest
        have hfresh : ∀ x ∈ es.all, x ∉ union agg.onTime agg.early := by
          intro x hx hx'
          obtain ⟨e', es', hm, hx''⟩ := i2 x hx'
          exact h2 x hx e' es' hm hx''
        have hfo : ∀ x ∈ es.onTime, x ∉ agg.onTime ∧ x ∉ agg.early := fun x hx =>
          ⟨fun h' => hfresh x (by simp [ExpSet.all, hx]) (mem_union.mpr (Or.inl h')),
           fun h' => hfresh x (by simp [ExpSet.all, hx]) (mem_union.mpr (Or.inr h'))⟩
        have hfe : ∀ x ∈ es.early, x ∉ agg.onTime ∧ x ∉ agg.early := fun x hx =>
          ⟨fun h' => hfresh x (by simp [ExpSet.all, hx]) (mem_union.mpr (Or.inl h')),
           fun h' => hfresh x (by simp [ExpSet.all, hx]) (mem_union.mpr (Or.inr h'))⟩
        have n5 : (union es.onTime agg.onTime).Nodup := nodup_union hn1 i5
        have n6 : (union es.early agg.early).Nodup := nodup_union hn2 i6
        have d7 : ∀ x ∈ union es.early agg.early, x ∉ union es.onTime agg.onTime := by
          intro x hx hx'
          rcases mem_union.mp hx with a | a <;> rcases mem_union.mp hx' with b | b
          · exact hd12 x a b
          · exact (hfe x a).1 b
          · exact (hfo x b).2 a
          · exact i7 x a b
        have nall : (union (union es.onTime agg.onTime) (union es.early agg.early)).Nodup :=
          nodup_union n5 n6
        -- the new union has the members of es.all ++ old union
        have hmem : ∀ x, x ∈ union (union es.onTime agg.onTime) (union es.early agg.early) ↔
            x ∈ es.all ++ union agg.onTime agg.early := by
          intro x
          simp only [mem_union, List.mem_append, ExpSet.all]
          constructor
          · rintro ((a | a) | (a | a))
            · exact Or.inl (Or.inl a)
            · exact Or.inr (Or.inl a)
            · exact Or.inl (Or.inr a)
            · exact Or.inr (Or.inr a)
          · rintro ((a | a) | (a | a))
            · exact Or.inl (Or.inl a)
            · exact Or.inr (Or.inl a)
            · exact Or.inl (Or.inr a)
            · exact Or.inr (Or.inr a)
        have nrhs : (es.all ++ union agg.onTime agg.early).Nodup := by
          rw [List.nodup_append]
          exact ⟨h1.nodup, i1, fun x hx y hy e' => by subst e'; exact hfresh x hx hy⟩
        obtain ⟨t1, t2⟩ := entry_total h1
        refine ⟨nall, ?_, ?_, ?_, n5, n6, d7⟩
        · intro x hx
          rcases List.mem_append.mp ((hmem x).mp hx) with a | a
          · exact ⟨e, es, by simp, a⟩
          · obtain ⟨e', es', hm, hx'⟩ := i2 x a
            exact ⟨e', es', List.mem_cons_of_mem _ hm, hx'⟩
        · rw [powOf_congr tbl nall nrhs hmem, powOf_append, ← t1, ← i3]
          ext <;> simp <;> omega
        · have nl : (inter (union (union es.onTime agg.onTime) (union es.early agg.early)) F).Nodup :=
            nodup_inter nall
          have nr : (inter es.all F ++ inter (union agg.onTime agg.early) F).Nodup := by
            rw [List.nodup_append]
            refine ⟨nodup_inter h1.nodup, nodup_inter i1, ?_⟩
            intro x hx y hy e'
            subst e'
            exact hfresh x (mem_inter.mp hx).1 (mem_inter.mp hy).1
          rw [powOf_congr tbl nl nr, powOf_append, ← t2, ← i4]
          intro x
          simp only [mem_inter, List.mem_append]
          rw [hmem x, List.mem_append]
          constructor
          · rintro ⟨a | a, b⟩
            · exact Or.inl ⟨a, b⟩
            · exact Or.inr ⟨a, b⟩
          · rintro (⟨a, b⟩ | ⟨a, b⟩)
            · exact ⟨Or.inl a, b⟩
            · exact ⟨Or.inr a, b⟩

end BA.Sector

namespace BA.Sector
open BA BA.NatSet

theorem popUntil_rest_sub (u : Int) : ∀ (q : Queue) (x : Int × ExpSet), x ∈ (popUntil u q).1 → x ∈ q := by
  intro q
  induction q with
  | nil => intro x hx; simp [popUntil] at hx
  | cons hd rest ih =>
    obtain ⟨e, es⟩ := hd
    intro x hx
    unfold popUntil at hx
    by_cases hc : e > u
    · simp only [hc, if_true] at hx; exact hx
    · simp only [hc, if_false] at hx
      exact List.mem_cons_of_mem _ (ih x hx)

/-- **pop_expired_sectors keeps the four partition memos exact, given exact per-epoch memos**
    (`QSum`) and that the queue only holds sectors of the partition. -/
theorem memo_popExpired {tbl : Table} {p p' : Partition} {u : Int} {es : ExpSet}
    (hs : SetInv p) (hm : MemoInv tbl p) (hq : QSum tbl p.faults p.expirations)
    (hsub : ∀ e es, (e, es) ∈ p.expirations → ∀ x ∈ es.all, x ∈ p.sectors)
    (h : p.popExpiredSectors u = .ok (p', es)) : MemoInv tbl p' := by
  obtain ⟨hu, hr, _, hes, hnt, eq, _, e⟩ := Partition.popExpiredSectors_ok h
  obtain ⟨a1, a2, a3, a4, _, _, _⟩ := popUntil_spec (tbl := tbl) (F := p.faults) u p.expirations hq
  rw [← hes] at a1 a2 a3 a4
  have hexS : ∀ x ∈ union es.onTime es.early, x ∈ diff p.sectors p.terminated := by
    intro x hx
    obtain ⟨e', es', hm', hx'⟩ := a2 x hx
    exact mem_diff.mpr ⟨hsub e' es' hm' x hx', hnt x hx⟩
  subst e
  refine ⟨?_, ?_, ?_, ?_, ?_⟩
  · show p.livePower - (es.active + es.faulty) =
      powOf tbl (diff p.sectors (union p.terminated (union es.onTime es.early)))
    rw [a3, hm.live, ← powOf_diff_sub tbl (nodup_diff hs.nodupS) a1 hexS]
    apply powOf_congr tbl (nodup_diff (nodup_diff hs.nodupS)) (nodup_diff hs.nodupS)
    intro x
    simp only [mem_diff, mem_union]
    constructor
    · rintro ⟨⟨a, b⟩, c⟩
      exact ⟨a, fun h' => by rcases h' with h' | h'; exact b h'; exact c h'⟩
    · rintro ⟨a, b⟩
      exact ⟨⟨a, fun h' => b (Or.inl h')⟩, fun h' => b (Or.inr h')⟩
  · show p.unprovenPower = powOf tbl p.unproven
    exact hm.unproven
  · show p.faultyPower - es.faulty = powOf tbl (diff p.faults (union es.onTime es.early))
    rw [a4, hm.faulty]
    have s := sum_split (tw tbl (·.raw)) p.faults (union es.onTime es.early)
    have s' := sum_split (tw tbl (·.qa)) p.faults (union es.onTime es.early)
    have c : powOf tbl (inter (union es.onTime es.early) p.faults) =
        powOf tbl (inter p.faults (union es.onTime es.early)) :=
      powOf_congr tbl (nodup_inter a1) (nodup_inter hs.nodupF)
        (fun x => by simp only [mem_inter]; exact And.comm)
    rw [c]
    ext <;> simp <;> omega
  · show p.recoveringPower = powOf tbl p.recoveries
    exact hm.recovering
  · intro e' es' hm'
    exact hm.qnodup e' es' (popUntil_rest_sub u p.expirations (e', es') hm')

end BA.Sector
