/-
  Structural facts about `find_sectors_by_expiration` on an invariant queue: every group is an
  entry of the queue, group epochs are distinct, and every requested sector is in some group.
-/
import BA.Lemmas.Sector.Full

namespace BA.Sector
open BA BA.NatSet

theorem insertEpoch_mem (e : Int) (l : List Int) (x : Int) : x ∈ insertEpoch e l ↔ x = e ∨ x ∈ l := by
  induction l with
  | nil => simp [insertEpoch]
  | cons y t ih =>
    unfold insertEpoch
    by_cases h1 : e = y
    · simp only [h1, if_true, List.mem_cons]
      constructor
      · intro h; exact Or.inr h
      · rintro (h | h)
        · exact Or.inl h
        · exact h
    · simp only [h1, if_false]
      by_cases h2 : e < y
      · simp [h2]
      · simp only [h2, if_false, List.mem_cons, ih]
        constructor
        · rintro (h | h | h)
          · exact Or.inr (Or.inl h)
          · exact Or.inl h
          · exact Or.inr (Or.inr h)
        · rintro (h | h | h)
          · exact Or.inr (Or.inl h)
          · exact Or.inl h
          · exact Or.inr (Or.inr h)

theorem insertEpoch_sorted (e : Int) (l : List Int) (h : l.Pairwise (· < ·)) :
    (insertEpoch e l).Pairwise (· < ·) := by
  induction l with
  | nil => simp [insertEpoch]
  | cons y t ih =>
    obtain ⟨hy, ht⟩ := List.pairwise_cons.mp h
    unfold insertEpoch
    by_cases h1 : e = y
    · simp only [h1, if_true]; exact h
    · simp only [h1, if_false]
      by_cases h2 : e < y
      · simp only [h2, if_true]
        refine List.pairwise_cons.mpr ⟨?_, h⟩
        intro x hx
        rcases List.mem_cons.mp hx with hx | hx
        · rw [hx]; exact h2
        · have := hy x hx; omega
      · simp only [h2, if_false]
        refine List.pairwise_cons.mpr ⟨?_, ih ht⟩
        intro x hx
        rcases (insertEpoch_mem e t x).mp hx with hx | hx
        · rw [hx]; omega
        · exact hy x hx

theorem declaredEpochs_nodup (qs : QuantSpec) (infos : List SectorInfo) :
    (declaredEpochs qs infos).Nodup := by
  unfold declaredEpochs
  have gen : ∀ (l : List SectorInfo) (acc : List Int), acc.Pairwise (· < ·) →
      (l.foldl (fun acc i => insertEpoch (qs.quantizeUp i.exp) acc) acc).Pairwise (· < ·) := by
    intro l
    induction l with
    | nil => intro acc h; exact h
    | cons i t ih => intro acc h; exact ih _ (insertEpoch_sorted _ _ h)
  have := gen infos [] (by simp)
  exact this.imp (fun h => by omega)

/-- structural facts about a list of groups w.r.t. the queue and the wanted set -/
structure GroupsOf (q : Queue) (want : NatSet) (gs : List Group) : Prop where
  inq : ∀ g ∈ gs, (g.epoch, g.es) ∈ q
  secs : ∀ g ∈ gs, ∀ x ∈ g.sectors, x ∈ g.es.onTime ∧ x ∈ want
  epochs : (gs.map (·.epoch)).Nodup

theorem mayGet_mem {q : Queue} {k : Int} {es : ExpSet} (h : mayGet q k = .ok es)
    (hne : es.onTime ≠ []) : (k, es) ∈ q := by
  unfold mayGet at h
  cases hk : keyCheck k with
  | error e => simp [hk] at h
  | ok u =>
    simp only [hk, Except.ok.injEq] at h
    cases hg : qget k q with
    | none => simp [hg] at h; subst h; simp [ExpSet.empty] at hne
    | some v => simp [hg] at h; subst h; exact mem_of_qget hg

theorem groupExpSet_struct (m : Table) (rem : NatSet) (es : ExpSet) (e : Int) :
    (groupExpSet m rem es e).1.epoch = e ∧ (groupExpSet m rem es e).1.es = es ∧
    (∀ x, x ∈ (groupExpSet m rem es e).1.sectors ↔ x ∈ es.onTime ∧ x ∈ rem) ∧
    (∀ x, x ∈ (groupExpSet m rem es e).2 ↔ x ∈ rem ∧ x ∉ es.onTime) := by
  unfold groupExpSet
  refine ⟨rfl, rfl, fun x => by simp [List.mem_filter], fun x => by simp [List.mem_filter]⟩

theorem findDeclared_struct (m : Table) {q : Queue} :
    ∀ (ds : List Int) (rem : NatSet) (gs : List Group) (rem' : NatSet), ds.Nodup →
    findDeclared q m ds rem = .ok (gs, rem') →
    (∀ g ∈ gs, g.epoch ∈ ds ∧ (g.epoch, g.es) ∈ q ∧ ∀ x ∈ g.sectors, x ∈ g.es.onTime ∧ x ∈ rem) ∧
    (gs.map (·.epoch)).Nodup ∧
    (∀ x ∈ rem, x ∈ rem' ∨ ∃ g ∈ gs, x ∈ g.sectors) ∧ (∀ x ∈ rem', x ∈ rem) := by
  intro ds
  induction ds with
  | nil =>
    intro rem gs rem' _ h
    simp only [findDeclared, Except.ok.injEq, Prod.mk.injEq] at h
    obtain ⟨rfl, rfl⟩ := h
    exact ⟨by simp, by simp, fun x hx => Or.inl hx, fun x hx => hx⟩
  | cons d rest ih =>
    intro rem gs rem' hnd h
    obtain ⟨hd1, hd2⟩ := List.nodup_cons.mp hnd
    unfold findDeclared at h
    cases hm : mayGet q d with
    | error e => simp [hm] at h
    | ok es =>
      simp only [hm] at h
      obtain ⟨s1, s2, s3, s4⟩ := groupExpSet_struct m rem es d
      cases hg : groupExpSet m rem es d with
      | mk g r1 =>
        rw [hg] at s1 s2 s3 s4
        simp only at s1 s2 s3 s4
        simp only [hg] at h
        cases hf : findDeclared q m rest r1 with
        | error e => simp [hf] at h
        | ok x =>
          obtain ⟨gs2, r2⟩ := x
          simp only [hf, Except.ok.injEq, Prod.mk.injEq] at h
          obtain ⟨rfl, rfl⟩ := h
          obtain ⟨i1, i2, i3, i4⟩ := ih r1 gs2 r2 hd2 hf
          have lift : ∀ g' ∈ gs2, g'.epoch ∈ d :: rest ∧ (g'.epoch, g'.es) ∈ q ∧
              ∀ x ∈ g'.sectors, x ∈ g'.es.onTime ∧ x ∈ rem := by
            intro g' hg'
            obtain ⟨a, b, c⟩ := i1 g' hg'
            exact ⟨List.mem_cons_of_mem _ a, b, fun x hx => ⟨(c x hx).1, ((s4 x).mp (c x hx).2).1⟩⟩
          by_cases hem : g.sectors.isEmpty = true
          · simp only [hem, if_true]
            have hnil : g.sectors = [] := by cases hs : g.sectors <;> simp_all
            refine ⟨lift, i2, ?_, fun x hx => ((s4 x).mp (i4 x hx)).1⟩
            intro x hx
            by_cases hon : x ∈ es.onTime
            · have : x ∈ g.sectors := (s3 x).mpr ⟨hon, hx⟩
              rw [hnil] at this; simp at this
            · exact i3 x ((s4 x).mpr ⟨hx, hon⟩)
          · simp only [hem, Bool.false_eq_true, if_false]
            have hne : es.onTime ≠ [] := by
              intro hnil
              have : g.sectors = [] := by
                cases hs : g.sectors with
                | nil => rfl
                | cons y t =>
                  have : y ∈ g.sectors := by rw [hs]; simp
                  have := ((s3 y).mp this).1
                  rw [hnil] at this; simp at this
              rw [this] at hem; simp at hem
            refine ⟨?_, ?_, ?_, fun x hx => ((s4 x).mp (i4 x hx)).1⟩
            · intro g' hg'
              rcases List.mem_cons.mp hg' with rfl | hg'
              · rw [s1, s2]
                exact ⟨by simp, mayGet_mem hm hne, fun x hx => by rw [s2] at *; exact (s3 x).mp hx⟩
              · exact lift g' hg'
            · simp only [List.map_cons, List.nodup_cons]
              refine ⟨?_, i2⟩
              rw [s1]
              intro hin
              obtain ⟨g', hg', he⟩ := List.mem_map.mp hin
              exact hd1 (he ▸ (i1 g' hg').1)
            · intro x hx
              by_cases hon : x ∈ es.onTime
              · exact Or.inr ⟨g, by simp, (s3 x).mpr ⟨hon, hx⟩⟩
              · rcases i3 x ((s4 x).mpr ⟨hx, hon⟩) with h' | ⟨g', hg', hx'⟩
                · exact Or.inl h'
                · exact Or.inr ⟨g', List.mem_cons_of_mem _ hg', hx'⟩

theorem findTraverse_struct (m : Table) (declared : List Int) :
    ∀ (qq : Queue) (rem : NatSet) (gs : List Group) (rem' : NatSet), Sorted qq →
    findTraverse m declared qq rem = .ok (gs, rem') →
    (∀ g ∈ gs, g.epoch ∉ declared ∧ (g.epoch, g.es) ∈ qq ∧ ∀ x ∈ g.sectors, x ∈ g.es.onTime ∧ x ∈ rem) ∧
    (gs.map (·.epoch)).Nodup ∧
    (∀ x ∈ rem, x ∈ rem' ∨ ∃ g ∈ gs, x ∈ g.sectors) ∧ (∀ x ∈ rem', x ∈ rem) := by
  intro qq
  induction qq with
  | nil =>
    intro rem gs rem' _ h
    simp only [findTraverse, Except.ok.injEq, Prod.mk.injEq] at h
    obtain ⟨rfl, rfl⟩ := h
    exact ⟨by simp, by simp, fun x hx => Or.inl hx, fun x hx => hx⟩
  | cons hd rest ih =>
    intro rem gs rem' hs h
    obtain ⟨e, es⟩ := hd
    have hlt := sorted_head_lt hs
    unfold findTraverse at h
    by_cases hdcl : e ∈ declared
    · simp only [hdcl, if_true] at h
      obtain ⟨i1, i2, i3, i4⟩ := ih rem gs rem' (sorted_tail hs) h
      exact ⟨fun g hg => ⟨(i1 g hg).1, List.mem_cons_of_mem _ (i1 g hg).2.1, (i1 g hg).2.2⟩, i2, i3, i4⟩
    · simp only [hdcl, if_false] at h
      by_cases hearly : (es.early.any fun u => decide (u ∈ rem)) = true
      · simp [hearly] at h
      · simp only [hearly, Bool.false_eq_true, if_false] at h
        obtain ⟨s1, s2, s3, s4⟩ := groupExpSet_struct m rem es e
        cases hg : groupExpSet m rem es e with
        | mk g r1 =>
          rw [hg] at s1 s2 s3 s4
          simp only at s1 s2 s3 s4
          simp only [hg] at h
          have ghead : g.epoch ∉ declared ∧ (g.epoch, g.es) ∈ (e, es) :: rest ∧
              ∀ x ∈ g.sectors, x ∈ g.es.onTime ∧ x ∈ rem := by
            rw [s1, s2]
            exact ⟨hdcl, by simp, fun x hx => (s3 x).mp hx⟩
          by_cases hre : r1.isEmpty = true
          · simp only [hre, if_true, Except.ok.injEq, Prod.mk.injEq] at h
            obtain ⟨rfl, rfl⟩ := h
            have hr1 : ∀ x, x ∉ r1 := isEmpty_iff.mp hre
            refine ⟨?_, ?_, ?_, fun x hx => ((s4 x).mp hx).1⟩
            · intro g' hg'
              by_cases hem : g.sectors.isEmpty = true
              · simp [hem] at hg'
              · simp only [hem, Bool.false_eq_true, if_false, List.mem_singleton] at hg'
                rw [hg']; exact ghead
            · by_cases hem : g.sectors.isEmpty = true <;> simp [hem]
            · intro x hx
              by_cases hon : x ∈ es.onTime
              · have hxg : x ∈ g.sectors := (s3 x).mpr ⟨hon, hx⟩
                have hem : g.sectors.isEmpty = false := by
                  cases hs' : g.sectors with
                  | nil => rw [hs'] at hxg; simp at hxg
                  | cons _ _ => rfl
                exact Or.inr ⟨g, by simp [hem], hxg⟩
              · exact absurd ((s4 x).mpr ⟨hx, hon⟩) (hr1 x)
          · simp only [hre, Bool.false_eq_true, if_false] at h
            cases hf : findTraverse m declared rest r1 with
            | error err => simp [hf] at h
            | ok y =>
              obtain ⟨gs2, r2⟩ := y
              simp only [hf, Except.ok.injEq, Prod.mk.injEq] at h
              obtain ⟨rfl, rfl⟩ := h
              obtain ⟨i1, i2, i3, i4⟩ := ih r1 gs2 r2 (sorted_tail hs) hf
              have lift : ∀ g' ∈ gs2, g'.epoch ∉ declared ∧ (g'.epoch, g'.es) ∈ (e, es) :: rest ∧
                  ∀ x ∈ g'.sectors, x ∈ g'.es.onTime ∧ x ∈ rem := by
                intro g' hg'
                obtain ⟨a, b, c⟩ := i1 g' hg'
                exact ⟨a, List.mem_cons_of_mem _ b, fun x hx => ⟨(c x hx).1, ((s4 x).mp (c x hx).2).1⟩⟩
              have cover : ∀ x ∈ rem, x ∉ es.onTime → x ∈ r2 ∨ ∃ g' ∈ gs2, x ∈ g'.sectors :=
                fun x hx hon => i3 x ((s4 x).mpr ⟨hx, hon⟩)
              by_cases hem : g.sectors.isEmpty = true
              · simp only [hem, if_true]
                have hnil : g.sectors = [] := by cases hs' : g.sectors <;> simp_all
                refine ⟨lift, i2, ?_, fun x hx => ((s4 x).mp (i4 x hx)).1⟩
                intro x hx
                by_cases hon : x ∈ es.onTime
                · have : x ∈ g.sectors := (s3 x).mpr ⟨hon, hx⟩
                  rw [hnil] at this; simp at this
                · exact cover x hx hon
              · simp only [hem, Bool.false_eq_true, if_false]
                refine ⟨?_, ?_, ?_, fun x hx => ((s4 x).mp (i4 x hx)).1⟩
                · intro g' hg'
                  rcases List.mem_cons.mp hg' with rfl | hg'
                  · exact ghead
                  · exact lift g' hg'
                · simp only [List.map_cons, List.nodup_cons]
                  refine ⟨?_, i2⟩
                  rw [s1]
                  intro hin
                  obtain ⟨g', hg', he⟩ := List.mem_map.mp hin
                  have := hlt (g'.epoch, g'.es) (i1 g' hg').2.1
                  simp at this; omega
                · intro x hx
                  by_cases hon : x ∈ es.onTime
                  · exact Or.inr ⟨g, by simp, (s3 x).mpr ⟨hon, hx⟩⟩
                  · rcases cover x hx hon with h' | ⟨g', hg', hx'⟩
                    · exact Or.inl h'
                    · exact Or.inr ⟨g', List.mem_cons_of_mem _ hg', hx'⟩

end BA.Sector

namespace BA.Sector
open BA BA.NatSet

theorem insertGroup_perm (g : Group) (l : List Group) : (insertGroup g l).Perm (g :: l) := by
  induction l with
  | nil => simp [insertGroup]
  | cons h t ih =>
    unfold insertGroup
    by_cases hc : g.epoch ≤ h.epoch
    · simp [hc]
    · simp only [hc, if_false]
      exact ((List.Perm.cons h ih).trans (List.Perm.swap g h t))

theorem sortGroups_perm (l : List Group) : (sortGroups l).Perm l := by
  induction l with
  | nil => simp [sortGroups]
  | cons h t ih =>
    simp only [sortGroups, List.foldr_cons] at ih ⊢
    exact (insertGroup_perm h _).trans (List.Perm.cons h ih)

/-- **structure of the result of `find_sectors_by_expiration`** on a sorted queue -/
theorem find_struct {qs : QuantSpec} {q : Queue} {infos : List SectorInfo} {gs : List Group}
    (hs : Sorted q) (h : findSectorsByExpiration qs q infos = .ok gs) :
    GroupsOf q (ofList (nums infos)) gs ∧ ∀ x ∈ ofList (nums infos), ∃ g ∈ gs, x ∈ g.sectors := by
  unfold findSectorsByExpiration at h
  simp only at h
  cases h1 : findDeclared q (infoMap infos) (declaredEpochs qs infos) (ofList (nums infos)) with
  | error e => simp [h1] at h
  | ok x =>
    obtain ⟨gs1, rem1⟩ := x
    simp only [h1] at h
    obtain ⟨a1, a2, a3, a4⟩ := findDeclared_struct (infoMap infos) _ _ _ _
      (declaredEpochs_nodup qs infos) h1
    by_cases hre : rem1.isEmpty = true
    · simp only [hre, if_true, Bool.not_true, Bool.false_eq_true, if_false, Except.ok.injEq] at h
      subst h
      have hr1 : ∀ x, x ∉ rem1 := isEmpty_iff.mp hre
      have hp := sortGroups_perm (gs1 ++ [])
      simp only [List.append_nil] at hp ⊢
      refine ⟨⟨fun g hg => (a1 g (hp.mem_iff.mp hg)).2.1, fun g hg => (a1 g (hp.mem_iff.mp hg)).2.2,
        ((hp.map _).nodup_iff).mpr a2⟩, ?_⟩
      intro x hx
      rcases a3 x hx with h' | ⟨g, hg, hxg⟩
      · exact absurd h' (hr1 x)
      · exact ⟨g, hp.mem_iff.mpr hg, hxg⟩
    · simp only [hre, Bool.false_eq_true, if_false] at h
      cases h2 : findTraverse (infoMap infos) (declaredEpochs qs infos) q rem1 with
      | error e => simp [h2] at h
      | ok y =>
        obtain ⟨gs2, rem2⟩ := y
        simp only [h2] at h
        obtain ⟨b1, b2, b3, b4⟩ := findTraverse_struct (infoMap infos) _ q rem1 gs2 rem2 hs h2
        by_cases hre2 : rem2.isEmpty = true
        · simp only [hre2, Bool.not_true, Bool.false_eq_true, if_false, Except.ok.injEq] at h
          subst h
          have hr2 : ∀ x, x ∉ rem2 := isEmpty_iff.mp hre2
          have hp := sortGroups_perm (gs1 ++ gs2)
          have hall : ∀ g ∈ gs1 ++ gs2, (g.epoch, g.es) ∈ q ∧
              ∀ x ∈ g.sectors, x ∈ g.es.onTime ∧ x ∈ ofList (nums infos) := by
            intro g hg
            rcases List.mem_append.mp hg with hg | hg
            · exact (a1 g hg).2
            · exact ⟨(b1 g hg).2.1, fun x hx => ⟨((b1 g hg).2.2 x hx).1, a4 x ((b1 g hg).2.2 x hx).2⟩⟩
          refine ⟨⟨fun g hg => (hall g (hp.mem_iff.mp hg)).1, fun g hg => (hall g (hp.mem_iff.mp hg)).2,
            ?_⟩, ?_⟩
          · refine ((hp.map _).nodup_iff).mpr ?_
            rw [List.map_append, List.nodup_append]
            refine ⟨a2, b2, ?_⟩
            intro a ha b hb eab
            obtain ⟨g, hg, rfl⟩ := List.mem_map.mp ha
            obtain ⟨g', hg', he⟩ := List.mem_map.mp hb
            exact (b1 g' hg').1 (he ▸ eab ▸ (a1 g hg).1)
          · intro x hx
            rcases a3 x hx with h' | ⟨g, hg, hxg⟩
            · rcases b3 x h' with h'' | ⟨g, hg, hxg⟩
              · exact absurd h'' (hr2 x)
              · exact ⟨g, hp.mem_iff.mpr (List.mem_append_right _ hg), hxg⟩
            · exact ⟨g, hp.mem_iff.mpr (List.mem_append_left _ hg), hxg⟩
        · simp [hre2] at h

end BA.Sector
