/-
  `reschedule_as_faults` preserves the full queue invariant: the given (non-faulty, scheduled
  on-time) sectors become faulty — fault set `F ∪ sn`.
-/
import BA.Lemmas.Sector.QFind

namespace BA.Sector
open BA BA.NatSet

/-- the entry written back for a group by `reschedule_as_faults` -/
def updFault (newQ : Int) (g : Group) : ExpSet :=
  if g.epoch ≤ newQ then
    { g.es with active := g.es.active - g.power, faulty := g.es.faulty + g.power }
  else
    { g.es with onTime := diff g.es.onTime (ofList g.sectors), pledge := g.es.pledge - g.pledge,
                active := g.es.active - g.power, fee := g.es.fee - g.fee }

theorem nodup_map_inj {α β : Type} (f : α → β) : ∀ {l : List α}, (l.map f).Nodup →
    ∀ a ∈ l, ∀ b ∈ l, f a = f b → a = b := by
  intro l
  induction l with
  | nil => intro _ a ha; simp at ha
  | cons x t ih =>
    intro hn a ha b hb hab
    simp only [List.map_cons, List.nodup_cons] at hn
    rcases List.mem_cons.mp ha with ha | ha <;> rcases List.mem_cons.mp hb with hb | hb
    · rw [ha, hb]
    · rw [ha] at hab; exact absurd (List.mem_map.mpr ⟨b, hb, hab.symm⟩) hn.1
    · rw [hb] at hab; exact absurd (List.mem_map.mpr ⟨a, ha, hab⟩) hn.1
    · exact ih hn.2 a ha b hb hab

/-- the sequential write-back of the groups (distinct epochs, each an entry of the queue):
    every entry of the result is either a written-back group entry or an untouched old entry;
    moved sectors and powers are the concatenation / sums over the moved groups -/
theorem faultGroups_struct (newQ : Int) :
    ∀ (gs : List Group) (q q2 : Queue) (secs : List Nat) (expiring resched : PowerPair) (fee : Int),
    Sorted q → (gs.map (·.epoch)).Nodup → (∀ g ∈ gs, (g.epoch, g.es) ∈ q) →
    rescheduleFaultGroups newQ q gs = .ok (q2, secs, expiring, resched, fee) →
    Sorted q2 ∧
    (∀ e v, (e, v) ∈ q2 → (∃ g ∈ gs, e = g.epoch ∧ v = updFault newQ g) ∨
      ((e, v) ∈ q ∧ ∀ g ∈ gs, g.epoch ≠ e)) ∧
    secs = (gs.filter (fun g => !decide (g.epoch ≤ newQ))).flatMap (·.sectors) ∧
    resched.raw = sumBy (·.power.raw) (gs.filter (fun g => !decide (g.epoch ≤ newQ))) ∧
    resched.qa = sumBy (·.power.qa) (gs.filter (fun g => !decide (g.epoch ≤ newQ))) ∧
    fee = sumBy (·.fee) (gs.filter (fun g => !decide (g.epoch ≤ newQ))) := by
  intro gs
  induction gs with
  | nil =>
    intro q q2 secs expiring resched fee hs _ _ h
    simp only [rescheduleFaultGroups, Except.ok.injEq, Prod.mk.injEq] at h
    obtain ⟨rfl, rfl, _, rfl, rfl⟩ := h
    exact ⟨hs, fun e v hm => Or.inr ⟨hm, by simp⟩, by simp, by simp, by simp, by simp⟩
  | cons g rest ih =>
    intro q q2 secs expiring resched fee hs hnd hin h
    simp only [List.map_cons, List.nodup_cons] at hnd
    unfold rescheduleFaultGroups at h
    simp only at h
    have hupd : (if g.epoch ≤ newQ then
        ({ g.es with active := g.es.active - g.power, faulty := g.es.faulty + g.power } : ExpSet)
      else
        { g.es with onTime := diff g.es.onTime (ofList g.sectors), pledge := g.es.pledge - g.pledge,
                    active := g.es.active - g.power, fee := g.es.fee - g.fee }) = updFault newQ g := rfl
    rw [hupd] at h
    cases hm : mustUpdateOrDelete q g.epoch (updFault newQ g) with
    | error e => simp [hm] at h
    | ok q1 =>
      simp only [hm] at h
      -- q1 is q with the entry at g.epoch replaced or deleted
      have hq1 : Sorted q1 ∧ ∀ x, x ∈ q1 → x = (g.epoch, updFault newQ g) ∨ (x ∈ q ∧ x.1 ≠ g.epoch) := by
        unfold mustUpdateOrDelete at hm
        cases hk : keyCheck g.epoch with
        | error e => simp [hk] at hm
        | ok u =>
          simp only [hk, Except.ok.injEq] at hm
          subst hm
          by_cases hem : (updFault newQ g).isEmpty = true
          · simp only [hem, if_true]
            exact ⟨sorted_qdel hs _, fun x hx => Or.inr ((mem_qdel_iff hs _ x).mp hx)⟩
          · simp only [hem, Bool.false_eq_true, if_false]
            exact ⟨sorted_qset hs _ _, fun x hx => (mem_qset_iff hs _ _ x).mp hx⟩
      have hq1' : ∀ x, x ∈ q → x.1 ≠ g.epoch → x ∈ q1 := by
        intro x hx hne
        unfold mustUpdateOrDelete at hm
        cases hk : keyCheck g.epoch with
        | error e => simp [hk] at hm
        | ok u =>
          simp only [hk, Except.ok.injEq] at hm
          subst hm
          by_cases hem : (updFault newQ g).isEmpty = true
          · simp only [hem, if_true]; exact (mem_qdel_iff hs _ x).mpr ⟨hx, hne⟩
          · simp only [hem, Bool.false_eq_true, if_false]
            exact (mem_qset_iff hs _ _ x).mpr (Or.inr ⟨hx, hne⟩)
      split at h
      · simp at h
      · cases hr : rescheduleFaultGroups newQ q1 rest with
        | error e => simp [hr] at h
        | ok x =>
          obtain ⟨q3, secs3, exp3, res3, fee3⟩ := x
          simp only [hr] at h
          have hin1 : ∀ g' ∈ rest, (g'.epoch, g'.es) ∈ q1 := by
            intro g' hg'
            apply hq1' _ (hin g' (List.mem_cons_of_mem _ hg'))
            intro he
            exact hnd.1 (List.mem_map.mpr ⟨g', hg', he⟩)
          obtain ⟨i1, i2, i3, i4, i5, i6⟩ := ih q1 q3 secs3 exp3 res3 fee3 hq1.1 hnd.2 hin1 hr
          have ent : ∀ e v, (e, v) ∈ q3 → (∃ g' ∈ g :: rest, e = g'.epoch ∧ v = updFault newQ g') ∨
              ((e, v) ∈ q ∧ ∀ g' ∈ g :: rest, g'.epoch ≠ e) := by
            intro e v hmem
            rcases i2 e v hmem with ⟨g', hg', a, b⟩ | ⟨hm1, hne⟩
            · exact Or.inl ⟨g', List.mem_cons_of_mem _ hg', a, b⟩
            · rcases hq1.2 _ hm1 with hx | ⟨hx, hne1⟩
              · exact Or.inl ⟨g, by simp, (Prod.mk.inj hx).1, (Prod.mk.inj hx).2⟩
              · refine Or.inr ⟨hx, ?_⟩
                intro g' hg'
                rcases List.mem_cons.mp hg' with rfl | hg'
                · exact fun he => hne1 he.symm
                · exact hne g' hg'
          by_cases hc : g.epoch ≤ newQ
          · simp only [hc, decide_true, Bool.not_true, Bool.false_eq_true, if_false, Except.ok.injEq,
              Prod.mk.injEq] at h
            obtain ⟨rfl, rfl, _, rfl, rfl⟩ := h
            refine ⟨i1, ent, ?_, ?_, ?_, ?_⟩ <;>
              simp [hc, i3, i4, i5, i6]
          · simp only [hc, decide_false, Bool.not_false, if_true, Except.ok.injEq,
              Prod.mk.injEq] at h
            obtain ⟨rfl, rfl, _, rfl, rfl⟩ := h
            refine ⟨i1, ent, ?_, ?_, ?_, ?_⟩ <;>
              simp [hc, i3, i4, i5, i6]

end BA.Sector

namespace BA.Sector
open BA BA.NatSet

theorem sumBy_flatMap {α : Type} (W : Nat → Int) (f : α → List Nat) (l : List α) :
    sumBy W (l.flatMap f) = sumBy (fun a => sumBy W (f a)) l := by
  induction l with
  | nil => rfl
  | cons a t ih => simp [List.flatMap_cons, sumBy_append, ih]

/-- what is known about one group when the given sectors `sn` (non-faulty) are being faulted -/
structure FaultGroup (tbl : Table) (F L sn : NatSet) (g : Group) : Prop where
  entry : EntryOK tbl F L g.es
  nodup : g.sectors.Nodup
  onTime : ∀ x ∈ g.sectors, x ∈ g.es.onTime
  inSn : ∀ x ∈ g.sectors, x ∈ sn
  all : ∀ x ∈ g.es.all, x ∈ sn → x ∈ g.sectors
  power : g.power = powOf tbl g.sectors
  pledge : g.pledge = sumBy (tw tbl (·.pledge)) g.sectors
  fee : g.fee = sumBy (tw tbl (·.fee)) g.sectors

theorem updFault_all (newQ : Int) (g : Group) : ∀ x ∈ (updFault newQ g).all, x ∈ g.es.all := by
  intro x hx
  unfold updFault at hx
  by_cases hc : g.epoch ≤ newQ
  · simpa [hc, ExpSet.all] using hx
  · simp only [hc, if_false, ExpSet.all, List.mem_append, mem_diff] at hx ⊢
    rcases hx with hx | hx
    · exact Or.inl hx.1
    · exact Or.inr hx

/-- the written-back entry of a group is exact for the fault set `F ∪ sn` -/
theorem updFault_ok {tbl : Table} {F L sn : NatSet} (newQ : Int) {g : Group}
    (h : FaultGroup tbl F L sn g) (hdisj : ∀ x ∈ sn, x ∉ F) :
    EntryOK tbl (union F sn) L (updFault newQ g) := by
  have he := h.entry
  have hn := List.nodup_append.mp he.nodup
  have hXF : ∀ x ∈ g.sectors, x ∉ F := fun x hx => hdisj x (h.inSn x hx)
  have honSn : ∀ x ∈ g.es.onTime, x ∈ sn → x ∈ g.sectors :=
    fun x hx hs => h.all x (by simp [ExpSet.all, hx]) hs
  have hXsub : ∀ x ∈ g.sectors, x ∈ diff g.es.onTime F :=
    fun x hx => mem_diff.mpr ⟨h.onTime x hx, hXF x hx⟩
  unfold updFault
  by_cases hc : g.epoch ≤ newQ
  · simp only [hc, if_true]
    refine ⟨he.nodup, he.live, fun x hx => mem_union.mpr (Or.inl (he.earlyFaulty x hx)), he.pledge,
      ?_, ?_, he.fee⟩
    · show g.es.active - g.power = powOf tbl (diff g.es.onTime (union F sn))
      rw [he.active, h.power, ← powOf_diff_sub tbl (nodup_diff hn.1) h.nodup hXsub]
      apply powOf_congr tbl (nodup_diff (nodup_diff hn.1)) (nodup_diff hn.1)
      intro x
      simp only [mem_diff, mem_union]
      constructor
      · rintro ⟨⟨a, b⟩, c⟩
        exact ⟨a, fun h' => by rcases h' with h' | h'; exact b h'; exact c (honSn x a h')⟩
      · rintro ⟨a, b⟩
        exact ⟨⟨a, fun h' => b (Or.inl h')⟩, fun h' => b (Or.inr (h.inSn x h'))⟩
    · show g.es.faulty + g.power = powOf tbl (inter g.es.onTime (union F sn) ++ g.es.early)
      rw [he.faulty, h.power]
      have : powOf tbl (inter g.es.onTime (union F sn) ++ g.es.early) =
          powOf tbl ((inter g.es.onTime F ++ g.es.early) ++ g.sectors) := by
        apply powOf_congr tbl
        · rw [List.nodup_append]
          exact ⟨nodup_inter hn.1, hn.2.1, fun a ha b hb e => hn.2.2 a (mem_inter.mp ha).1 b hb e⟩
        · rw [List.nodup_append]
          refine ⟨?_, h.nodup, ?_⟩
          · rw [List.nodup_append]
            exact ⟨nodup_inter hn.1, hn.2.1, fun a ha b hb e => hn.2.2 a (mem_inter.mp ha).1 b hb e⟩
          · intro a ha b hb e
            subst e
            rcases List.mem_append.mp ha with ha | ha
            · exact hXF a hb (mem_inter.mp ha).2
            · exact hn.2.2 a (h.onTime a hb) a ha rfl
        · intro x
          simp only [List.mem_append, mem_inter, mem_union]
          constructor
          · rintro (⟨a, b | b⟩ | a)
            · exact Or.inl (Or.inl ⟨a, b⟩)
            · exact Or.inr (honSn x a b)
            · exact Or.inl (Or.inr a)
          · rintro ((⟨a, b⟩ | a) | a)
            · exact Or.inl ⟨a, Or.inl b⟩
            · exact Or.inr a
            · exact Or.inl ⟨h.onTime x a, Or.inr (h.inSn x a)⟩
      rw [this]; simp only [powOf_append]
  · simp only [hc, if_false]
    have hof : ofList g.sectors = g.sectors := ofList_eq_self h.nodup
    rw [hof]
    refine ⟨?_, ?_, fun x hx => mem_union.mpr (Or.inl (he.earlyFaulty x hx)), ?_, ?_, ?_, ?_⟩
    · show (diff g.es.onTime g.sectors ++ g.es.early).Nodup
      rw [List.nodup_append]
      exact ⟨nodup_diff hn.1, hn.2.1, fun a ha b hb e => hn.2.2 a (mem_diff.mp ha).1 b hb e⟩
    · intro x hx
      apply he.live
      simp only [ExpSet.all, List.mem_append, mem_diff] at hx ⊢
      rcases hx with hx | hx
      · exact Or.inl hx.1
      · exact Or.inr hx
    · show g.es.pledge - g.pledge = sumBy (tw tbl (·.pledge)) (diff g.es.onTime g.sectors)
      rw [he.pledge, h.pledge, sum_diff_subset _ hn.1 h.nodup h.onTime]
    · show g.es.active - g.power = powOf tbl (diff (diff g.es.onTime g.sectors) (union F sn))
      rw [he.active, h.power, ← powOf_diff_sub tbl (nodup_diff hn.1) h.nodup hXsub]
      apply powOf_congr tbl (nodup_diff (nodup_diff hn.1)) (nodup_diff (nodup_diff hn.1))
      intro x
      simp only [mem_diff, mem_union]
      constructor
      · rintro ⟨⟨a, b⟩, c⟩
        exact ⟨⟨a, c⟩, fun h' => by rcases h' with h' | h'; exact b h'; exact c (honSn x a h')⟩
      · rintro ⟨⟨a, b⟩, c⟩
        exact ⟨⟨a, fun h' => c (Or.inl h')⟩, b⟩
    · show g.es.faulty = powOf tbl (inter (diff g.es.onTime g.sectors) (union F sn) ++ g.es.early)
      rw [he.faulty]
      apply powOf_congr tbl
      · rw [List.nodup_append]
        exact ⟨nodup_inter hn.1, hn.2.1, fun a ha b hb e => hn.2.2 a (mem_inter.mp ha).1 b hb e⟩
      · rw [List.nodup_append]
        exact ⟨nodup_inter (nodup_diff hn.1), hn.2.1,
          fun a ha b hb e => hn.2.2 a (mem_diff.mp (mem_inter.mp ha).1).1 b hb e⟩
      · intro x
        simp only [List.mem_append, mem_inter, mem_diff, mem_union]
        constructor
        · rintro (⟨a, b⟩ | a)
          · exact Or.inl ⟨⟨a, fun h' => hXF x h' b⟩, Or.inl b⟩
          · exact Or.inr a
        · rintro (⟨⟨a, b⟩, c | c⟩ | a)
          · exact Or.inl ⟨a, c⟩
          · exact absurd (honSn x a c) b
          · exact Or.inr a
    · show g.es.fee - g.fee = sumBy (tw tbl (·.fee)) (diff g.es.onTime g.sectors ++ g.es.early)
      rw [he.fee, h.fee]
      simp only [ExpSet.all, sumBy_append]
      rw [sum_diff_subset _ hn.1 h.nodup h.onTime]
      omega

end BA.Sector

namespace BA.Sector
open BA BA.NatSet

/-- sector lists of groups with distinct epochs that are entries of an invariant queue are
    pairwise disjoint, so their concatenation is duplicate-free -/
theorem groups_flat_nodup {tbl : Table} {F L : NatSet} {q : Queue} (h : QInv tbl F L q) :
    ∀ (gs : List Group), (gs.map (·.epoch)).Nodup →
      (∀ g ∈ gs, (g.epoch, g.es) ∈ q ∧ g.sectors.Nodup ∧ ∀ x ∈ g.sectors, x ∈ g.es.onTime) →
      (gs.flatMap (·.sectors)).Nodup := by
  intro gs
  induction gs with
  | nil => intro _ _; simp
  | cons g rest ih =>
    intro hnd hg
    simp only [List.map_cons, List.nodup_cons] at hnd
    simp only [List.flatMap_cons]
    rw [List.nodup_append]
    refine ⟨(hg g (by simp)).2.1, ih hnd.2 (fun g' hg' => hg g' (List.mem_cons_of_mem _ hg')), ?_⟩
    intro a ha b hb eab
    subst eab
    obtain ⟨g', hg', hb'⟩ := List.mem_flatMap.mp hb
    obtain ⟨i1, _, i3⟩ := hg g (by simp)
    obtain ⟨j1, _, j3⟩ := hg g' (List.mem_cons_of_mem _ hg')
    have := h.disj g.epoch g.es g'.epoch g'.es i1 j1 a (by simp [ExpSet.all, i3 a ha])
      (by simp [ExpSet.all, j3 a hb'])
    exact hnd.1 (List.mem_map.mpr ⟨g', hg', this.symm⟩)

/-- **`reschedule_as_faults` preserves the queue invariant**: the given sectors (distinct, the
    table's infos, not faulty before) are faulty afterwards -/
theorem rescheduleAsFaults_qinv {tbl : Table} {F L : NatSet} {qs : QuantSpec} {q q' : Queue}
    {fe : Int} {infos : List SectorInfo} {nf : PowerPair} (h : QInv tbl F L q)
    (hn : (nums infos).Nodup) (ht : ∀ i ∈ infos, alookup i.num tbl = some i)
    (hdisj : ∀ x ∈ nums infos, x ∉ F)
    (hr : rescheduleAsFaults qs q fe infos = .ok (q', nf)) :
    QInv tbl (union F (nums infos)) L q' := by
  unfold rescheduleAsFaults at hr
  cases hf : findSectorsByExpiration qs q infos with
  | error e => simp [hf] at hr
  | ok gs =>
    simp only [hf] at hr
    obtain ⟨a1, _⟩ := find_spec (fun _ => 0) (qinv_nodup h) hf
    obtain ⟨b1, b2⟩ := find_struct h.sorted hf
    rw [ofList_eq_self hn] at b1 b2
    have hag := agrees_infoMap hn ht
    have hm : ∀ x ∈ nums infos, alookup x (infoMap infos) = alookup x tbl := fun x hx => by
      obtain ⟨i, a, b, _⟩ := hag x hx; rw [a, b]
    have hFG : ∀ g ∈ gs, FaultGroup tbl F L (nums infos) g := by
      intro g hg
      obtain ⟨c1, c2, c3, c4, _, _⟩ := a1 g hg
      have hsub : ∀ x ∈ g.sectors, alookup x (infoMap infos) = alookup x tbl :=
        fun x hx => hm x ((b1.secs g hg x hx).2)
      refine ⟨h.entry _ _ (b1.inq g hg), c4, fun x hx => (b1.secs g hg x hx).1,
        fun x hx => (b1.secs g hg x hx).2, ?_, ?_, ?_, ?_⟩
      · intro x hx hs
        obtain ⟨g', hg', hx'⟩ := b2 x hs
        have hx'' : x ∈ g'.es.all := by simp [ExpSet.all, (b1.secs g' hg' x hx').1]
        have he := h.disj g'.epoch g'.es g.epoch g.es (b1.inq g' hg') (b1.inq g hg) x hx'' hx
        have := nodup_map_inj (·.epoch) b1.epochs g' hg' g hg he
        rw [← this]; exact hx'
      · rw [c1, ← powOf_congr_tbl hsub]; rfl
      · rw [c2, sumBy_congr_tbl _ hsub]
      · rw [c3, sumBy_congr_tbl _ hsub]
    cases hrf : rescheduleFaultGroups (qs.quantizeUp fe) q gs with
    | error e => simp [hrf] at hr
    | ok x =>
      obtain ⟨q1, secs, expiring, resched, fee⟩ := x
      simp only [hrf] at hr
      obtain ⟨d1, d2, d3, d4, d5, d6⟩ := faultGroups_struct _ gs q q1 secs expiring resched fee
        h.sorted b1.epochs b1.inq hrf
      -- untouched entries hold no sector of sn
      have untouched : ∀ e v, (e, v) ∈ q → (∀ g ∈ gs, g.epoch ≠ e) → ∀ x ∈ v.all, x ∉ nums infos := by
        intro e v hmem hne x hx hs
        obtain ⟨g', hg', hx'⟩ := b2 x hs
        have hx'' : x ∈ g'.es.all := by simp [ExpSet.all, (b1.secs g' hg' x hx').1]
        exact hne g' hg' (h.disj g'.epoch g'.es e v (b1.inq g' hg') hmem x hx'' hx)
      have h1 : QInv tbl (union F (nums infos)) L q1 := by
        apply qinv_of_shrink h d1
        intro e v hmem
        rcases d2 e v hmem with ⟨g, hg, rfl, rfl⟩ | ⟨hq, hne⟩
        · exact ⟨g.es, b1.inq g hg, updFault_all _ g, updFault_ok _ (hFG g hg) hdisj⟩
        · refine ⟨v, hq, fun x hx => hx, ?_⟩
          apply entryOK_frame (h.entry e v hq) _ (h.entry e v hq).live
          intro x hx
          have := untouched e v hq hne x hx
          simp [mem_union, this]
      by_cases hs : secs.isEmpty = true
      · simp only [hs, if_true, Except.ok.injEq, Prod.mk.injEq] at hr
        obtain ⟨rfl, _⟩ := hr
        exact h1
      · simp only [hs, Bool.false_eq_true, if_false] at hr
        cases ha : qadd qs q1 fe [] (ofList secs) PowerPair.zero resched 0 fee with
        | error e => simp [ha] at hr
        | ok q2 =>
          simp only [ha, Except.ok.injEq, Prod.mk.injEq] at hr
          obtain ⟨rfl, _⟩ := hr
          -- the moved groups
          have hmv : ∀ g ∈ gs.filter (fun g => !decide (g.epoch ≤ qs.quantizeUp fe)),
              g ∈ gs ∧ ¬ g.epoch ≤ qs.quantizeUp fe := by
            intro g hg
            have := List.mem_filter.mp hg
            exact ⟨this.1, by simpa using this.2⟩
          have hsn : secs.Nodup := by
            rw [d3]
            apply groups_flat_nodup h
            · exact (List.Nodup.sublist (List.Sublist.map _ List.filter_sublist) b1.epochs)
            · intro g hg
              obtain ⟨hg', _⟩ := hmv g hg
              exact ⟨b1.inq g hg', (hFG g hg').nodup, (hFG g hg').onTime⟩
          rw [ofList_eq_self hsn] at ha
          have hsecs : ∀ x ∈ secs, ∃ g ∈ gs, ¬ g.epoch ≤ qs.quantizeUp fe ∧ x ∈ g.sectors := by
            intro x hx
            rw [d3] at hx
            obtain ⟨g, hg, hxg⟩ := List.mem_flatMap.mp hx
            exact ⟨g, (hmv g hg).1, (hmv g hg).2, hxg⟩
          have hfresh : ∀ x ∈ secs, ¬ qsecs q1 x := by
            intro x hx ⟨e, v, hmem, hxv⟩
            obtain ⟨g, hg, hmoved, hxg⟩ := hsecs x hx
            have hxall : x ∈ g.es.all := by simp [ExpSet.all, (hFG g hg).onTime x hxg]
            rcases d2 e v hmem with ⟨g', hg', rfl, rfl⟩ | ⟨hq, hne⟩
            · have he := h.disj g'.epoch g'.es g.epoch g.es (b1.inq g' hg') (b1.inq g hg) x
                (updFault_all _ g' x hxv) hxall
              have hgg := nodup_map_inj (·.epoch) b1.epochs g' hg' g hg he
              subst hgg
              unfold updFault at hxv
              simp only [hmoved, if_false, ExpSet.all, List.mem_append, mem_diff, mem_ofList] at hxv
              rcases hxv with hxv | hxv
              · exact hxv.2 hxg
              · exact (List.nodup_append.mp (hFG g' hg').entry.nodup).2.2 x
                  ((hFG g' hg').onTime x hxg) x hxv rfl
            · exact hne g hg (h.disj g.epoch g.es e v (b1.inq g hg) hq x hxall hxv)
          have hpow : resched = powOf tbl secs := by
            ext
            · rw [d4, d3, powOf_raw, sumBy_flatMap]
              exact sumBy_congr_fun _ _ _ (fun g hg => by rw [(hFG g (hmv g hg).1).power]; rfl)
            · rw [d5, d3, powOf_qa, sumBy_flatMap]
              exact sumBy_congr_fun _ _ _ (fun g hg => by rw [(hFG g (hmv g hg).1).power]; rfl)
          have hfee : fee = sumBy (tw tbl (·.fee)) secs := by
            rw [d6, d3, sumBy_flatMap]
            exact sumBy_congr_fun _ _ _ (fun g hg => (hFG g (hmv g hg).1).fee)
          exact (qadd_qinv h1 (by simp) hsn (by simp) (by simp) hfresh (by simp)
            (fun x hx => by
              obtain ⟨g, hg, _, hxg⟩ := hsecs x hx
              exact (hFG g hg).entry.live x (by simp [ExpSet.all, (hFG g hg).onTime x hxg]))
            (fun x hx => by
              obtain ⟨g, hg, _, hxg⟩ := hsecs x hx
              exact mem_union.mpr (Or.inr ((hFG g hg).inSn x hxg)))
            (by simp) (by simp [diff, powOf, PowerPair.zero]) (by simpa [inter] using hpow)
            (by simpa using hfee) ha).1

end BA.Sector
