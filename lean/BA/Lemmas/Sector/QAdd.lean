/-
  QInv is preserved by replacing one entry, by `ExpirationQueue::add` and by `add_active_sectors`.
-/
import BA.Lemmas.Sector.QInv

namespace BA.Sector
open BA BA.NatSet

theorem union_eq_append {a b : NatSet} (h : ∀ x ∈ b, x ∉ a) : union a b = a ++ b := by
  unfold union
  congr 1
  unfold diff
  exact List.filter_eq_self.mpr (fun x hx => by simp [h x hx])

theorem union_nil_right (a : NatSet) : union a [] = a := by simp [union, diff]

theorem diff_append (a b F : NatSet) : diff (a ++ b) F = diff a F ++ diff b F := by
  simp [diff, List.filter_append]
theorem inter_append (a b F : NatSet) : inter (a ++ b) F = inter a F ++ inter b F := by
  simp [inter, List.filter_append]

theorem diff_congr_on {a F F' : NatSet} (h : ∀ x ∈ a, (x ∈ F ↔ x ∈ F')) : diff a F = diff a F' := by
  unfold diff
  apply List.filter_congr
  intro x hx
  have := h x hx
  by_cases hf : x ∈ F
  · simp [hf, this.mp hf]
  · simp [hf, (not_congr this).mp hf]

theorem inter_congr_on {a F F' : NatSet} (h : ∀ x ∈ a, (x ∈ F ↔ x ∈ F')) : inter a F = inter a F' := by
  unfold inter
  apply List.filter_congr
  intro x hx
  have := h x hx
  by_cases hf : x ∈ F
  · simp [hf, this.mp hf]
  · simp [hf, (not_congr this).mp hf]

/-- frame rule: an entry none of whose sectors changes fault status, all still live -/
theorem entryOK_frame {tbl : Table} {F L F' L' : NatSet} {es : ExpSet} (h : EntryOK tbl F L es)
    (hF : ∀ x ∈ es.all, (x ∈ F ↔ x ∈ F')) (hL : ∀ x ∈ es.all, x ∈ L') : EntryOK tbl F' L' es := by
  have hon : ∀ x ∈ es.onTime, (x ∈ F ↔ x ∈ F') := fun x hx => hF x (by simp [ExpSet.all, hx])
  refine ⟨h.nodup, hL, fun x hx => (hF x (by simp [ExpSet.all, hx])).mp (h.earlyFaulty x hx), h.pledge,
    ?_, ?_, h.fee⟩
  · rw [h.active, diff_congr_on hon]
  · rw [h.faulty, inter_congr_on hon]

/-- adding fresh sector sets with their recomputed totals keeps an entry exact -/
theorem entryOK_add {tbl : Table} {F L : NatSet} {es : ExpSet} {X Y : NatSet}
    (h : EntryOK tbl F L es) (hX : X.Nodup) (hY : Y.Nodup) (hXY : ∀ x ∈ Y, x ∉ X)
    (hfX : ∀ x ∈ X, x ∉ es.all) (hfY : ∀ x ∈ Y, x ∉ es.all)
    (hLX : ∀ x ∈ X, x ∈ L) (hLY : ∀ x ∈ Y, x ∈ L) (hYF : ∀ x ∈ Y, x ∈ F) :
    EntryOK tbl F L
      { onTime := union es.onTime X, early := union es.early Y,
        pledge := es.pledge + sumBy (tw tbl (·.pledge)) X,
        active := es.active + powOf tbl (diff X F),
        faulty := es.faulty + powOf tbl (inter X F ++ Y),
        fee := es.fee + sumBy (tw tbl (·.fee)) (X ++ Y) } := by
  have u1 : union es.onTime X = es.onTime ++ X :=
    union_eq_append (fun x hx h' => hfX x hx (by simp [ExpSet.all, h']))
  have u2 : union es.early Y = es.early ++ Y :=
    union_eq_append (fun x hx h' => hfY x hx (by simp [ExpSet.all, h']))
  have hn := List.nodup_append.mp h.nodup
  constructor
  · show ((union es.onTime X) ++ (union es.early Y)).Nodup
    rw [u1, u2, List.nodup_append]
    refine ⟨?_, ?_, ?_⟩
    · rw [List.nodup_append]
      exact ⟨hn.1, hX, fun a ha b hb e => by subst e; exact hfX a hb (by simp [ExpSet.all, ha])⟩
    · rw [List.nodup_append]
      exact ⟨hn.2.1, hY, fun a ha b hb e => by subst e; exact hfY a hb (by simp [ExpSet.all, ha])⟩
    · intro a ha b hb e
      subst e
      rcases List.mem_append.mp ha with ha | ha <;> rcases List.mem_append.mp hb with hb | hb
      · exact hn.2.2 a ha a hb rfl
      · exact hfY a hb (by simp [ExpSet.all, ha])
      · exact hfX a ha (by simp [ExpSet.all, hb])
      · exact hXY a hb ha
  · intro x hx
    simp only [ExpSet.all, u1, u2, List.mem_append] at hx
    rcases hx with (hx | hx) | (hx | hx)
    · exact h.live x (by simp [ExpSet.all, hx])
    · exact hLX x hx
    · exact h.live x (by simp [ExpSet.all, hx])
    · exact hLY x hx
  · intro x hx
    simp only [u2, List.mem_append] at hx
    rcases hx with hx | hx
    · exact h.earlyFaulty x hx
    · exact hYF x hx
  · show es.pledge + _ = sumBy _ (union es.onTime X)
    rw [u1, sumBy_append, h.pledge]
  · show es.active + _ = powOf tbl (diff (union es.onTime X) F)
    rw [u1, diff_append, powOf_append, h.active]
  · show es.faulty + _ = powOf tbl (inter (union es.onTime X) F ++ union es.early Y)
    rw [u1, u2, inter_append, h.faulty]
    simp only [powOf_append]
    ext <;> simp <;> omega
  · show es.fee + _ = sumBy _ (union es.onTime X ++ union es.early Y)
    rw [u1, u2, h.fee]
    simp only [ExpSet.all, sumBy_append]
    omega

/-- the old value under key `k` (empty if absent) -/
theorem qget_getD_ok {tbl : Table} {F L : NatSet} {q : Queue} (h : QInv tbl F L q) (k : Int) :
    EntryOK tbl F L ((qget k q).getD ExpSet.empty) ∧
    (∀ x ∈ ((qget k q).getD ExpSet.empty).all, ∃ es, (k, es) ∈ q ∧ x ∈ es.all) := by
  cases hg : qget k q with
  | none => exact ⟨entryOK_empty tbl F L, by simp [ExpSet.empty, ExpSet.all]⟩
  | some es =>
    have hm := mem_of_qget hg
    exact ⟨h.entry k es hm, fun x hx => ⟨es, hm, hx⟩⟩

/-- replacing the value under `k` by an exact entry whose sectors are the old ones plus fresh ones -/
theorem qinv_replace {tbl : Table} {F L : NatSet} {q : Queue} (h : QInv tbl F L q) (k : Int)
    (v : ExpSet) (hv : EntryOK tbl F L v) (Z : NatSet)
    (hsub : ∀ x ∈ v.all, x ∈ ((qget k q).getD ExpSet.empty).all ∨ x ∈ Z)
    (hZ : ∀ x ∈ Z, ¬ qsecs q x) : QInv tbl F L (qset k v q) := by
  refine ⟨sorted_qset h.sorted k v, ?_, ?_⟩
  · intro e es hm
    rcases (mem_qset_iff h.sorted k v _).mp hm with hm | ⟨hm, _⟩
    · cases hm; exact hv
    · exact h.entry e es hm
  · have key : ∀ e2 es2, (e2, es2) ∈ q → e2 ≠ k → ∀ x, x ∈ v.all → x ∈ es2.all → False := by
      intro e2 es2 hm2 hne x hx hx2
      rcases hsub x hx with hx | hx
      · obtain ⟨es, hm, hx'⟩ := (qget_getD_ok h k).2 x hx
        exact hne (h.disj k es e2 es2 hm hm2 x hx' hx2).symm
      · exact hZ x hx ⟨e2, es2, hm2, hx2⟩
    intro e1 es1 e2 es2 h1 h2 x hx1 hx2
    rcases (mem_qset_iff h.sorted k v _).mp h1 with h1 | ⟨h1, n1⟩ <;>
      rcases (mem_qset_iff h.sorted k v _).mp h2 with h2 | ⟨h2, n2⟩
    · cases h1; cases h2; rfl
    · cases h1; exact (key e2 es2 h2 n2 x hx1 hx2).elim
    · cases h2; exact (key e1 es1 h1 n1 x hx2 hx1).elim
    · exact h.disj e1 es1 e2 es2 h1 h2 x hx1 hx2

theorem qsecs_qset {q : Queue} (hs : Sorted q) (k : Int) (v : ExpSet) (x : Nat) :
    qsecs (qset k v q) x ↔ x ∈ v.all ∨ ∃ e es, (e, es) ∈ q ∧ e ≠ k ∧ x ∈ es.all := by
  unfold qsecs
  constructor
  · rintro ⟨e, es, hm, hx⟩
    rcases (mem_qset_iff hs k v _).mp hm with hm | ⟨hm, hne⟩
    · cases hm; exact Or.inl hx
    · exact Or.inr ⟨e, es, hm, hne, hx⟩
  · rintro (hx | ⟨e, es, hm, hne, hx⟩)
    · exact ⟨k, v, (mem_qset_iff hs k v _).mpr (Or.inl rfl), hx⟩
    · exact ⟨e, es, (mem_qset_iff hs k v _).mpr (Or.inr ⟨hm, hne⟩), hx⟩

/-- `ExpirationSet::add` on success -/
theorem expSet_add_ok {es es' : ExpSet} {on early : NatSet} {pl : Int} {a f : PowerPair} {fee : Int}
    (h : es.add on early pl a f fee = .ok es') :
    es' = { onTime := union es.onTime on, early := union es.early early, pledge := es.pledge + pl,
            active := es.active + a, faulty := es.faulty + f, fee := es.fee + fee } := by
  unfold ExpSet.add at h
  simp only at h
  split at h
  · simp at h
  · simp only [Except.ok.injEq] at h; exact h.symm

/-- **`ExpirationQueue::add` preserves the queue invariant** when handed fresh sector sets with
    their recomputed totals; afterwards exactly the old sectors and the new ones are scheduled. -/
theorem qadd_qinv {tbl : Table} {F L : NatSet} {qs : QuantSpec} {q q' : Queue} {ep : Int}
    {X Y : NatSet} {a f : PowerPair} {pl fee : Int} (h : QInv tbl F L q)
    (hX : X.Nodup) (hY : Y.Nodup) (hXY : ∀ x ∈ Y, x ∉ X)
    (hfX : ∀ x ∈ X, ¬ qsecs q x) (hfY : ∀ x ∈ Y, ¬ qsecs q x)
    (hLX : ∀ x ∈ X, x ∈ L) (hLY : ∀ x ∈ Y, x ∈ L) (hYF : ∀ x ∈ Y, x ∈ F)
    (hpl : pl = sumBy (tw tbl (·.pledge)) X) (ha : a = powOf tbl (diff X F))
    (hf : f = powOf tbl (inter X F ++ Y)) (hfee : fee = sumBy (tw tbl (·.fee)) (X ++ Y))
    (hadd : qadd qs q ep X Y a f pl fee = .ok q') :
    QInv tbl F L q' ∧ (∀ x, qsecs q' x ↔ qsecs q x ∨ x ∈ X ∨ x ∈ Y) := by
  unfold qadd at hadd
  simp only at hadd
  cases hm : mayGet q (qs.quantizeUp ep) with
  | error e => simp [hm] at hadd
  | ok es =>
    simp only [hm] at hadd
    have hes : es = (qget (qs.quantizeUp ep) q).getD ExpSet.empty := by
      unfold mayGet at hm
      cases hk : keyCheck (qs.quantizeUp ep) with
      | error e => simp [hk] at hm
      | ok u => simp [hk] at hm; exact hm.symm
    cases hx : es.add X Y pl a f fee with
    | error e => simp [hx] at hadd
    | ok es' =>
      simp only [hx] at hadd
      have hq' : q' = qset (qs.quantizeUp ep) es' q := by
        unfold mustUpdate at hadd
        cases hk : keyCheck (qs.quantizeUp ep) with
        | error e => simp [hk] at hadd
        | ok u => simp [hk] at hadd; exact hadd.symm
      have hform := expSet_add_ok hx
      obtain ⟨ok0, sub0⟩ := qget_getD_ok h (qs.quantizeUp ep)
      rw [← hes] at ok0 sub0
      have fresh : ∀ x, (x ∈ X ∨ x ∈ Y) → x ∉ es.all := by
        intro x hx' hin
        obtain ⟨es0, hm0, hx0⟩ := sub0 x hin
        rcases hx' with hx' | hx'
        · exact hfX x hx' ⟨_, es0, hm0, hx0⟩
        · exact hfY x hx' ⟨_, es0, hm0, hx0⟩
      have hok : EntryOK tbl F L es' := by
        rw [hform, hpl, ha, hf, hfee]
        exact entryOK_add ok0 hX hY hXY (fun x hx' => fresh x (Or.inl hx'))
          (fun x hx' => fresh x (Or.inr hx')) hLX hLY hYF
      have hall : ∀ x, x ∈ es'.all ↔ x ∈ es.all ∨ x ∈ X ∨ x ∈ Y := by
        intro x
        rw [hform]
        simp only [ExpSet.all, List.mem_append, mem_union]
        constructor
        · rintro ((h1 | h1) | (h1 | h1))
          · exact Or.inl (Or.inl h1)
          · exact Or.inr (Or.inl h1)
          · exact Or.inl (Or.inr h1)
          · exact Or.inr (Or.inr h1)
        · rintro ((h1 | h1) | (h1 | h1))
          · exact Or.inl (Or.inl h1)
          · exact Or.inr (Or.inl h1)
          · exact Or.inl (Or.inr h1)
          · exact Or.inr (Or.inr h1)
      subst hq'
      refine ⟨qinv_replace h _ es' hok (X ++ Y) ?_ ?_, ?_⟩
      · intro x hx'
        rw [← hes]
        rcases (hall x).mp hx' with h1 | h1 | h1
        · exact Or.inl h1
        · exact Or.inr (by simp [h1])
        · exact Or.inr (by simp [h1])
      · intro x hx'
        rcases List.mem_append.mp hx' with h1 | h1
        · exact hfX x h1
        · exact hfY x h1
      · intro x
        rw [qsecs_qset h.sorted, hall]
        constructor
        · rintro ((h1 | h1 | h1) | ⟨e, es2, hm2, _, hx2⟩)
          · obtain ⟨es0, hm0, hx0⟩ := sub0 x h1
            exact Or.inl ⟨_, es0, hm0, hx0⟩
          · exact Or.inr (Or.inl h1)
          · exact Or.inr (Or.inr h1)
          · exact Or.inl ⟨e, es2, hm2, hx2⟩
        · rintro (⟨e, es2, hm2, hx2⟩ | h1 | h1)
          · by_cases hek : e = qs.quantizeUp ep
            · subst hek
              have : es2 = es := by
                rw [hes, (qget_some_iff h.sorted _ es2).mpr hm2]; rfl
              subst this
              exact Or.inl (Or.inl hx2)
            · exact Or.inr ⟨e, es2, hm2, hek, hx2⟩
          · exact Or.inl (Or.inr (Or.inl h1))
          · exact Or.inl (Or.inr (Or.inr h1))

end BA.Sector

namespace BA.Sector
open BA BA.NatSet

/-! ### `add_active_sectors` -/

theorem groupInsert_perm (e : Int) (i : SectorInfo) :
    ∀ acc : List (Int × List SectorInfo),
      ((groupInsert e i acc).flatMap (·.2)).Perm (i :: acc.flatMap (·.2)) := by
  intro acc
  induction acc with
  | nil => simp [groupInsert]
  | cons hd t ih =>
    obtain ⟨e', l⟩ := hd
    unfold groupInsert
    by_cases h1 : e = e'
    · simp only [h1, if_true, List.flatMap_cons, List.append_assoc, List.singleton_append]
      exact List.perm_middle
    · simp only [h1, if_false]
      by_cases h2 : e < e'
      · simp only [h2, if_true, List.flatMap_cons, List.singleton_append]
        exact List.Perm.refl _
      · simp only [h2, if_false, List.flatMap_cons]
        exact ((List.Perm.append_left l ih).trans List.perm_middle)

theorem groupNew_perm (qs : QuantSpec) (infos : List SectorInfo) :
    ((groupNew qs infos).flatMap (·.2)).Perm infos := by
  unfold groupNew
  have gen : ∀ (l : List SectorInfo) (acc : List (Int × List SectorInfo)),
      ((l.foldl (fun acc i => groupInsert (qs.quantizeUp i.exp) i acc) acc).flatMap (·.2)).Perm
        (acc.flatMap (·.2) ++ l) := by
    intro l
    induction l with
    | nil => intro acc; simp
    | cons i t ih =>
      intro acc
      simp only [List.foldl_cons]
      refine (ih _).trans ?_
      refine (List.Perm.append_right t (groupInsert_perm _ i acc)).trans ?_
      simp only [List.cons_append]
      exact List.perm_middle.symm
  simpa using gen infos []

/-- what `add_active_sectors` needs of the infos: table infos of distinct, live, non-faulty sectors
    that are not scheduled yet -/
structure FreshInfos (tbl : Table) (F L : NatSet) (q : Queue) (infos : List SectorInfo) : Prop where
  nodup : (nums infos).Nodup
  tbl : ∀ i ∈ infos, alookup i.num tbl = some i
  fresh : ∀ i ∈ infos, ¬ qsecs q i.num
  live : ∀ i ∈ infos, i.num ∈ L
  healthy : ∀ i ∈ infos, i.num ∉ F

theorem diff_eq_self {a F : NatSet} (h : ∀ x ∈ a, x ∉ F) : diff a F = a := by
  unfold diff; exact List.filter_eq_self.mpr (fun x hx => by simp [h x hx])
theorem inter_eq_nil {a F : NatSet} (h : ∀ x ∈ a, x ∉ F) : inter a F = [] := by
  unfold inter; exact List.filter_eq_nil_iff.mpr (fun x hx => by simp [h x hx])

theorem addGroups_qinv {tbl : Table} {F L : NatSet} {qs : QuantSpec} :
    ∀ (gs : List (Int × List SectorInfo)) (q q' : Queue), QInv tbl F L q →
      FreshInfos tbl F L q (gs.flatMap (·.2)) → addGroups qs q gs = .ok q' →
      QInv tbl F L q' ∧ (∀ x, qsecs q' x ↔ qsecs q x ∨ x ∈ nums (gs.flatMap (·.2))) := by
  intro gs
  induction gs with
  | nil =>
    intro q q' h _ ha
    simp only [addGroups, Except.ok.injEq] at ha
    subst ha
    exact ⟨h, fun x => by simp [nums]⟩
  | cons g rest ih =>
    intro q q' h hf ha
    obtain ⟨e, l⟩ := g
    unfold addGroups at ha
    cases hq : qadd qs q e (ofList (nums l)) [] (sumPow l) PowerPair.zero (sumPledge l) (sumFee l) with
    | error err => simp [hq] at ha
    | ok q1 =>
      simp only [hq] at ha
      simp only [List.flatMap_cons] at hf
      have hnl : (nums l).Nodup := by
        have := hf.nodup
        simp only [nums, List.map_append] at this
        exact (List.nodup_append.mp this).1
      have hin : ∀ i ∈ l, i ∈ l ++ rest.flatMap (·.2) := fun i hi => List.mem_append_left _ hi
      have hX : ∀ x ∈ nums l, ∃ i ∈ l, i.num = x := fun x hx => by
        simpa [nums] using hx
      have hh : ∀ x ∈ nums l, x ∉ F := fun x hx => by
        obtain ⟨i, hi, rfl⟩ := hX x hx; exact hf.healthy i (hin i hi)
      rw [ofList_eq_self hnl] at hq
      have tl : ∀ i ∈ l, alookup i.num tbl = some i := fun i hi => hf.tbl i (hin i hi)
      obtain ⟨h1, s1⟩ := qadd_qinv h hnl (by simp) (by simp)
        (fun x hx => by obtain ⟨i, hi, rfl⟩ := hX x hx; exact hf.fresh i (hin i hi)) (by simp)
        (fun x hx => by obtain ⟨i, hi, rfl⟩ := hX x hx; exact hf.live i (hin i hi)) (by simp) (by simp)
        (by simp only [sumPledge]; exact sumBy_infos_tbl _ tl)
        (by rw [diff_eq_self hh]; exact sumPow_tbl tl)
        (by rw [inter_eq_nil hh]; rfl)
        (by simp only [sumFee, List.append_nil]; exact sumBy_infos_tbl _ tl) hq
      have hf1 : FreshInfos tbl F L q1 (rest.flatMap (·.2)) := by
        have hnd := hf.nodup
        simp only [nums, List.map_append] at hnd
        have hnd' := List.nodup_append.mp hnd
        refine ⟨hnd'.2.1, fun i hi => hf.tbl i (List.mem_append_right _ hi), ?_,
          fun i hi => hf.live i (List.mem_append_right _ hi),
          fun i hi => hf.healthy i (List.mem_append_right _ hi)⟩
        intro i hi hs
        rcases (s1 i.num).mp hs with hs | hs | hs
        · exact hf.fresh i (List.mem_append_right _ hi) hs
        · exact hnd'.2.2 i.num hs i.num (List.mem_map_of_mem hi) rfl
        · simp at hs
      obtain ⟨h2, s2⟩ := ih q1 q' h1 hf1 ha
      refine ⟨h2, ?_⟩
      intro x
      rw [s2, s1]
      simp only [nums, List.flatMap_cons, List.map_append, List.mem_append, List.not_mem_nil, or_false]
      constructor
      · rintro ((a | a) | a)
        · exact Or.inl a
        · exact Or.inr (Or.inl a)
        · exact Or.inr (Or.inr a)
      · rintro (a | a | a)
        · exact Or.inl (Or.inl a)
        · exact Or.inl (Or.inr a)
        · exact Or.inr a

/-- **`add_active_sectors` preserves the queue invariant** and schedules exactly the new sectors -/
theorem addActiveSectors_qinv {tbl : Table} {F L : NatSet} {qs : QuantSpec} {q q' : Queue}
    {infos : List SectorInfo} {ns : NatSet} {pw : PowerPair} {pl fee : Int}
    (h : QInv tbl F L q) (hf : FreshInfos tbl F L q infos)
    (ha : addActiveSectors qs q infos = .ok (q', ns, pw, pl, fee)) :
    QInv tbl F L q' ∧ (∀ x, qsecs q' x ↔ qsecs q x ∨ x ∈ nums infos) := by
  obtain ⟨hg, _⟩ := addActiveSectors_ok ha
  have hp := groupNew_perm qs infos
  have hf' : FreshInfos tbl F L q ((groupNew qs infos).flatMap (·.2)) := by
    refine ⟨?_, fun i hi => hf.tbl i (hp.mem_iff.mp hi), fun i hi => hf.fresh i (hp.mem_iff.mp hi),
      fun i hi => hf.live i (hp.mem_iff.mp hi), fun i hi => hf.healthy i (hp.mem_iff.mp hi)⟩
    have := hp.map (fun i : SectorInfo => i.num)
    exact (this.nodup_iff).mpr hf.nodup
  obtain ⟨h1, s1⟩ := addGroups_qinv _ q q' h hf' hg
  refine ⟨h1, fun x => ?_⟩
  rw [s1]
  have : x ∈ nums ((groupNew qs infos).flatMap (·.2)) ↔ x ∈ nums infos :=
    (hp.map (fun i : SectorInfo => i.num)).mem_iff
  rw [this]

end BA.Sector
