/-
  The full invariant of the expiration queue (`QInv`): keys ascending, every entry's memos are the
  sums recomputed from the table over its sector sets, no sector is scheduled twice, every scheduled
  sector is live, early sectors are faulty.  Infrastructure: membership in `qset`/`qdel`/`qget` for
  sorted queues.
-/
import BA.Lemmas.Sector.Pop

namespace BA.Sector
open BA BA.NatSet

/-! ### sorted association lists -/

def Sorted (q : Queue) : Prop := q.Pairwise (fun a b => a.1 < b.1)

theorem sorted_tail {hd : Int × ExpSet} {t : Queue} (h : Sorted (hd :: t)) : Sorted t :=
  (List.pairwise_cons.mp h).2

theorem sorted_head_lt {hd : Int × ExpSet} {t : Queue} (h : Sorted (hd :: t)) :
    ∀ x ∈ t, hd.1 < x.1 := (List.pairwise_cons.mp h).1

theorem sorted_unique {q : Queue} (h : Sorted q) {k : Int} {a b : ExpSet}
    (ha : (k, a) ∈ q) (hb : (k, b) ∈ q) : a = b := by
  induction q with
  | nil => simp at ha
  | cons hd t ih =>
    have hlt := sorted_head_lt h
    rcases List.mem_cons.mp ha with ha | ha <;> rcases List.mem_cons.mp hb with hb | hb
    · rw [← ha] at hb; exact (Prod.mk.inj hb).2.symm
    · have := hlt _ hb; rw [← ha] at this; simp at this
    · have := hlt _ ha; rw [← hb] at this; simp at this
    · exact ih (sorted_tail h) ha hb

theorem mem_qset_iff {q : Queue} (h : Sorted q) (k : Int) (v : ExpSet) (x : Int × ExpSet) :
    x ∈ qset k v q ↔ x = (k, v) ∨ (x ∈ q ∧ x.1 ≠ k) := by
  induction q with
  | nil => simp [qset]
  | cons hd t ih =>
    obtain ⟨e, w⟩ := hd
    have hlt := sorted_head_lt h
    have iht := ih (sorted_tail h)
    unfold qset
    by_cases h1 : e = k
    · subst h1
      simp only [if_true, List.mem_cons]
      constructor
      · rintro (hx | hx)
        · exact Or.inl hx
        · exact Or.inr ⟨Or.inr hx, fun he => by have := hlt x hx; simp at this; omega⟩
      · rintro (hx | ⟨hx | hx, hne⟩)
        · exact Or.inl hx
        · rw [hx] at hne; simp at hne
        · exact Or.inr hx
    · simp only [h1, if_false]
      by_cases h2 : k < e
      · simp only [h2, if_true, List.mem_cons]
        constructor
        · rintro (hx | hx | hx)
          · exact Or.inl hx
          · exact Or.inr ⟨Or.inl hx, by rw [hx]; exact h1⟩
          · exact Or.inr ⟨Or.inr hx, fun he => by have := hlt x hx; simp at this; omega⟩
        · rintro (hx | ⟨hx | hx, _⟩)
          · exact Or.inl hx
          · exact Or.inr (Or.inl hx)
          · exact Or.inr (Or.inr hx)
      · simp only [h2, if_false, List.mem_cons, iht]
        constructor
        · rintro (hx | hx | ⟨hx, hne⟩)
          · exact Or.inr ⟨Or.inl hx, by rw [hx]; exact h1⟩
          · exact Or.inl hx
          · exact Or.inr ⟨Or.inr hx, hne⟩
        · rintro (hx | ⟨hx | hx, hne⟩)
          · exact Or.inr (Or.inl hx)
          · exact Or.inl hx
          · exact Or.inr (Or.inr ⟨hx, hne⟩)

theorem mem_qdel_iff {q : Queue} (h : Sorted q) (k : Int) (x : Int × ExpSet) :
    x ∈ qdel k q ↔ x ∈ q ∧ x.1 ≠ k := by
  induction q with
  | nil => simp [qdel]
  | cons hd t ih =>
    obtain ⟨e, w⟩ := hd
    have hlt := sorted_head_lt h
    have iht := ih (sorted_tail h)
    unfold qdel
    by_cases h1 : e = k
    · subst h1
      simp only [if_true, List.mem_cons]
      constructor
      · intro hx
        exact ⟨Or.inr hx, fun he => by have := hlt x hx; simp at this; omega⟩
      · rintro ⟨hx | hx, hne⟩
        · rw [hx] at hne; simp at hne
        · exact hx
    · simp only [h1, if_false, List.mem_cons, iht]
      constructor
      · rintro (hx | ⟨hx, hne⟩)
        · exact ⟨Or.inl hx, by rw [hx]; exact h1⟩
        · exact ⟨Or.inr hx, hne⟩
      · rintro ⟨hx | hx, hne⟩
        · exact Or.inl hx
        · exact Or.inr ⟨hx, hne⟩

theorem sorted_qset {q : Queue} (h : Sorted q) (k : Int) (v : ExpSet) : Sorted (qset k v q) := by
  induction q with
  | nil => simp [qset, Sorted]
  | cons hd t ih =>
    obtain ⟨e, w⟩ := hd
    have hlt := sorted_head_lt h
    have ht := sorted_tail h
    unfold qset
    by_cases h1 : e = k
    · subst h1
      simp only [if_true]
      exact List.pairwise_cons.mpr ⟨fun x hx => hlt x hx, ht⟩
    · simp only [h1, if_false]
      by_cases h2 : k < e
      · simp only [h2, if_true]
        refine List.pairwise_cons.mpr ⟨?_, h⟩
        intro x hx
        rcases List.mem_cons.mp hx with hx | hx
        · rw [hx]; exact h2
        · have := hlt x hx; simp at this ⊢; omega
      · simp only [h2, if_false]
        refine List.pairwise_cons.mpr ⟨?_, ih ht⟩
        intro x hx
        rcases (mem_qset_iff ht k v x).mp hx with hx | ⟨hx, _⟩
        · rw [hx]; simp; omega
        · exact hlt x hx

theorem sorted_qdel {q : Queue} (h : Sorted q) (k : Int) : Sorted (qdel k q) := by
  induction q with
  | nil => simp [qdel, Sorted]
  | cons hd t ih =>
    obtain ⟨e, w⟩ := hd
    have hlt := sorted_head_lt h
    have ht := sorted_tail h
    unfold qdel
    by_cases h1 : e = k
    · simp only [h1, if_true]; exact ht
    · simp only [h1, if_false]
      refine List.pairwise_cons.mpr ⟨?_, ih ht⟩
      intro x hx
      exact hlt x ((mem_qdel_iff ht k x).mp hx).1

theorem qget_some_iff {q : Queue} (h : Sorted q) (k : Int) (es : ExpSet) :
    qget k q = some es ↔ (k, es) ∈ q := by
  constructor
  · exact mem_of_qget
  · intro hm
    induction q with
    | nil => simp at hm
    | cons hd t ih =>
      obtain ⟨e, w⟩ := hd
      have hlt := sorted_head_lt h
      unfold qget
      by_cases h1 : e = k
      · subst h1
        simp only [if_true, Option.some.injEq]
        exact sorted_unique h (by simp) hm
      · simp only [h1, if_false]
        rcases List.mem_cons.mp hm with hm | hm
        · exact absurd (Prod.mk.inj hm).1.symm h1
        · exact ih (sorted_tail h) hm

theorem qget_none_iff {q : Queue} (h : Sorted q) (k : Int) :
    qget k q = none ↔ ∀ es, (k, es) ∉ q := by
  constructor
  · intro hn es hm
    rw [(qget_some_iff h k es).mpr hm] at hn; simp at hn
  · intro hn
    cases hg : qget k q with
    | none => rfl
    | some es => exact absurd (mem_of_qget hg) (hn es)

/-! ### the invariant -/

/-- an entry's memos are the recomputed sums over its sets (faults `F`, live sectors `L`) -/
structure EntryOK (tbl : Table) (F L : NatSet) (es : ExpSet) : Prop where
  nodup : es.all.Nodup
  live : ∀ x ∈ es.all, x ∈ L
  earlyFaulty : ∀ x ∈ es.early, x ∈ F
  pledge : es.pledge = sumBy (tw tbl (·.pledge)) es.onTime
  active : es.active = powOf tbl (diff es.onTime F)
  faulty : es.faulty = powOf tbl (inter es.onTime F ++ es.early)
  fee : es.fee = sumBy (tw tbl (·.fee)) es.all

/-- a sector is scheduled somewhere in the queue -/
def qsecs (q : Queue) (x : Nat) : Prop := ∃ e es, (e, es) ∈ q ∧ x ∈ es.all

structure QInv (tbl : Table) (F L : NatSet) (q : Queue) : Prop where
  sorted : Sorted q
  entry : ∀ e es, (e, es) ∈ q → EntryOK tbl F L es
  disj : ∀ e1 es1 e2 es2, (e1, es1) ∈ q → (e2, es2) ∈ q → ∀ x, x ∈ es1.all → x ∈ es2.all → e1 = e2

theorem qinv_nil (tbl : Table) (F L : NatSet) : QInv tbl F L [] :=
  ⟨by simp [Sorted], by simp, by simp⟩

theorem entryOK_empty (tbl : Table) (F L : NatSet) : EntryOK tbl F L ExpSet.empty := by
  constructor <;> simp [ExpSet.empty, ExpSet.all, diff, inter, powOf, PowerPair.zero]

theorem qinv_nodup {tbl : Table} {F L : NatSet} {q : Queue} (h : QInv tbl F L q) : QNodup q := by
  intro e es hm
  have := (h.entry e es hm).nodup
  exact ⟨(List.nodup_append.mp this).1, (List.nodup_append.mp this).2.1⟩

/-- the recursive form used by `pop_until` -/
theorem qsum_of_qinv {tbl : Table} {F L : NatSet} : ∀ {q : Queue}, QInv tbl F L q → QSum tbl F q := by
  intro q
  induction q with
  | nil => intro _; trivial
  | cons hd t ih =>
    obtain ⟨e, es⟩ := hd
    intro h
    have he := h.entry e es (by simp)
    refine ⟨⟨he.nodup, he.earlyFaulty, he.active, he.faulty⟩, ?_, ?_⟩
    · intro x hx e' es' hm hx'
      have := h.disj e es e' es' (by simp) (List.mem_cons_of_mem _ hm) x hx hx'
      have hlt := sorted_head_lt h.sorted (e', es') hm
      simp at hlt; omega
    · exact ih ⟨sorted_tail h.sorted, fun e' es' hm => h.entry e' es' (List.mem_cons_of_mem _ hm),
        fun e1 es1 e2 es2 h1 h2 => h.disj e1 es1 e2 es2 (List.mem_cons_of_mem _ h1)
          (List.mem_cons_of_mem _ h2)⟩

end BA.Sector
