/-
  `reschedule_recovered` preserves the full queue invariant: with `R` the recovered sectors
  (all faulty before), the result is exact w.r.t. the fault set `F ∖ R`.
-/
import BA.Lemmas.Sector.QAdd

namespace BA.Sector
open BA BA.NatSet

/-- a queue whose entries shrink entries of an invariant queue, each exact for the new sets -/
theorem qinv_of_shrink {tbl : Table} {F L F' L' : NatSet} {q q' : Queue} (h : QInv tbl F L q)
    (hs : Sorted q')
    (he : ∀ e v, (e, v) ∈ q' → ∃ es0, (e, es0) ∈ q ∧ (∀ x ∈ v.all, x ∈ es0.all) ∧ EntryOK tbl F' L' v) :
    QInv tbl F' L' q' := by
  refine ⟨hs, fun e v hm => (he e v hm).choose_spec.2.2, ?_⟩
  intro e1 v1 e2 v2 h1 h2 x hx1 hx2
  obtain ⟨a, ha, sa, _⟩ := he e1 v1 h1
  obtain ⟨b, hb, sb, _⟩ := he e2 v2 h2
  exact h.disj e1 a e2 b ha hb x (sa x hx1) (sb x hx2)

theorem powOf_congr_tbl {m tbl : Table} {s : NatSet} (h : ∀ x ∈ s, alookup x m = alookup x tbl) :
    powOf m s = powOf tbl s := by
  ext <;> simp only [powOf_raw, powOf_qa] <;>
    exact sumBy_congr_fun _ _ _ (fun x hx => by simp [tw, h x hx])

theorem sumBy_congr_tbl {m tbl : Table} (w : SectorInfo → Int) {s : NatSet}
    (h : ∀ x ∈ s, alookup x m = alookup x tbl) : sumBy (tw m w) s = sumBy (tw tbl w) s :=
  sumBy_congr_fun _ _ _ (fun x hx => by simp [tw, h x hx])

/-- the table `m` used by the traversal knows every wanted sector, with the table's info -/
def Agrees (m tbl : Table) (R : NatSet) : Prop :=
  ∀ x ∈ R, ∃ i, alookup x m = some i ∧ alookup x tbl = some i ∧ i.num = x

theorem lookupInfos_nums {m tbl : Table} {R : NatSet} (ha : Agrees m tbl R) :
    ∀ (hits : List Nat), (∀ x ∈ hits, x ∈ R) →
      nums (lookupInfos m hits) = hits ∧ ∀ i ∈ lookupInfos m hits, alookup i.num tbl = some i := by
  intro hits
  induction hits with
  | nil => intro _; simp [lookupInfos, nums]
  | cons n t ih =>
    intro h
    obtain ⟨i, h1, h2, h3⟩ := ha n (h n (by simp))
    obtain ⟨a, b⟩ := ih (fun x hx => h x (by simp [hx]))
    unfold lookupInfos at a b ⊢
    simp only [List.filterMap_cons, h1, nums, List.map_cons]
    refine ⟨by simp only [nums] at a; rw [a, h3], ?_⟩
    intro j hj
    rcases List.mem_cons.mp hj with rfl | hj
    · rw [h3]; exact h2
    · exact b j hj

/-- one entry of the `reschedule_recovered` traversal -/
theorem recoverEntry_ok {tbl m : Table} {F L R rem : NatSet} {es : ExpSet}
    (h : EntryOK tbl F L es) (hRF : ∀ x ∈ R, x ∈ F) (hrem : ∀ x ∈ rem, x ∈ R)
    (hwant : ∀ x ∈ R, x ∈ es.all → x ∈ rem)
    (hag : Agrees m tbl R) :
    EntryOK tbl (diff F R) L (recoverEntry m es rem).1 ∧
    (∀ x ∈ (recoverEntry m es rem).1.all, x ∈ es.all) ∧
    (∀ x, x ∈ (recoverEntry m es rem).2.1 ↔ x ∈ rem ∧ x ∉ es.all) ∧
    (∀ x, x ∈ nums (recoverEntry m es rem).2.2.1 ↔ x ∈ es.early ∧ x ∈ R) ∧
    (nums (recoverEntry m es rem).2.2.1).Nodup ∧
    (∀ i ∈ (recoverEntry m es rem).2.2.1, alookup i.num tbl = some i) ∧
    (∀ x ∈ (recoverEntry m es rem).1.all, x ∉ nums (recoverEntry m es rem).2.2.1) := by
  have hm : ∀ x ∈ R, alookup x m = alookup x tbl := fun x hx => by
    obtain ⟨i, a, b, _⟩ := hag x hx; rw [a, b]
  have hn := List.nodup_append.mp h.nodup
  have hdis : ∀ x ∈ es.early, x ∉ es.onTime := fun x hx hx' => hn.2.2 x hx' x hx rfl
  -- the hits are exactly the R-sectors of the entry
  have onHit_mem : ∀ x, x ∈ es.onTime.filter (fun u => decide (u ∈ rem)) ↔ x ∈ es.onTime ∧ x ∈ R := by
    intro x
    simp only [List.mem_filter, decide_eq_true_eq]
    exact ⟨fun ⟨a, b⟩ => ⟨a, hrem x b⟩, fun ⟨a, b⟩ => ⟨a, hwant x b (by simp [ExpSet.all, a])⟩⟩
  have earlyHit_mem : ∀ x, x ∈ es.early.filter
      (fun u => decide (u ∈ rem.filter (fun u => !decide (u ∈ es.onTime)))) ↔ x ∈ es.early ∧ x ∈ R := by
    intro x
    simp only [List.mem_filter, decide_eq_true_eq, Bool.not_eq_eq_eq_not, Bool.not_true,
      decide_eq_false_iff_not]
    exact ⟨fun ⟨a, b, _⟩ => ⟨a, hrem x b⟩,
      fun ⟨a, b⟩ => ⟨a, hwant x b (by simp [ExpSet.all, a]), hdis x a⟩⟩
  unfold recoverEntry
  simp only
  refine ⟨?_, ?_, ?_, ?_, ?_, ?_, ?_⟩
  · -- EntryOK
    have hon : (es.onTime.filter (fun u => decide (u ∈ rem))).Nodup := List.Pairwise.filter _ hn.1
    have hea : (es.early.filter
        (fun u => decide (u ∈ rem.filter (fun u => !decide (u ∈ es.onTime))))).Nodup :=
      List.Pairwise.filter _ hn.2.1
    have m1 : ∀ x ∈ es.onTime.filter (fun u => decide (u ∈ rem)), alookup x m = alookup x tbl :=
      fun x hx => hm x ((onHit_mem x).mp hx).2
    have m2 : ∀ x ∈ es.early.filter
        (fun u => decide (u ∈ rem.filter (fun u => !decide (u ∈ es.onTime)))), alookup x m = alookup x tbl :=
      fun x hx => hm x ((earlyHit_mem x).mp hx).2
    constructor
    · show (es.onTime ++ diff es.early _).Nodup
      rw [List.nodup_append]
      exact ⟨hn.1, nodup_diff hn.2.1, fun a ha b hb e => hn.2.2 a ha b (mem_diff.mp hb).1 e⟩
    · intro x hx
      apply h.live
      simp only [ExpSet.all, List.mem_append, mem_diff] at hx ⊢
      rcases hx with hx | hx
      · exact Or.inl hx
      · exact Or.inr hx.1
    · intro x hx
      obtain ⟨a, b⟩ := mem_diff.mp hx
      refine mem_diff.mpr ⟨h.earlyFaulty x a, fun hr => b ((earlyHit_mem x).mpr ⟨a, hr⟩)⟩
    · exact h.pledge
    · -- active
      show es.active + sumPow (lookupInfos m _) = powOf tbl (diff es.onTime (diff F R))
      have e1 : sumPow (lookupInfos m (es.onTime.filter (fun u => decide (u ∈ rem)))) =
          powOf tbl (es.onTime.filter (fun u => decide (u ∈ rem))) := by
        rw [← powOf_congr_tbl m1]; ext <;> simp [sumBy_lookupInfos]
      rw [e1, h.active, ← powOf_append]
      apply powOf_congr tbl
      · rw [List.nodup_append]
        refine ⟨nodup_diff hn.1, hon, ?_⟩
        intro a ha b hb e
        subst e
        exact (mem_diff.mp ha).2 (hRF a ((onHit_mem a).mp hb).2)
      · exact nodup_diff hn.1
      · intro x
        simp only [List.mem_append, mem_diff, onHit_mem]
        constructor
        · rintro (⟨a, b⟩ | ⟨a, b⟩)
          · exact ⟨a, fun h' => b h'.1⟩
          · exact ⟨a, fun h' => h'.2 b⟩
        · rintro ⟨a, b⟩
          by_cases hr : x ∈ R
          · exact Or.inr ⟨a, hr⟩
          · exact Or.inl ⟨a, fun hf => b ⟨hf, hr⟩⟩
    · -- faulty
      show es.faulty - sumPow (lookupInfos m _) - sumPow (lookupInfos m _) =
        powOf tbl (inter es.onTime (diff F R) ++ diff es.early _)
      have e1 : sumPow (lookupInfos m (es.onTime.filter (fun u => decide (u ∈ rem)))) =
          powOf tbl (es.onTime.filter (fun u => decide (u ∈ rem))) := by
        rw [← powOf_congr_tbl m1]; ext <;> simp [sumBy_lookupInfos]
      have e2 : sumPow (lookupInfos m (es.early.filter
          (fun u => decide (u ∈ rem.filter (fun u => !decide (u ∈ es.onTime)))))) =
          powOf tbl (es.early.filter
            (fun u => decide (u ∈ rem.filter (fun u => !decide (u ∈ es.onTime))))) := by
        rw [← powOf_congr_tbl m2]; ext <;> simp [sumBy_lookupInfos]
      rw [e1, e2, h.faulty]
      -- old faulty set = new faulty set ++ onHit ++ earlyHit (as duplicate-free sets)
      have key : powOf tbl (inter es.onTime F ++ es.early) =
          powOf tbl ((inter es.onTime (diff F R) ++ diff es.early (es.early.filter
            (fun u => decide (u ∈ rem.filter (fun u => !decide (u ∈ es.onTime)))))) ++
            (es.onTime.filter (fun u => decide (u ∈ rem)) ++ es.early.filter
              (fun u => decide (u ∈ rem.filter (fun u => !decide (u ∈ es.onTime)))))) := by
        apply powOf_congr tbl
        · rw [List.nodup_append]
          exact ⟨nodup_inter hn.1, hn.2.1, fun a ha b hb e => hn.2.2 a (mem_inter.mp ha).1 b hb e⟩
        · rw [List.nodup_append]
          refine ⟨?_, ?_, ?_⟩
          · rw [List.nodup_append]
            exact ⟨nodup_inter hn.1, nodup_diff hn.2.1,
              fun a ha b hb e => hn.2.2 a (mem_inter.mp ha).1 b (mem_diff.mp hb).1 e⟩
          · rw [List.nodup_append]
            exact ⟨hon, hea, fun a ha b hb e =>
              hn.2.2 a ((onHit_mem a).mp ha).1 b ((earlyHit_mem b).mp hb).1 e⟩
          · intro a ha b hb e
            subst e
            rcases List.mem_append.mp ha with ha | ha <;> rcases List.mem_append.mp hb with hb | hb
            · exact (mem_diff.mp (mem_inter.mp ha).2).2 ((onHit_mem a).mp hb).2
            · exact hn.2.2 a (mem_inter.mp ha).1 a ((earlyHit_mem a).mp hb).1 rfl
            · exact hn.2.2 a ((onHit_mem a).mp hb).1 a (mem_diff.mp ha).1 rfl
            · exact (mem_diff.mp ha).2 hb
        · intro x
          simp only [List.mem_append, mem_inter, mem_diff, onHit_mem, earlyHit_mem]
          constructor
          · rintro (⟨a, b⟩ | a)
            · by_cases hr : x ∈ R
              · exact Or.inr (Or.inl ⟨a, hr⟩)
              · exact Or.inl (Or.inl ⟨a, b, hr⟩)
            · by_cases hr : x ∈ R
              · exact Or.inr (Or.inr ⟨a, hr⟩)
              · exact Or.inl (Or.inr ⟨a, fun h' => hr h'.2⟩)
          · rintro ((⟨a, b, _⟩ | ⟨a, _⟩) | (⟨a, b⟩ | ⟨a, _⟩))
            · exact Or.inl ⟨a, b⟩
            · exact Or.inr a
            · exact Or.inl ⟨a, hRF x b⟩
            · exact Or.inr a
      rw [key]
      simp only [powOf_append]
      ext <;> simp <;> omega
    · -- fee
      show es.fee - sumFee (lookupInfos m _) = sumBy (tw tbl (·.fee)) (es.onTime ++ diff es.early _)
      have e2 : sumFee (lookupInfos m (es.early.filter
          (fun u => decide (u ∈ rem.filter (fun u => !decide (u ∈ es.onTime)))))) =
          sumBy (tw tbl (·.fee)) (es.early.filter
            (fun u => decide (u ∈ rem.filter (fun u => !decide (u ∈ es.onTime))))) := by
        rw [← sumBy_congr_tbl _ m2]; simp [sumFee, sumBy_lookupInfos]
      rw [e2, h.fee]
      simp only [ExpSet.all, sumBy_append]
      have := sum_diff_subset (tw tbl (·.fee)) hn.2.1 hea (fun x hx => (List.mem_filter.mp hx).1)
      omega
  · intro x hx
    simp only [ExpSet.all, List.mem_append, mem_diff] at hx ⊢
    rcases hx with hx | hx
    · exact Or.inl hx
    · exact Or.inr hx.1
  · intro x
    simp only [List.mem_filter, Bool.not_eq_eq_eq_not, Bool.not_true, decide_eq_false_iff_not,
      ExpSet.all, List.mem_append, not_or]
    constructor
    · rintro ⟨⟨a, b⟩, c⟩; exact ⟨a, b, c⟩
    · rintro ⟨a, b, c⟩; exact ⟨⟨a, b⟩, c⟩
  · intro x
    rw [(lookupInfos_nums hag _ (fun y hy => ((earlyHit_mem y).mp hy).2)).1]
    exact earlyHit_mem x
  · rw [(lookupInfos_nums hag _ (fun y hy => ((earlyHit_mem y).mp hy).2)).1]
    exact List.Pairwise.filter _ hn.2.1
  · exact (lookupInfos_nums hag _ (fun y hy => ((earlyHit_mem y).mp hy).2)).2
  · intro x hx
    rw [(lookupInfos_nums hag _ (fun y hy => ((earlyHit_mem y).mp hy).2)).1]
    intro hhit
    simp only [ExpSet.all, List.mem_append, mem_diff] at hx
    rcases hx with hx | hx
    · exact hdis x ((earlyHit_mem x).mp hhit).1 hx
    · exact hx.2 hhit

end BA.Sector

namespace BA.Sector
open BA BA.NatSet

theorem qinv_tail {tbl : Table} {F L : NatSet} {hd : Int × ExpSet} {t : Queue}
    (h : QInv tbl F L (hd :: t)) : QInv tbl F L t :=
  ⟨sorted_tail h.sorted, fun e es hm => h.entry e es (List.mem_cons_of_mem _ hm),
    fun e1 es1 e2 es2 h1 h2 => h.disj e1 es1 e2 es2 (List.mem_cons_of_mem _ h1) (List.mem_cons_of_mem _ h2)⟩

/-- the head entry shares no sector with the tail -/
theorem head_disj_tail {tbl : Table} {F L : NatSet} {e : Int} {es : ExpSet} {t : Queue}
    (h : QInv tbl F L ((e, es) :: t)) : ∀ x ∈ es.all, ¬ qsecs t x := by
  intro x hx ⟨e2, es2, hm, hx2⟩
  have := h.disj e es e2 es2 (by simp) (List.mem_cons_of_mem _ hm) x hx hx2
  have hlt := sorted_head_lt h.sorted (e2, es2) hm
  simp at hlt; omega

theorem recoverTraverse_qinv {tbl m : Table} {F L R : NatSet} (hRF : ∀ x ∈ R, x ∈ F)
    (hag : Agrees m tbl R) :
    ∀ (q q' : Queue) (rem rem' : NatSet) (resched : List SectorInfo) (pow : PowerPair),
    QInv tbl F L q → (∀ x ∈ rem, x ∈ R) → (∀ x ∈ R, qsecs q x → x ∈ rem) →
    recoverTraverse m q rem = .ok (q', rem', resched, pow) →
    Sorted q' ∧
    (∀ e v, (e, v) ∈ q' → ∃ es0, (e, es0) ∈ q ∧ (∀ x ∈ v.all, x ∈ es0.all) ∧
      EntryOK tbl (diff F R) L v) ∧
    (nums resched).Nodup ∧ (∀ i ∈ resched, alookup i.num tbl = some i) ∧
    (∀ x ∈ nums resched, x ∈ R ∧ qsecs q x) ∧ (∀ x ∈ nums resched, ¬ qsecs q' x) := by
  intro q
  induction q with
  | nil =>
    intro q' rem rem' resched pow _ _ _ h
    simp only [recoverTraverse, Except.ok.injEq, Prod.mk.injEq] at h
    obtain ⟨rfl, _, rfl, _⟩ := h
    exact ⟨by simp [Sorted], by simp, by simp [nums], by simp, by simp [nums], by simp [nums]⟩
  | cons hd rest ih =>
    intro q' rem rem' resched pow hq hrem hwant h
    obtain ⟨e, es⟩ := hd
    have hq' := qinv_tail hq
    have hes := hq.entry e es (by simp)
    have hdt := head_disj_tail hq
    have hlt := sorted_head_lt hq.sorted
    obtain ⟨g1, g2, g3, g4, g5, g6, g7⟩ := recoverEntry_ok (m := m) (rem := rem) hes hRF hrem
      (fun x hx hin => hwant x hx ⟨e, es, by simp, hin⟩) hag
    unfold recoverTraverse at h
    cases hre : recoverEntry m es rem with
    | mk es' y =>
      obtain ⟨rem2, earlyInfos, recovered⟩ := y
      rw [hre] at g1 g2 g3 g4 g5 g6 g7
      simp only at g1 g2 g3 g4 g5 g6 g7
      simp only [hre] at h
      cases hv : es'.validate with
      | error err => simp [hv] at h
      | ok u =>
        cases u
        simp only [hv] at h
        -- facts about prepending the (possibly dropped) new head
        have hcons : ∀ (qq : Queue), Sorted qq →
            (∀ e2 v, (e2, v) ∈ qq → ∃ es0, (e2, es0) ∈ rest ∧ (∀ x ∈ v.all, x ∈ es0.all) ∧
              EntryOK tbl (diff F R) L v) →
            Sorted (if es'.isEmpty then qq else (e, es') :: qq) ∧
            (∀ e2 v, (e2, v) ∈ (if es'.isEmpty then qq else (e, es') :: qq) →
              ∃ es0, (e2, es0) ∈ (e, es) :: rest ∧ (∀ x ∈ v.all, x ∈ es0.all) ∧
                EntryOK tbl (diff F R) L v) := by
          intro qq hsq hqq
          have lift : ∀ e2 v, (e2, v) ∈ qq → ∃ es0, (e2, es0) ∈ (e, es) :: rest ∧
              (∀ x ∈ v.all, x ∈ es0.all) ∧ EntryOK tbl (diff F R) L v := by
            intro e2 v hm
            obtain ⟨es0, a, b, c⟩ := hqq e2 v hm
            exact ⟨es0, List.mem_cons_of_mem _ a, b, c⟩
          by_cases hem : es'.isEmpty = true
          · simp only [hem, if_true]; exact ⟨hsq, lift⟩
          · simp only [hem, Bool.false_eq_true, if_false]
            refine ⟨List.pairwise_cons.mpr ⟨?_, hsq⟩, ?_⟩
            · intro x hx
              obtain ⟨es0, a, _, _⟩ := hqq x.1 x.2 hx
              exact hlt (x.1, es0) a
            · intro e2 v hm
              rcases List.mem_cons.mp hm with hm | hm
              · cases hm; exact ⟨es, by simp, g2, g1⟩
              · exact lift e2 v hm
        have nosec : ∀ (qq : Queue),
            (∀ e2 v, (e2, v) ∈ qq → ∃ es0, (e2, es0) ∈ rest ∧ (∀ x ∈ v.all, x ∈ es0.all) ∧
              EntryOK tbl (diff F R) L v) →
            ∀ x ∈ nums earlyInfos, ¬ qsecs (if es'.isEmpty then qq else (e, es') :: qq) x := by
          intro qq hqq x hx ⟨e2, v, hm, hxv⟩
          have hxe : x ∈ es.all := by simp [ExpSet.all, ((g4 x).mp hx).1]
          have inqq : (e2, v) ∈ qq → False := fun hm' => by
            obtain ⟨es0, a, b, _⟩ := hqq e2 v hm'
            exact hdt x hxe ⟨e2, es0, a, b x hxv⟩
          by_cases hem : es'.isEmpty = true
          · simp only [hem, if_true] at hm; exact inqq hm
          · simp only [hem, Bool.false_eq_true, if_false] at hm
            rcases List.mem_cons.mp hm with hm | hm
            · cases hm; exact g7 x hxv hx
            · exact inqq hm
        by_cases hem2 : rem2.isEmpty = true
        · simp only [hem2, if_true, Except.ok.injEq, Prod.mk.injEq] at h
          obtain ⟨rfl, _, rfl, _⟩ := h
          have hr2 : ∀ x, x ∉ rem2 := isEmpty_iff.mp hem2
          -- the untouched tail holds no wanted sector
          have tailok : ∀ e2 v, (e2, v) ∈ rest → ∃ es0, (e2, es0) ∈ rest ∧ (∀ x ∈ v.all, x ∈ es0.all) ∧
              EntryOK tbl (diff F R) L v := by
            intro e2 v hm
            refine ⟨v, hm, fun x hx => hx, ?_⟩
            apply entryOK_frame (hq'.entry e2 v hm) _ (hq'.entry e2 v hm).live
            intro x hx
            have hnr : x ∉ R := fun hr => by
              have h1 := hwant x hr ⟨e2, v, List.mem_cons_of_mem _ hm, hx⟩
              have h2 : x ∉ es.all := fun hin => hdt x hin ⟨e2, v, hm, hx⟩
              exact hr2 x ((g3 x).mpr ⟨h1, h2⟩)
            simp [mem_diff, hnr]
          obtain ⟨c1, c2⟩ := hcons rest hq'.sorted tailok
          refine ⟨c1, c2, g5, g6, ?_, nosec rest tailok⟩
          intro x hx
          exact ⟨((g4 x).mp hx).2, e, es, by simp, by simp [ExpSet.all, ((g4 x).mp hx).1]⟩
        · simp only [hem2, Bool.false_eq_true, if_false] at h
          cases hrec : recoverTraverse m rest rem2 with
          | error err => simp [hrec] at h
          | ok z =>
            obtain ⟨q3, rem3, res3, pow3⟩ := z
            simp only [hrec, Except.ok.injEq, Prod.mk.injEq] at h
            obtain ⟨rfl, _, rfl, _⟩ := h
            obtain ⟨i1, i2, i3, i4, i5, i6⟩ := ih q3 rem2 rem3 res3 pow3 hq'
              (fun x hx => hrem x ((g3 x).mp hx).1)
              (fun x hr hs => (g3 x).mpr ⟨hwant x hr (by
                obtain ⟨e2, es2, hm, hx2⟩ := hs
                exact ⟨e2, es2, List.mem_cons_of_mem _ hm, hx2⟩),
                fun hin => hdt x hin hs⟩) hrec
            obtain ⟨c1, c2⟩ := hcons q3 i1 i2
            refine ⟨c1, c2, ?_, ?_, ?_, ?_⟩
            · simp only [nums, List.map_append]
              rw [List.nodup_append]
              refine ⟨g5, i3, ?_⟩
              intro a ha b hb eab
              subst eab
              have ha' : a ∈ es.all := by
                simp [ExpSet.all, ((g4 a).mp (by simpa [nums] using ha)).1]
              exact hdt a ha' (i5 a (by simpa [nums] using hb)).2
            · intro i hi
              rcases List.mem_append.mp hi with hi | hi
              · exact g6 i hi
              · exact i4 i hi
            · intro x hx
              simp only [nums, List.map_append, List.mem_append] at hx
              rcases hx with hx | hx
              · have hx' : x ∈ nums earlyInfos := by simpa [nums] using hx
                exact ⟨((g4 x).mp hx').2, e, es, by simp, by simp [ExpSet.all, ((g4 x).mp hx').1]⟩
              · obtain ⟨a, e2, es2, hm, hx2⟩ := i5 x (by simpa [nums] using hx)
                exact ⟨a, e2, es2, List.mem_cons_of_mem _ hm, hx2⟩
            · intro x hx
              simp only [nums, List.map_append, List.mem_append] at hx
              rcases hx with hx | hx
              · exact nosec q3 i2 x (by simpa [nums] using hx)
              · have hx' : x ∈ nums res3 := by simpa [nums] using hx
                rintro ⟨e2, v, hm, hxv⟩
                have inq3 : (e2, v) ∈ q3 → False := fun hm' => i6 x hx' ⟨e2, v, hm', hxv⟩
                by_cases hem : es'.isEmpty = true
                · simp only [hem, if_true] at hm; exact inq3 hm
                · simp only [hem, Bool.false_eq_true, if_false] at hm
                  rcases List.mem_cons.mp hm with hm | hm
                  · cases hm
                    exact hdt x (g2 x hxv) (i5 x hx').2
                  · exact inq3 hm

end BA.Sector

namespace BA.Sector
open BA BA.NatSet

theorem agrees_infoMap {tbl : Table} {infos : List SectorInfo} (hn : (nums infos).Nodup)
    (ht : ∀ i ∈ infos, alookup i.num tbl = some i) : Agrees (infoMap infos) tbl (nums infos) := by
  intro x hx
  obtain ⟨i, hi, rfl⟩ : ∃ i ∈ infos, i.num = x := by simpa [nums] using hx
  exact ⟨i, alookup_infoMap hn hi, ht i hi, rfl⟩

/-- **`reschedule_recovered` preserves the queue invariant**: the given sectors (distinct, the
    table's infos, all faulty) become non-faulty -/
theorem rescheduleRecovered_qinv {tbl : Table} {F L : NatSet} {qs : QuantSpec} {q q' : Queue}
    {infos : List SectorInfo} {pw : PowerPair} (h : QInv tbl F L q) (hn : (nums infos).Nodup)
    (ht : ∀ i ∈ infos, alookup i.num tbl = some i) (hRF : ∀ x ∈ nums infos, x ∈ F)
    (hr : rescheduleRecovered qs q infos = .ok (q', pw)) :
    QInv tbl (diff F (nums infos)) L q' := by
  unfold rescheduleRecovered at hr
  simp only at hr
  rw [ofList_eq_self hn] at hr
  cases ht' : recoverTraverse (infoMap infos) q (nums infos) with
  | error e => simp [ht'] at hr
  | ok x =>
    obtain ⟨q1, rem, resched, pow⟩ := x
    simp only [ht'] at hr
    obtain ⟨a1, a2, a3, a4, a5, a6⟩ := recoverTraverse_qinv hRF (agrees_infoMap hn ht) q q1 _ rem
      resched pow h (fun x hx => hx) (fun x hx _ => hx) ht'
    by_cases hre : rem.isEmpty = true
    · simp only [hre, Bool.not_true, Bool.false_eq_true, if_false] at hr
      cases ha : addActiveSectors qs q1 resched with
      | error e => simp [ha] at hr
      | ok y =>
        obtain ⟨q2, b, c, d, f⟩ := y
        simp only [ha, Except.ok.injEq, Prod.mk.injEq] at hr
        obtain ⟨rfl, _⟩ := hr
        have h1 : QInv tbl (diff F (nums infos)) L q1 := qinv_of_shrink h a1 a2
        have hf : FreshInfos tbl (diff F (nums infos)) L q1 resched := by
          refine ⟨a3, a4, fun i hi => a6 i.num (List.mem_map_of_mem hi), ?_, ?_⟩
          · intro i hi
            obtain ⟨_, e, es, hm, hx⟩ := a5 i.num (List.mem_map_of_mem hi)
            exact (h.entry e es hm).live _ hx
          · intro i hi hd
            exact (mem_diff.mp hd).2 (a5 i.num (List.mem_map_of_mem hi)).1
        exact (addActiveSectors_qinv h1 hf ha).1
    · simp [hre] at hr

end BA.Sector
