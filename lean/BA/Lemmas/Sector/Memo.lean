/-
  The four power memos of a partition equal the sums recomputed from the sector table over the
  corresponding bitfields (`MemoInv`), preserved by add / record_faults / declare_faults_recovered /
  recover_faults / activate_unproven / record_missed_post / record_skipped_faults /
  pop_early_terminations.
-/
import BA.Lemmas.Sector.Queue

namespace BA.Sector
open BA BA.NatSet

/-! ### `powOf` over set expressions -/

@[simp] theorem powOf_nil (tbl : Table) : powOf tbl [] = PowerPair.zero := rfl

theorem powOf_congr (tbl : Table) {a b : NatSet} (ha : a.Nodup) (hb : b.Nodup)
    (h : ∀ x, x ∈ a ↔ x ∈ b) : powOf tbl a = powOf tbl b := by
  ext <;> simp only [powOf_raw, powOf_qa] <;> exact sumBy_congr_mem _ ha hb h

theorem powOf_union_disj (tbl : Table) {a b : NatSet} (h : ∀ x ∈ b, x ∉ a) :
    powOf tbl (union a b) = powOf tbl a + powOf tbl b := by
  ext <;> simp only [powOf_raw, powOf_qa, PowerPair.add_raw, PowerPair.add_qa] <;>
    exact sum_union_disjoint _ h

theorem powOf_diff_sub (tbl : Table) {a b : NatSet} (ha : a.Nodup) (hb : b.Nodup)
    (h : ∀ x ∈ b, x ∈ a) : powOf tbl (diff a b) = powOf tbl a - powOf tbl b := by
  ext <;> simp only [powOf_raw, powOf_qa, PowerPair.sub_raw, PowerPair.sub_qa] <;>
    exact sum_diff_subset _ ha hb h

theorem sumPow_tbl {tbl : Table} {infos : List SectorInfo}
    (h : ∀ i ∈ infos, alookup i.num tbl = some i) : sumPow infos = powOf tbl (nums infos) := by
  ext
  · simp only [sumPow_raw, powOf_raw]; exact sumBy_infos_tbl _ h
  · simp only [sumPow_qa, powOf_qa]; exact sumBy_infos_tbl _ h

theorem diff_nil_right (a : NatSet) : diff a [] = a := by
  unfold diff; exact List.filter_eq_self.mpr (fun _ _ => by simp)

/-! ### `select_sectors` picks exactly the wanted sectors -/

theorem selectSectors_sum {tbl : Table} (w : SectorInfo → Int) :
    ∀ (infos sel : List SectorInfo) (want : NatSet),
      (∀ i ∈ infos, alookup i.num tbl = some i) → want.Nodup →
      Partition.selectSectors infos want = .ok sel → sumBy w sel = sumBy (tw tbl w) want := by
  intro infos
  induction infos with
  | nil =>
    intro sel want _ _ h
    unfold Partition.selectSectors at h
    by_cases hw : want.isEmpty = true
    · have : want = [] := by cases hs : want <;> simp_all
      simp [hw] at h; subst h; subst this; rfl
    · simp [hw] at h
  | cons i t ih =>
    intro sel want ht hn h
    unfold Partition.selectSectors at h
    by_cases hi : i.num ∈ want
    · simp only [hi, if_true] at h
      cases hs : Partition.selectSectors t (diff want [i.num]) with
      | error e => simp [hs] at h
      | ok l =>
        simp only [hs, Except.ok.injEq] at h
        subst h
        have h1 := ih l _ (fun j hj => ht j (List.mem_cons_of_mem _ hj)) (nodup_diff hn) hs
        have h2 := sum_split (tw tbl w) want [i.num]
        have h3 : sumBy (tw tbl w) (inter want [i.num]) = sumBy (tw tbl w) [i.num] := by
          apply sumBy_congr_mem _ (nodup_inter hn) (by simp)
          intro x; simp only [mem_inter, List.mem_singleton]
          exact ⟨fun h' => h'.2, fun h' => ⟨by rw [h']; exact hi, h'⟩⟩
        have h4 : tw tbl w i.num = w i := by simp [tw, ht i (by simp)]
        simp only [sumBy_cons, sumBy_nil] at h3 ⊢
        omega
    · simp only [hi, if_false] at h
      exact ih sel want (fun j hj => ht j (List.mem_cons_of_mem _ hj)) hn h

theorem selectSectors_pow {tbl : Table} {infos sel : List SectorInfo} {want : NatSet}
    (ht : ∀ i ∈ infos, alookup i.num tbl = some i) (hn : want.Nodup)
    (h : Partition.selectSectors infos want = .ok sel) : sumPow sel = powOf tbl want := by
  ext
  · exact selectSectors_sum _ infos sel want ht hn h
  · exact selectSectors_sum _ infos sel want ht hn h

/-! ### the memo invariant -/

/-- each power memo equals the sum recomputed from the sector table over its bitfield -/
structure MemoInv (tbl : Table) (p : Partition) : Prop where
  live : p.livePower = powOf tbl (diff p.sectors p.terminated)
  unproven : p.unprovenPower = powOf tbl p.unproven
  faulty : p.faultyPower = powOf tbl p.faults
  recovering : p.recoveringPower = powOf tbl p.recoveries
  qnodup : QNodup p.expirations

theorem memoInv_new (tbl : Table) : MemoInv tbl Partition.new := by
  constructor <;> simp [Partition.new, diff, powOf, PowerPair.zero, QNodup]

namespace Partition

theorem memo_addFaults {tbl : Table} {p p' : Partition} {qs : QuantSpec} {sn : NatSet}
    {infos : List SectorInfo} {fe : Int} {delta nf : PowerPair}
    (hs : SetInv p) (hm : MemoInv tbl p) (hn : sn.Nodup) (hnum : nums infos = sn)
    (ht : ∀ i ∈ infos, alookup i.num tbl = some i) (hdisj : ∀ x ∈ sn, x ∉ p.faults)
    (h : p.addFaults qs sn infos fe = .ok (p', delta, nf)) :
    MemoInv tbl p' ∧ nf = powOf tbl sn ∧ p'.recoveries = p.recoveries ∧
    p'.recoveringPower = p.recoveringPower := by
  obtain ⟨q', sel, hr, hsel, _, _, e⟩ := addFaults_ok h
  obtain ⟨hq', hnf⟩ := rescheduleAsFaults_spec hm.qnodup (by rw [hnum]; exact hn) hr
  have hnf' : nf = powOf tbl sn := by rw [hnf, sumPow_tbl ht, hnum]
  have hsel' := selectSectors_pow ht (nodup_inter hn) hsel
  subst e
  refine ⟨⟨hm.live, ?_, ?_, hm.recovering, hq'⟩, hnf', rfl, rfl⟩
  · show p.unprovenPower - sumPow sel = powOf tbl (diff p.unproven (inter sn p.unproven))
    rw [powOf_diff_sub tbl hs.nodupU (nodup_inter hn) (fun x hx => (mem_inter.mp hx).2), hm.unproven,
      hsel']
  · show p.faultyPower + nf = powOf tbl (union p.faults sn)
    rw [powOf_union_disj tbl hdisj, hm.faulty, hnf']

end Partition
end BA.Sector

namespace BA.Sector
open BA BA.NatSet

/-- the operations for which the memo refinement is proved -/
def TierA : Op → Prop
  | .addSectors _ _ => True
  | .recordFaults _ _ => True
  | .declareFaultsRecovered _ => True
  | .recoverFaults => True
  | .activateUnproven => True
  | .recordMissedPost _ => True
  | .recordSkippedFaults _ _ => True
  | .popEarlyTerminations _ => True
  | _ => False

/-- the infos handed to `add_sectors` are the table's infos of distinct sectors -/
def OpWF2 (tbl : Table) : Op → Prop
  | .addSectors _ infos => (nums infos).Nodup ∧ ∀ i ∈ infos, alookup i.num tbl = some i
  | _ => True

namespace Partition

theorem memo_removeRecoveries {tbl : Table} {p : Partition} {retracted : NatSet}
    {retrInfos : List SectorInfo} (hw : TableWF tbl) (hs : SetInv p) (hm : MemoInv tbl p)
    (hn : retracted.Nodup) (hsub : ∀ x ∈ retracted, x ∈ p.recoveries)
    (hl : loadSectors tbl retracted = .ok retrInfos) :
    MemoInv tbl (p.removeRecoveries retracted (sumPow retrInfos)) := by
  obtain ⟨e1, e2, e3, e4, e5, _, e7, e8, e9, e10⟩ := removeRecoveries_eq p retracted (sumPow retrInfos)
  refine ⟨by rw [e7, e1, e4]; exact hm.live, by rw [e8, e2]; exact hm.unproven,
    by rw [e9, e3]; exact hm.faulty, ?_, by rw [e5]; exact hm.qnodup⟩
  rw [e10, powOf_diff_sub tbl hs.nodupR hn hsub, ← hm.recovering, ← sumPow_load hw hl]
  unfold removeRecoveries
  by_cases he : retracted.isEmpty = true
  · have : retracted = [] := by cases hq : retracted <;> simp_all
    subst this
    simp [loadSectors] at hl
    subst hl
    simp only [he, if_true]
    ext <;> simp [sumBy]
  · simp [he]

end Partition

theorem memoInv_stepE {env : Env} {p p' : Partition} {op : Op} {r : Ret}
    (hw : TableWF env.tbl) (hs : SetInv p) (hm : MemoInv env.tbl p) (hop : OpWF op)
    (hop2 : OpWF2 env.tbl op) (ha : TierA op) (h : stepE env p op = .ok (p', r)) :
    MemoInv env.tbl p' := by
  cases op with
  | addSectors proven infos =>
    simp only [stepE] at h
    cases hx : p.addSectors env.qs proven infos with
    | error e => simp [hx] at h
    | ok x =>
      obtain ⟨p1, pw, fee⟩ := x
      simp only [hx, Except.ok.injEq, Prod.mk.injEq] at h
      obtain ⟨rfl, _⟩ := h
      obtain ⟨q', hg, hnew, _, _, _, e⟩ := Partition.addSectors_ok hx
      obtain ⟨hn, ht⟩ := hop2
      rw [ofList_eq_self hn] at e hnew
      have hp : sumPow infos = powOf env.tbl (nums infos) := sumPow_tbl ht
      have hq' : QNodup q' := addGroups_nodup hm.qnodup hg
      have hlive : p.livePower + sumPow infos =
          powOf env.tbl (diff (union p.sectors (nums infos)) p.terminated) := by
        rw [powOf_congr env.tbl (b := union (diff p.sectors p.terminated) (nums infos))
          (nodup_diff (nodup_union hs.nodupS hn)) (nodup_union (nodup_diff hs.nodupS) hn)]
        · rw [powOf_union_disj, hm.live, hp]
          intro x hx hd; exact hnew x hx (mem_diff.mp hd).1
        · intro x
          simp only [mem_diff, mem_union]
          constructor
          · rintro ⟨h1 | h1, h2⟩
            · exact Or.inl ⟨h1, h2⟩
            · exact Or.inr h1
          · rintro (⟨h1, h2⟩ | h1)
            · exact ⟨Or.inl h1, h2⟩
            · exact ⟨Or.inr h1, fun ht' => hnew x h1 (hs.termSub x ht')⟩
      subst e
      cases proven
      · refine ⟨hlive, ?_, hm.faulty, hm.recovering, hq'⟩
        show p.unprovenPower + sumPow infos = powOf env.tbl (union p.unproven (nums infos))
        rw [powOf_union_disj, hm.unproven, hp]
        intro x hx hu; exact hnew x hx (hs.unprovenSub x hu).1
      · exact ⟨hlive, hm.unproven, hm.faulty, hm.recovering, hq'⟩
  | recordFaults sn fe =>
    simp only [stepE] at h
    cases hx : p.recordFaults env.tbl env.qs sn fe with
    | error e => simp [hx] at h
    | ok x =>
      obtain ⟨p1, nfs, d, f⟩ := x
      simp only [hx, Except.ok.injEq, Prod.mk.injEq] at h
      obtain ⟨rfl, _⟩ := h
      obtain ⟨_, _, newInfos, retrInfos, p2, hl1, hl2, hadd, e, hv⟩ := Partition.recordFaults_ok hx
      have hn : (diff (diff (diff sn (inter p.recoveries sn)) p.terminated) p.faults).Nodup :=
        nodup_diff (nodup_diff (nodup_diff hop))
      obtain ⟨n1, n2⟩ := Partition.loadSectors_spec hw hl1
      have h2 : SetInv p2 ∧ MemoInv env.tbl p2 ∧ p2.recoveries = p.recoveries := by
        by_cases hne : (!newInfos.isEmpty) = true
        · simp only [hne, if_true] at hadd
          obtain ⟨m1, _, m3, _⟩ := Partition.memo_addFaults hs hm hn n1 n2
            (fun x hx => (mem_diff.mp hx).2) hadd
          exact ⟨Partition.setInv_addFaults hs hn hadd, m1, m3⟩
        · simp only [hne, Bool.false_eq_true, if_false] at hadd
          rw [hadd.1]; exact ⟨hs, hm, rfl⟩
      have hm' := Partition.memo_removeRecoveries hw h2.1 h2.2.1
        (nodup_inter hs.nodupR) (fun x hx => by rw [h2.2.2]; exact (mem_inter.mp hx).1) hl2
      by_cases hre : (!retrInfos.isEmpty) = true
      · simp only [hre, if_true] at e
        subst e; exact hm'
      · simp only [hre, Bool.false_eq_true, if_false] at e
        subst e; exact h2.2.1
  | declareFaultsRecovered sn =>
    simp only [stepE] at h
    cases hx : p.declareFaultsRecovered env.tbl sn with
    | error e => simp [hx] at h
    | ok x =>
      obtain ⟨p1, u⟩ := x
      cases u
      simp only [hx, Except.ok.injEq, Prod.mk.injEq] at h
      obtain ⟨rfl, _⟩ := h
      obtain ⟨_, infos, hl, _, e⟩ := Partition.declareFaultsRecovered_ok hx
      subst e
      refine ⟨hm.live, hm.unproven, hm.faulty, ?_, hm.qnodup⟩
      show p.recoveringPower + sumPow infos =
        powOf env.tbl (union p.recoveries (diff (inter sn p.faults) p.recoveries))
      rw [powOf_union_disj env.tbl (fun x hx => (mem_diff.mp hx).2), hm.recovering, sumPow_load hw hl]
  | recoverFaults =>
    simp only [stepE] at h
    cases hx : p.recoverFaults env.tbl env.qs with
    | error e => simp [hx] at h
    | ok x =>
      obtain ⟨p1, pw⟩ := x
      simp only [hx, Except.ok.injEq, Prod.mk.injEq] at h
      obtain ⟨rfl, _⟩ := h
      obtain ⟨infos, q', hl, hr, _, e⟩ := Partition.recoverFaults_ok hx
      obtain ⟨n1, _⟩ := Partition.loadSectors_spec hw hl
      obtain ⟨hq', hpw⟩ := rescheduleRecovered_spec hm.qnodup (by rw [n1]; exact hs.nodupR) hr
      have hpw' : pw = powOf env.tbl p.recoveries := by rw [hpw, sumPow_load hw hl]
      subst e
      refine ⟨hm.live, hm.unproven, ?_, ?_, hq'⟩
      · show p.faultyPower - pw = powOf env.tbl (diff p.faults p.recoveries)
        rw [powOf_diff_sub env.tbl hs.nodupF hs.nodupR hs.recSub, hm.faulty, hpw']
      · show p.recoveringPower - pw = powOf env.tbl []
        rw [hm.recovering, hpw']
        ext <;> simp
  | activateUnproven =>
    simp only [stepE, Partition.activateUnproven, Except.ok.injEq, Prod.mk.injEq] at h
    obtain ⟨rfl, _⟩ := h
    exact ⟨hm.live, rfl, hm.faulty, hm.recovering, hm.qnodup⟩
  | recordMissedPost fe =>
    simp only [stepE] at h
    cases hx : p.recordMissedPost env.qs fe with
    | error e => simp [hx] at h
    | ok x =>
      obtain ⟨p1, d, pen, nf⟩ := x
      simp only [hx, Except.ok.injEq, Prod.mk.injEq] at h
      obtain ⟨rfl, _⟩ := h
      obtain ⟨q', hr, _, _, _, _, e⟩ := Partition.recordMissedPost_ok hx
      subst e
      exact ⟨hm.live, rfl, hm.live, rfl, rescheduleAllAsFaults_nodup hm.qnodup hr⟩
  | popExpiredSectors u => exact absurd ha (by simp [TierA])
  | terminateSectors ep sn => exact absurd ha (by simp [TierA])
  | recordSkippedFaults fe sk =>
    simp only [stepE] at h
    cases hx : p.recordSkippedFaults env.tbl env.qs fe sk with
    | error e => simp [hx] at h
    | ok x =>
      obtain ⟨p1, d, nf, rp, b⟩ := x
      simp only [hx, Except.ok.injEq, Prod.mk.injEq] at h
      obtain ⟨rfl, _⟩ := h
      rcases Partition.recordSkippedFaults_ok hx with ⟨_, e, _⟩ | ⟨_, retrInfos, newInfos, p2, hl1, hl2, hadd, _, e, hv⟩
      · rw [e]; exact hm
      · subst e
        have hn : (diff (diff sk p.terminated) p.faults).Nodup := nodup_diff (nodup_diff hop)
        obtain ⟨n1, n2⟩ := Partition.loadSectors_spec hw hl2
        obtain ⟨m1, _, m3, _⟩ := Partition.memo_addFaults hs hm hn n1 n2
          (fun x hx => (mem_diff.mp hx).2) hadd
        exact Partition.memo_removeRecoveries hw (Partition.setInv_addFaults hs hn hadd) m1
          (nodup_inter hs.nodupR) (fun x hx => by rw [m3]; exact (mem_inter.mp hx).1) hl1
  | rescheduleExpirations ne sn => exact absurd ha (by simp [TierA])
  | replaceSectors old new => exact absurd ha (by simp [TierA])
  | popEarlyTerminations m =>
    simp only [stepE] at h
    cases hx : p.popEarlyTerminations m with
    | error e => simp [hx] at h
    | ok x =>
      obtain ⟨p1, res, n, more⟩ := x
      simp only [hx, Except.ok.injEq, Prod.mk.injEq] at h
      obtain ⟨rfl, _⟩ := h
      obtain ⟨eq, _, e⟩ := Partition.popEarlyTerminations_ok hx
      subst e
      exact ⟨hm.live, hm.unproven, hm.faulty, hm.recovering, hm.qnodup⟩

end BA.Sector
