/-
  Level 2 refines Level 1 on the statuses also for pop_expired_sectors, terminate_sectors and
  reschedule_expirations (these need the queue invariant: which sectors leave is decided by the
  expiration queue).
-/
import BA.Lemmas.Sector.Replace

namespace BA.Sector
open BA BA.NatSet

/-- the Level-1 operation for the calls whose effect depends on the concrete queue -/
def specStepQ (p : Partition) (s : Spec.State) : Op → Option (Except Err Spec.State)
  | .popExpiredSectors u =>
    some (Spec.popExpiredSectors
      (union (popUntil u p.expirations).2.onTime (popUntil u p.expirations).2.early) s)
  | .terminateSectors _ sn => some (Spec.terminateSectors sn s)
  | .rescheduleExpirations _ _ => some (.ok s)
  | op => specStep s op

theorem withStatus_empty_of {f : Spec.Status → Bool} {p : Partition}
    (h : ∀ n, n ∉ Spec.withStatus f p.abs) : (Spec.withStatus f p.abs).isEmpty = true := by
  cases hq : Spec.withStatus f p.abs with
  | nil => rfl
  | cons x t => exact absurd (by rw [hq]; simp) (h x)

theorem refines_pop {tbl : Table} {p p' : Partition} {u : Int} {es : ExpSet} (h : FullInv tbl p)
    (hp : p.popExpiredSectors u = .ok (p', es)) :
    ∃ s', specStepQ p p.abs (.popExpiredSectors u) = some (.ok s') ∧
      ∀ n, Spec.statusOf p'.abs n = Spec.statusOf s' n := by
  obtain ⟨hu, hr, _, hes, hnt, eq, _, e⟩ := Partition.popExpiredSectors_ok hp
  have hs := h.sets
  have g1 : (Spec.withStatus Spec.isUnproven p.abs).isEmpty = true :=
    withStatus_empty_of (fun n hn => by
      have := (mem_unproven_abs hs n).mp hn; rw [hu] at this; simp at this)
  have g2 : (Spec.withStatus Spec.isRecovering p.abs).isEmpty = true :=
    withStatus_empty_of (fun n hn => by
      have := (mem_recovering_abs hs n).mp hn; rw [hr] at this; simp at this)
  have g3 : ((union es.onTime es.early).any fun n => decide (Spec.statusOf p.abs n = some .terminated)) = false := by
    rw [← Bool.not_eq_true, List.any_eq_true]
    rintro ⟨x, hx, hst⟩
    simp only [decide_eq_true_eq] at hst
    rw [statusOf_abs] at hst
    by_cases hS : x ∈ p.sectors
    · simp only [hS, if_true, Option.some.injEq] at hst
      rcases statusOf_cases p x with ⟨a, _⟩ | ⟨a, _, e'⟩ | ⟨a, _, _, e'⟩ | ⟨a, _, _, _, e'⟩ | ⟨a, _, _, _, e'⟩
      · exact hnt x hx a
      all_goals (rw [e'] at hst; cases hst)
    · simp [hS] at hst
  refine ⟨?w1, ?ha1, ?hb1⟩
  case ha1 =>
    simp only [specStepQ, Spec.popExpiredSectors, ← hes, g1, g2, g3, Bool.not_true,
      Bool.false_eq_true, if_false] <;> first | done | rfl
  intro n
  rw [statusOf_map_abs, statusOf_abs]
  subst e
  simp only
  by_cases hn : n ∈ p.sectors
  · simp only [hn, if_true, Option.some.injEq]
    rw [statusOf_eq]
    simp only [mem_union, mem_diff, hr, hu, List.not_mem_nil, if_false]
    by_cases hx : n ∈ es.onTime ∨ n ∈ es.early
    · have : n ∈ union es.onTime es.early := mem_union.mpr hx
      simp [hx, this]
    · have : n ∉ union es.onTime es.early := fun h' => hx (mem_union.mp h')
      simp only [hx, this, or_false, not_false_eq_true, and_true, if_false]
      rw [statusOf_eq p n, hr, hu]
      simp
  · simp [hn]

theorem refines_terminate {tbl : Table} {p p' : Partition} {qs : QuantSpec} {ep : Int} {sn : NatSet}
    {ret : ExpSet} {rup : PowerPair} (hw : TableWF tbl) (h : FullInv tbl p) (hsn : sn.Nodup)
    (ht : p.terminateSectors tbl qs ep sn = .ok (p', ret, rup)) :
    ∃ s', specStepQ p p.abs (.terminateSectors ep sn) = some (.ok s') ∧
      ∀ n, Spec.statusOf p'.abs n = Spec.statusOf s' n := by
  obtain ⟨hlive, infos, q', removed, rr, eq, sel, hl, hr, _, _, _, _, e⟩ :=
    Partition.terminateSectors_ok ht
  obtain ⟨n1, n2⟩ := Partition.loadSectors_spec hw hl
  obtain ⟨_, a2, _, _, _, _⟩ := removeSectors_ok h.queue (by rw [n1]; exact hsn) n2 hr
  rw [n1] at a2
  have g : (sn.all fun n => decide ((Spec.statusOf p.abs n).any Spec.isLive)) = true := by
    rw [List.all_eq_true]
    intro x hx
    obtain ⟨hS, hT⟩ := hlive x hx
    simp only [decide_eq_true_eq]
    rw [statusOf_abs]
    simp only [hS, if_true, Option.any_some]
    rcases statusOf_cases p x with ⟨a, _⟩ | ⟨_, _, e'⟩ | ⟨_, _, _, e'⟩ | ⟨_, _, _, _, e'⟩ | ⟨_, _, _, _, e'⟩
    · exact absurd a hT
    all_goals (rw [e']; rfl)
  refine ⟨?w2, ?ha2, ?hb2⟩
  case ha2 =>
    simp only [specStepQ, Spec.terminateSectors, g, Bool.not_true, Bool.false_eq_true,
      if_false] <;> first | done | rfl
  intro n
  rw [statusOf_map_abs, statusOf_abs]
  subst e
  simp only
  by_cases hn : n ∈ p.sectors
  · simp only [hn, if_true, Option.some.injEq]
    rw [statusOf_eq]
    simp only [mem_union, mem_diff, mem_inter]
    have hrs : n ∈ union removed.onTime removed.early ↔ n ∈ sn := a2 n
    simp only [mem_union] at hrs
    by_cases hx : n ∈ sn
    · simp [hrs.mpr hx, hx]
    · have hno : ¬ (n ∈ removed.onTime ∨ n ∈ removed.early) := fun h' => hx (hrs.mp h')
      simp only [hno, hx, or_false, not_false_eq_true, and_true, false_and, if_false]
      rw [statusOf_eq p n]
  · simp [hn]

theorem refines_reschedule {tbl : Table} {p p' : Partition} {qs : QuantSpec} {ne : Int}
    {sn : NatSet} {infos : List SectorInfo}
    (hr : p.rescheduleExpirationsP tbl qs ne sn = .ok (p', infos)) :
    ∃ s', specStepQ p p.abs (.rescheduleExpirations ne sn) = some (.ok s') ∧
      ∀ n, Spec.statusOf p'.abs n = Spec.statusOf s' n := by
  obtain ⟨q', _, e⟩ := Partition.rescheduleExpirationsP_ok hr
  subst e
  exact ⟨_, rfl, fun n => rfl⟩

end BA.Sector
