/-
  Level 2 refines Level 1 on the STATUSES: a successful concrete call maps, under the abstraction
  map, to the corresponding Level-1 operation (which then also succeeds), sector by sector.
-/
import BA.Lemmas.Sector.Abs

namespace BA.Sector
open BA BA.NatSet

theorem alookup_map_key (g : Nat → Spec.Status) (l : List Nat) (n : Nat) :
    alookup n (l.map (fun k => (k, g k))) = if n ∈ l then some (g n) else none := by
  induction l with
  | nil => simp [alookup]
  | cons k t ih =>
    simp only [List.map_cons, alookup, List.mem_cons]
    by_cases h : k = n
    · subst h; simp
    · have h' : ¬ n = k := fun e => h e.symm
      simp [h, h', ih]

theorem statusOf_abs (p : Partition) (n : Nat) :
    Spec.statusOf p.abs n = if n ∈ p.sectors then some (p.statusOf n) else none :=
  alookup_map_key p.statusOf p.sectors n

theorem keys_abs (p : Partition) : Spec.keys p.abs = p.sectors := by
  simp [Spec.keys, Partition.abs, List.map_map, Function.comp_def]

theorem alookup_mapStatus (f : Nat → Spec.Status → Spec.Status) (l : List (Nat × Spec.Status))
    (n : Nat) :
    alookup n (l.map (fun x => (x.1, f x.1 x.2))) = (alookup n l).map (f n) := by
  induction l with
  | nil => simp [alookup]
  | cons hd t ih =>
    obtain ⟨k, st⟩ := hd
    simp only [List.map_cons, alookup]
    by_cases h : k = n
    · subst h; simp
    · simp [h, ih]

theorem statusOf_mapStatus (f : Nat → Spec.Status → Spec.Status) (s : Spec.State) (n : Nat) :
    Spec.statusOf (Spec.mapStatus f s) n = (Spec.statusOf s n).map (f n) :=
  alookup_mapStatus f s.secs n

/-- the Level-1 operation a concrete call stands for (`none`: not covered by the refinement proof) -/
def specStep (s : Spec.State) : Op → Option (Except Err Spec.State)
  | .addSectors proven infos => some (Spec.addSectors proven (ofList (nums infos)) s)
  | .recordFaults sn _ => some (Spec.recordFaults sn s)
  | .declareFaultsRecovered sn => some (Spec.declareFaultsRecovered sn s)
  | .recoverFaults => some (.ok (Spec.recoverFaultyPower s))
  | .activateUnproven => some (.ok (Spec.activateUnproven s))
  | .recordMissedPost _ => some (.ok (Spec.recordMissedPost s))
  | .recordSkippedFaults _ sk => some (Spec.recordFaults sk s)
  | .popEarlyTerminations _ => some (.ok s)
  | _ => none

/-- characterisation of a status by bitfield membership -/
theorem statusOf_cases (p : Partition) (n : Nat) :
    (n ∈ p.terminated ∧ p.statusOf n = .terminated) ∨
    (n ∉ p.terminated ∧ n ∈ p.recoveries ∧ p.statusOf n = .recovering) ∨
    (n ∉ p.terminated ∧ n ∉ p.recoveries ∧ n ∈ p.faults ∧ p.statusOf n = .faulty) ∨
    (n ∉ p.terminated ∧ n ∉ p.recoveries ∧ n ∉ p.faults ∧ n ∈ p.unproven ∧ p.statusOf n = .unproven) ∨
    (n ∉ p.terminated ∧ n ∉ p.recoveries ∧ n ∉ p.faults ∧ n ∉ p.unproven ∧ p.statusOf n = .active) := by
  unfold Partition.statusOf
  by_cases h1 : n ∈ p.terminated
  · exact Or.inl ⟨h1, by simp [h1]⟩
  · by_cases h2 : n ∈ p.recoveries
    · exact Or.inr (Or.inl ⟨h1, h2, by simp [h1, h2]⟩)
    · by_cases h3 : n ∈ p.faults
      · exact Or.inr (Or.inr (Or.inl ⟨h1, h2, h3, by simp [h1, h2, h3]⟩))
      · by_cases h4 : n ∈ p.unproven
        · exact Or.inr (Or.inr (Or.inr (Or.inl ⟨h1, h2, h3, h4, by simp [h1, h2, h3, h4]⟩)))
        · exact Or.inr (Or.inr (Or.inr (Or.inr ⟨h1, h2, h3, h4, by simp [h1, h2, h3, h4]⟩)))

/-- status from memberships (the converse direction, as a rewriting tool) -/
theorem statusOf_eq (p : Partition) (n : Nat) :
    p.statusOf n =
      if n ∈ p.terminated then .terminated else if n ∈ p.recoveries then .recovering
      else if n ∈ p.faults then .faulty else if n ∈ p.unproven then .unproven else .active := rfl

/-- the set-level effect of `add_faults` + `remove_recoveries` as used by record_faults /
    record_skipped_faults: which sectors are in which bitfield afterwards -/
theorem faults_sets {p p1 p' : Partition} {qs : QuantSpec} {newFaults retracted : NatSet}
    {infos : List SectorInfo} {fe : Int} {delta nf pw : PowerPair}
    (hadd : p.addFaults qs newFaults infos fe = .ok (p1, delta, nf))
    (hp' : p' = p1.removeRecoveries retracted pw) :
    p'.sectors = p.sectors ∧ p'.terminated = p.terminated ∧
    (∀ n, n ∈ p'.faults ↔ n ∈ p.faults ∨ n ∈ newFaults) ∧
    (∀ n, n ∈ p'.unproven ↔ n ∈ p.unproven ∧ n ∉ newFaults) ∧
    (∀ n, n ∈ p'.recoveries ↔ n ∈ p.recoveries ∧ n ∉ retracted) := by
  obtain ⟨q', sel, _, _, _, _, e⟩ := Partition.addFaults_ok hadd
  obtain ⟨e1, e2, e3, e4, _, _, _, _, _, e10⟩ := Partition.removeRecoveries_eq p1 retracted pw
  subst hp'
  rw [e1, e2, e3, e4, e10]
  subst e
  refine ⟨rfl, rfl, fun n => mem_union, ?_, fun n => mem_diff⟩
  intro n
  simp only [mem_diff, mem_inter]
  constructor
  · rintro ⟨h1, h2⟩; exact ⟨h1, fun h3 => h2 ⟨h3, h1⟩⟩
  · rintro ⟨h1, h2⟩; exact ⟨h1, fun h3 => h2 h3.1⟩

/-- the status change of record_faults / record_skipped_faults, from the set-level effect -/
theorem faults_status {p p' : Partition} {sn : NatSet} (hs : SetInv p)
    (hS : p'.sectors = p.sectors) (hT : p'.terminated = p.terminated)
    (hF : ∀ n, n ∈ p'.faults ↔ n ∈ p.faults ∨
      n ∈ diff (diff (diff sn (inter p.recoveries sn)) p.terminated) p.faults)
    (hU : ∀ n, n ∈ p'.unproven ↔ n ∈ p.unproven ∧
      n ∉ diff (diff (diff sn (inter p.recoveries sn)) p.terminated) p.faults)
    (hR : ∀ n, n ∈ p'.recoveries ↔ n ∈ p.recoveries ∧ n ∉ inter p.recoveries sn) (n : Nat) :
    p'.statusOf n = (if n ∈ sn then
        match p.statusOf n with
        | .unproven | .active | .recovering => Spec.Status.faulty
        | x => x
      else p.statusOf n) := by
  rw [statusOf_eq p' n, hT]
  have hF' := hF n; have hU' := hU n; have hR' := hR n
  simp only [mem_diff, mem_inter] at hF' hU' hR'
  rcases statusOf_cases p n with ⟨a, e⟩ | ⟨a, b, e⟩ | ⟨a, b, c, e⟩ | ⟨a, b, c, d, e⟩ | ⟨a, b, c, d, e⟩
  · rw [e]; simp only [a, if_true]; split <;> rfl
  · have hf : n ∈ p.faults := hs.recSub n b
    rw [e]
    by_cases hsn : n ∈ sn
    · have r1 : n ∉ p'.recoveries := fun h => (hR'.mp h).2 ⟨b, hsn⟩
      have f1 : n ∈ p'.faults := hF'.mpr (Or.inl hf)
      simp [a, r1, f1, hsn]
    · have r1 : n ∈ p'.recoveries := hR'.mpr ⟨b, fun h => hsn h.2⟩
      simp [a, r1, hsn]
  · rw [e]
    have r1 : n ∉ p'.recoveries := fun h => b (hR'.mp h).1
    have f1 : n ∈ p'.faults := hF'.mpr (Or.inl c)
    simp only [a, r1, f1, if_false, if_true]
    split <;> rfl
  · rw [e]
    have r1 : n ∉ p'.recoveries := fun h => b (hR'.mp h).1
    by_cases hsn : n ∈ sn
    · have f1 : n ∈ p'.faults := hF'.mpr (Or.inr ⟨⟨⟨hsn, fun h => b h.1⟩, a⟩, c⟩)
      simp [a, r1, f1, hsn]
    · have f1 : n ∉ p'.faults := fun h => by
        rcases hF'.mp h with h | h
        · exact c h
        · exact hsn h.1.1.1
      have u1 : n ∈ p'.unproven := hU'.mpr ⟨d, fun h => hsn h.1.1.1⟩
      simp [a, r1, f1, u1, hsn]
  · rw [e]
    have r1 : n ∉ p'.recoveries := fun h => b (hR'.mp h).1
    by_cases hsn : n ∈ sn
    · have f1 : n ∈ p'.faults := hF'.mpr (Or.inr ⟨⟨⟨hsn, fun h => b h.1⟩, a⟩, c⟩)
      simp [a, r1, f1, hsn]
    · have f1 : n ∉ p'.faults := fun h => by
        rcases hF'.mp h with h | h
        · exact c h
        · exact hsn h.1.1.1
      have u1 : n ∉ p'.unproven := fun h => d (hU'.mp h).1
      simp [a, r1, f1, u1, hsn]

end BA.Sector

namespace BA.Sector
open BA BA.NatSet

theorem alookup_append {α : Type} (n : Nat) (a b : List (Nat × α)) :
    alookup n (a ++ b) = match alookup n a with
      | some v => some v
      | none => alookup n b := by
  induction a with
  | nil => simp [alookup]
  | cons hd t ih =>
    obtain ⟨k, v⟩ := hd
    simp only [List.cons_append, alookup]
    by_cases h : k = n
    · simp [h]
    · simp [h, ih]

theorem alookup_map_const (c : Spec.Status) (l : List Nat) (n : Nat) :
    alookup n (l.map (fun k => (k, c))) = if n ∈ l then some c else none :=
  alookup_map_key (fun _ => c) l n

theorem removeRecoveries_if {p1 : Partition} {retracted : NatSet} {retrInfos : List SectorInfo}
    (hn : nums retrInfos = retracted) :
    (if (!retrInfos.isEmpty) = true then p1.removeRecoveries retracted (sumPow retrInfos) else p1)
      = p1.removeRecoveries retracted (sumPow retrInfos) := by
  by_cases h : (!retrInfos.isEmpty) = true
  · simp only [h, if_true]
  · simp only [h, Bool.false_eq_true, if_false]
    have : retrInfos = [] := by cases hq : retrInfos <;> simp_all
    subst this
    simp only [nums, List.map_nil] at hn
    subst hn
    simp [Partition.removeRecoveries]

/-- sector-by-sector: a status computed through `mapStatus` over the abstraction -/
theorem statusOf_map_abs (f : Nat → Spec.Status → Spec.Status) (p : Partition) (n : Nat) :
    Spec.statusOf (Spec.mapStatus f p.abs) n =
      if n ∈ p.sectors then some (f n (p.statusOf n)) else none := by
  rw [statusOf_mapStatus, statusOf_abs]
  by_cases h : n ∈ p.sectors <;> simp [h]

theorem all_keys_abs {p : Partition} {sn : NatSet} (h : ∀ x ∈ sn, x ∈ p.sectors) :
    (sn.all fun n => decide (n ∈ Spec.keys p.abs)) = true := by
  rw [keys_abs, List.all_eq_true]
  intro x hx; simp [h x hx]

/-- **Level 2 refines Level 1 on the statuses** (operations of `TierA`): a successful concrete call
    corresponds to a successful Level-1 operation on the abstracted state, and the abstraction of the
    new concrete state gives every sector number the status the Level-1 operation gives it. -/
theorem refines_stepE {env : Env} {p p' : Partition} {op : Op} {r : Ret}
    (hw : TableWF env.tbl) (hs : SetInv p) (hop : OpWF op) (ha : TierA op)
    (h : stepE env p op = .ok (p', r)) :
    ∃ s', specStep p.abs op = some (.ok s') ∧
      ∀ n, Spec.statusOf p'.abs n = Spec.statusOf s' n := by
  cases op with
  | addSectors proven infos =>
    simp only [stepE] at h
    cases hx : p.addSectors env.qs proven infos with
    | error e => simp [hx] at h
    | ok x =>
      obtain ⟨p1, pw, fee⟩ := x
      simp only [hx, Except.ok.injEq, Prod.mk.injEq] at h
      obtain ⟨rfl, _⟩ := h
      obtain ⟨q', _, hnew, _, _, _, e⟩ := Partition.addSectors_ok hx
      have hg : ((ofList (nums infos)).any fun n => decide (n ∈ Spec.keys p.abs)) = false := by
        rw [keys_abs, ← Bool.not_eq_true, List.any_eq_true]
        rintro ⟨x, hx1, hx2⟩
        exact hnew x hx1 (by simpa using hx2)
      refine ⟨?w1, ?ha1, ?hb1⟩
      case ha1 => simp only [specStep, Spec.addSectors, hg, Bool.false_eq_true, if_false] <;> first | done | rfl
      intro n
      rw [statusOf_abs]
      simp only [Spec.statusOf]
      rw [alookup_append, alookup_map_const]
      have habs := statusOf_abs p n
      simp only [Spec.statusOf] at habs
      rw [habs]
      have hS' : p1.sectors = union p.sectors (ofList (nums infos)) := by
        subst e; cases proven <;> rfl
      have hT' : p1.terminated = p.terminated := by subst e; cases proven <;> rfl
      have hR' : p1.recoveries = p.recoveries := by subst e; cases proven <;> rfl
      have hF' : p1.faults = p.faults := by subst e; cases proven <;> rfl
      have hU' : p1.unproven = if proven then p.unproven else union p.unproven (ofList (nums infos)) := by
        subst e; cases proven <;> rfl
      rw [hS', statusOf_eq p1 n, hT', hR', hF', hU']
      by_cases hn : n ∈ p.sectors
      · have hnn : n ∉ ofList (nums infos) := fun h' => hnew n h' hn
        have : n ∈ union p.sectors (ofList (nums infos)) := mem_union.mpr (Or.inl hn)
        simp only [this, hn, if_true]
        rw [statusOf_eq p n]
        cases proven
        · simp [mem_union, hnn]
        · simp
      · by_cases hnn : n ∈ ofList (nums infos)
        · have : n ∈ union p.sectors (ofList (nums infos)) := mem_union.mpr (Or.inr hnn)
          have t1 : n ∉ p.terminated := fun h' => hn (hs.termSub n h')
          have f1 : n ∉ p.faults := fun h' => hn (hs.faultSub n h').1
          have r1 : n ∉ p.recoveries := fun h' => f1 (hs.recSub n h')
          have u1 : n ∉ p.unproven := fun h' => hn (hs.unprovenSub n h').1
          simp only [this, hn, hnn, if_true, if_false, t1, f1, r1]
          cases proven
          · simp [mem_union, hnn]
          · simp [u1]
        · have : n ∉ union p.sectors (ofList (nums infos)) := fun h' => by
            rcases mem_union.mp h' with h' | h'
            · exact hn h'
            · exact hnn h'
          simp [this, hn, hnn]
  | recordFaults sn fe =>
    simp only [stepE] at h
    cases hx : p.recordFaults env.tbl env.qs sn fe with
    | error e => simp [hx] at h
    | ok x =>
      obtain ⟨p1, nfs, d, f⟩ := x
      simp only [hx, Except.ok.injEq, Prod.mk.injEq] at h
      obtain ⟨rfl, _⟩ := h
      obtain ⟨hsub, _, newInfos, retrInfos, p2, hl1, hl2, hadd, e, _⟩ := Partition.recordFaults_ok hx
      obtain ⟨n1, _⟩ := Partition.loadSectors_spec hw hl1
      obtain ⟨n2, _⟩ := Partition.loadSectors_spec hw hl2
      rw [removeRecoveries_if n2] at e
      refine ⟨?w2, ?ha2, ?hb2⟩
      case ha2 => simp only [specStep, Spec.recordFaults, all_keys_abs hsub, Bool.not_true, Bool.false_eq_true, if_false] <;> first | done | rfl
      have sets : p1.sectors = p.sectors ∧ p1.terminated = p.terminated ∧
          (∀ n, n ∈ p1.faults ↔ n ∈ p.faults ∨
            n ∈ diff (diff (diff sn (inter p.recoveries sn)) p.terminated) p.faults) ∧
          (∀ n, n ∈ p1.unproven ↔ n ∈ p.unproven ∧
            n ∉ diff (diff (diff sn (inter p.recoveries sn)) p.terminated) p.faults) ∧
          (∀ n, n ∈ p1.recoveries ↔ n ∈ p.recoveries ∧ n ∉ inter p.recoveries sn) := by
        by_cases hne : (!newInfos.isEmpty) = true
        · simp only [hne, if_true] at hadd
          exact faults_sets hadd e
        · simp only [hne, Bool.false_eq_true, if_false] at hadd
          have hp2 : p2 = p := hadd.1
          rw [hp2] at e
          have hemp : newInfos = [] := by cases hq : newInfos <;> simp_all
          have hnf : diff (diff (diff sn (inter p.recoveries sn)) p.terminated) p.faults = [] := by
            rw [← n1, hemp]; rfl
          obtain ⟨e1, e2, e3, e4, _, _, _, _, _, e10⟩ := Partition.removeRecoveries_eq p
            (inter p.recoveries sn) (sumPow retrInfos)
          subst e
          rw [e1, e2, e3, e4, e10, hnf]
          exact ⟨rfl, rfl, fun n => by simp, fun n => by simp, fun n => mem_diff⟩
      obtain ⟨hS, hT, hF, hU, hR⟩ := sets
      intro n
      rw [statusOf_abs, statusOf_map_abs, hS, faults_status hs hS hT hF hU hR n]
      by_cases hn : n ∈ p.sectors <;> by_cases hsn : n ∈ sn <;> simp only [hn, hsn, if_true, if_false]
      cases p.statusOf n <;> rfl
  | declareFaultsRecovered sn =>
    simp only [stepE] at h
    cases hx : p.declareFaultsRecovered env.tbl sn with
    | error e => simp [hx] at h
    | ok x =>
      obtain ⟨p1, u⟩ := x
      cases u
      simp only [hx, Except.ok.injEq, Prod.mk.injEq] at h
      obtain ⟨rfl, _⟩ := h
      obtain ⟨hsub, infos, _, _, e⟩ := Partition.declareFaultsRecovered_ok hx
      refine ⟨?w3, ?ha3, ?hb3⟩
      case ha3 => simp only [specStep, Spec.declareFaultsRecovered, all_keys_abs hsub, Bool.not_true, Bool.false_eq_true, if_false] <;> first | done | rfl
      intro n
      rw [statusOf_abs, statusOf_map_abs]
      subst e
      simp only
      by_cases hn : n ∈ p.sectors
      · simp only [hn, if_true, Option.some.injEq]
        rw [statusOf_eq]
        simp only [mem_union, mem_diff, mem_inter]
        rcases statusOf_cases p n with ⟨a, e⟩ | ⟨a, b, e⟩ | ⟨a, b, c, e⟩ | ⟨a, b, c, d, e⟩ | ⟨a, b, c, d, e⟩
        · rw [e]; simp [a]
        · rw [e]; simp [a, b]
        · rw [e]
          by_cases hsn : n ∈ sn <;> simp [a, b, c, hsn]
        · rw [e]; simp [a, b, c, d]
        · rw [e]; simp [a, b, c, d]
      · simp [hn]
  | recoverFaults =>
    simp only [stepE] at h
    cases hx : p.recoverFaults env.tbl env.qs with
    | error e => simp [hx] at h
    | ok x =>
      obtain ⟨p1, pw⟩ := x
      simp only [hx, Except.ok.injEq, Prod.mk.injEq] at h
      obtain ⟨rfl, _⟩ := h
      obtain ⟨infos, q', _, _, _, e⟩ := Partition.recoverFaults_ok hx
      refine ⟨_, rfl, ?_⟩
      intro n
      simp only [Spec.recoverFaultyPower]
      rw [statusOf_abs, statusOf_map_abs]
      subst e
      simp only
      by_cases hn : n ∈ p.sectors
      · simp only [hn, if_true, Option.some.injEq]
        rw [statusOf_eq]
        simp only [mem_diff, List.not_mem_nil, if_false]
        rcases statusOf_cases p n with ⟨a, e⟩ | ⟨a, b, e⟩ | ⟨a, b, c, e⟩ | ⟨a, b, c, d, e⟩ | ⟨a, b, c, d, e⟩
        · rw [e]; simp [a]
        · have hf := hs.recSub n b
          have hu : n ∉ p.unproven := fun h' => (hs.unprovenSub n h').2.2 hf
          rw [e]; simp [a, b, hu]
        · rw [e]; simp [a, b, c]
        · rw [e]; simp [a, c, d]
        · rw [e]; simp [a, c, d]
      · simp [hn]
  | activateUnproven =>
    simp only [stepE, Partition.activateUnproven, Except.ok.injEq, Prod.mk.injEq] at h
    obtain ⟨rfl, _⟩ := h
    refine ⟨_, rfl, ?_⟩
    intro n
    simp only [Spec.activateUnproven]
    rw [statusOf_abs, statusOf_map_abs]
    simp only
    by_cases hn : n ∈ p.sectors
    · simp only [hn, if_true, Option.some.injEq]
      rw [statusOf_eq]
      simp only [List.not_mem_nil, if_false]
      rcases statusOf_cases p n with ⟨a, e⟩ | ⟨a, b, e⟩ | ⟨a, b, c, e⟩ | ⟨a, b, c, d, e⟩ | ⟨a, b, c, d, e⟩
      · rw [e]; simp [a]
      · rw [e]; simp [a, b]
      · rw [e]; simp [a, b, c]
      · rw [e]; simp [a, b, c]
      · rw [e]; simp [a, b, c]
    · simp [hn]
  | recordMissedPost fe =>
    simp only [stepE] at h
    cases hx : p.recordMissedPost env.qs fe with
    | error e => simp [hx] at h
    | ok x =>
      obtain ⟨p1, d, pen, nf⟩ := x
      simp only [hx, Except.ok.injEq, Prod.mk.injEq] at h
      obtain ⟨rfl, _⟩ := h
      obtain ⟨q', _, _, _, _, _, e⟩ := Partition.recordMissedPost_ok hx
      refine ⟨_, rfl, ?_⟩
      intro n
      simp only [Spec.recordMissedPost]
      rw [statusOf_abs, statusOf_map_abs]
      subst e
      simp only
      by_cases hn : n ∈ p.sectors
      · simp only [hn, if_true, Option.some.injEq]
        rw [statusOf_eq]
        simp only [List.not_mem_nil, if_false, Partition.liveSectors, mem_diff]
        rcases statusOf_cases p n with ⟨a, e⟩ | ⟨a, b, e⟩ | ⟨a, b, c, e⟩ | ⟨a, b, c, d, e⟩ | ⟨a, b, c, d, e⟩
        · rw [e]; simp [a]
        · rw [e]; simp [a, hn]
        · rw [e]; simp [a, hn]
        · rw [e]; simp [a, hn]
        · rw [e]; simp [a, hn]
      · simp [hn]
  | popExpiredSectors u => exact absurd ha (by simp [TierA])
  | terminateSectors ep sn => exact absurd ha (by simp [TierA])
  | recordSkippedFaults fe sk =>
    simp only [stepE] at h
    cases hx : p.recordSkippedFaults env.tbl env.qs fe sk with
    | error e => simp [hx] at h
    | ok x =>
      obtain ⟨p1, d, nf, rp, b⟩ := x
      simp only [hx, Except.ok.injEq, Prod.mk.injEq] at h
      obtain ⟨rfl, _⟩ := h
      rcases Partition.recordSkippedFaults_ok hx with ⟨hsk, e, _⟩ | ⟨hsub, retrInfos, newInfos, p2, hl1, hl2, hadd, _, e, _⟩
      · subst e hsk
        refine ⟨?w4, ?ha4, ?hb4⟩
        case ha4 => simp [specStep, Spec.recordFaults] <;> first | done | rfl
        intro n
        rw [statusOf_map_abs, statusOf_abs]
        try simp
      · refine ⟨?w5, ?ha5, ?hb5⟩
        case ha5 => simp only [specStep, Spec.recordFaults, all_keys_abs hsub, Bool.not_true, Bool.false_eq_true, if_false] <;> first | done | rfl
        obtain ⟨hS, hT, hF, hU, hR⟩ := faults_sets hadd e
        have heq : ∀ n, n ∈ diff (diff sk p.terminated) p.faults ↔
            n ∈ diff (diff (diff sk (inter p.recoveries sk)) p.terminated) p.faults := by
          intro n
          simp only [mem_diff, mem_inter]
          constructor
          · rintro ⟨⟨a, b⟩, c⟩
            exact ⟨⟨⟨a, fun h' => c (hs.recSub n h'.1)⟩, b⟩, c⟩
          · rintro ⟨⟨⟨a, _⟩, b⟩, c⟩
            exact ⟨⟨a, b⟩, c⟩
        intro n
        rw [statusOf_abs, statusOf_map_abs, hS,
          faults_status hs hS hT (fun n => by rw [hF n, heq n]) (fun n => by rw [hU n, heq n]) hR n]
        by_cases hn : n ∈ p.sectors <;> by_cases hsn : n ∈ sk <;> simp only [hn, hsn, if_true, if_false]
        cases p.statusOf n <;> rfl
  | rescheduleExpirations ne sn => exact absurd ha (by simp [TierA])
  | replaceSectors old new => exact absurd ha (by simp [TierA])
  | popEarlyTerminations m =>
    simp only [stepE] at h
    cases hx : p.popEarlyTerminations m with
    | error e => simp [hx] at h
    | ok x =>
      obtain ⟨p1, res, n, more⟩ := x
      simp only [hx, Except.ok.injEq, Prod.mk.injEq] at h
      obtain ⟨rfl, _⟩ := h
      obtain ⟨eq, _, e⟩ := Partition.popEarlyTerminations_ok hx
      subst e
      exact ⟨_, rfl, fun n => rfl⟩

end BA.Sector
