/- Helper lemmas for the miner ledger model: key-unique association lists and their sums. -/
import BA.Model.MinerLedger

namespace BA.MinerLedger
open BA

def keys (m : List (Nat × Int)) : List Nat := m.map (·.1)
def NodupKeys (m : List (Nat × Int)) : Prop := (keys m).Nodup
def NonnegVals (m : List (Nat × Int)) : Prop := ∀ p ∈ m, 0 ≤ p.2

theorem depositsOf_nil : depositsOf [] = 0 := rfl
theorem depositsOf_cons (p : Nat × Int) (t : List (Nat × Int)) :
    depositsOf (p :: t) = p.2 + depositsOf t := rfl
theorem depositsOf_append (a b : List (Nat × Int)) :
    depositsOf (a ++ b) = depositsOf a + depositsOf b := by
  unfold depositsOf; rw [List.map_append, isum_append]

theorem depositsOf_nonneg (m : List (Nat × Int)) (h : NonnegVals m) : 0 ≤ depositsOf m := by
  induction m with
  | nil => simp [depositsOf]
  | cons p t ih =>
    rw [depositsOf_cons]
    have h1 := h p (by simp)
    have h2 := ih (fun q hq => h q (List.mem_cons_of_mem _ hq))
    omega

theorem alookup_none_of_not_mem (k : Nat) (m : List (Nat × Int)) (h : k ∉ keys m) :
    alookup k m = none := by
  induction m with
  | nil => rfl
  | cons p t ih =>
    obtain ⟨k', v⟩ := p
    simp only [keys, List.map_cons, List.mem_cons, not_or] at h
    have h1 : ¬ (k' = k) := fun e => h.1 e.symm
    simp only [alookup, h1, if_false]
    exact ih (by simpa [keys] using h.2)

theorem mem_keys_of_alookup (k : Nat) (m : List (Nat × Int)) (v : Int) (h : alookup k m = some v) :
    k ∈ keys m := by
  by_cases hk : k ∈ keys m
  · exact hk
  · rw [alookup_none_of_not_mem k m hk] at h; cases h

theorem alookup_mem (k : Nat) (m : List (Nat × Int)) (v : Int) (h : alookup k m = some v) :
    (k, v) ∈ m := by
  induction m with
  | nil => simp [alookup] at h
  | cons p t ih =>
    obtain ⟨k', v'⟩ := p
    by_cases hk : k' = k
    · subst hk; simp [alookup] at h; subst h; simp
    · simp [alookup, hk] at h; exact List.mem_cons_of_mem _ (ih h)

theorem keys_aerase_subset (k : Nat) (m : List (Nat × Int)) :
    ∀ x, x ∈ keys (aerase k m) → x ∈ keys m ∧ x ≠ k := by
  induction m with
  | nil => intro x hx; simp [aerase, keys] at hx
  | cons p t ih =>
    obtain ⟨k', v'⟩ := p
    intro x hx
    by_cases hk : k' = k
    · simp only [aerase, hk, if_true] at hx
      obtain ⟨h1, h2⟩ := ih x hx
      exact ⟨by simp only [keys, List.map_cons, List.mem_cons]; right; exact h1, h2⟩
    · simp only [aerase, hk, if_false, keys, List.map_cons, List.mem_cons] at hx
      cases hx with
      | inl h => subst h; exact ⟨by simp [keys], hk⟩
      | inr h =>
        obtain ⟨h1, h2⟩ := ih x h
        exact ⟨by simp only [keys, List.map_cons, List.mem_cons]; right; exact h1, h2⟩

theorem aerase_of_not_mem (k : Nat) (m : List (Nat × Int)) (h : k ∉ keys m) : aerase k m = m := by
  induction m with
  | nil => rfl
  | cons p t ih =>
    obtain ⟨k', v'⟩ := p
    simp only [keys, List.map_cons, List.mem_cons, not_or] at h
    have h1 : ¬ (k' = k) := fun e => h.1 e.symm
    simp only [aerase, h1, if_false]
    rw [ih (by simpa [keys] using h.2)]

theorem nodupKeys_aerase (k : Nat) (m : List (Nat × Int)) (h : NodupKeys m) :
    NodupKeys (aerase k m) := by
  induction m with
  | nil => simpa [aerase] using h
  | cons p t ih =>
    obtain ⟨k', v'⟩ := p
    unfold NodupKeys keys at h
    simp only [List.map_cons, List.nodup_cons] at h
    by_cases hk : k' = k
    · simp only [aerase, hk, if_true]; exact ih h.2
    · simp only [aerase, hk, if_false]
      unfold NodupKeys keys
      simp only [List.map_cons, List.nodup_cons]
      refine ⟨?_, ih h.2⟩
      intro hm
      exact h.1 (keys_aerase_subset k t k' hm).1

theorem nonnegVals_aerase (k : Nat) (m : List (Nat × Int)) (h : NonnegVals m) :
    NonnegVals (aerase k m) := by
  induction m with
  | nil => simpa [aerase] using h
  | cons p t ih =>
    obtain ⟨k', v'⟩ := p
    have ht : NonnegVals t := fun q hq => h q (List.mem_cons_of_mem _ hq)
    by_cases hk : k' = k
    · simp only [aerase, hk, if_true]; exact ih ht
    · simp only [aerase, hk, if_false]
      intro q hq
      cases hq with
      | head => exact h _ (by simp)
      | tail _ hq => exact ih ht q hq

theorem depositsOf_aerase (k : Nat) (m : List (Nat × Int)) (v : Int) (hn : NodupKeys m)
    (h : alookup k m = some v) : depositsOf (aerase k m) = depositsOf m - v := by
  induction m with
  | nil => simp [alookup] at h
  | cons p t ih =>
    obtain ⟨k', v'⟩ := p
    unfold NodupKeys keys at hn
    simp only [List.map_cons, List.nodup_cons] at hn
    by_cases hk : k' = k
    · subst hk
      simp [alookup] at h; subst h
      simp only [aerase, if_true]
      rw [aerase_of_not_mem k' t hn.1, depositsOf_cons]; simp; omega
    · simp [alookup, hk] at h
      simp only [aerase, hk, if_false]
      rw [depositsOf_cons, depositsOf_cons, ih hn.2 h]; simp; omega

/-- removing a list of keys: the removed values and what remains add up to the original -/
theorem removeAll_spec (ks : List Nat) : ∀ (m : List (Nat × Int)), NodupKeys m → NonnegVals m →
    depositsOf (removeAll m ks).1 + (removeAll m ks).2 = depositsOf m ∧
    NodupKeys (removeAll m ks).1 ∧ NonnegVals (removeAll m ks).1 ∧ 0 ≤ (removeAll m ks).2 ∧
    (∀ x, x ∈ keys (removeAll m ks).1 → x ∈ keys m) := by
  induction ks with
  | nil => intro m h1 h2; simp [removeAll]; exact ⟨h1, h2⟩
  | cons k ks ih =>
    intro m h1 h2
    unfold removeAll
    cases hl : alookup k m with
    | none => simp only; exact ih m h1 h2
    | some v =>
      simp only
      obtain ⟨a1, a2, a3, a4, a5⟩ := ih (aerase k m) (nodupKeys_aerase k m h1) (nonnegVals_aerase k m h2)
      have hv : 0 ≤ v := h2 (k, v) (alookup_mem k m v hl)
      have he := depositsOf_aerase k m v h1 hl
      refine ⟨by omega, a2, a3, by omega, ?_⟩
      intro x hx
      exact (keys_aerase_subset k m x (a5 x hx)).1

theorem nodupKeys_append (a b : List (Nat × Int)) (ha : NodupKeys a) (hb : NodupKeys b)
    (hd : ∀ p ∈ b, alookup p.1 a = none) : NodupKeys (a ++ b) := by
  unfold NodupKeys keys at *
  rw [List.map_append, List.nodup_append]
  refine ⟨ha, hb, ?_⟩
  intro x hx y hy hxy
  subst hxy
  simp only [List.mem_map] at hx hy
  obtain ⟨p, hp, rfl⟩ := hx
  obtain ⟨q, hq, hqp⟩ := hy
  have := hd q hq
  rw [hqp] at this
  obtain ⟨k, v⟩ := p
  have hm : alookup k a = none := this
  -- (k, v) ∈ a contradicts alookup k a = none
  clear this hd hb hq hqp
  induction a with
  | nil => simp at hp
  | cons h t ih =>
    obtain ⟨k', v'⟩ := h
    by_cases hk : k' = k
    · simp [alookup, hk] at hm
    · simp only [alookup, hk, if_false] at hm
      cases hp with
      | head => exact hk rfl
      | tail _ hp =>
        simp only [List.map_cons, List.nodup_cons] at ha
        exact ih ha.2 hp hm

end BA.MinerLedger
