/-
  Lemmas about the duplicate-free-list sets of BA/Model/NatSet.lean: membership, `Nodup`,
  and sums over sets (`sumBy`), the tools for "memo = Σ over the abstract set".
-/
import BA.Model.NatSet

namespace BA
open NatSet

/-! ### sums -/

@[simp] theorem sumBy_nil {α : Type} (f : α → Int) : sumBy f [] = 0 := rfl
@[simp] theorem sumBy_cons {α : Type} (f : α → Int) (x : α) (t : List α) :
    sumBy f (x :: t) = f x + sumBy f t := rfl

theorem sumBy_append {α : Type} (f : α → Int) (a b : List α) :
    sumBy f (a ++ b) = sumBy f a + sumBy f b := by
  induction a with
  | nil => simp
  | cons x t ih => simp [ih]; omega

theorem sumBy_perm {α : Type} (f : α → Int) {a b : List α} (h : a.Perm b) :
    sumBy f a = sumBy f b := by
  induction h with
  | nil => rfl
  | cons x _ ih => simp [ih]
  | swap x y l => simp; omega
  | trans _ _ ih1 ih2 => rw [ih1, ih2]

/-- two duplicate-free lists with the same members have the same sum -/
theorem sumBy_congr_mem {α : Type} [DecidableEq α] (f : α → Int) {a b : List α}
    (ha : a.Nodup) (hb : b.Nodup) (h : ∀ x, x ∈ a ↔ x ∈ b) : sumBy f a = sumBy f b :=
  sumBy_perm f ((List.perm_ext_iff_of_nodup ha hb).mpr h)

theorem sumBy_filter_split {α : Type} (f : α → Int) (p : α → Bool) (l : List α) :
    sumBy f l = sumBy f (l.filter p) + sumBy f (l.filter (fun x => !p x)) := by
  induction l with
  | nil => simp
  | cons x t ih =>
    by_cases hp : p x <;> simp [hp, ih] <;> omega

theorem sumBy_congr_fun {α : Type} (f g : α → Int) (l : List α) (h : ∀ x ∈ l, f x = g x) :
    sumBy f l = sumBy g l := by
  induction l with
  | nil => rfl
  | cons x t ih =>
    simp only [sumBy_cons]
    rw [h x (by simp), ih (fun y hy => h y (by simp [hy]))]

theorem sumBy_map {α β : Type} (f : β → Int) (g : α → β) (l : List α) :
    sumBy f (l.map g) = sumBy (fun x => f (g x)) l := by
  induction l with
  | nil => rfl
  | cons x t ih => simp [ih]

theorem sumBy_add {α : Type} (f g : α → Int) (l : List α) :
    sumBy (fun x => f x + g x) l = sumBy f l + sumBy g l := by
  induction l with
  | nil => rfl
  | cons x t ih => simp [ih]; omega

theorem sumBy_zero {α : Type} (l : List α) : sumBy (fun _ => (0 : Int)) l = 0 := by
  induction l with
  | nil => rfl
  | cons x t ih => simp [ih]

theorem sumBy_nonneg {α : Type} (f : α → Int) (l : List α) (h : ∀ x ∈ l, 0 ≤ f x) :
    0 ≤ sumBy f l := by
  induction l with
  | nil => simp
  | cons x t ih =>
    have h1 := h x (by simp)
    have h2 := ih (fun y hy => h y (by simp [hy]))
    simp; omega

namespace NatSet

/-! ### membership -/

@[simp] theorem mem_inter {a b : NatSet} {x : Nat} : x ∈ inter a b ↔ x ∈ a ∧ x ∈ b := by
  simp [inter, List.mem_filter]

@[simp] theorem mem_diff {a b : NatSet} {x : Nat} : x ∈ diff a b ↔ x ∈ a ∧ x ∉ b := by
  simp [diff, List.mem_filter]

@[simp] theorem mem_union {a b : NatSet} {x : Nat} : x ∈ union a b ↔ x ∈ a ∨ x ∈ b := by
  simp only [union, List.mem_append, mem_diff]
  constructor
  · rintro (h | ⟨h, _⟩)
    · exact Or.inl h
    · exact Or.inr h
  · rintro (h | h)
    · exact Or.inl h
    · by_cases hx : x ∈ a
      · exact Or.inl hx
      · exact Or.inr ⟨h, hx⟩

@[simp] theorem containsAll_iff {a b : NatSet} : containsAll a b = true ↔ ∀ x ∈ b, x ∈ a := by
  simp [containsAll, List.all_eq_true]

@[simp] theorem containsAny_iff {a b : NatSet} : containsAny a b = true ↔ ∃ x ∈ b, x ∈ a := by
  simp [containsAny, List.any_eq_true]

theorem containsAny_false_iff {a b : NatSet} : containsAny a b = false ↔ ∀ x ∈ b, x ∉ a := by
  rw [← Bool.not_eq_true, containsAny_iff]
  simp

@[simp] theorem mem_ofList {l : List Nat} {x : Nat} : x ∈ ofList l ↔ x ∈ l := by
  induction l with
  | nil => simp [ofList]
  | cons y t ih =>
    simp only [ofList]
    by_cases hy : y ∈ t
    · simp only [hy, if_true, ih, List.mem_cons]
      constructor
      · exact Or.inr
      · rintro (h | h)
        · subst h; exact hy
        · exact h
    · simp [hy, ih]

theorem isEmpty_iff {a : List Nat} : a.isEmpty = true ↔ ∀ x, x ∉ a := by
  cases a with
  | nil => simp
  | cons x t =>
    simp only [List.isEmpty_cons, Bool.false_eq_true, false_iff]
    intro h; exact h x (by simp)

/-! ### Nodup -/

theorem nodup_inter {a b : NatSet} (h : a.Nodup) : (inter a b).Nodup := List.Pairwise.filter _ h
theorem nodup_diff {a b : NatSet} (h : a.Nodup) : (diff a b).Nodup := List.Pairwise.filter _ h

theorem nodup_union {a b : NatSet} (ha : a.Nodup) (hb : b.Nodup) : (union a b).Nodup := by
  unfold union
  rw [List.nodup_append]
  refine ⟨ha, nodup_diff hb, ?_⟩
  intro x hx y hy
  rw [mem_diff] at hy
  intro e; subst e; exact hy.2 hx

theorem nodup_ofList (l : List Nat) : (ofList l).Nodup := by
  induction l with
  | nil => simp [ofList]
  | cons y t ih =>
    simp only [ofList]
    by_cases hy : y ∈ t
    · simp [hy, ih]
    · simp only [hy, if_false, List.nodup_cons]
      exact ⟨by rw [mem_ofList]; exact hy, ih⟩

theorem ofList_eq_self {l : List Nat} (h : l.Nodup) : ofList l = l := by
  induction l with
  | nil => rfl
  | cons y t ih =>
    rw [List.nodup_cons] at h
    simp [ofList, h.1, ih h.2]

/-! ### sums over set expressions -/

theorem sum_union (f : Nat → Int) (a b : NatSet) :
    sumBy f (union a b) = sumBy f a + sumBy f (diff b a) := by
  simp [union, sumBy_append]

/-- Σ over `a ∪ b` for disjoint duplicate-free sets -/
theorem sum_union_disjoint (f : Nat → Int) {a b : NatSet} (h : ∀ x ∈ b, x ∉ a) :
    sumBy f (union a b) = sumBy f a + sumBy f b := by
  rw [sum_union]
  have : diff b a = b := by
    unfold diff
    rw [List.filter_eq_self]
    intro x hx
    simp [h x hx]
  rw [this]

/-- Σ over `a` splits along any `b` -/
theorem sum_split (f : Nat → Int) (a b : NatSet) :
    sumBy f a = sumBy f (inter a b) + sumBy f (diff a b) := by
  unfold inter diff
  exact sumBy_filter_split f _ a

/-- Σ over `a ∖ b` when `b ⊆ a` -/
theorem sum_diff_subset (f : Nat → Int) {a b : NatSet} (ha : a.Nodup) (hb : b.Nodup)
    (h : ∀ x ∈ b, x ∈ a) : sumBy f (diff a b) = sumBy f a - sumBy f b := by
  have h1 := sum_split f a b
  have h2 : sumBy f (inter a b) = sumBy f b := by
    apply sumBy_congr_mem f (nodup_inter ha) hb
    intro x
    rw [mem_inter]
    exact ⟨fun h' => h'.2, fun h' => ⟨h x h', h'⟩⟩
  omega

end NatSet
end BA
