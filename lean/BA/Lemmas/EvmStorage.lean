/-
  C19 helper lemmas: the simulation relation between the journaled-state spec and the
  flush/reload implementation model, and its preservation by every script.

  Idea: every `send` is preceded by a `flush`, so whenever an activation starts, the *persisted*
  states of all contracts agree with the spec world (`Agree`); suspended callers hold stale caches
  that are never read before the `reload`.  Inside an activation the cache is authoritative for its
  own contract (`RelAct`).
-/
import BA.Model.Evm.Storage

namespace BA.Evm.Storage
open BA

/-! ### maps -/

theorem get_setv_same (m : Map) (k v : Nat) : get (setv m k v).1 k = v := by
  unfold setv get
  by_cases hv : v = 0
  · simp [hv, alookup_aerase_same]
  · simp [hv, alookup_aset_same]

theorem get_setv_other (m : Map) (k k' v : Nat) (h : k' ≠ k) : get (setv m k v).1 k' = get m k' := by
  unfold setv get
  by_cases hv : v = 0
  · simp [hv, alookup_aerase_other _ _ _ h]
  · simp [hv, alookup_aset_other _ _ _ _ h]

theorem get_setv (m : Map) (k k' v : Nat) :
    get (setv m k v).1 k' = if k' = k then v else get m k' := by
  by_cases h : k' = k
  · subst h; simp [get_setv_same]
  · simp [h, get_setv_other _ _ _ _ h]

/-- if `set_storage` reports "unchanged" the slot already held the value -/
theorem setv_unchanged (m : Map) (k v : Nat) (h : (setv m k v).2 = false) : get m k = v := by
  unfold setv at h
  unfold get
  by_cases hv : v = 0
  · simp [hv] at h
    simp [h, hv]
  · simp [hv] at h
    simp [h]

theorem get_nil (k : Nat) : get [] k = 0 := rfl

theorem transfer_zero (bal : Nat → Nat) (s t : Nat) : transfer bal s t 0 = bal := by
  funext a
  unfold transfer
  by_cases h1 : a = s <;> by_cases h2 : a = t <;> simp [h1, h2]

/-! ### the relation -/

/-- every lifespan stored in a state-tree entry satisfies `P` -/
structure LifeOk (P : Life → Prop) (st : PState) : Prop where
  tomb : ∀ t, st.tomb = some t → P t
  tdata : ∀ m l, st.tdata = some (m, l) → P l

/-- the persisted state `st` of contract `a` shows exactly the spec world's view of `a` -/
structure AgreeAt (cur : Life) (w : SWorld) (st : PState) (a : Nat) : Prop where
  dead : w.dead a = isDead cur st
  deadStor : isDead cur st = true → ∀ k, w.stor a k = 0
  stor : isDead cur st = false → ∀ k, w.stor a k = get st.slots k
  trans : isDead cur st = false → ∀ k, w.trans a k = get (tview cur st.tdata) k
  doomed : isDead cur st = false → w.doomed a = decide (st.tomb = some cur)

theorem AgreeAt.congr {cur : Life} {w w' : SWorld} {st : PState} {a : Nat} (h : AgreeAt cur w st a)
    (h1 : w'.dead a = w.dead a) (h2 : ∀ k, w'.stor a k = w.stor a k)
    (h3 : ∀ k, w'.trans a k = w.trans a k) (h4 : w'.doomed a = w.doomed a) :
    AgreeAt cur w' st a :=
  ⟨by rw [h1]; exact h.dead, fun hd k => by rw [h2]; exact h.deadStor hd k,
   fun hd k => by rw [h2]; exact h.stor hd k, fun hd k => by rw [h3]; exact h.trans hd k,
   fun hd => by rw [h4]; exact h.doomed hd⟩

/-- VM-level data are the same in both layers -/
structure Common (P : Life → Prop) (w : SWorld) (vm : VM) : Prop where
  bal : w.bal = vm.bal
  logs : w.logs = vm.events
  life : ∀ a, LifeOk P (vm.actors a)

/-- at an activation boundary: persisted state = spec world, for every contract -/
structure Agree (P : Life → Prop) (cur : Life) (w : SWorld) (vm : VM) : Prop where
  common : Common P w vm
  at_ : ∀ a, AgreeAt cur w (vm.actors a) a

/-- the cache of the running activation shows the spec world's view of its contract -/
structure AgreeSys (cur : Life) (w : SWorld) (sys : System) (me : Nat) : Prop where
  stor : ∀ k, w.stor me k = get sys.slots k
  trans : ∀ k, w.trans me k = get sys.tslots k
  doomed : w.doomed me = decide (sys.tomb = some cur)
  alive : w.dead me = false
  life : sys.life = cur
  tomb : sys.tomb = none ∨ sys.tomb = some cur

/-- inside an activation of `self`: the cache is authoritative for `self`, the persisted states for
    everybody else; a clean cache equals the persisted state; a dirty cache is never read-only -/
structure RelAct (P : Life → Prop) (cur : Life) (w : SWorld) (vm : VM) (sys : System) (me : Nat) :
    Prop where
  common : Common P w vm
  others : ∀ a, a ≠ me → AgreeAt cur w (vm.actors a) a
  cache : AgreeSys cur w sys me
  clean : ∀ r, sys.saved = some r → vm.actors me = r ∧ AgreeAt cur w r me
  dirty : sys.saved = none → sys.readonly = false

theorem tview_toState (sys : System) (k : Nat) :
    get (tview sys.life sys.toState.tdata) k = get sys.tslots k := by
  unfold System.toState tview
  cases h : sys.tslots with
  | nil => simp [get_nil]
  | cons x xs => simp

theorem isDead_false_of_tomb {cur : Life} {st : PState} (h : st.tomb = none ∨ st.tomb = some cur) :
    isDead cur st = false := by
  unfold isDead
  rcases h with h | h <;> simp [h]

theorem tomb_of_isDead_false {cur : Life} {st : PState} (h : isDead cur st = false) :
    st.tomb = none ∨ st.tomb = some cur := by
  unfold isDead at h
  cases ht : st.tomb with
  | none => exact Or.inl rfl
  | some t => simp [ht] at h; exact Or.inr (by rw [h])

/-- the state written by `flush` shows the cache -/
theorem agreeAt_toState {cur : Life} {w : SWorld} {sys : System} {self : Nat}
    (h : AgreeSys cur w sys self) : AgreeAt cur w sys.toState self := by
  have hd : isDead cur sys.toState = false := isDead_false_of_tomb (by simpa [System.toState] using h.tomb)
  refine ⟨by rw [hd]; exact h.alive, fun hx => (by rw [hd] at hx; cases hx), fun _ k => ?_, fun _ k => ?_, fun _ => ?_⟩
  · simpa [System.toState] using h.stor k
  · rw [← h.life, tview_toState]; exact h.trans k
  · simpa [System.toState] using h.doomed

theorem lifeOk_toState {P : Life → Prop} {cur : Life} {w : SWorld} {sys : System} {self : Nat}
    (hP : P cur) (h : AgreeSys cur w sys self) : LifeOk P sys.toState := by
  constructor
  · intro t ht
    rcases h.tomb with h1 | h1 <;> simp [System.toState, h1] at ht
    subst ht; exact hP
  · intro m l hl
    simp only [System.toState] at hl
    by_cases he : sys.tslots.isEmpty
    · simp [he] at hl
    · simp [he] at hl
      rw [← hl.2, h.life]; exact hP

/-- `flush` succeeds, makes persisted = cache for `self`, and is the identity on a clean cache -/
theorem flush_rel {P : Life → Prop} {cur : Life} {w : SWorld} {vm : VM} {sys : System} {self : Nat}
    (hP : P cur) (h : RelAct P cur w vm sys self) :
    ∃ sys' vm', flush sys vm self = .ok (sys', vm') ∧ Agree P cur w vm' ∧ RelAct P cur w vm' sys' self ∧
      sys'.readonly = sys.readonly ∧ sys'.saved = some (vm'.actors self) ∧
      (sys.readonly = true → sys' = sys ∧ vm' = vm) := by
  unfold flush
  cases hs : sys.saved with
  | some r =>
    obtain ⟨hr, hag⟩ := h.clean r hs
    refine ⟨sys, vm, by simp, ⟨h.common, fun a => ?_⟩, h, rfl, by rw [hs, hr], fun _ => ⟨rfl, rfl⟩⟩
    by_cases ha : a = self
    · subst ha; rw [hr]; exact hag
    · exact h.others a ha
  | none =>
    have hro : sys.readonly = false := h.dirty hs
    have hag : AgreeAt cur w sys.toState self := agreeAt_toState h.cache
    have hact : ∀ a, AgreeAt cur w ((vm.setActor self sys.toState).actors a) a := by
      intro a
      by_cases ha : a = self
      · subst ha; simpa [VM.setActor] using hag
      · simpa [VM.setActor, ha] using h.others a ha
    have hcom : Common P w (vm.setActor self sys.toState) := by
      refine ⟨h.common.bal, h.common.logs, fun a => ?_⟩
      by_cases ha : a = self
      · subst ha; simpa [VM.setActor] using lifeOk_toState hP h.cache
      · simpa [VM.setActor, ha] using h.common.life a
    refine ⟨{ sys with saved := some sys.toState }, vm.setActor self sys.toState, by simp [hro],
      ⟨hcom, hact⟩, ⟨hcom, fun a _ => hact a, ?_, ?_, ?_⟩, rfl, by simp [VM.setActor], ?_⟩
    · exact ⟨h.cache.stor, h.cache.trans, h.cache.doomed, h.cache.alive, h.cache.life, h.cache.tomb⟩
    · intro r hr
      simp only [Option.some.injEq] at hr
      subst hr
      exact ⟨by simp [VM.setActor], hag⟩
    · intro hx; simp at hx
    · intro hx; rw [hro] at hx; cases hx

/-- `System::load` of a live contract starts an activation in relation -/
theorem load_rel {P : Life → Prop} {cur : Life} {w : SWorld} {vm : VM} {t : Nat} (ro : Bool)
    (h : Agree P cur w vm) (hd : isDead cur (vm.actors t) = false) :
    RelAct P cur w vm (load cur ro (vm.actors t)) t := by
  have ha := h.at_ t
  refine ⟨h.common, fun a _ => h.at_ a, ?_, ?_, ?_⟩
  · exact ⟨ha.stor hd, ha.trans hd, ha.doomed hd, by rw [ha.dead, hd], rfl, tomb_of_isDead_false hd⟩
  · intro r hr
    simp only [load, Option.some.injEq] at hr
    subst hr
    exact ⟨rfl, ha⟩
  · intro hx; simp [load] at hx

/-- a clean cache that still names the current root is left alone by `reload` -/
theorem reload_clean {sys : System} {vm : VM} {self : Nat} (h : sys.saved = some (vm.actors self)) :
    reload sys vm self = sys := by
  unfold reload
  by_cases hro : sys.readonly = true
  · simp [hro]
  · simp [hro, h]

/-- `reload` after a successful send: the cache shows the new persisted state (which agrees with
    the spec world after the callee returned) -/
theorem reload_rel {P : Life → Prop} {cur : Life} {w w' : SWorld} {vm vm' : VM} {sys : System}
    {self : Nat} (h0 : RelAct P cur w vm sys self) (hs : sys.saved = some (vm.actors self))
    (h : Agree P cur w' vm') (hdead : w'.dead = w.dead) (hro : sys.readonly = false) :
    RelAct P cur w' vm' (reload sys vm' self) self := by
  have hal : w'.dead self = false := by rw [hdead]; exact h0.cache.alive
  have ha := h.at_ self
  have hd : isDead cur (vm'.actors self) = false := by rw [← ha.dead]; exact hal
  unfold reload
  simp only [hro, Bool.false_eq_true, if_false]
  by_cases hsk : sys.saved = some (vm'.actors self)
  · -- root unchanged: nothing is reloaded; the cache equals that root's content
    simp only [hsk, if_true]
    have hroot : vm'.actors self = vm.actors self := by
      rw [hs] at hsk; simpa using hsk.symm
    obtain ⟨_, hag0⟩ := h0.clean _ hs
    have hd0 : isDead cur (vm.actors self) = false := by rw [← hroot]; exact hd
    refine ⟨h.common, fun a _ => h.at_ a, ?_, ?_, fun hx => by rw [hsk] at hx; cases hx⟩
    · refine ⟨fun k => ?_, fun k => ?_, ?_, hal, h0.cache.life, h0.cache.tomb⟩
      · rw [ha.stor hd k, hroot, ← hag0.stor hd0 k]; exact h0.cache.stor k
      · rw [ha.trans hd k, hroot, ← hag0.trans hd0 k]; exact h0.cache.trans k
      · rw [ha.doomed hd, hroot, ← hag0.doomed hd0]; exact h0.cache.doomed
    · intro r hr
      rw [hsk] at hr
      simp only [Option.some.injEq] at hr
      subst hr
      exact ⟨rfl, ha⟩
  · simp only [hsk, if_false]
    refine ⟨h.common, fun a _ => h.at_ a, ?_, ?_, fun hx => by simp at hx⟩
    · refine ⟨ha.stor hd, ?_, ha.doomed hd, hal, h0.cache.life, tomb_of_isDead_false hd⟩
      intro k
      simpa [h0.cache.life] using ha.trans hd k
    · intro r hr
      simp only [Option.some.injEq] at hr
      subst hr
      exact ⟨rfl, ha⟩

/-! ### what a script segment guarantees -/

/-- after a segment of an activation that continues (or returns): still in relation, static mode
    unchanged, nobody died, and a read-only activation changed nothing at all -/
structure Post (P : Life → Prop) (cur : Life) (ctx : Ctx) (w : SWorld) (vm : VM) (sys : System)
    (w' : SWorld) (vm' : VM) (sys' : System) : Prop where
  rel : RelAct P cur w' vm' sys' ctx.self
  ro : sys'.readonly = ctx.readonly
  dead : w'.dead = w.dead
  frozen : ctx.readonly = true → w' = w ∧ vm' = vm ∧ sys' = sys

theorem Post.refl {P : Life → Prop} {cur : Life} {ctx : Ctx} {w : SWorld} {vm : VM} {sys : System}
    (h : RelAct P cur w vm sys ctx.self) (hro : sys.readonly = ctx.readonly) :
    Post P cur ctx w vm sys w vm sys :=
  ⟨h, hro, rfl, fun _ => ⟨rfl, rfl, rfl⟩⟩

theorem Post.trans {P : Life → Prop} {cur : Life} {ctx : Ctx} {w w1 w2 : SWorld} {vm vm1 vm2 : VM}
    {sys sys1 sys2 : System} (h1 : Post P cur ctx w vm sys w1 vm1 sys1)
    (h2 : Post P cur ctx w1 vm1 sys1 w2 vm2 sys2) : Post P cur ctx w vm sys w2 vm2 sys2 :=
  ⟨h2.rel, h2.ro, by rw [h2.dead, h1.dead], fun hr => by
    obtain ⟨a, b, c⟩ := h1.frozen hr
    obtain ⟨a', b', c'⟩ := h2.frozen hr
    exact ⟨by rw [a', a], by rw [b', b], by rw [c', c]⟩⟩

/-- the two layers produced the same result and are in relation wherever execution goes on -/
def MatchRes (P : Life → Prop) (cur : Life) (ctx : Ctx) (w : SWorld) (vm : VM) (sys : System) :
    SRes → IRes → Prop
  | .cont w' l, .cont sys' vm' l' => l = l' ∧ Post P cur ctx w vm sys w' vm' sys'
  | .stop o w', .stop o' sys' vm' => o = o' ∧ (∀ l, o = .ret l → Post P cur ctx w vm sys w' vm' sys')
  | _, _ => False

theorem MatchRes.trans {P : Life → Prop} {cur : Life} {ctx : Ctx} {w w1 : SWorld} {vm vm1 : VM}
    {sys sys1 : System} {R : SRes} {S : IRes} (h1 : Post P cur ctx w vm sys w1 vm1 sys1)
    (h2 : MatchRes P cur ctx w1 vm1 sys1 R S) : MatchRes P cur ctx w vm sys R S := by
  cases R <;> cases S <;> simp only [MatchRes] at h2 ⊢
  · exact ⟨h2.1, h1.trans h2.2⟩
  · exact ⟨h2.1, fun l hl => h1.trans (h2.2 l hl)⟩

/-- after a whole activation that returned: persisted states agree with the spec world -/
structure PostAct (P : Life → Prop) (cur : Life) (ro : Bool) (w : SWorld) (vm : VM)
    (w' : SWorld) (vm' : VM) : Prop where
  agree : Agree P cur w' vm'
  dead : w'.dead = w.dead
  frozen : ro = true → w' = w ∧ vm' = vm

def MatchAct (P : Life → Prop) (cur : Life) (ro : Bool) (w : SWorld) (vm : VM)
    (s : Outcome × SWorld) (i : Outcome × VM) : Prop :=
  s.1 = i.1 ∧ ∀ l, s.1 = .ret l → PostAct P cur ro w vm s.2 i.2

/-- the final flush of `invoke_contract_inner` cannot fail and publishes the cache -/
theorem finish_match {P : Life → Prop} {cur : Life} {ctx : Ctx} {w : SWorld} {vm : VM} {sys : System}
    {R : SRes} {S : IRes} (hP : P cur) (h : MatchRes P cur ctx w vm sys R S) :
    MatchAct P cur ctx.readonly w vm R.finish (implFinish ctx.self S) := by
  have key : ∀ (w' : SWorld) (vm' : VM) (sys' : System) (l : List Nat),
      Post P cur ctx w vm sys w' vm' sys' →
      ∃ sys'' vm'', flush sys' vm' ctx.self = .ok (sys'', vm'') ∧
        MatchAct P cur ctx.readonly w vm (Outcome.ret l, w') (Outcome.ret l, vm'') := by
    intro w' vm' sys' l hp
    obtain ⟨sys'', vm'', hf, hag, _, _, _, hfro⟩ := flush_rel hP hp.rel
    refine ⟨sys'', vm'', hf, rfl, fun _ _ => ⟨hag, hp.dead, fun hr => ?_⟩⟩
    obtain ⟨a, b, _⟩ := hp.frozen hr
    have := hfro (by rw [hp.ro]; exact hr)
    exact ⟨a, by rw [this.2, b]⟩
  cases R with
  | cont w' l =>
    cases S with
    | cont sys' vm' l' =>
      simp only [MatchRes] at h
      obtain ⟨hl, hp⟩ := h
      subst hl
      obtain ⟨_, _, hf, hm⟩ := key w' vm' sys' l hp
      simp only [SRes.finish, implFinish, hf]
      exact hm
    | stop o sys' vm' => simp [MatchRes] at h
  | stop o w' =>
    cases S with
    | cont sys' vm' l' => simp [MatchRes] at h
    | stop o' sys' vm' =>
      simp only [MatchRes] at h
      obtain ⟨ho, hp⟩ := h
      subst ho
      cases o with
      | ret l =>
        obtain ⟨_, _, hf, hm⟩ := key w' vm' sys' l (hp l rfl)
        simp only [SRes.finish, implFinish, hf]
        exact hm
      | revert l => exact ⟨rfl, fun l' hl => by simp [SRes.finish] at hl⟩
      | fail => exact ⟨rfl, fun l' hl => by simp [SRes.finish] at hl⟩

/-- back in the caller after the callee ran from `(wc, vmc)` (= the flushed state plus the value
    transfer): on success reload, otherwise both layers are back at the flushed state -/
theorem resume_match {P : Life → Prop} {cur : Life} {ctx : Ctx} {w wc : SWorld} {vm1 vmc : VM}
    {sys1 : System} {roc : Bool} {log : List Nat} {s : Outcome × SWorld} {i : Outcome × VM}
    (h1 : RelAct P cur w vm1 sys1 ctx.self) (hs : sys1.saved = some (vm1.actors ctx.self))
    (hro : sys1.readonly = ctx.readonly) (hdead : wc.dead = w.dead)
    (hfr : ctx.readonly = true → roc = true ∧ wc = w ∧ vmc = vm1)
    (h : MatchAct P cur roc wc vmc s i) :
    MatchRes P cur ctx w vm1 sys1 (specResume w log s) (implResume sys1 vm1 ctx.self log i) := by
  obtain ⟨o, w'⟩ := s
  obtain ⟨o', vm'⟩ := i
  obtain ⟨ho, hp⟩ := h
  simp only at ho hp
  subst ho
  cases o with
  | ret l =>
    have hp := hp l rfl
    simp only [specResume, implResume, MatchRes, true_and]
    by_cases hr : ctx.readonly = true
    · obtain ⟨hroc, hwc, hvmc⟩ := hfr hr
      obtain ⟨a, b⟩ := hp.frozen hroc
      have hrl : reload sys1 vm' ctx.self = sys1 := by
        unfold reload; simp [hro, hr]
      rw [hrl, a, b, hwc, hvmc]
      exact Post.refl h1 hro
    · have hro' : sys1.readonly = false := by rw [hro]; simpa using hr
      have hd : w'.dead = w.dead := by rw [hp.dead, hdead]
      refine ⟨reload_rel h1 hs hp.agree hd hro', ?_, hd, fun hx => absurd hx hr⟩
      unfold reload
      simp only [hro', Bool.false_eq_true, if_false]
      split <;> simp [hro]
      all_goals (rw [← hro]; exact hro')
  | revert l =>
    simp only [specResume, implResume, MatchRes, true_and]
    exact Post.refl h1 hro
  | fail =>
    simp only [specResume, implResume, MatchRes, true_and]
    exact Post.refl h1 hro

/-! ### single instructions -/

section ops
variable {P : Life → Prop} {cur : Life} {ctx : Ctx} {w : SWorld} {vm : VM} {sys : System}

theorem sstore_refine (k v : Nat) (log : List Nat) (h : RelAct P cur w vm sys ctx.self)
    (hro : sys.readonly = ctx.readonly) :
    MatchRes P cur ctx w vm sys (specOp ctx w log (.sstore k v)) (implOp cur ctx sys vm log (.sstore k v)) := by
  simp only [specOp, implOp, hro]
  by_cases hr : ctx.readonly = true
  · simp [hr, MatchRes]
  · have hrf : sys.readonly = false := by rw [hro]; simpa using hr
    simp only [hr, Bool.false_eq_true, if_false, MatchRes, true_and]
    have hget : ∀ k', get (sys.setStorage k v).slots k' = if k' = k then v else get sys.slots k' := by
      intro k'; simp [System.setStorage, get_setv]
    have hw : ∀ a k', (w.setStor ctx.self k v).stor a k' = if a = ctx.self ∧ k' = k then v else w.stor a k' := by
      intro a k'; rfl
    refine ⟨⟨⟨h.common.bal, h.common.logs, h.common.life⟩, fun a ha => (h.others a ha).congr rfl (fun k' => ?_) (fun _ => rfl) rfl, ?_, ?_, ?_⟩,
      by simpa [System.setStorage] using hro, rfl, fun hx => absurd hx hr⟩
    · rw [hw]; simp [ha]
    · refine ⟨fun k' => ?_, h.cache.trans, h.cache.doomed, h.cache.alive, h.cache.life, h.cache.tomb⟩
      rw [hw, hget]
      by_cases hk : k' = k <;> simp [hk, h.cache.stor]
    · intro r hr'
      have hch : (setv sys.slots k v).2 = false := by
        cases hc : (setv sys.slots k v).2 with
        | false => rfl
        | true => simp [System.setStorage, hc] at hr'
      have hsv : sys.saved = some r := by simpa [System.setStorage, hch] using hr'
      obtain ⟨e1, e2⟩ := h.clean r hsv
      refine ⟨e1, e2.congr rfl (fun k' => ?_) (fun _ => rfl) rfl⟩
      rw [hw]
      by_cases hk : k' = k
      · subst hk
        simp only [and_self, if_true]
        rw [h.cache.stor k', setv_unchanged _ _ _ hch]
      · simp [hk]
    · intro _; simpa [System.setStorage] using hrf

theorem tstore_refine (k v : Nat) (log : List Nat) (h : RelAct P cur w vm sys ctx.self)
    (hro : sys.readonly = ctx.readonly) :
    MatchRes P cur ctx w vm sys (specOp ctx w log (.tstore k v)) (implOp cur ctx sys vm log (.tstore k v)) := by
  simp only [specOp, implOp, hro]
  by_cases hr : ctx.readonly = true
  · simp [hr, MatchRes]
  · have hrf : sys.readonly = false := by rw [hro]; simpa using hr
    simp only [hr, Bool.false_eq_true, if_false, MatchRes, true_and]
    have hget : ∀ k', get (sys.setTransient k v).tslots k' = if k' = k then v else get sys.tslots k' := by
      intro k'; simp [System.setTransient, get_setv]
    have hw : ∀ a k', (w.setTrans ctx.self k v).trans a k' = if a = ctx.self ∧ k' = k then v else w.trans a k' := by
      intro a k'; rfl
    refine ⟨⟨⟨h.common.bal, h.common.logs, h.common.life⟩, fun a ha => (h.others a ha).congr rfl (fun _ => rfl) (fun k' => ?_) rfl, ?_, ?_, ?_⟩,
      by simpa [System.setTransient] using hro, rfl, fun hx => absurd hx hr⟩
    · rw [hw]; simp [ha]
    · refine ⟨h.cache.stor, fun k' => ?_, h.cache.doomed, h.cache.alive, h.cache.life, h.cache.tomb⟩
      rw [hw, hget]
      by_cases hk : k' = k <;> simp [hk, h.cache.trans]
    · intro r hr'
      have hch : (setv sys.tslots k v).2 = false := by
        cases hc : (setv sys.tslots k v).2 with
        | false => rfl
        | true => simp [System.setTransient, hc] at hr'
      have hsv : sys.saved = some r := by simpa [System.setTransient, hch] using hr'
      obtain ⟨e1, e2⟩ := h.clean r hsv
      refine ⟨e1, e2.congr rfl (fun _ => rfl) (fun k' => ?_) rfl⟩
      rw [hw]
      by_cases hk : k' = k
      · subst hk
        simp only [and_self, if_true]
        rw [h.cache.trans k', setv_unchanged _ _ _ hch]
      · simp [hk]
    · intro _; simpa [System.setTransient] using hrf

theorem log_refine (t : Nat) (log : List Nat) (h : RelAct P cur w vm sys ctx.self)
    (hro : sys.readonly = ctx.readonly) :
    MatchRes P cur ctx w vm sys (specOp ctx w log (.log t)) (implOp cur ctx sys vm log (.log t)) := by
  simp only [specOp, implOp, hro]
  by_cases hr : ctx.readonly = true
  · simp [hr, MatchRes]
  · simp only [hr, Bool.false_eq_true, if_false, MatchRes, true_and]
    refine ⟨⟨⟨h.common.bal, ?_, h.common.life⟩, fun a ha => (h.others a ha).congr rfl (fun _ => rfl) (fun _ => rfl) rfl,
      ⟨h.cache.stor, h.cache.trans, h.cache.doomed, h.cache.alive, h.cache.life, h.cache.tomb⟩,
      fun r hr' => ?_, h.dirty⟩, hro, rfl, fun hx => absurd hx hr⟩
    · simp [h.common.logs]
    · obtain ⟨e1, e2⟩ := h.clean r hr'
      exact ⟨e1, e2.congr rfl (fun _ => rfl) (fun _ => rfl) rfl⟩

theorem selfdestruct_refine (b : Nat) (log : List Nat) (h : RelAct P cur w vm sys ctx.self)
    (hro : sys.readonly = ctx.readonly) :
    MatchRes P cur ctx w vm sys (specOp ctx w log (.selfdestruct b))
      (implOp cur ctx sys vm log (.selfdestruct b)) := by
  simp only [specOp, implOp, hro]
  by_cases hr : ctx.readonly = true
  · simp [hr, MatchRes]
  · have hrf : sys.readonly = false := by rw [hro]; simpa using hr
    simp only [hr, Bool.false_eq_true, if_false, MatchRes, true_and]
    intro l _
    refine ⟨⟨⟨?_, h.common.logs, h.common.life⟩, fun a ha => (h.others a ha).congr rfl (fun _ => rfl) (fun _ => rfl) ?_,
      ⟨h.cache.stor, h.cache.trans, ?_, h.cache.alive, h.cache.life, Or.inr rfl⟩,
      fun r hr' => by simp at hr', fun _ => rfl⟩, by simpa using hr, rfl, fun hx => absurd hx hr⟩
    · simp [h.common.bal]
    · simp [ha]
    · simp

theorem simple_refine (log : List Nat) (h : RelAct P cur w vm sys ctx.self)
    (hro : sys.readonly = ctx.readonly) :
    (∀ k, MatchRes P cur ctx w vm sys (specOp ctx w log (.sload k)) (implOp cur ctx sys vm log (.sload k))) ∧
    (∀ k, MatchRes P cur ctx w vm sys (specOp ctx w log (.tload k)) (implOp cur ctx sys vm log (.tload k))) ∧
    (∀ i, MatchRes P cur ctx w vm sys (specOp ctx w log (.env i)) (implOp cur ctx sys vm log (.env i))) ∧
    MatchRes P cur ctx w vm sys (specOp ctx w log .revert) (implOp cur ctx sys vm log .revert) := by
  refine ⟨fun k => ?_, fun k => ?_, fun i => ?_, ?_⟩
  · simp only [specOp, implOp, MatchRes]
    exact ⟨by rw [h.cache.stor k], Post.refl h hro⟩
  · simp only [specOp, implOp, MatchRes]
    exact ⟨by rw [h.cache.trans k], Post.refl h hro⟩
  · simp only [specOp, implOp, MatchRes]
    exact ⟨by rw [h.common.bal], Post.refl h hro⟩
  · simp only [specOp, implOp, MatchRes, true_and]
    intro l hl; cases hl

end ops

theorem agree_transfer {P : Life → Prop} {cur : Life} {w : SWorld} {vm : VM} (h : Agree P cur w vm)
    (s t v : Nat) :
    Agree P cur { w with bal := transfer w.bal s t v } { vm with bal := transfer vm.bal s t v } :=
  ⟨⟨by simp [h.common.bal], h.common.logs, h.common.life⟩,
   fun a => (h.at_ a).congr rfl (fun _ => rfl) (fun _ => rfl) rfl⟩

/-! ### the induction over the script -/

/-- the callee's activation, given the refinement of its script (`hrun`) -/
theorem activate_match {P : Life → Prop} {cur : Life} {cctx : Ctx} {w : SWorld} {vm : VM}
    {body : List Op} (hP : P cur) (h : Agree P cur w vm) (hd : w.dead cctx.self = false)
    (hrun : ∀ sys, RelAct P cur w vm sys cctx.self → sys.readonly = cctx.readonly →
      MatchRes P cur cctx w vm sys (specOps cctx w [] body) (implOps cur cctx sys vm [] body)) :
    MatchAct P cur cctx.readonly w vm (specOps cctx w [] body).finish
      (activate cur cctx.readonly cctx.self vm (fun s => implOps cur cctx s vm [] body)) := by
  have hdd : isDead cur (vm.actors cctx.self) = false := by rw [← (h.at_ cctx.self).dead]; exact hd
  unfold activate
  simp only [hdd, Bool.false_eq_true, if_false]
  exact finish_match hP (hrun _ (load_rel cctx.readonly h hdd) rfl)

mutual
theorem ops_refine {P : Life → Prop} {cur : Life} (hP : P cur) :
    ∀ (ops : List Op) (ctx : Ctx) (w : SWorld) (vm : VM) (sys : System) (log : List Nat),
      RelAct P cur w vm sys ctx.self → sys.readonly = ctx.readonly →
      MatchRes P cur ctx w vm sys (specOps ctx w log ops) (implOps cur ctx sys vm log ops)
  | [], ctx, w, vm, sys, log, h, hro => by
    simp only [specOps, implOps, MatchRes, true_and]
    exact Post.refl h hro
  | op :: rest, ctx, w, vm, sys, log, h, hro => by
    have h1 := op_refine hP op ctx w vm sys log h hro
    simp only [specOps, implOps]
    cases hs : specOp ctx w log op with
    | cont w' l' =>
      cases hi : implOp cur ctx sys vm log op with
      | cont sys' vm' l'' =>
        rw [hs, hi] at h1
        simp only [MatchRes] at h1
        obtain ⟨hl, hp⟩ := h1
        subst hl
        exact MatchRes.trans hp (ops_refine hP rest ctx w' vm' sys' l' hp.rel hp.ro)
      | stop o' sys' vm' => rw [hs, hi] at h1; simp [MatchRes] at h1
    | stop o w' =>
      cases hi : implOp cur ctx sys vm log op with
      | cont sys' vm' l'' => rw [hs, hi] at h1; simp [MatchRes] at h1
      | stop o' sys' vm' => rw [hs, hi] at h1; exact h1
theorem op_refine {P : Life → Prop} {cur : Life} (hP : P cur) :
    ∀ (op : Op) (ctx : Ctx) (w : SWorld) (vm : VM) (sys : System) (log : List Nat),
      RelAct P cur w vm sys ctx.self → sys.readonly = ctx.readonly →
      MatchRes P cur ctx w vm sys (specOp ctx w log op) (implOp cur ctx sys vm log op)
  | .sstore k v, ctx, w, vm, sys, log, h, hro => sstore_refine k v log h hro
  | .tstore k v, ctx, w, vm, sys, log, h, hro => tstore_refine k v log h hro
  | .sload k, ctx, w, vm, sys, log, h, hro => (simple_refine log h hro).1 k
  | .tload k, ctx, w, vm, sys, log, h, hro => (simple_refine log h hro).2.1 k
  | .env i, ctx, w, vm, sys, log, h, hro => (simple_refine log h hro).2.2.1 i
  | .revert, ctx, w, vm, sys, log, h, hro => (simple_refine log h hro).2.2.2
  | .log t, ctx, w, vm, sys, log, h, hro => log_refine t log h hro
  | .selfdestruct b, ctx, w, vm, sys, log, h, hro => selfdestruct_refine b log h hro
  | .call kind t value body, ctx, w, vm, sys, log, h, hro => by
    simp only [specOp, implOp, hro]
    by_cases hv : ctx.readonly = true ∧ 0 < callValue kind value
    · simp [hv, MatchRes]
    simp only [hv, if_false]
    -- the caller's flush
    obtain ⟨sys1, vm1, hf, hag1, hrel1, hro1, hs1, hfro⟩ := flush_rel hP h
    have hro1' : sys1.readonly = ctx.readonly := by rw [hro1, hro]
    have hpost1 : Post P cur ctx w vm sys w vm1 sys1 :=
      ⟨hrel1, hro1', rfl, fun hr => ⟨rfl, (hfro (by rw [hro]; exact hr)).2, (hfro (by rw [hro]; exact hr)).1⟩⟩
    by_cases hk : kind = Kind.delegate
    · -- DELEGATECALL: GetBytecode round trip, then the self-call
      simp only [hk, if_true, hf]
      have hrl : reload sys1 vm1 ctx.self = sys1 := reload_clean hs1
      rw [hrl]
      have hdt : isDead cur (vm1.actors t) = w.dead t := ((hag1.at_ t).dead).symm
      rw [hdt]
      by_cases hd : w.dead t = true
      · simp only [hd, if_true, MatchRes, true_and]
        exact hpost1
      · simp only [hd, Bool.false_eq_true, if_false]
        have hf2 : flush sys1 vm1 ctx.self = .ok (sys1, vm1) := by
          unfold flush; simp [hs1]
        rw [hf2]
        simp only []
        refine MatchRes.trans hpost1 ?_
        refine resume_match (roc := ctx.readonly) hrel1 hs1 hro1' rfl (fun hr => ⟨hr, rfl, rfl⟩) ?_
        have := activate_match (cctx := ctx) (body := body) hP hag1 h.cache.alive
          (fun s hs hr => ops_refine hP body ctx w vm1 s [] hs hr)
        exact this
    · -- CALL / STATICCALL
      simp only [hk, if_false, hf]
      rw [← hag1.common.bal]
      by_cases hb : w.bal ctx.self < callValue kind value
      · simp only [hb, if_true, MatchRes, true_and]
        exact hpost1
      · simp only [hb, if_false]
        have hdt : isDead cur (vm1.actors t) = w.dead t := ((hag1.at_ t).dead).symm
        have hag2 := agree_transfer hag1 ctx.self t (callValue kind value)
        rw [← hag1.common.bal] at hag2
        refine MatchRes.trans hpost1 ?_
        have hself : (calleeCtx ctx kind t (callValue kind value)).self = t := by
          cases kind <;> simp [calleeCtx] at hk ⊢
        have hcro : ctx.readonly = true → (calleeCtx ctx kind t (callValue kind value)).readonly = true := by
          intro hr; cases kind <;> simp [calleeCtx, hr] at hk ⊢
        have hfrz : ctx.readonly = true →
            (calleeCtx ctx kind t (callValue kind value)).readonly = true ∧
            ({ w with bal := transfer w.bal ctx.self t (callValue kind value) } : SWorld) = w ∧
            ({ vm1 with bal := transfer w.bal ctx.self t (callValue kind value) } : VM) = vm1 := by
          intro hr
          have hz : callValue kind value = 0 := by
            have : ¬ 0 < callValue kind value := fun hx => hv ⟨hr, hx⟩
            omega
          refine ⟨hcro hr, ?_, ?_⟩
          · rw [hz, transfer_zero]
          · rw [hz, transfer_zero, hag1.common.bal]
        by_cases hd : w.dead t = true
        · -- dead target: the value moves, nothing runs
          simp only [hd, if_true]
          have hact : activate cur (calleeCtx ctx kind t (callValue kind value)).readonly t
              { vm1 with bal := transfer w.bal ctx.self t (callValue kind value) }
              (fun s => implOps cur (calleeCtx ctx kind t (callValue kind value)) s
                { vm1 with bal := transfer w.bal ctx.self t (callValue kind value) } [] body)
              = (Outcome.ret [], { vm1 with bal := transfer w.bal ctx.self t (callValue kind value) }) := by
            unfold activate
            simp [hdt, hd]
          rw [hact]
          have := resume_match (log := log)
            (s := (Outcome.ret [], { w with bal := transfer w.bal ctx.self t (callValue kind value) }))
            (i := (Outcome.ret [], { vm1 with bal := transfer w.bal ctx.self t (callValue kind value) }))
            hrel1 hs1 hro1' (wc := { w with bal := transfer w.bal ctx.self t (callValue kind value) })
            (vmc := { vm1 with bal := transfer w.bal ctx.self t (callValue kind value) })
            (roc := (calleeCtx ctx kind t (callValue kind value)).readonly) rfl hfrz
            ⟨rfl, fun _ _ => ⟨hag2, rfl, fun _ => ⟨rfl, rfl⟩⟩⟩
          simpa [specResume] using this
        · simp only [hd, Bool.false_eq_true, if_false]
          refine resume_match (wc := { w with bal := transfer w.bal ctx.self t (callValue kind value) }) hrel1 hs1 hro1' rfl hfrz ?_
          have hd' : ({ w with bal := transfer w.bal ctx.self t (callValue kind value) } : SWorld).dead
              (calleeCtx ctx kind t (callValue kind value)).self = false := by
            rw [hself]; simpa using hd
          have := activate_match (cctx := calleeCtx ctx kind t (callValue kind value)) (body := body) hP hag2 hd'
            (fun s hs hr => ops_refine hP body _ _ _ s [] hs hr)
          rw [hself] at this
          exact this
end

/-! ### top-level messages -/

/-- between top-level messages (no message is executing): the persisted states show the spec
    world, a contract with a tombstone is dead for every later message -/
structure Inv (P : Life → Prop) (w : SWorld) (vm : VM) : Prop where
  common : Common P w vm
  doomed : ∀ a, w.doomed a = false
  dead : ∀ a, w.dead a = (vm.actors a).tomb.isSome
  deadStor : ∀ a, (vm.actors a).tomb.isSome = true → ∀ k, w.stor a k = 0
  stor : ∀ a, (vm.actors a).tomb = none → ∀ k, w.stor a k = get (vm.actors a).slots k

theorem Common.mono {P Q : Life → Prop} {w : SWorld} {vm : VM} (h : Common P w vm)
    (hpq : ∀ l, P l → Q l) : Common Q w vm :=
  ⟨h.bal, h.logs, fun a => ⟨fun t ht => hpq _ ((h.life a).tomb t ht), fun m l hl => hpq _ ((h.life a).tdata m l hl)⟩⟩

theorem Inv.mono {P Q : Life → Prop} {w : SWorld} {vm : VM} (h : Inv P w vm)
    (hpq : ∀ l, P l → Q l) : Inv Q w vm :=
  ⟨h.common.mono hpq, h.doomed, h.dead, h.deadStor, h.stor⟩

/-- start of a message with a fresh (origin, nonce): transient data of older messages is
    invisible, older tombstones mean "dead" -/
theorem inv_to_agree {P : Life → Prop} {w : SWorld} {vm : VM} (h : Inv P w vm) (cur : Life)
    (hfresh : ¬ P cur) (entry value : Nat) :
    Agree (fun l => P l ∨ l = cur) cur
      { w with trans := fun _ _ => 0, bal := credit w.bal entry value }
      { vm with bal := credit vm.bal entry value } := by
  refine ⟨⟨by simp [h.common.bal], h.common.logs, fun a => ((h.common.mono (fun l hl => Or.inl hl)).life a)⟩, fun a => ?_⟩
  have hne : ∀ l, P l → l ≠ cur := fun l hl he => hfresh (he ▸ hl)
  have hdead : isDead cur (vm.actors a) = (vm.actors a).tomb.isSome := by
    unfold isDead
    cases ht : (vm.actors a).tomb with
    | none => rfl
    | some t => simpa using hne t ((h.common.life a).tomb t ht)
  refine ⟨by simpa [hdead] using h.dead a, fun hd k => ?_, fun hd k => ?_, fun hd k => ?_, fun hd => ?_⟩
  · exact h.deadStor a (by rw [← hdead]; exact hd) k
  · have : (vm.actors a).tomb = none := by
      rw [hdead] at hd; simpa using hd
    exact h.stor a this k
  · show 0 = get (tview cur (vm.actors a).tdata) k
    unfold tview
    cases htd : (vm.actors a).tdata with
    | none => rfl
    | some p =>
      obtain ⟨m, l⟩ := p
      have := hne l ((h.common.life a).tdata m l htd)
      simp [this, get_nil]
  · have : (vm.actors a).tomb = none := by
      rw [hdead] at hd; simpa using hd
    simpa [this] using h.doomed a

/-- end of a successful message -/
theorem agree_to_inv {P : Life → Prop} {cur : Life} {w : SWorld} {vm : VM} (h : Agree P cur w vm) :
    Inv P w.finalize vm := by
  refine ⟨⟨h.common.bal, h.common.logs, h.common.life⟩, fun _ => rfl, fun a => ?_, fun a ht k => ?_, fun a ht k => ?_⟩
  · have ha := h.at_ a
    show (w.dead a || w.doomed a) = _
    cases ht : (vm.actors a).tomb with
    | none =>
      have hd : isDead cur (vm.actors a) = false := by simp [isDead, ht]
      rw [ha.dead, ha.doomed hd, hd]; simp [ht]
    | some t =>
      by_cases hc : t = cur
      · have hd : isDead cur (vm.actors a) = false := by simp [isDead, ht, hc]
        rw [ha.dead, ha.doomed hd, hd]; simp [ht, hc]
      · have hd : isDead cur (vm.actors a) = true := by simp [isDead, ht, hc]
        rw [ha.dead, hd]; simp
  · have ha := h.at_ a
    show (if w.doomed a then 0 else w.stor a k) = 0
    by_cases hdm : w.doomed a = true
    · simp [hdm]
    · simp only [hdm, Bool.false_eq_true, if_false]
      cases hd : isDead cur (vm.actors a) with
      | true => exact ha.deadStor hd k
      | false =>
        have := ha.doomed hd
        rcases tomb_of_isDead_false hd with h1 | h1
        · rw [h1] at ht; cases ht
        · rw [h1] at this; simp at this; exact absurd this hdm
  · have ha := h.at_ a
    have hd : isDead cur (vm.actors a) = false := by simp [isDead, ht]
    show (if w.doomed a then 0 else w.stor a k) = _
    have := ha.doomed hd
    rw [ht] at this
    simp at this
    simp [this, ha.stor hd k]

/-- one top-level message: same result in both layers, invariant re-established -/
theorem msg_refine {P : Life → Prop} {w : SWorld} {vm : VM} (h : Inv P w vm) (m : Msg)
    (hfresh : ¬ P m.life) :
    (specMsg w m).1 = (implMsg vm m).1 ∧
    Inv (fun l => P l ∨ l = m.life) (specMsg w m).2 (implMsg vm m).2 := by
  have hag := inv_to_agree h m.life hfresh m.entry m.value
  have hP : (fun l => P l ∨ l = m.life) m.life := Or.inr rfl
  have hmono : Inv (fun l => P l ∨ l = m.life) w vm := h.mono (fun l hl => Or.inl hl)
  unfold specMsg implMsg
  simp only []
  by_cases hd : w.dead m.entry = true
  · have hdd : isDead m.life (vm.actors m.entry) = true := by
      have := (hag.at_ m.entry).dead
      simp only at this
      rw [← this]; exact hd
    simp only [hd, if_true, activate, hdd]
    exact ⟨by first | rfl | trivial, agree_to_inv hag⟩
  · simp only [hd, Bool.false_eq_true, if_false]
    have hd' : ({ w with trans := fun _ _ => 0, bal := credit w.bal m.entry m.value } : SWorld).dead (topCtx m).self = false := by
      simpa [topCtx] using hd
    have hm := activate_match (cctx := topCtx m) (body := m.body) hP hag hd'
      (fun s hs hr => ops_refine hP m.body _ _ _ s [] hs hr)
    simp only [topCtx] at hm ⊢
    generalize (specOps _ _ [] m.body).finish = s at hm ⊢
    generalize activate _ _ _ _ _ = i at hm ⊢
    obtain ⟨o, w'⟩ := s
    obtain ⟨o', vm'⟩ := i
    obtain ⟨ho, hp⟩ := hm
    simp only at ho hp
    subst ho
    cases o with
    | ret l => exact ⟨rfl, agree_to_inv (hp l rfl).agree⟩
    | revert l => exact ⟨rfl, hmono⟩
    | fail => exact ⟨rfl, hmono⟩

/-- any sequence of top-level messages with pairwise distinct, fresh (origin, nonce) -/
theorem run_refine : ∀ (msgs : List Msg) (P : Life → Prop) (w : SWorld) (vm : VM), Inv P w vm →
    (∀ m ∈ msgs, ¬ P m.life) → (msgs.map (·.life)).Nodup →
    (specRun w msgs).1 = (implRun vm msgs).1 ∧ ∃ Q, Inv Q (specRun w msgs).2 (implRun vm msgs).2
  | [], P, w, vm, h, _, _ => ⟨rfl, P, h⟩
  | m :: ms, P, w, vm, h, hf, hnd => by
    obtain ⟨h1, h2⟩ := msg_refine h m (hf m (by simp))
    have hnd' := List.nodup_cons.mp (show (m.life :: ms.map (·.life)).Nodup from hnd)
    have hf' : ∀ m' ∈ ms, ¬ (fun l => P l ∨ l = m.life) m'.life := by
      intro m' hm' hx
      rcases hx with hx | hx
      · exact hf m' (by simp [hm']) hx
      · exact hnd'.1 (by rw [← hx]; exact List.mem_map_of_mem hm')
    obtain ⟨h3, Q, h4⟩ := run_refine ms _ _ _ h2 hf' hnd'.2
    simp only [specRun, implRun]
    exact ⟨by rw [h1, h3], Q, h4⟩

/-- what the invariant says about the observable final state -/
theorem Inv.observables {P : Life → Prop} {w : SWorld} {vm : VM} (h : Inv P w vm) :
    (∀ a k, vm.storageAt a k = w.stor a k) ∧ (∀ a, vm.isDestroyed a = w.dead a) ∧
    vm.bal = w.bal ∧ vm.events = w.logs := by
  refine ⟨fun a k => ?_, fun a => (h.dead a).symm, h.common.bal.symm, h.common.logs.symm⟩
  unfold VM.storageAt
  cases ht : (vm.actors a).tomb with
  | none => simp [h.stor a ht k]
  | some t => simp [h.deadStor a (by simp [ht]) k]

/-- the abstraction function: the spec world a (quiescent) implementation state stands for -/
def VM.abs (vm : VM) : SWorld :=
  { stor := vm.storageAt, trans := fun _ _ => 0, bal := vm.bal, logs := vm.events,
    doomed := fun _ => false, dead := vm.isDestroyed }

theorem inv_abs {P : Life → Prop} {vm : VM} (h : ∀ a, LifeOk P (vm.actors a)) : Inv P vm.abs vm := by
  refine ⟨⟨rfl, rfl, h⟩, fun _ => rfl, fun _ => rfl, fun a ht k => ?_, fun a ht k => ?_⟩
  · simp [VM.abs, VM.storageAt, ht]
  · simp [VM.abs, VM.storageAt, ht]

theorem inv_init : Inv (fun _ => False) SWorld.init VM.init := by
  refine ⟨⟨rfl, rfl, fun a => ⟨fun t ht => by simp [VM.init, PState.empty] at ht, fun m l hl => by simp [VM.init, PState.empty] at hl⟩⟩,
    fun _ => rfl, fun _ => rfl, fun a ht => by simp [VM.init, PState.empty] at ht, fun a _ k => rfl⟩

/-! ### the spec's observation log only grows; a failed call restores the world -/

/-- put `p` in front of the observation log of a result (`RETURN` data of SELFDESTRUCT is empty) -/
def SRes.pre (p : List Nat) : SRes → SRes
  | .cont w l => .cont w (p ++ l)
  | .stop (.revert l) w => .stop (.revert (p ++ l)) w
  | .stop (.ret l) w => .stop (.ret l) w
  | .stop .fail w => .stop .fail w

theorem specResume_pre (p : List Nat) (w : SWorld) (log : List Nat) (r : Outcome × SWorld) :
    specResume w (p ++ log) r = (specResume w log r).pre p := by
  obtain ⟨o, w'⟩ := r
  cases o <;> simp [specResume, SRes.pre, List.append_assoc]

mutual
theorem specOps_pre (p : List Nat) : ∀ (ops : List Op) (ctx : Ctx) (w : SWorld) (log : List Nat),
    specOps ctx w (p ++ log) ops = (specOps ctx w log ops).pre p
  | [], ctx, w, log => by simp [specOps, SRes.pre]
  | op :: rest, ctx, w, log => by
    simp only [specOps]
    rw [specOp_pre p op ctx w log]
    cases h : specOp ctx w log op with
    | cont w' l' => simp only [SRes.pre]; exact specOps_pre p rest ctx w' l'
    | stop o w' => cases o <;> simp [SRes.pre]
theorem specOp_pre (p : List Nat) : ∀ (op : Op) (ctx : Ctx) (w : SWorld) (log : List Nat),
    specOp ctx w (p ++ log) op = (specOp ctx w log op).pre p
  | .sstore k v, ctx, w, log => by simp only [specOp]; split <;> simp [SRes.pre]
  | .tstore k v, ctx, w, log => by simp only [specOp]; split <;> simp [SRes.pre]
  | .sload k, ctx, w, log => by simp [specOp, SRes.pre, List.append_assoc]
  | .tload k, ctx, w, log => by simp [specOp, SRes.pre, List.append_assoc]
  | .env i, ctx, w, log => by simp [specOp, SRes.pre, List.append_assoc]
  | .revert, ctx, w, log => by simp [specOp, SRes.pre]
  | .log t, ctx, w, log => by simp only [specOp]; split <;> simp [SRes.pre]
  | .selfdestruct b, ctx, w, log => by simp only [specOp]; split <;> simp [SRes.pre]
  | .call kind t value body, ctx, w, log => by
    simp only [specOp]
    split
    · simp [SRes.pre]
    · split
      · split
        · simp [SRes.pre, List.append_assoc]
        · exact specResume_pre p w log _
      · split
        · simp [SRes.pre, List.append_assoc]
        · split
          · simp [SRes.pre, List.append_assoc]
          · exact specResume_pre p w log _
end

/-- journaled state: a sub-call that reports flag 0 (reverted, failed, or could not be paid for)
    leaves the world exactly as it was -/
theorem spec_failed_call_restores (ctx : Ctx) (w w' : SWorld) (kind : Kind) (t value : Nat)
    (body : List Op) (l : List Nat)
    (h : specOp ctx w [] (.call kind t value body) = .cont w' (0 :: l)) : w' = w := by
  simp only [specOp] at h
  have hres : ∀ r, specResume w [] r = .cont w' (0 :: l) → w' = w := by
    intro r hr
    obtain ⟨o, w''⟩ := r
    cases o <;> simp [specResume] at hr
    · exact hr.1.symm
    · exact hr.1.symm
  split at h
  · cases h
  · split at h
    · split at h
      · simp at h
      · exact hres _ h
    · split at h
      · simp at h; exact h.1.symm
      · split at h
        · simp at h
        · exact hres _ h

/-- a CALL instruction never ends the calling activation with a return -/
theorem specOp_call_stop (ctx : Ctx) (w w' : SWorld) (log : List Nat) (kind : Kind) (t value : Nat)
    (body : List Op) (o : Outcome) (h : specOp ctx w log (.call kind t value body) = .stop o w') :
    o = .fail := by
  simp only [specOp] at h
  have hres : ∀ r, specResume w log r = .stop o w' → o = .fail := by
    intro r hr
    obtain ⟨o', w''⟩ := r
    cases o' <;> simp [specResume] at hr
  split at h
  · cases h; rfl
  · split at h
    · split at h
      · cases h
      · exact hres _ h
    · split at h
      · cases h
      · split at h
        · cases h
        · exact hres _ h

/-- top-level form: if the message consisting of just the call reports flag 0 with data `l`, then
    putting that call in front of any script `rest` changes nothing but the observation log
    (prefix `0 :: l`, where a log is returned at all) -/
theorem spec_msg_failed_call (w : SWorld) (life : Life) (A value : Nat) (kind : Kind) (t val : Nat)
    (body rest : List Op) (l : List Nat)
    (hfail : (specMsg w (Msg.mk life A value [.call kind t val body])).1 = (1, 0 :: l)) :
    ((specMsg w (Msg.mk life A value (.call kind t val body :: rest))).1 = (specMsg w (Msg.mk life A value rest)).1 ∨
     (specMsg w (Msg.mk life A value (.call kind t val body :: rest))).1 =
       ((specMsg w (Msg.mk life A value rest)).1.1, 0 :: l ++ (specMsg w (Msg.mk life A value rest)).1.2)) ∧
    (specMsg w (Msg.mk life A value (.call kind t val body :: rest))).2 = (specMsg w (Msg.mk life A value rest)).2 := by
  unfold specMsg at hfail ⊢
  simp only [topCtx] at hfail ⊢
  by_cases hd : w.dead A = true
  · simp [hd] at hfail
  · simp only [hd, Bool.false_eq_true, if_false] at hfail ⊢
    generalize hw0 : ({ w with trans := fun _ _ => 0, bal := credit w.bal A value } : SWorld) = w0 at hfail ⊢
    generalize hctx : ({ self := A, caller := extCaller, value := value, readonly := false } : Ctx) = ctx at hfail ⊢
    simp only [specOps] at hfail ⊢
    cases hs : specOp ctx w0 [] (.call kind t val body) with
    | stop o w' =>
      have := specOp_call_stop _ _ _ _ _ _ _ _ _ hs
      subst this
      rw [hs] at hfail
      simp [SRes.finish] at hfail
    | cont w' l' =>
      rw [hs] at hfail
      simp only [SRes.finish] at hfail
      have hl : l' = 0 :: l := by simpa using hfail
      subst hl
      have hw : w' = w0 := spec_failed_call_restores _ _ _ _ _ _ _ _ hs
      subst hw
      simp only []
      have hp := specOps_pre (0 :: l) rest ctx w' []
      simp only [List.append_nil] at hp
      rw [hp]
      cases hr : specOps ctx w' [] rest with
      | cont w'' lg => simp [SRes.pre, SRes.finish]
      | stop o w'' => cases o <;> simp [SRes.pre, SRes.finish]

/-- spec: a top-level script run through a DELEGATECALL (to any live contract) behaves exactly as
    the same script run directly, when it returns -/
theorem spec_delegate_inline (w : SWorld) (life : Life) (A value t dv : Nat) (body : List Op)
    (l : List Nat) (hA : w.dead A = false) (ht : w.dead t = false)
    (hok : (specMsg w (Msg.mk life A value body)).1 = (1, l)) :
    (specMsg w (Msg.mk life A value [.call .delegate t dv body])).1 = (1, 1 :: l) ∧
    (specMsg w (Msg.mk life A value [.call .delegate t dv body])).2 = (specMsg w (Msg.mk life A value body)).2 := by
  unfold specMsg at hok ⊢
  simp only [topCtx, hA, Bool.false_eq_true, if_false] at hok ⊢
  simp only [specOps, specOp, callValue]
  simp only [ht, Bool.false_eq_true, if_false, false_and, if_true, reduceCtorEq]
  generalize (specOps _ _ [] body).finish = R at hok ⊢
  obtain ⟨o, w'⟩ := R
  cases o with
  | ret l' =>
    simp only [] at hok
    have : l' = l := by simpa using hok
    subst this
    simp [specResume, SRes.finish]
  | revert l' => simp at hok
  | fail => simp at hok

end BA.Evm.Storage
