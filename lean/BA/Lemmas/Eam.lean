/-
  Helper lemmas for C20 (second part): what one call may do to the world (`WStep`), proved for
  exec / exec4 / auto-creating sends / the EAM's create_actor / the CREATE opcodes / SELFDESTRUCT.
-/
import BA.Lemmas.Init

namespace BA.Eam
open BA BA.Init

/-- How the state-tree entry of one actor may change during message `msg`: the delegated and key
    addresses never change; the code changes only away from a placeholder; an EVM contract either
    keeps its incarnation with a nonce that did not decrease, or it was dead and is re-initialised
    (incarnation + 1, nonce 1). -/
def ActorStep (msg : Nat) (a a' : Actor) : Prop :=
  a'.deleg = a.deleg ∧ (a'.keyAddr = a.keyAddr ∨ a.kind = .placeholder) ∧
  (a'.kind = a.kind ∨ a.kind = .placeholder) ∧
  (a.kind = .evm →
    (a'.inc = a.inc ∧ a.nonce ≤ a'.nonce) ∨
    (isDead a msg = true ∧ a'.inc = a.inc + 1 ∧ a'.nonce = 1))

theorem ActorStep.refl (msg : Nat) (a : Actor) : ActorStep msg a a :=
  ⟨rfl, Or.inl rfl, Or.inl rfl, fun _ => Or.inl ⟨rfl, Nat.le_refl _⟩⟩

/-- a placeholder may turn into anything that keeps its addresses -/
theorem ActorStep.of_placeholder (msg : Nat) (a a' : Actor) (hp : a.kind = .placeholder)
    (hd : a'.deleg = a.deleg) : ActorStep msg a a' :=
  ⟨hd, Or.inr hp, Or.inr hp, fun h => by rw [hp] at h; cases h⟩

/-- what one call may do to the world -/
structure WStep (msg : Nat) (w w' : World) : Prop where
  next : w.nextId ≤ w'.nextId
  next1 : w'.nextId ≤ w.nextId + 1
  map : MapGrows w.addrMap w'.addrMap
  below : MapBelow w → MapBelow w'
  actors : ∀ id a, alookup id w.actors = some a →
    ∃ a', alookup id w'.actors = some a' ∧ ActorStep msg a a'

theorem WStep.refl (msg : Nat) (w : World) : WStep msg w w :=
  ⟨Nat.le_refl _, Nat.le_succ _, MapGrows.refl _, id, fun _ a h => ⟨a, h, ActorStep.refl _ _⟩⟩

/-- frame rule: everything except `id` untouched, `id` evolves by `ActorStep` -/
theorem actors_of_frame {msg : Nat} {w w' : World} {id : Nat}
    (hframe : ∀ j, j ≠ id → alookup j w'.actors = alookup j w.actors)
    (hid : ∀ a, alookup id w.actors = some a → ∃ a', alookup id w'.actors = some a' ∧ ActorStep msg a a') :
    ∀ j a, alookup j w.actors = some a → ∃ a', alookup j w'.actors = some a' ∧ ActorStep msg a a' := by
  intro j a hj
  by_cases e : j = id
  · subst e; exact hid a hj
  · exact ⟨a, by rw [hframe j e]; exact hj, ActorStep.refl _ _⟩

/-! ### create_actor followed by the constructor -/

theorem create_then_ctor (w1 : World) (code : Kind) (id : Nat) (deleg : Option (Nat × Bytes))
    (w2 : World) (msg : Nat) (ctor : Ctor) (w3 : World)
    (h1 : createActor w1 code id deleg = .ok w2) (h2 : runCtor w2 msg id ctor = .ok w3) :
    w3.addrMap = w1.addrMap ∧ w3.nextId = w1.nextId ∧ code.creatable = true ∧ ctor ≠ .fail ∧
    (∀ j, j ≠ id → alookup j w3.actors = alookup j w1.actors) ∧
    ∃ a3, alookup id w3.actors = some a3 ∧ a3.kind = code ∧
      ((alookup id w1.actors = none ∧ a3.deleg = deleg) ∨
       (∃ a, alookup id w1.actors = some a ∧ a.kind = .placeholder ∧ a3.deleg = a.deleg ∧
          a3.keyAddr = a.keyAddr)) := by
  obtain ⟨m1, n1, hc, f1, hat⟩ := createActor_spec _ _ _ _ _ h1
  obtain ⟨hf, m2, n2, f2, a, a', ha, ha', k2, d2, ka2, _, _, _⟩ := runCtor_spec _ _ _ _ _ h2
  refine ⟨by rw [m2, m1], by rw [n2, n1], hc, hf, fun j hj => by rw [f2 j hj, f1 j hj], a', ha', ?_, ?_⟩
  · rcases hat with ⟨_, hnew⟩ | ⟨a0, _, _, hsw⟩
    · rw [hnew] at ha; cases ha; rw [k2]
    · rw [hsw] at ha; cases ha; rw [k2]
  · rcases hat with ⟨hnone, hnew⟩ | ⟨a0, h0, hp, hsw⟩
    · rw [hnew] at ha; cases ha; exact Or.inl ⟨hnone, d2⟩
    · rw [hsw] at ha; cases ha
      exact Or.inr ⟨a0, h0, hp, d2, ka2⟩

/-! ### exec -/

theorem exec_spec (w : World) (msg caller : Nat) (code : Kind) (robust : Bytes) (ctor : Ctor)
    (w' : World) (id : Nat) (h : exec w msg caller code robust ctor = .ok (w', id)) :
    (∃ ca, alookup caller w.actors = some ca ∧ ca.kind ≠ .evm ∧ ca.kind ≠ .unknown ∧
        canExec ca.kind code = true) ∧
    id = w.nextId ∧ w'.nextId = w.nextId + 1 ∧
    klookup robust w.addrMap = none ∧ klookup robust w'.addrMap = some id ∧
    MapGrows w.addrMap w'.addrMap ∧
    (∀ k v, klookup k w'.addrMap = some v → klookup k w.addrMap = some v ∨ (v = id ∧ k = robust)) ∧
    (∀ j, j ≠ id → alookup j w'.actors = alookup j w.actors) ∧
    (∃ a3, alookup id w'.actors = some a3 ∧ a3.kind = code) ∧
    (alookup id w.actors = none ∨ ∃ a, alookup id w.actors = some a ∧ a.kind = .placeholder) ∧
    (∀ a, alookup id w.actors = some a → ∃ a', alookup id w'.actors = some a' ∧ ActorStep msg a a') := by
  unfold exec at h
  cases hca : alookup caller w.actors with
  | none => simp [hca] at h
  | some ca =>
    simp only [hca] at h
    by_cases hev : ca.kind = .evm ∨ ca.kind = .unknown
    · simp [hev] at h
    · rw [if_neg hev] at h
      by_cases hce : canExec ca.kind code = true
      · simp only [hce, Bool.not_true] at h
        cases hm : mapAddresses w robust none with
        | error e => simp [hm] at h
        | ok r =>
          obtain ⟨w1, id1, ex⟩ := r
          simp only [hm] at h
          obtain ⟨ha1, hr0, hr1, hg, hnew, _, hfresh, hexist⟩ := mapAddresses_spec _ _ _ _ _ _ hm
          cases ex with
          | true => obtain ⟨_, d, hd, _⟩ := hexist rfl; cases hd
          | false =>
            simp only [Bool.false_eq_true, ↓reduceIte] at h
            obtain ⟨hid, hnx, _⟩ := hfresh rfl
            cases hc : createActor w1 code id1 none with
            | error e => simp [hc] at h
            | ok w2 =>
              simp only [hc] at h
              cases hk : runCtor w2 msg id1 ctor with
              | error e => simp [hk] at h
              | ok w3 =>
                simp only [hk] at h
                injection h with h; injection h with e1 e2; subst e1; subst e2
                obtain ⟨m3, n3, _, _, f3, a3, ha3, k3, hprev⟩ := create_then_ctor _ _ _ _ _ _ _ _ hc hk
                have hev' : ca.kind ≠ .evm ∧ ca.kind ≠ .unknown := by
                  constructor <;> intro hh <;> exact hev (by simp [hh])
                refine ⟨⟨ca, rfl, hev'.1, hev'.2, hce⟩, hid, by rw [n3, hnx], hr0, by rw [m3]; exact hr1,
                  by rw [m3]; exact hg, ?_, by intro j hj; rw [f3 j hj, ha1], ⟨a3, ha3, k3⟩, ?_, ?_⟩
                · intro k v hkv
                  rw [m3] at hkv
                  rcases hnew k v hkv with h0 | ⟨hv, hk0 | hk0⟩
                  · exact Or.inl h0
                  · exact Or.inr ⟨hv, hk0⟩
                  · cases hk0
                · rcases hprev with ⟨hn, _⟩ | ⟨a, ha, hp, _⟩
                  · exact Or.inl (by rw [← ha1]; exact hn)
                  · exact Or.inr ⟨a, by rw [← ha1]; exact ha, hp⟩
                · intro a ha
                  rw [← ha1] at ha
                  rcases hprev with ⟨hn, _⟩ | ⟨a0, ha0, hp, hd, hka⟩
                  · rw [hn] at ha; cases ha
                  · rw [ha0] at ha; cases ha
                    exact ⟨a3, ha3, ActorStep.of_placeholder _ _ _ hp hd⟩
      · simp [hce] at h

/-! ### exec4 -/

theorem exec4_spec (w : World) (msg caller : Nat) (sub : Bytes) (code : Kind) (robust : Bytes)
    (ctor : Ctor) (w' : World) (id : Nat)
    (h : exec4 w msg caller sub code robust ctor = .ok (w', id)) :
    caller = eamId ∧ sub.length ≤ maxSubaddressLen ∧
    (klookup (delegatedKey caller sub) w.addrMap = none → id = w.nextId ∧ w'.nextId = w.nextId + 1) ∧
    (∀ e, klookup (delegatedKey caller sub) w.addrMap = some e →
        id = e ∧ w'.nextId = w.nextId ∧ ∃ a, alookup e w.actors = some a ∧ a.kind = .placeholder) ∧
    klookup robust w.addrMap = none ∧ klookup robust w'.addrMap = some id ∧
    klookup (delegatedKey caller sub) w'.addrMap = some id ∧
    MapGrows w.addrMap w'.addrMap ∧
    (∀ k v, klookup k w'.addrMap = some v → klookup k w.addrMap = some v ∨
        (v = id ∧ (k = robust ∨ k = delegatedKey caller sub))) ∧
    (∀ j, j ≠ id → alookup j w'.actors = alookup j w.actors) ∧
    (∃ a3, alookup id w'.actors = some a3 ∧ a3.kind = code) ∧
    (alookup id w.actors = none ∨ ∃ a, alookup id w.actors = some a ∧ a.kind = .placeholder) ∧
    (∀ a, alookup id w.actors = some a → ∃ a', alookup id w'.actors = some a' ∧ ActorStep msg a a') := by
  unfold exec4 at h
  by_cases hc0 : caller ≠ eamId
  · simp [hc0] at h
  · rw [if_neg hc0] at h
    have hcaller : caller = eamId := Classical.byContradiction hc0
    by_cases hl : sub.length > maxSubaddressLen
    · simp [hl] at h
    · rw [if_neg hl] at h
      cases hm : mapAddresses w robust (some (delegatedKey caller sub)) with
      | error e => simp [hm] at h
      | ok r =>
        obtain ⟨w1, id1, ex⟩ := r
        simp only [hm] at h
        obtain ⟨ha1, hr0, hr1, hg, hnew, hdk, hfresh, hexist⟩ := mapAddresses_spec _ _ _ _ _ _ hm
        by_cases hbad : (ex && notPlaceholderAt w1 id1) = true
        · simp [hbad] at h
        · rw [if_neg hbad] at h
          cases hc : createActor w1 code id1 (some (caller, sub)) with
          | error e => simp [hc] at h
          | ok w2 =>
            simp only [hc] at h
            cases hk : runCtor w2 msg id1 ctor with
            | error e => simp [hk] at h
            | ok w3 =>
              simp only [hk] at h
              injection h with h; injection h with e1 e2; subst e1; subst e2
              obtain ⟨m3, n3, _, _, f3, a3, ha3, k3, hprev⟩ := create_then_ctor _ _ _ _ _ _ _ _ hc hk
              refine ⟨hcaller, Nat.le_of_not_gt hl, ?_, ?_, hr0, by rw [m3]; exact hr1,
                by rw [m3]; exact hdk _ rfl, by rw [m3]; exact hg, ?_,
                by intro j hj; rw [f3 j hj, ha1], ⟨a3, ha3, k3⟩, ?_, ?_⟩
              · intro hnone
                cases ex with
                | true =>
                  obtain ⟨_, d, hd, hd2⟩ := hexist rfl
                  cases hd; rw [hnone] at hd2; cases hd2
                | false =>
                  obtain ⟨hid, hnx, _⟩ := hfresh rfl
                  exact ⟨hid, by rw [n3, hnx]⟩
              · intro e he
                cases ex with
                | false =>
                  obtain ⟨_, _, hno⟩ := hfresh rfl
                  rw [hno _ rfl] at he; cases he
                | true =>
                  obtain ⟨hnx, d, hd, hd2⟩ := hexist rfl
                  cases hd; rw [he] at hd2; cases hd2
                  refine ⟨rfl, by rw [n3, hnx], ?_⟩
                  simp only [Bool.true_and] at hbad
                  unfold notPlaceholderAt at hbad
                  rw [ha1] at hbad
                  cases hae : alookup id1 w.actors with
                  | none => simp [hae] at hbad
                  | some a =>
                    simp only [hae] at hbad
                    refine ⟨a, rfl, ?_⟩
                    cases hk2 : a.kind <;> simp [hk2] at hbad ⊢
              · intro k v hkv
                rw [m3] at hkv
                rcases hnew k v hkv with h0 | ⟨hv, hk0 | hk0⟩
                · exact Or.inl h0
                · exact Or.inr ⟨hv, Or.inl hk0⟩
                · cases hk0; exact Or.inr ⟨hv, Or.inr rfl⟩
              · rcases hprev with ⟨hn, _⟩ | ⟨a, ha, hp, _⟩
                · exact Or.inl (by rw [← ha1]; exact hn)
                · exact Or.inr ⟨a, by rw [← ha1]; exact ha, hp⟩
              · intro a ha
                rw [← ha1] at ha
                rcases hprev with ⟨hn, _⟩ | ⟨a0, ha0, hp, hd, hka⟩
                · rw [hn] at ha; cases ha
                · rw [ha0] at ha; cases ha
                  exact ⟨a3, ha3, ActorStep.of_placeholder _ _ _ hp hd⟩

/-- `MapBelow` is kept when every new binding points to `id < nextId'` -/
theorem mapBelow_of_new {w w' : World} {id : Nat} (hn : w.nextId ≤ w'.nextId) (hid : id < w'.nextId)
    (hnew : ∀ k v, klookup k w'.addrMap = some v → klookup k w.addrMap = some v ∨ v = id) :
    MapBelow w → MapBelow w' := by
  intro hb k v hk
  rcases hnew k v hk with h0 | h0
  · exact Nat.lt_of_lt_of_le (hb k v h0) hn
  · rw [h0]; exact hid

theorem exec_wstep (w : World) (msg caller : Nat) (code : Kind) (robust : Bytes) (ctor : Ctor)
    (w' : World) (id : Nat) (h : exec w msg caller code robust ctor = .ok (w', id)) :
    WStep msg w w' := by
  obtain ⟨_, hid, hnx, _, _, hg, hnew, hf, _, _, hat⟩ := exec_spec _ _ _ _ _ _ _ _ h
  refine ⟨by omega, by omega, hg, ?_, actors_of_frame hf hat⟩
  apply mapBelow_of_new (id := id) (by omega) (by omega)
  intro k v hk
  rcases hnew k v hk with h0 | ⟨h1, _⟩
  · exact Or.inl h0
  · exact Or.inr h1

/-- with `MapBelow`, an id handed out by exec4 is below the new `nextId` -/
theorem exec4_wstep (w : World) (msg caller : Nat) (sub : Bytes) (code : Kind) (robust : Bytes)
    (ctor : Ctor) (w' : World) (id : Nat)
    (h : exec4 w msg caller sub code robust ctor = .ok (w', id)) : WStep msg w w' := by
  obtain ⟨_, _, hfresh, hexist, _, _, _, hg, hnew, hf, _, _, hat⟩ := exec4_spec _ _ _ _ _ _ _ _ _ h
  cases hd : klookup (delegatedKey caller sub) w.addrMap with
  | none =>
    obtain ⟨hid, hnx⟩ := hfresh hd
    refine ⟨by omega, by omega, hg, ?_, actors_of_frame hf hat⟩
    apply mapBelow_of_new (id := id) (by omega) (by omega)
    intro k v hk
    rcases hnew k v hk with h0 | ⟨h1, _⟩
    · exact Or.inl h0
    · exact Or.inr h1
  | some e =>
    obtain ⟨hid, hnx, _⟩ := hexist e hd
    refine ⟨by omega, by omega, hg, ?_, actors_of_frame hf hat⟩
    intro hb
    have : id < w'.nextId := by rw [hid, hnx]; exact hb _ _ hd
    apply mapBelow_of_new (id := id) (by omega) this ?_ hb
    intro k v hk
    rcases hnew k v hk with h0 | ⟨h1, _⟩
    · exact Or.inl h0
    · exact Or.inr h1

/-! ### the VM: promotion of a placeholder sender, auto-creating sends -/

theorem promote_wstep (msg : Nat) (w : World) (sender : Nat) : WStep msg w (promote w sender) := by
  unfold promote
  cases hs : alookup sender w.actors with
  | none => exact WStep.refl _ _
  | some a =>
    simp only
    by_cases hp : a.kind = .placeholder
    · rw [if_pos hp]
      refine ⟨Nat.le_refl _, Nat.le_succ _, MapGrows.refl _, id, ?_⟩
      apply actors_of_frame (id := sender)
      · intro j hj; exact alookup_aset_other _ _ _ _ hj
      · intro a0 ha0
        rw [hs] at ha0; cases ha0
        exact ⟨_, alookup_aset_same _ _ _, ActorStep.of_placeholder _ _ _ hp rfl⟩
    · rw [if_neg hp]; exact WStep.refl _ _

theorem sendKey_spec (w : World) (addr : Bytes) (w' : World) (id : Nat)
    (h : sendKey w addr = .ok (w', id)) :
    (klookup addr w.addrMap = some id ∧ w' = w) ∨
    (klookup addr w.addrMap = none ∧ id = w.nextId ∧ w'.nextId = w.nextId + 1 ∧
      klookup addr w'.addrMap = some id ∧ MapGrows w.addrMap w'.addrMap ∧
      (∀ k v, klookup k w'.addrMap = some v → klookup k w.addrMap = some v ∨ (v = id ∧ k = addr)) ∧
      (∀ j, j ≠ id → alookup j w'.actors = alookup j w.actors) ∧
      (∀ msg a, alookup id w.actors = some a → ∃ a', alookup id w'.actors = some a' ∧ ActorStep msg a a') ∧
      ∃ a', alookup id w'.actors = some a' ∧ a'.kind = .account) := by
  unfold sendKey at h
  cases hk : klookup addr w.addrMap with
  | some e =>
    simp only [hk] at h
    injection h with h; injection h with e1 e2; subst e1; subst e2
    exact Or.inl ⟨rfl, rfl⟩
  | none =>
    simp only [hk] at h
    cases hm : mapAddresses w addr none with
    | error e => simp [hm] at h
    | ok r =>
      obtain ⟨w1, id1, ex⟩ := r
      simp only [hm] at h
      obtain ⟨ha1, _, hr1, hg, hnew, _, hfresh, hexist⟩ := mapAddresses_spec _ _ _ _ _ _ hm
      have hex : ex = false := by
        cases ex with
        | false => rfl
        | true => obtain ⟨_, d, hd, _⟩ := hexist rfl; cases hd
      obtain ⟨hid, hnx, _⟩ := hfresh hex
      cases hc : createActor w1 .account id1 none with
      | error e => simp [hc] at h
      | ok w2 =>
        simp only [hc] at h
        obtain ⟨m2, n2, _, f2, hat⟩ := createActor_spec _ _ _ _ _ hc
        cases ha2 : alookup id1 w2.actors with
        | none => simp [ha2] at h
        | some a2 =>
          simp only [ha2] at h
          injection h with h; injection h with e1 e2; subst e1; subst e2
          refine Or.inr ⟨rfl, hid, by simp [n2, hnx], by simp [m2, hr1], by simp only [m2]; exact hg,
            ?_, ?_, ?_, ?_⟩
          · intro k v hkv
            simp only [m2] at hkv
            rcases hnew k v hkv with h0 | ⟨hv, hk0 | hk0⟩
            · exact Or.inl h0
            · exact Or.inr ⟨hv, hk0⟩
            · cases hk0
          · intro j hj
            simp only
            rw [alookup_aset_other _ _ _ _ hj, f2 j hj, ha1]
          · intro msg a ha
            rw [← ha1] at ha
            rcases hat with ⟨hn, _⟩ | ⟨a0, ha0, hp, hsw⟩
            · rw [hn] at ha; cases ha
            · rw [ha0] at ha; cases ha
              rw [hsw] at ha2; cases ha2
              exact ⟨_, alookup_aset_same _ _ _, ActorStep.of_placeholder _ _ _ hp rfl⟩
          · refine ⟨_, alookup_aset_same _ _ _, ?_⟩
            rcases hat with ⟨_, hnew2⟩ | ⟨a0, _, _, hsw⟩
            · rw [hnew2] at ha2; cases ha2; rfl
            · rw [hsw] at ha2; cases ha2; rfl


theorem sendKey_wstep (msg : Nat) (w : World) (addr : Bytes) (w' : World) (id : Nat)
    (h : sendKey w addr = .ok (w', id)) : WStep msg w w' := by
  rcases sendKey_spec _ _ _ _ h with ⟨_, he⟩ | ⟨_, hid, hnx, _, hg, hnew, hf, hat, _⟩
  · rw [he]; exact WStep.refl _ _
  · refine ⟨by omega, by omega, hg, ?_, actors_of_frame hf (hat msg)⟩
    apply mapBelow_of_new (id := id) (by omega) (by omega)
    intro k v hk
    rcases hnew k v hk with h0 | ⟨h1, _⟩
    · exact Or.inl h0
    · exact Or.inr h1

theorem sendDeleg_spec (w : World) (ns : Nat) (sub : Bytes) (w' : World) (id : Nat)
    (h : sendDeleg w ns sub = .ok (w', id)) :
    (klookup (delegatedKey ns sub) w.addrMap = some id ∧ w' = w) ∨
    (klookup (delegatedKey ns sub) w.addrMap = none ∧ (alookup ns w.actors).isSome = true ∧
      id = w.nextId ∧ w'.nextId = w.nextId + 1 ∧
      klookup (delegatedKey ns sub) w'.addrMap = some id ∧ MapGrows w.addrMap w'.addrMap ∧
      (∀ k v, klookup k w'.addrMap = some v →
          klookup k w.addrMap = some v ∨ (v = id ∧ k = delegatedKey ns sub)) ∧
      (∀ j, j ≠ id → alookup j w'.actors = alookup j w.actors) ∧
      (∀ msg a, alookup id w.actors = some a → ∃ a', alookup id w'.actors = some a' ∧ ActorStep msg a a') ∧
      ∃ a', alookup id w'.actors = some a' ∧ a'.kind = .placeholder) := by
  unfold sendDeleg at h
  cases hk : klookup (delegatedKey ns sub) w.addrMap with
  | some e =>
    simp only [hk] at h
    injection h with h; injection h with e1 e2; subst e1; subst e2
    exact Or.inl ⟨rfl, rfl⟩
  | none =>
    simp only [hk] at h
    by_cases hns : (alookup ns w.actors).isNone = true
    · simp [hns] at h
    · rw [if_neg hns] at h
      have hns' : (alookup ns w.actors).isSome = true := by
        cases hx : alookup ns w.actors with
        | none => simp [hx] at hns
        | some _ => rfl
      cases hm : mapAddresses w (delegatedKey ns sub) none with
      | error e => simp [hm] at h
      | ok r =>
        obtain ⟨w1, id1, ex⟩ := r
        simp only [hm] at h
        obtain ⟨ha1, _, hr1, hg, hnew, _, hfresh, hexist⟩ := mapAddresses_spec _ _ _ _ _ _ hm
        have hex : ex = false := by
          cases ex with
          | false => rfl
          | true => obtain ⟨_, d, hd, _⟩ := hexist rfl; cases hd
        obtain ⟨hid, hnx, _⟩ := hfresh hex
        cases hc : createActor w1 .placeholder id1 (some (ns, sub)) with
        | error e => simp [hc] at h
        | ok w2 =>
          simp only [hc] at h
          obtain ⟨m2, n2, _, f2, hat⟩ := createActor_spec _ _ _ _ _ hc
          injection h with h; injection h with e1 e2; subst e1; subst e2
          refine Or.inr ⟨rfl, hns', hid, by rw [n2, hnx], by rw [m2]; exact hr1, by rw [m2]; exact hg,
            ?_, fun j hj => by rw [f2 j hj, ha1], ?_, ?_⟩
          · intro k v hkv
            rw [m2] at hkv
            rcases hnew k v hkv with h0 | ⟨hv, hk0 | hk0⟩
            · exact Or.inl h0
            · exact Or.inr ⟨hv, hk0⟩
            · cases hk0
          · intro msg a ha
            rw [← ha1] at ha
            rcases hat with ⟨hn, _⟩ | ⟨a0, ha0, hp, hsw⟩
            · rw [hn] at ha; cases ha
            · rw [ha0] at ha; cases ha
              exact ⟨_, hsw, ActorStep.of_placeholder _ _ _ hp rfl⟩
          · rcases hat with ⟨_, hnew2⟩ | ⟨a0, _, _, hsw⟩
            · exact ⟨_, hnew2, rfl⟩
            · exact ⟨_, hsw, rfl⟩

theorem sendDeleg_wstep (msg : Nat) (w : World) (ns : Nat) (sub : Bytes) (w' : World) (id : Nat)
    (h : sendDeleg w ns sub = .ok (w', id)) : WStep msg w w' := by
  rcases sendDeleg_spec _ _ _ _ _ h with ⟨_, he⟩ | ⟨_, _, hid, hnx, _, hg, hnew, hf, hat, _⟩
  · rw [he]; exact WStep.refl _ _
  · refine ⟨by omega, by omega, hg, ?_, actors_of_frame hf (hat msg)⟩
    apply mapBelow_of_new (id := id) (by omega) (by omega)
    intro k v hk
    rcases hnew k v hk with h0 | ⟨h1, _⟩
    · exact Or.inl h0
    · exact Or.inr h1

/-! ### the EAM -/

/-- EAM `create_actor`: the candidate address is assignable, and the call either went through
    `exec4` (new id, or over a placeholder) or resurrected a dead contract in place. -/
theorem createActorEam_spec (w : World) (msg : Nat) (newAddr robust : Bytes) (ctor : Ctor)
    (w' : World) (ret : Ret) (h : createActorEam w msg newAddr robust ctor = .ok (w', ret)) :
    canAssign newAddr = true ∧ ret.eth = newAddr ∧
    (exec4 w msg eamId newAddr .evm robust ctor = .ok (w', ret.id) ∨
     (∃ a, klookup (delegatedKey eamId newAddr) w.addrMap = some ret.id ∧
        alookup ret.id w.actors = some a ∧ a.kind = .evm ∧ isDead a msg = true ∧ ctor ≠ .fail ∧
        w'.addrMap = w.addrMap ∧ w'.nextId = w.nextId ∧
        (∀ j, j ≠ ret.id → alookup j w'.actors = alookup j w.actors) ∧
        ∃ a', alookup ret.id w'.actors = some a' ∧ a'.kind = .evm ∧ a'.deleg = a.deleg ∧
          a'.keyAddr = a.keyAddr ∧ a'.inc = a.inc + 1 ∧ a'.nonce = 1)) := by
  unfold createActorEam at h
  by_cases hca : canAssign newAddr = true
  · simp only [hca, Bool.not_true] at h
    have hvia : ∀ (r : Except Err (World × Ret)),
        (match exec4 w msg eamId newAddr .evm robust ctor with
          | .error e => (.error e : Except Err (World × Ret))
          | .ok (w', id) => .ok (w', { id := id, eth := newAddr })) = .ok (w', ret) →
        ret.eth = newAddr ∧ exec4 w msg eamId newAddr .evm robust ctor = .ok (w', ret.id) := by
      intro _ hx
      cases he : exec4 w msg eamId newAddr .evm robust ctor with
      | error e => simp [he] at hx
      | ok p =>
        obtain ⟨w2, id2⟩ := p
        simp only [he] at hx
        injection hx with hx; injection hx with e1 e2; subst e1; subst e2
        exact ⟨rfl, rfl⟩
    cases hk : klookup (delegatedKey eamId newAddr) w.addrMap with
    | none =>
      simp only [hk] at h
      obtain ⟨h1, h2⟩ := hvia (.error .forbidden) h
      exact ⟨hca, h1, Or.inl h2⟩
    | some id =>
      simp only [hk] at h
      cases ha : alookup id w.actors with
      | none => simp [ha] at h
      | some a =>
        simp only [ha] at h
        cases hkind : a.kind <;> simp only [hkind] at h <;> try (cases h; done)
        case evm =>
          by_cases hd : isDead a msg = true
          · simp only [hd, Bool.not_true] at h
            by_cases hf : ctor = .fail
            · simp [hf] at h
            · rw [if_neg hf] at h
              injection h with h; injection h with e1 e2; subst e1; subst e2
              refine ⟨hca, rfl, Or.inr ⟨a, rfl, ha, hkind, hd, hf, rfl, rfl,
                fun j hj => alookup_aset_other _ _ _ _ hj, _, alookup_aset_same _ _ _, rfl,
                rfl, rfl, rfl, rfl⟩⟩
          · simp [hd] at h
        case placeholder =>
          obtain ⟨h1, h2⟩ := hvia (.error .forbidden) h
          exact ⟨hca, h1, Or.inl h2⟩
  · simp [hca] at h

theorem createActorEam_wstep (w : World) (msg : Nat) (newAddr robust : Bytes) (ctor : Ctor)
    (w' : World) (ret : Ret) (h : createActorEam w msg newAddr robust ctor = .ok (w', ret)) :
    WStep msg w w' := by
  obtain ⟨_, _, hx | ⟨a, _, ha, hk, hd, _, hm, hn, hf, a', ha', hk', hd', hka, hinc, hnonce⟩⟩ :=
    createActorEam_spec _ _ _ _ _ _ _ h
  · exact exec4_wstep _ _ _ _ _ _ _ _ _ hx
  · refine ⟨by omega, by omega, by rw [hm]; exact MapGrows.refl _, ?_, ?_⟩
    · intro hb k v hkv; rw [hm] at hkv; rw [hn]; exact hb k v hkv
    · apply actors_of_frame hf
      intro a0 ha0
      rw [ha] at ha0; cases ha0
      exact ⟨a', ha', hd', Or.inl hka, Or.inl (by rw [hk', hk]), fun _ => Or.inr ⟨hd, hinc, hnonce⟩⟩

/-- every EAM entry point is `create_actor` on some candidate address -/
theorem eam_entry_cases (w : World) (msg : Nat) (w' : World) (ret : Ret)
    (r : Except Err (World × Ret)) (hr : r = .ok (w', ret))
    (hcases : (∃ caller nonce robust ctor, r = create w msg caller nonce robust ctor) ∨
              (∃ caller salt ih robust ctor, r = create2 w msg caller salt ih robust ctor) ∨
              (∃ caller addr robust ctor, r = assign w msg caller addr robust ctor) ∨
              (∃ caller n robust ctor, r = createExternal w msg caller n robust ctor)) :
    ∃ addr robust ctor, createActorEam w msg addr robust ctor = .ok (w', ret) := by
  rcases hcases with ⟨caller, nonce, robust, ctor, he⟩ | ⟨caller, salt, ih, robust, ctor, he⟩ |
      ⟨caller, addr, robust, ctor, he⟩ | ⟨caller, n, robust, ctor, he⟩
  · rw [he] at hr; unfold create at hr
    cases hc : alookup caller w.actors with
    | none => simp [hc] at hr
    | some ca =>
      simp only [hc] at hr
      by_cases hk : ca.kind ≠ .evm
      · simp [hk] at hr
      · rw [if_neg hk] at hr
        cases he2 : ethOf ca with
        | error e => simp [he2] at hr
        | ok f => simp only [he2] at hr; exact ⟨_, _, _, hr⟩
  · rw [he] at hr; unfold create2 at hr
    cases hc : alookup caller w.actors with
    | none => simp [hc] at hr
    | some ca =>
      simp only [hc] at hr
      by_cases hk : ca.kind ≠ .evm
      · simp [hk] at hr
      · rw [if_neg hk] at hr
        cases he2 : ethOf ca with
        | error e => simp [he2] at hr
        | ok f => simp only [he2] at hr; exact ⟨_, _, _, hr⟩
  · rw [he] at hr; unfold assign at hr
    cases hc : alookup caller w.actors with
    | none => simp [hc] at hr
    | some ca =>
      simp only [hc] at hr
      by_cases hk : ca.kind ≠ .evm
      · simp [hk] at hr
      · rw [if_neg hk] at hr
        cases he2 : ethOf ca with
        | error e => simp [he2] at hr
        | ok f => simp only [he2] at hr; exact ⟨_, _, _, hr⟩
  · rw [he] at hr; unfold createExternal at hr
    cases hc : alookup caller w.actors with
    | none => simp [hc] at hr
    | some ca =>
      simp only [hc] at hr
      cases hkind : ca.kind <;> simp only [hkind] at hr <;> try (cases hr; done)
      case account => exact ⟨_, _, _, hr⟩
      case ethaccount =>
        cases he2 : ethOf ca with
        | error e => simp [he2] at hr
        | ok f => simp only [he2] at hr; exact ⟨_, _, _, hr⟩

/-! ### the CREATE/CREATE2 opcodes, SELFDESTRUCT -/

/-- the world after `increment_nonce` of `deployer` -/
def bump (w : World) (deployer : Nat) (a : Actor) : World :=
  { w with actors := aset deployer { a with nonce := a.nonce + 1 } w.actors }

theorem evmCreate_spec (w : World) (msg deployer : Nat) (endowOk : Bool) (op : CreateOp)
    (robust : Bytes) (ctor : Ctor) (w' : World) (r : Option Ret)
    (h : evmCreate w msg deployer endowOk op robust ctor = .ok (w', r)) :
    ∃ a, alookup deployer w.actors = some a ∧ a.kind = .evm ∧
      (((isDead a msg = true ∨ endowOk = false) ∧ w' = w ∧ r = none) ∨
       (isDead a msg = false ∧ endowOk = true ∧
         ((r = none ∧ w' = bump w deployer a) ∨
          (∃ ret, r = some ret ∧
            ((op = .create ∧ create (bump w deployer a) msg deployer a.nonce robust ctor = .ok (w', ret)) ∨
             (∃ salt ih, op = .create2 salt ih ∧
                create2 (bump w deployer a) msg deployer salt ih robust ctor = .ok (w', ret))))))) := by
  unfold evmCreate at h
  cases ha : alookup deployer w.actors with
  | none => simp [ha] at h
  | some a =>
    simp only [ha] at h
    by_cases hk : a.kind ≠ .evm
    · simp [hk] at h
    · rw [if_neg hk] at h
      have hk' : a.kind = .evm := Classical.byContradiction hk
      refine ⟨a, rfl, hk', ?_⟩
      by_cases hd : isDead a msg = true
      · simp only [hd, if_true] at h
        injection h with h; injection h with e1 e2; subst e1; subst e2
        exact Or.inl ⟨Or.inl hd, rfl, rfl⟩
      · rw [if_neg hd] at h
        have hd' : isDead a msg = false := by cases hx : isDead a msg <;> simp [hx] at hd ⊢
        cases endowOk with
        | false =>
          simp only [Bool.not_false, if_true] at h
          injection h with h; injection h with e1 e2; subst e1; subst e2
          exact Or.inl ⟨Or.inr rfl, rfl, rfl⟩
        | true =>
          simp only [Bool.not_true, Bool.false_eq_true, if_false] at h
          refine Or.inr ⟨hd', rfl, ?_⟩
          cases op with
          | create =>
            simp only at h
            cases hc : create { w with actors := aset deployer { a with nonce := a.nonce + 1 } w.actors }
                msg deployer a.nonce robust ctor with
            | error e =>
              simp only [hc] at h
              injection h with h; injection h with e1 e2; subst e1; subst e2
              exact Or.inl ⟨rfl, rfl⟩
            | ok p =>
              obtain ⟨w2, ret⟩ := p
              simp only [hc] at h
              injection h with h; injection h with e1 e2; subst e1; subst e2
              exact Or.inr ⟨ret, rfl, Or.inl ⟨rfl, hc⟩⟩
          | create2 salt ih =>
            simp only at h
            cases hc : create2 { w with actors := aset deployer { a with nonce := a.nonce + 1 } w.actors }
                msg deployer salt ih robust ctor with
            | error e =>
              simp only [hc] at h
              injection h with h; injection h with e1 e2; subst e1; subst e2
              exact Or.inl ⟨rfl, rfl⟩
            | ok p =>
              obtain ⟨w2, ret⟩ := p
              simp only [hc] at h
              injection h with h; injection h with e1 e2; subst e1; subst e2
              exact Or.inr ⟨ret, rfl, Or.inr ⟨salt, ih, rfl, hc⟩⟩

theorem bump_wstep (msg : Nat) (w : World) (deployer : Nat) (a : Actor)
    (ha : alookup deployer w.actors = some a) : WStep msg w (bump w deployer a) := by
  refine ⟨Nat.le_refl _, Nat.le_succ _, MapGrows.refl _, id, ?_⟩
  apply actors_of_frame (id := deployer)
  · intro j hj; exact alookup_aset_other _ _ _ _ hj
  · intro a0 ha0
    rw [ha] at ha0; cases ha0
    exact ⟨_, alookup_aset_same _ _ _, rfl, Or.inl rfl, Or.inl rfl,
      fun _ => Or.inl ⟨rfl, Nat.le_succ _⟩⟩

/-- a creation through the EAM leaves a live EVM contract other than the target untouched, and
    the target is never a live EVM contract -/
theorem createActorEam_keeps_live (w : World) (msg : Nat) (newAddr robust : Bytes) (ctor : Ctor)
    (w' : World) (ret : Ret) (h : createActorEam w msg newAddr robust ctor = .ok (w', ret))
    (d : Nat) (a : Actor) (ha : alookup d w.actors = some a) (hk : a.kind = .evm)
    (hl : isDead a msg = false) : alookup d w'.actors = some a := by
  obtain ⟨_, _, hx | ⟨a0, _, ha0, _, hd0, _, _, _, hf, _⟩⟩ := createActorEam_spec _ _ _ _ _ _ _ h
  · obtain ⟨_, _, _, _, _, _, _, _, _, hf, _, hprev, _⟩ := exec4_spec _ _ _ _ _ _ _ _ _ hx
    by_cases e : d = ret.id
    · subst e
      rcases hprev with hn | ⟨a1, ha1, hp⟩
      · rw [hn] at ha; cases ha
      · rw [ha1] at ha; cases ha; rw [hp] at hk; cases hk
    · rw [hf d e]; exact ha
  · by_cases e : d = ret.id
    · subst e; rw [ha0] at ha; cases ha; rw [hd0] at hl; cases hl
    · rw [hf d e]; exact ha

theorem evmCreate_wstep (w : World) (msg deployer : Nat) (endowOk : Bool) (op : CreateOp)
    (robust : Bytes) (ctor : Ctor) (w' : World) (r : Option Ret)
    (h : evmCreate w msg deployer endowOk op robust ctor = .ok (w', r)) : WStep msg w w' := by
  obtain ⟨a, ha, hk, h1 | ⟨hl, _, h2 | ⟨ret, _, h3⟩⟩⟩ := evmCreate_spec _ _ _ _ _ _ _ _ _ h
  · rw [h1.2.1]; exact WStep.refl _ _
  · rw [h2.2]; exact bump_wstep _ _ _ _ ha
  · -- bump, then a creation through the EAM
    have hb := bump_wstep msg w deployer a ha
    have hex : ∃ addr robust ctor, createActorEam (bump w deployer a) msg addr robust ctor = .ok (w', ret) := by
      rcases h3 with ⟨_, hc⟩ | ⟨salt, ih, _, hc⟩
      · exact eam_entry_cases _ _ _ _ _ hc (Or.inl ⟨_, _, _, _, rfl⟩)
      · exact eam_entry_cases _ _ _ _ _ hc (Or.inr (Or.inl ⟨_, _, _, _, _, rfl⟩))
    obtain ⟨addr, rb, ct, hce⟩ := hex
    have hs := createActorEam_wstep _ _ _ _ _ _ _ hce
    refine ⟨Nat.le_trans hb.next hs.next, by have := hs.next1; have := hb.next1; simp [bump] at *; omega,
      MapGrows.trans hb.map hs.map, fun x => hs.below (hb.below x), ?_⟩
    intro j aj hj
    by_cases e : j = deployer
    · rw [e] at hj ⊢
      rw [ha] at hj; cases hj
      have hb1 : alookup deployer (bump w deployer a).actors = some { a with nonce := a.nonce + 1 } :=
        alookup_aset_same _ _ _
      have := createActorEam_keeps_live _ _ _ _ _ _ _ hce deployer _ hb1 hk (by simpa [isDead] using hl)
      exact ⟨_, this, rfl, Or.inl rfl, Or.inl rfl, fun _ => Or.inl ⟨rfl, Nat.le_succ _⟩⟩
    · have hj1 : alookup j (bump w deployer a).actors = some aj := by
        simp only [bump]; rw [alookup_aset_other _ _ _ _ e]; exact hj
      exact hs.actors j aj hj1

/-- **the nonce rule**: a CREATE/CREATE2 executed by a live contract whose endowment check passes
    consumes exactly one nonce, whether or not the creation succeeds. -/
theorem evmCreate_nonce (w : World) (msg deployer : Nat) (op : CreateOp)
    (robust : Bytes) (ctor : Ctor) (w' : World) (r : Option Ret) (a : Actor)
    (ha : alookup deployer w.actors = some a) (hl : isDead a msg = false)
    (h : evmCreate w msg deployer true op robust ctor = .ok (w', r)) :
    alookup deployer w'.actors = some { a with nonce := a.nonce + 1 } := by
  obtain ⟨a0, ha0, hk, h1 | ⟨_, _, h2 | ⟨ret, _, h3⟩⟩⟩ := evmCreate_spec _ _ _ _ _ _ _ _ _ h
  · rw [ha] at ha0; cases ha0
    rcases h1.1 with hd | he
    · rw [hd] at hl; cases hl
    · cases he
  · rw [ha] at ha0; cases ha0
    rw [h2.2]; exact alookup_aset_same _ _ _
  · rw [ha] at ha0; cases ha0
    have hex : ∃ addr robust ctor, createActorEam (bump w deployer a) msg addr robust ctor = .ok (w', ret) := by
      rcases h3 with ⟨_, hc⟩ | ⟨salt, ih, _, hc⟩
      · exact eam_entry_cases _ _ _ _ _ hc (Or.inl ⟨_, _, _, _, rfl⟩)
      · exact eam_entry_cases _ _ _ _ _ hc (Or.inr (Or.inl ⟨_, _, _, _, _, rfl⟩))
    obtain ⟨addr, rb, ct, hce⟩ := hex
    have hb1 : alookup deployer (bump w deployer a).actors = some { a with nonce := a.nonce + 1 } :=
      alookup_aset_same _ _ _
    exact createActorEam_keeps_live _ _ _ _ _ _ _ hce deployer _ hb1 hk (by simpa [isDead] using hl)

theorem selfdestruct_wstep (w : World) (msg c : Nat) (w' : World)
    (h : selfdestruct w msg c = .ok w') : WStep msg w w' := by
  unfold selfdestruct at h
  cases ha : alookup c w.actors with
  | none => simp [ha] at h
  | some a =>
    simp only [ha] at h
    by_cases hk : a.kind ≠ .evm
    · simp [hk] at h
    · rw [if_neg hk] at h
      by_cases hd : isDead a msg = true
      · simp only [hd, if_true] at h
        injection h with h; subst h; exact WStep.refl _ _
      · rw [if_neg hd] at h
        injection h with h; subst h
        refine ⟨Nat.le_refl _, Nat.le_succ _, MapGrows.refl _, id, ?_⟩
        apply actors_of_frame (id := c)
        · intro j hj; exact alookup_aset_other _ _ _ _ hj
        · intro a0 ha0
          rw [ha] at ha0; cases ha0
          exact ⟨_, alookup_aset_same _ _ _, rfl, Or.inl rfl, Or.inl rfl,
            fun _ => Or.inl ⟨rfl, Nat.le_refl _⟩⟩

/-! ### one operation -/

/-- the message an operation belongs to -/
def Op.msg : Op → Nat
  | .exec m .. => m | .exec4 m .. => m | .eamCreate m .. => m | .eamCreate2 m .. => m
  | .eamAssign m .. => m | .createExternal m .. => m | .evmCreate m .. => m
  | .selfdestruct m .. => m | .sendKey m .. => m | .sendDeleg m .. => m

theorem WStep.trans_promote {msg : Nat} {w : World} {sender : Nat} {w' : World}
    (h : WStep msg (promote w sender) w') : WStep msg w w' := by
  have hp := promote_wstep msg w sender
  have hn : (promote w sender).nextId = w.nextId := by
    unfold promote; cases alookup sender w.actors with
    | none => rfl
    | some a => simp only; split <;> rfl
  have hm : (promote w sender).addrMap = w.addrMap := by
    unfold promote; cases alookup sender w.actors with
    | none => rfl
    | some a => simp only; split <;> rfl
  refine ⟨by rw [← hn]; exact h.next, by rw [← hn]; exact h.next1, by rw [← hm]; exact h.map,
    fun x => h.below (hp.below x), ?_⟩
  intro j a hj
  -- the sender was a placeholder (any later change is allowed) or is untouched by `promote`
  unfold promote at h hp
  cases hs : alookup sender w.actors with
  | none => simp only [hs] at h; exact h.actors j a hj
  | some s =>
    simp only [hs] at h
    by_cases hph : s.kind = .placeholder
    · rw [if_pos hph] at h
      by_cases e : j = sender
      · subst e
        rw [hs] at hj; cases hj
        obtain ⟨a', ha', hs'⟩ := h.actors j _ (alookup_aset_same _ _ _)
        exact ⟨a', ha', ActorStep.of_placeholder _ _ _ hph hs'.1⟩
      · exact h.actors j a (by simp only; rw [alookup_aset_other _ _ _ _ e]; exact hj)
    · rw [if_neg hph] at h; exact h.actors j a hj

theorem step_wstep (w : World) (op : Op) : WStep op.msg w (step w op).1 := by
  cases op with
  | exec msg caller code robust ctor =>
    simp only [step, Op.msg]
    cases h : exec (promote w caller) msg caller code robust ctor with
    | error e => simp only [outOfId]; exact promote_wstep _ _ _
    | ok p => obtain ⟨w', id⟩ := p; simp only [outOfId]; exact (exec_wstep _ _ _ _ _ _ _ _ h).trans_promote
  | exec4 msg caller sub code robust ctor =>
    simp only [step, Op.msg]
    cases h : exec4 (promote w caller) msg caller sub code robust ctor with
    | error e => simp only [outOfId]; exact promote_wstep _ _ _
    | ok p => obtain ⟨w', id⟩ := p; simp only [outOfId]; exact (exec4_wstep _ _ _ _ _ _ _ _ _ h).trans_promote
  | eamCreate msg caller nonce robust ctor =>
    simp only [step, Op.msg]
    cases h : create (promote w caller) msg caller nonce robust ctor with
    | error e => simp only [outOfRet]; exact promote_wstep _ _ _
    | ok p =>
      obtain ⟨w', ret⟩ := p; simp only [outOfRet]
      obtain ⟨_, _, _, hc⟩ := eam_entry_cases _ _ _ _ _ h (Or.inl ⟨_, _, _, _, rfl⟩)
      exact (createActorEam_wstep _ _ _ _ _ _ _ hc).trans_promote
  | eamCreate2 msg caller salt ih robust ctor =>
    simp only [step, Op.msg]
    cases h : create2 (promote w caller) msg caller salt ih robust ctor with
    | error e => simp only [outOfRet]; exact promote_wstep _ _ _
    | ok p =>
      obtain ⟨w', ret⟩ := p; simp only [outOfRet]
      obtain ⟨_, _, _, hc⟩ := eam_entry_cases _ _ _ _ _ h (Or.inr (Or.inl ⟨_, _, _, _, _, rfl⟩))
      exact (createActorEam_wstep _ _ _ _ _ _ _ hc).trans_promote
  | eamAssign msg caller addr robust ctor =>
    simp only [step, Op.msg]
    cases h : assign (promote w caller) msg caller addr robust ctor with
    | error e => simp only [outOfRet]; exact promote_wstep _ _ _
    | ok p =>
      obtain ⟨w', ret⟩ := p; simp only [outOfRet]
      obtain ⟨_, _, _, hc⟩ := eam_entry_cases _ _ _ _ _ h (Or.inr (Or.inr (Or.inl ⟨_, _, _, _, rfl⟩)))
      exact (createActorEam_wstep _ _ _ _ _ _ _ hc).trans_promote
  | createExternal msg caller n robust ctor =>
    simp only [step, Op.msg]
    cases h : createExternal (promote w caller) msg caller n robust ctor with
    | error e => simp only [outOfRet]; exact promote_wstep _ _ _
    | ok p =>
      obtain ⟨w', ret⟩ := p; simp only [outOfRet]
      obtain ⟨_, _, _, hc⟩ := eam_entry_cases _ _ _ _ _ h (Or.inr (Or.inr (Or.inr ⟨_, _, _, _, rfl⟩)))
      exact (createActorEam_wstep _ _ _ _ _ _ _ hc).trans_promote
  | evmCreate msg deployer endowOk cop robust ctor =>
    simp only [step, Op.msg]
    cases h : evmCreate w msg deployer endowOk cop robust ctor with
    | error e => exact WStep.refl _ _
    | ok p =>
      obtain ⟨w', r⟩ := p
      have := evmCreate_wstep _ _ _ _ _ _ _ _ _ h
      cases r <;> exact this
  | selfdestruct msg c =>
    simp only [step, Op.msg]
    cases h : selfdestruct w msg c with
    | error e => exact WStep.refl _ _
    | ok w' => exact selfdestruct_wstep _ _ _ _ h
  | sendKey msg sender addr =>
    simp only [step, Op.msg]
    cases h : sendKey (promote w sender) addr with
    | error e => simp only [outOfId]; exact promote_wstep _ _ _
    | ok p => obtain ⟨w', id⟩ := p; simp only [outOfId]; exact (sendKey_wstep _ _ _ _ _ h).trans_promote
  | sendDeleg msg sender ns sub =>
    simp only [step, Op.msg]
    cases h : sendDeleg (promote w sender) ns sub with
    | error e => simp only [outOfId]; exact promote_wstep _ _ _
    | ok p => obtain ⟨w', id⟩ := p; simp only [outOfId]; exact (sendDeleg_wstep _ _ _ _ _ _ h).trans_promote

end BA.Eam
