/- Sums over the deal table and the well-formedness / accounting invariants of the market model. -/
import BA.Lemmas.MarketSpecs

namespace BA.Market
open BA

/-! ### assoc lists without duplicate keys, sums over them -/

def ND {α : Type} : List (Nat × α) → Prop
  | [] => True
  | (k, _) :: t => alookup k t = none ∧ ND t

theorem alookup_mem {α : Type} {l : List (Nat × α)} {k : Nat} {v : α} (h : alookup k l = some v) :
    (k, v) ∈ l := by
  induction l with
  | nil => simp [alookup] at h
  | cons hd t ih =>
    obtain ⟨k', v'⟩ := hd
    by_cases hk : k' = k
    · simp [alookup, hk] at h; subst h; subst hk; simp
    · simp [alookup, hk] at h; exact List.mem_cons_of_mem _ (ih h)

theorem alookup_none_not_mem {α : Type} {l : List (Nat × α)} {k : Nat} (h : alookup k l = none)
    (v : α) : (k, v) ∉ l := by
  induction l with
  | nil => simp
  | cons hd t ih =>
    obtain ⟨k', v'⟩ := hd
    by_cases hk : k' = k
    · simp [alookup, hk] at h
    · simp [alookup, hk] at h
      intro hm
      cases hm with
      | head => exact hk rfl
      | tail _ hm => exact ih h hm

theorem mem_alookup_ND {α : Type} {l : List (Nat × α)} (hnd : ND l) {k : Nat} {v : α}
    (h : (k, v) ∈ l) : alookup k l = some v := by
  induction l with
  | nil => simp at h
  | cons hd t ih =>
    obtain ⟨k', v'⟩ := hd
    obtain ⟨hn, hnd'⟩ := hnd
    cases h with
    | head => simp [alookup]
    | tail _ hm =>
      have hk : k' ≠ k := by
        intro e; subst e; exact alookup_none_not_mem hn v hm
      simp [alookup, hk]; exact ih hnd' hm

theorem aerase_of_none {α : Type} {l : List (Nat × α)} {k : Nat} (h : alookup k l = none) :
    aerase k l = l := by
  induction l with
  | nil => rfl
  | cons hd t ih =>
    obtain ⟨k', v'⟩ := hd
    by_cases hk : k' = k
    · simp [alookup, hk] at h
    · simp [alookup, hk] at h; simp [aerase, hk, ih h]

theorem ND_aerase {α : Type} {l : List (Nat × α)} (hnd : ND l) (k : Nat) : ND (aerase k l) := by
  induction l with
  | nil => exact trivial
  | cons hd t ih =>
    obtain ⟨k', v'⟩ := hd
    obtain ⟨hn, hnd'⟩ := hnd
    by_cases hk : k' = k
    · simp [aerase, hk]; exact ih hnd'
    · simp only [aerase, hk, if_false]
      refine ⟨?_, ih hnd'⟩
      by_cases hkk : k' = k
      · exact absurd hkk hk
      · rw [alookup_aerase_other _ _ _ hkk]; exact hn

theorem ND_aset {α : Type} {l : List (Nat × α)} (hnd : ND l) (k : Nat) (v : α) : ND (aset k v l) := by
  induction l with
  | nil => exact ⟨rfl, trivial⟩
  | cons hd t ih =>
    obtain ⟨k', v'⟩ := hd
    obtain ⟨hn, hnd'⟩ := hnd
    by_cases hk : k' = k
    · subst hk; simp [aset]; exact ⟨hn, hnd'⟩
    · simp only [aset, hk, if_false]
      exact ⟨by rw [alookup_aset_other _ _ _ _ hk]; exact hn, ih hnd'⟩

theorem mem_aerase {α : Type} {l : List (Nat × α)} {k k' : Nat} {v : α} (h : (k', v) ∈ aerase k l) :
    k' ≠ k ∧ (k', v) ∈ l := by
  induction l with
  | nil => simp [aerase] at h
  | cons hd t ih =>
    obtain ⟨k2, v2⟩ := hd
    by_cases hk : k2 = k
    · simp [aerase, hk] at h
      obtain ⟨a, b⟩ := ih h
      exact ⟨a, List.mem_cons_of_mem _ b⟩
    · simp only [aerase, hk, if_false] at h
      cases h with
      | head => exact ⟨hk, by simp⟩
      | tail _ hm =>
        obtain ⟨a, b⟩ := ih hm
        exact ⟨a, List.mem_cons_of_mem _ b⟩

def asum {α : Type} (f : Nat → α → Int) : List (Nat × α) → Int
  | [] => 0
  | (k, v) :: t => f k v + asum f t

theorem asum_congr {α : Type} {f g : Nat → α → Int} {l : List (Nat × α)}
    (h : ∀ k v, (k, v) ∈ l → f k v = g k v) : asum f l = asum g l := by
  induction l with
  | nil => rfl
  | cons hd t ih =>
    obtain ⟨k, v⟩ := hd
    simp only [asum]
    rw [h k v (by simp), ih (fun k' v' hm => h k' v' (List.mem_cons_of_mem _ hm))]

theorem asum_aerase {α : Type} (f : Nat → α → Int) {l : List (Nat × α)} (hnd : ND l) {k : Nat}
    {v : α} (h : alookup k l = some v) : asum f (aerase k l) = asum f l - f k v := by
  induction l with
  | nil => simp [alookup] at h
  | cons hd t ih =>
    obtain ⟨k', v'⟩ := hd
    obtain ⟨hn, hnd'⟩ := hnd
    by_cases hk : k' = k
    · subst hk
      simp [alookup] at h; subst h
      simp only [aerase, if_true, asum]
      rw [aerase_of_none hn]; omega
    · simp [alookup, hk] at h
      simp only [aerase, hk, if_false, asum]
      rw [ih hnd' h]; omega

theorem asum_aset_new {α : Type} (f : Nat → α → Int) {l : List (Nat × α)} {k : Nat} (v : α)
    (h : alookup k l = none) : asum f (aset k v l) = asum f l + f k v := by
  induction l with
  | nil => simp [aset, asum]
  | cons hd t ih =>
    obtain ⟨k', v'⟩ := hd
    by_cases hk : k' = k
    · simp [alookup, hk] at h
    · simp [alookup, hk] at h
      simp only [aset, hk, if_false, asum]
      rw [ih h]; omega

theorem asum_change_one {α : Type} {f g : Nat → α → Int} {l : List (Nat × α)} (hnd : ND l) {k : Nat}
    {v : α} (h : alookup k l = some v) (hs : ∀ k' v', (k', v') ∈ l → k' ≠ k → g k' v' = f k' v') :
    asum g l = asum f l - f k v + g k v := by
  induction l with
  | nil => simp [alookup] at h
  | cons hd t ih =>
    obtain ⟨k', v'⟩ := hd
    obtain ⟨hn, hnd'⟩ := hnd
    by_cases hk : k' = k
    · subst hk
      simp [alookup] at h; subst h
      simp only [asum]
      have : asum g t = asum f t := by
        apply asum_congr
        intro k2 v2 hm
        apply hs k2 v2 (List.mem_cons_of_mem _ hm)
        intro e; subst e; exact alookup_none_not_mem hn v2 hm
      rw [this]; omega
    · simp [alookup, hk] at h
      simp only [asum]
      rw [ih hnd' h (fun k2 v2 hm hne => hs k2 v2 (List.mem_cons_of_mem _ hm) hne),
        hs k' v' (by simp) hk]
      omega

/-! ### sums over the deal table that read the deal-state table -/

/-- Σ over the proposals of `h proposal (its deal state, if any)` -/
def dsum (h : Proposal → Option DealState → Int) (sts : List (Nat × DealState))
    (props : List (Nat × Proposal)) : Int :=
  asum (fun id d => h d (alookup id sts)) props

theorem dsum_same {h : Proposal → Option DealState → Int} {sts sts' : List (Nat × DealState)}
    {props : List (Nat × Proposal)}
    (hs : ∀ k d, (k, d) ∈ props → h d (alookup k sts') = h d (alookup k sts)) :
    dsum h sts' props = dsum h sts props :=
  asum_congr (fun k v hm => hs k v hm)

theorem dsum_update {h : Proposal → Option DealState → Int} {sts sts' : List (Nat × DealState)}
    {props : List (Nat × Proposal)} (hnd : ND props) {id : Nat} {d : Proposal}
    (hp : alookup id props = some d) (hs : ∀ k, k ≠ id → alookup k sts' = alookup k sts) :
    dsum h sts' props = dsum h sts props - h d (alookup id sts) + h d (alookup id sts') := by
  unfold dsum
  rw [asum_change_one (f := fun id d => h d (alookup id sts)) hnd hp]
  intro k v _ hne
  simp only [hs k hne]

theorem dsum_erase {h : Proposal → Option DealState → Int} {sts sts' : List (Nat × DealState)}
    {props : List (Nat × Proposal)} (hnd : ND props) {id : Nat} {d : Proposal}
    (hp : alookup id props = some d) (hs : ∀ k, k ≠ id → alookup k sts' = alookup k sts) :
    dsum h sts' (aerase id props) = dsum h sts props - h d (alookup id sts) := by
  unfold dsum
  rw [← asum_aerase (fun id d => h d (alookup id sts)) hnd hp]
  apply asum_congr
  intro k v hm
  simp only [hs k (mem_aerase hm).1]

theorem dsum_new {h : Proposal → Option DealState → Int} {sts : List (Nat × DealState)}
    {props : List (Nat × Proposal)} {id : Nat} (d : Proposal) (hp : alookup id props = none) :
    dsum h sts (aset id d props) = dsum h sts props + h d (alookup id sts) := by
  unfold dsum
  rw [asum_aset_new _ d hp]

/-! ### the invariants -/

/-- a stored `last_updated_epoch`: "never", or a real epoch not after now and before the deal's end -/
def LuB (d : Proposal) (lu e : Int) : Prop := lu = -1 ∨ (0 ≤ lu ∧ lu ≤ e ∧ lu < d.endE)

structure GoodDeal (d : Proposal) : Prop where
  dur : d.startE < d.endE
  start0 : 0 ≤ d.startE
  price : 0 ≤ d.price
  cc : 0 ≤ d.clientColl
  pc : 0 ≤ d.providerColl

/-- well-formedness of the deal registry -/
structure WF (s : State) : Prop where
  epoch0 : 0 ≤ s.epoch
  nd : ND s.proposals
  fresh : ∀ id d, alookup id s.proposals = some d → id < s.nextId
  good : ∀ id d, alookup id s.proposals = some d → GoodDeal d
  st : ∀ id st, alookup id s.states = some st →
    ∃ d, alookup id s.proposals = some d ∧ LuB d st.lastUpdated s.epoch

/-- the epoch up to which a deal has been paid for -/
def luTo (d : Proposal) : Option DealState → Int
  | none => d.startE
  | some st => max d.startE st.lastUpdated

/-- the storage fee still locked for a deal -/
def remFee (d : Proposal) (o : Option DealState) : Int := d.price * (d.endE - luTo d o)

/-- what party `p` owes for one deal: as client its collateral plus the unpaid fee, as provider
    its collateral -/
def oblH (p : Nat) (d : Proposal) (o : Option DealState) : Int :=
  ind p d.client (d.clientColl + remFee d o) + ind p d.provider d.providerColl

/-- the accounting invariant -/
structure Acct (s : State) : Prop where
  locked : ∀ p, bal s.locked p = dsum (oblH p) s.states s.proposals
  cc : s.totalClientColl = dsum (fun d _ => d.clientColl) s.states s.proposals
  pc : s.totalProviderColl = dsum (fun d _ => d.providerColl) s.states s.proposals
  fee : s.totalClientFee = dsum remFee s.states s.proposals
  le : ∀ p, bal s.locked p ≤ bal s.escrow p

/-- the closing record of a deal carries exact totals -/
def ClosedOk (c : Closed) : Prop :=
  match c.kind with
  | .completed => c.paid = c.deal.fee ∧ c.feeRefund = 0 ∧ c.clientCollRefund = c.deal.clientColl ∧
      c.providerCollRefund = c.deal.providerColl ∧ c.burnt = 0 ∧ c.deal.endE ≤ c.atEpoch
  | .terminated =>
      c.paid = c.deal.price * (max c.deal.startE (min c.deal.endE c.atEpoch) - c.deal.startE) ∧
      c.feeRefund = c.deal.price * (c.deal.endE - max c.atEpoch c.deal.startE) ∧
      c.paid + c.feeRefund = c.deal.fee ∧ c.clientCollRefund = c.deal.clientColl ∧
      c.providerCollRefund = 0 ∧ c.burnt = c.deal.providerColl ∧ c.atEpoch < c.deal.endE
  | .timedOut => c.paid = 0 ∧ c.feeRefund = c.deal.fee ∧ c.clientCollRefund = c.deal.clientColl ∧
      c.providerCollRefund = 0 ∧ c.burnt = c.deal.providerColl ∧ c.deal.startE ≤ c.atEpoch

/-- the ghost ledger of credits agrees with the closed form -/
structure Ledg (s : State) : Prop where
  live : ∀ id d, alookup id s.proposals = some d →
    bal s.paid id = d.price * (luTo d (alookup id s.states) - d.startE)
  dead : ∀ id, alookup id s.proposals = none → bal s.paid id = 0
  closed : ∀ id c, (id, c) ∈ s.closed → ClosedOk c

structure Inv (s : State) : Prop where
  wf : WF s
  acct : Acct s
  ledg : Ledg s

theorem remFee_never (d : Proposal) (st : DealState) (h : st.lastUpdated = -1) (h0 : 0 ≤ d.startE) :
    remFee d (some st) = d.fee := by
  simp only [remFee, luTo, Proposal.fee, h]
  have : max d.startE (-1) = d.startE := by omega
  rw [this]

theorem remFee_none (d : Proposal) : remFee d none = d.fee := rfl

end BA.Market
