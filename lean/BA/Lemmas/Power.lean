/-
  C02 (power-actor half) — network totals equal the sum of the per-miner claims under the
  consensus-minimum rule.  Invariant + theorems over the model `BA.Power`
  (actors/power/src/state.rs, lib.rs).
-/
import BA.Model.Power

namespace BA.Power
open BA

/-! ### Sums over the claims table -/

/-- the keys of the association list are pairwise different -/
def NoDupKeys : Claims → Prop
  | [] => True
  | (k, _) :: t => alookup k t = none ∧ NoDupKeys t

/-- contribution of one claim to a filtered sum -/
def term (f : Claim → Int) (p : Claim → Bool) (c : Claim) : Int := if p c then f c else 0

/-- `Σ f c` over the claims `c` of the table with `p c` -/
def sumBy (f : Claim → Int) (p : Claim → Bool) : Claims → Int
  | [] => 0
  | (_, c) :: t => term f p c + sumBy f p t

@[simp] theorem sumBy_nil (f : Claim → Int) (p : Claim → Bool) : sumBy f p [] = 0 := rfl
@[simp] theorem sumBy_cons (f : Claim → Int) (p : Claim → Bool) (k : Nat) (c : Claim) (t : Claims) :
    sumBy f p ((k, c) :: t) = term f p c + sumBy f p t := rfl

theorem sumBy_aset_some (f : Claim → Int) (p : Claim → Bool) (k : Nat) (c : Claim) :
    ∀ (l : Claims) (old : Claim), alookup k l = some old →
      sumBy f p (aset k c l) = sumBy f p l - term f p old + term f p c := by
  intro l
  induction l with
  | nil => intro old h; simp at h
  | cons hd t ih =>
    intro old h
    obtain ⟨k', v'⟩ := hd
    by_cases hk : k' = k
    · simp [alookup, hk] at h
      subst h
      simp [aset, hk]; omega
    · simp [alookup, hk] at h
      simp [aset, hk, ih old h]; omega

theorem sumBy_aset_none (f : Claim → Int) (p : Claim → Bool) (k : Nat) (c : Claim) :
    ∀ (l : Claims), alookup k l = none → sumBy f p (aset k c l) = sumBy f p l + term f p c := by
  intro l
  induction l with
  | nil => intro _; simp [aset]
  | cons hd t ih =>
    intro h
    obtain ⟨k', v'⟩ := hd
    by_cases hk : k' = k
    · simp [alookup, hk] at h
    · simp [alookup, hk] at h
      simp [aset, hk, ih h]; omega

theorem aerase_of_none (k : Nat) : ∀ (l : Claims), alookup k l = none → aerase k l = l := by
  intro l
  induction l with
  | nil => intro _; rfl
  | cons hd t ih =>
    intro h
    obtain ⟨k', v'⟩ := hd
    by_cases hk : k' = k
    · simp [alookup, hk] at h
    · simp [alookup, hk] at h
      simp [aerase, hk, ih h]

theorem sumBy_aerase (f : Claim → Int) (p : Claim → Bool) (k : Nat) :
    ∀ (l : Claims) (old : Claim), NoDupKeys l → alookup k l = some old →
      sumBy f p (aerase k l) = sumBy f p l - term f p old := by
  intro l
  induction l with
  | nil => intro old _ h; simp at h
  | cons hd t ih =>
    intro old hn h
    obtain ⟨k', v'⟩ := hd
    obtain ⟨hn1, hn2⟩ := hn
    by_cases hk : k' = k
    · simp [alookup, hk] at h
      subst h
      subst hk
      simp [aerase, aerase_of_none _ _ hn1]; omega
    · simp [alookup, hk] at h
      simp [aerase, hk, ih old hn2 h]; omega

theorem noDupKeys_aset (k : Nat) (c : Claim) :
    ∀ (l : Claims), NoDupKeys l → NoDupKeys (aset k c l) := by
  intro l
  induction l with
  | nil => intro _; simp [aset, NoDupKeys]
  | cons hd t ih =>
    intro hn
    obtain ⟨k', v'⟩ := hd
    obtain ⟨hn1, hn2⟩ := hn
    by_cases hk : k' = k
    · subst hk; simp [aset, NoDupKeys, hn1, hn2]
    · simp only [aset, hk, if_false, NoDupKeys]
      exact ⟨by rw [alookup_aset_other _ _ _ _ hk]; exact hn1, ih hn2⟩

theorem noDupKeys_aerase (k : Nat) :
    ∀ (l : Claims), NoDupKeys l → NoDupKeys (aerase k l) := by
  intro l
  induction l with
  | nil => intro _; simp [aerase, NoDupKeys]
  | cons hd t ih =>
    intro hn
    obtain ⟨k', v'⟩ := hd
    obtain ⟨hn1, hn2⟩ := hn
    by_cases hk : k' = k
    · simp only [aerase, hk, if_true]; exact ih hn2
    · simp only [aerase, hk, if_false, NoDupKeys]
      exact ⟨by rw [alookup_aerase_other _ _ _ hk]; exact hn1, ih hn2⟩

theorem mem_aset (k : Nat) (c : Claim) (x : Nat × Claim) :
    ∀ (l : Claims), x ∈ aset k c l → x = (k, c) ∨ x ∈ l := by
  intro l
  induction l with
  | nil => intro h; simp [aset] at h; exact Or.inl h
  | cons hd t ih =>
    intro h
    obtain ⟨k', v'⟩ := hd
    by_cases hk : k' = k
    · simp [aset, hk] at h
      cases h with
      | inl h => exact Or.inl h
      | inr h => exact Or.inr (List.mem_cons_of_mem _ h)
    · simp [aset, hk] at h
      cases h with
      | inl h => exact Or.inr (by rw [h]; exact List.mem_cons_self)
      | inr h =>
        cases ih h with
        | inl h' => exact Or.inl h'
        | inr h' => exact Or.inr (List.mem_cons_of_mem _ h')

theorem mem_aerase (k : Nat) (x : Nat × Claim) :
    ∀ (l : Claims), x ∈ aerase k l → x ∈ l := by
  intro l
  induction l with
  | nil => intro h; simp [aerase] at h
  | cons hd t ih =>
    intro h
    obtain ⟨k', v'⟩ := hd
    by_cases hk : k' = k
    · simp [aerase, hk] at h
      exact List.mem_cons_of_mem _ (ih h)
    · simp [aerase, hk] at h
      cases h with
      | inl h => rw [h]; exact List.mem_cons_self
      | inr h => exact List.mem_cons_of_mem _ (ih h)

theorem mem_of_alookup (k : Nat) (c : Claim) :
    ∀ (l : Claims), alookup k l = some c → (k, c) ∈ l := by
  intro l
  induction l with
  | nil => intro h; simp at h
  | cons hd t ih =>
    intro h
    obtain ⟨k', v'⟩ := hd
    by_cases hk : k' = k
    · simp [alookup, hk] at h
      subst h; subst hk; exact List.mem_cons_self
    · simp [alookup, hk] at h
      exact List.mem_cons_of_mem _ (ih h)

theorem alookup_none_of_fresh (k : Nat) :
    ∀ (l : Claims), (∀ x ∈ l, x.1 ≠ k) → alookup k l = none := by
  intro l
  induction l with
  | nil => intro _; rfl
  | cons hd t ih =>
    intro h
    obtain ⟨k', v'⟩ := hd
    have hk : k' ≠ k := h (k', v') List.mem_cons_self
    simp [alookup, hk]
    exact ih (fun x hx => h x (List.mem_cons_of_mem _ hx))

theorem length_aset_none (k : Nat) (c : Claim) :
    ∀ (l : Claims), alookup k l = none → (aset k c l).length = l.length + 1 := by
  intro l
  induction l with
  | nil => intro _; rfl
  | cons hd t ih =>
    intro h
    obtain ⟨k', v'⟩ := hd
    by_cases hk : k' = k
    · simp [alookup, hk] at h
    · simp [alookup, hk] at h
      simp [aset, hk, ih h]

theorem length_aset_some (k : Nat) (c : Claim) :
    ∀ (l : Claims) (old : Claim), alookup k l = some old → (aset k c l).length = l.length := by
  intro l
  induction l with
  | nil => intro old h; simp at h
  | cons hd t ih =>
    intro old h
    obtain ⟨k', v'⟩ := hd
    by_cases hk : k' = k
    · simp [aset, hk]
    · simp [alookup, hk] at h
      simp [aset, hk, ih old h]

theorem length_aerase (k : Nat) :
    ∀ (l : Claims) (old : Claim), NoDupKeys l → alookup k l = some old →
      (aerase k l).length + 1 = l.length := by
  intro l
  induction l with
  | nil => intro old _ h; simp at h
  | cons hd t ih =>
    intro old hn h
    obtain ⟨k', v'⟩ := hd
    obtain ⟨hn1, hn2⟩ := hn
    by_cases hk : k' = k
    · subst hk
      simp [aerase, aerase_of_none _ _ hn1]
    · simp [alookup, hk] at h
      simp [aerase, hk, ih old hn2 h]

/-- a filtered count is never negative -/
theorem sumBy_one_nonneg (p : Claim → Bool) : ∀ (l : Claims), 0 ≤ sumBy (fun _ => 1) p l := by
  intro l
  induction l with
  | nil => simp
  | cons hd t ih =>
    obtain ⟨k', v'⟩ := hd
    simp only [sumBy_cons, term]
    by_cases hp : p v' <;> simp [hp] <;> omega

/-- `sumBy (fun _ => 1) p` is the number of claims satisfying `p` -/
theorem sumBy_one_eq_count (p : Claim → Bool) :
    ∀ (l : Claims), sumBy (fun _ => 1) p l = ((l.filter (fun x => p x.2)).length : Int) := by
  intro l
  induction l with
  | nil => simp
  | cons hd t ih =>
    obtain ⟨k', v'⟩ := hd
    simp only [sumBy_cons, term, ih]
    by_cases hp : p v' <;> simp [hp, List.filter] <;> omega

/-! ### The invariant -/

/-- a claim counts toward consensus power: the literal comparison `raw ≥ minPower`
    (the code tests its negation `raw < min_power`) -/
@[reducible] def above (P : Params) : Claim → Bool := fun c => decide (c.raw ≥ P.minPower)
@[reducible] def every : Claim → Bool := fun _ => true
@[reducible] def fraw : Claim → Int := fun c => c.raw
@[reducible] def fqa : Claim → Int := fun c => c.qa
@[reducible] def one : Claim → Int := fun _ => 1

/-- The totals kept by the power actor are the sums over the claims table. -/
structure Inv (P : Params) (s : State) : Prop where
  nodup : NoDupKeys s.claims
  nonneg : ∀ x ∈ s.claims, 0 ≤ x.2.raw ∧ 0 ≤ x.2.qa
  fresh : ∀ x ∈ s.claims, x.1 < s.nextId
  committedRaw : s.totalBytesCommitted = sumBy fraw every s.claims
  committedQA : s.totalQABytesCommitted = sumBy fqa every s.claims
  totalRaw : s.totalRaw = sumBy fraw (above P) s.claims
  totalQA : s.totalQA = sumBy fqa (above P) s.claims
  count : s.minerAboveMinPowerCount = sumBy one (above P) s.claims
  /-- `miner_count` is only bounded by the number of claims: a miner that fails two cron events
      in one tick is subtracted twice (see `minerCount_drift`) -/
  minerCount : s.minerCount ≤ s.claims.length

theorem term_above (f : Claim → Int) (P : Params) (c : Claim) :
    term f (above P) c = if c.raw < P.minPower then 0 else f c := by
  simp only [term, above]
  by_cases h : c.raw < P.minPower
  · have h' : ¬ (c.raw ≥ P.minPower) := by omega
    simp [h, h']
  · have h' : c.raw ≥ P.minPower := by omega
    simp [h, h']

theorem term_every (f : Claim → Int) (c : Claim) : term f every c = f c := by
  simp [term, every]

theorem inv_init (P : Params) : Inv P init :=
  ⟨trivial, by simp [init], by simp [init], rfl, rfl, rfl, rfl, rfl, by simp [init]⟩

/-- the state `add_to_claim` writes when all its checks pass -/
def addPost (P : Params) (s : State) (m : Nat) (old : Claim) (power qa : Int) : State :=
  { addToClaimStats P s old power qa with
    claims := aset m { raw := old.raw + power, qa := old.qa + qa } s.claims }

theorem addToClaimStats_claims (P : Params) (s : State) (old : Claim) (power qa : Int) :
    (addToClaimStats P s old power qa).claims = s.claims ∧
    (addToClaimStats P s old power qa).nextId = s.nextId ∧
    (addToClaimStats P s old power qa).minerCount = s.minerCount ∧
    (addToClaimStats P s old power qa).thisEpochRaw = s.thisEpochRaw ∧
    (addToClaimStats P s old power qa).thisEpochQA = s.thisEpochQA := by
  unfold addToClaimStats
  by_cases h1 : old.raw < P.minPower <;> by_cases h2 : old.raw + power < P.minPower <;>
    simp [h1, h2]

/-- `add_to_claim`'s bookkeeping keeps the totals equal to the sums over the (updated) table. -/
theorem addPost_inv (P : Params) (s : State) (m : Nat) (old : Claim) (power qa : Int)
    (h : Inv P s) (hl : alookup m s.claims = some old)
    (h1 : 0 ≤ old.raw + power) (h2 : 0 ≤ old.qa + qa) : Inv P (addPost P s m old power qa) := by
  obtain ⟨e1, e2, e3, e4, e5⟩ := addToClaimStats_claims P s old power qa
  have a1 := sumBy_aset_some fraw every m { raw := old.raw + power, qa := old.qa + qa } _ _ hl
  have a2 := sumBy_aset_some fqa every m { raw := old.raw + power, qa := old.qa + qa } _ _ hl
  have a3 := sumBy_aset_some fraw (above P) m { raw := old.raw + power, qa := old.qa + qa } _ _ hl
  have a4 := sumBy_aset_some fqa (above P) m { raw := old.raw + power, qa := old.qa + qa } _ _ hl
  have a5 := sumBy_aset_some one (above P) m { raw := old.raw + power, qa := old.qa + qa } _ _ hl
  have c1 := h.committedRaw; have c2 := h.committedQA; have c3 := h.totalRaw
  have c4 := h.totalQA; have c5 := h.count
  rw [term_every, term_every] at a1 a2
  rw [term_above, term_above] at a3 a4 a5
  simp only [fraw, fqa, one] at a1 a2 a3 a4 a5
  refine ⟨?_, ?_, ?_, ?_, ?_, ?_, ?_, ?_, ?_⟩
  · exact noDupKeys_aset _ _ _ h.nodup
  · intro x hx
    cases mem_aset _ _ _ _ hx with
    | inl hx => subst hx; exact ⟨h1, h2⟩
    | inr hx => exact h.nonneg x hx
  · intro x hx
    show x.1 < (addToClaimStats P s old power qa).nextId
    rw [e2]
    cases mem_aset _ _ _ _ hx with
    | inl hx => subst hx; exact h.fresh (m, old) (mem_of_alookup _ _ _ hl)
    | inr hx => exact h.fresh x hx
  · show (addToClaimStats P s old power qa).totalBytesCommitted = sumBy fraw every (aset m _ s.claims)
    unfold addToClaimStats
    by_cases g1 : old.raw < P.minPower <;> by_cases g2 : old.raw + power < P.minPower <;>
      simp [g1, g2] at a1 ⊢ <;> omega
  · show (addToClaimStats P s old power qa).totalQABytesCommitted = sumBy fqa every (aset m _ s.claims)
    unfold addToClaimStats
    by_cases g1 : old.raw < P.minPower <;> by_cases g2 : old.raw + power < P.minPower <;>
      simp [g1, g2] at a2 ⊢ <;> omega
  · show (addToClaimStats P s old power qa).totalRaw = sumBy fraw (above P) (aset m _ s.claims)
    unfold addToClaimStats
    by_cases g1 : old.raw < P.minPower <;> by_cases g2 : old.raw + power < P.minPower <;>
      simp [g1, g2] at a3 ⊢ <;> omega
  · show (addToClaimStats P s old power qa).totalQA = sumBy fqa (above P) (aset m _ s.claims)
    unfold addToClaimStats
    by_cases g1 : old.raw < P.minPower <;> by_cases g2 : old.raw + power < P.minPower <;>
      simp [g1, g2] at a4 ⊢ <;> omega
  · show (addToClaimStats P s old power qa).minerAboveMinPowerCount = sumBy one (above P) (aset m _ s.claims)
    unfold addToClaimStats
    by_cases g1 : old.raw < P.minPower <;> by_cases g2 : old.raw + power < P.minPower <;>
      simp [g1, g2] at a5 ⊢ <;> omega
  · show (addToClaimStats P s old power qa).minerCount ≤ ((aset m _ s.claims).length : Int)
    rw [e3, length_aset_some _ _ _ _ hl]; exact h.minerCount

/-- Under the invariant `add_to_claim` fails only for a missing claim or a claim component that
    would become negative — its "negative amount of miners" check can never fire — and otherwise
    writes `addPost`. -/
theorem addToClaimD_eq (P : Params) (s : State) (m : Nat) (power qa : Int) (h : Inv P s) :
    addToClaimD P s m power qa =
      match alookup m s.claims with
      | none => (s, some .notFound)
      | some old =>
        if old.raw + power < 0 ∨ old.qa + qa < 0
        then (addToClaimStats P s old power qa, some .illegalState)
        else (addPost P s m old power qa, none) := by
  unfold addToClaimD
  cases hl : alookup m s.claims with
  | none => rfl
  | some old =>
    simp only
    by_cases n1 : old.raw + power < 0
    · simp [n1]
    · by_cases n2 : old.qa + qa < 0
      · simp [n1, n2]
      · have hi := addPost_inv P s m old power qa h hl (by omega) (by omega)
        have hc : (addToClaimStats P s old power qa).minerAboveMinPowerCount
            = sumBy one (above P) (addPost P s m old power qa).claims := hi.count
        have hnn := sumBy_one_nonneg (above P) (addPost P s m old power qa).claims
        have n3 : ¬ ((addToClaimStats P s old power qa).minerAboveMinPowerCount < 0) := by
          rw [hc]; exact Int.not_lt.mpr hnn
        have e1 := (addToClaimStats_claims P s old power qa).1
        simp [n1, n2, n3, setClaim, addPost, e1]

theorem addToClaim_ok (P : Params) (s s' : State) (m : Nat) (power qa : Int) (h : Inv P s)
    (hr : addToClaim P s m power qa = .ok s') :
    ∃ old, alookup m s.claims = some old ∧ 0 ≤ old.raw + power ∧ 0 ≤ old.qa + qa ∧
      s' = addPost P s m old power qa := by
  unfold addToClaim at hr
  rw [addToClaimD_eq P s m power qa h] at hr
  cases hl : alookup m s.claims with
  | none => simp [hl] at hr
  | some old =>
    simp only [hl] at hr
    by_cases n : old.raw + power < 0 ∨ old.qa + qa < 0
    · simp [n] at hr
    · simp only [n, if_false] at hr
      injection hr with hr
      exact ⟨old, rfl, by omega, by omega, hr.symm⟩

/-- UpdateClaimedPower preserves the invariant. -/
theorem update_inv (P : Params) (s s' : State) (m : Nat) (isMiner : Bool) (dr dq : Int)
    (h : Inv P s) (hr : updateClaimedPower P s m isMiner dr dq = .ok s') : Inv P s' := by
  unfold updateClaimedPower at hr
  cases isMiner with
  | false => simp at hr
  | true =>
    simp at hr
    obtain ⟨old, hl, h1, h2, rfl⟩ := addToClaim_ok P s s' m dr dq h hr
    exact addPost_inv P s m old dr dq h hl h1 h2

/-- CreateMiner (with the fresh id `s.nextId + gap` from Init) preserves the invariant. -/
theorem create_inv (P : Params) (s s' : State) (gap : Nat) (h : Inv P s)
    (hr : createMiner P { s with nextId := s.nextId + gap + 1 } (s.nextId + gap) = .ok s') :
    Inv P s' := by
  have hfresh : alookup (s.nextId + gap) s.claims = none := by
    apply alookup_none_of_fresh
    intro x hx
    have := h.fresh x hx
    omega
  simp [createMiner, setClaim] at hr
  subst hr
  have a1 := sumBy_aset_none fraw every _ { raw := 0, qa := 0 } _ hfresh
  have a2 := sumBy_aset_none fqa every _ { raw := 0, qa := 0 } _ hfresh
  have a3 := sumBy_aset_none fraw (above P) _ { raw := 0, qa := 0 } _ hfresh
  have a4 := sumBy_aset_none fqa (above P) _ { raw := 0, qa := 0 } _ hfresh
  have a5 := sumBy_aset_none one (above P) _ { raw := 0, qa := 0 } _ hfresh
  rw [term_every] at a1 a2
  rw [term_above] at a3 a4 a5
  simp only [fraw, fqa, one] at a1 a2 a3 a4 a5
  have c1 := h.committedRaw; have c2 := h.committedQA; have c3 := h.totalRaw
  have c4 := h.totalQA; have c5 := h.count
  refine ⟨?_, ?_, ?_, ?_, ?_, ?_, ?_, ?_, ?_⟩
  · exact noDupKeys_aset _ _ _ h.nodup
  · intro x hx
    cases mem_aset _ _ _ _ hx with
    | inl hx => subst hx; simp
    | inr hx => exact h.nonneg x hx
  · intro x hx
    cases mem_aset _ _ _ _ hx with
    | inl hx => subst hx; simp
    | inr hx => have := h.fresh x hx; simp; omega
  · simp only; rw [a1]; omega
  · simp only; rw [a2]; omega
  · simp only; rw [a3]; by_cases g : (0 : Int) < P.minPower <;> simp [g] <;> omega
  · simp only; rw [a4]; by_cases g : (0 : Int) < P.minPower <;> simp [g] <;> omega
  · simp only; rw [a5]
    by_cases g : (0 : Int) < P.minPower
    · simp [g]; omega
    · simp [g]; omega
  · simp only; rw [length_aset_none _ _ _ hfresh]; have := h.minerCount; omega

/-- erasing a zero claim (what `delete_claim` does after subtracting the claim) and decrementing
    `miner_count` keeps the invariant — provided the consensus minimum is positive: with
    `minPower ≤ 0` the erased miner stays counted in `miner_above_min_power_count`
    (see `count_drift_nonpositive_min`). -/
theorem erase_inv (P : Params) (t : State) (m : Nat) (z : Claim) (hP : 0 < P.minPower)
    (h : Inv P t) (hl : alookup m t.claims = some z) (hz1 : z.raw = 0) (hz2 : z.qa = 0) :
    Inv P { t with claims := aerase m t.claims, minerCount := t.minerCount - 1 } := by
  have a1 := sumBy_aerase fraw every m _ _ h.nodup hl
  have a2 := sumBy_aerase fqa every m _ _ h.nodup hl
  have a3 := sumBy_aerase fraw (above P) m _ _ h.nodup hl
  have a4 := sumBy_aerase fqa (above P) m _ _ h.nodup hl
  have a5 := sumBy_aerase one (above P) m _ _ h.nodup hl
  rw [term_every] at a1 a2
  rw [term_above] at a3 a4 a5
  have hlt : z.raw < P.minPower := by omega
  simp only [fraw, fqa, one, hlt, if_true] at a1 a2 a3 a4 a5
  have c1 := h.committedRaw; have c2 := h.committedQA; have c3 := h.totalRaw
  have c4 := h.totalQA; have c5 := h.count
  have hlen := length_aerase m _ _ h.nodup hl
  refine ⟨?_, ?_, ?_, ?_, ?_, ?_, ?_, ?_, ?_⟩
  · exact noDupKeys_aerase _ _ h.nodup
  · intro x hx; exact h.nonneg x (mem_aerase _ _ _ hx)
  · intro x hx; exact h.fresh x (mem_aerase _ _ _ hx)
  · simp only; rw [a1]; omega
  · simp only; rw [a2]; omega
  · simp only; rw [a3]; omega
  · simp only; rw [a4]; omega
  · simp only; rw [a5]; omega
  · simp only; have := h.minerCount; omega

/-- Under the invariant `delete_claim` never fails (so the cron path never continues with a
    half-updated state); without a claim it is a no-op, with a claim the state it leaves
    satisfies the invariant once `miner_count` is decremented (which the caller does). -/
theorem deleteClaimD_spec (P : Params) (s : State) (m : Nat) (hP : 0 < P.minPower) (h : Inv P s) :
    (deleteClaimD P s m).2 = none ∧
    ((alookup m s.claims = none ∧ (deleteClaimD P s m).1 = s) ∨
     ((alookup m s.claims).isSome ∧
      Inv P { (deleteClaimD P s m).1 with minerCount := (deleteClaimD P s m).1.minerCount - 1 })) := by
  unfold deleteClaimD
  cases hl : alookup m s.claims with
  | none => exact ⟨rfl, Or.inl ⟨rfl, rfl⟩⟩
  | some c =>
    simp only
    rw [addToClaimD_eq P s m (-c.raw) (-c.qa) h]
    simp only [hl]
    have n : ¬ (c.raw + -c.raw < 0 ∨ c.qa + -c.qa < 0) := by omega
    simp only [n, if_false]
    have hi := addPost_inv P s m c (-c.raw) (-c.qa) h hl (by omega) (by omega)
    have hl2 : alookup m (addPost P s m c (-c.raw) (-c.qa)).claims
        = some { raw := c.raw + -c.raw, qa := c.qa + -c.qa } := by
      simp [addPost]
    simp only [hl2]
    have e1 := erase_inv P _ m _ hP hi hl2 (by simp; omega) (by simp; omega)
    exact ⟨by simp, Or.inr ⟨by simp, e1⟩⟩

theorem cronDeleteOne_inv (P : Params) (s : State) (m : Nat) (hP : 0 < P.minPower) (h : Inv P s) :
    Inv P (cronDeleteOne P s m) := by
  obtain ⟨d1, d2⟩ := deleteClaimD_spec P s m hP h
  unfold cronDeleteOne
  cases hd : deleteClaimD P s m with
  | mk s' e =>
    rw [hd] at d1 d2
    simp only at d1 d2
    subst d1
    simp only
    cases d2 with
    | inl d =>
      obtain ⟨_, rfl⟩ := d
      refine ⟨h.nodup, h.nonneg, h.fresh, h.committedRaw, h.committedQA, h.totalRaw,
        h.totalQA, h.count, ?_⟩
      simp only
      have := h.minerCount
      omega
    | inr d => exact d.2

theorem cronDelete_fold_inv (P : Params) (hP : 0 < P.minPower) :
    ∀ (l : List Nat) (s : State), Inv P s → Inv P (l.foldl (cronDeleteOne P) s) := by
  intro l
  induction l with
  | nil => intro s h; exact h
  | cons m t ih => intro s h; exact ih _ (cronDeleteOne_inv P s m hP h)

theorem snapshot_inv (P : Params) (s : State) (h : Inv P s) : Inv P (snapshot s) :=
  ⟨h.nodup, h.nonneg, h.fresh, h.committedRaw, h.committedQA, h.totalRaw, h.totalQA, h.count,
    h.minerCount⟩

/-- **Every message preserves the invariant** (for a positive consensus minimum), and a failing
    message leaves the state unchanged. -/
theorem inv_step (P : Params) (hP : 0 < P.minPower) (s : State) (op : Op) (h : Inv P s) :
    Inv P (step P s op).1 ∧ (∀ e, (step P s op).2 = .err e → (step P s op).1 = s) := by
  cases op with
  | create gap execOk =>
    cases execOk with
    | false => simp [step]; exact h
    | true =>
      simp only [step]
      cases hc : createMiner P { s with nextId := s.nextId + gap + 1 } (s.nextId + gap) with
      | error e => simp; exact h
      | ok s' => simp; exact create_inv P s s' gap h hc
  | update m isMiner dr dq =>
    simp only [step]
    cases hu : updateClaimedPower P s m isMiner dr dq with
    | error e => simp; exact h
    | ok s' => simp; exact update_inv P s s' m isMiner dr dq h hu
  | cronDelete failed =>
    simp only [step, cronDelete]
    exact ⟨cronDelete_fold_inv P hP _ s h, by simp⟩
  | snapshot =>
    simp only [step]
    exact ⟨snapshot_inv P s h, by simp⟩

theorem inv_run (P : Params) (hP : 0 < P.minPower) :
    ∀ (ops : List Op) (s : State), Inv P s → Inv P (run P s ops) := by
  intro ops
  induction ops with
  | nil => intro s h; exact h
  | cons op rest ih => intro s h; exact ih _ (inv_step P hP s op h).1

/-! ### C02 (power half): the network totals are the sums of the claims -/

theorem minMiners_eq : minMiners = 4 := rfl

/-- In every reachable state each total the actor keeps is the corresponding sum over the claims
    table: committed totals over all claims, consensus totals and the consensus-miner count over
    the claims with `raw ≥ minPower`; no claim is negative. -/
theorem totals_fields (P : Params) (hP : 0 < P.minPower) (ops : List Op) :
    let s := run P init ops
    s.totalBytesCommitted = sumBy (fun c => c.raw) (fun _ => true) s.claims ∧
    s.totalQABytesCommitted = sumBy (fun c => c.qa) (fun _ => true) s.claims ∧
    s.totalRaw = sumBy (fun c => c.raw) (fun c => decide (c.raw ≥ P.minPower)) s.claims ∧
    s.totalQA = sumBy (fun c => c.qa) (fun c => decide (c.raw ≥ P.minPower)) s.claims ∧
    s.minerAboveMinPowerCount =
      ((s.claims.filter (fun x => decide (x.2.raw ≥ P.minPower))).length : Int) ∧
    (∀ x ∈ s.claims, 0 ≤ x.2.raw ∧ 0 ≤ x.2.qa) := by
  intro s
  have h := inv_run P hP ops init (inv_init P)
  refine ⟨h.committedRaw, h.committedQA, h.totalRaw, h.totalQA, ?_, h.nonneg⟩
  rw [h.count]
  exact sumBy_one_eq_count (above P) _

/-- **Network totals equal the sum of the per-miner claims under the consensus-minimum rule**:
    in every reachable state (any sequence of CreateMiner / UpdateClaimedPower / cron claim
    deletions / snapshots from the constructor's state) `current_total_power` is
    (Σ raw, Σ qa) over **all** claims while fewer than 4 claims have `raw ≥ minPower`, and
    (Σ raw, Σ qa) over exactly the claims with `raw ≥ minPower` otherwise. -/
theorem totals_eq_claims (P : Params) (hP : 0 < P.minPower) (ops : List Op) :
    let s := run P init ops
    currentTotalPower s =
      if ((s.claims.filter (fun x => decide (x.2.raw ≥ P.minPower))).length : Int) < 4
      then (sumBy (fun c => c.raw) (fun _ => true) s.claims,
            sumBy (fun c => c.qa) (fun _ => true) s.claims)
      else (sumBy (fun c => c.raw) (fun c => decide (c.raw ≥ P.minPower)) s.claims,
            sumBy (fun c => c.qa) (fun c => decide (c.raw ≥ P.minPower)) s.claims) := by
  intro s
  obtain ⟨h1, h2, h3, h4, h5, _⟩ := totals_fields P hP ops
  show currentTotalPower (run P init ops) = _
  unfold currentTotalPower
  rw [minMiners_eq, h1, h2, h3, h4, h5]

/-- the `this_epoch_*` values frozen by a cron tick are the rule's values at that moment -/
theorem snapshot_eq_claims (P : Params) (hP : 0 < P.minPower) (ops : List Op) :
    let s := run P init (ops ++ [.snapshot])
    (s.thisEpochRaw, s.thisEpochQA) =
      if ((s.claims.filter (fun x => decide (x.2.raw ≥ P.minPower))).length : Int) < 4
      then (sumBy (fun c => c.raw) (fun _ => true) s.claims,
            sumBy (fun c => c.qa) (fun _ => true) s.claims)
      else (sumBy (fun c => c.raw) (fun c => decide (c.raw ≥ P.minPower)) s.claims,
            sumBy (fun c => c.qa) (fun c => decide (c.raw ≥ P.minPower)) s.claims) := by
  intro s
  have hrun : ∀ (l : List Op) (t : State), run P t (l ++ [.snapshot]) = snapshot (run P t l) := by
    intro l
    induction l with
    | nil => intro t; rfl
    | cons op rest ih => intro t; exact ih _
  have e := totals_eq_claims P hP ops
  simp only at e
  have hs : s = snapshot (run P init ops) := hrun ops init
  rw [hs]
  exact e

/-- `miner_nominal_power_meets_consensus_minimum`: a miner with a claim meets the minimum iff
    `raw ≥ minPower`, or fewer than 4 miners are at the minimum and its raw power is positive. -/
theorem minerMeets_spec (P : Params) (s : State) (m : Nat) (c : Claim)
    (hl : alookup m s.claims = some c) :
    minerMeetsConsensusMinimum P s m =
      .ok (c.raw, decide (c.raw ≥ P.minPower ∨ (s.minerAboveMinPowerCount < 4 ∧ c.raw > 0))) := by
  unfold minerMeetsConsensusMinimum
  simp only [hl, minMiners_eq]
  by_cases h1 : c.raw ≥ P.minPower
  · simp [h1]
  · by_cases h2 : s.minerAboveMinPowerCount ≥ 4
    · have : ¬ (s.minerAboveMinPowerCount < 4) := by omega
      simp [h1, h2, this]
    · have : s.minerAboveMinPowerCount < 4 := by omega
      simp [h1, h2, this]

/-! ### What one UpdateClaimedPower does (no invariant needed) -/

theorem addToClaim_ok' (P : Params) (s s' : State) (m : Nat) (power qa : Int)
    (hr : addToClaim P s m power qa = .ok s') :
    ∃ old, alookup m s.claims = some old ∧ 0 ≤ old.raw + power ∧ 0 ≤ old.qa + qa ∧
      s' = addPost P s m old power qa := by
  unfold addToClaim addToClaimD at hr
  cases hl : alookup m s.claims with
  | none => simp [hl] at hr
  | some old =>
    simp only [hl] at hr
    by_cases n1 : old.raw + power < 0
    · simp [n1] at hr
    · by_cases n2 : old.qa + qa < 0
      · simp [n1, n2] at hr
      · by_cases n3 : (addToClaimStats P s old power qa).minerAboveMinPowerCount < 0
        · simp [n1, n2, n3] at hr
        · have e1 := (addToClaimStats_claims P s old power qa).1
          simp [n1, n2, n3, setClaim, e1] at hr
          exact ⟨old, rfl, by omega, by omega, by rw [← hr]; rfl⟩

/-- **A successful UpdateClaimedPower changes the sender's claim by exactly the deltas of the
    message and nobody else's claim.** -/
theorem update_claim_delta (P : Params) (s s' : State) (m : Nat) (isMiner : Bool) (dr dq : Int)
    (hr : updateClaimedPower P s m isMiner dr dq = .ok s') :
    (∃ old, alookup m s.claims = some old ∧
       alookup m s'.claims = some { raw := old.raw + dr, qa := old.qa + dq } ∧
       0 ≤ old.raw + dr ∧ 0 ≤ old.qa + dq) ∧
    (∀ k, k ≠ m → alookup k s'.claims = alookup k s.claims) := by
  unfold updateClaimedPower at hr
  cases isMiner with
  | false => simp at hr
  | true =>
    simp at hr
    obtain ⟨old, hl, h1, h2, rfl⟩ := addToClaim_ok' P s s' m dr dq hr
    refine ⟨⟨old, hl, by simp [addPost], h1, h2⟩, ?_⟩
    intro k hk
    simp only [addPost]
    exact alookup_aset_other _ _ _ _ hk

/-- **The boundary of the consensus minimum**, with the literal comparison `raw ≥ minPower`:
    a successful `add_to_claim` that takes a claim from below the minimum to `raw ≥ minPower`
    counts the miner (+1) and adds its *whole new* claim to the consensus totals; from
    `raw ≥ minPower` to below it un-counts the miner (−1) and removes its *whole old* claim;
    staying at/above adds the deltas; staying below changes neither count nor consensus totals.
    The committed totals always move by the deltas. -/
theorem add_to_claim_boundary (P : Params) (s s' : State) (m : Nat) (power qa : Int) (old : Claim)
    (hl : alookup m s.claims = some old) (hr : addToClaim P s m power qa = .ok s') :
    s'.totalBytesCommitted = s.totalBytesCommitted + power ∧
    s'.totalQABytesCommitted = s.totalQABytesCommitted + qa ∧
    (¬ (old.raw ≥ P.minPower) → old.raw + power ≥ P.minPower →
      s'.minerAboveMinPowerCount = s.minerAboveMinPowerCount + 1 ∧
      s'.totalRaw = s.totalRaw + (old.raw + power) ∧ s'.totalQA = s.totalQA + (old.qa + qa)) ∧
    (old.raw ≥ P.minPower → ¬ (old.raw + power ≥ P.minPower) →
      s'.minerAboveMinPowerCount = s.minerAboveMinPowerCount - 1 ∧
      s'.totalRaw = s.totalRaw - old.raw ∧ s'.totalQA = s.totalQA - old.qa) ∧
    (old.raw ≥ P.minPower → old.raw + power ≥ P.minPower →
      s'.minerAboveMinPowerCount = s.minerAboveMinPowerCount ∧
      s'.totalRaw = s.totalRaw + power ∧ s'.totalQA = s.totalQA + qa) ∧
    (¬ (old.raw ≥ P.minPower) → ¬ (old.raw + power ≥ P.minPower) →
      s'.minerAboveMinPowerCount = s.minerAboveMinPowerCount ∧
      s'.totalRaw = s.totalRaw ∧ s'.totalQA = s.totalQA) := by
  obtain ⟨old', hl', _, _, rfl⟩ := addToClaim_ok' P s s' m power qa hr
  rw [hl] at hl'; cases hl'
  simp only [addPost]
  unfold addToClaimStats
  by_cases g1 : old.raw < P.minPower <;> by_cases g2 : old.raw + power < P.minPower <;>
    simp [g1, g2] <;> omega

/-- exactly at the boundary: `minPower − 1 → minPower` is counted with the whole claim … -/
theorem boundary_up_counted (P : Params) (s s' : State) (m : Nat) (qa : Int) (old : Claim)
    (hl : alookup m s.claims = some old) (ho : old.raw = P.minPower - 1)
    (hr : addToClaim P s m 1 qa = .ok s') :
    s'.minerAboveMinPowerCount = s.minerAboveMinPowerCount + 1 ∧
    s'.totalRaw = s.totalRaw + P.minPower ∧ s'.totalQA = s.totalQA + (old.qa + qa) := by
  obtain ⟨_, _, h, _, _, _⟩ := add_to_claim_boundary P s s' m 1 qa old hl hr
  obtain ⟨a, b, c⟩ := h (by omega) (by omega)
  exact ⟨a, by rw [b]; omega, c⟩

/-- … and `minPower → minPower − 1` is un-counted with the whole old claim. -/
theorem boundary_down_uncounted (P : Params) (s s' : State) (m : Nat) (qa : Int) (old : Claim)
    (hl : alookup m s.claims = some old) (ho : old.raw = P.minPower)
    (hr : addToClaim P s m (-1) qa = .ok s') :
    s'.minerAboveMinPowerCount = s.minerAboveMinPowerCount - 1 ∧
    s'.totalRaw = s.totalRaw - P.minPower ∧ s'.totalQA = s.totalQA - old.qa := by
  obtain ⟨_, _, _, h, _, _⟩ := add_to_claim_boundary P s s' m (-1) qa old hl hr
  obtain ⟨a, b, c⟩ := h (by omega) (by omega)
  exact ⟨a, by rw [b]; omega, c⟩

/-! ### A claim is the sum of the deltas of its miner's successful updates -/

theorem addToClaimD_claims (P : Params) (s : State) (m : Nat) (power qa : Int) :
    ((addToClaimD P s m power qa).2 ≠ none ∧ (addToClaimD P s m power qa).1.claims = s.claims) ∨
    ((addToClaimD P s m power qa).2 = none ∧ ∃ old, alookup m s.claims = some old ∧
      (addToClaimD P s m power qa).1.claims
        = aset m { raw := old.raw + power, qa := old.qa + qa } s.claims) := by
  unfold addToClaimD
  cases hl : alookup m s.claims with
  | none => left; simp
  | some old =>
    have e1 := (addToClaimStats_claims P s old power qa).1
    simp only
    by_cases n1 : old.raw + power < 0
    · left; simp [n1, e1]
    · by_cases n2 : old.qa + qa < 0
      · left; simp [n1, n2, e1]
      · by_cases n3 : (addToClaimStats P s old power qa).minerAboveMinPowerCount < 0
        · left; simp [n1, n2, n3, e1]
        · right; simp [n1, n2, n3, setClaim, e1]

/-- `delete_claim` touches no other miner's claim; the miner's own claim is gone or untouched -/
theorem deleteClaimD_lookup (P : Params) (s : State) (m k : Nat) :
    alookup k (deleteClaimD P s m).1.claims = alookup k s.claims ∨
    alookup k (deleteClaimD P s m).1.claims = none := by
  unfold deleteClaimD
  cases hl : alookup m s.claims with
  | none => left; rfl
  | some c =>
    simp only
    have hc := addToClaimD_claims P s m (-c.raw) (-c.qa)
    cases hd : addToClaimD P s m (-c.raw) (-c.qa) with
    | mk s1 e =>
      rw [hd] at hc
      simp only at hc
      cases e with
      | some e =>
        simp only
        cases hc with
        | inl hc => left; rw [hc.2]
        | inr hc => simp at hc
      | none =>
        simp only
        cases hc with
        | inl hc => simp at hc
        | inr hc =>
          obtain ⟨_, old, _, hcl⟩ := hc
          have hs : alookup m s1.claims = some { raw := old.raw + -c.raw, qa := old.qa + -c.qa } := by
            rw [hcl]; exact alookup_aset_same _ _ _
          simp only [hs]
          by_cases hk : k = m
          · right; subst hk; exact alookup_aerase_same _ _
          · left
            rw [alookup_aerase_other _ _ _ hk, hcl, alookup_aset_other _ _ _ _ hk]

theorem cronDeleteOne_lookup (P : Params) (s : State) (m k : Nat) :
    alookup k (cronDeleteOne P s m).claims = alookup k s.claims ∨
    alookup k (cronDeleteOne P s m).claims = none := by
  have h := deleteClaimD_lookup P s m k
  unfold cronDeleteOne
  cases hd : deleteClaimD P s m with
  | mk s' e =>
    rw [hd] at h
    cases e <;> exact h

theorem cronDelete_fold_lookup (P : Params) (k : Nat) :
    ∀ (l : List Nat) (s : State),
      alookup k (l.foldl (cronDeleteOne P) s).claims = alookup k s.claims ∨
      alookup k (l.foldl (cronDeleteOne P) s).claims = none := by
  intro l
  induction l with
  | nil => intro s; left; rfl
  | cons m t ih =>
    intro s
    simp only [List.foldl]
    cases ih (cronDeleteOne P s m) with
    | inr h => right; exact h
    | inl h =>
      cases cronDeleteOne_lookup P s m k with
      | inl h2 => left; rw [h, h2]
      | inr h2 => right; rw [h, h2]

/-- ghost accumulator of one step for miner `m`: a *successful* UpdateClaimedPower of `m` adds
    its deltas, the creation of `m` resets to (0, 0), everything else leaves it alone
    (a deleted claim is simply absent until `m` is created again). -/
def accStep (P : Params) (m : Nat) (s : State) (acc : Int × Int) : Op → Int × Int
  | .update m' isMiner dr dq =>
    match updateClaimedPower P s m' isMiner dr dq with
    | .ok _ => if m' = m then (acc.1 + dr, acc.2 + dq) else acc
    | .error _ => acc
  | .create gap execOk => if execOk = true ∧ s.nextId + gap = m then (0, 0) else acc
  | .cronDelete _ => acc
  | .snapshot => acc

/-- ghost: replay `ops` from `s`, accumulating the deltas of miner `m`'s successful updates
    since its creation -/
def sumDeltas (P : Params) (m : Nat) : State → List Op → Int × Int → Int × Int
  | _, [], acc => acc
  | s, op :: rest, acc => sumDeltas P m (step P s op).1 rest (accStep P m s acc op)

theorem step_acc (P : Params) (m : Nat) (s : State) (op : Op) (acc : Int × Int)
    (hacc : ∀ c, alookup m s.claims = some c → (c.raw, c.qa) = acc) :
    ∀ c, alookup m (step P s op).1.claims = some c → (c.raw, c.qa) = accStep P m s acc op := by
  cases op with
  | create gap execOk =>
    cases execOk with
    | false => simpa [step, accStep] using hacc
    | true =>
      simp only [step, accStep, createMiner, setClaim]
      by_cases hm : s.nextId + gap = m
      · subst hm
        intro c hc
        simp at hc
        subst hc
        simp
      · intro c hc
        simp at hc
        rw [alookup_aset_other _ _ _ _ (fun e => hm e.symm)] at hc
        simp [hm]
        exact hacc c hc
  | update m' isMiner dr dq =>
    simp only [step, accStep]
    cases hu : updateClaimedPower P s m' isMiner dr dq with
    | error e => simpa using hacc
    | ok s' =>
      obtain ⟨⟨old, hl, hl', _, _⟩, hother⟩ := update_claim_delta P s s' m' isMiner dr dq hu
      simp only
      by_cases hm : m' = m
      · subst hm
        intro c hc
        rw [hl'] at hc
        injection hc with hc
        subst hc
        have := hacc old hl
        simp [← this]
      · intro c hc
        rw [hother m (fun e => hm e.symm)] at hc
        simp [hm]
        exact hacc c hc
  | cronDelete failed =>
    simp only [step, accStep, cronDelete]
    intro c hc
    cases cronDelete_fold_lookup P m (failed.filter fun m => (alookup m s.claims).isSome) s with
    | inl h => rw [h] at hc; exact hacc c hc
    | inr h => rw [h] at hc; cases hc
  | snapshot =>
    simpa [step, accStep, snapshot] using hacc

theorem claim_eq_sum_of_deltas_gen (P : Params) (m : Nat) :
    ∀ (ops : List Op) (s : State) (acc : Int × Int),
      (∀ c, alookup m s.claims = some c → (c.raw, c.qa) = acc) →
      ∀ c, alookup m (run P s ops).claims = some c → (c.raw, c.qa) = sumDeltas P m s ops acc := by
  intro ops
  induction ops with
  | nil => intro s acc hacc c hc; exact hacc c hc
  | cons op rest ih =>
    intro s acc hacc c hc
    exact ih (step P s op).1 (accStep P m s acc op) (step_acc P m s op acc hacc) c hc

/-- **Along any run from the constructor's state, a miner's claim (raw, qa) is the sum of the
    (raw, qa) deltas of its successful UpdateClaimedPower messages since its creation.** -/
theorem claim_eq_sum_of_deltas (P : Params) (m : Nat) (ops : List Op) (c : Claim)
    (hc : alookup m (run P init ops).claims = some c) :
    (c.raw, c.qa) = sumDeltas P m init ops (0, 0) :=
  claim_eq_sum_of_deltas_gen P m ops init (0, 0) (by intro c h; simp [init] at h) c hc

/-! ### `miner_count` equals the number of claims as long as no miner fails twice in one tick -/

/-- under the invariant, `delete_claim` of a miner with a claim is: subtract the claim, erase -/
theorem deleteClaimD_present (P : Params) (s : State) (m : Nat) (c : Claim) (h : Inv P s)
    (hl : alookup m s.claims = some c) :
    deleteClaimD P s m =
      ({ addPost P s m c (-c.raw) (-c.qa) with
          claims := aerase m (addPost P s m c (-c.raw) (-c.qa)).claims }, none) := by
  unfold deleteClaimD
  simp only [hl]
  rw [addToClaimD_eq P s m (-c.raw) (-c.qa) h]
  simp only [hl]
  have n : ¬ (c.raw + -c.raw < 0 ∨ c.qa + -c.qa < 0) := by omega
  simp only [n, if_false]
  have hl2 : alookup m (addPost P s m c (-c.raw) (-c.qa)).claims
      = some { raw := c.raw + -c.raw, qa := c.qa + -c.qa } := by
    simp [addPost]
  simp only [hl2]

/-- the claims are in step with `miner_count` -/
def CountExact (s : State) : Prop := s.minerCount = s.claims.length

theorem cronDeleteOne_present (P : Params) (s : State) (m : Nat) (c : Claim) (h : Inv P s)
    (hl : alookup m s.claims = some c) (hc : CountExact s) :
    CountExact (cronDeleteOne P s m) ∧
    (∀ k, k ≠ m → alookup k (cronDeleteOne P s m).claims = alookup k s.claims) := by
  unfold cronDeleteOne
  rw [deleteClaimD_present P s m c h hl]
  simp only
  have e3 := (addToClaimStats_claims P s c (-c.raw) (-c.qa)).2.2.1
  have hi := addPost_inv P s m c (-c.raw) (-c.qa) h hl (by omega) (by omega)
  have hl2 : alookup m (addPost P s m c (-c.raw) (-c.qa)).claims
      = some { raw := c.raw + -c.raw, qa := c.qa + -c.qa } := by
    simp [addPost]
  have hlen := length_aerase m _ _ hi.nodup hl2
  have hlen2 : (addPost P s m c (-c.raw) (-c.qa)).claims.length = s.claims.length := by
    simp [addPost, length_aset_some _ _ _ _ hl]
  constructor
  · unfold CountExact at hc ⊢
    simp only
    have : (addPost P s m c (-c.raw) (-c.qa)).minerCount = s.minerCount := e3
    omega
  · intro k hk
    show alookup k (aerase m (addPost P s m c (-c.raw) (-c.qa)).claims) = alookup k s.claims
    rw [alookup_aerase_other _ _ _ hk]
    simp only [addPost]
    exact alookup_aset_other _ _ _ _ hk

theorem cronDelete_fold_exact (P : Params) (hP : 0 < P.minPower) :
    ∀ (l : List Nat) (s : State), Inv P s → CountExact s → l.Nodup →
      (∀ m ∈ l, (alookup m s.claims).isSome) → CountExact (l.foldl (cronDeleteOne P) s) := by
  intro l
  induction l with
  | nil => intro s _ hc _ _; exact hc
  | cons m t ih =>
    intro s h hc hn hp
    simp only [List.foldl]
    have hm := hp m List.mem_cons_self
    cases hl : alookup m s.claims with
    | none => simp [hl] at hm
    | some c =>
      obtain ⟨e1, e2⟩ := cronDeleteOne_present P s m c h hl hc
      have hn' := List.nodup_cons.mp hn
      apply ih _ (cronDeleteOne_inv P s m hP h) e1 hn'.2
      intro k hk
      have hkm : k ≠ m := fun e => hn'.1 (e ▸ hk)
      rw [e2 k hkm]
      exact hp k (List.mem_cons_of_mem _ hk)

/-- no cron tick of the run reports the same miner twice -/
def NoDupFails : List Op → Prop
  | [] => True
  | .cronDelete l :: rest => l.Nodup ∧ NoDupFails rest
  | _ :: rest => NoDupFails rest

/-- `miner_count` is exactly the number of claims in every state reached by a run in which no
    miner fails two cron events in the same tick (otherwise see `minerCount_drift`). -/
theorem minerCount_eq_claims (P : Params) (hP : 0 < P.minPower) :
    ∀ (ops : List Op) (s : State), Inv P s → CountExact s → NoDupFails ops →
      CountExact (run P s ops) := by
  intro ops
  induction ops with
  | nil => intro s _ hc _; exact hc
  | cons op rest ih =>
    intro s h hc hn
    have hi := (inv_step P hP s op h).1
    cases op with
    | create gap execOk =>
      simp only [NoDupFails] at hn
      apply ih _ hi _ hn
      cases execOk with
      | false => simpa [step] using hc
      | true =>
        have hfresh : alookup (s.nextId + gap) s.claims = none := by
          apply alookup_none_of_fresh
          intro x hx
          have := h.fresh x hx
          omega
        unfold CountExact at hc ⊢
        simp [step, createMiner, setClaim, length_aset_none _ _ _ hfresh]
        omega
    | update m isMiner dr dq =>
      simp only [NoDupFails] at hn
      apply ih _ hi _ hn
      simp only [step]
      cases hu : updateClaimedPower P s m isMiner dr dq with
      | error e => simpa using hc
      | ok s' =>
        simp only
        unfold updateClaimedPower at hu
        cases isMiner with
        | false => simp at hu
        | true =>
          simp at hu
          obtain ⟨old, hl, _, _, rfl⟩ := addToClaim_ok' P s s' m dr dq hu
          have e3 := (addToClaimStats_claims P s old dr dq).2.2.1
          unfold CountExact at hc ⊢
          simp only [addPost, length_aset_some _ _ _ _ hl]
          rw [e3]; exact hc
    | cronDelete failed =>
      simp only [NoDupFails] at hn
      apply ih _ hi _ hn.2
      simp only [step, cronDelete]
      apply cronDelete_fold_exact P hP _ s h hc
      · exact hn.1.sublist List.filter_sublist
      · intro m hm
        exact (List.mem_filter.mp hm).2
    | snapshot =>
      simp only [NoDupFails] at hn
      exact ih _ hi hc hn

theorem minerCount_eq_claims_init (P : Params) (hP : 0 < P.minPower) (ops : List Op)
    (hn : NoDupFails ops) :
    (run P init ops).minerCount = ((run P init ops).claims.length : Int) :=
  minerCount_eq_claims P hP ops init (inv_init P) (by simp [CountExact, init]) hn

/-! ### Non-vacuity: a concrete run with five miners crossing the minimum both ways -/

def exP : Params := { minPower := 10 }

/-- ids 0, 1, 4, 5, 6; miner 0 crosses 9 → 10; then four miners are at/above the minimum -/
def exOps1 : List Op := [
  .create 0 true, .create 0 true, .create 2 true, .create 0 true, .create 0 true,
  .create 0 false,
  .update 0 true 9 18, .update 0 true 1 0,
  .update 1 true 10 10, .update 4 true 25 30, .update 5 true 10 40]

/-- miner 1 drops 10 → 9 (three miners left at the minimum); a negative claim, a caller without a
    claim and a non-miner caller are rejected -/
def exOps2 : List Op := [
  .update 6 true 3 3,
  .update 1 true (-1) 0,
  .update 1 true (-10) 0,
  .update 7 true 1 1,
  .update 4 false 1 1]

/-- miner 1 returns to the minimum, miner 5 loses its claim in a cron tick, snapshot -/
def exOps3 : List Op := [.update 1 true 1 5, .cronDelete [5], .snapshot]

example : (0 : Int) < exP.minPower := by decide

-- four miners at/above the minimum: the consensus totals count only them (miner 6 has 0)
example : run exP init exOps1 =
    { claims := [(0, ⟨10, 18⟩), (1, ⟨10, 10⟩), (4, ⟨25, 30⟩), (5, ⟨10, 40⟩), (6, ⟨0, 0⟩)],
      totalRaw := 55, totalQA := 98, totalBytesCommitted := 55, totalQABytesCommitted := 98,
      minerCount := 5, minerAboveMinPowerCount := 4, nextId := 7 } := by decide
example : currentTotalPower (run exP init exOps1) = (55, 98) := by decide

-- three miners at/above: `current_total_power` falls back to everything committed
example : run exP init (exOps1 ++ exOps2) =
    { claims := [(0, ⟨10, 18⟩), (1, ⟨9, 10⟩), (4, ⟨25, 30⟩), (5, ⟨10, 40⟩), (6, ⟨3, 3⟩)],
      totalRaw := 45, totalQA := 88, totalBytesCommitted := 57, totalQABytesCommitted := 101,
      minerCount := 5, minerAboveMinPowerCount := 3, nextId := 7 } := by decide
example : currentTotalPower (run exP init (exOps1 ++ exOps2)) = (57, 101) := by decide
example : (step exP (run exP init exOps1) (.update 1 true (-11) 0)).2 = .err .illegalState := by
  decide
example : (step exP (run exP init exOps1) (.update 7 true 1 1)).2 = .err .notFound := by decide
example : (step exP (run exP init exOps1) (.update 4 false 1 1)).2 = .err .forbidden := by decide

example : run exP init (exOps1 ++ exOps2 ++ exOps3) =
    { claims := [(0, ⟨10, 18⟩), (1, ⟨10, 15⟩), (4, ⟨25, 30⟩), (6, ⟨3, 3⟩)],
      totalRaw := 45, totalQA := 63, totalBytesCommitted := 48, totalQABytesCommitted := 66,
      minerCount := 4, minerAboveMinPowerCount := 3, thisEpochRaw := 48, thisEpochQA := 66,
      nextId := 7 } := by decide
example : sumDeltas exP 1 init (exOps1 ++ exOps2 ++ exOps3) (0, 0) = (10, 15) := by decide
example : Inv exP (run exP init (exOps1 ++ exOps2 ++ exOps3)) :=
  inv_run exP (by decide) _ _ (inv_init exP)

-- the boundary lemmas' hypotheses are satisfiable: miner 1 at 9 = minPower − 1 goes to 10 …
example : ∃ s', addToClaim exP (run exP init (exOps1 ++ exOps2)) 1 1 5 = .ok s' ∧
    s'.minerAboveMinPowerCount = 4 ∧ s'.totalRaw = 55 ∧ s'.totalQA = 103 :=
  ⟨_, rfl, by decide, by decide, by decide⟩
-- … and miner 1 at 10 = minPower goes to 9
example : ∃ s', addToClaim exP (run exP init exOps1) 1 (-1) 0 = .ok s' ∧
    s'.minerAboveMinPowerCount = 3 ∧ s'.totalRaw = 45 ∧ s'.totalQA = 88 :=
  ⟨_, rfl, by decide, by decide, by decide⟩

/-! ### Two places where the code's bookkeeping drifts (not part of the C02 statement) -/

/-- `miner_count` is decremented once per *failed cron event*: a miner failing two events in one
    tick (the second `delete_claim` is a silent no-op) is subtracted twice. -/
theorem minerCount_drift :
    (run exP init [.create 0 true, .create 0 true, .cronDelete [0, 0]]).minerCount = 0 ∧
    (run exP init [.create 0 true, .create 0 true, .cronDelete [0, 0]]).claims.length = 1 := by
  decide

/-- With a consensus minimum ≤ 0 (which `update_stats_for_new_miner` caters for) `delete_claim`
    leaves the deleted miner counted in `miner_above_min_power_count`: the hypothesis
    `0 < minPower` of `inv_step` is necessary. -/
theorem count_drift_nonpositive_min :
    (run { minPower := 0 } init [.create 0 true, .cronDelete [0]]).minerAboveMinPowerCount = 1 ∧
    (run { minPower := 0 } init [.create 0 true, .cronDelete [0]]).claims = [] := by
  decide

end BA.Power
