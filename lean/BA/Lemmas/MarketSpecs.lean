/- What the per-deal transitions of the market model do, in closed form (used by C06, C07, C08). -/
import BA.Lemmas.Market

namespace BA.Market
open BA

/-- the non-balance part of the state that deal processing leaves alone -/
structure SameReg (s s' : State) : Prop where
  epoch : s'.epoch = s.epoch
  proposals : s'.proposals = s.proposals
  states : s'.states = s.states
  nextId : s'.nextId = s.nextId
  dealOps : s'.dealOps = s.dealOps
  lastCron : s'.lastCron = s.lastCron
  closed : s'.closed = s.closed
  burntTotal : s'.burntTotal = s.burntTotal

theorem SameCore.toReg {s s' : State} (h : SameCore s s') : SameReg s s' :=
  ⟨h.epoch, h.proposals, h.states, h.nextId, h.dealOps, h.lastCron, h.closed, h.burntTotal⟩

theorem SameReg.trans {a b c : State} (h1 : SameReg a b) (h2 : SameReg b c) : SameReg a c :=
  ⟨h2.epoch.trans h1.epoch, h2.proposals.trans h1.proposals, h2.states.trans h1.states,
   h2.nextId.trans h1.nextId, h2.dealOps.trans h1.dealOps, h2.lastCron.trans h1.lastCron,
   h2.closed.trans h1.closed, h2.burntTotal.trans h1.burntTotal⟩

/-- positive part: what is actually moved when the code guards a transfer by `is_positive` -/
def pos (x : Int) : Int := if x > 0 then x else 0

theorem pos_of_nonneg {x : Int} (h : 0 ≤ x) : pos x = x := by
  unfold pos; split <;> omega

/-- the guarded payment: `if payment > 0 { transfer_balance(client → provider) }` plus the ghost
    ledger entry -/
theorem guardedPay_ok {s0 s1 : State} {cl pr id : Nat} {p : Int}
    (h : (if p > 0 then (match transferBalance s0 cl pr p with
             | .error e => (Except.error e : Except Err State)
             | .ok t => .ok (addPaid t id p)) else .ok s0) = .ok s1) :
    SameReg s0 s1 ∧ s1.pending = s0.pending ∧
    (∀ j, bal s1.paid j = bal s0.paid j + (if j = id then pos p else 0)) ∧
    (∀ j, bal s1.escrow j = bal s0.escrow j - (if j = cl then pos p else 0)
        + (if j = pr then pos p else 0)) ∧
    (∀ j, bal s1.locked j = bal s0.locked j - (if j = cl then pos p else 0)) ∧
    s1.totalClientFee = s0.totalClientFee - pos p ∧ s1.totalClientColl = s0.totalClientColl ∧
    s1.totalProviderColl = s0.totalProviderColl := by
  by_cases hp : p > 0
  · simp only [hp, if_true] at h
    have hpos : pos p = p := by simp [pos, hp]
    cases ht : transferBalance s0 cl pr p with
    | error e => simp [ht] at h
    | ok t =>
      simp only [ht] at h
      injection h with h
      subst h
      obtain ⟨c, _, _, _, t4, t5, t6, t7, t8⟩ := transferBalance_ok ht
      rw [hpos]
      refine ⟨⟨c.epoch, c.proposals, c.states, c.nextId, c.dealOps, c.lastCron, c.closed,
        c.burntTotal⟩, c.pending, ?_, t5, t4, t7, t6, t8⟩
      intro j
      simp only [addPaid]
      by_cases hj : j = id
      · subst hj; rw [bal_aset_same, c.paid]; simp
      · rw [bal_aset_other _ _ _ _ hj, c.paid]; simp [hj]
  · simp only [hp, if_false] at h
    injection h with h
    subst h
    have hpos : pos p = 0 := by simp [pos, hp]
    rw [hpos]
    exact ⟨⟨rfl, rfl, rfl, rfl, rfl, rfl, rfl, rfl⟩, rfl, by intro j; simp,
      by intro j; simp, by intro j; simp, by simp, rfl, rfl⟩

/-- indicator -/
def ind (j a : Nat) (x : Int) : Int := if j = a then x else 0

/-- `s'` differs from `s` in the balance tables and the three totals by the given amounts -/
structure Moves (s s' : State) (dEsc dLock : Nat → Int) (dCCv dFeev dPCv : Int) : Prop where
  escrow : ∀ j, bal s'.escrow j = bal s.escrow j + dEsc j
  locked : ∀ j, bal s'.locked j = bal s.locked j + dLock j
  cc : s'.totalClientColl = s.totalClientColl + dCCv
  fee : s'.totalClientFee = s.totalClientFee + dFeev
  pc : s'.totalProviderColl = s.totalProviderColl + dPCv

theorem Moves.refl (s : State) : Moves s s (fun _ => 0) (fun _ => 0) 0 0 0 :=
  ⟨by intro j; simp, by intro j; simp, by simp, by simp, by simp⟩

theorem Moves.trans {a b c : State} {e1 l1 e2 l2 : Nat → Int} {c1 f1 p1 c2 f2 p2 : Int}
    (h1 : Moves a b e1 l1 c1 f1 p1) (h2 : Moves b c e2 l2 c2 f2 p2) :
    Moves a c (fun j => e1 j + e2 j) (fun j => l1 j + l2 j) (c1 + c2) (f1 + f2) (p1 + p2) :=
  ⟨by intro j; rw [h2.escrow, h1.escrow]; omega, by intro j; rw [h2.locked, h1.locked]; omega,
   by rw [h2.cc, h1.cc]; omega, by rw [h2.fee, h1.fee]; omega, by rw [h2.pc, h1.pc]; omega⟩

theorem Moves.congr {a b : State} {e l e' l' : Nat → Int} {c f p c' f' p' : Int}
    (h : Moves a b e l c f p) (he : ∀ j, e j = e' j) (hl : ∀ j, l j = l' j)
    (hc : c = c') (hf : f = f') (hp : p = p') : Moves a b e' l' c' f' p' :=
  ⟨by intro j; rw [h.escrow, he], by intro j; rw [h.locked, hl], by rw [h.cc, hc],
   by rw [h.fee, hf], by rw [h.pc, hp]⟩

theorem unlock_moves {s s' : State} {a : Nat} {amt : Int} {r : Reason}
    (h : unlockBalance s a amt r = .ok s') :
    SameCore s s' ∧ 0 ≤ amt ∧
    Moves s s' (fun _ => 0) (fun j => - ind j a amt) (- dCC r amt) (- dFee r amt) (- dPC r amt) := by
  obtain ⟨c, h1, _, h3, h4, h5, h6, h7⟩ := unlockBalance_ok h
  refine ⟨c, h1, ⟨by intro j; simp [h3], ?_, by rw [h5]; omega, by rw [h6]; omega, by rw [h7]; omega⟩⟩
  intro j; rw [h4]; simp only [ind]; omega

theorem slash_moves {s s' : State} {a : Nat} {amt : Int} {r : Reason}
    (h : slashBalance s a amt r = .ok s') :
    SameCore s s' ∧ 0 ≤ amt ∧
    Moves s s' (fun j => - ind j a amt) (fun j => - ind j a amt) (- dCC r amt) (- dFee r amt)
      (- dPC r amt) := by
  obtain ⟨c, h1, _, _, h4, h5, h6, h7, h8⟩ := slashBalance_ok h
  refine ⟨c, h1, ⟨?_, ?_, by rw [h6]; omega, by rw [h7]; omega, by rw [h8]; omega⟩⟩
  · intro j; rw [h5]; simp only [ind]; omega
  · intro j; rw [h4]; simp only [ind]; omega

theorem guardedPay_moves {s0 s1 : State} {cl pr id : Nat} {p : Int}
    (h : (if p > 0 then (match transferBalance s0 cl pr p with
             | .error e => (Except.error e : Except Err State)
             | .ok t => .ok (addPaid t id p)) else .ok s0) = .ok s1) :
    SameReg s0 s1 ∧ s1.pending = s0.pending ∧
    (∀ j, bal s1.paid j = bal s0.paid j + ind j id (pos p)) ∧
    Moves s0 s1 (fun j => - ind j cl (pos p) + ind j pr (pos p)) (fun j => - ind j cl (pos p))
      0 (- pos p) 0 := by
  obtain ⟨c, hp, h1, h2, h3, h4, h5, h6⟩ := guardedPay_ok h
  refine ⟨c, hp, h1, ⟨?_, ?_, by rw [h5]; omega, by rw [h4]; omega, by rw [h6]; omega⟩⟩
  · intro j; rw [h2]; simp only [ind]; omega
  · intro j; rw [h3]; simp only [ind]; omega

/-- the payment window of `process_deal_update` -/
def payStartOf (d : Proposal) (lu : Int) : Int :=
  if lu ≠ -1 ∧ lu > d.startE then lu else d.startE

/-- What `process_deal_update` does. -/
theorem processDealUpdate_ok {s s' : State} {id : Nat} {d : Proposal} {st : DealState} {pay : Int}
    {completed : Bool} (h : processDealUpdate s id d st = .ok (s', pay, completed)) :
    ¬ (st.lastUpdated ≠ -1 ∧ st.lastUpdated > s.epoch) ∧
    SameReg s s' ∧
    s'.pending = (if st.lastUpdated ≠ -1 then s.pending else pendingRemove s.pending d) ∧
    (d.startE > s.epoch → pay = 0 ∧ completed = false) ∧
    (d.startE ≤ s.epoch →
      pay = d.price * (min d.endE s.epoch - payStartOf d st.lastUpdated) ∧
      (completed = true ↔ d.endE ≤ s.epoch)) ∧
    (∀ j, bal s'.paid j = bal s.paid j + ind j id (pos pay)) ∧
    Moves s s'
      (fun j => - ind j d.client (pos pay) + ind j d.provider (pos pay))
      (fun j => - ind j d.client (pos pay)
        - (if completed then ind j d.provider d.providerColl + ind j d.client d.clientColl else 0))
      (- (if completed then d.clientColl else 0)) (- pos pay)
      (- (if completed then d.providerColl else 0)) ∧
    (completed = true → 0 ≤ d.providerColl ∧ 0 ≤ d.clientColl) := by
  unfold processDealUpdate at h
  simp only [] at h
  by_cases hfut : st.lastUpdated ≠ -1 ∧ st.lastUpdated > s.epoch
  · simp [hfut] at h
  · simp only [hfut, if_false] at h
    refine ⟨hfut, ?_⟩
    -- the state after the optional removal from the pending set
    have key : ∀ s0 : State, SameReg s s0 → s0.paid = s.paid → s0.escrow = s.escrow →
        s0.locked = s.locked → s0.totalClientColl = s.totalClientColl →
        s0.totalClientFee = s.totalClientFee → s0.totalProviderColl = s.totalProviderColl →
        s0.pending = (if st.lastUpdated ≠ -1 then s.pending else pendingRemove s.pending d) →
        ((if d.startE > s.epoch then (Except.ok (s0, 0, false) : Except Err (State × Int × Bool))
          else
            match (if d.price * (min d.endE s.epoch - payStartOf d st.lastUpdated) > 0 then
                (match transferBalance s0 d.client d.provider
                    (d.price * (min d.endE s.epoch - payStartOf d st.lastUpdated)) with
                 | .error e => (Except.error e : Except Err State)
                 | .ok t => .ok (addPaid t id
                    (d.price * (min d.endE s.epoch - payStartOf d st.lastUpdated))))
              else .ok s0) with
            | .error e => .error e
            | .ok s1 =>
              if s.epoch ≥ d.endE then
                if st.sectorStart = -1 then .error .illegalState
                else match unlockBalance s1 d.provider d.providerColl .providerColl with
                  | .error e => .error e
                  | .ok s2 =>
                    match unlockBalance s2 d.client d.clientColl .clientColl with
                    | .error e => .error e
                    | .ok s3 => .ok (s3, d.price * (min d.endE s.epoch - payStartOf d st.lastUpdated), true)
              else .ok (s1, d.price * (min d.endE s.epoch - payStartOf d st.lastUpdated), false))
          = .ok (s', pay, completed)) →
        SameReg s s' ∧
        s'.pending = (if st.lastUpdated ≠ -1 then s.pending else pendingRemove s.pending d) ∧
        (d.startE > s.epoch → pay = 0 ∧ completed = false) ∧
        (d.startE ≤ s.epoch →
          pay = d.price * (min d.endE s.epoch - payStartOf d st.lastUpdated) ∧
          (completed = true ↔ d.endE ≤ s.epoch)) ∧
        (∀ j, bal s'.paid j = bal s.paid j + ind j id (pos pay)) ∧
        Moves s s'
          (fun j => - ind j d.client (pos pay) + ind j d.provider (pos pay))
          (fun j => - ind j d.client (pos pay)
            - (if completed then ind j d.provider d.providerColl + ind j d.client d.clientColl else 0))
          (- (if completed then d.clientColl else 0)) (- pos pay)
          (- (if completed then d.providerColl else 0)) ∧
        (completed = true → 0 ≤ d.providerColl ∧ 0 ≤ d.clientColl) := by
      intro s0 hreg hpaid hesc hlock hcc hfee hpc hpend hk
      have m0 : Moves s s0 (fun _ => 0) (fun _ => 0) 0 0 0 :=
        ⟨by intro j; simp [hesc], by intro j; simp [hlock], by simp [hcc], by simp [hfee],
         by simp [hpc]⟩
      by_cases hearly : d.startE > s.epoch
      · simp only [hearly, if_true] at hk
        injection hk with hk
        injection hk with hk1 hk2
        injection hk2 with hk2 hk3
        subst hk1; subst hk2; subst hk3
        refine ⟨hreg, hpend, fun _ => ⟨rfl, rfl⟩, fun hle => absurd hearly (by omega), ?_, ?_, ?_⟩
        · intro j; simp [hpaid, pos, ind]
        · exact m0.congr (by intro j; simp [pos, ind]) (by intro j; simp [pos, ind]) (by simp)
            (by simp [pos]) (by simp)
        · intro hc; simp at hc
      · simp only [hearly, if_false] at hk
        split at hk
        · simp at hk
        · rename_i s1 hs1
          obtain ⟨r1, p1, q1, m1⟩ := guardedPay_moves hs1
          by_cases hend : s.epoch ≥ d.endE
          · simp only [hend, if_true] at hk
            by_cases hss : st.sectorStart = -1
            · simp [hss] at hk
            · simp only [hss, if_false] at hk
              cases hu1 : unlockBalance s1 d.provider d.providerColl .providerColl with
              | error e => simp [hu1] at hk
              | ok s2 =>
                simp only [hu1] at hk
                cases hu2 : unlockBalance s2 d.client d.clientColl .clientColl with
                | error e => simp [hu2] at hk
                | ok s3 =>
                  simp only [hu2] at hk
                  injection hk with hk
                  injection hk with hk1 hk2
                  injection hk2 with hk2 hk3
                  subst hk1; subst hk2; subst hk3
                  obtain ⟨c2, n2, m2⟩ := unlock_moves hu1
                  obtain ⟨c3, n3, m3⟩ := unlock_moves hu2
                  refine ⟨(hreg.trans r1).trans (c2.toReg.trans c3.toReg), ?_,
                    fun hgt => absurd hgt hearly, fun _ => ⟨rfl, by simp; omega⟩, ?_, ?_,
                    fun _ => ⟨n2, n3⟩⟩
                  · rw [c3.pending, c2.pending, p1, hpend]
                  · intro j; rw [c3.paid, c2.paid, q1, hpaid]
                  · exact (((m0.trans m1).trans m2).trans m3).congr
                      (by intro j; simp) (by intro j; simp; omega)
                      (by simp [dCC]) (by simp [dFee]) (by simp [dPC])
          · simp only [hend, if_false] at hk
            injection hk with hk
            injection hk with hk1 hk2
            injection hk2 with hk2 hk3
            subst hk1; subst hk2; subst hk3
            refine ⟨hreg.trans r1, by rw [p1, hpend], fun hgt => absurd hgt hearly,
              fun _ => ⟨rfl, by simp; omega⟩, ?_, ?_, by intro hc; simp at hc⟩
            · intro j; rw [q1, hpaid]
            · exact (m0.trans m1).congr (by intro j; simp) (by intro j; simp) (by simp) (by simp)
                (by simp)
    refine key (if st.lastUpdated ≠ -1 then s else { s with pending := pendingRemove s.pending d })
      ?_ ?_ ?_ ?_ ?_ ?_ ?_ ?_ h
    · split <;> exact ⟨rfl, rfl, rfl, rfl, rfl, rfl, rfl, rfl⟩
    all_goals (split <;> rfl)

/-- the non-balance fields after `removeDeal` on a state `s0` whose registry part is that of `s` -/
structure RemovedFrom (s s' : State) (id : Nat) (c : Closed) : Prop where
  epoch : s'.epoch = s.epoch
  nextId : s'.nextId = s.nextId
  dealOps : s'.dealOps = s.dealOps
  lastCron : s'.lastCron = s.lastCron
  proposals : s'.proposals = aerase id s.proposals
  states : s'.states = aerase id s.states
  closed : s'.closed = s.closed ++ [(id, c)]
  burntTotal : s'.burntTotal = s.burntTotal + c.burnt

def timedOutRecord (s : State) (id : Nat) (d : Proposal) : Closed :=
  { kind := .timedOut, deal := d, atEpoch := s.epoch, paid := bal s.paid id, feeRefund := d.fee,
    clientCollRefund := d.clientColl, providerCollRefund := 0, burnt := d.providerColl }

/-- What the time-out of a never-activated proposal does. -/
theorem timeoutDeal_ok {s s' : State} {id : Nat} {d : Proposal} (h : timeoutDeal s id d = .ok s') :
    d ∈ s.pending ∧ 0 ≤ d.fee ∧ 0 ≤ d.clientColl ∧ 0 ≤ d.providerColl ∧
    RemovedFrom s s' id (timedOutRecord s id d) ∧
    s'.pending = pendingRemove s.pending d ∧
    (∀ j, bal s'.paid j = if j = id then 0 else bal s.paid j) ∧
    Moves s s' (fun j => - ind j d.provider d.providerColl)
      (fun j => - ind j d.client (d.fee + d.clientColl) - ind j d.provider d.providerColl)
      (- d.clientColl) (- d.fee) (- d.providerColl) := by
  unfold timeoutDeal at h
  simp only [Int.sub_self] at h
  cases h1 : unlockBalance s d.client d.fee .clientFee with
  | error e => simp [h1] at h
  | ok s1 =>
    simp only [h1] at h
    cases h2 : unlockBalance s1 d.client d.clientColl .clientColl with
    | error e => simp [h2] at h
    | ok s2 =>
      simp only [h2] at h
      cases h3 : slashBalance s2 d.provider d.providerColl .providerColl with
      | error e => simp [h3] at h
      | ok s3 =>
        simp only [h3] at h
        cases h4 : unlockBalance s3 d.provider 0 .providerColl with
        | error e => simp [h4] at h
        | ok s4 =>
          simp only [h4] at h
          obtain ⟨c1, n1, m1⟩ := unlock_moves h1
          obtain ⟨c2, n2, m2⟩ := unlock_moves h2
          obtain ⟨c3, n3, m3⟩ := slash_moves h3
          obtain ⟨c4, _, m4⟩ := unlock_moves h4
          have c := ((c1.trans c2).trans c3).trans c4
          by_cases hp : d ∉ s4.pending
          · simp [hp] at h
          · simp only [hp, if_false] at h
            injection h with h
            subst h
            have hp' : d ∈ s.pending := by
              have : d ∈ s4.pending := by simpa using hp
              rw [c.pending] at this; exact this
            refine ⟨hp', n1, n2, n3, ⟨c.epoch, c.nextId, c.dealOps, c.lastCron, ?_, ?_, ?_, ?_⟩,
              ?_, ?_, ?_⟩
            · simp [removeDeal, c.proposals]
            · simp [removeDeal, c.states]
            · simp [removeDeal, c.closed, timedOutRecord]
            · simp [removeDeal, c.burntTotal, timedOutRecord]
            · simp [removeDeal, c.pending]
            · intro j
              simp only [removeDeal]
              by_cases hj : j = id
              · subst hj; simp [bal_aerase_same]
              · simp [hj, bal_aerase_other _ _ _ hj, c.paid]
            · have m := ((m1.trans m2).trans m3).trans m4
              exact ⟨by intro j; simp only [removeDeal]; rw [m.escrow]; simp,
                by intro j; simp only [removeDeal]; rw [m.locked]; simp [ind]; split <;> split <;> omega,
                by simp only [removeDeal]; rw [m.cc]; simp [dCC],
                by simp only [removeDeal]; rw [m.fee]; simp [dFee],
                by simp only [removeDeal]; rw [m.pc]; simp [dPC]⟩

/-- the payment made at termination and the fee handed back -/
def termPayment (d : Proposal) (lu : Int) (se : Int) : Int :=
  d.price * (max 0 (min d.endE se - max d.startE lu))
def termRemaining (d : Proposal) (se : Int) : Int := d.price * (d.endE - max se d.startE)

def terminatedRecord (s : State) (id : Nat) (d : Proposal) (st : DealState) (se : Int) : Closed :=
  { kind := .terminated, deal := d, atEpoch := se,
    paid := bal s.paid id + pos (termPayment d st.lastUpdated se),
    feeRefund := termRemaining d se, clientCollRefund := d.clientColl, providerCollRefund := 0,
    burnt := d.providerColl }

/-- What one deal of `on_miner_sectors_terminate` does. -/
theorem terminateOne_ok {s s' : State} {c : Nat} {se : Int} {id : Nat} {a : Int}
    (h : terminateOne s c se id = .ok (s', a)) :
    (alookup id s.proposals = none ∧ s' = s ∧ a = 0) ∨
    (∃ d, alookup id s.proposals = some d ∧ d.provider = c ∧ d.endE ≤ se ∧ s' = s ∧ a = 0) ∨
    (∃ d st, alookup id s.proposals = some d ∧ d.provider = c ∧ se < d.endE ∧
      alookup id s.states = some st ∧ a = d.providerColl ∧
      0 ≤ termRemaining d se ∧ 0 ≤ d.clientColl ∧ 0 ≤ d.providerColl ∧
      RemovedFrom s s' id (terminatedRecord s id d st se) ∧
      s'.pending = (if st.lastUpdated = -1 then pendingRemove s.pending d else s.pending) ∧
      (∀ j, bal s'.paid j = if j = id then 0 else bal s.paid j) ∧
      Moves s s'
        (fun j => - ind j d.client (pos (termPayment d st.lastUpdated se))
          + ind j d.provider (pos (termPayment d st.lastUpdated se)) - ind j d.provider d.providerColl)
        (fun j => - ind j d.client (pos (termPayment d st.lastUpdated se) + termRemaining d se + d.clientColl)
          - ind j d.provider d.providerColl)
        (- d.clientColl) (- (pos (termPayment d st.lastUpdated se) + termRemaining d se))
        (- d.providerColl)) := by
  unfold terminateOne at h
  cases hp : alookup id s.proposals with
  | none =>
    simp [hp] at h
    exact Or.inl ⟨rfl, h.1.symm, h.2.symm⟩
  | some d =>
    simp only [hp] at h
    by_cases h1 : d.provider ≠ c
    · simp [h1] at h
    · simp only [h1, if_false] at h
      have h1' : d.provider = c := by simpa using h1
      by_cases h2 : d.endE ≤ se
      · simp [h2] at h
        exact Or.inr (Or.inl ⟨d, rfl, h1', h2, h.1.symm, h.2.symm⟩)
      · simp only [h2, if_false] at h
        cases hst : alookup id s.states with
        | none => simp [hst] at h
        | some st =>
          simp only [hst] at h
          right; right
          split at h
          · simp at h
          · rename_i s1 hs1
            have hs1' : (if termPayment d st.lastUpdated se > 0 then
                (match transferBalance (if st.lastUpdated = -1 then { s with pending := pendingRemove s.pending d } else s)
                    d.client d.provider (termPayment d st.lastUpdated se) with
                 | .error e => (Except.error e : Except Err State)
                 | .ok t => .ok (addPaid t id (termPayment d st.lastUpdated se)))
              else .ok (if st.lastUpdated = -1 then { s with pending := pendingRemove s.pending d } else s))
                = .ok s1 := hs1
            obtain ⟨r1, p1, q1, m1⟩ := guardedPay_moves hs1'
            cases hr : paymentRemaining d se with
            | error e => simp [hr] at h
            | ok rem =>
              simp only [hr] at h
              have hrem : rem = termRemaining d se := by
                unfold paymentRemaining at hr
                simp only [guard_ok] at hr
                obtain ⟨_, _, hr⟩ := hr
                injection hr with hr
                rw [← hr]; rfl
              cases hu1 : unlockBalance s1 d.client rem .clientFee with
              | error e => simp [hu1] at h
              | ok s2 =>
                simp only [hu1] at h
                cases hu2 : unlockBalance s2 d.client d.clientColl .clientColl with
                | error e => simp [hu2] at h
                | ok s3 =>
                  simp only [hu2] at h
                  cases hu3 : slashBalance s3 d.provider d.providerColl .providerColl with
                  | error e => simp [hu3] at h
                  | ok s4 =>
                    simp only [hu3] at h
                    injection h with h
                    injection h with ha hb
                    subst ha; subst hb
                    obtain ⟨c2, n2, m2⟩ := unlock_moves hu1
                    obtain ⟨c3, n3, m3⟩ := unlock_moves hu2
                    obtain ⟨c4, n4, m4⟩ := slash_moves hu3
                    have cc := (c2.trans c3).trans c4
                    have r0 : SameReg s (if st.lastUpdated = -1 then { s with pending := pendingRemove s.pending d } else s) := by
                      split <;> exact ⟨rfl, rfl, rfl, rfl, rfl, rfl, rfl, rfl⟩
                    have rr := (r0.trans r1).trans cc.toReg
                    have m0 : Moves s (if st.lastUpdated = -1 then { s with pending := pendingRemove s.pending d } else s)
                        (fun _ => 0) (fun _ => 0) 0 0 0 := by
                      split
                      · exact ⟨by intro j; simp, by intro j; simp, by simp, by simp, by simp⟩
                      · exact Moves.refl s
                    have hpaid0 : (if st.lastUpdated = -1 then { s with pending := pendingRemove s.pending d } else s).paid = s.paid := by
                      split <;> rfl
                    have hpaid4 : ∀ j, bal s4.paid j = bal s.paid j + ind j id (pos (termPayment d st.lastUpdated se)) := by
                      intro j; rw [cc.paid, q1, hpaid0]
                    refine ⟨d, st, rfl, h1', by omega, rfl, rfl, by rw [← hrem]; exact n2, n3, n4,
                      ⟨rr.epoch, rr.nextId, rr.dealOps, rr.lastCron, ?_, ?_, ?_, ?_⟩, ?_, ?_, ?_⟩
                    · simp [removeDeal, rr.proposals]
                    · simp [removeDeal, rr.states]
                    · simp only [removeDeal, rr.closed, terminatedRecord]
                      rw [hpaid4 id, hrem]; simp [ind]
                    · simp [removeDeal, rr.burntTotal, terminatedRecord]
                    · simp only [removeDeal]
                      rw [cc.pending, p1]
                      split <;> rfl
                    · intro j
                      simp only [removeDeal]
                      by_cases hj : j = id
                      · subst hj; simp [bal_aerase_same]
                      · rw [bal_aerase_other _ _ _ hj, hpaid4 j]; simp [hj, ind]
                    · have m := (((m0.trans m1).trans m2).trans m3).trans m4
                      subst hrem
                      exact ⟨by intro j; simp only [removeDeal]; rw [m.escrow]; simp; omega,
                        by intro j; simp only [removeDeal]; rw [m.locked]; simp [ind]; split <;> split <;> omega,
                        by simp only [removeDeal]; rw [m.cc]; simp [dCC],
                        by simp only [removeDeal]; rw [m.fee]; simp [dFee]; omega,
                        by simp only [removeDeal]; rw [m.pc]; simp [dPC]⟩

end BA.Market
