/- The escrow equation: an escrow balance moves only by deposits, withdrawals, and the credits /
   debits / burns of the party's own deals (all in closed form). -/
import BA.Lemmas.MarketPres

namespace BA.Market
open BA

/-- +1 for the provider of the deal, −1 for its client (0 for a self-deal or a stranger) -/
def sgn (p : Nat) (d : Proposal) : Int := ind p d.provider 1 - ind p d.client 1

/-- net credit of party `p` from a live deal: what it was paid as provider / paid as client so far -/
def creditH (p : Nat) (d : Proposal) (o : Option DealState) : Int :=
  sgn p d * (d.price * (luTo d o - d.startE))

/-- net credit of party `p` from a deal that has ended -/
def closedCredit (p : Nat) (c : Closed) : Int :=
  ind p c.deal.provider (c.paid - c.burnt) - ind p c.deal.client c.paid

/-- everything the deals (live and ended) explain of `p`'s escrow -/
def explained (t : State) (p : Nat) : Int :=
  dsum (creditH p) t.states t.proposals + asum (fun _ c => closedCredit p c) t.closed

/-- the rest: net deposits of `p` -/
def net (t : State) (p : Nat) : Int := bal t.escrow p - explained t p

theorem asum_append {α : Type} (f : Nat → α → Int) (a b : List (Nat × α)) :
    asum f (a ++ b) = asum f a + asum f b := by
  induction a with
  | nil => simp [asum]
  | cons hd t ih => obtain ⟨k, v⟩ := hd; simp only [List.cons_append, asum, ih]; omega

theorem sgn_mul (p : Nat) (d : Proposal) (x : Int) :
    sgn p d * x = ind p d.provider x - ind p d.client x := by
  unfold sgn ind
  split <;> split <;> simp

/-- a continuing payment for deal `id` leaves everybody's net deposits unchanged -/
theorem net_pay {s s' : State} (hi : Inv s) {id : Nat} {d : Proposal} {st : DealState}
    (hp : alookup id s.proposals = some d) (hst : alookup id s.states = some st)
    (hprops : s'.proposals = s.proposals)
    (hstates : s'.states = aset id { st with lastUpdated := s.epoch } s.states)
    (hclosed : s'.closed = s.closed)
    {P : Int} (hP : P = d.price * (max d.startE s.epoch - max d.startE st.lastUpdated))
    (hesc : ∀ j, bal s'.escrow j = bal s.escrow j + (- ind j d.client P + ind j d.provider P))
    (p : Nat) : net s' p = net s p := by
  have hs : ∀ k, k ≠ id → alookup k (aset id { st with lastUpdated := s.epoch } s.states)
      = alookup k s.states := fun k hk => alookup_aset_other _ _ _ _ hk
  have hnew : alookup id (aset id { st with lastUpdated := s.epoch } s.states)
      = some { st with lastUpdated := s.epoch } := alookup_aset_same _ _ _
  have harith : d.price * (max d.startE s.epoch - d.startE)
      = d.price * (max d.startE st.lastUpdated - d.startE) + P := by
    rw [hP, ← Int.mul_add]; congr 1; omega
  unfold net explained
  rw [hesc, hprops, hstates, hclosed, dsum_update hi.wf.nd hp hs, hst, hnew]
  simp only [creditH, luTo, sgn_mul]
  rw [harith]
  simp only [ind]
  split <;> split <;> omega

/-- removing deal `id` with closing record `c` leaves everybody's net deposits unchanged, when the
    escrow moved by the last payment `P` (client → provider) and the burn, and the record's `paid`
    is what had been credited before plus `P` -/
theorem net_remove {s s' : State} (hi : Inv s) {id : Nat} {d : Proposal}
    (hp : alookup id s.proposals = some d)
    (hprops : s'.proposals = aerase id s.proposals) (hstates : s'.states = aerase id s.states)
    {c : Closed} (hclosed : s'.closed = s.closed ++ [(id, c)]) (hdeal : c.deal = d)
    {P : Int} (hpaid : c.paid = d.price * (luTo d (alookup id s.states) - d.startE) + P)
    (hesc : ∀ j, bal s'.escrow j = bal s.escrow j
      + (- ind j d.client P + ind j d.provider P - ind j d.provider c.burnt))
    (p : Nat) : net s' p = net s p := by
  have hs : ∀ k, k ≠ id → alookup k (aerase id s.states) = alookup k s.states :=
    fun k hk => alookup_aerase_other _ _ _ hk
  unfold net explained
  rw [hesc, hprops, hstates, hclosed, dsum_erase hi.wf.nd hp hs, asum_append]
  simp only [asum, closedCredit, hdeal, creditH, sgn_mul, hpaid]
  simp only [ind]
  split <;> split <;> omega

/-- `net` reads only the escrow table, the registry and the closing records -/
theorem net_frame {s s' : State} (h1 : s'.escrow = s.escrow) (h2 : s'.proposals = s.proposals)
    (h3 : s'.states = s.states) (h4 : s'.closed = s.closed) (p : Nat) : net s' p = net s p := by
  unfold net explained; rw [h1, h2, h3, h4]

theorem net_states_same_lu {s : State} (hi : Inv s) (sts : List (Nat × DealState))
    (h2 : ∀ k d, alookup k s.proposals = some d → luTo d (alookup k sts) = luTo d (alookup k s.states))
    (p : Nat) : net { s with states := sts } p = net s p := by
  unfold net explained
  show bal s.escrow p - (dsum (creditH p) sts s.proposals + _) = _
  have : dsum (creditH p) sts s.proposals = dsum (creditH p) s.states s.proposals := by
    apply dsum_same
    intro k d hm
    simp only [creditH, h2 k d (mem_alookup_ND hi.wf.nd hm)]
  rw [this]

theorem net_addBalance {s s' : State} {a : Nat} {v : Int} {r : Bool}
    (h : addBalance s a v r = .ok s') (p : Nat) : net s' p = net s p + ind p a v := by
  unfold addBalance at h
  simp only [guard_ok] at h
  obtain ⟨_, _, h⟩ := h
  cases hb : badd s.escrow a v with
  | error e => simp [hb] at h
  | ok esc =>
    simp only [hb] at h
    injection h with h; subst h
    obtain ⟨_, b2, b3⟩ := badd_ok hb
    unfold net explained
    show bal esc p - _ = _
    by_cases hp : p = a
    · subst hp; rw [b2]; simp [ind]; omega
    · rw [b3 p hp]; simp [ind, hp]

theorem net_withdraw {s s' : State} {c n : Nat} {a : Int} {env : PartyEnv} {so : Bool} {w : Withdrawal}
    (h : withdraw s c n a env so = .ok (s', w)) (p : Nat) : net s' p = net s p - ind p n w.amount := by
  unfold withdraw at h
  simp only [guard_ok] at h
  obtain ⟨_, _, _, h⟩ := h
  split at h
  · simp at h
  · rename_i esc hesc
    simp only [guard_ok] at h
    obtain ⟨_, h⟩ := h
    injection h with h; injection h with ha hb
    subst ha; subst hb
    unfold net explained
    show bal esc p - _ = _ - ind p n (min (max 0 (bal s.escrow n - bal s.locked n)) a)
    by_cases hex : min (max 0 (bal s.escrow n - bal s.locked n)) a > 0
    · simp only [hex, if_true] at hesc
      obtain ⟨_, b2, b3⟩ := badd_ok hesc
      by_cases hp : p = n
      · subst hp; rw [b2]; simp [ind]; omega
      · rw [b3 p hp]; simp [ind, hp]
    · simp only [hex, if_false] at hesc
      injection hesc with hesc; subst hesc
      have : min (max 0 (bal s.escrow n - bal s.locked n)) a = 0 := by omega
      rw [this]; simp [ind]

theorem net_publishOne {s s' : State} {d : Proposal} {id : Nat} (hi : Inv s)
    (h : publishOne s d = .ok (s', id)) (p : Nat) : net s' p = net s p := by
  unfold publishOne at h
  cases hl : lockBoth s d with
  | error e => simp [hl] at h
  | ok s1 =>
    simp only [hl] at h
    injection h with h; injection h with h1 h2
    subst h1
    obtain ⟨c, _, _, hesc, _⟩ := lockBoth_ok hl
    have hnone : alookup s1.nextId s.proposals = none := by
      cases hq : alookup s1.nextId s.proposals with
      | none => rfl
      | some d' => have := hi.wf.fresh _ _ hq; rw [c.nextId] at this; omega
    have hsnone : alookup s1.nextId s.states = none := by
      cases hq : alookup s1.nextId s.states with
      | none => rfl
      | some st =>
        obtain ⟨d', hd', _⟩ := hi.wf.st _ _ hq
        rw [hnone] at hd'; simp at hd'
    unfold net explained
    show bal s1.escrow p - (dsum (creditH p) s1.states (aset s1.nextId d s1.proposals)
      + asum _ s1.closed) = _
    rw [hesc, c.states, c.proposals, c.closed, dsum_new d hnone, hsnone]
    simp [creditH, luTo]

theorem net_timeout {s s' : State} (hi : Inv s) {id : Nat} {d : Proposal}
    (hp : alookup id s.proposals = some d) (hst : alookup id s.states = none)
    (h : timeoutDeal s id d = .ok s') (p : Nat) : net s' p = net s p := by
  obtain ⟨_, _, _, _, r, _, _, m⟩ := timeoutDeal_ok h
  have hl := hi.ledg.live id d hp
  apply net_remove hi hp r.proposals r.states r.closed (c := timedOutRecord s id d) rfl (P := 0)
  · show bal s.paid id = _; rw [hl]; omega
  · intro j; rw [m.escrow]; simp [ind, timedOutRecord]

theorem net_complete {s s1 : State} (hi : Inv s) {id : Nat} {d : Proposal} {st : DealState} {pay : Int}
    (hp : alookup id s.proposals = some d) (hst : alookup id s.states = some st)
    (h : processDealUpdate s id d st = .ok (s1, pay, true)) (p : Nat) :
    net (removeDeal s1 id (completedRecord s1 id d)) p = net s p := by
  obtain ⟨_, r, _, _, _, hpaid, m, _⟩ := processDealUpdate_ok h
  have hl := hi.ledg.live id d hp
  apply net_remove hi hp (c := completedRecord s1 id d) (P := pos pay)
    (by show aerase id s1.proposals = _; rw [r.proposals])
    (by show aerase id s1.states = _; rw [r.states])
    (by show s1.closed ++ _ = _; rw [r.closed]) rfl
  · show bal s1.paid id = _; rw [hpaid, hl]; simp [ind]
  · intro j; show bal s1.escrow j = _; rw [m.escrow]; simp [completedRecord, ind]

theorem net_paystep {s s1 s' : State} (hi : Inv s) {id : Nat} {d : Proposal} {st : DealState} {pay : Int}
    (hp : alookup id s.proposals = some d) (hst : alookup id s.states = some st)
    (h : processDealUpdate s id d st = .ok (s1, pay, false))
    (hpr : s'.proposals = s1.proposals)
    (hsts : s'.states = aset id { st with lastUpdated := s.epoch } s1.states)
    (hesc : s'.escrow = s1.escrow) (hcl : s'.closed = s1.closed) (p : Nat) : net s' p = net s p := by
  obtain ⟨_, r, _, h4, h5, _, m, _⟩ := processDealUpdate_ok h
  have g := hi.wf.good id d hp
  have hlu := wf_lu hi hp hst
  have hlt : s.epoch < d.endE := by
    by_cases hs : d.startE > s.epoch
    · have := g.dur; omega
    · have := (h5 (by omega)).2
      by_cases hend : d.endE ≤ s.epoch
      · have := this.mpr hend; simp at this
      · omega
  have hpayeq : pay = if d.startE > s.epoch then 0
      else d.price * (min d.endE s.epoch - payStartOf d st.lastUpdated) := by
    by_cases hs : d.startE > s.epoch
    · simp only [hs, if_true]; exact (h4 hs).1
    · simp only [hs, if_false]; exact (h5 (by omega)).1
  have hP := pay_arith d g st.lastUpdated s.epoch pay hlu hlt hpayeq
  apply net_pay hi hp hst (by rw [hpr, r.proposals]) (by rw [hsts, r.states]) (by rw [hcl, r.closed]) hP
  intro j; rw [hesc, m.escrow]

theorem net_settleOne (s : State) (id : Nat) (hi : Inv s) (p : Nat) :
    net (settleOne s id).1 p = net s p := by
  unfold settleOne
  cases hp : alookup id s.proposals with
  | none => rfl
  | some d =>
    simp only
    cases hst : alookup id s.states with
    | none =>
      simp only
      by_cases he : s.epoch < d.startE
      · simp only [he, if_true]
      · simp only [he, if_false]
        cases ht : timeoutDeal s id d with
        | error e => rfl
        | ok s' => exact net_timeout hi hp hst ht p
    | some st =>
      simp only
      cases hu : processDealUpdate s id d st with
      | error e => rfl
      | ok r =>
        obtain ⟨s1, pay, completed⟩ := r
        cases completed with
        | true => exact net_complete hi hp hst hu p
        | false => apply net_paystep hi hp hst hu <;> rfl

theorem net_terminateOne {s s' : State} {c : Nat} {id : Nat} {a : Int} (hi : Inv s)
    (h : terminateOne s c s.epoch id = .ok (s', a)) (p : Nat) : net s' p = net s p := by
  rcases terminateOne_ok h with ⟨_, he, _⟩ | ⟨_, _, _, _, he, _⟩ |
    ⟨d, st, hp, _, _, hst, _, _, _, _, r, _, _, m⟩
  · rw [he]
  · rw [he]
  · have hl := hi.ledg.live id d hp
    apply net_remove hi hp r.proposals r.states r.closed (c := terminatedRecord s id d st s.epoch) rfl
      (P := pos (termPayment d st.lastUpdated s.epoch))
    · show bal s.paid id + _ = _; rw [hl]
    · intro j; rw [m.escrow]; simp [terminatedRecord]

theorem net_cronOne {s s' : State} {id : Nat} {a : Int} (hi : Inv s)
    (h : cronOne s id = .ok (s', a)) (p : Nat) : net s' p = net s p := by
  unfold cronOne at h
  cases hp : alookup id s.proposals with
  | none => simp [hp] at h; rw [← h.1]
  | some d =>
    simp only [hp] at h
    cases hst : alookup id s.states with
    | none =>
      simp only [hst] at h
      by_cases he : s.epoch < d.startE
      · simp [he] at h
      · simp only [he, if_false] at h
        cases ht : timeoutDeal s id d with
        | error e => simp [ht] at h
        | ok s2 =>
          simp only [ht] at h
          injection h with h; injection h with h1 _; subst h1
          exact net_timeout hi hp hst ht p
    | some st =>
      simp only [hst] at h
      by_cases hlu : st.lastUpdated = -1
      · simp only [hlu, if_true] at h
        by_cases hpd : d ∉ s.pending
        · simp [hpd] at h
        · simp only [hpd, if_false] at h
          injection h with h; injection h with h1 _; subst h1
          rfl
      · simp only [hlu, if_false] at h
        cases hu : processDealUpdate s id d st with
        | error e => simp [hu] at h
        | ok r =>
          obtain ⟨s1, pay, completed⟩ := r
          simp only [hu] at h
          cases completed with
          | true =>
            simp only [if_true] at h
            injection h with h; injection h with h1 _; subst h1
            exact net_complete hi hp hst hu p
          | false =>
            simp only [Bool.false_eq_true, if_false] at h
            injection h with h; injection h with h1 _; subst h1
            apply net_paystep hi hp hst hu <;> rfl

end BA.Market
