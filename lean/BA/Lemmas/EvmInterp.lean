/- Helper lemmas for the EVM interpreter model (C17). -/
import BA.Model.Evm.Interp

namespace BA.Evm

theorem slice_getElem (a : Array UInt8) (off len : Nat) :
    slice a off len = (List.range (min len (a.size - off))).map (fun j => a.getD (off + j) 0) := by
  unfold slice
  apply List.ext_getElem
  · simp
  · intro i h1 h2
    simp at h1 h2 ⊢
    have : off + i < a.size := by omega
    simp [this]

theorem padRight_slice (a : Array UInt8) (off n : Nat) :
    padRight n (slice a off n) = (List.range n).map (fun j => a.getD (off + j) 0) := by
  rw [slice_getElem]
  unfold padRight
  apply List.ext_getElem
  · simp; omega
  · intro i h1 h2
    simp at h1 h2
    by_cases hi : i < min n (a.size - off)
    · rw [List.getElem_append_left (by simpa using hi)]
      simp
    · rw [List.getElem_append_right (by simpa using hi)]
      have : ¬ off + i < a.size := by omega
      simp [Array.getD, this]

theorem bytesToWord_zeros (l : List UInt8) (h : ∀ b ∈ l, b = 0) : bytesToWord l = 0#256 := by
  unfold bytesToWord
  have : ∀ (l : List UInt8), (∀ b ∈ l, b = 0) → l.foldl (fun acc b => acc * 256 + b.toNat) 0 = 0 := by
    intro l
    induction l with
    | nil => intro _; rfl
    | cons x t ih =>
      intro hl
      have hx : x = 0 := hl x (by simp)
      subst hx
      simpa using ih (fun b hb => hl b (by simp [hb]))
  rw [this l h]


theorem memRegion_cases (m : ByteArray) (off size : W) :
    memRegion m off size = .error .illegalMemoryAccess ∨
    (size.toNat = 0 ∧ memRegion m off size = .ok (m, none)) ∨
    (size.toNat ≠ 0 ∧ ∃ m', memRegion m off size = .ok (m', some (off.toNat, size.toNat))) := by
  unfold memRegion
  by_cases h1 : size.toNat > u32Max
  · simp [h1]
  · by_cases h2 : size.toNat = 0
    · simp [h2, u32Max]
    · by_cases h3 : off.toNat > u32Max
      · simp [h1, h2, h3]
      · by_cases h4 : off.toNat + size.toNat > u32Max
        · simp [h1, h2, h3, h4]
        · simp [h1, h2, h3, h4]

theorem memRegion32 (m : ByteArray) (off : W) :
    (off.toNat + 32 > u32Max ∧ memRegion m off 32#256 = .error .illegalMemoryAccess) ∨
    (off.toNat + 32 ≤ u32Max ∧ memRegion m off 32#256 = .ok (memGrow m (off.toNat + 32), some (off.toNat, 32))) := by
  unfold memRegion
  have h32 : (32#256 : W).toNat = 32 := by decide
  rw [h32]
  have h1 : ¬ 32 > u32Max := by unfold u32Max; omega
  by_cases h3 : off.toNat > u32Max
  · left; refine ⟨by omega, ?_⟩; simp [h1, h3]
  · by_cases h4 : off.toNat + 32 > u32Max
    · left; exact ⟨h4, by simp [h1, h3, h4]⟩
    · right; refine ⟨by omega, ?_⟩; simp [h1, h3, h4]


end BA.Evm
