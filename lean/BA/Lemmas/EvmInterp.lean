/- Helper lemmas for the EVM interpreter model (C17). -/
import BA.Model.Evm.Interp

namespace BA.Evm

theorem slice_getElem (a : Array UInt8) (off len : Nat) :
    slice a off len = (List.range (min len (a.size - off))).map (fun j => a.getD (off + j) 0) := by
  unfold slice
  apply List.ext_getElem
  · simp
  · intro i h1 h2
    simp at h1 h2 ⊢
    have : off + i < a.size := by omega
    simp [this]

theorem padRight_slice (a : Array UInt8) (off n : Nat) :
    padRight n (slice a off n) = (List.range n).map (fun j => a.getD (off + j) 0) := by
  rw [slice_getElem]
  unfold padRight
  apply List.ext_getElem
  · simp; omega
  · intro i h1 h2
    simp at h1 h2
    by_cases hi : i < min n (a.size - off)
    · rw [List.getElem_append_left (by simpa using hi)]
      simp
    · rw [List.getElem_append_right (by simpa using hi)]
      have : ¬ off + i < a.size := by omega
      simp [Array.getD, this]

theorem bytesToWord_zeros (l : List UInt8) (h : ∀ b ∈ l, b = 0) : bytesToWord l = 0#256 := by
  unfold bytesToWord
  have : ∀ (l : List UInt8), (∀ b ∈ l, b = 0) → l.foldl (fun acc b => acc * 256 + b.toNat) 0 = 0 := by
    intro l
    induction l with
    | nil => intro _; rfl
    | cons x t ih =>
      intro hl
      have hx : x = 0 := hl x (by simp)
      subst hx
      simpa using ih (fun b hb => hl b (by simp [hb]))
  rw [this l h]


theorem memRegion_cases (m : ByteArray) (off size : W) :
    memRegion m off size = .error .illegalMemoryAccess ∨
    (size.toNat = 0 ∧ memRegion m off size = .ok (m, none)) ∨
    (size.toNat ≠ 0 ∧ ∃ m', memRegion m off size = .ok (m', some (off.toNat, size.toNat))) := by
  unfold memRegion
  by_cases h1 : size.toNat > u32Max
  · simp [h1]
  · by_cases h2 : size.toNat = 0
    · simp [h2, u32Max]
    · by_cases h3 : off.toNat > u32Max
      · simp [h1, h2, h3]
      · by_cases h4 : off.toNat + size.toNat > u32Max
        · simp [h1, h2, h3, h4]
        · simp [h1, h2, h3, h4]

theorem memRegion32 (m : ByteArray) (off : W) :
    (off.toNat + 32 > u32Max ∧ memRegion m off 32#256 = .error .illegalMemoryAccess) ∨
    (off.toNat + 32 ≤ u32Max ∧ memRegion m off 32#256 = .ok (memGrow m (off.toNat + 32), some (off.toNat, 32))) := by
  unfold memRegion
  have h32 : (32#256 : W).toNat = 32 := by decide
  rw [h32]
  have h1 : ¬ 32 > u32Max := by unfold u32Max; omega
  by_cases h3 : off.toNat > u32Max
  · left; refine ⟨by omega, ?_⟩; simp [h1, h3]
  · by_cases h4 : off.toNat + 32 > u32Max
    · left; exact ⟨h4, by simp [h1, h3, h4]⟩
    · right; refine ⟨by omega, ?_⟩; simp [h1, h3, h4]


theorem writeBytes_size (l : List UInt8) : ∀ (m : ByteArray) (off : Nat), (writeBytes m off l).size = m.size := by
  induction l with
  | nil => intro m off; rfl
  | cons b t ih => intro m off; unfold writeBytes; rw [ih, ByteArray.size_set!]

theorem writeBytes_get (l : List UInt8) : ∀ (m : ByteArray) (off j : Nat), off + l.length ≤ m.size →
    (writeBytes m off l)[j]! = if off ≤ j ∧ j < off + l.length then l[j - off]! else m[j]! := by
  induction l with
  | nil => intro m off j _; simp [writeBytes]; omega
  | cons b t ih =>
    intro m off j h
    unfold writeBytes
    simp only [List.length_cons] at h
    rw [ih (m.set! off b) (off + 1) j (by rw [ByteArray.size_set!]; omega)]
    by_cases hj : j = off
    · subst hj
      have h1 : ¬ (j + 1 ≤ j ∧ j < j + 1 + t.length) := by omega
      have h2 : j ≤ j ∧ j < j + (t.length + 1) := by omega
      simp only [h1, if_false, List.length_cons, h2, and_self, if_true, Nat.sub_self]
      rw [ByteArray.getElem!_set!_self _ _ _ (by omega)]
      rfl
    · rw [ByteArray.getElem!_set!_ne _ _ _ _ (fun e => hj e.symm)]
      by_cases hin : off + 1 ≤ j ∧ j < off + 1 + t.length
      · have h2 : off ≤ j ∧ j < off + (t.length + 1) := by omega
        simp only [hin, and_self, if_true, List.length_cons, h2]
        have e : j - off = (j - (off + 1)) + 1 := by omega
        rw [e]; rfl
      · have h2 : ¬ (off ≤ j ∧ j < off + (t.length + 1)) := by omega
        simp only [hin, if_false, List.length_cons, h2]

theorem pushZeros_size : ∀ (k : Nat) (m : ByteArray), (pushZeros k m).size = m.size + k := by
  intro k
  induction k with
  | zero => intro m; rfl
  | succ k ih => intro m; unfold pushZeros; rw [ih, ByteArray.size_push]; omega

theorem memGrow_size_ge (m : ByteArray) (n : Nat) : n ≤ (memGrow m n).size := by
  unfold memGrow
  by_cases h : n ≤ m.size
  · simp [h]
  · simp only [h, if_false]
    rw [pushZeros_size]
    by_cases h2 : n % 32 > 0 <;> simp only [h2, if_true, if_false] <;> omega


theorem slice_length (a : Array UInt8) (off len : Nat) : (slice a off len).length = min len (a.size - off) := by
  rw [slice_getElem]; simp

theorem slice_get (a : Array UInt8) (off len i : Nat) (h : i < min len (a.size - off)) :
    (slice a off len)[i]! = a.getD (off + i) 0 := by
  rw [slice_getElem]
  have : i < ((List.range (min len (a.size - off))).map (fun j => a.getD (off + j) 0)).length := by simpa using h
  rw [getElem!_pos _ i this]
  simp



/-! ### big-endian round trip, memory growth, `ByteArray.toList` (for the MSTORE / MLOAD theorems) -/

def beFold (l : List Nat) : Nat := l.foldl (fun acc b => acc * 256 + b) 0

theorem foldl_map_toNat (bs : List UInt8) (a : Nat) :
    bs.foldl (fun acc b => acc * 256 + b.toNat) a = (bs.map (·.toNat)).foldl (fun acc b => acc * 256 + b) a := by
  induction bs generalizing a with
  | nil => rfl
  | cons b t ih => simp [List.foldl_cons, ih]

def toBE (k n : Nat) : List Nat := (List.range k).map (fun j => (n >>> (8 * (k - 1 - j))) % 256)

theorem toBE_succ (k n : Nat) : toBE (k + 1) n = toBE k (n / 256) ++ [n % 256] := by
  unfold toBE
  rw [List.range_succ, List.map_append]
  congr 1
  · apply List.map_congr_left
    intro j hj
    have hj' : j < k := List.mem_range.mp hj
    have e : 8 * (k + 1 - 1 - j) = 8 + 8 * (k - 1 - j) := by omega
    rw [e, Nat.shiftRight_add]
    simp [Nat.shiftRight_eq_div_pow]
  · simp

theorem beFold_toBE (k : Nat) : ∀ n, beFold (toBE k n) = n % 256 ^ k := by
  induction k with
  | zero => intro n; simp [toBE, beFold, Nat.mod_one]
  | succ k ih =>
    intro n
    rw [toBE_succ]
    unfold beFold at *
    rw [List.foldl_append, ih]
    simp only [List.foldl_cons, List.foldl_nil]
    rw [Nat.pow_succ, Nat.mul_comm (256 ^ k) 256, Nat.mod_mul, Nat.mul_comm]
    omega

theorem bytesToWord_wordToBytes (v : W) : bytesToWord (wordToBytes v) = v := by
  unfold bytesToWord
  rw [foldl_map_toNat]
  have : (wordToBytes v).map (·.toNat) = toBE 32 v.toNat := by
    unfold wordToBytes toBE
    rw [List.map_map]
    apply List.map_congr_left
    intro j _
    simp
  rw [this]
  have h := beFold_toBE 32 v.toNat
  unfold beFold at h
  rw [h]
  apply BitVec.eq_of_toNat_eq
  simp
  have := v.isLt
  omega

theorem pushZeros_get : ∀ (k : Nat) (m : ByteArray) (j : Nat), (pushZeros k m)[j]! = m[j]! := by
  intro k
  induction k with
  | zero => intro m j; rfl
  | succ k ih =>
    intro m j
    unfold pushZeros
    rw [ih, ByteArray.getElem!_push]
    split
    · next h => subst h; rw [getElem!_neg m m.size (by omega)]; rfl
    · rfl

/-- growing the memory changes no byte (`[j]!` reads 0 beyond the size, and the new bytes are 0) -/
theorem memGrow_get (m : ByteArray) (n j : Nat) : (memGrow m n)[j]! = m[j]! := by
  unfold memGrow
  split
  · rfl
  · exact pushZeros_get _ _ _

theorem wordToBytes_length (v : W) : (wordToBytes v).length = 32 := by simp [wordToBytes]

/-- MSTORE memory content, byte by byte -/
theorem mstore_memory_bytes (m : ByteArray) (idx : Nat) (v : W) (j : Nat) :
    (writeBytes (memGrow m (idx + 32)) idx (wordToBytes v))[j]! =
      if idx ≤ j ∧ j < idx + 32 then (wordToBytes v)[j - idx]! else m[j]! := by
  rw [writeBytes_get _ _ _ _ (by rw [wordToBytes_length]; exact memGrow_size_ge _ _), wordToBytes_length,
    memGrow_get]

theorem get!_eq_getElem! (bs : ByteArray) (i : Nat) : bs.get! i = bs[i]! := by
  have e1 : bs.get! i = bs.data[i]! := by cases bs; rfl
  rw [e1]
  by_cases h : i < bs.size
  · rw [getElem!_pos bs i h, getElem!_pos bs.data i h]; rfl
  · rw [getElem!_neg bs i h, getElem!_neg bs.data i h]

theorem toList_loop (bs : ByteArray) : ∀ (n i : Nat) (r : List UInt8), bs.size - i = n →
    ByteArray.toList.loop bs i r = r.reverse ++ (List.range' i n).map (fun k => bs[k]!) := by
  intro n
  induction n with
  | zero =>
    intro i r h
    unfold ByteArray.toList.loop
    have : ¬ i < bs.size := by omega
    simp [this]
  | succ n ih =>
    intro i r h
    unfold ByteArray.toList.loop
    have : i < bs.size := by omega
    simp only [this, if_true]
    rw [ih (i + 1) _ (by omega)]
    simp [List.range'_succ, get!_eq_getElem!]

theorem byteArray_toList (bs : ByteArray) : bs.toList = (List.range bs.size).map (fun k => bs[k]!) := by
  unfold ByteArray.toList
  rw [toList_loop bs bs.size 0 [] (by omega)]
  simp [List.range_eq_range']

theorem extract_get (m : ByteArray) (a b k : Nat) (hb : b ≤ m.size) (hk : k < b - a) :
    (m.extract a b)[k]! = m[a + k]! := by
  have hs : (m.extract a b).size = b - a := by rw [ByteArray.size_extract]; omega
  rw [getElem!_pos _ k (by omega), getElem!_pos m (a + k) (by omega)]
  exact ByteArray.getElem_extract _

theorem mslice_eq (m : ByteArray) (off len : Nat) (h : off + len ≤ m.size) :
    mslice m off len = (List.range len).map (fun k => m[off + k]!) := by
  unfold mslice
  rw [byteArray_toList]
  have hs : (m.extract off (off + len)).size = len := by rw [ByteArray.size_extract]; omega
  rw [hs]
  apply List.map_congr_left
  intro k hk
  exact extract_get m off (off + len) k h (by have := List.mem_range.mp hk; omega)

theorem mslice_written (m : ByteArray) (idx : Nat) (v : W) :
    mslice (writeBytes (memGrow m (idx + 32)) idx (wordToBytes v)) idx 32 = wordToBytes v := by
  have hsz : idx + 32 ≤ (writeBytes (memGrow m (idx + 32)) idx (wordToBytes v)).size := by
    rw [writeBytes_size]; exact memGrow_size_ge _ _
  rw [mslice_eq _ _ _ hsz]
  apply List.ext_getElem
  · simp [wordToBytes_length]
  · intro k h1 h2
    simp only [List.length_map, List.length_range] at h1
    rw [List.getElem_map, List.getElem_range, mstore_memory_bytes]
    have : idx ≤ idx + k ∧ idx + k < idx + 32 := by omega
    simp only [this, and_self, if_true]
    rw [show idx + k - idx = k by omega, getElem!_pos _ k h2]

theorem memGrow_of_le (m : ByteArray) (n : Nat) (h : n ≤ m.size) : memGrow m n = m := by
  unfold memGrow; simp [h]

theorem stepOther_mload (env : Env) (s : St) : stepOther env s 0x51 = (match s.stack with
    | idx :: rest =>
      match memRegion s.memory idx 32#256 with
      | .error e => .error e
      | .ok (m, none) => .ok { s with stack := 0#256 :: rest, memory := m, pc := s.pc + 1 }
      | .ok (m, some (o, n)) =>
        .ok { s with stack := bytesToWord (mslice m o n) :: rest, memory := m, pc := s.pc + 1 }
    | _ => .error .stackUnderflow) := rfl

theorem memRegion1 (m : ByteArray) (off : W) :
    (off.toNat + 1 > u32Max ∧ memRegion m off 1#256 = .error .illegalMemoryAccess) ∨
    (off.toNat + 1 ≤ u32Max ∧ memRegion m off 1#256 = .ok (memGrow m (off.toNat + 1), some (off.toNat, 1))) := by
  unfold memRegion
  have h1 : (1#256 : W).toNat = 1 := by decide
  rw [h1]
  have h0 : ¬ 1 > u32Max := by unfold u32Max; omega
  simp only [h0, if_false, Nat.one_ne_zero]
  by_cases h3 : off.toNat > u32Max
  · left; exact ⟨by omega, by simp [h3]⟩
  · by_cases h4 : off.toNat + 1 > u32Max
    · left; exact ⟨h4, by simp [h3, h4]⟩
    · right; refine ⟨by omega, ?_⟩; simp [h3, h4]

end BA.Evm
