/- Helper lemmas for the EVM interpreter model (C17). -/
import BA.Model.Evm.Interp

namespace BA.Evm

theorem slice_getElem (a : Array UInt8) (off len : Nat) :
    slice a off len = (List.range (min len (a.size - off))).map (fun j => a.getD (off + j) 0) := by
  unfold slice
  apply List.ext_getElem
  · simp
  · intro i h1 h2
    simp at h1 h2 ⊢
    have : off + i < a.size := by omega
    simp [this]

theorem padRight_slice (a : Array UInt8) (off n : Nat) :
    padRight n (slice a off n) = (List.range n).map (fun j => a.getD (off + j) 0) := by
  rw [slice_getElem]
  unfold padRight
  apply List.ext_getElem
  · simp; omega
  · intro i h1 h2
    simp at h1 h2
    by_cases hi : i < min n (a.size - off)
    · rw [List.getElem_append_left (by simpa using hi)]
      simp
    · rw [List.getElem_append_right (by simpa using hi)]
      have : ¬ off + i < a.size := by omega
      simp [Array.getD, this]

theorem bytesToWord_zeros (l : List UInt8) (h : ∀ b ∈ l, b = 0) : bytesToWord l = 0#256 := by
  unfold bytesToWord
  have : ∀ (l : List UInt8), (∀ b ∈ l, b = 0) → l.foldl (fun acc b => acc * 256 + b.toNat) 0 = 0 := by
    intro l
    induction l with
    | nil => intro _; rfl
    | cons x t ih =>
      intro hl
      have hx : x = 0 := hl x (by simp)
      subst hx
      simpa using ih (fun b hb => hl b (by simp [hb]))
  rw [this l h]


theorem memRegion_cases (m : ByteArray) (off size : W) :
    memRegion m off size = .error .illegalMemoryAccess ∨
    (size.toNat = 0 ∧ memRegion m off size = .ok (m, none)) ∨
    (size.toNat ≠ 0 ∧ ∃ m', memRegion m off size = .ok (m', some (off.toNat, size.toNat))) := by
  unfold memRegion
  by_cases h1 : size.toNat > u32Max
  · simp [h1]
  · by_cases h2 : size.toNat = 0
    · simp [h2, u32Max]
    · by_cases h3 : off.toNat > u32Max
      · simp [h1, h2, h3]
      · by_cases h4 : off.toNat + size.toNat > u32Max
        · simp [h1, h2, h3, h4]
        · simp [h1, h2, h3, h4]

theorem memRegion32 (m : ByteArray) (off : W) :
    (off.toNat + 32 > u32Max ∧ memRegion m off 32#256 = .error .illegalMemoryAccess) ∨
    (off.toNat + 32 ≤ u32Max ∧ memRegion m off 32#256 = .ok (memGrow m (off.toNat + 32), some (off.toNat, 32))) := by
  unfold memRegion
  have h32 : (32#256 : W).toNat = 32 := by decide
  rw [h32]
  have h1 : ¬ 32 > u32Max := by unfold u32Max; omega
  by_cases h3 : off.toNat > u32Max
  · left; refine ⟨by omega, ?_⟩; simp [h1, h3]
  · by_cases h4 : off.toNat + 32 > u32Max
    · left; exact ⟨h4, by simp [h1, h3, h4]⟩
    · right; refine ⟨by omega, ?_⟩; simp [h1, h3, h4]


theorem writeBytes_size (l : List UInt8) : ∀ (m : ByteArray) (off : Nat), (writeBytes m off l).size = m.size := by
  induction l with
  | nil => intro m off; rfl
  | cons b t ih => intro m off; unfold writeBytes; rw [ih, ByteArray.size_set!]

theorem writeBytes_get (l : List UInt8) : ∀ (m : ByteArray) (off j : Nat), off + l.length ≤ m.size →
    (writeBytes m off l)[j]! = if off ≤ j ∧ j < off + l.length then l[j - off]! else m[j]! := by
  induction l with
  | nil => intro m off j _; simp [writeBytes]; omega
  | cons b t ih =>
    intro m off j h
    unfold writeBytes
    simp only [List.length_cons] at h
    rw [ih (m.set! off b) (off + 1) j (by rw [ByteArray.size_set!]; omega)]
    by_cases hj : j = off
    · subst hj
      have h1 : ¬ (j + 1 ≤ j ∧ j < j + 1 + t.length) := by omega
      have h2 : j ≤ j ∧ j < j + (t.length + 1) := by omega
      simp only [h1, if_false, List.length_cons, h2, and_self, if_true, Nat.sub_self]
      rw [ByteArray.getElem!_set!_self _ _ _ (by omega)]
      rfl
    · rw [ByteArray.getElem!_set!_ne _ _ _ _ (fun e => hj e.symm)]
      by_cases hin : off + 1 ≤ j ∧ j < off + 1 + t.length
      · have h2 : off ≤ j ∧ j < off + (t.length + 1) := by omega
        simp only [hin, and_self, if_true, List.length_cons, h2]
        have e : j - off = (j - (off + 1)) + 1 := by omega
        rw [e]; rfl
      · have h2 : ¬ (off ≤ j ∧ j < off + (t.length + 1)) := by omega
        simp only [hin, if_false, List.length_cons, h2]

theorem pushZeros_size : ∀ (k : Nat) (m : ByteArray), (pushZeros k m).size = m.size + k := by
  intro k
  induction k with
  | zero => intro m; rfl
  | succ k ih => intro m; unfold pushZeros; rw [ih, ByteArray.size_push]; omega

theorem memGrow_size_ge (m : ByteArray) (n : Nat) : n ≤ (memGrow m n).size := by
  unfold memGrow
  by_cases h : n ≤ m.size
  · simp [h]
  · simp only [h, if_false]
    rw [pushZeros_size]
    by_cases h2 : n % 32 > 0 <;> simp only [h2, if_true, if_false] <;> omega


theorem slice_length (a : Array UInt8) (off len : Nat) : (slice a off len).length = min len (a.size - off) := by
  rw [slice_getElem]; simp

theorem slice_get (a : Array UInt8) (off len i : Nat) (h : i < min len (a.size - off)) :
    (slice a off len)[i]! = a.getD (off + i) 0 := by
  rw [slice_getElem]
  have : i < ((List.range (min len (a.size - off))).map (fun j => a.getD (off + j) 0)).length := by simpa using h
  rw [getElem!_pos _ i this]
  simp


end BA.Evm
