/-
  Helper lemmas for C20: the minimal big-endian encoding is injective, hence so are the RLP
  encoding of a nonce and the CREATE pre-image `rlp([addr20, nonce])`.
-/
import BA.Model.Evm.Rlp

namespace BA.Evm

theorem foldl_be (l : List UInt8) (init : Nat) :
    l.foldl (fun acc b => acc * 256 + b.toNat) init = init * 256 ^ l.length + fromBE l := by
  induction l generalizing init with
  | nil => simp [fromBE]
  | cons x t ih =>
    simp only [List.foldl_cons, List.length_cons, fromBE]
    rw [ih (init * 256 + x.toNat), ih (0 * 256 + x.toNat)]
    rw [Nat.pow_succ]
    generalize 256 ^ t.length = P
    generalize fromBE t = F
    grind

theorem fromBE_cons (x : UInt8) (t : List UInt8) :
    fromBE (x :: t) = x.toNat * 256 ^ t.length + fromBE t := by
  simp only [fromBE, List.foldl_cons]
  have := foldl_be t (0 * 256 + x.toNat)
  simp only [fromBE] at this
  rw [this]; simp

theorem fromBE_beAux : ∀ (f n : Nat) (acc : List UInt8), n < 256 ^ f →
    fromBE (beAux f n acc) = n * 256 ^ acc.length + fromBE acc := by
  intro f
  induction f with
  | zero =>
    intro n acc h
    have : n = 0 := by simpa using h
    subst this; simp [beAux]
  | succ f ih =>
    intro n acc h
    unfold beAux
    by_cases hn : n = 0
    · subst hn; simp
    · rw [if_neg hn]
      have hq : n / 256 < 256 ^ f := by
        apply Nat.div_lt_of_lt_mul
        rw [Nat.pow_succ] at h
        rw [Nat.mul_comm]; exact h
      rw [ih (n / 256) _ hq, fromBE_cons]
      have hb : (UInt8.ofNat (n % 256)).toNat = n % 256 := by
        rw [UInt8.toNat_ofNat']
        exact Nat.mod_eq_of_lt (Nat.mod_lt _ (by decide))
      rw [hb]
      simp only [List.length_cons, Nat.pow_succ]
      have hdm := Nat.div_add_mod n 256
      generalize 256 ^ acc.length = P at *
      generalize fromBE acc = F at *
      generalize n / 256 = q at *
      generalize n % 256 = r at *
      subst hdm
      grind

/-- `fromBE` is a left inverse of the minimal big-endian encoding -/
theorem fromBE_beBytes (n : Nat) : fromBE (beBytes n) = n := by
  unfold beBytes
  rw [fromBE_beAux n n [] (Nat.lt_pow_self (by decide))]
  simp [fromBE]

theorem beBytes_injective {n m : Nat} (h : beBytes n = beBytes m) : n = m := by
  have := congrArg fromBE h
  rwa [fromBE_beBytes, fromBE_beBytes] at this

/-- the RLP encoding of an unsigned integer determines its big-endian bytes -/
theorem rlpUInt_bytes_injective {n m : Nat} (h : rlpUInt n = rlpUInt m) : beBytes n = beBytes m := by
  unfold rlpUInt at h
  generalize beBytes n = a at *
  generalize beBytes m = b at *
  match a, b with
  | [], [] => rfl
  | [], [y] =>
    simp only at h
    by_cases hy : y < 0x80
    · rw [if_pos hy] at h; injection h with h1 _; subst h1; exact absurd hy (by decide)
    · rw [if_neg hy] at h; cases h
  | [], y :: y2 :: t => simp at h
  | [x], [] =>
    simp only at h
    by_cases hx : x < 0x80
    · rw [if_pos hx] at h; injection h with h1 _; subst h1; exact absurd hx (by decide)
    · rw [if_neg hx] at h; cases h
  | [x], [y] =>
    simp only at h
    by_cases hx : x < 0x80 <;> by_cases hy : y < 0x80
    · rw [if_pos hx, if_pos hy] at h; exact h
    · rw [if_pos hx, if_neg hy] at h; cases h
    · rw [if_neg hx, if_pos hy] at h; cases h
    · rw [if_neg hx, if_neg hy] at h; simp at h; simp [h]
  | [x], y :: y2 :: t =>
    simp only at h
    by_cases hx : x < 0x80
    · rw [if_pos hx] at h; cases h
    · rw [if_neg hx] at h; simp at h
  | x :: x2 :: t, [] => simp at h
  | x :: x2 :: t, [y] =>
    simp only at h
    by_cases hy : y < 0x80
    · rw [if_pos hy] at h; cases h
    · rw [if_neg hy] at h; simp at h
  | x :: x2 :: t, y :: y2 :: t2 =>
    simp at h
    simp [h]

theorem rlpUInt_injective {n m : Nat} (h : rlpUInt n = rlpUInt m) : n = m :=
  beBytes_injective (rlpUInt_bytes_injective h)

end BA.Evm
