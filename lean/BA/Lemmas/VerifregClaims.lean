/- Helper lemmas about the claims table of the registry model: every message keeps each claim
   (same fields, term_max not lower) except `RemoveExpiredClaims`, which removes only expired ones. -/
import BA.Model.Verifreg
import BA.Lemmas.Verifreg

namespace BA.Verifreg
open BA

/-- every claim of `c` is still in `c'` with the same fields and a `term_max` at least as large -/
def ClaimKeeps (c c' : List (Nat × Claim)) : Prop :=
  ∀ id x, alookup id c = some x →
    ∃ y, alookup id c' = some y ∧ x.termMax ≤ y.termMax ∧ y = { x with termMax := y.termMax }

theorem ClaimKeeps.refl (c : List (Nat × Claim)) : ClaimKeeps c c :=
  fun _ x h => ⟨x, h, Int.le_refl _, rfl⟩

theorem ClaimKeeps.trans {a b c : List (Nat × Claim)} (h1 : ClaimKeeps a b) (h2 : ClaimKeeps b c) :
    ClaimKeeps a c := by
  intro id x hx
  obtain ⟨y, hy, l1, e1⟩ := h1 id x hx
  obtain ⟨z, hz, l2, e2⟩ := h2 id y hy
  refine ⟨z, hz, Int.le_trans l1 l2, ?_⟩
  rw [e2, e1]

theorem getClaim_some {claims : List (Nat × Claim)} {p id : Nat} {c : Claim}
    (h : getClaim claims p id = some c) : alookup id claims = some c ∧ c.provider = p := by
  unfold getClaim at h
  cases hl : alookup id claims with
  | none => simp [hl] at h
  | some x =>
    simp only [hl] at h
    by_cases hp : x.provider = p
    · simp [hp] at h; subst h; exact ⟨rfl, hp⟩
    · simp [hp] at h

theorem getAlloc_some {allocs : List (Nat × Allocation)} {cl id : Nat} {a : Allocation}
    (h : getAlloc allocs cl id = some a) : alookup id allocs = some a ∧ a.client = cl := by
  unfold getAlloc at h
  cases hl : alookup id allocs with
  | none => simp [hl] at h
  | some x =>
    simp only [hl] at h
    by_cases hp : x.client = cl
    · simp [hp] at h; subst h; exact ⟨rfl, hp⟩
    · simp [hp] at h

/-- setting one claim to a copy of the original with a larger `term_max` keeps everything -/
theorem keeps_aset (c0 cur : List (Nat × Claim)) (id : Nat) (orig v : Claim)
    (hk : ClaimKeeps c0 cur) (ho : ∀ x, alookup id c0 = some x → x = orig ∨ (x.termMax ≤ orig.termMax ∧ orig = { x with termMax := orig.termMax }))
    (hv : v = { orig with termMax := v.termMax }) (hle : orig.termMax ≤ v.termMax) :
    ClaimKeeps c0 (aset id v cur) := by
  intro id' x hx
  by_cases hid : id' = id
  · subst hid
    refine ⟨v, alookup_aset_same _ _ _, ?_, ?_⟩
    · cases ho x hx with
      | inl e => subst e; exact hle
      | inr e => exact Int.le_trans e.1 hle
    · cases ho x hx with
      | inl e => subst e; exact hv
      | inr e => rw [hv, e.2]
  · obtain ⟨y, hy, l, e⟩ := hk id' x hx
    exact ⟨y, by rw [alookup_aset_other _ _ _ _ hid]; exact hy, l, e⟩

theorem collectExts_spec (claims : List (Nat × Claim)) (epoch : Int) (reqs : List ExtReq) :
    ∀ ups tot, collectExts claims epoch reqs = .ok (ups, tot) →
    ∀ p ∈ ups, ∃ c, alookup p.1 claims = some c ∧ p.2 = { c with termMax := p.2.termMax } ∧
      c.termMax < p.2.termMax ∧ epoch ≤ c.termStart + c.termMax := by
  induction reqs with
  | nil => intro ups tot h; simp [collectExts] at h; obtain ⟨h1, _⟩ := h; subst h1; simp
  | cons r rest ih =>
    intro ups tot h
    simp only [collectExts] at h
    cases hc : getClaim claims r.provider r.claim with
    | none => simp [hc] at h
    | some c =>
      simp only [hc] at h
      cases hv : validateExt epoch r c with
      | error e => simp [hv] at h
      | ok u =>
        simp only [hv] at h
        cases hr : collectExts claims epoch rest with
        | error e => simp [hr] at h
        | ok q =>
          obtain ⟨ups', tot'⟩ := q
          simp only [hr] at h
          injection h with h; injection h with h1 h2; subst h1
          unfold validateExt at hv
          simp only [guard_ok] at hv
          obtain ⟨_, v2, v3, _⟩ := hv
          intro p hp
          cases List.mem_cons.mp hp with
          | inl e =>
            rw [e]
            exact ⟨c, (getClaim_some hc).1, rfl, by show c.termMax < r.termMax; omega, by omega⟩
          | inr e => exact ih ups' tot' hr p e

theorem putClaims_keeps (c0 : List (Nat × Claim)) (ups : List (Nat × Claim))
    (hu : ∀ p ∈ ups, ∃ c, alookup p.1 c0 = some c ∧ p.2 = { c with termMax := p.2.termMax } ∧
      c.termMax < p.2.termMax) :
    ∀ cur, ClaimKeeps c0 cur → ClaimKeeps c0 (putClaims cur ups) := by
  induction ups with
  | nil => intro cur h; exact h
  | cons p rest ih =>
    intro cur h
    obtain ⟨id, v⟩ := p
    simp only [putClaims]
    obtain ⟨c, hc, hv, hlt⟩ := hu (id, v) (by simp)
    apply ih (fun q hq => hu q (by simp [hq]))
    have hlt' : c.termMax < v.termMax := hlt
    have hv' : v = { c with termMax := v.termMax } := hv
    refine keeps_aset c0 cur id c v h ?_ hv' (by omega)
    intro x hx; rw [hc] at hx; injection hx with hx; exact Or.inl hx.symm

theorem receive_claims (s : Sys) (epoch : Int) (client : Nat) (amount : Int) (data : Option Reqs)
    (s' : Sys) (r : Ret) (h : receive s epoch client amount data = .ok (s', r)) :
    ClaimKeeps s.vr.claims s'.vr.claims := by
  unfold receive at h
  cases data with
  | none => simp at h
  | some reqs =>
    simp only at h
    cases h1 : validateAllocReqs s epoch reqs.allocs with
    | error e => simp [h1] at h
    | ok u =>
      simp only [h1] at h
      cases h2 : collectExts s.vr.claims epoch reqs.exts with
      | error e => simp [h2] at h
      | ok p =>
        obtain ⟨ups, extTotal⟩ := p
        simp only [h2, guard_ok] at h
        obtain ⟨_, h⟩ := h
        cases h3 : burnOwn s.dc extTotal with
        | error e => simp [h3] at h
        | ok dc1 =>
          simp only [h3] at h
          injection h with h; injection h with hs hr; subst hs
          simp only
          apply putClaims_keeps _ _ _ _ (ClaimKeeps.refl _)
          intro p hp
          obtain ⟨c, a, b, d, _⟩ := collectExts_spec _ _ _ _ _ h2 p hp
          exact ⟨c, a, b, d⟩

theorem hook_claims (s : Sys) (epoch : Int) (from_ to : Nat) (amount : Int) (data : Option Reqs)
    (s' : Sys) (r : Ret) (h : hook s epoch from_ to amount data = .ok (s', r)) :
    ClaimKeeps s.vr.claims s'.vr.claims := by
  unfold hook at h
  by_cases ht : to = verifregId
  · simp only [ht, if_true] at h; exact receive_claims _ _ _ _ _ _ _ h
  · simp only [ht, if_false] at h
    cases hk : kindOf s to with
    | none => simp [hk] at h
    | some k =>
      cases k <;> simp [hk] at h
      obtain ⟨hs, _⟩ := h; subst hs; exact ClaimKeeps.refl _

theorem dcTransfer_claims (s : Sys) (epoch : Int) (caller to : Nat) (amount : Int)
    (data : Option Reqs) (s' : Sys) (r : Ret)
    (h : dcTransfer s epoch caller to amount data = .ok (s', r)) :
    ClaimKeeps s.vr.claims s'.vr.claims := by
  unfold dcTransfer at h
  cases h1 : Datacap.transferL s.dc caller to amount with
  | error e => simp [h1] at h
  | ok dc1 =>
    simp only [h1] at h
    have := hook_claims _ _ _ _ _ _ _ _ h
    exact this

theorem dcTransferFrom_claims (s : Sys) (epoch : Int) (caller from_ to : Nat) (amount : Int)
    (data : Option Reqs) (s' : Sys) (r : Ret)
    (h : dcTransferFrom s epoch caller from_ to amount data = .ok (s', r)) :
    ClaimKeeps s.vr.claims s'.vr.claims := by
  unfold dcTransferFrom at h
  cases h1 : Datacap.transferFromL s.dc caller from_ to amount with
  | error e => simp [h1] at h
  | ok dc1 =>
    simp only [h1] at h
    have := hook_claims _ _ _ _ _ _ _ _ h
    exact this

/-- claims present before a sector's update pass are untouched by it -/
theorem applySector_same (cs : List (Nat × Claim)) : ∀ (allocs : List (Nat × Allocation))
    (claims : List (Nat × Claim)) a' c' sp, applySector allocs claims cs = .ok (a', c', sp) →
    ∀ id x, alookup id claims = some x → alookup id c' = some x := by
  induction cs with
  | nil => intro allocs claims a' c' sp h; simp [applySector] at h; obtain ⟨_, h2, _⟩ := h; subst h2; intro id x hx; exact hx
  | cons p rest ih =>
    intro allocs claims a' c' sp h
    obtain ⟨id0, c0⟩ := p
    simp only [applySector, guard_ok] at h
    obtain ⟨hn, h⟩ := h
    cases hr : applySector (aerase id0 allocs) (aset id0 c0 claims) rest with
    | error e => simp [hr] at h
    | ok q =>
      obtain ⟨a2, c2, sp2⟩ := q
      simp only [hr] at h
      injection h with h; injection h with _ h; injection h with h2 _; subst h2
      intro id x hx
      have hne : id ≠ id0 := by
        intro e; subst e; rw [hx] at hn; simp at hn
      exact ih _ _ _ _ _ hr id x (by rw [alookup_aset_other _ _ _ _ hne]; exact hx)

theorem claimLoop_same (provider : Nat) (epoch : Int) (sectors : List SectorReq) :
    ∀ acc acc', claimLoop provider epoch sectors acc = .ok acc' →
    ∀ id x, alookup id acc.claims = some x → alookup id acc'.claims = some x := by
  induction sectors with
  | nil => intro acc acc' h; simp [claimLoop] at h; subst h; intro id x hx; exact hx
  | cons sr rest ih =>
    intro acc acc' h
    simp only [claimLoop] at h
    cases hv : validateSector acc.allocs provider epoch sr.sector sr.expiry sr.claims with
    | error code => simp only [hv] at h; exact ih { acc with codes := acc.codes ++ [code] } acc' h
    | ok cs =>
      simp only [hv] at h
      cases ha : applySector acc.allocs acc.claims cs with
      | error e => simp [ha] at h
      | ok q =>
        obtain ⟨a2, c2, sp⟩ := q
        simp only [ha] at h
        intro id x hx
        exact ih _ _ h id x (applySector_same cs _ _ _ _ _ ha id x hx)

theorem extendLoop_keeps (caller : Nat) (terms : List TermReq) :
    ∀ claims, ClaimKeeps claims (extendLoop caller terms claims).1 := by
  induction terms with
  | nil => intro claims; exact ClaimKeeps.refl _
  | cons t rest ih =>
    intro claims
    simp only [extendLoop]
    by_cases h1 : t.termMax > maxAllocTerm
    · simp only [h1, if_true]; exact ih claims
    · simp only [h1, if_false]
      cases hc : getClaim claims t.provider t.claim with
      | none => simp only; exact ih claims
      | some c =>
        show ClaimKeeps claims (Prod.fst (if c.client ≠ caller then _ else _))
        by_cases h2 : c.client ≠ caller
        · rw [if_pos h2]; exact ih claims
        · rw [if_neg h2]
          by_cases h3 : t.termMax < c.termMax
          · rw [if_pos h3]; exact ih claims
          · rw [if_neg h3]
            refine ClaimKeeps.trans ?_ (ih _)
            refine keeps_aset claims claims t.claim c _ (ClaimKeeps.refl _) ?_ rfl (by simp; omega)
            intro x hx; rw [(getClaim_some hc).1] at hx; injection hx with hx; exact Or.inl hx.symm

theorem aerase_none {α : Type} (k id : Nat) (l : List (Nat × α)) (h : alookup id l = none) :
    alookup id (aerase k l) = none := by
  by_cases e : id = k
  · subst e; exact alookup_aerase_same _ _
  · rw [alookup_aerase_other _ _ _ e]; exact h

theorem removeClaims_none (provider : Nat) (ids : List Nat) : ∀ cur c',
    removeClaims cur provider ids = .ok c' → ∀ id, alookup id cur = none → alookup id c' = none := by
  induction ids with
  | nil => intro cur c' h; simp [removeClaims] at h; subst h; intro id hx; exact hx
  | cons i rest ih =>
    intro cur c' h
    simp only [removeClaims] at h
    cases hg : getClaim cur provider i with
    | none => simp [hg] at h
    | some c => simp only [hg] at h; intro id hx; exact ih _ _ h id (aerase_none _ _ _ hx)

theorem removeClaims_spec (provider : Nat) (ids : List Nat) : ∀ cur c',
    removeClaims cur provider ids = .ok c' →
    ∀ id x, alookup id cur = some x → alookup id c' = some x ∨ (alookup id c' = none ∧ id ∈ ids) := by
  induction ids with
  | nil => intro cur c' h; simp [removeClaims] at h; subst h; intro id x hx; exact Or.inl hx
  | cons i rest ih =>
    intro cur c' h
    simp only [removeClaims] at h
    cases hg : getClaim cur provider i with
    | none => simp [hg] at h
    | some c =>
      simp only [hg] at h
      intro id x hx
      by_cases e : id = i
      · subst e
        exact Or.inr ⟨removeClaims_none _ _ _ _ h id (alookup_aerase_same _ _), by simp⟩
      · cases ih _ _ h id x (by rw [alookup_aerase_other _ _ _ e]; exact hx) with
        | inl a => exact Or.inl a
        | inr a => exact Or.inr ⟨a.1, by simp [a.2]⟩

theorem successes_all_ok (ids : List Nat) : successes ids (ids.map (fun _ => 0)) = ids := by
  induction ids with
  | nil => rfl
  | cons i rest ih => simp [successes, ih]

theorem successes_map (f : Nat → Nat) (ids : List Nat) :
    ∀ id ∈ successes ids (ids.map f), f id = 0 := by
  induction ids with
  | nil => intro id h; simp [successes] at h
  | cons i rest ih =>
    intro id h
    simp only [List.map_cons, successes] at h
    by_cases hf : f i = 0
    · simp only [hf, if_true] at h
      cases List.mem_cons.mp h with
      | inl e => subst e; exact hf
      | inr e => exact ih id e
    · simp only [hf, if_false] at h; exact ih id h

def codeClaim (claims : List (Nat × Claim)) (provider : Nat) (epoch : Int) (id : Nat) : Nat :=
  match getClaim claims provider id with
  | none => 17
  | some c => if epoch ≥ c.termStart + c.termMax then 0 else 18

theorem checkExpiredClaims_eq (claims : List (Nat × Claim)) (provider : Nat) (epoch : Int)
    (ids : List Nat) : checkExpiredClaims claims provider epoch ids = ids.map (codeClaim claims provider epoch) := by
  induction ids with
  | nil => rfl
  | cons i rest ih => simp only [checkExpiredClaims, List.map_cons, ih]; rfl

theorem successes_checkExpiredClaims (claims : List (Nat × Claim)) (provider : Nat) (epoch : Int)
    (ids : List Nat) : ∀ id ∈ successes ids (checkExpiredClaims claims provider epoch ids),
    ∃ c, getClaim claims provider id = some c ∧ epoch ≥ c.termStart + c.termMax := by
  intro id h
  rw [checkExpiredClaims_eq] at h
  have := successes_map _ _ id h
  unfold codeClaim at this
  cases hg : getClaim claims provider id with
  | none => simp [hg] at this
  | some c =>
    simp only [hg] at this
    by_cases he : epoch ≥ c.termStart + c.termMax
    · exact ⟨c, rfl, he⟩
    · simp [he] at this

def codeAlloc (allocs : List (Nat × Allocation)) (client : Nat) (epoch : Int) (id : Nat) : Nat :=
  match getAlloc allocs client id with
  | none => 17
  | some a => if epoch ≥ a.expiration then 0 else 18

theorem checkExpiredAllocs_eq (allocs : List (Nat × Allocation)) (client : Nat) (epoch : Int)
    (ids : List Nat) : checkExpiredAllocs allocs client epoch ids = ids.map (codeAlloc allocs client epoch) := by
  induction ids with
  | nil => rfl
  | cons i rest ih => simp only [checkExpiredAllocs, List.map_cons, ih]; rfl

theorem successes_checkExpiredAllocs (allocs : List (Nat × Allocation)) (client : Nat) (epoch : Int)
    (ids : List Nat) : ∀ id ∈ successes ids (checkExpiredAllocs allocs client epoch ids),
    ∃ a, getAlloc allocs client id = some a ∧ epoch ≥ a.expiration := by
  intro id h
  rw [checkExpiredAllocs_eq] at h
  have := successes_map _ _ id h
  unfold codeAlloc at this
  cases hg : getAlloc allocs client id with
  | none => simp [hg] at this
  | some c =>
    simp only [hg] at this
    by_cases he : epoch ≥ c.expiration
    · exact ⟨c, rfl, he⟩
    · simp [he] at this

/-- claims leave the table by `RemoveExpiredClaims` only when expired -/
def RemovedExpired (epoch : Int) (provider : Nat) (c c' : List (Nat × Claim)) : Prop :=
  ∀ id x, alookup id c = some x →
    alookup id c' = some x ∨ (alookup id c' = none ∧ x.provider = provider ∧ epoch ≥ x.termStart + x.termMax)

theorem removeExpiredClaims_spec (s : Sys) (epoch : Int) (provider : Nat) (ids : List Nat)
    (s' : Sys) (r : Ret) (h : removeExpiredClaims s epoch provider ids = .ok (s', r)) :
    RemovedExpired epoch provider s.vr.claims s'.vr.claims := by
  unfold removeExpiredClaims at h
  simp only at h
  split at h
  · simp at h
  · rename_i claims' hrm
    injection h with h; injection h with hs _; subst hs
    intro id x hx
    cases removeClaims_spec _ _ _ _ hrm id x hx with
    | inl a => exact Or.inl a
    | inr a =>
      refine Or.inr ⟨a.1, ?_⟩
      have hexp : ∃ c, getClaim s.vr.claims provider id = some c ∧ epoch ≥ c.termStart + c.termMax := by
        by_cases he : ids.isEmpty
        · have hm := a.2
          simp only [he, if_true, successes_all_ok] at hm
          unfold findExpiredClaims at hm
          obtain ⟨_, hp⟩ := List.mem_filter.mp hm
          cases hg : getClaim s.vr.claims provider id with
          | none => simp [hg] at hp
          | some c => simp [hg] at hp; exact ⟨c, rfl, hp⟩
        · have hm := a.2
          simp only [he] at hm
          exact successes_checkExpiredClaims _ _ _ _ id hm
      obtain ⟨c, hc, hce⟩ := hexp
      obtain ⟨hl, hp⟩ := getClaim_some hc
      rw [hx] at hl; injection hl with hl; subst hl
      exact ⟨hp, hce⟩

/-- what every successful message does to the claims table -/
theorem exec_claims (s : Sys) (op : Op) (s' : Sys) (r : Ret) (h : exec s op = .ok (s', r)) :
    (∀ e p ids, op = .removeExpiredClaims e p ids → RemovedExpired e p s.vr.claims s'.vr.claims) ∧
    ((∀ e p ids, op ≠ .removeExpiredClaims e p ids) → ClaimKeeps s.vr.claims s'.vr.claims) := by
  cases op with
  | removeExpiredClaims epoch provider ids =>
    refine ⟨fun e p i heq => ?_, fun hne => absurd rfl (hne _ _ _)⟩
    injection heq with h1 h2 h3; subst h1; subst h2; subst h3
    exact removeExpiredClaims_spec _ _ _ _ _ _ h
  | addVerifier caller addr allowance =>
    refine ⟨(fun _ _ _ heq => by cases heq), fun _ => ?_⟩
    obtain ⟨_, _, _, h3⟩ := addVerifier_spec _ _ _ _ _ (noRet_ok _ _ _ h)
    rw [h3]; exact ClaimKeeps.refl _
  | removeVerifier caller addr =>
    refine ⟨(fun _ _ _ heq => by cases heq), fun _ => ?_⟩
    obtain ⟨_, _, _, h3⟩ := removeVerifier_spec _ _ _ _ (noRet_ok _ _ _ h)
    rw [h3]; exact ClaimKeeps.refl _
  | addClient epoch caller client allowance =>
    refine ⟨(fun _ _ _ heq => by cases heq), fun _ => ?_⟩
    have h := noRet_ok _ _ _ h
    unfold addClient at h
    simp only [guard_ok] at h
    obtain ⟨_, _, _, h⟩ := h
    cases hl : alookup caller s.vr.verifiers with
    | none => simp [hl] at h
    | some cap =>
      simp only [hl, guard_ok] at h
      obtain ⟨_, _, h⟩ := h
      obtain ⟨_, _, hvr, _, _⟩ := dcMint_spec _ _ _ _ _ _ _ h
      rw [hvr]; exact ClaimKeeps.refl _
  | removeClientDataCap caller client v1 v2 b1 b2 amount =>
    refine ⟨(fun _ _ _ heq => by cases heq), fun _ => ?_⟩
    simp only [exec] at h
    unfold removeClientDataCap at h
    simp only [guard_ok] at h
    obtain ⟨_, _, _, _, _, _, _, _, _, h⟩ := h
    revert h
    generalize (if toDatacap (Datacap.bal s.dc client) < amount then toDatacap (Datacap.bal s.dc client) else amount) = burnt
    intro h
    unfold destroyUpTo at h
    by_cases hb : burnt = 0
    · simp only [hb, if_true] at h
      injection h with h; injection h with hs _; subst hs; exact ClaimKeeps.refl _
    · simp only [hb, if_false] at h
      cases hd : dcDestroy s verifregId client (toTokens burnt) with
      | error e => simp [hd] at h
      | ok s2 =>
        simp only [hd] at h
        injection h with h; injection h with hs _; subst hs
        unfold dcDestroy at hd
        simp only [guard_ok] at hd
        obtain ⟨_, hd⟩ := hd
        split at hd
        · simp at hd
        · injection hd with hd; subst hd; exact ClaimKeeps.refl _
  | transfer epoch caller to amount data =>
    exact ⟨(fun _ _ _ heq => by cases heq), fun _ => dcTransfer_claims _ _ _ _ _ _ _ _ h⟩
  | transferFrom epoch caller from_ to amount data =>
    exact ⟨(fun _ _ _ heq => by cases heq), fun _ => dcTransferFrom_claims _ _ _ _ _ _ _ _ _ h⟩
  | claim epoch caller sectors aon =>
    refine ⟨(fun _ _ _ heq => by cases heq), fun _ => ?_⟩
    simp only [exec] at h
    unfold claimAllocations at h
    simp only [guard_ok] at h
    obtain ⟨_, _, h⟩ := h
    cases h1 : claimLoop caller epoch sectors { allocs := s.vr.allocs, claims := s.vr.claims } with
    | error e => simp [h1] at h
    | ok acc =>
      simp only [h1, guard_ok] at h
      obtain ⟨_, h⟩ := h
      cases h3 : burnOwn s.dc acc.total with
      | error e => simp [h3] at h
      | ok dc1 =>
        simp only [h3] at h
        injection h with h; injection h with hs _; subst hs
        intro id x hx
        exact ⟨x, claimLoop_same _ _ _ _ _ h1 id x hx, Int.le_refl _, rfl⟩
  | removeExpiredAllocs epoch client ids =>
    refine ⟨(fun _ _ _ heq => by cases heq), fun _ => ?_⟩
    simp only [exec] at h
    unfold removeExpiredAllocations at h
    simp only at h
    split at h
    · simp at h
    · split at h
      · simp at h
      · rename_i s2 r2 ht
        injection h with h; injection h with hs _; subst hs
        have := dcTransfer_claims _ _ _ _ _ _ _ _ ht
        exact this
  | extendClaimTerms caller terms =>
    refine ⟨(fun _ _ _ heq => by cases heq), fun _ => ?_⟩
    simp only [exec, extendClaimTerms] at h
    injection h with h; injection h with hs _; subst hs
    exact extendLoop_keeps _ _ _
  | mint epoch caller to amount =>
    refine ⟨(fun _ _ _ heq => by cases heq), fun _ => ?_⟩
    obtain ⟨_, _, hvr, _, _⟩ := dcMint_spec _ _ _ _ _ _ _ (noRet_ok _ _ _ h)
    rw [hvr]; exact ClaimKeeps.refl _
  | destroy caller owner amount =>
    refine ⟨(fun _ _ _ heq => by cases heq), fun _ => ?_⟩
    have hd := noRet_ok _ _ _ h
    unfold dcDestroy at hd
    simp only [guard_ok] at hd
    obtain ⟨_, hd⟩ := hd
    split at hd
    · simp at hd
    · injection hd with hd; subst hd; exact ClaimKeeps.refl _
  | burn caller amount =>
    refine ⟨(fun _ _ _ heq => by cases heq), fun _ => ?_⟩
    obtain ⟨dc, _, h2⟩ := liftDc_ok _ _ _ _ h; subst h2; exact ClaimKeeps.refl _
  | burnFrom caller owner amount =>
    refine ⟨(fun _ _ _ heq => by cases heq), fun _ => ?_⟩
    obtain ⟨dc, _, h2⟩ := liftDc_ok _ _ _ _ h; subst h2; exact ClaimKeeps.refl _
  | increaseAllowance caller operator d =>
    refine ⟨(fun _ _ _ heq => by cases heq), fun _ => ?_⟩
    obtain ⟨dc, _, h2⟩ := liftDc_ok _ _ _ _ h; subst h2; exact ClaimKeeps.refl _
  | decreaseAllowance caller operator d =>
    refine ⟨(fun _ _ _ heq => by cases heq), fun _ => ?_⟩
    obtain ⟨dc, _, h2⟩ := liftDc_ok _ _ _ _ h; subst h2; exact ClaimKeeps.refl _
  | revokeAllowance caller operator =>
    refine ⟨(fun _ _ _ heq => by cases heq), fun _ => ?_⟩
    simp only [exec] at h
    injection h with h; injection h with hs _; subst hs; exact ClaimKeeps.refl _

end BA.Verifreg
