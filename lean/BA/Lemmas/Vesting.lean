/- Helper lemmas for the vesting model (quantisation, merge, take_vested, the schedule loop). -/
import BA.Model.Vesting

set_option linter.unusedSimpArgs false
set_option linter.unusedVariables false

namespace BA.Vesting
open BA

/-! ### quantize_up -/

theorem tmod_bounds_neg {x u : Int} (hu : 0 < u) (hx : x < 0) : -u < x.tmod u ∧ x.tmod u ≤ 0 := by
  have h1 : 0 ≤ (-x).tmod u := Int.tmod_nonneg u (by omega)
  have h2 : (-x).tmod u < u := Int.tmod_lt_of_pos (-x) hu
  rw [Int.neg_tmod] at h1 h2
  omega

theorem tmod_bounds_nonneg {x u : Int} (hu : 0 < u) (hx : 0 ≤ x) : 0 ≤ x.tmod u ∧ x.tmod u < u :=
  ⟨Int.tmod_nonneg u hx, Int.tmod_lt_of_pos x hu⟩

/-- for a positive unit: the result is the least grid point `≥ epoch`, the grid being
    `unit·k + offset.tmod unit` -/
theorem quantizeUp_spec (u off e : Int) (hu : 0 < u) :
    e ≤ quantizeUp u off e ∧ quantizeUp u off e < e + u ∧
    ∃ k : Int, quantizeUp u off e = u * k + off.tmod u := by
  unfold quantizeUp
  simp only
  have hid := Int.mul_tdiv_add_tmod (e - off.tmod u) u
  by_cases h0 : (e - off.tmod u).tmod u = 0
  · simp only [h0, true_or, if_true]
    rw [h0] at hid
    refine ⟨by omega, by omega, ⟨_, rfl⟩⟩
  · by_cases hneg : e - off.tmod u < 0
    · simp only [hneg, or_true, if_true]
      have hb := tmod_bounds_neg hu hneg
      refine ⟨by omega, by omega, ⟨_, rfl⟩⟩
    · simp only [h0, hneg, or_self, if_false]
      have hb := tmod_bounds_nonneg hu (Int.not_lt.mp hneg)
      rw [Int.mul_add, Int.mul_one]
      refine ⟨by omega, by omega, ⟨(e - off.tmod u).tdiv u + 1, ?_⟩⟩
      rw [Int.mul_add, Int.mul_one]

/-- no grid point lies in `[epoch, quantizeUp epoch)`: the result is the *least* grid point -/
theorem quantizeUp_le_of_grid (u off e g : Int) (hu : 0 < u) (hge : e ≤ g)
    (hg : ∃ k : Int, g = u * k + off.tmod u) : quantizeUp u off e ≤ g := by
  obtain ⟨h1, h2, k2, hk2⟩ := quantizeUp_spec u off e hu
  obtain ⟨k1, hk1⟩ := hg
  -- g - q = u * (k1 - k2) > -u, hence k1 - k2 ≥ 0
  by_cases hk : k2 ≤ k1
  · have : u * k2 ≤ u * k1 := Int.mul_le_mul_of_nonneg_left hk (by omega)
    omega
  · have hk' : k1 + 1 ≤ k2 := by omega
    have : u * (k1 + 1) ≤ u * k2 := Int.mul_le_mul_of_nonneg_left hk' (by omega)
    rw [Int.mul_add, Int.mul_one] at this
    omega

theorem quantizeUp_mono (u off e1 e2 : Int) (hu : 0 < u) (h : e1 ≤ e2) :
    quantizeUp u off e1 ≤ quantizeUp u off e2 := by
  obtain ⟨h1, _, hk⟩ := quantizeUp_spec u off e2 hu
  exact quantizeUp_le_of_grid u off e1 _ hu (by omega) hk

/-- shifting the epoch by a whole number of units shifts the result by the same amount -/
theorem quantizeUp_add_mul (u off e m : Int) (hu : 0 < u) :
    quantizeUp u off (e + u * m) = quantizeUp u off e + u * m := by
  obtain ⟨a1, a2, ka, hka⟩ := quantizeUp_spec u off e hu
  obtain ⟨b1, b2, kb, hkb⟩ := quantizeUp_spec u off (e + u * m) hu
  have l1 : quantizeUp u off (e + u * m) ≤ quantizeUp u off e + u * m := by
    apply quantizeUp_le_of_grid u off _ _ hu (by omega)
    exact ⟨ka + m, by rw [Int.mul_add]; omega⟩
  have l2 : quantizeUp u off e ≤ quantizeUp u off (e + u * m) - u * m := by
    apply quantizeUp_le_of_grid u off _ _ hu (by omega)
    exact ⟨kb - m, by rw [Int.mul_sub]; omega⟩
  omega

theorem quantizeUp_ge (u off e : Int) (hu : 0 < u) : e ≤ quantizeUp u off e :=
  (quantizeUp_spec u off e hu).1
theorem quantizeUp_lt (u off e : Int) (hu : 0 < u) : quantizeUp u off e < e + u :=
  (quantizeUp_spec u off e hu).2.1

/-! ### tables -/

/-- sum of the amounts of a table -/
def tsum (t : Table) : Int := isum (t.map (·.2))
/-- the raw entries of the representation, head first (including a head drawn down to zero) -/
def raw : Funds → Table
  | none => []
  | some (h, t) => h :: t
/-- total amount held by the vesting funds -/
def total (f : Funds) : Int := tsum (raw f)
/-- epochs non-decreasing -/
def Sorted (t : Table) : Prop := t.Pairwise (fun a b => a.1 ≤ b.1)
def NonNeg (t : Table) : Prop := ∀ p ∈ t, 0 ≤ p.2
/-- well-formed funds: sorted by epoch, no negative amount -/
def WF (f : Funds) : Prop := Sorted (raw f) ∧ NonNeg (raw f)
/-- entries that have vested at `cur` (`epoch < cur`) / that have not -/
def vestedPart (cur : Int) (t : Table) : Table := t.filter (fun p => decide (p.1 < cur))
def unvestedPart (cur : Int) (t : Table) : Table := t.filter (fun p => !decide (p.1 < cur))
/-- entries that hold funds (zero-amount entries are bookkeeping noise: `load` hides a zero head) -/
def live (t : Table) : Table := t.filter (fun p => decide (p.2 ≠ 0))

@[simp] theorem tsum_nil : tsum [] = 0 := rfl
@[simp] theorem tsum_cons (p : Int × Int) (t : Table) : tsum (p :: t) = p.2 + tsum t := rfl
theorem tsum_append (a b : Table) : tsum (a ++ b) = tsum a + tsum b := by
  simp [tsum, isum_append]

@[simp] theorem raw_save (t : Table) : raw (save t) = t := by
  cases t <;> rfl

theorem tsum_split (cur : Int) (t : Table) :
    tsum (vestedPart cur t) + tsum (unvestedPart cur t) = tsum t := by
  induction t with
  | nil => rfl
  | cons p t ih =>
    by_cases h : p.1 < cur <;> simp [vestedPart, unvestedPart, List.filter_cons, h] at ih ⊢ <;> omega

theorem sorted_tail {p : Int × Int} {t : Table} (h : Sorted (p :: t)) : Sorted t :=
  (List.pairwise_cons.mp h).2
theorem sorted_head {p : Int × Int} {t : Table} (h : Sorted (p :: t)) : ∀ q ∈ t, p.1 ≤ q.1 :=
  (List.pairwise_cons.mp h).1
theorem nonneg_tail {p : Int × Int} {t : Table} (h : NonNeg (p :: t)) : NonNeg t :=
  fun q hq => h q (List.mem_cons_of_mem _ hq)

theorem sorted_filter {t : Table} (f : Int × Int → Bool) (h : Sorted t) : Sorted (t.filter f) :=
  List.Pairwise.filter f h
theorem nonneg_filter {t : Table} (f : Int × Int → Bool) (h : NonNeg t) : NonNeg (t.filter f) :=
  fun p hp => h p (List.mem_filter.mp hp).1

/-- when the first entry has not vested and the table is sorted, nothing has -/
theorem vestedPart_of_head_ge {cur : Int} {p : Int × Int} {t : Table} (hs : Sorted (p :: t))
    (hp : ¬ p.1 < cur) : vestedPart cur (p :: t) = [] ∧ unvestedPart cur (p :: t) = p :: t := by
  have hall : ∀ q ∈ p :: t, ¬ q.1 < cur := by
    intro q hq
    cases List.mem_cons.mp hq with
    | inl h => subst h; exact hp
    | inr h => have := sorted_head hs q h; omega
  constructor
  · apply List.filter_eq_nil_iff.mpr
    intro q hq; simp [hall q hq]
  · apply List.filter_eq_self.mpr
    intro q hq; simp [hall q hq]

/-- `load` of non-negative funds holds the same amount as the raw entries -/
theorem tsum_load {f : Funds} (h : NonNeg (raw f)) : tsum (load f) = total f := by
  cases f with
  | none => rfl
  | some x =>
    obtain ⟨hd, t⟩ := x
    have h0 : 0 ≤ hd.2 := h hd (by simp [raw])
    by_cases hp : 0 < hd.2
    · simp [load, total, raw, hp]
    · have : hd.2 = 0 := by omega
      simp [load, total, raw, hp, this]

theorem live_load {f : Funds} (h : NonNeg (raw f)) : live (load f) = live (raw f) := by
  cases f with
  | none => rfl
  | some x =>
    obtain ⟨hd, t⟩ := x
    have h0 : 0 ≤ hd.2 := h hd (by simp [raw])
    by_cases hp : 0 < hd.2
    · simp [load, raw, hp]
    · have : hd.2 = 0 := by omega
      simp [load, raw, hp, live, List.filter_cons, this]

theorem load_sublist (f : Funds) : (load f).Sublist (raw f) := by
  cases f with
  | none => exact List.Sublist.refl _
  | some x =>
    obtain ⟨hd, t⟩ := x
    by_cases hp : 0 < hd.2
    · simp [load, raw, hp]
    · simp [load, raw, hp]

theorem sorted_load {f : Funds} (h : Sorted (raw f)) : Sorted (load f) :=
  List.Pairwise.sublist (load_sublist f) h
theorem nonneg_load {f : Funds} (h : NonNeg (raw f)) : NonNeg (load f) :=
  fun p hp => h p ((load_sublist f).subset hp)

/-! ### take_vested -/

theorem takeVested_sum (cur : Int) (t : Table) :
    (takeVested cur t).1 + tsum (takeVested cur t).2 = tsum t := by
  induction t with
  | nil => rfl
  | cons p t ih =>
    obtain ⟨e, a⟩ := p
    by_cases h : e < cur <;> simp [takeVested, h] <;> omega

/-- on a sorted table the vested prefix is the set of vested entries -/
theorem takeVested_sorted (cur : Int) (t : Table) (hs : Sorted t) :
    (takeVested cur t).1 = tsum (vestedPart cur t) ∧ (takeVested cur t).2 = unvestedPart cur t := by
  induction t with
  | nil => exact ⟨rfl, rfl⟩
  | cons p t ih =>
    obtain ⟨e, a⟩ := p
    by_cases h : e < cur
    · obtain ⟨i1, i2⟩ := ih (sorted_tail hs)
      simp [takeVested, h, vestedPart, unvestedPart, List.filter_cons] at i1 i2 ⊢
      exact ⟨by omega, i2⟩
    · obtain ⟨v1, v2⟩ := vestedPart_of_head_ge hs (by simpa using h)
      simp [takeVested, h, v1, v2]

/-! ### merge -/

theorem tsum_filter_merge (f : Int → Bool) (a b : Table) :
    tsum ((mergeFunds a b).filter (fun p => f p.1)) =
      tsum (a.filter (fun p => f p.1)) + tsum (b.filter (fun p => f p.1)) := by
  fun_induction mergeFunds a b with
  | case1 bs => simp
  | case2 a as => simp
  | case3 ea aa as eb ab bs h ih =>
    by_cases c : f ea = true <;> simp [List.filter_cons, c] at ih ⊢ <;> omega
  | case4 ea aa as eb ab bs h1 h2 ih =>
    by_cases c : f eb = true <;> simp [List.filter_cons, c] at ih ⊢ <;> omega
  | case5 ea aa as eb ab bs h1 h2 ih =>
    have : ea = eb := by omega
    subst this
    by_cases c : f ea = true <;> simp [List.filter_cons, c] at ih ⊢ <;> omega

theorem tsum_merge (a b : Table) : tsum (mergeFunds a b) = tsum a + tsum b := by
  have := tsum_filter_merge (fun _ => true) a b
  have e : ∀ t : Table, t.filter (fun _ => true) = t := fun t =>
    List.filter_eq_self.mpr (fun _ _ => rfl)
  rw [e, e, e] at this
  exact this

theorem mem_merge_epoch (a b : Table) : ∀ p ∈ mergeFunds a b, (∃ q ∈ a, q.1 = p.1) ∨ (∃ q ∈ b, q.1 = p.1) := by
  fun_induction mergeFunds a b with
  | case1 bs => intro p hp; exact Or.inr ⟨p, hp, rfl⟩
  | case2 a as => intro p hp; exact Or.inl ⟨p, hp, rfl⟩
  | case3 ea aa as eb ab bs h ih =>
    intro p hp
    cases List.mem_cons.mp hp with
    | inl h => subst h; exact Or.inl ⟨(ea, aa), by simp, rfl⟩
    | inr h =>
      cases ih p h with
      | inl h' => obtain ⟨q, hq, e⟩ := h'; exact Or.inl ⟨q, List.mem_cons_of_mem _ hq, e⟩
      | inr h' => exact Or.inr h'
  | case4 ea aa as eb ab bs h1 h2 ih =>
    intro p hp
    cases List.mem_cons.mp hp with
    | inl h => subst h; exact Or.inr ⟨(eb, ab), by simp, rfl⟩
    | inr h =>
      cases ih p h with
      | inl h' => exact Or.inl h'
      | inr h' => obtain ⟨q, hq, e⟩ := h'; exact Or.inr ⟨q, List.mem_cons_of_mem _ hq, e⟩
  | case5 ea aa as eb ab bs h1 h2 ih =>
    intro p hp
    cases List.mem_cons.mp hp with
    | inl h => subst h; exact Or.inl ⟨(ea, aa), by simp, rfl⟩
    | inr h =>
      cases ih p h with
      | inl h' => obtain ⟨q, hq, e⟩ := h'; exact Or.inl ⟨q, List.mem_cons_of_mem _ hq, e⟩
      | inr h' => obtain ⟨q, hq, e⟩ := h'; exact Or.inr ⟨q, List.mem_cons_of_mem _ hq, e⟩

theorem sorted_merge (a b : Table) (ha : Sorted a) (hb : Sorted b) : Sorted (mergeFunds a b) := by
  fun_induction mergeFunds a b with
  | case1 bs => exact hb
  | case2 a as => exact ha
  | case3 ea aa as eb ab bs h ih =>
    apply List.pairwise_cons.mpr
    refine ⟨?_, ih (sorted_tail ha) hb⟩
    intro p hp
    cases mem_merge_epoch _ _ p hp with
    | inl h' => obtain ⟨q, hq, e⟩ := h'; have := sorted_head ha q hq; simp at this ⊢; omega
    | inr h' =>
      obtain ⟨q, hq, e⟩ := h'
      cases List.mem_cons.mp hq with
      | inl h2 => subst h2; simp at e ⊢; omega
      | inr h2 => have := sorted_head hb q h2; simp at this e ⊢; omega
  | case4 ea aa as eb ab bs h1 h2 ih =>
    apply List.pairwise_cons.mpr
    refine ⟨?_, ih ha (sorted_tail hb)⟩
    intro p hp
    cases mem_merge_epoch _ _ p hp with
    | inl h' =>
      obtain ⟨q, hq, e⟩ := h'
      cases List.mem_cons.mp hq with
      | inl h3 => subst h3; simp at e ⊢; omega
      | inr h3 => have := sorted_head ha q h3; simp at this e ⊢; omega
    | inr h' => obtain ⟨q, hq, e⟩ := h'; have := sorted_head hb q hq; simp at this ⊢; omega
  | case5 ea aa as eb ab bs h1 h2 ih =>
    apply List.pairwise_cons.mpr
    refine ⟨?_, ih (sorted_tail ha) (sorted_tail hb)⟩
    intro p hp
    cases mem_merge_epoch _ _ p hp with
    | inl h' => obtain ⟨q, hq, e⟩ := h'; have := sorted_head ha q hq; simp at this ⊢; omega
    | inr h' => obtain ⟨q, hq, e⟩ := h'; have := sorted_head hb q hq; simp at this ⊢; omega

theorem nonneg_merge (a b : Table) (ha : NonNeg a) (hb : NonNeg b) : NonNeg (mergeFunds a b) := by
  fun_induction mergeFunds a b with
  | case1 bs => exact hb
  | case2 a as => exact ha
  | case3 ea aa as eb ab bs h ih =>
    intro p hp
    cases List.mem_cons.mp hp with
    | inl h => subst h; exact ha _ (by simp)
    | inr h => exact ih (nonneg_tail ha) hb p h
  | case4 ea aa as eb ab bs h1 h2 ih =>
    intro p hp
    cases List.mem_cons.mp hp with
    | inl h => subst h; exact hb _ (by simp)
    | inr h => exact ih ha (nonneg_tail hb) p h
  | case5 ea aa as eb ab bs h1 h2 ih =>
    intro p hp
    cases List.mem_cons.mp hp with
    | inl h =>
      subst h
      have h1 := ha (ea, aa) (by simp); have h2 := hb (eb, ab) (by simp)
      simp at h1 h2 ⊢; omega
    | inr h => exact ih (nonneg_tail ha) (nonneg_tail hb) p h

/-! ### the schedule generator -/

/-- the linear target: amount that must have vested once the clock (started at `vb`) reaches `e` -/
def targetAt (sum vb : Int) (spec : VestSpec) (e : Int) : Int :=
  if e - vb < spec.vestPeriod then Int.fdiv (sum * (e - vb)) spec.vestPeriod else sum

theorem genLoop_succ_eq (sum vb pps : Int) (spec : VestSpec) (fuel : Nat) (v ep : Int) :
    genLoop sum vb pps spec (fuel + 1) v ep =
      if v ≥ sum then .ok []
      else if spec.quantization = 0 then .error .assertion
      else if quantizeUp spec.quantization pps (ep + spec.stepDuration) - vb < spec.vestPeriod ∧
          spec.vestPeriod = 0 then .error .assertion
      else match genLoop sum vb pps spec fuel
          (targetAt sum vb spec (quantizeUp spec.quantization pps (ep + spec.stepDuration)))
          (ep + spec.stepDuration) with
        | .error e => .error e
        | .ok rest => .ok ((quantizeUp spec.quantization pps (ep + spec.stepDuration),
            targetAt sum vb spec (quantizeUp spec.quantization pps (ep + spec.stepDuration)) - v) :: rest) := by
  rfl

/-- one unfolding of the generator, on the success side -/
theorem genLoop_succ_ok (sum vb pps : Int) (spec : VestSpec) (fuel : Nat) (v ep : Int) (L : Table) :
    genLoop sum vb pps spec (fuel + 1) v ep = .ok L ↔
      (v ≥ sum ∧ L = []) ∨
      (v < sum ∧ spec.quantization ≠ 0 ∧
        ¬ (quantizeUp spec.quantization pps (ep + spec.stepDuration) - vb < spec.vestPeriod ∧
            spec.vestPeriod = 0) ∧
        ∃ rest, genLoop sum vb pps spec fuel
            (targetAt sum vb spec (quantizeUp spec.quantization pps (ep + spec.stepDuration)))
            (ep + spec.stepDuration) = .ok rest ∧
          L = (quantizeUp spec.quantization pps (ep + spec.stepDuration),
               targetAt sum vb spec (quantizeUp spec.quantization pps (ep + spec.stepDuration)) - v)
              :: rest) := by
  rw [genLoop_succ_eq]
  by_cases hv : v ≥ sum
  · simp only [hv, if_true]
    constructor
    · intro h; injection h with h; exact Or.inl ⟨trivial, h.symm⟩
    · intro h
      cases h with
      | inl h => rw [h.2]
      | inr h => exact absurd hv (by have := h.1; omega)
  · simp only [hv, if_false]
    by_cases hq : spec.quantization = 0
    · simp only [hq, if_true]
      constructor
      · intro h; cases h
      · intro h
        cases h with
        | inl h => exact h.1.elim
        | inr h => exact absurd rfl h.2.1
    · simp only [hq, if_false]
      by_cases hz : quantizeUp spec.quantization pps (ep + spec.stepDuration) - vb < spec.vestPeriod ∧
          spec.vestPeriod = 0
      · rw [if_pos hz]
        constructor
        · intro h; cases h
        · intro h
          cases h with
          | inl h => exact h.1.elim
          | inr h => exact absurd hz h.2.2.1
      · rw [if_neg hz]
        cases hr : genLoop sum vb pps spec fuel
            (targetAt sum vb spec (quantizeUp spec.quantization pps (ep + spec.stepDuration)))
            (ep + spec.stepDuration) with
        | error e =>
          simp only []
          constructor
          · intro h; cases h
          · intro h
            cases h with
            | inl h => exact h.1.elim
            | inr h => obtain ⟨_, _, _, rest, h1, _⟩ := h; cases h1
        | ok rest =>
          simp only []
          constructor
          · intro h
            injection h with h
            exact Or.inr ⟨by omega, hq, hz, rest, rfl, h.symm⟩
          · intro h
            cases h with
            | inl h => exact h.1.elim
            | inr h =>
              obtain ⟨_, _, _, rest', h1, h2⟩ := h
              injection h1 with h1
              subst h1
              rw [h2]

theorem genLoop_zero_ok (sum vb pps : Int) (spec : VestSpec) (v ep : Int) (L : Table) :
    genLoop sum vb pps spec 0 v ep = .ok L ↔ (v ≥ sum ∧ L = []) := by
  unfold genLoop
  by_cases hv : v ≥ sum
  · simp only [hv, if_true]
    constructor
    · intro h; injection h with h; exact ⟨trivial, h.symm⟩
    · intro h; rw [h.2]
  · simp only [hv, if_false]
    constructor
    · intro h; cases h
    · intro h; exact h.1.elim

/-! ### the linear target -/

theorem targetAt_of_lt {sum vb : Int} {spec : VestSpec} {e : Int} (h0 : vb ≤ e)
    (h : e - vb < spec.vestPeriod) :
    targetAt sum vb spec e = sum * (e - vb) / spec.vestPeriod := by
  unfold targetAt
  rw [if_pos h, Int.fdiv_eq_ediv_of_nonneg _ (by omega)]

theorem targetAt_of_ge {sum vb : Int} {spec : VestSpec} {e : Int}
    (h : ¬ e - vb < spec.vestPeriod) : targetAt sum vb spec e = sum := by
  unfold targetAt
  rw [if_neg h]

theorem targetAt_le_sum {sum vb : Int} {spec : VestSpec} {e : Int} (hsum : 0 ≤ sum) (h0 : vb ≤ e) :
    targetAt sum vb spec e ≤ sum := by
  by_cases h : e - vb < spec.vestPeriod
  · rw [targetAt_of_lt h0 h]
    have hp : 0 < spec.vestPeriod := by omega
    have h1 : sum * (e - vb) ≤ sum * spec.vestPeriod :=
      Int.mul_le_mul_of_nonneg_left (by omega) hsum
    have h2 := Int.ediv_le_ediv hp h1
    rw [Int.mul_ediv_cancel _ (by omega)] at h2
    exact h2
  · rw [targetAt_of_ge h]; omega

theorem targetAt_lt_sum {sum vb : Int} {spec : VestSpec} {e : Int} (hsum : 0 < sum) (h0 : vb ≤ e)
    (h : e - vb < spec.vestPeriod) : targetAt sum vb spec e < sum := by
  rw [targetAt_of_lt h0 h]
  have hp : 0 < spec.vestPeriod := by omega
  apply Int.ediv_lt_of_lt_mul hp
  exact Int.mul_lt_mul_of_pos_left h hsum

theorem targetAt_nonneg {sum vb : Int} {spec : VestSpec} {e : Int} (hsum : 0 ≤ sum) (h0 : vb ≤ e) :
    0 ≤ targetAt sum vb spec e := by
  by_cases h : e - vb < spec.vestPeriod
  · rw [targetAt_of_lt h0 h]
    exact Int.ediv_nonneg (Int.mul_nonneg hsum (by omega)) (by omega)
  · rw [targetAt_of_ge h]; exact hsum

theorem targetAt_mono {sum vb : Int} {spec : VestSpec} {e1 e2 : Int} (hsum : 0 ≤ sum) (h0 : vb ≤ e1)
    (h12 : e1 ≤ e2) : targetAt sum vb spec e1 ≤ targetAt sum vb spec e2 := by
  by_cases h2 : e2 - vb < spec.vestPeriod
  · have h1 : e1 - vb < spec.vestPeriod := by omega
    rw [targetAt_of_lt h0 h1, targetAt_of_lt (by omega) h2]
    apply Int.ediv_le_ediv (by omega)
    exact Int.mul_le_mul_of_nonneg_left (by omega) hsum
  · rw [targetAt_of_ge h2]
    exact targetAt_le_sum hsum h0

/-! ### properties of the generated schedule (all by induction on the fuel) -/

/-- epoch of the `i`-th call of the closure that starts from clock value `ep` -/
def stepEpoch (pps : Int) (spec : VestSpec) (ep : Int) (i : Nat) : Int :=
  quantizeUp spec.quantization pps (ep + spec.stepDuration * ((i : Int) + 1))

/-- every entry is the quantised `ep + (i+1)·step`, its cumulative amount is the linear target -/
theorem genLoop_entries (sum vb pps : Int) (spec : VestSpec) :
    ∀ (fuel : Nat) (v ep : Int) (L : Table), genLoop sum vb pps spec fuel v ep = .ok L →
      ∀ i (h : i < L.length),
        (L[i]).1 = stepEpoch pps spec ep i ∧
        v + tsum (L.take (i + 1)) = targetAt sum vb spec (L[i]).1 := by
  intro fuel
  induction fuel with
  | zero =>
    intro v ep L h i hi
    have := ((genLoop_zero_ok ..).mp h).2
    subst this
    exact absurd hi (by simp)
  | succ fuel ih =>
    intro v ep L h i hi
    cases (genLoop_succ_ok ..).mp h with
    | inl h' => obtain ⟨_, hl⟩ := h'; subst hl; exact absurd hi (by simp)
    | inr h' =>
      obtain ⟨_, _, _, rest, hr, hl⟩ := h'
      subst hl
      cases i with
      | zero =>
        simp [stepEpoch]
        omega
      | succ i =>
        have hi' : i < rest.length := by simpa using hi
        obtain ⟨e1, e2⟩ := ih _ _ rest hr i hi'
        simp only [List.getElem_cons_succ, List.take_succ_cons, tsum_cons]
        refine ⟨?_, by omega⟩
        rw [e1]
        unfold stepEpoch
        congr 1
        have : spec.stepDuration * (((i + 1 : Nat) : Int) + 1) =
            spec.stepDuration + spec.stepDuration * ((i : Int) + 1) := by
          rw [Int.natCast_succ, Int.mul_add _ ((i : Int) + 1) 1]; omega
        omega

/-- amounts are non-negative and the total is exactly `sum`, provided the running value `v` is
    below every later target (true initially with `v = 0`) -/
theorem genLoop_total_nonneg (sum vb pps : Int) (spec : VestSpec) (hu : 0 < spec.quantization)
    (hs : 0 ≤ spec.stepDuration) (hsum : 0 ≤ sum) :
    ∀ (fuel : Nat) (v ep : Int) (L : Table), vb ≤ ep → v ≤ sum →
      (∀ e, quantizeUp spec.quantization pps ep ≤ e → v ≤ targetAt sum vb spec e) →
      genLoop sum vb pps spec fuel v ep = .ok L →
      v + tsum L = sum ∧ NonNeg L := by
  intro fuel
  induction fuel with
  | zero =>
    intro v ep L _ hv _ h
    obtain ⟨h1, h2⟩ := (genLoop_zero_ok ..).mp h
    subst h2
    exact ⟨by simp; omega, fun p hp => absurd hp (by simp)⟩
  | succ fuel ih =>
    intro v ep L hep hv hinv h
    cases (genLoop_succ_ok ..).mp h with
    | inl h' =>
      obtain ⟨h1, h2⟩ := h'; subst h2
      exact ⟨by simp; omega, fun p hp => absurd hp (by simp)⟩
    | inr h' =>
      obtain ⟨_, _, _, rest, hr, hl⟩ := h'
      subst hl
      have hq1 := quantizeUp_ge spec.quantization pps (ep + spec.stepDuration) hu
      have hmono := quantizeUp_mono spec.quantization pps ep (ep + spec.stepDuration) hu (by omega)
      have hge : vb ≤ quantizeUp spec.quantization pps (ep + spec.stepDuration) := by omega
      obtain ⟨t1, t2⟩ := ih _ (ep + spec.stepDuration) rest (by omega) (targetAt_le_sum hsum hge)
        (fun e he => targetAt_mono hsum hge he) hr
      refine ⟨by simp; omega, ?_⟩
      intro p hp
      cases List.mem_cons.mp hp with
      | inl hp => subst hp; have := hinv _ hmono; simp; omega
      | inr hp => exact t2 p hp

/-- the loop stops within `k` calls once `ep + k·step` is a full vest period after `vb` -/
theorem genLoop_length_le (sum vb pps : Int) (spec : VestSpec) (hu : 0 < spec.quantization)
    (hs : 0 < spec.stepDuration) :
    ∀ (fuel : Nat) (v ep : Int) (L : Table) (k : Int), 1 ≤ k →
      spec.vestPeriod ≤ ep - vb + spec.stepDuration * k →
      genLoop sum vb pps spec fuel v ep = .ok L → (L.length : Int) ≤ k := by
  intro fuel
  induction fuel with
  | zero =>
    intro v ep L k hk _ h
    have := ((genLoop_zero_ok ..).mp h).2
    subst this; simp; omega
  | succ fuel ih =>
    intro v ep L k hk hvp h
    cases (genLoop_succ_ok ..).mp h with
    | inl h' => obtain ⟨_, hl⟩ := h'; subst hl; simp; omega
    | inr h' =>
      obtain ⟨_, _, _, rest, hr, hl⟩ := h'
      subst hl
      have hq1 := quantizeUp_ge spec.quantization pps (ep + spec.stepDuration) hu
      by_cases hdone : quantizeUp spec.quantization pps (ep + spec.stepDuration) - vb < spec.vestPeriod
      · -- not yet a full period: k ≥ 2
        have hk2 : 2 ≤ k := by
          by_cases hk1 : k = 1
          · subst hk1; rw [Int.mul_one] at hvp; omega
          · omega
        have hm : spec.stepDuration * k = spec.stepDuration * (k - 1) + spec.stepDuration := by
          rw [Int.mul_sub, Int.mul_one]; omega
        have := ih _ _ rest (k - 1) (by omega) (by omega) hr
        simp; omega
      · rw [targetAt_of_ge hdone] at hr
        have hnil : rest = [] := by
          cases fuel with
          | zero => exact ((genLoop_zero_ok ..).mp hr).2
          | succ f =>
            cases (genLoop_succ_ok ..).mp hr with
            | inl h'' => exact h''.2
            | inr h'' => exact absurd h''.1 (by omega)
        subst hnil; simp; omega

/-- with `step > 0` and a positive quantisation unit the loop does terminate: fuel `k` is
    enough once `ep + k·step` is a full vest period after `vb` -/
theorem genLoop_terminates (sum vb pps : Int) (spec : VestSpec) (hu : 0 < spec.quantization)
    (hs : 0 < spec.stepDuration) :
    ∀ (fuel : Nat) (v ep : Int), vb ≤ ep →
      (v ≥ sum ∨ (1 ≤ fuel ∧ spec.vestPeriod ≤ ep - vb + spec.stepDuration * (fuel : Int))) →
      ∃ L, genLoop sum vb pps spec fuel v ep = .ok L := by
  intro fuel
  induction fuel with
  | zero =>
    intro v ep _ h
    cases h with
    | inl h => exact ⟨[], (genLoop_zero_ok ..).mpr ⟨h, rfl⟩⟩
    | inr h => omega
  | succ fuel ih =>
    intro v ep hep h
    by_cases hv : v ≥ sum
    · exact ⟨[], (genLoop_succ_ok ..).mpr (Or.inl ⟨hv, rfl⟩)⟩
    · have h := h.resolve_left hv
      have hq1 := quantizeUp_ge spec.quantization pps (ep + spec.stepDuration) hu
      have hm : spec.stepDuration * ((fuel + 1 : Nat) : Int) =
          spec.stepDuration * (fuel : Int) + spec.stepDuration := by
        rw [Int.natCast_succ, Int.mul_add, Int.mul_one]
      have hrec : ∃ rest, genLoop sum vb pps spec fuel
          (targetAt sum vb spec (quantizeUp spec.quantization pps (ep + spec.stepDuration)))
          (ep + spec.stepDuration) = .ok rest := by
        apply ih _ _ (by omega)
        by_cases hf : 1 ≤ fuel
        · exact Or.inr ⟨hf, by omega⟩
        · have hf0 : fuel = 0 := by omega
          subst hf0
          left
          have : ¬ quantizeUp spec.quantization pps (ep + spec.stepDuration) - vb < spec.vestPeriod := by
            simp at hm; omega
          rw [targetAt_of_ge this]; omega
      obtain ⟨rest, hr⟩ := hrec
      exact ⟨_, (genLoop_succ_ok ..).mpr (Or.inr ⟨by omega, by omega, by omega, rest, hr, rfl⟩)⟩

/-- epochs: each entry is later than the clock value it was generated from; consecutive entries are
    strictly increasing when a step is at least one quantisation unit; all are on the grid -/
theorem genLoop_epochs (sum vb pps : Int) (spec : VestSpec) (hu : 0 < spec.quantization)
    (hs : 0 < spec.stepDuration) (hq : spec.quantization ≤ spec.stepDuration) :
    ∀ (fuel : Nat) (v ep : Int) (L : Table), genLoop sum vb pps spec fuel v ep = .ok L →
      (∀ p ∈ L, quantizeUp spec.quantization pps ep < p.1 ∧ ep + spec.stepDuration ≤ p.1 ∧
        ∃ k : Int, p.1 = spec.quantization * k + pps.tmod spec.quantization) ∧
      L.Pairwise (fun a b => a.1 < b.1) := by
  intro fuel
  induction fuel with
  | zero =>
    intro v ep L h
    have := ((genLoop_zero_ok ..).mp h).2
    subst this
    exact ⟨fun p hp => absurd hp (by simp), List.Pairwise.nil⟩
  | succ fuel ih =>
    intro v ep L h
    cases (genLoop_succ_ok ..).mp h with
    | inl h' =>
      obtain ⟨_, hl⟩ := h'; subst hl
      exact ⟨fun p hp => absurd hp (by simp), List.Pairwise.nil⟩
    | inr h' =>
      obtain ⟨_, _, _, rest, hr, hl⟩ := h'
      subst hl
      obtain ⟨i1, i2⟩ := ih _ _ rest hr
      obtain ⟨q1, q2, q3⟩ := quantizeUp_spec spec.quantization pps (ep + spec.stepDuration) hu
      have q4 := quantizeUp_lt spec.quantization pps ep hu
      refine ⟨?_, List.pairwise_cons.mpr ⟨fun p hp => (i1 p hp).1, i2⟩⟩
      intro p hp
      cases List.mem_cons.mp hp with
      | inl hp => subst hp; exact ⟨by simp; omega, by simp; omega, q3⟩
      | inr hp =>
        obtain ⟨a1, a2, a3⟩ := i1 p hp
        exact ⟨by omega, by omega, a3⟩

/-- at least `k` entries while the `(k-1)`-th call is certainly short of a full vest period -/
theorem genLoop_length_ge (sum vb pps : Int) (spec : VestSpec) (hu : 0 < spec.quantization)
    (hs : 0 < spec.stepDuration) (hsum : 0 < sum) :
    ∀ (fuel : Nat) (v ep : Int) (L : Table) (k : Int), vb ≤ ep → v < sum →
      ep - vb + spec.stepDuration * (k - 1) + spec.quantization ≤ spec.vestPeriod →
      genLoop sum vb pps spec fuel v ep = .ok L → k ≤ (L.length : Int) := by
  intro fuel
  induction fuel with
  | zero =>
    intro v ep L k _ hv _ h
    have := ((genLoop_zero_ok ..).mp h).1
    omega
  | succ fuel ih =>
    intro v ep L k hep hv hk h
    cases (genLoop_succ_ok ..).mp h with
    | inl h' => have := h'.1; omega
    | inr h' =>
      obtain ⟨_, _, _, rest, hr, hl⟩ := h'
      subst hl
      by_cases hk1 : k ≤ 1
      · simp; omega
      · have hq1 := quantizeUp_ge spec.quantization pps (ep + spec.stepDuration) hu
        have hq2 := quantizeUp_lt spec.quantization pps (ep + spec.stepDuration) hu
        have hm : spec.stepDuration * (k - 1) = spec.stepDuration * (k - 1 - 1) + spec.stepDuration := by
          rw [Int.mul_sub _ (k - 1) 1, Int.mul_one]; omega
        have hpos : 0 ≤ spec.stepDuration * (k - 1 - 1) := Int.mul_nonneg (by omega) (by omega)
        have hlt : quantizeUp spec.quantization pps (ep + spec.stepDuration) - vb < spec.vestPeriod := by
          omega
        have := ih _ _ rest (k - 1) (by omega) (targetAt_lt_sum hsum (by omega) hlt) (by omega) hr
        simp; omega

/-- every entry is at least one step after the clock value it was generated from -/
theorem genLoop_after (sum vb pps : Int) (spec : VestSpec) (hu : 0 < spec.quantization)
    (hs : 0 ≤ spec.stepDuration) :
    ∀ (fuel : Nat) (v ep : Int) (L : Table), genLoop sum vb pps spec fuel v ep = .ok L →
      (∀ p ∈ L, ep + spec.stepDuration ≤ p.1) ∧ Sorted L := by
  intro fuel
  induction fuel with
  | zero =>
    intro v ep L h
    have := ((genLoop_zero_ok ..).mp h).2
    subst this
    exact ⟨fun p hp => absurd hp (by simp), List.Pairwise.nil⟩
  | succ fuel ih =>
    intro v ep L h
    cases (genLoop_succ_ok ..).mp h with
    | inl h' =>
      obtain ⟨_, hl⟩ := h'; subst hl
      exact ⟨fun p hp => absurd hp (by simp), List.Pairwise.nil⟩
    | inr h' =>
      obtain ⟨_, _, _, rest, hr, hl⟩ := h'
      subst hl
      obtain ⟨i1, i2⟩ := ih _ _ rest hr
      have q1 := quantizeUp_ge spec.quantization pps (ep + spec.stepDuration) hu
      have q2 := quantizeUp_ge spec.quantization pps (ep + spec.stepDuration + spec.stepDuration) hu
      have q3 := quantizeUp_mono spec.quantization pps (ep + spec.stepDuration)
        (ep + spec.stepDuration + spec.stepDuration) hu (by omega)
      constructor
      · intro p hp
        cases List.mem_cons.mp hp with
        | inl hp => subst hp; simpa using q1
        | inr hp => have := i1 p hp; omega
      · apply List.pairwise_cons.mpr
        refine ⟨?_, i2⟩
        intro p hp
        -- p is an entry of `rest`: it is the quantised value of a later clock value
        have hge : ∀ (fuel : Nat) (v ep0 : Int) (L : Table),
            genLoop sum vb pps spec fuel v ep0 = .ok L →
            ∀ p ∈ L, quantizeUp spec.quantization pps (ep0 + spec.stepDuration) ≤ p.1 := by
          intro fuel
          induction fuel with
          | zero =>
            intro v ep0 L h p hp
            have := ((genLoop_zero_ok ..).mp h).2
            subst this; exact absurd hp (by simp)
          | succ fuel ih2 =>
            intro v ep0 L h p hp
            cases (genLoop_succ_ok ..).mp h with
            | inl h' => obtain ⟨_, hl⟩ := h'; subst hl; exact absurd hp (by simp)
            | inr h' =>
              obtain ⟨_, _, _, rest, hr, hl⟩ := h'
              subst hl
              cases List.mem_cons.mp hp with
              | inl hp => subst hp; exact Int.le_refl _
              | inr hp =>
                have a := ih2 _ _ rest hr p hp
                have b := quantizeUp_mono spec.quantization pps (ep0 + spec.stepDuration)
                  (ep0 + spec.stepDuration + spec.stepDuration) hu (by omega)
                omega
        have := hge _ _ _ rest hr p hp
        simp only
        omega

/-! ### the forced unlock -/

/-- specification of "take `target` out of the table, earliest entries first": entries are
    removed whole while they are smaller than what is still to take, the next one is reduced -/
def consume : Int → Table → Table
  | _, [] => []
  | target, (e, a) :: t => if a < target then consume (target - a) t else (e, a - target) :: t

theorem tsum_nonneg {t : Table} (h : NonNeg t) : 0 ≤ tsum t := by
  induction t with
  | nil => simp
  | cons p t ih =>
    have := h p (by simp)
    have := ih (nonneg_tail h)
    simp; omega

theorem consume_zero {t : Table} (h : NonNeg t) : consume 0 t = t := by
  cases t with
  | nil => rfl
  | cons p t =>
    obtain ⟨e, a⟩ := p
    have : 0 ≤ a := h (e, a) (by simp)
    simp [consume]
    omega

theorem slowLoop_conserves (cur : Int) (t : Table) : ∀ (target v u : Int),
    (slowLoop cur t target v u).2.1 + (slowLoop cur t target v u).2.2 +
      tsum (slowLoop cur t target v u).1 = v + u + tsum t := by
  induction t with
  | nil => intro target v u; simp [slowLoop]
  | cons p t ih =>
    intro target v u
    obtain ⟨e, a⟩ := p
    by_cases h1 : e < cur
    · simp only [slowLoop, h1, if_true]; rw [ih]; simp; omega
    · by_cases h2 : a < target
      · simp only [slowLoop, h1, h2, if_true, if_false]; rw [ih]; simp; omega
      · simp [slowLoop, h1, h2]; omega

theorem slowLoop_wf (cur : Int) (t : Table) : ∀ (target v u : Int), Sorted t → NonNeg t →
    Sorted (slowLoop cur t target v u).1 ∧ NonNeg (slowLoop cur t target v u).1 := by
  induction t with
  | nil => intro target v u hs hn; simp [slowLoop]; exact ⟨List.Pairwise.nil, fun p hp => absurd hp (by simp)⟩
  | cons p t ih =>
    intro target v u hs hn
    obtain ⟨e, a⟩ := p
    by_cases h1 : e < cur
    · simp only [slowLoop, h1, if_true]; exact ih _ _ _ (sorted_tail hs) (nonneg_tail hn)
    · by_cases h2 : a < target
      · simp only [slowLoop, h1, h2, if_true, if_false]; exact ih _ _ _ (sorted_tail hs) (nonneg_tail hn)
      · simp only [slowLoop, h1, h2, if_false]
        constructor
        · exact List.pairwise_cons.mpr ⟨fun q hq => sorted_head hs q hq, sorted_tail hs⟩
        · intro q hq
          cases List.mem_cons.mp hq with
          | inl h => subst h; simp; omega
          | inr h => exact nonneg_tail hn q h

/-- on a sorted non-negative table and for a non-negative target the loop returns exactly the
    vested amount, `min target (unvested amount)`, and leaves the unvested entries consumed
    earliest-first -/
theorem slowLoop_exact (cur : Int) (t : Table) : ∀ (target v u : Int), Sorted t → NonNeg t →
    0 ≤ target →
    (slowLoop cur t target v u).2.1 = v + tsum (vestedPart cur t) ∧
    (slowLoop cur t target v u).2.2 = u + min target (tsum (unvestedPart cur t)) ∧
    (slowLoop cur t target v u).1 = consume target (unvestedPart cur t) := by
  induction t with
  | nil => intro target v u _ _ ht; simp [slowLoop, vestedPart, unvestedPart, consume]; omega
  | cons p t ih =>
    intro target v u hs hn ht
    obtain ⟨e, a⟩ := p
    have ha : 0 ≤ a := hn (e, a) (by simp)
    by_cases h1 : e < cur
    · obtain ⟨i1, i2, i3⟩ := ih target (v + a) u (sorted_tail hs) (nonneg_tail hn) ht
      simp only [slowLoop, h1, if_true]
      simp [vestedPart, unvestedPart, h1] at i1 i2 i3 ⊢
      exact ⟨by omega, i2, i3⟩
    · obtain ⟨v1, v2⟩ := vestedPart_of_head_ge hs h1
      have v3 : vestedPart cur t = [] := by
        have := v1; simp [vestedPart, h1] at this ⊢; exact this
      have v4 : unvestedPart cur t = t := by
        have := v2; simp [unvestedPart, h1] at this ⊢; exact this
      have hts : 0 ≤ tsum t := tsum_nonneg (nonneg_tail hn)
      by_cases h2 : a < target
      · obtain ⟨i1, i2, i3⟩ := ih (target - a) v (u + a) (sorted_tail hs) (nonneg_tail hn) (by omega)
        simp only [slowLoop, h1, h2, if_true, if_false]
        rw [v1, v2]; rw [v3] at i1; rw [v4] at i2 i3
        refine ⟨by simpa using i1, ?_, ?_⟩
        · rw [i2]; simp only [tsum_cons]; omega
        · rw [i3]; simp [consume, h2]
      · simp only [slowLoop, h1, h2, if_false]
        rw [v1, v2]
        refine ⟨by simp, ?_, by simp [consume, h2]⟩
        simp only [tsum_cons]; omega

end BA.Vesting
