/- Lemmas for the C09 system invariant: the registry's token balance backs the unclaimed
   allocations, allocation ids are issued once and each allocation ends at most once. -/
import BA.Model.Verifreg
import BA.Lemmas.Verifreg
import BA.Lemmas.VerifregClaims

namespace BA.Verifreg
open BA

/-! ### association-list facts -/

def keys {α : Type} (l : List (Nat × α)) : List Nat := l.map (fun p => p.1)

theorem mem_keys_of_alookup {α : Type} (l : List (Nat × α)) (k : Nat) (v : α)
    (h : alookup k l = some v) : k ∈ keys l := by
  induction l with
  | nil => simp [alookup] at h
  | cons hd t ih =>
    obtain ⟨k', v'⟩ := hd
    by_cases hk : k' = k
    · simp [keys, hk]
    · simp only [alookup, hk, if_false] at h
      have := ih h
      simp only [keys, List.map_cons, List.mem_cons] at this ⊢
      exact Or.inr this

theorem alookup_none_of_not_mem {α : Type} (l : List (Nat × α)) (k : Nat) (h : k ∉ keys l) :
    alookup k l = none := by
  cases hl : alookup k l with
  | none => rfl
  | some v => exact absurd (mem_keys_of_alookup l k v hl) h

theorem mem_keys_aerase {α : Type} (l : List (Nat × α)) (k id : Nat) :
    id ∈ keys (aerase k l) ↔ id ∈ keys l ∧ id ≠ k := by
  induction l with
  | nil => simp [aerase, keys]
  | cons hd t ih =>
    obtain ⟨k', v'⟩ := hd
    by_cases hk : k' = k
    · subst hk
      simp only [aerase, if_true, keys, List.map_cons, List.mem_cons] at ih ⊢
      rw [ih]
      constructor
      · intro ⟨a, b⟩; exact ⟨Or.inr a, b⟩
      · intro ⟨a, b⟩
        cases a with
        | inl e => exact absurd e b
        | inr e => exact ⟨e, b⟩
    · simp only [aerase, hk, if_false, keys, List.map_cons, List.mem_cons] at ih ⊢
      rw [ih]
      constructor
      · intro a
        cases a with
        | inl e => exact ⟨Or.inl e, by rw [e]; exact hk⟩
        | inr e => exact ⟨Or.inr e.1, e.2⟩
      · intro ⟨a, b⟩
        cases a with
        | inl e => exact Or.inl e
        | inr e => exact Or.inr ⟨e, b⟩

theorem aerase_of_not_mem {α : Type} (l : List (Nat × α)) (k : Nat) (h : k ∉ keys l) :
    aerase k l = l := by
  induction l with
  | nil => rfl
  | cons hd t ih =>
    obtain ⟨k', v'⟩ := hd
    simp only [keys, List.map_cons, List.mem_cons, not_or] at h
    have hk : ¬ k' = k := fun e => h.1 e.symm
    simp only [aerase, hk, if_false]
    rw [ih h.2]

theorem nodup_keys_aerase {α : Type} (l : List (Nat × α)) (k : Nat) (h : (keys l).Nodup) :
    (keys (aerase k l)).Nodup := by
  induction l with
  | nil => simp [aerase, keys]
  | cons hd t ih =>
    obtain ⟨k', v'⟩ := hd
    simp only [keys, List.map_cons, List.nodup_cons] at h
    by_cases hk : k' = k
    · simp only [aerase, hk, if_true]; exact ih h.2
    · simp only [aerase, hk, if_false, keys, List.map_cons, List.nodup_cons]
      refine ⟨?_, ih h.2⟩
      intro hm
      exact h.1 ((mem_keys_aerase t k k').mp hm).1

theorem isum_sizes_aerase (l : List (Nat × Allocation)) (k : Nat) (a : Allocation)
    (hn : (keys l).Nodup) (h : alookup k l = some a) :
    isum (allocSizes (aerase k l)) = isum (allocSizes l) - a.size := by
  induction l with
  | nil => simp [alookup] at h
  | cons hd t ih =>
    obtain ⟨k', v'⟩ := hd
    simp only [keys, List.map_cons, List.nodup_cons] at hn
    by_cases hk : k' = k
    · subst hk
      simp only [alookup, if_true] at h
      injection h with h; subst h
      simp only [aerase, if_true]
      rw [aerase_of_not_mem t k' hn.1]
      simp [allocSizes]; omega
    · simp only [alookup, hk, if_false] at h
      simp only [aerase, hk, if_false, allocSizes, List.map_cons, isum_cons]
      have := ih hn.2 h
      simp only [allocSizes] at this
      rw [this]; omega

theorem toTokens_add (a b : Int) : toTokens (a + b) = toTokens a + toTokens b := by
  simp [toTokens, Int.add_mul]
theorem toTokens_sub (a b : Int) : toTokens (a - b) = toTokens a - toTokens b := by
  simp [toTokens, Int.sub_mul]

/-- a granular non-negative token amount is a whole number of datacap units -/
theorem toTokens_toDatacap (a : Int) (h0 : 0 ≤ a) (hm : a % Datacap.precision = 0) :
    toTokens (toDatacap a) = a := by
  unfold toTokens toDatacap
  rw [Int.tdiv_eq_ediv_of_nonneg h0]
  exact Int.ediv_mul_cancel (Int.dvd_of_emod_eq_zero hm)

/-! ### the invariant -/

structure RInv (s : Sys) : Prop where
  gov : s.dc.governor = verifregId
  noAllow : ∀ p, Datacap.allowance s.dc verifregId p = 0
  reg : Datacap.bal s.dc verifregId = toTokens (isum (allocSizes s.vr.allocs))
  lt : ∀ id ∈ keys s.vr.allocs, id < s.vr.nextAllocId
  nodup : (keys s.vr.allocs).Nodup
  claimedLt : ∀ id ∈ s.vr.claimedIds, id < s.vr.nextAllocId
  refundedLt : ∀ id ∈ s.vr.refundedIds, id < s.vr.nextAllocId
  claimedNodup : s.vr.claimedIds.Nodup
  refundedNodup : s.vr.refundedIds.Nodup
  disjoint : ∀ id ∈ s.vr.claimedIds, id ∉ s.vr.refundedIds
  liveNotClaimed : ∀ id ∈ keys s.vr.allocs, id ∉ s.vr.claimedIds
  liveNotRefunded : ∀ id ∈ keys s.vr.allocs, id ∉ s.vr.refundedIds

theorem rinv_init (root : Nat) (actors : List (Nat × Kind)) : RInv (init root actors) := by
  refine ⟨rfl, fun p => rfl, ?_, ?_, ?_, ?_, ?_, ?_, ?_, ?_, ?_, ?_⟩ <;>
    simp [init, Datacap.init, Datacap.bal, allocSizes, toTokens, keys]

/-- only the token ledger changed, and neither the registry's balance nor its allowances -/
theorem RInv.of_dc {s : Sys} {dc' : Datacap.State} (h : RInv s)
    (hg : dc'.governor = s.dc.governor)
    (hb : Datacap.bal dc' verifregId = Datacap.bal s.dc verifregId)
    (ha : ∀ p, Datacap.allowance dc' verifregId p = Datacap.allowance s.dc verifregId p) :
    RInv { s with dc := dc' } :=
  ⟨hg.trans h.gov, fun p => (ha p).trans (h.noAllow p), hb.trans h.reg, h.lt, h.nodup, h.claimedLt,
   h.refundedLt, h.claimedNodup, h.refundedNodup, h.disjoint, h.liveNotClaimed, h.liveNotRefunded⟩

/-! ### new allocations -/

theorem insertAllocs_inv (client : Nat) (reqs : List AllocReq) :
    ∀ (allocs : List (Nat × Allocation)) (next : Nat),
    (∀ id ∈ keys allocs, id < next) → (keys allocs).Nodup →
    next ≤ (insertAllocs allocs client next reqs).2 ∧
    (∀ id ∈ keys (insertAllocs allocs client next reqs).1, id < (insertAllocs allocs client next reqs).2) ∧
    (keys (insertAllocs allocs client next reqs).1).Nodup ∧
    isum (allocSizes (insertAllocs allocs client next reqs).1) = isum (allocSizes allocs) + isum (reqSizes reqs) ∧
    (∀ id ∈ keys (insertAllocs allocs client next reqs).1, id ∈ keys allocs ∨ next ≤ id) := by
  induction reqs with
  | nil =>
    intro allocs next hlt hn
    simp only [insertAllocs, reqSizes, List.map_nil, isum_nil]
    exact ⟨Nat.le_refl _, hlt, hn, by omega, fun id h => Or.inl h⟩
  | cons r rest ih =>
    intro allocs next hlt hn
    simp only [insertAllocs]
    have hk : ∀ (a : Allocation), keys (allocs ++ [(next, a)]) = keys allocs ++ [next] := by
      intro a; simp [keys]
    have hlt' : ∀ a, ∀ id ∈ keys (allocs ++ [(next, a)]), id < next + 1 := by
      intro a id hid
      rw [hk] at hid
      cases List.mem_append.mp hid with
      | inl e => have := hlt id e; omega
      | inr e => simp at e; omega
    have hn' : ∀ a, (keys (allocs ++ [(next, a)])).Nodup := by
      intro a
      rw [hk]
      refine List.nodup_append.mpr ⟨hn, by simp, ?_⟩
      intro x hx y hy
      simp at hy; subst hy
      have := hlt x hx; omega
    obtain ⟨a1, a2, a3, a4, a5⟩ := ih _ (next + 1) (hlt' _) (hn' _)
    refine ⟨by omega, a2, a3, ?_, ?_⟩
    · rw [a4]
      simp [allocSizes, reqSizes, isum_append]; omega
    · intro id hid
      cases a5 id hid with
      | inl e =>
        rw [hk] at e
        cases List.mem_append.mp e with
        | inl e' => exact Or.inl e'
        | inr e' => simp at e'; exact Or.inr (by omega)
      | inr e => exact Or.inr (by omega)

/-- the receiver hook re-establishes the invariant from a state in which the registry has just
    been credited `amount` (everything else of the invariant holding) -/
theorem receive_inv (s : Sys) (epoch : Int) (client : Nat) (amount : Int) (data : Option Reqs)
    (s' : Sys) (r : Ret) (h : receive s epoch client amount data = .ok (s', r))
    (h0 : 0 ≤ amount) (hm : amount % Datacap.precision = 0)
    (gov : s.dc.governor = verifregId)
    (noAllow : ∀ p, Datacap.allowance s.dc verifregId p = 0)
    (reg : Datacap.bal s.dc verifregId = toTokens (isum (allocSizes s.vr.allocs)) + amount)
    (lt : ∀ id ∈ keys s.vr.allocs, id < s.vr.nextAllocId)
    (nodup : (keys s.vr.allocs).Nodup)
    (claimedLt : ∀ id ∈ s.vr.claimedIds, id < s.vr.nextAllocId)
    (refundedLt : ∀ id ∈ s.vr.refundedIds, id < s.vr.nextAllocId)
    (claimedNodup : s.vr.claimedIds.Nodup) (refundedNodup : s.vr.refundedIds.Nodup)
    (disjoint : ∀ id ∈ s.vr.claimedIds, id ∉ s.vr.refundedIds)
    (liveNotClaimed : ∀ id ∈ keys s.vr.allocs, id ∉ s.vr.claimedIds)
    (liveNotRefunded : ∀ id ∈ keys s.vr.allocs, id ∉ s.vr.refundedIds) : RInv s' := by
  unfold receive at h
  cases data with
  | none => simp at h
  | some reqs =>
    simp only at h
    cases h1 : validateAllocReqs s epoch reqs.allocs with
    | error e => simp [h1] at h
    | ok u =>
      simp only [h1] at h
      cases h2 : collectExts s.vr.claims epoch reqs.exts with
      | error e => simp [h2] at h
      | ok p =>
        obtain ⟨ups, extTotal⟩ := p
        simp only [h2, guard_ok] at h
        obtain ⟨htot, h⟩ := h
        cases h3 : burnOwn s.dc extTotal with
        | error e => simp [h3] at h
        | ok dc1 =>
          simp only [h3] at h
          injection h with h; injection h with hs hr; subst hs
          have mv := burnOwn_moves _ _ _ h3
          have hal : dc1.allowances = s.dc.allowances := by
            unfold burnOwn at h3
            by_cases hz : extTotal = 0
            · simp [hz] at h3; subst h3; rfl
            · simp only [hz, if_false] at h3
              exact (Datacap.burnL_spec _ _ _ _ h3).2.2.2.1
          obtain ⟨a1, a2, a3, a4, a5⟩ := insertAllocs_inv client reqs.allocs s.vr.allocs s.vr.nextAllocId lt nodup
          have htot' : isum (reqSizes reqs.allocs) + extTotal = toDatacap amount := by
            simpa using htot
          have hamt : amount = toTokens (isum (reqSizes reqs.allocs)) + toTokens extTotal := by
            rw [← toTokens_add, htot', toTokens_toDatacap amount h0 hm]
          refine ⟨mv.gov.trans gov, ?_, ?_, a2, a3, ?_, ?_, claimedNodup, refundedNodup, disjoint, ?_, ?_⟩
          · intro p; simp only [Datacap.allowance, hal]; exact noAllow p
          · simp only
            rw [mv.bal verifregId, reg, a4, toTokens_add]
            simp only [if_true]
            omega
          · intro id hid; have := claimedLt id hid; simp only; omega
          · intro id hid; have := refundedLt id hid; simp only; omega
          · intro id hid
            cases a5 id hid with
            | inl e => exact liveNotClaimed id e
            | inr e => intro hc; have := claimedLt id hc; omega
          · intro id hid
            cases a5 id hid with
            | inl e => exact liveNotRefunded id e
            | inr e => intro hc; have := refundedLt id hc; omega

theorem hook_inv (s0 : Sys) (dc1 : Datacap.State) (epoch : Int) (from_ to : Nat) (amount : Int)
    (data : Option Reqs) (s' : Sys) (r : Ret) (hi : RInv s0)
    (h : hook { s0 with dc := dc1 } epoch from_ to amount data = .ok (s', r))
    (h0 : 0 ≤ amount) (hm : amount % Datacap.precision = 0)
    (hg : dc1.governor = s0.dc.governor)
    (ha : ∀ p, Datacap.allowance dc1 verifregId p = 0)
    (hb : Datacap.bal dc1 verifregId = Datacap.bal s0.dc verifregId + (if to = verifregId then amount else 0)) :
    RInv s' := by
  unfold hook at h
  by_cases ht : to = verifregId
  · simp only [ht, if_true] at h hb
    exact receive_inv _ _ _ _ _ _ _ h h0 hm (hg.trans hi.gov) ha (by simp only; rw [hb, hi.reg])
      hi.lt hi.nodup hi.claimedLt hi.refundedLt hi.claimedNodup hi.refundedNodup hi.disjoint
      hi.liveNotClaimed hi.liveNotRefunded
  · simp only [ht, if_false] at h hb
    cases hk : kindOf { s0 with dc := dc1 } to with
    | none => simp [hk] at h
    | some k =>
      cases k <;> simp [hk] at h
      obtain ⟨hs, _⟩ := h; subst hs
      exact hi.of_dc hg (by rw [hb]; omega) (fun p => (ha p).trans (hi.noAllow p).symm)

theorem dcTransfer_inv (s : Sys) (epoch : Int) (caller to : Nat) (amount : Int) (data : Option Reqs)
    (s' : Sys) (r : Ret) (hi : RInv s) (hc : caller ≠ verifregId)
    (h : dcTransfer s epoch caller to amount data = .ok (s', r)) : RInv s' := by
  unfold dcTransfer at h
  cases h1 : Datacap.transferL s.dc caller to amount with
  | error e => simp [h1] at h
  | ok dc1 =>
    simp only [h1] at h
    obtain ⟨_, a0, a1, mv⟩ := Datacap.transferL_spec _ _ _ _ _ h1
    have hal := Datacap.transferL_allow _ _ _ _ _ h1
    refine hook_inv s dc1 epoch caller to amount data s' r hi h a0 a1 mv.gov ?_ ?_
    · intro p; simp only [Datacap.allowance, hal]; exact hi.noAllow p
    · rw [mv.bal verifregId]
      have : ¬ (verifregId = caller) := fun e => hc e.symm
      by_cases ht : to = verifregId
      · subst ht; simp [this]
      · have : ¬ (verifregId = to) := fun e => ht e.symm
        simp [*]

theorem dcTransferFrom_inv (s : Sys) (epoch : Int) (caller from_ to : Nat) (amount : Int)
    (data : Option Reqs) (s' : Sys) (r : Ret) (hi : RInv s)
    (h : dcTransferFrom s epoch caller from_ to amount data = .ok (s', r)) : RInv s' := by
  unfold dcTransferFrom at h
  cases h1 : Datacap.transferFromL s.dc caller from_ to amount with
  | error e => simp [h1] at h
  | ok dc1 =>
    simp only [h1] at h
    obtain ⟨hto, a0, a1, _, mv⟩ := Datacap.transferFromL_spec _ _ _ _ _ _ h1
    obtain ⟨fr, nz⟩ := Datacap.transferFromL_frame _ _ _ _ _ _ h1
    have hf : from_ ≠ verifregId := by
      intro e; subst e; exact nz (hi.noAllow caller)
    have ht : to = verifregId := hto.trans hi.gov
    subst ht
    refine hook_inv s dc1 epoch from_ _ amount data s' r hi h a0 a1 mv.gov ?_ ?_
    · intro p; rw [fr verifregId p (fun e => hf e.symm)]; exact hi.noAllow p
    · rw [mv.bal verifregId]
      have : ¬ (verifregId = from_) := fun e => hf e.symm
      simp [this]

/-! ### removal of expired allocations -/

theorem removeAllocs_spec (client : Nat) (ids : List Nat) :
    ∀ (allocs al : List (Nat × Allocation)) (tot : Int),
    removeAllocs allocs client ids = .ok (al, tot) → (keys allocs).Nodup →
    ids.Nodup ∧ (∀ id ∈ ids, id ∈ keys allocs) ∧
    (∀ id, id ∈ keys al ↔ id ∈ keys allocs ∧ id ∉ ids) ∧ (keys al).Nodup ∧
    isum (allocSizes al) = isum (allocSizes allocs) - tot := by
  induction ids with
  | nil =>
    intro allocs al tot h hn
    simp only [removeAllocs] at h
    injection h with h; injection h with h1 h2; subst h1; subst h2
    exact ⟨by simp, by simp, fun id => by simp, hn, by omega⟩
  | cons i rest ih =>
    intro allocs al tot h hn
    simp only [removeAllocs] at h
    cases hg : getAlloc allocs client i with
    | none => simp [hg] at h
    | some a =>
      simp only [hg] at h
      cases hr : removeAllocs (aerase i allocs) client rest with
      | error e => simp [hr] at h
      | ok q =>
        obtain ⟨al2, tot2⟩ := q
        simp only [hr] at h
        injection h with h; injection h with h1 h2; subst h1; subst h2
        obtain ⟨b1, b2, b3, b4, b5⟩ := ih _ _ _ hr (nodup_keys_aerase _ _ hn)
        have hl := (getAlloc_some hg).1
        refine ⟨?_, ?_, ?_, b4, ?_⟩
        · refine List.nodup_cons.mpr ⟨?_, b1⟩
          intro hm; exact ((mem_keys_aerase _ _ _).mp (b2 i hm)).2 rfl
        · intro id hid
          cases List.mem_cons.mp hid with
          | inl e => subst e; exact mem_keys_of_alookup _ _ _ hl
          | inr e => exact ((mem_keys_aerase _ _ _).mp (b2 id e)).1
        · intro id
          rw [b3 id, mem_keys_aerase]
          simp only [List.mem_cons, not_or]
          constructor
          · intro ⟨⟨x, y⟩, z⟩; exact ⟨x, y, z⟩
          · intro ⟨x, y, z⟩; exact ⟨⟨x, y⟩, z⟩
        · rw [b5, isum_sizes_aerase _ _ _ hn hl]; omega

theorem removeExpiredAllocations_inv (s : Sys) (epoch : Int) (client : Nat) (ids : List Nat)
    (s' : Sys) (r : Ret) (hi : RInv s)
    (h : removeExpiredAllocations s epoch client ids = .ok (s', r)) : RInv s' := by
  unfold removeExpiredAllocations at h
  simp only at h
  split at h
  · simp at h
  · rename_i allocs' recovered hrm
    split at h
    · simp at h
    · rename_i s2 r2 ht
      injection h with h; injection h with hs _; subst hs
      obtain ⟨b1, b2, b3, b4, b5⟩ := removeAllocs_spec _ _ _ _ _ hrm hi.nodup
      unfold dcTransfer at ht
      split at ht
      · simp at ht
      · rename_i dc1 h1
        simp only at h1
        obtain ⟨_, a0, a1, mv⟩ := Datacap.transferL_spec _ _ _ _ _ h1
        have hal := Datacap.transferL_allow _ _ _ _ _ h1
        unfold hook at ht
        by_cases hcl : client = verifregId
        · simp [hcl, receive] at ht
        · simp only [hcl, if_false] at ht
          split at ht
          · injection ht with ht; injection ht with hs _; subst hs
            refine ⟨mv.gov.trans hi.gov, ?_, ?_, ?_, b4, hi.claimedLt, ?_, hi.claimedNodup, ?_, ?_, ?_, ?_⟩
            · intro p; simp only [Datacap.allowance, hal]; exact hi.noAllow p
            · have hb := mv.bal verifregId
              have hne : ¬ (verifregId = client) := fun e => hcl e.symm
              simp only [hne, if_false, if_true] at hb
              show Datacap.bal dc1 verifregId = toTokens (isum (allocSizes allocs'))
              rw [hb, hi.reg, b5, toTokens_sub]; omega
            · intro id hid; exact hi.lt id ((b3 id).mp hid).1
            · intro id hid
              simp only at hid
              cases List.mem_append.mp hid with
              | inl e => exact hi.refundedLt id e
              | inr e => exact hi.lt id (b2 id e)
            · simp only
              refine List.nodup_append.mpr ⟨hi.refundedNodup, b1, ?_⟩
              intro x hx y hy e
              subst e
              exact hi.liveNotRefunded x (b2 x hy) hx
            · intro id hid hr
              simp only at hr
              cases List.mem_append.mp hr with
              | inl e => exact hi.disjoint id hid e
              | inr e => exact hi.liveNotClaimed id (b2 id e) hid
            · intro id hid; exact hi.liveNotClaimed id ((b3 id).mp hid).1
            · intro id hid hr
              simp only at hr
              cases List.mem_append.mp hr with
              | inl e => exact hi.liveNotRefunded id ((b3 id).mp hid).1 e
              | inr e => exact ((b3 id).mp hid).2 e
          · simp at ht

/-! ### claims -/

/-- what the validation pass established for a new claim `(id, c)` of a sector request -/
def Validated (allocs : List (Nat × Allocation)) (provider : Nat) (epoch : Int) (sr : SectorReq)
    (p : Nat × Claim) : Prop :=
  ∃ a, alookup p.1 allocs = some a ∧ a.size = p.2.size ∧ a.provider = provider ∧
    epoch ≤ a.expiration ∧ a.termMin ≤ sr.expiry - epoch ∧ sr.expiry - epoch ≤ a.termMax ∧
    ∃ cr ∈ sr.claims, cr.allocId = p.1 ∧ cr.client = a.client ∧ cr.data = a.data ∧ cr.size = a.size

theorem validateSector_spec (allocs : List (Nat × Allocation)) (provider : Nat) (epoch : Int)
    (sector : Nat) (expiry : Int) (reqs : List ClaimReq) :
    ∀ cs, validateSector allocs provider epoch sector expiry reqs = .ok cs →
    ∀ p ∈ cs, ∃ a, alookup p.1 allocs = some a ∧ a.size = p.2.size ∧ a.provider = provider ∧
      epoch ≤ a.expiration ∧ a.termMin ≤ expiry - epoch ∧ expiry - epoch ≤ a.termMax ∧
      ∃ cr ∈ reqs, cr.allocId = p.1 ∧ cr.client = a.client ∧ cr.data = a.data ∧ cr.size = a.size := by
  induction reqs with
  | nil => intro cs h; simp [validateSector] at h; subst h; simp
  | cons r rest ih =>
    intro cs h
    simp only [validateSector] at h
    cases hg : getAlloc allocs r.client r.allocId with
    | none => simp [hg] at h
    | some a =>
      simp only [hg] at h
      by_cases hc : canClaim r provider a epoch expiry
      · simp only [hc, Bool.not_true, Bool.false_eq_true, if_false] at h
        cases hr : validateSector allocs provider epoch sector expiry rest with
        | error c => simp [hr] at h
        | ok cs' =>
          simp only [hr] at h
          injection h with h; subst h
          intro p hp
          cases List.mem_cons.mp hp with
          | inl e =>
            subst e
            unfold canClaim at hc
            simp only [Bool.and_eq_true, decide_eq_true_eq] at hc
            obtain ⟨⟨⟨⟨⟨⟨c1, c2⟩, c3⟩, c4⟩, c5⟩, c6⟩, c7⟩ := hc
            exact ⟨a, (getAlloc_some hg).1, rfl, c1.symm, c5, c6, c7, r, by simp, rfl, c2, c3, c4⟩
          | inr e =>
            obtain ⟨a', x1, x2, x3, x4, x5, x6, cr, hcr, y⟩ := ih cs' hr p e
            exact ⟨a', x1, x2, x3, x4, x5, x6, cr, by simp [hcr], y⟩
      · simp [hc] at h

theorem applySector_spec (cs : List (Nat × Claim)) :
    ∀ (allocs : List (Nat × Allocation)) (claims : List (Nat × Claim)) a' c' sp,
    applySector allocs claims cs = .ok (a', c', sp) → (keys allocs).Nodup →
    (∀ p ∈ cs, alookup p.1 claims = none → ∃ a, alookup p.1 allocs = some a ∧ a.size = p.2.size) →
    (cs.map (fun p => p.1)).Nodup ∧ (∀ id ∈ cs.map (fun p => p.1), id ∈ keys allocs) ∧
    (∀ id, id ∈ keys a' ↔ id ∈ keys allocs ∧ id ∉ cs.map (fun p => p.1)) ∧ (keys a').Nodup ∧
    isum (allocSizes a') = isum (allocSizes allocs) - sp ∧
    (∀ id x, alookup id a' = some x → alookup id allocs = some x) := by
  induction cs with
  | nil =>
    intro allocs claims a' c' sp h hn _
    simp only [applySector] at h
    injection h with h; injection h with h1 h; injection h with _ h3; subst h1; subst h3
    exact ⟨by simp, by simp, fun id => by simp, hn, by omega, fun _ _ hx => hx⟩
  | cons p rest ih =>
    intro allocs claims a' c' sp h hn hv
    obtain ⟨id0, c0⟩ := p
    simp only [applySector, guard_ok] at h
    obtain ⟨hnone, h⟩ := h
    have hnone' : alookup id0 claims = none := by
      cases hl : alookup id0 claims with
      | none => rfl
      | some v => rw [hl] at hnone; simp at hnone
    cases hr : applySector (aerase id0 allocs) (aset id0 c0 claims) rest with
    | error e => simp [hr] at h
    | ok q =>
      obtain ⟨a2, c2, sp2⟩ := q
      simp only [hr] at h
      injection h with h; injection h with h1 h; injection h with _ h3; subst h1; subst h3
      obtain ⟨a, hla, hsz⟩ := hv (id0, c0) (by simp) hnone'
      have hv' : ∀ p ∈ rest, alookup p.1 (aset id0 c0 claims) = none →
          ∃ a, alookup p.1 (aerase id0 allocs) = some a ∧ a.size = p.2.size := by
        intro p hp hnp
        have hne : p.1 ≠ id0 := by
          intro e; rw [e, alookup_aset_same] at hnp; cases hnp
        rw [alookup_aset_other _ _ _ _ hne] at hnp
        obtain ⟨a'', x, y⟩ := hv p (by simp [hp]) hnp
        exact ⟨a'', by rw [alookup_aerase_other _ _ _ hne]; exact x, y⟩
      obtain ⟨b1, b2, b3, b4, b5, b6⟩ := ih _ _ _ _ _ hr (nodup_keys_aerase _ _ hn) hv'
      refine ⟨?_, ?_, ?_, b4, ?_, ?_⟩
      · simp only [List.map_cons]
        refine List.nodup_cons.mpr ⟨?_, b1⟩
        intro hm; exact ((mem_keys_aerase _ _ _).mp (b2 id0 hm)).2 rfl
      · intro id hid
        simp only [List.map_cons] at hid
        cases List.mem_cons.mp hid with
        | inl e => subst e; exact mem_keys_of_alookup _ _ _ hla
        | inr e => exact ((mem_keys_aerase _ _ _).mp (b2 id e)).1
      · intro id
        rw [b3 id, mem_keys_aerase]
        simp only [List.map_cons, List.mem_cons, not_or]
        constructor
        · intro ⟨⟨x, y⟩, z⟩; exact ⟨x, y, z⟩
        · intro ⟨x, y, z⟩; exact ⟨⟨x, y⟩, z⟩
      · have hsz' : a.size = c0.size := hsz
        rw [b5, isum_sizes_aerase _ _ _ hn hla, hsz']; omega
      · intro id x hx
        have h1 := b6 id x hx
        by_cases e : id = id0
        · subst e; rw [alookup_aerase_same] at h1; cases h1
        · rw [alookup_aerase_other _ _ _ e] at h1; exact h1

/-- loop invariant of the `'sectors` loop, relative to the allocations table `a0` before the
    message and the full list `all` of sector requests -/
structure ClaimJ (a0 : List (Nat × Allocation)) (provider : Nat) (epoch : Int) (all : List SectorReq)
    (acc : ClaimAcc) : Prop where
  nodup : (keys acc.allocs).Nodup
  newNodup : acc.newIds.Nodup
  newOld : ∀ id ∈ acc.newIds, id ∈ keys a0 ∧ id ∉ keys acc.allocs
  sub : ∀ id x, alookup id acc.allocs = some x → alookup id a0 = some x
  subk : ∀ id ∈ keys acc.allocs, id ∈ keys a0
  sum : isum (allocSizes acc.allocs) + acc.total = isum (allocSizes a0)
  facts : ∀ id ∈ acc.newIds, ∃ sr ∈ all, ∃ c, Validated a0 provider epoch sr (id, c)

theorem claimLoop_J (a0 : List (Nat × Allocation)) (provider : Nat) (epoch : Int)
    (all : List SectorReq) (sectors : List SectorReq) : ∀ acc acc',
    (∀ sr ∈ sectors, sr ∈ all) → ClaimJ a0 provider epoch all acc →
    claimLoop provider epoch sectors acc = .ok acc' → ClaimJ a0 provider epoch all acc' := by
  induction sectors with
  | nil => intro acc acc' _ hj h; simp [claimLoop] at h; subst h; exact hj
  | cons sr rest ih =>
    intro acc acc' hall hj h
    simp only [claimLoop] at h
    have hall' : ∀ x ∈ rest, x ∈ all := fun x hx => hall x (by simp [hx])
    cases hv : validateSector acc.allocs provider epoch sr.sector sr.expiry sr.claims with
    | error code =>
      simp only [hv] at h
      exact ih { acc with codes := acc.codes ++ [code] } acc' hall'
        ⟨hj.nodup, hj.newNodup, hj.newOld, hj.sub, hj.subk, hj.sum, hj.facts⟩ h
    | ok cs =>
      simp only [hv] at h
      cases ha : applySector acc.allocs acc.claims cs with
      | error e => simp [ha] at h
      | ok q =>
        obtain ⟨a2, c2, sp⟩ := q
        simp only [ha] at h
        have vs := validateSector_spec _ _ _ _ _ _ _ hv
        obtain ⟨b1, b2, b3, b4, b5, b6⟩ := applySector_spec cs _ _ _ _ _ ha hj.nodup
          (fun p hp _ => by obtain ⟨a, x, y, _⟩ := vs p hp; exact ⟨a, x, y⟩)
        refine ih _ acc' hall' ⟨b4, ?_, ?_, ?_, ?_, ?_, ?_⟩ h
        · simp only
          refine List.nodup_append.mpr ⟨hj.newNodup, b1, ?_⟩
          intro x hx y hy e
          subst e
          exact (hj.newOld x hx).2 (b2 x hy)
        · intro id hid
          simp only at hid
          cases List.mem_append.mp hid with
          | inl e => exact ⟨(hj.newOld id e).1, fun hk => (hj.newOld id e).2 ((b3 id).mp hk).1⟩
          | inr e => exact ⟨hj.subk id (b2 id e), fun hk => ((b3 id).mp hk).2 e⟩
        · intro id x hx; exact hj.sub id x (b6 id x hx)
        · intro id hid; exact hj.subk id ((b3 id).mp hid).1
        · simp only; rw [b5, ← hj.sum]; omega
        · intro id hid
          simp only at hid
          cases List.mem_append.mp hid with
          | inl e => exact hj.facts id e
          | inr e =>
            obtain ⟨p, hp, hpe⟩ := List.mem_map.mp e
            obtain ⟨a, x1, x2, x3, x4, x5, x6, cr, hcr, y⟩ := vs p hp
            refine ⟨sr, hall sr (by simp), p.2, a, ?_, x2, x3, x4, x5, x6, cr, hcr, ?_⟩
            · simp only; rw [← hpe]; exact hj.sub _ _ x1
            · simp only; rw [← hpe]; exact y

theorem claimAllocations_inv (s : Sys) (epoch : Int) (caller : Nat) (sectors : List SectorReq)
    (aon : Bool) (s' : Sys) (r : Ret) (hi : RInv s)
    (h : claimAllocations s epoch caller sectors aon = .ok (s', r)) :
    RInv s' ∧ ∃ newIds total,
      s'.vr.claimedIds = s.vr.claimedIds ++ newIds ∧ s'.vr.refundedIds = s.vr.refundedIds ∧
      s'.dc.supply = s.dc.supply - toTokens total ∧
      isum (allocSizes s'.vr.allocs) + total = isum (allocSizes s.vr.allocs) ∧
      (∀ id ∈ newIds, alookup id s'.vr.allocs = none ∧
        ∃ sr ∈ sectors, ∃ c, Validated s.vr.allocs caller epoch sr (id, c)) := by
  unfold claimAllocations at h
  simp only [guard_ok] at h
  obtain ⟨_, _, h⟩ := h
  cases h1 : claimLoop caller epoch sectors { allocs := s.vr.allocs, claims := s.vr.claims } with
  | error e => simp [h1] at h
  | ok acc =>
    simp only [h1, guard_ok] at h
    obtain ⟨_, h⟩ := h
    cases h3 : burnOwn s.dc acc.total with
    | error e => simp [h3] at h
    | ok dc1 =>
      simp only [h3] at h
      injection h with h; injection h with hs _; subst hs
      have j0 : ClaimJ s.vr.allocs caller epoch sectors { allocs := s.vr.allocs, claims := s.vr.claims } :=
        ⟨hi.nodup, by simp, by simp, fun _ _ hx => hx, fun _ hx => hx, by simp, by simp⟩
      have j := claimLoop_J _ _ _ sectors sectors _ _ (fun _ hx => hx) j0 h1
      have mv := burnOwn_moves _ _ _ h3
      have hal : dc1.allowances = s.dc.allowances := by
        unfold burnOwn at h3
        by_cases hz : acc.total = 0
        · simp [hz] at h3; subst h3; rfl
        · simp only [hz, if_false] at h3
          exact (Datacap.burnL_spec _ _ _ _ h3).2.2.2.1
      refine ⟨⟨mv.gov.trans hi.gov, ?_, ?_, ?_, j.nodup, ?_, hi.refundedLt, ?_, hi.refundedNodup, ?_, ?_, ?_⟩,
        acc.newIds, acc.total, rfl, rfl, ?_, j.sum, ?_⟩
      · intro p; simp only [Datacap.allowance, hal]; exact hi.noAllow p
      · show Datacap.bal dc1 verifregId = toTokens (isum (allocSizes acc.allocs))
        have hb := mv.bal verifregId
        simp only [if_true] at hb
        rw [hb, hi.reg, ← j.sum, toTokens_add]; omega
      · intro id hid; exact hi.lt id (j.subk id hid)
      · intro id hid
        simp only at hid
        cases List.mem_append.mp hid with
        | inl e => exact hi.claimedLt id e
        | inr e => exact hi.lt id (j.newOld id e).1
      · simp only
        refine List.nodup_append.mpr ⟨hi.claimedNodup, j.newNodup, ?_⟩
        intro x hx y hy e
        subst e
        exact hi.liveNotClaimed x (j.newOld x hy).1 hx
      · intro id hid
        simp only at hid
        cases List.mem_append.mp hid with
        | inl e => exact hi.disjoint id e
        | inr e => exact hi.liveNotRefunded id (j.newOld id e).1
      · intro id hid hc
        simp only at hc
        cases List.mem_append.mp hc with
        | inl e => exact hi.liveNotClaimed id (j.subk id hid) e
        | inr e => exact (j.newOld id e).2 hid
      · intro id hid; exact hi.liveNotRefunded id (j.subk id hid)
      · have := mv.supply; simp only at this ⊢; rw [this]; omega
      · intro id hid
        exact ⟨alookup_none_of_not_mem _ _ (j.newOld id hid).2, j.facts id hid⟩

/-! ### every message -/

/-- external senders of token messages are never the registry itself (it only sends the
    messages its code sends, which are inside the modelled steps) -/
def Op.external : Op → Prop
  | .transfer _ c _ _ _ => c ≠ verifregId
  | .transferFrom _ c _ _ _ _ => c ≠ verifregId
  | .mint _ c _ _ => c ≠ verifregId
  | .destroy c _ _ => c ≠ verifregId
  | .burn c _ => c ≠ verifregId
  | .burnFrom c _ _ => c ≠ verifregId
  | .increaseAllowance c _ _ => c ≠ verifregId
  | .decreaseAllowance c _ _ => c ≠ verifregId
  | .revokeAllowance c _ => c ≠ verifregId
  | _ => True

theorem dcMint_frame (s : Sys) (epoch : Int) (caller to : Nat) (amount : Int) (ops : List Nat)
    (s' : Sys) (h : dcMint s epoch caller to amount ops = .ok s') :
    ∀ p, Datacap.allowance s'.dc verifregId p = Datacap.allowance s.dc verifregId p := by
  obtain ⟨_, hto, _, _, _⟩ := dcMint_spec _ _ _ _ _ _ _ h
  unfold dcMint at h
  simp only [guard_ok] at h
  obtain ⟨_, h⟩ := h
  cases h1 : Datacap.mintL s.dc to amount ops with
  | error e => simp [h1] at h
  | ok dc1 =>
    simp only [h1] at h
    have fr := Datacap.mintL_frame _ _ _ _ _ h1
    cases h2 : hook { s with dc := dc1 } epoch datacapId to amount none with
    | error e => simp [h2] at h
    | ok q =>
      obtain ⟨s2, r2⟩ := q
      simp only [h2] at h
      injection h with h; subst h
      unfold hook at h2
      simp only [hto, if_false] at h2
      cases hk : kindOf { s with dc := dc1 } to with
      | none => simp [hk] at h2
      | some k =>
        cases k <;> simp [hk] at h2
        obtain ⟨hs, _⟩ := h2; subst hs
        intro p; exact fr verifregId p (fun e => hto e.symm)

theorem RInv.of_vr {s s' : Sys} (h : RInv s) (hd : s'.dc = s.dc) (ha : s'.vr.allocs = s.vr.allocs)
    (hn : s'.vr.nextAllocId = s.vr.nextAllocId) (hc : s'.vr.claimedIds = s.vr.claimedIds)
    (hr : s'.vr.refundedIds = s.vr.refundedIds) : RInv s' :=
  ⟨by rw [hd]; exact h.gov, by rw [hd]; exact h.noAllow, by rw [hd, ha]; exact h.reg,
   by rw [ha, hn]; exact h.lt, by rw [ha]; exact h.nodup, by rw [hc, hn]; exact h.claimedLt,
   by rw [hr, hn]; exact h.refundedLt, by rw [hc]; exact h.claimedNodup, by rw [hr]; exact h.refundedNodup,
   by rw [hc, hr]; exact h.disjoint, by rw [ha, hc]; exact h.liveNotClaimed,
   by rw [ha, hr]; exact h.liveNotRefunded⟩

theorem exec_rinv (s : Sys) (op : Op) (s' : Sys) (r : Ret) (hi : RInv s) (hw : op.external)
    (h : exec s op = .ok (s', r)) : RInv s' := by
  cases op with
  | addVerifier caller addr allowance =>
    obtain ⟨_, h1, _, h3⟩ := addVerifier_spec _ _ _ _ _ (noRet_ok _ _ _ h)
    exact hi.of_vr h1 (by rw [h3]) (by rw [h3]) (by rw [h3]) (by rw [h3])
  | removeVerifier caller addr =>
    obtain ⟨_, h1, _, h3⟩ := removeVerifier_spec _ _ _ _ (noRet_ok _ _ _ h)
    exact hi.of_vr h1 (by rw [h3]) (by rw [h3]) (by rw [h3]) (by rw [h3])
  | addClient epoch caller client allowance =>
    have h := noRet_ok _ _ _ h
    unfold addClient at h
    simp only [guard_ok] at h
    obtain ⟨_, _, _, h⟩ := h
    cases hl : alookup caller s.vr.verifiers with
    | none => simp [hl] at h
    | some cap =>
      simp only [hl, guard_ok] at h
      obtain ⟨_, _, h⟩ := h
      obtain ⟨_, hto, hvr, _, mv⟩ := dcMint_spec _ _ _ _ _ _ _ h
      have hf := dcMint_frame _ _ _ _ _ _ _ h
      have hb := mv.bal verifregId
      have hne : ¬ (verifregId = client) := fun e => hto e.symm
      simp only [hne, if_false] at hb
      exact ⟨mv.gov.trans hi.gov, fun p => (hf p).trans (hi.noAllow p), by rw [hb, hvr]; simpa using hi.reg,
        by rw [hvr]; exact hi.lt, by rw [hvr]; exact hi.nodup, by rw [hvr]; exact hi.claimedLt,
        by rw [hvr]; exact hi.refundedLt, by rw [hvr]; exact hi.claimedNodup,
        by rw [hvr]; exact hi.refundedNodup, by rw [hvr]; exact hi.disjoint,
        by rw [hvr]; exact hi.liveNotClaimed, by rw [hvr]; exact hi.liveNotRefunded⟩
  | removeClientDataCap caller client v1 v2 b1 b2 amount =>
    simp only [exec] at h
    unfold removeClientDataCap at h
    simp only [guard_ok] at h
    obtain ⟨_, _, _, _, hcl, _, _, _, _, h⟩ := h
    revert h
    generalize (if toDatacap (Datacap.bal s.dc client) < amount then toDatacap (Datacap.bal s.dc client) else amount) = burnt
    intro h
    unfold destroyUpTo at h
    by_cases hb : burnt = 0
    · simp only [hb, if_true] at h
      injection h with h; injection h with hs _; subst hs; exact hi
    · simp only [hb, if_false] at h
      cases hd : dcDestroy s verifregId client (toTokens burnt) with
      | error e => simp [hd] at h
      | ok s2 =>
        simp only [hd] at h
        injection h with h; injection h with hs _; subst hs
        unfold dcDestroy at hd
        simp only [guard_ok] at hd
        obtain ⟨_, hd⟩ := hd
        cases hbn : Datacap.burnL s.dc client (toTokens burnt) with
        | error e => simp [hbn] at hd
        | ok dc1 =>
          simp only [hbn] at hd
          injection hd with hd; subst hd
          obtain ⟨_, _, _, hal, mv⟩ := Datacap.burnL_spec _ _ _ _ hbn
          have hbal := mv.bal verifregId
          have hne : ¬ (verifregId = client) := fun e => hcl e.symm
          simp only [hne, if_false] at hbal
          exact hi.of_dc mv.gov (by rw [hbal]; omega) (fun p => by simp [Datacap.allowance, hal])
  | transfer epoch caller to amount data => exact dcTransfer_inv _ _ _ _ _ _ _ _ hi hw h
  | transferFrom epoch caller from_ to amount data => exact dcTransferFrom_inv _ _ _ _ _ _ _ _ _ hi h
  | claim epoch caller sectors aon => exact (claimAllocations_inv _ _ _ _ _ _ _ hi h).1
  | removeExpiredAllocs epoch client ids => exact removeExpiredAllocations_inv _ _ _ _ _ _ hi h
  | removeExpiredClaims epoch provider ids =>
    simp only [exec] at h
    unfold removeExpiredClaims at h
    simp only at h
    split at h
    · simp at h
    · injection h with h; injection h with hs _; subst hs
      exact hi.of_vr rfl rfl rfl rfl rfl
  | extendClaimTerms caller terms =>
    simp only [exec, extendClaimTerms] at h
    injection h with h; injection h with hs _; subst hs
    exact hi.of_vr rfl rfl rfl rfl rfl
  | mint epoch caller to amount =>
    obtain ⟨hc, _⟩ := dcMint_dcstep _ _ _ _ _ _ _ (noRet_ok _ _ _ h)
    exact absurd (hc.trans hi.gov) hw
  | destroy caller owner amount =>
    obtain ⟨hc, _⟩ := dcDestroy_dcstep _ _ _ _ _ (noRet_ok _ _ _ h)
    exact absurd (hc.trans hi.gov) hw
  | burn caller amount =>
    obtain ⟨dc, h1, h2⟩ := liftDc_ok _ _ _ _ h; subst h2
    obtain ⟨_, _, _, hal, mv⟩ := Datacap.burnL_spec _ _ _ _ h1
    have hbal := mv.bal verifregId
    have hne : ¬ (verifregId = caller) := fun e => hw e.symm
    simp only [hne, if_false] at hbal
    exact hi.of_dc mv.gov (by rw [hbal]; omega) (fun p => by simp [Datacap.allowance, hal])
  | burnFrom caller owner amount =>
    obtain ⟨dc, h1, h2⟩ := liftDc_ok _ _ _ _ h; subst h2
    obtain ⟨_, _, mv⟩ := Datacap.burnFromL_spec _ _ _ _ _ h1
    obtain ⟨fr, nz⟩ := Datacap.burnFromL_frame _ _ _ _ _ h1
    have ho : owner ≠ verifregId := by intro e; subst e; exact nz (hi.noAllow caller)
    have hbal := mv.bal verifregId
    have hne : ¬ (verifregId = owner) := fun e => ho e.symm
    simp only [hne, if_false] at hbal
    exact hi.of_dc mv.gov (by rw [hbal]; omega) (fun p => fr verifregId p (fun e => ho e.symm))
  | increaseAllowance caller operator d =>
    obtain ⟨dc, h1, h2⟩ := liftDc_ok _ _ _ _ h; subst h2
    unfold Datacap.increaseAllowanceL at h1
    simp only [guard_ok] at h1
    obtain ⟨_, h1⟩ := h1
    injection h1 with h1; subst h1
    have oa := Datacap.changeAllowance_only s.dc caller operator d
    exact hi.of_dc oa.1 (oa.bal _) (fun p => Datacap.changeAllowance_frame _ _ _ _ verifregId p (fun e => hw e.symm))
  | decreaseAllowance caller operator d =>
    obtain ⟨dc, h1, h2⟩ := liftDc_ok _ _ _ _ h; subst h2
    unfold Datacap.decreaseAllowanceL at h1
    simp only [guard_ok] at h1
    obtain ⟨_, h1⟩ := h1
    injection h1 with h1; subst h1
    have oa := Datacap.changeAllowance_only s.dc caller operator (-d)
    exact hi.of_dc oa.1 (oa.bal _) (fun p => Datacap.changeAllowance_frame _ _ _ _ verifregId p (fun e => hw e.symm))
  | revokeAllowance caller operator =>
    simp only [exec] at h
    injection h with h; injection h with hs _; subst hs
    have oa := Datacap.setAllowanceRaw_only s.dc caller operator 0
    exact hi.of_dc oa.1 (oa.bal _) (fun p => Datacap.setAllowanceRaw_frame _ _ _ _ verifregId p (fun e => hw e.symm))

end BA.Verifreg
