/- Helper lemmas for the miner-funds model (`withdraw_balance`). -/
import BA.Model.MinerFunds

set_option linter.unusedSimpArgs false
set_option linter.unusedVariables false

namespace BA.MinerFunds
open BA BA.Vesting

theorem debit_spec (s : State) (x : Int) :
    (debit s x).balance = s.balance - (if 0 < x then x else 0) ∧
    (debit s x).owner = s.owner ∧ (debit s x).beneficiary = s.beneficiary ∧
    (debit s x).quota = s.quota ∧ (debit s x).usedQuota = s.usedQuota ∧
    (debit s x).expiration = s.expiration ∧ (debit s x).ledger = s.ledger ∧
    (debit s x).preCommitDeposits = s.preCommitDeposits ∧
    (debit s x).initialPledge = s.initialPledge ∧ (debit s x).feeDebt = s.feeDebt ∧
    (debit s x).earlyTerminationsPending = s.earlyTerminationsPending := by
  unfold debit
  by_cases h : 0 < x <;> simp [h]

theorem useQuota_spec (s : State) (x : Int) :
    (useQuota s x).usedQuota = s.usedQuota + (if 0 < x then x else 0) ∧
    (useQuota s x).owner = s.owner ∧ (useQuota s x).beneficiary = s.beneficiary ∧
    (useQuota s x).quota = s.quota ∧ (useQuota s x).balance = s.balance ∧
    (useQuota s x).expiration = s.expiration ∧ (useQuota s x).ledger = s.ledger ∧
    (useQuota s x).preCommitDeposits = s.preCommitDeposits ∧
    (useQuota s x).initialPledge = s.initialPledge ∧ (useQuota s x).feeDebt = s.feeDebt ∧
    (useQuota s x).earlyTerminationsPending = s.earlyTerminationsPending := by
  unfold useQuota
  by_cases h : 0 < x <;> simp [h]

theorem checkBalanceInvariants_ok (s : State) :
    checkBalanceInvariants s = .ok () ↔
      0 ≤ s.preCommitDeposits ∧ 0 ≤ s.ledger.lockedFunds ∧ 0 ≤ s.initialPledge ∧ 0 ≤ s.feeDebt ∧
      s.preCommitDeposits + s.ledger.lockedFunds + s.initialPledge ≤ s.balance := by
  unfold checkBalanceInvariants
  simp only [guard_ok]
  constructor
  · rintro ⟨a, b, c, d, e, _⟩; omega
  · rintro ⟨a, b, c, d, e⟩; exact ⟨by omega, by omega, by omega, by omega, by omega, trivial⟩

theorem stUnlock_ledger (l : Ledger) (cur : Int) (l1 : Ledger) (v : Int)
    (h : stUnlockVestedFunds l cur = .ok (l1, v)) : l1.lockedFunds = l.lockedFunds - v := by
  unfold stUnlockVestedFunds at h
  by_cases hz : l.lockedFunds = 0
  · simp only [if_pos hz] at h
    injection h with h; injection h with h1 h2
    subst h1; subst h2; omega
  · simp only [if_neg hz] at h
    by_cases hlt : l.lockedFunds - (unlockVestedFunds l.funds cur).2 < 0
    · simp only [if_pos hlt] at h; cases h
    · simp only [if_neg hlt] at h
      injection h with h; injection h with h1 h2
      subst h1; subst h2; rfl

/-- what the transaction part of `withdraw_balance` establishes -/
theorem withdrawTx_spec (s : State) (caller : Nat) (epoch requested : Int)
    (s1 : State) (amount nv fee : Int)
    (h : withdrawTx s caller epoch requested = .ok (s1, amount, nv, fee)) :
    (caller = s.owner ∨ caller = s.beneficiary) ∧ s.earlyTerminationsPending = false ∧
    ∃ ledger1, stUnlockVestedFunds s.ledger epoch = .ok (ledger1, nv) ∧
      s1.ledger = ledger1 ∧ fee = s.feeDebt ∧ s1.feeDebt = 0 ∧ s1.balance = s.balance ∧
      s1.preCommitDeposits = s.preCommitDeposits ∧ s1.initialPledge = s.initialPledge ∧
      s1.owner = s.owner ∧ s1.beneficiary = s.beneficiary ∧ s1.quota = s.quota ∧
      s1.expiration = s.expiration ∧
      s.feeDebt ≤ s.balance - ledger1.lockedFunds - s.preCommitDeposits - s.initialPledge ∧
      0 ≤ s.balance - ledger1.lockedFunds - s.preCommitDeposits - s.initialPledge ∧
      0 ≤ amount ∧
      (s.beneficiary = s.owner →
        amount = min requested
          (s.balance - ledger1.lockedFunds - s.preCommitDeposits - s.initialPledge - s.feeDebt) ∧
        s1.usedQuota = s.usedQuota) ∧
      (s.beneficiary ≠ s.owner →
        epoch < s.expiration ∧ 0 < s.quota - s.usedQuota ∧
        amount = min (min requested
          (s.balance - ledger1.lockedFunds - s.preCommitDeposits - s.initialPledge - s.feeDebt))
          (s.quota - s.usedQuota) ∧
        s1.usedQuota = s.usedQuota + amount) := by
  unfold withdrawTx at h
  simp only [guard_ok] at h
  obtain ⟨hcaller, het, h⟩ := h
  have hcall : caller = s.owner ∨ caller = s.beneficiary := by
    by_cases hc : caller = s.owner
    · exact Or.inl hc
    · by_cases hc2 : caller = s.beneficiary
      · exact Or.inr hc2
      · exact absurd ⟨hc, hc2⟩ hcaller
  have het' : s.earlyTerminationsPending = false := by
    cases hb : s.earlyTerminationsPending
    · rfl
    · exact absurd hb het
  refine ⟨hcall, het', ?_⟩
  cases hv : stUnlockVestedFunds s.ledger epoch with
  | error e => simp [hv] at h
  | ok lv =>
    obtain ⟨ledger1, vested⟩ := lv
    simp only [hv] at h
    unfold getAvailableBalance getUnlockedBalance repayDebts getUnlockedBalance at h
    simp only at h
    by_cases hun : s.balance - ledger1.lockedFunds - s.preCommitDeposits - s.initialPledge < 0
    · simp [hun] at h
    · simp only [if_neg hun] at h
      by_cases hins : s.balance - ledger1.lockedFunds - s.preCommitDeposits - s.initialPledge < s.feeDebt
      · simp [hins] at h
      · simp only [if_neg hins, guard_ok] at h
        obtain ⟨hamt, h⟩ := h
        by_cases hben : s.beneficiary = s.owner
        · have hb' : ¬ (s.beneficiary ≠ s.owner) := fun x => x hben
          simp only [if_neg hb'] at h
          injection h with h
          injection h with e1 h; injection h with e2 h; injection h with e3 e4
          subst e1; subst e3; subst e4
          refine ⟨ledger1, rfl, rfl, rfl, rfl, rfl, rfl, rfl, rfl, rfl, rfl, rfl, by omega, by omega,
            by omega, ?_, fun x => absurd hben x⟩
          intro _
          refine ⟨?_, rfl⟩
          rw [← e2]
          by_cases hc : s.balance - ledger1.lockedFunds - s.preCommitDeposits - s.initialPledge - s.feeDebt ≤ requested
          · rw [if_pos hc]; omega
          · rw [if_neg hc]; omega
        · simp only [if_pos hben, guard_ok] at h
          obtain ⟨hrem, h⟩ := h
          injection h with h
          injection h with e1 h; injection h with e2 h; injection h with e3 e4
          subst e3; subst e4
          rw [e2] at e1
          obtain ⟨u1, u2, u3, u4, u5, u6, u7, u8, u9, u10, u11⟩ :=
            useQuota_spec { s with ledger := ledger1, feeDebt := 0 } amount
          rw [e1] at u1 u2 u3 u4 u5 u6 u7 u8 u9 u10 u11
          simp only at u1 u2 u3 u4 u5 u6 u7 u8 u9 u10 u11
          unfold termAvailable at hrem e2
          simp only at hrem e2
          by_cases hexp : s.expiration > epoch
          · simp only [if_pos hexp] at hrem e2
            by_cases hq : s.quota - s.usedQuota < 0
            · simp [hq] at hrem
            · simp only [if_neg hq] at hrem e2
              have hamt' : 0 ≤ amount := by
                rw [← e2]
                split <;> split at * <;> omega
              refine ⟨ledger1, rfl, u7, rfl, u10, u5, u8, u9, u2, u3, u4, u6, by omega, by omega,
                hamt', fun x => absurd x hben, fun _ => ⟨by omega, by omega, ?_, ?_⟩⟩
              · rw [← e2]
                split <;> split <;> omega
              · rw [u1]
                by_cases hp : 0 < amount
                · rw [if_pos hp]
                · rw [if_neg hp]; omega
          · simp [hexp] at hrem

end BA.MinerFunds
