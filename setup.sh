#!/bin/sh
# Build the framework from files on disk only (offline): Lean models/proofs/driver + Rust harness.
set -e
cd "$(dirname "$0")"
export CARGO_NET_OFFLINE=true
python3 tools/extract_constants.py
for t in tools/extract_*.py tools/spec_*_to_rust.py; do [ "$t" = tools/extract_constants.py ] || python3 "$t" || true; done
(cd lean && lake build)
(cd harness && cargo build --release --offline)
mkdir -p replays evidence harness/out
echo setup-done
