# C06–C08 market
TABLE = [
    ("marketDealUpdatesInterval", "Int", "runtime/src/runtime/policy.rs", "DEAL_UPDATES_INTERVAL"),
]
