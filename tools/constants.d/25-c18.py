# C18 EVM stack limit
TABLE = [
    ("evmStackSize", "Nat", "actors/evm/src/interpreter/stack.rs", "STACK_SIZE"),
]
