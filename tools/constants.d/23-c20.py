# C20 actor identities
SEARCH.append("runtime/src/builtin/singletons.rs") if "runtime/src/builtin/singletons.rs" not in SEARCH else None
TABLE = [
    ("firstNonSingletonAddr", "Nat", "runtime/src/builtin/singletons.rs", "FIRST_NON_SINGLETON_ADDR"),
    ("eamActorId", "Nat", "runtime/src/builtin/singletons.rs", "EAM_ACTOR_ID"),
    ("initActorId", "Nat", "runtime/src/builtin/singletons.rs", "INIT_ACTOR_ID"),
    ("powerActorId", "Nat", "runtime/src/builtin/singletons.rs", "STORAGE_POWER_ACTOR_ID"),
]
