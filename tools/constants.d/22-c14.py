# C14 vesting
TABLE = [
    ("lockedRewardFactorNum", "Int", "actors/miner/src/monies.rs", "LOCKED_REWARD_FACTOR_NUM"),
    ("lockedRewardFactorDenom", "Int", "actors/miner/src/monies.rs", "LOCKED_REWARD_FACTOR_DENOM"),
]

def extra_tables():
    lines = []
    # REWARD_VESTING_SPEC (actors/miner/src/policy.rs), a struct literal
    spec = struct_const_fields("actors/miner/src/policy.rs", "REWARD_VESTING_SPEC", "VestSpec",
                               ["initial_delay", "vest_period", "step_duration", "quantization"])
    lines.append("def rewardVestInitialDelay : Int := %d" % spec["initial_delay"])
    lines.append("def rewardVestPeriod : Int := %d" % spec["vest_period"])
    lines.append("def rewardVestStepDuration : Int := %d" % spec["step_duration"])
    lines.append("def rewardVestQuantization : Int := %d" % spec["quantization"])
    return lines
