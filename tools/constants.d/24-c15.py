# C15 (miner penalties, actors/miner/src/monies.rs, policy.rs)
TABLE = [
    ("termFeePledgeNum", "Int", "actors/miner/src/monies.rs", "TERM_FEE_PLEDGE_MULTIPLE_NUM"),
    ("termFeePledgeDenom", "Int", "actors/miner/src/monies.rs", "TERM_FEE_PLEDGE_MULTIPLE_DENOM"),
    ("termFeeMinPledgeNum", "Int", "actors/miner/src/monies.rs", "TERM_FEE_MIN_PLEDGE_MULTIPLE_NUM"),
    ("termFeeMinPledgeDenom", "Int", "actors/miner/src/monies.rs", "TERM_FEE_MIN_PLEDGE_MULTIPLE_DENOM"),
    ("termFeeMaxFaultFeeNum", "Int", "actors/miner/src/monies.rs", "TERM_FEE_MAX_FAULT_FEE_MULTIPLE_NUM"),
    ("termFeeMaxFaultFeeDenom", "Int", "actors/miner/src/monies.rs", "TERM_FEE_MAX_FAULT_FEE_MULTIPLE_DENOM"),
    ("terminationLifetimeCap", "Int", "actors/miner/src/monies.rs", "TERMINATION_LIFETIME_CAP"),
    ("epochsInDay", "Int", "runtime/src/builtin/network.rs", "EPOCHS_IN_DAY"),
    ("consensusFaultFactor", "Int", "actors/miner/src/monies.rs", "CONSENSUS_FAULT_FACTOR"),
    ("expectedLeadersPerEpoch", "Int", "runtime/src/builtin/network.rs", "EXPECTED_LEADERS_PER_EPOCH"),
    ("consensusFaultReporterShare", "Int", "actors/miner/src/policy.rs", "CONSENSUS_FAULT_REPORTER_DEFAULT_SHARE"),
    ("continuedFaultProjectionPeriod", "Int", "actors/miner/src/monies.rs", "CONTINUED_FAULT_PROJECTION_PERIOD"),
    ("invalidWindowPostProjectionPeriod", "Int", "actors/miner/src/monies.rs", "INVALID_WINDOW_POST_PROJECTION_PERIOD"),
    ("dailyFeeBlockRewardCapDenom", "Int", "runtime/src/runtime/policy.rs", "DAILY_FEE_BLOCK_REWARD_CAP_DENOM"),
    ("consensusFaultIneligibilityDuration", "Int", "runtime/src/runtime/policy.rs", "CONSENSUS_FAULT_INELIGIBILITY_DURATION"),
]

# lazy_static token amounts `static ref NAME: TokenAmount = TokenAmount::from_whole(N);` (attoFIL = N * 10^18)
WHOLE_TABLE = [
    ("baseRewardForDisputedWindowPost", "actors/miner/src/monies.rs", "BASE_REWARD_FOR_DISPUTED_WINDOW_POST"),
    ("basePenaltyForDisputedWindowPost", "actors/miner/src/monies.rs", "BASE_PENALTY_FOR_DISPUTED_WINDOW_POST"),
]

def cf_reward_failure_branch():
    """C15 / finding F4: does `report_consensus_fault` add the unsent reporter reward back to the
    amount burnt when the reward transfer fails?  Structural reading of the source: the body of the
    `if let Err(e) = extract_send_result(rt.send_simple(&reporter, ...))` block inside
    `fn report_consensus_fault` is searched for `burn_amount += ...reward_amount`."""
    text = src("actors/miner/src/lib.rs")
    m = re.search(r"fn report_consensus_fault\b(.*?)\n    fn ", text, re.S)
    if not m:
        raise KeyError("report_consensus_fault")
    body = m.group(1)
    k = body.find("failed to send reward")
    if k < 0 or "send_simple(&reporter" not in body:
        raise KeyError("report_consensus_fault: reward send / failure branch not found")
    # the failure block: from the `if let Err` before the log line to the `burn_funds` call after it
    start = body.rfind("if let Err", 0, k)
    end = body.find("burn_funds(", k)
    if start < 0 or end < 0:
        raise KeyError("report_consensus_fault: failure block shape changed")
    block = body[start:end]
    fixed = re.search(r"burn_amount\s*\+=\s*&?\s*reward_amount", block) is not None
    return "def cfBurnsUnsentReward : Bool := %s" % ("true" if fixed else "false")

def extra_tables():
    out = []
    for lean, rel, name in WHOLE_TABLE:
        m = re.search(r"static\s+ref\s+%s\s*:\s*TokenAmount\s*=\s*TokenAmount::from_whole\(\s*([0-9_]+)\s*\)\s*;" % re.escape(name), src(rel))
        if not m:
            raise KeyError(name)
        out.append(f"def {lean} : Int := {int(m.group(1).replace('_', '')) * 10**18}")
    out.append(cf_reward_failure_branch())
    return out
