# C13: miner control handover (values reach the actor through `Policy::default()`, see POLICY_FIELDS)
TABLE = [
    ("minerWorkerKeyChangeDelay", "Int", "runtime/src/runtime/policy.rs", "WORKER_KEY_CHANGE_DELAY"),
    ("minerMaxControlAddresses", "Nat", "runtime/src/runtime/policy.rs", "MAX_CONTROL_ADDRESSES"),
]

# (policy field, constant it must be initialised from in `impl Default for Policy`)
POLICY_FIELDS = [
    ("worker_key_change_delay", "WORKER_KEY_CHANGE_DELAY"),
    ("max_control_addresses", "MAX_CONTROL_ADDRESSES"),
]

def extra_tables():
    """the Policy struct default must take each listed field from the named constant"""
    text = src("runtime/src/runtime/policy.rs")
    for field, const in POLICY_FIELDS:
        if not re.search(r"\b%s\s*:\s*policy_constants::%s\s*," % (field, const), text):
            raise KeyError("Policy::default() no longer sets %s from policy_constants::%s" % (field, const))
    return []
