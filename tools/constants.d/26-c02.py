# C02 power totals
TABLE = [
    ("powerConsensusMinerMinMiners", "Int", "actors/power/src/policy.rs", "CONSENSUS_MINER_MIN_MINERS"),
]
