# C16 paych, C05 cron schedule
TABLE = [
    ("paychSettleDelay", "Int", "actors/paych/src/types.rs", "SETTLE_DELAY"),
    ("paychMaxLane", "Nat", "actors/paych/src/types.rs", "MAX_LANE"),
    ("paychMaxSecretSize", "Nat", "actors/paych/src/types.rs", "MAX_SECRET_SIZE"),
    ("wpostProvingPeriod", "Int", "runtime/src/runtime/policy.rs", "WPOST_PROVING_PERIOD"),
    ("wpostChallengeWindow", "Int", "runtime/src/runtime/policy.rs", "WPOST_CHALLENGE_WINDOW"),
    ("wpostPeriodDeadlines", "Int", "runtime/src/runtime/policy.rs", "WPOST_PERIOD_DEADLINES"),
]
