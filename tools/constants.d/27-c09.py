# C09 / C10 (verifreg policy; DataCap token precision; switches for the F2/F2b repairs)
import os
TABLE = [
    ("verifregMinAllocSize", "Int", "runtime/src/runtime/policy.rs", "MINIMUM_VERIFIED_ALLOCATION_SIZE"),
    ("verifregMinAllocTerm", "Int", "runtime/src/runtime/policy.rs", "MINIMUM_VERIFIED_ALLOCATION_TERM"),
    ("verifregMaxAllocTerm", "Int", "runtime/src/runtime/policy.rs", "MAXIMUM_VERIFIED_ALLOCATION_TERM"),
    ("verifregMaxAllocExpiration", "Int", "runtime/src/runtime/policy.rs", "MAXIMUM_VERIFIED_ALLOCATION_EXPIRATION"),
    ("endOfLifeClaimDropPeriod", "Int", "runtime/src/runtime/policy.rs", "END_OF_LIFE_CLAIM_DROP_PERIOD"),
    ("minSectorExpiration", "Int", "runtime/src/runtime/policy.rs", "MIN_SECTOR_EXPIRATION"),
    ("maxSectorExpirationExtension", "Int", "runtime/src/runtime/policy.rs", "MAX_SECTOR_EXPIRATION_EXTENSION"),
]

def miner_extension_switches():
    """C10: does validate_extension_declarations reject (a) a claim id declared twice in a message
    (fix of finding F2) and (b) a sector listed in more than one declaration (fix of F2b)?
    The model carries both checks behind these switches, so it follows the source either way."""
    text = src("actors/miner/src/lib.rs")
    m = re.search(r"fn validate_extension_declarations\(.*?\n}\n", text, re.S)
    if not m:
        raise KeyError("fn validate_extension_declarations")
    body = m.group(0)
    for needle in ("claim_space_by_sector", "sc.maintain_claims", "sc.drop_claims", "get_claims(rt, &all_claim_ids)"):
        if needle not in body:
            raise KeyError("validate_extension_declarations: expected `%s`" % needle)
    dup_claims = bool(re.search(r"if\s+!\s*\w+\.insert\(\s*\*?\w*claim\w*\s*\)", body))
    dup_sectors = bool(re.search(r"\w+\.contains_any\(\s*&\w*sectors\w*\s*\)", body)
                       or re.search(r"if\s+!\s*\w+\.insert\(\s*\*?\w*sector\w*\s*\)", body))
    b = lambda x: "true" if x else "false"
    return ["def minerExtRejectsDuplicateClaims : Bool := %s" % b(dup_claims),
            "def minerExtRejectsDuplicateSectors : Bool := %s" % b(dup_sectors)]

def datacap_precision():
    """C09: DATACAP_GRANULARITY = frc46_token::TOKEN_PRECISION (external crate, version pinned by the
    repo's Cargo.lock; read from the vendored registry source)."""
    import glob
    dc = src("actors/datacap/src/lib.rs")
    if not re.search(r"pub const DATACAP_GRANULARITY\s*:\s*u64\s*=\s*TOKEN_PRECISION\s*;", dc):
        raise KeyError("DATACAP_GRANULARITY = TOKEN_PRECISION")
    lock = src("Cargo.lock")
    m = re.search(r'name = "frc46_token"\nversion = "([^"]+)"', lock)
    if not m:
        raise KeyError("frc46_token in Cargo.lock")
    home = os.environ.get("CARGO_HOME") or os.path.expanduser("~/.cargo")
    cands = glob.glob(os.path.join(home, "registry", "src", "*", "frc46_token-" + m.group(1), "src", "token", "mod.rs"))
    if not cands:
        raise KeyError("frc46_token-%s source" % m.group(1))
    mm = re.search(r"(?:pub(?:\([a-z]+\))?\s+)?const\s+TOKEN_PRECISION\s*:\s*[A-Za-z0-9_:<>]+\s*=\s*([^;]+);", open(cands[0]).read())
    if not mm:
        raise KeyError("TOKEN_PRECISION")
    return ["def datacapTokenPrecision : Int := %d" % evaluate(mm.group(1))]

def extra_tables():
    return datacap_precision() + miner_extension_switches()
