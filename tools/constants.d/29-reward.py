# C01 (reward actor payout, actors/reward/src/lib.rs)
TABLE = [
    ("rewardPenaltyMultiplier", "Int", "actors/reward/src/lib.rs", "PENALTY_MULTIPLIER"),
]
