# C12 multisig
TABLE = [
    ("msigSignersMax", "Nat", "actors/multisig/src/types.rs", "SIGNERS_MAX"),
    ("firstExportedMethodNumber", "Nat", "runtime/src/builtin/shared.rs", "FIRST_EXPORTED_METHOD_NUMBER"),
]
