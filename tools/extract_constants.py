#!/usr/bin/env python3
"""Translator: regenerate lean/BA/Generated/Constants.lean from /repo's Rust sources.

Every constant a theorem mentions is read from the source text on every run, so a changed
constant changes the model and the proofs are re-checked against it.  Fails loudly (exit 2)
when an expected definition is missing: the caller treats that as a broken tie.
"""
import re, sys, os

REPO = os.environ.get("BA_REPO") or os.path.normpath(os.path.join(os.path.dirname(os.path.abspath(__file__)), "..", "..", "repo"))
OUT = os.path.join(os.path.dirname(os.path.abspath(__file__)), "..", "lean", "BA", "Generated", "Constants.lean")

# files searched for `const NAME: T = EXPR;` when resolving identifiers
SEARCH = [
    "runtime/src/builtin/network.rs",
    "runtime/src/runtime/policy.rs",
    "runtime/src/builtin/shared.rs",
    "runtime/src/lib.rs",
    "actors/paych/src/types.rs",
    "actors/multisig/src/types.rs",
    "actors/miner/src/policy.rs",
    "actors/miner/src/monies.rs",
    "actors/miner/src/vesting_state.rs",
    "actors/market/src/policy.rs",
    "actors/market/src/lib.rs",
    "actors/verifreg/src/lib.rs",
    "actors/evm/src/interpreter/stack.rs",
    "actors/power/src/lib.rs",
    "actors/power/src/policy.rs",
    "actors/reward/src/lib.rs",
]

_src_cache = {}
def src(rel):
    if rel not in _src_cache:
        with open(os.path.join(REPO, rel)) as f:
            _src_cache[rel] = f.read()
    return _src_cache[rel]

CONST_RE = r"(?:pub(?:\([a-z]+\))?\s+)?const\s+%s\s*:\s*[A-Za-z0-9_:<>]+\s*=\s*([^;]+);"

def find_const(name, prefer=None):
    files = ([prefer] if prefer else []) + [f for f in SEARCH if f != prefer]
    for rel in files:
        try:
            m = re.search(CONST_RE % re.escape(name), src(rel))
        except FileNotFoundError:
            continue
        if m:
            return m.group(1), rel
    raise KeyError(name)

def evaluate(expr, prefer=None, depth=0):
    if depth > 20:
        raise ValueError("constant recursion too deep: " + expr)
    e = expr.strip()
    e = re.sub(r"//[^\n]*", "", e)
    e = re.sub(r"\bas\s+[iu](?:8|16|32|64|128|size)\b", "", e)
    e = re.sub(r"(\d)_(?=\d)", r"\1", e)
    e = re.sub(r"(\d)(?:[iu](?:8|16|32|64|128|size))\b", r"\1", e)
    e = e.replace("i64::MAX", str(2**63 - 1)).replace("u64::MAX", str(2**64 - 1))
    e = e.replace("ChainEpoch::MAX", str(2**63 - 1))
    def repl(m):
        name = m.group(0)
        val, rel = find_const(name, prefer)
        return "(" + str(evaluate(val, rel, depth + 1)) + ")"
    e = re.sub(r"\b[A-Z][A-Z0-9_]{2,}\b", repl, e)
    if not re.fullmatch(r"[0-9+\-*/()\s<]+", e):
        raise ValueError("cannot evaluate constant expression: %r (from %r)" % (e, expr))
    e = e.replace("/", "//")
    return int(eval(e, {"__builtins__": {}}, {}))

# (lean name, lean type, rust file, rust const name)
TABLE = [
    ("paychSettleDelay", "Int", "actors/paych/src/types.rs", "SETTLE_DELAY"),
    ("paychMaxLane", "Nat", "actors/paych/src/types.rs", "MAX_LANE"),
    ("paychMaxSecretSize", "Nat", "actors/paych/src/types.rs", "MAX_SECRET_SIZE"),
    ("wpostProvingPeriod", "Int", "runtime/src/runtime/policy.rs", "WPOST_PROVING_PERIOD"),
    ("wpostChallengeWindow", "Int", "runtime/src/runtime/policy.rs", "WPOST_CHALLENGE_WINDOW"),
    ("wpostPeriodDeadlines", "Int", "runtime/src/runtime/policy.rs", "WPOST_PERIOD_DEADLINES"),
    ("msigSignersMax", "Nat", "actors/multisig/src/types.rs", "SIGNERS_MAX"),
    ("firstExportedMethodNumber", "Nat", "runtime/src/builtin/shared.rs", "FIRST_EXPORTED_METHOD_NUMBER"),
    # C13: miner control handover (values reach the actor through `Policy::default()`, see POLICY_FIELDS)
    ("minerWorkerKeyChangeDelay", "Int", "runtime/src/runtime/policy.rs", "WORKER_KEY_CHANGE_DELAY"),
    ("minerMaxControlAddresses", "Nat", "runtime/src/runtime/policy.rs", "MAX_CONTROL_ADDRESSES"),
]

# (policy field, constant it must be initialised from in `impl Default for Policy`)
POLICY_FIELDS = [
    ("worker_key_change_delay", "WORKER_KEY_CHANGE_DELAY"),
    ("max_control_addresses", "MAX_CONTROL_ADDRESSES"),
]

def check_policy_defaults():
    """the Policy struct default must take each listed field from the named constant"""
    text = src("runtime/src/runtime/policy.rs")
    for field, const in POLICY_FIELDS:
        if not re.search(r"\b%s\s*:\s*policy_constants::%s\s*," % (field, const), text):
            raise KeyError("Policy::default() no longer sets %s from policy_constants::%s" % (field, const))

def extra_tables():
    """hook for later additions that need custom patterns (policy struct defaults etc.)"""
    check_policy_defaults()
    return []
    # C14
    ("lockedRewardFactorNum", "Int", "actors/miner/src/monies.rs", "LOCKED_REWARD_FACTOR_NUM"),
    ("lockedRewardFactorDenom", "Int", "actors/miner/src/monies.rs", "LOCKED_REWARD_FACTOR_DENOM"),
]

def struct_const_fields(rel, const_name, type_name, fields):
    """`pub const NAME: Type = Type { field: EXPR, ... };` -> {field: evaluated int}; fails loudly."""
    m = re.search(r"const\s+%s\s*:\s*%s\s*=\s*%s\s*\{(.*?)\}\s*;" % (const_name, type_name, type_name),
                  src(rel), re.S)
    if not m:
        raise KeyError("struct constant %s in %s" % (const_name, rel))
    body = re.sub(r"//[^\n]*", "", m.group(1))
    out = {}
    for part in body.split(","):
        part = part.strip()
        if not part:
            continue
        k, _, v = part.partition(":")
        out[k.strip()] = evaluate(v, rel)
    missing = [f for f in fields if f not in out]
    extra = [f for f in out if f not in fields]
    if missing or extra:
        raise KeyError("struct constant %s: missing fields %s, unknown fields %s" % (const_name, missing, extra))
    return out


def extra_tables():
    """hook for later additions that need custom patterns (policy struct defaults etc.)"""
    lines = []
    # C14: REWARD_VESTING_SPEC (actors/miner/src/policy.rs), a struct literal
    spec = struct_const_fields("actors/miner/src/policy.rs", "REWARD_VESTING_SPEC", "VestSpec",
                               ["initial_delay", "vest_period", "step_duration", "quantization"])
    lines.append("def rewardVestInitialDelay : Int := %d" % spec["initial_delay"])
    lines.append("def rewardVestPeriod : Int := %d" % spec["vest_period"])
    lines.append("def rewardVestStepDuration : Int := %d" % spec["step_duration"])
    lines.append("def rewardVestQuantization : Int := %d" % spec["quantization"])
    return lines

def main():
    lines = ["-- GENERATED by tools/extract_constants.py from /repo — do not edit by hand.",
             "namespace BA.Gen"]
    try:
        for lean, ty, rel, name in TABLE:
            val, _ = find_const(name, rel)
            v = evaluate(val, rel)
            lines.append(f"def {lean} : {ty} := {v}" if v >= 0 or ty != "Nat" else None)
        for l in extra_tables():
            lines.append(l)
    except Exception as ex:
        print("extract_constants: " + repr(ex), file=sys.stderr)
        return 2
    lines.append("end BA.Gen")
    text = "\n".join(lines) + "\n"
    out = os.path.normpath(OUT)
    old = open(out).read() if os.path.exists(out) else None
    if old != text:
        with open(out, "w") as f:
            f.write(text)
        print("extract_constants: regenerated (changed)")
    else:
        print("extract_constants: unchanged")
    return 0

if __name__ == "__main__":
    sys.exit(main())
