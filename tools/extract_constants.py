#!/usr/bin/env python3
"""Translator: regenerate lean/BA/Generated/Constants.lean from /repo's Rust sources.

Every constant a theorem mentions is read from the source text on every run, so a changed
constant changes the model and the proofs are re-checked against it.  Fails loudly (exit 2)
when an expected definition is missing: the caller treats that as a broken tie.
"""
import re, sys, os

REPO = os.environ.get("BA_REPO") or os.path.normpath(os.path.join(os.path.dirname(os.path.abspath(__file__)), "..", "..", "repo"))
OUT = os.path.join(os.path.dirname(os.path.abspath(__file__)), "..", "lean", "BA", "Generated", "Constants.lean")

# files searched for `const NAME: T = EXPR;` when resolving identifiers
SEARCH = [
    "runtime/src/builtin/network.rs",
    "runtime/src/runtime/policy.rs",
    "runtime/src/builtin/shared.rs",
    "runtime/src/lib.rs",
    "actors/paych/src/types.rs",
    "actors/multisig/src/types.rs",
    "actors/miner/src/policy.rs",
    "actors/miner/src/monies.rs",
    "actors/miner/src/vesting_state.rs",
    "actors/market/src/policy.rs",
    "actors/market/src/lib.rs",
    "actors/verifreg/src/lib.rs",
    "actors/evm/src/interpreter/stack.rs",
    "actors/power/src/lib.rs",
    "actors/power/src/policy.rs",
    "actors/reward/src/lib.rs",
]

_src_cache = {}
def src(rel):
    if rel not in _src_cache:
        with open(os.path.join(REPO, rel)) as f:
            _src_cache[rel] = f.read()
    return _src_cache[rel]

CONST_RE = r"(?:pub(?:\([a-z]+\))?\s+)?const\s+%s\s*:\s*[A-Za-z0-9_:<>]+\s*=\s*([^;]+);"

def find_const(name, prefer=None):
    files = ([prefer] if prefer else []) + [f for f in SEARCH if f != prefer]
    for rel in files:
        try:
            m = re.search(CONST_RE % re.escape(name), src(rel))
        except FileNotFoundError:
            continue
        if m:
            return m.group(1), rel
    raise KeyError(name)

def evaluate(expr, prefer=None, depth=0):
    if depth > 20:
        raise ValueError("constant recursion too deep: " + expr)
    e = expr.strip()
    e = re.sub(r"//[^\n]*", "", e)
    e = re.sub(r"\bas\s+[iu](?:8|16|32|64|128|size)\b", "", e)
    e = re.sub(r"(\d)_(?=\d)", r"\1", e)
    e = re.sub(r"(\d)(?:[iu](?:8|16|32|64|128|size))\b", r"\1", e)
    e = e.replace("i64::MAX", str(2**63 - 1)).replace("u64::MAX", str(2**64 - 1))
    e = e.replace("ChainEpoch::MAX", str(2**63 - 1))
    def repl(m):
        name = m.group(0)
        val, rel = find_const(name, prefer)
        return "(" + str(evaluate(val, rel, depth + 1)) + ")"
    e = re.sub(r"\b[A-Z][A-Z0-9_]{2,}\b", repl, e)
    if not re.fullmatch(r"[0-9+\-*/()\s<]+", e):
        raise ValueError("cannot evaluate constant expression: %r (from %r)" % (e, expr))
    e = e.replace("/", "//")
    return int(eval(e, {"__builtins__": {}}, {}))

# (lean name, lean type, rust file, rust const name)
TABLE = [
    ("paychSettleDelay", "Int", "actors/paych/src/types.rs", "SETTLE_DELAY"),
    ("paychMaxLane", "Nat", "actors/paych/src/types.rs", "MAX_LANE"),
    ("paychMaxSecretSize", "Nat", "actors/paych/src/types.rs", "MAX_SECRET_SIZE"),
    # --- C15 (miner penalties, actors/miner/src/monies.rs, policy.rs)
    ("termFeePledgeNum", "Int", "actors/miner/src/monies.rs", "TERM_FEE_PLEDGE_MULTIPLE_NUM"),
    ("termFeePledgeDenom", "Int", "actors/miner/src/monies.rs", "TERM_FEE_PLEDGE_MULTIPLE_DENOM"),
    ("termFeeMinPledgeNum", "Int", "actors/miner/src/monies.rs", "TERM_FEE_MIN_PLEDGE_MULTIPLE_NUM"),
    ("termFeeMinPledgeDenom", "Int", "actors/miner/src/monies.rs", "TERM_FEE_MIN_PLEDGE_MULTIPLE_DENOM"),
    ("termFeeMaxFaultFeeNum", "Int", "actors/miner/src/monies.rs", "TERM_FEE_MAX_FAULT_FEE_MULTIPLE_NUM"),
    ("termFeeMaxFaultFeeDenom", "Int", "actors/miner/src/monies.rs", "TERM_FEE_MAX_FAULT_FEE_MULTIPLE_DENOM"),
    ("terminationLifetimeCap", "Int", "actors/miner/src/monies.rs", "TERMINATION_LIFETIME_CAP"),
    ("epochsInDay", "Int", "runtime/src/builtin/network.rs", "EPOCHS_IN_DAY"),
    ("consensusFaultFactor", "Int", "actors/miner/src/monies.rs", "CONSENSUS_FAULT_FACTOR"),
    ("expectedLeadersPerEpoch", "Int", "runtime/src/builtin/network.rs", "EXPECTED_LEADERS_PER_EPOCH"),
    ("consensusFaultReporterShare", "Int", "actors/miner/src/policy.rs", "CONSENSUS_FAULT_REPORTER_DEFAULT_SHARE"),
    ("continuedFaultProjectionPeriod", "Int", "actors/miner/src/monies.rs", "CONTINUED_FAULT_PROJECTION_PERIOD"),
    ("invalidWindowPostProjectionPeriod", "Int", "actors/miner/src/monies.rs", "INVALID_WINDOW_POST_PROJECTION_PERIOD"),
    ("dailyFeeBlockRewardCapDenom", "Int", "runtime/src/runtime/policy.rs", "DAILY_FEE_BLOCK_REWARD_CAP_DENOM"),
    ("lockedRewardFactorNum", "Int", "actors/miner/src/monies.rs", "LOCKED_REWARD_FACTOR_NUM"),
    ("lockedRewardFactorDenom", "Int", "actors/miner/src/monies.rs", "LOCKED_REWARD_FACTOR_DENOM"),
    ("consensusFaultIneligibilityDuration", "Int", "runtime/src/runtime/policy.rs", "CONSENSUS_FAULT_INELIGIBILITY_DURATION"),
]

# lazy_static token amounts `static ref NAME: TokenAmount = TokenAmount::from_whole(N);` (attoFIL = N * 10^18)
WHOLE_TABLE = [
    ("baseRewardForDisputedWindowPost", "actors/miner/src/monies.rs", "BASE_REWARD_FOR_DISPUTED_WINDOW_POST"),
    ("basePenaltyForDisputedWindowPost", "actors/miner/src/monies.rs", "BASE_PENALTY_FOR_DISPUTED_WINDOW_POST"),
]

def cf_reward_failure_branch():
    """C15 / finding F4: does `report_consensus_fault` add the unsent reporter reward back to the
    amount burnt when the reward transfer fails?  Structural reading of the source: the body of the
    `if let Err(e) = extract_send_result(rt.send_simple(&reporter, ...))` block inside
    `fn report_consensus_fault` is searched for `burn_amount += ...reward_amount`."""
    text = src("actors/miner/src/lib.rs")
    m = re.search(r"fn report_consensus_fault\b(.*?)\n    fn ", text, re.S)
    if not m:
        raise KeyError("report_consensus_fault")
    body = m.group(1)
    k = body.find("failed to send reward")
    if k < 0 or "send_simple(&reporter" not in body:
        raise KeyError("report_consensus_fault: reward send / failure branch not found")
    # the failure block: from the `if let Err` before the log line to the `burn_funds` call after it
    start = body.rfind("if let Err", 0, k)
    end = body.find("burn_funds(", k)
    if start < 0 or end < 0:
        raise KeyError("report_consensus_fault: failure block shape changed")
    block = body[start:end]
    fixed = re.search(r"burn_amount\s*\+=\s*&?\s*reward_amount", block) is not None
    return "def cfBurnsUnsentReward : Bool := %s" % ("true" if fixed else "false")

def extra_tables():
    """hook for later additions that need custom patterns (policy struct defaults etc.)"""
    out = []
    for lean, rel, name in WHOLE_TABLE:
        m = re.search(r"static\s+ref\s+%s\s*:\s*TokenAmount\s*=\s*TokenAmount::from_whole\(\s*([0-9_]+)\s*\)\s*;" % re.escape(name), src(rel))
        if not m:
            raise KeyError(name)
        out.append(f"def {lean} : Int := {int(m.group(1).replace('_', '')) * 10**18}")
    out.append(cf_reward_failure_branch())
    return out

def main():
    lines = ["-- GENERATED by tools/extract_constants.py from /repo — do not edit by hand.",
             "namespace BA.Gen"]
    try:
        for lean, ty, rel, name in TABLE:
            val, _ = find_const(name, rel)
            v = evaluate(val, rel)
            lines.append(f"def {lean} : {ty} := {v}" if v >= 0 or ty != "Nat" else None)
        for l in extra_tables():
            lines.append(l)
    except Exception as ex:
        print("extract_constants: " + repr(ex), file=sys.stderr)
        return 2
    lines.append("end BA.Gen")
    text = "\n".join(lines) + "\n"
    out = os.path.normpath(OUT)
    old = open(out).read() if os.path.exists(out) else None
    if old != text:
        with open(out, "w") as f:
            f.write(text)
        print("extract_constants: regenerated (changed)")
    else:
        print("extract_constants: unchanged")
    return 0

if __name__ == "__main__":
    sys.exit(main())
